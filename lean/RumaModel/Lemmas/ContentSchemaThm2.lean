/-
  Helper lemmas for C18's schema model, part 3: no duplicate keys, key-order independence, unknown
  fields, value preservation — in their inductive form. Core Lean only.
-/
import RumaModel.Lemmas.ContentSchemaThm
namespace Ruma.ContentSchema
open Ruma Ruma.Canonical

/-! ### No duplicate keys -/

theorem noDupKeys_of_scalar {v : JVal} (h : isScalar v = true) : NoDupKeys v := by
  cases v <;> simp [isScalar, NoDupKeys] at h ⊢

theorem out_keys_nodup : ∀ {fs : List Field} {o out : Obj}, Distinct fs → collect (outs fs o) = some out →
    (Obj.keys out).Nodup
  | [], _, out, _, h => by
    simp [outs, collect] at h; subst h; exact List.nodup_nil
  | g :: fs', o, out, hd, h => by
    have hd' : (∀ x ∈ fs', g.spelledBy x.name = false ∧ x.spelledBy g.name = false) ∧ Distinct fs' :=
      List.pairwise_cons.mp hd
    change collect ((g.name, outOf g (g.look o)) :: outs fs' o) = some out at h
    cases hg : outOf g (g.look o) with
    | fail => rw [hg] at h; simp [collect] at h
    | nothing => rw [hg, collect] at h; exact out_keys_nodup hd'.2 h
    | emit v =>
      rw [hg, collect] at h
      cases ht : collect (outs fs' o) with
      | none => rw [ht] at h; cases h
      | some out' =>
        rw [ht] at h
        simp only [Option.some.injEq] at h
        subst h
        simp only [Obj.keys, List.map_cons, List.nodup_cons]
        refine ⟨?_, out_keys_nodup hd'.2 ht⟩
        intro hm
        obtain ⟨e, he, hk⟩ := List.mem_map.mp hm
        obtain ⟨x, hx, hn, _⟩ := out_key_is_name ht e he
        have h1 := (hd'.1 x hx).1
        rw [hn, hk] at h1
        rw [spelledBy_self] at h1
        cases h1

theorem rest_unknown {fields : List Field} {keep : Bool} {o : Obj} :
    ∀ e ∈ (if keep = true then Obj.ofList (serdeValueO (o.filter (fun e => !known fields e.1))) else []),
      known fields e.1 = false ∧ NoDupKeys e.2 := by
  intro e he
  cases keep with
  | false => simp at he
  | true =>
    simp only [if_true] at he
    have h1 := mem_ofList he
    refine ⟨?_, serdeValueO_noDup _ e h1⟩
    rw [serdeValueO_eq_map, List.mem_map] at h1
    obtain ⟨e0, he0, rfl⟩ := h1
    simpa using (List.mem_filter.mp he0).2

theorem rest_keys_nodup {fields : List Field} {keep : Bool} {o : Obj} :
    (Obj.keys (if keep = true then Obj.ofList (serdeValueO (o.filter (fun e => !known fields e.1))) else [])).Nodup := by
  cases keep with
  | false => exact List.nodup_nil
  | true => exact sorted_keys_nodup (ofList_sorted _)

theorem project_noDup : ∀ (s : Schema), WF s → ∀ v v', project s v = some v' → NoDupKeys v' := by
  intro s
  induction s using Schema.ind with
  | any =>
    intro _ v v' h
    rw [project] at h
    simp only [Option.some.injEq] at h
    subst h
    exact serdeValue_noDup v
  | scalar n =>
    intro _ v v' h
    exact noDupKeys_of_scalar (project_scalar_some h).2.2
  | arr e ih =>
    intro hwf v v' h
    cases hwf with
    | arr he =>
      cases v <;> simp only [project, reduceCtorEq] at h
      rename_i xs
      cases ha : allSome (xs.map (project e)) with
      | none => rw [ha] at h; cases h
      | some ys =>
        rw [ha] at h
        simp only [Option.some.injEq] at h
        subst h
        rw [NoDupKeys, noDupKeysL_iff]
        intro y hy
        obtain ⟨x, _, hxy⟩ := forall₂_mem_right (allSome_map_eq_some ha) y hy
        exact ih he x y hxy
  | map ok s ih =>
    intro hwf v v' h
    cases hwf with
    | map hs =>
      cases v with
      | null | bool _ | int _ | float | str _ | arr _ => simp [project] at h
      | obj kvs =>
        rw [project_map] at h
        cases ha : allSome (kvs.map (mapEntry ok s)) with
        | none => rw [ha] at h; cases h
        | some l =>
          rw [ha] at h
          simp only [Option.some.injEq] at h
          subst h
          rw [NoDupKeys, noDupKeysO_iff]
          refine ⟨sorted_keys_nodup (ofList_sorted _), fun e he => ?_⟩
          obtain ⟨kv, _, hkv⟩ := forall₂_mem_right (allSome_map_eq_some ha) e (mem_ofList he)
          exact ih hs _ _ (mapEntry_some hkv).2.2
  | obj fields keep ih =>
    intro hwf v v' h
    cases hwf with
    | obj hsub hok hd _ =>
      cases v with
      | null | bool _ | int _ | float | str _ | arr _ => simp [project] at h
      | obj o =>
        rw [project_obj'] at h
        cases hc : collect (outs fields o) with
        | none => rw [hc] at h; cases h
        | some out =>
          rw [hc] at h
          simp only [Option.some.injEq] at h
          subst h
          rw [NoDupKeys, noDupKeysO_iff]
          constructor
          · simp only [Obj.keys, List.map_append]
            rw [List.nodup_append]
            refine ⟨out_keys_nodup hd hc, rest_keys_nodup, ?_⟩
            intro a ha b hb hab
            obtain ⟨e, he, rfl⟩ := List.mem_map.mp ha
            obtain ⟨e', he', hk⟩ := List.mem_map.mp hb
            obtain ⟨g, hg, hn, _⟩ := out_key_is_name hc e he
            have h1 : known fields e.1 = true := known_of_mem hg (hn ▸ spelledBy_self g)
            have h2 := (rest_unknown e' he').1
            rw [hk, ← hab, h1] at h2
            cases h2
          · intro e he
            rcases List.mem_append.mp he with he | he
            · obtain ⟨g, hg, _, hout⟩ := out_key_is_name hc e he
              rcases outOf_cases g (g.look o) _ hout with h1 | h1 | ⟨v0, nv, _, _, _, hp, hr⟩
              · cases h1
              · obtain ⟨_, hd2⟩ := absentOut_emit.mp h1
                rcases (hok g hg).2 _ hd2 with ⟨_, h2⟩ | h2
                · rw [h2]; trivial
                · exact ih g hg (hsub g hg) _ _ h2
              · by_cases hs : g.skip nv = true
                · rw [if_pos hs] at hr; cases hr
                · rw [if_neg hs] at hr
                  simp only [Out.emit.injEq] at hr
                  rw [hr]
                  exact ih g hg (hsub g hg) _ _ hp
            · exact (rest_unknown e he).2
  | nullOr s ih =>
    intro hwf v v' h
    cases hwf with
    | nullOr hs =>
      by_cases hv : v = .null
      · subst hv
        rw [project_nullOr_null] at h
        simp only [Option.some.injEq] at h
        subst h
        trivial
      · rw [project_nullOr _ _ hv] at h
        exact ih hs _ _ h
  | tagged tag cases ih =>
    intro hwf v v' h
    cases hwf with
    | tagged hsub _ =>
      cases v with
      | null | bool _ | int _ | float | str _ | arr _ => simp [project] at h
      | obj o =>
        rw [project_tagged] at h
        cases ht : tagOf tag o with
        | none => rw [ht] at h; cases h
        | some t =>
          rw [ht] at h
          simp only at h
          cases hf : cases.find? (fun c => c.label == t) with
          | none => rw [hf] at h; cases h
          | some c =>
            rw [hf] at h
            have hc := List.mem_of_find?_eq_some hf
            exact ih c hc (hsub c hc) _ _ h

/-! ### What a field reads decides what it writes -/

inductive LookRel (R : JVal → JVal → Prop) : Look → Look → Prop
  | absent : LookRel R .absent .absent
  | dup : LookRel R .dup .dup
  | one {v w : JVal} : R v w → LookRel R (.one v) (.one w)

theorem outOf_lookRel {f : Field} {R : JVal → JVal → Prop}
    (hR : ∀ v w, R v w → project f.schema v = project f.schema w ∧ isNull v = isNull w)
    {l1 l2 : Look} (h : LookRel R l1 l2) : outOf f l1 = outOf f l2 := by
  cases h with
  | absent => rfl
  | dup => rfl
  | one hvw =>
    obtain ⟨h1, h2⟩ := hR _ _ hvw
    unfold outOf
    simp only [h1, h2]

/-- Entry lists with the same keys in the same order and related values. -/
def EntriesRel (R : JVal → JVal → Prop) : List (Str × JVal) → List (Str × JVal) → Prop :=
  All2 (fun x y => x.1 = y.1 ∧ R x.2 y.2)

theorem entriesRel_filter {R : JVal → JVal → Prop} (p : Str → Bool) {a b : List (Str × JVal)}
    (h : EntriesRel R a b) : EntriesRel R (a.filter (fun e => p e.1)) (b.filter (fun e => p e.1)) := by
  induction h with
  | nil => exact .nil
  | @cons x y xs ys hxy _ ih =>
    rw [List.filter_cons, List.filter_cons, ← hxy.1]
    by_cases hp : p x.1 = true
    · rw [if_pos hp, if_pos hp]; exact .cons hxy ih
    · rw [if_neg hp, if_neg hp]; exact ih

theorem entriesRel_keys {R : JVal → JVal → Prop} {a b : List (Str × JVal)} (h : EntriesRel R a b) :
    Obj.keys a = Obj.keys b := by
  induction h with
  | nil => rfl
  | cons hxy _ ih => simp only [Obj.keys, List.map_cons, hxy.1]; exact congrArg _ ih

theorem pick_rel {R : JVal → JVal → Prop} {A B C : List (Str × JVal)} (h : EntriesRel R A B) (hp : B.Perm C) :
    LookRel R (pick A) (pick C) := by
  cases h with
  | nil =>
    have := hp.nil_eq; subst this; exact .absent
  | cons hxy ht =>
    cases ht with
    | nil =>
      have := List.singleton_perm.mp hp; subst this
      exact .one hxy.2
    | cons _ _ =>
      have hl := hp.length_eq
      match C, hl with
      | _ :: _ :: _, _ => exact .dup

theorem entriesRel_map {R : JVal → JVal → Prop} {g : Str × JVal → β}
    (hg : ∀ x y : Str × JVal, x.1 = y.1 → R x.2 y.2 → g x = g y) {a b : List (Str × JVal)}
    (h : EntriesRel R a b) : a.map g = b.map g := by
  induction h with
  | nil => rfl
  | cons hxy _ ih => simp only [List.map_cons, hg _ _ hxy.1 hxy.2, ih]

/-! ### Key order -/

theorem shuffled_isNull {v w : JVal} (h : Shuffled v w) : isNull v = isNull w := by
  cases h <;> rfl

theorem shuffledL_map {f : JVal → β} (hf : ∀ v w, Shuffled v w → f v = f w) :
    ∀ {xs ys : List JVal}, ShuffledL xs ys → xs.map f = ys.map f
  | _, _, .nil => rfl
  | _, _, .cons h t => by simp only [List.map_cons, hf _ _ h, shuffledL_map hf t]

theorem shuffledO_entriesRel : ∀ {a b : List (Str × JVal)}, ShuffledO a b → EntriesRel Shuffled a b
  | _, _, .nil => .nil
  | _, _, .cons h t => .cons ⟨rfl, h⟩ (shuffledO_entriesRel t)

theorem entriesRel_shuffledO : ∀ {a b : List (Str × JVal)}, EntriesRel Shuffled a b → ShuffledO a b := by
  intro a b h
  induction h with
  | nil => exact .nil
  | @cons x y xs ys hxy _ ih =>
    obtain ⟨k, v⟩ := x
    obtain ⟨k', w⟩ := y
    simp only at hxy
    obtain ⟨rfl, hvw⟩ := hxy
    exact .cons hvw ih

theorem mapEntry_congr {ok : Str → Bool} {s : Schema} {x y : Str × JVal} (hk : x.1 = y.1)
    (hv : project s x.2 = project s y.2) : mapEntry ok s x = mapEntry ok s y := by
  unfold mapEntry
  rw [hk, hv]

theorem allSome_mapEntry_keys {ok : Str → Bool} {s : Schema} :
    ∀ {l a : List (Str × JVal)}, allSome (l.map (mapEntry ok s)) = some a → Obj.keys a = Obj.keys l := by
  intro l a h
  have := allSome_map_eq_some h
  clear h
  induction this with
  | nil => rfl
  | cons hxy _ ih =>
    simp only [Obj.keys, List.map_cons]
    rw [(mapEntry_some hxy).2.1]
    exact congrArg _ ih

/-- The selector of `tagOf` on what the visitor found. -/
def tagSel : Look → Option Str
  | .one (.str s) => some s
  | _ => none

theorem tagOf_eq (tag : Str) (o : Obj) : tagOf tag o = tagSel (pick (o.filter (fun e => e.1 == tag))) := by
  unfold tagOf
  cases h : pick (o.filter (fun e => e.1 == tag)) with
  | absent => rfl
  | dup => rfl
  | one v => cases v <;> rfl

theorem tagSel_rel {l1 l2 : Look} (h : LookRel Shuffled l1 l2) : tagSel l1 = tagSel l2 := by
  cases h with
  | absent => rfl
  | dup => rfl
  | one hvw => cases hvw <;> rfl

/-- The map case, given how the input entries are related. -/
theorem map_perm_project {ok : Str → Bool} {s : Schema} {kvs mid kvs' : List (Str × JVal)}
    (h1 : kvs.map (mapEntry ok s) = mid.map (mapEntry ok s)) (hk : Obj.keys kvs = Obj.keys mid)
    (hp : mid.Perm kvs') (hnd : (Obj.keys kvs).Nodup) :
    project (.map ok s) (.obj kvs) = project (.map ok s) (.obj kvs') := by
  rw [project_map, project_map, h1]
  rcases allSome_perm (hp.map (mapEntry ok s)) with ⟨e1, e2⟩ | ⟨a, a', e1, e2, hpa⟩
  · rw [e1, e2]
  · rw [e1, e2]
    simp only
    have hka : Obj.keys a = Obj.keys mid := allSome_mapEntry_keys e1
    rw [ofList_perm hpa (by rw [hka, ← hk]; exact hnd)]

theorem keys_filter_nodup {o : List (Str × JVal)} (p : Str × JVal → Bool) (h : (Obj.keys o).Nodup) :
    (Obj.keys (o.filter p)).Nodup :=
  List.Nodup.sublist (List.Sublist.map _ List.filter_sublist) h

/-- The kept unknown entries do not depend on the order of the input's entries. -/
theorem rest_shuffled {q : Str → Bool} {kvs mid kvs' : List (Str × JVal)}
    (ho : ShuffledO kvs mid) (hp : mid.Perm kvs') (hnd : (Obj.keys kvs).Nodup) :
    Obj.ofList (serdeValueO (kvs.filter (fun e => q e.1))) =
      Obj.ofList (serdeValueO (kvs'.filter (fun e => q e.1))) := by
  have h1 : ShuffledO (kvs.filter (fun e => q e.1)) (mid.filter (fun e => q e.1)) :=
    entriesRel_shuffledO (entriesRel_filter q (shuffledO_entriesRel ho))
  rw [shuffledO_serdeValue h1]
  have h2 : (serdeValueO (mid.filter (fun e => q e.1))).Perm (serdeValueO (kvs'.filter (fun e => q e.1))) := by
    rw [serdeValueO_eq_map, serdeValueO_eq_map]
    exact (hp.filter _).map _
  apply ofList_perm h2
  rw [serdeValueO_keys]
  apply keys_filter_nodup
  rw [← shuffledO_keys ho]; exact hnd

theorem tagOf_shuffled {tag : Str} {kvs mid kvs' : List (Str × JVal)}
    (ho : ShuffledO kvs mid) (hp : mid.Perm kvs') : tagOf tag kvs = tagOf tag kvs' := by
  rw [tagOf_eq, tagOf_eq]
  exact tagSel_rel (pick_rel (entriesRel_filter (fun k => k == tag) (shuffledO_entriesRel ho)) (hp.filter _))

theorem shuffled_project : ∀ (s : Schema) (v w : JVal), Shuffled v w → project s v = project s w := by
  intro s
  induction s using Schema.ind with
  | any => intro v w h; rw [project, project, shuffled_serdeValue h]
  | scalar n =>
    intro v w h
    cases h with
    | atom => rfl
    | arr _ => rw [project_scalar, project_scalar]; rfl
    | obj _ _ _ => rw [project_scalar, project_scalar]; rfl
  | arr e ih =>
    intro v w h
    cases h with
    | atom => rfl
    | arr hl => rw [project, project, shuffledL_map ih hl]
    | obj _ _ _ => simp [project]
  | map ok s ih =>
    intro v w h
    cases h with
    | atom => rfl
    | arr _ => simp [project]
    | obj ho hp hnd =>
      refine map_perm_project ?_ (shuffledO_keys ho) hp hnd
      exact entriesRel_map (R := Shuffled) (fun x y hk hv => mapEntry_congr hk (ih _ _ hv)) (shuffledO_entriesRel ho)
  | obj fields keep ih =>
    intro v w h
    cases h with
    | atom => rfl
    | arr _ => simp [project]
    | obj ho hp hnd =>
      rename_i kvs mid kvs'
      rw [project_obj', project_obj']
      have houts : outs fields kvs = outs fields kvs' := by
        apply List.map_congr_left
        intro f hf
        have hl : LookRel Shuffled (f.look kvs) (f.look kvs') :=
          pick_rel (entriesRel_filter (fun k => spells f.name f.aliases k) (shuffledO_entriesRel ho)) (hp.filter _)
        rw [outOf_lookRel (fun v w hvw => ⟨ih f hf v w hvw, shuffled_isNull hvw⟩) hl]
      rw [houts]
      cases keep with
      | false => rfl
      | true =>
        simp only [if_true]
        rw [rest_shuffled (q := fun k => !known fields k) ho hp hnd]
  | nullOr s ih =>
    intro v w h
    cases h with
    | atom => rfl
    | arr hl =>
      rw [project_nullOr _ _ (by intro e; cases e), project_nullOr _ _ (by intro e; cases e)]
      exact ih _ _ (.arr hl)
    | obj ho hp hnd =>
      rw [project_nullOr _ _ (by intro e; cases e), project_nullOr _ _ (by intro e; cases e)]
      exact ih _ _ (.obj ho hp hnd)
  | tagged tag cases ih =>
    intro v w h
    cases h with
    | atom => rfl
    | arr _ => simp [project]
    | obj ho hp hnd =>
      rw [project_tagged, project_tagged, tagOf_shuffled ho hp]
      cases tagOf tag _ with
      | none => rfl
      | some t =>
        simp only
        cases hf : cases.find? (fun c => c.label == t) with
        | none => rfl
        | some c => exact ih c (List.mem_of_find?_eq_some hf) _ _ (.obj ho hp hnd)

/-! ### Unknown fields -/

theorem filter_known_spelled {fields : List Field} {f : Field} (hf : f ∈ fields) (o : Obj) :
    (o.filter (fun e => known fields e.1)).filter (fun e => spells f.name f.aliases e.1) =
      o.filter (fun e => spells f.name f.aliases e.1) := by
  rw [List.filter_filter]
  apply List.filter_congr
  intro e _
  cases hsp : spells f.name f.aliases e.1 with
  | false => rfl
  | true => simp [known_of_mem hf (show f.spelledBy e.1 = true from hsp)]

/-- What relates two values read under `s` for the purposes of a field: same result, same
`null`-ness. -/
def SameRead (s : Schema) (v w : JVal) : Prop := project s v = project s w ∧ isNull v = isNull w

mutual
theorem ext_sameRead : ∀ {s : Schema} {v w : JVal}, Ext s v w → SameRead s v w
  | _, _, _, .refl _ _ => ⟨rfl, rfl⟩
  | _, _, _, .arr (e := e) hl => by
    refine ⟨?_, rfl⟩
    rw [project, project, extL_project hl]
  | _, _, _, .map (ok := ok) hm => by
    refine ⟨?_, rfl⟩
    rw [project_map, project_map, extM_project hm ok]
  | _, _, _, .nullOr (s := s) (v := v) (w := w) h => by
    have ⟨h1, h2⟩ := ext_sameRead h
    refine ⟨?_, h2⟩
    by_cases hv : v = .null
    · subst hv
      have : w = .null := by cases w <;> simp [isNull] at h2 ⊢
      subst this; rfl
    · have hw : w ≠ .null := by
        intro e; subst e
        cases v <;> simp [isNull] at h2 hv
      rw [project_nullOr _ _ hv, project_nullOr _ _ hw, h1]
  | _, _, _, .obj (fields := fields) (keep := keep) (a := a) (b := b) ho hk => by
    refine ⟨?_, rfl⟩
    rw [project_obj', project_obj']
    have houts : outs fields a = outs fields b := by
      apply List.map_congr_left
      intro f hf
      have hrel := extO_rel ho f hf
      rw [filter_known_spelled hf, filter_known_spelled hf] at hrel
      have hl : LookRel (SameRead f.schema) (f.look a) (f.look b) := pick_rel hrel (List.Perm.refl _)
      rw [outOf_lookRel (fun v w hvw => hvw) hl]
    rw [houts]
    cases keep with
    | false => rfl
    | true => simp only [if_true]; rw [hk rfl]
  | _, _, _, .tagged (tag := tag) (cases := cases) (a := a) (b := b) ht hc => by
    refine ⟨?_, rfl⟩
    rw [project_tagged, project_tagged]
    have htag : tagOf tag a = tagOf tag b := by rw [tagOf_eq, tagOf_eq, ht]
    rw [← htag]
    cases hta : tagOf tag a with
    | none => rfl
    | some t =>
      simp only
      cases hf : cases.find? (fun c => c.label == t) with
      | none => rfl
      | some c =>
        have hlab : c.label = t := by simpa using List.find?_some hf
        exact (ext_sameRead (hc c (List.mem_of_find?_eq_some hf) (by rw [hta, hlab]))).1
theorem extL_project : ∀ {e : Schema} {xs ys : List JVal}, ExtL e xs ys → xs.map (project e) = ys.map (project e)
  | _, _, _, .nil _ => rfl
  | _, _, _, .cons h t => by
    simp only [List.map_cons, (ext_sameRead h).1, extL_project t]
theorem extM_project : ∀ {s : Schema} {a b : List (Str × JVal)}, ExtM s a b →
    ∀ ok, a.map (mapEntry ok s) = b.map (mapEntry ok s)
  | _, _, _, .nil _, _ => rfl
  | _, _, _, .cons (k := k) (v := v) (w := w) h t, ok => by
    simp only [List.map_cons, extM_project t ok]
    rw [mapEntry_congr (x := (k, v)) (y := (k, w)) rfl (ext_sameRead h).1]
theorem extO_rel : ∀ {fields : List Field} {a b : List (Str × JVal)}, ExtO fields a b →
    ∀ f ∈ fields, EntriesRel (SameRead f.schema)
      (a.filter (fun e => spells f.name f.aliases e.1)) (b.filter (fun e => spells f.name f.aliases e.1))
  | _, _, _, .nil _, _, _ => .nil
  | _, _, _, .cons (k := k) hf t, f, hmem => by
    rw [List.filter_cons, List.filter_cons]
    by_cases hsp : spells f.name f.aliases k = true
    · simp only [hsp, if_true]
      exact .cons ⟨rfl, ext_sameRead (hf f hmem hsp)⟩ (extO_rel t f hmem)
    · simp only [hsp]
      exact extO_rel t f hmem
end

theorem ext_project {s : Schema} {v w : JVal} (h : Ext s v w) : project s v = project s w :=
  (ext_sameRead h).1

/-! ### Values that were present -/

theorem scalar_verbatim {norm : JVal → Option JVal} (hv : Verbatim norm) {v nv : JVal}
    (h : project (.scalar norm) v = some nv) : nv = v :=
  hv v nv (project_scalar_some h).2.1

theorem obj_preserves {fields : List Field} {keep : Bool} {o : Obj} {v' : JVal} (hd : Distinct fields)
    (h : project (.obj fields keep) (.obj o) = some v') {f : Field} (hf : f ∈ fields)
    (hg : f.ghost = false) {v nv : JVal} (hl : f.look o = .one v)
    (hna : (f.nullAbsent && isNull v) = false) (hp : project f.schema v = some nv) :
    ∃ o', v' = .obj o' ∧ (f.skip nv = false → (f.name, nv) ∈ o') ∧
      (f.skip nv = true → ∀ e ∈ o', e.1 ≠ f.name) := by
  rw [project_obj'] at h
  cases hc : collect (outs fields o) with
  | none => rw [hc] at h; cases h
  | some out =>
    rw [hc] at h
    simp only [Option.some.injEq] at h
    subst h
    refine ⟨_, rfl, ?_, ?_⟩
    · intro hs
      apply List.mem_append_left
      apply mem_collect hc
      refine List.mem_map.mpr ⟨f, hf, ?_⟩
      rw [hl, outOf_one hg, hna, hp]
      simp [hs]
    · intro hs e he hk
      have hout : outOf f (f.look o) = .nothing := by
        rw [hl, outOf_one hg, hna, hp]; simp [hs]
      rcases List.mem_append.mp he with he | he
      · have hself := filter_out_self hd hc hf
        rw [hout] at hself
        simp only at hself
        have : e ∈ out.filter (fun e => f.spelledBy e.1) :=
          List.mem_filter.mpr ⟨he, by rw [hk]; exact spelledBy_self f⟩
        rw [hself] at this; cases this
      · have h1 := (rest_unknown e he).1
        rw [hk, known_of_mem hf (spelledBy_self f)] at h1
        cases h1

/-- Whether a struct accepts an object depends on the entries with known keys only. -/
theorem obj_accepts_known_only {fields : List Field} {keep : Bool} {o o' : Obj}
    (h : o.filter (fun e => known fields e.1) = o'.filter (fun e => known fields e.1)) :
    (project (.obj fields keep) (.obj o)).isSome = (project (.obj fields keep) (.obj o')).isSome := by
  rw [project_obj', project_obj']
  have houts : outs fields o = outs fields o' := by
    apply List.map_congr_left
    intro f hf
    have : f.look o = f.look o' := by
      unfold Field.look look
      rw [← filter_known_spelled hf o, ← filter_known_spelled hf o', h]
    rw [this]
  rw [houts]
  cases collect (outs fields o') <;> rfl

/-! ### The scalar types are well-formed -/

theorem wf_str {norm : Str → Option Str} (h : ∀ a b, norm a = some b → norm b = some b) : WF (Schema.str norm) := by
  refine .scalar ?_ ?_
  · intro a b hab
    cases a <;> simp only [reduceCtorEq] at hab
    rename_i x
    cases hx : norm x with
    | none => rw [hx] at hab; cases hab
    | some y =>
      rw [hx] at hab
      simp only [Option.some.injEq] at hab
      subst hab
      simp only [h x y hx]
  · intro a ha
    cases a <;> simp only [reduceCtorEq] at ha
    rename_i x
    cases hx : norm x <;> rw [hx] at ha <;> simp at ha

theorem wf_int (lo hi : Int) : WF (Schema.int lo hi) := by
  refine .scalar ?_ ?_
  · intro a b hab
    cases a <;> simp only [reduceCtorEq] at hab
    rename_i i
    by_cases hc : lo ≤ i ∧ i ≤ hi
    · rw [if_pos hc] at hab
      simp only [Option.some.injEq] at hab
      subst hab
      simp only [if_pos hc]
    · rw [if_neg hc] at hab; cases hab
  · intro a ha
    cases a <;> simp only [reduceCtorEq] at ha
    split at ha <;> simp at ha

theorem wf_bool : WF Schema.bool := by
  refine .scalar ?_ ?_
  · intro a b hab
    cases a <;> simp only [reduceCtorEq, Option.some.injEq] at hab
    subst hab; rfl
  · intro a ha
    cases a <;> simp at ha

theorem wf_float : WF Schema.float := by
  refine .scalar ?_ ?_
  · intro a b hab
    cases a <;> simp only [reduceCtorEq, Option.some.injEq] at hab <;> subst hab <;> rfl
  · intro a ha
    cases a <;> simp at ha

theorem wf_intLax (lo hi : Int) (parse : Str → Option Int) : WF (Schema.intLax lo hi parse) := by
  refine .scalar ?_ ?_
  · intro a b hab
    cases a with
    | int i =>
      simp only at hab
      by_cases hc : lo ≤ i ∧ i ≤ hi
      · rw [if_pos hc] at hab
        simp only [Option.some.injEq] at hab
        subst hab
        simp only [if_pos hc]
      · rw [if_neg hc] at hab; cases hab
    | str x =>
      simp only at hab
      cases hx : parse x with
      | none => rw [hx] at hab; cases hab
      | some i =>
        rw [hx] at hab
        simp only at hab
        by_cases hc : lo ≤ i ∧ i ≤ hi
        · rw [if_pos hc] at hab
          simp only [Option.some.injEq] at hab
          subst hab
          simp only [if_pos hc]
        · rw [if_neg hc] at hab; cases hab
    | _ => simp at hab
  · intro a ha
    cases a with
    | int i => simp only at ha; split at ha <;> simp at ha
    | str x =>
      simp only at ha
      cases hx : parse x with
      | none => rw [hx] at ha; cases ha
      | some i => rw [hx] at ha; simp only at ha; split at ha <;> simp at ha
    | _ => simp at ha

theorem wf_voipVersion : WF Schema.voipVersion := by
  refine .scalar ?_ ?_
  · intro a b hab
    cases a with
    | int i =>
      simp only at hab
      by_cases hc : i = 0
      · rw [if_pos hc] at hab
        simp only [Option.some.injEq] at hab
        subst hab
        rfl
      · rw [if_neg hc] at hab; cases hab
    | str x => simp only [Option.some.injEq] at hab; subst hab; rfl
    | _ => simp at hab
  · intro a ha
    cases a with
    | int i => simp only at ha; split at ha <;> simp at ha
    | str x => simp at ha
    | _ => simp at ha

/-- A field whose serialiser skips nothing and that writes nothing back when absent is in order. -/
theorem field_ok_plain {f : Field} (hs : ∀ v, f.skip v = false) (hd : f.dflt = none) : f.Ok :=
  ⟨fun _ v => hs v, fun d h => by rw [hd] at h; cases h⟩

/-! ### The catch-all keeps unknown keys -/

theorem mem_of_get {α : Type} : ∀ {l : List (Str × α)} {k : Str} {x : α}, Obj.get l k = some x → (k, x) ∈ l
  | [], _, _, h => by simp [Obj.get] at h
  | (k', v) :: t, k, x, h => by
    unfold Obj.get at h
    by_cases hk : k' = k
    · rw [if_pos hk] at h
      simp only [Option.some.injEq] at h
      subst h; subst hk
      exact List.mem_cons_self ..
    · rw [if_neg hk] at h
      exact List.mem_cons_of_mem _ (mem_of_get h)

theorem getLast_of_unique {α : Type} : ∀ {l : List (Str × α)} {k : Str} {x : α},
    l.filter (fun e => e.1 == k) = [(k, x)] → getLast l k = some x
  | [], _, _, h => by simp at h
  | (k', v) :: t, k, x, h => by
    rw [List.filter_cons] at h
    by_cases hk : k' = k
    · subst hk
      simp only [beq_self_eq_true, if_true, List.cons.injEq, Prod.mk.injEq, true_and] at h
      obtain ⟨rfl, ht⟩ := h
      have hnone : getLast t k' = none := by
        apply getLast_none_of_not_mem
        intro hm
        obtain ⟨e, he, hek⟩ := List.mem_map.mp hm
        have : e ∈ t.filter (fun e => e.1 == k') := List.mem_filter.mpr ⟨he, by simp [hek]⟩
        rw [ht] at this; cases this
      simp only [getLast, hnone, if_true]
    · have hk' : (k' == k) = false := by simpa using hk
      simp only [hk', Bool.false_eq_true, if_false] at h
      have := getLast_of_unique h
      simp only [getLast, this]

theorem catch_all_keeps (fields : List Field) (o : Obj) (t : JVal) (k : Str) (v : JVal)
    (h : project (.obj fields true) (.obj o) = some t) (hk : known fields k = false)
    (hone : o.filter (fun e => e.1 == k) = [(k, v)]) :
    ∃ o', t = .obj o' ∧ (k, serdeValue v) ∈ o' := by
  rw [project_obj'] at h
  cases hc : collect (outs fields o) with
  | none => rw [hc] at h; cases h
  | some out =>
    rw [hc] at h
    simp only [if_true, Option.some.injEq] at h
    subst h
    refine ⟨_, rfl, List.mem_append_right _ ?_⟩
    apply mem_of_get
    rw [get_ofList]
    apply getLast_of_unique
    rw [serdeValueO_eq_map, List.filter_map]
    have : (o.filter (fun e => !known fields e.1)).filter ((fun e : Str × JVal => e.1 == k) ∘ fun e => (e.1, serdeValue e.2))
        = [(k, v)] := by
      rw [List.filter_filter, ← hone]
      apply List.filter_congr
      intro e _
      by_cases he : e.1 = k
      · simp [he, hk]
      · simp [he]
    rw [this]; rfl


end Ruma.ContentSchema
