/-
  C12 — the hand-written scanner of `matches_word` (pattern without wildcards) finds exactly the
  occurrences of the pattern between word boundaries: `scanLit_correct`. The interesting part is the
  restart after a failed boundary (`skip_fwd`, `skip_bwd`).
-/
import RumaModel.Lemmas.PushGlob
import RumaModel.Model.Glob
set_option linter.unusedSimpArgs false
namespace Ruma.Push

def lastIsWord (l : Text) : Bool := match l.getLast? with | some c => isWordChar c | none => false
def headIsWord (l : Text) : Bool := match l.head? with | some c => isWordChar c | none => false
/-- Not both neighbours are word characters. -/
def bnd (l r : Text) : Bool := !(lastIsWord l && headIsWord r)

/-- `p` occurs in `s` between word boundaries. -/
def LitOcc (p s : Text) : Prop :=
  ∃ a b, s = a ++ p ++ b ∧ bnd a (p ++ b) = true ∧ bnd (a ++ p) b = true

@[simp] theorem lastIsWord_nil : lastIsWord [] = false := rfl
@[simp] theorem headIsWord_nil : headIsWord [] = false := rfl
@[simp] theorem headIsWord_cons (c : Char) (t : Text) : headIsWord (c :: t) = isWordChar c := rfl

theorem lastIsWord_append_ne_nil (l r : Text) (h : r ≠ []) : lastIsWord (l ++ r) = lastIsWord r := by
  unfold lastIsWord
  rw [List.getLast?_append]
  cases hr : r.getLast? with
  | none => exact absurd (List.getLast?_eq_none_iff.1 hr) h
  | some c => rfl

theorem headIsWord_append_ne_nil (l r : Text) (h : l ≠ []) : headIsWord (l ++ r) = headIsWord l := by
  cases l with
  | nil => exact absurd rfl h
  | cons a t => rfl

theorem findSub_some {p s pre rest : Text} (h : findSub p s = some (pre, rest)) :
    s = pre ++ rest ∧ p <+: rest ∧ ∀ a b, s = a ++ p ++ b → pre.length ≤ a.length := by
  induction s generalizing pre rest with
  | nil =>
    unfold findSub at h
    split at h
    · simp only [Option.some.injEq, Prod.mk.injEq] at h
      obtain ⟨rfl, rfl⟩ := h
      rename_i hp
      have : p = [] := by cases p <;> simp_all
      subst this
      exact ⟨rfl, List.prefix_refl _, fun a b _ => by simp⟩
    · simp at h
  | cons c t ih =>
    unfold findSub at h
    split at h
    · rename_i hp
      simp only [Option.some.injEq, Prod.mk.injEq] at h
      obtain ⟨rfl, rfl⟩ := h
      exact ⟨rfl, List.isPrefixOf_iff_prefix.1 hp, fun a b _ => by simp⟩
    · rename_i hp
      cases hf : findSub p t with
      | none => rw [hf] at h; simp at h
      | some ab =>
        obtain ⟨a', b'⟩ := ab
        rw [hf] at h
        simp only [Option.map_some, Option.some.injEq, Prod.mk.injEq] at h
        obtain ⟨rfl, rfl⟩ := h
        obtain ⟨h1, h2, h3⟩ := ih hf
        refine ⟨by rw [h1]; rfl, h2, ?_⟩
        intro a b hab
        cases a with
        | nil =>
          exfalso
          apply hp
          rw [List.isPrefixOf_iff_prefix]
          exact ⟨b, by simpa using hab.symm⟩
        | cons x a'' =>
          simp only [List.cons_append, List.cons.injEq] at hab
          have := h3 a'' b (by simpa using hab.2)
          simp only [List.length_cons]; omega

theorem findSub_none {p s : Text} (h : findSub p s = none) : ∀ a b, s ≠ a ++ p ++ b := by
  induction s with
  | nil =>
    unfold findSub at h
    split at h
    · simp at h
    · rename_i hp
      intro a b hab
      have : p = [] := by
        have := congrArg List.length hab; simp at this; exact List.eq_nil_of_length_eq_zero (by omega)
      subst this; simp at hp
  | cons c t ih =>
    unfold findSub at h
    split at h
    · simp at h
    · rename_i hp
      cases hf : findSub p t with
      | some ab => rw [hf] at h; simp at h
      | none =>
        intro a b hab
        cases a with
        | nil =>
          apply hp
          rw [List.isPrefixOf_iff_prefix]
          exact ⟨b, by simpa using hab.symm⟩
        | cons x a'' =>
          simp only [List.cons_append, List.cons.injEq] at hab
          exact ih hf a'' b (by simpa using hab.2)


theorem dropWhile_eq_nil {f : Char → Bool} {l : Text} : l.dropWhile f = [] ↔ ∀ x ∈ l, f x = true := by
  induction l with
  | nil => simp
  | cons a t ih =>
    by_cases ha : f a = true
    · simp [List.dropWhile_cons, ha, ih]
    · simp [List.dropWhile_cons, ha]

theorem dropWhile_append' (f : Char → Bool) (l q : Text) :
    (l ++ q).dropWhile f = if l.dropWhile f = [] then q.dropWhile f else l.dropWhile f ++ q := by
  rw [List.dropWhile_append]
  cases l.dropWhile f <;> simp

theorem dropWhile_getLast? {f : Char → Bool} {l : Text} (h : l.dropWhile f ≠ []) :
    (l.dropWhile f).getLast? = l.getLast? := by
  conv => rhs; rw [← List.takeWhile_append_dropWhile (p := f) (l := l)]
  rw [List.getLast?_append]
  cases hr : (l.dropWhile f).getLast? with
  | none => exact absurd (List.getLast?_eq_none_iff.1 hr) h
  | some c => rfl

theorem dropWhile_head_neg {f : Char → Bool} {l : Text} {c : Char} {t : Text}
    (h : l.dropWhile f = c :: t) : f c = false := by
  induction l with
  | nil => simp at h
  | cons a r ih =>
    by_cases ha : f a = true
    · simp only [List.dropWhile_cons, ha, if_true] at h; exact ih h
    · simp only [List.dropWhile_cons, ha] at h
      simp only [Bool.false_eq_true, if_false, List.cons.injEq] at h
      rw [← h.1]; simpa using ha

theorem lastIsWord_false_mem {l : Text} (hl : l ≠ []) (h : lastIsWord l = false) :
    ∃ x ∈ l, isWordChar x = false := by
  unfold lastIsWord at h
  cases hg : l.getLast? with
  | none => exact absurd (List.getLast?_eq_none_iff.1 hg) hl
  | some c =>
    rw [hg] at h
    obtain ⟨ys, rfl⟩ := List.getLast?_eq_some_iff.1 hg
    exact ⟨c, by simp, h⟩

theorem lastIsWord_congr {l l' : Text} (h : l.getLast? = l'.getLast?) : lastIsWord l = lastIsWord l' := by
  unfold lastIsWord; rw [h]

theorem headIsWord_of_prefix {p rest : Text} (hp : p ≠ []) (h : p <+: rest) :
    headIsWord rest = headIsWord p := by
  obtain ⟨t, rfl⟩ := h
  exact headIsWord_append_ne_nil p t hp

def nonWord (c : Char) : Bool := !isWordChar c

/-- Where "Find next word" lands. -/
def skipTo (rest : Text) : Text := (rest.dropWhile isWordChar).dropWhile nonWord

theorem skip_fwd (p a1 b post : Text) (hp : p ≠ []) (hdec : p ++ post = a1 ++ p ++ b) (ha1 : a1 ≠ [])
    (hstart : (lastIsWord a1 && headIsWord p) = false)
    (hbad : headIsWord p = false → lastIsWord p = true) :
    ∃ a2, skipTo (p ++ post) = a2 ++ p ++ b ∧ (a2 = [] ∨ (a2 ≠ [] ∧ a2.getLast? = a1.getLast?)) := by
  unfold skipTo
  obtain ⟨c0, p', rfl⟩ := List.exists_cons_of_ne_nil hp
  by_cases hw : isWordChar c0 = true
  · -- the pattern starts with a word character: the character before the occurrence is not one
    have hl : lastIsWord a1 = false := by simpa [hw] using hstart
    obtain ⟨x, hx, hxw⟩ := lastIsWord_false_mem ha1 hl
    have h1 : a1.dropWhile isWordChar ≠ [] := by
      intro h; have := dropWhile_eq_nil.1 h x hx; simp [hxw] at this
    rw [hdec, List.append_assoc, dropWhile_append', if_neg h1]
    have hlast1 := dropWhile_getLast? h1
    by_cases h2 : (a1.dropWhile isWordChar).dropWhile nonWord = []
    · refine ⟨[], ?_, Or.inl rfl⟩
      rw [dropWhile_append', if_pos h2]
      simp [List.dropWhile_cons, nonWord, hw]
    · refine ⟨(a1.dropWhile isWordChar).dropWhile nonWord, ?_, Or.inr ⟨h2, ?_⟩⟩
      · rw [dropWhile_append', if_neg h2, List.append_assoc]
      · rw [dropWhile_getLast? h2, hlast1]
  · -- the pattern starts with a non-word character
    have hw' : isWordChar c0 = false := by simpa using hw
    have hr1 : ((c0 :: p') ++ post).dropWhile isWordChar = (c0 :: p') ++ post := by
      simp [List.dropWhile_cons, hw']
    rw [hr1, hdec, List.append_assoc]
    by_cases h2 : a1.dropWhile nonWord = []
    · exfalso
      have hpl := hbad (by simp [hw'])
      obtain ⟨y, hy, hyw⟩ : ∃ y ∈ (c0 :: p'), nonWord y = false := by
        unfold lastIsWord at hpl
        cases hg : (c0 :: p').getLast? with
        | none => rw [hg] at hpl; simp at hpl
        | some c =>
          rw [hg] at hpl
          obtain ⟨ys, hys⟩ := List.getLast?_eq_some_iff.1 hg
          exact ⟨c, by rw [hys]; simp, by simp [nonWord, hpl]⟩
      have hD : (c0 :: p').dropWhile nonWord ≠ [] := by
        intro h; have := dropWhile_eq_nil.1 h y hy; simp [hyw] at this
      have e1 : ((c0 :: p') ++ post).dropWhile nonWord = (c0 :: p').dropWhile nonWord ++ post := by
        rw [dropWhile_append', if_neg hD]
      have e2 : (a1 ++ ((c0 :: p') ++ b)).dropWhile nonWord = (c0 :: p').dropWhile nonWord ++ b := by
        rw [dropWhile_append', if_pos h2, dropWhile_append', if_neg hD]
      rw [hdec, List.append_assoc, e2] at e1
      have hb : b = post := List.append_cancel_left e1
      subst hb
      have := congrArg List.length hdec
      simp only [List.length_append, List.length_cons] at this
      have : a1.length = 0 := by omega
      exact ha1 (List.eq_nil_of_length_eq_zero this)
    · refine ⟨a1.dropWhile nonWord, ?_, Or.inr ⟨h2, dropWhile_getLast? h2⟩⟩
      rw [dropWhile_append', if_neg h2, List.append_assoc]


theorem mem_takeWhile {f : Char → Bool} {l : Text} {x : Char} (h : x ∈ l.takeWhile f) : f x = true := by
  induction l with
  | nil => simp at h
  | cons a t ih =>
    by_cases ha : f a = true
    · simp only [List.takeWhile_cons, ha, if_true, List.mem_cons] at h
      rcases h with rfl | h
      · exact ha
      · exact ih h
    · simp [List.takeWhile_cons, ha] at h

/-- The text skipped by "Find next word" is non-empty and ends with a non-word character. -/
theorem skip_bwd (rest : Text) (h : skipTo rest ≠ []) :
    ∃ X, rest = X ++ skipTo rest ∧ X ≠ [] ∧ lastIsWord X = false := by
  unfold skipTo at *
  have e1 := List.takeWhile_append_dropWhile (p := isWordChar) (l := rest)
  have e2 := List.takeWhile_append_dropWhile (p := nonWord) (l := rest.dropWhile isWordChar)
  have hr1 : rest.dropWhile isWordChar ≠ [] := by
    intro h1; rw [h1] at h; simp at h
  obtain ⟨c, t, hct⟩ := List.exists_cons_of_ne_nil hr1
  have hc : nonWord c = true := by
    have := dropWhile_head_neg hct; simp [nonWord, this]
  have hN : (rest.dropWhile isWordChar).takeWhile nonWord ≠ [] := by
    rw [hct]; simp [List.takeWhile_cons, hc]
  refine ⟨rest.takeWhile isWordChar ++ (rest.dropWhile isWordChar).takeWhile nonWord, ?_, ?_, ?_⟩
  · rw [List.append_assoc, e2, e1]
  · simp [hN]
  · rw [lastIsWord_append_ne_nil _ _ hN]
    unfold lastIsWord
    cases hg : ((rest.dropWhile isWordChar).takeWhile nonWord).getLast? with
    | none => rfl
    | some x =>
      obtain ⟨ys, hys⟩ := List.getLast?_eq_some_iff.1 hg
      have : x ∈ (rest.dropWhile isWordChar).takeWhile nonWord := by rw [hys]; simp
      have := mem_takeWhile this
      simpa [nonWord] using this

theorem nextWord_eq (rest : Text) :
    nextWord rest = if skipTo rest = [] then none else some (skipTo rest) := by
  unfold nextWord skipTo
  cases h1 : rest.dropWhile isWordChar with
  | nil => simp
  | cons nw t =>
    simp only
    have : (fun c => !isWordChar c) = nonWord := rfl
    rw [this]
    cases h2 : (nw :: t).dropWhile nonWord with
    | nil => simp
    | cons w t' => simp

theorem wordBoundaryStart_eq (pre rest : Text) (h : rest ≠ []) :
    wordBoundaryStart pre rest = .ok (bnd pre rest) := by
  obtain ⟨c, t, rfl⟩ := List.exists_cons_of_ne_nil h
  simp only [wordBoundaryStart, List.head?_cons, bnd, headIsWord_cons]
  change Except.ok (!isWordChar c || !lastIsWord pre) = _
  cases isWordChar c <;> cases lastIsWord pre <;> rfl

theorem wordBoundaryEnd_eq (upto post : Text) (h : upto ≠ []) :
    wordBoundaryEnd upto post = .ok (bnd upto post) := by
  unfold wordBoundaryEnd bnd lastIsWord
  cases post with
  | nil => simp
  | cons c t =>
    cases hg : upto.getLast? with
    | none => exact absurd (List.getLast?_eq_none_iff.1 hg) h
    | some cl =>
      simp only [List.isEmpty_cons, Bool.false_eq_true, if_false, List.head?_cons, headIsWord_cons]
      cases isWordChar cl <;> simp

theorem scanLit_correct (p : Text) (hp : p ≠ []) (s : Text) :
    ∃ r, scanLit p s = .ok r ∧ (r = true ↔ LitOcc p s) := by
  rw [scanLit]
  split
  · rename_i hs
    subst hs
    exact ⟨true, rfl, by simp; exact ⟨[], [], by simp, by simp [bnd], by simp [bnd]⟩⟩
  · rename_i hs
    split
    · rename_i hf
      refine ⟨false, rfl, by simp; rintro ⟨a, b, h, _⟩; exact findSub_none hf a b h⟩
    · rename_i pre rest hf
      obtain ⟨hs1, ⟨post, hpost⟩, hfirst⟩ := findSub_some hf
      subst hpost
      have hrest : p ++ post ≠ [] := by simp [hp]
      have hpp : pre ++ p ≠ [] := by simp [hp]
      rw [wordBoundaryStart_eq _ _ hrest]
      simp only [List.drop_left]
      rw [wordBoundaryEnd_eq _ _ hpp]
      have hgoodocc : bnd pre (p ++ post) = true → bnd (pre ++ p) post = true → LitOcc p s :=
        fun h1 h2 => ⟨pre, post, by rw [hs1, List.append_assoc], h1, h2⟩
      -- the result of the two boundary tests
      cases hb1 : bnd pre (p ++ post) <;> cases hb2 : bnd (pre ++ p) post <;>
        simp only [Bool.false_eq_true, if_false, if_true]
      all_goals first
        | exact ⟨true, rfl, by simp; exact hgoodocc hb1 hb2⟩
        | skip
      all_goals
        -- the first occurrence is not between word boundaries: find the next word
        have hbadocc : ¬ (bnd pre (p ++ post) = true ∧ bnd (pre ++ p) post = true) := by simp [hb1, hb2]
        have hiff : LitOcc p s ↔ LitOcc p (skipTo (p ++ post)) := by
          constructor
          · rintro ⟨a, b, hab, hg1, hg2⟩
            -- the occurrence starts after the first one
            have hle := hfirst a b hab
            have hab' : pre ++ (p ++ post) = a ++ (p ++ b) := by rw [← hs1, hab, List.append_assoc]
            obtain ⟨a1, rfl, hdec⟩ : ∃ a1, a = pre ++ a1 ∧ p ++ post = a1 ++ (p ++ b) := by
              rcases List.append_eq_append_iff.1 hab' with ⟨as, h1, h2⟩ | ⟨bs, h1, h2⟩
              · exact ⟨as, h1, h2⟩
              · have : bs = [] := by
                  have := congrArg List.length h1; simp at this
                  exact List.eq_nil_of_length_eq_zero (by omega)
                subst this
                exact ⟨[], by simpa using h1.symm, by simpa using h2.symm⟩
            have ha1 : a1 ≠ [] := by
              rintro rfl
              simp only [List.nil_append] at hdec
              have := List.append_cancel_left hdec
              subst this
              simp only [List.append_nil] at hg1 hg2
              exact hbadocc ⟨hg1, hg2⟩
            have hstart : (lastIsWord a1 && headIsWord p) = false := by
              have := hg1
              unfold bnd at this
              rw [lastIsWord_append_ne_nil _ _ ha1, headIsWord_append_ne_nil _ _ hp] at this
              revert this
              cases (lastIsWord a1 && headIsWord p) <;> simp
            have hbad : headIsWord p = false → lastIsWord p = true := by
              intro hpw
              have h1 : bnd pre (p ++ post) = true := by
                unfold bnd; rw [headIsWord_append_ne_nil _ _ hp, hpw]; simp
              have h2 : bnd (pre ++ p) post = false := by
                cases h : bnd (pre ++ p) post
                · rfl
                · exact absurd ⟨h1, h⟩ hbadocc
              unfold bnd at h2
              rw [lastIsWord_append_ne_nil _ _ hp] at h2
              cases hl : lastIsWord p
              · simp [hl] at h2
              · rfl
            obtain ⟨a2, h2eq, h2last⟩ :=
              skip_fwd p a1 b post hp (by rw [hdec, List.append_assoc]) ha1 hstart hbad
            refine ⟨a2, b, h2eq, ?_, ?_⟩
            · rcases h2last with rfl | ⟨hne, hl⟩
              · simp [bnd]
              · unfold bnd at hg1 ⊢
                rw [lastIsWord_append_ne_nil _ _ ha1, headIsWord_append_ne_nil _ _ hp] at hg1
                rw [headIsWord_append_ne_nil _ _ hp, lastIsWord_congr hl]
                exact hg1
            · unfold bnd at hg2 ⊢
              rw [lastIsWord_append_ne_nil _ _ hp] at hg2 ⊢
              exact hg2
          · rintro ⟨a2, b, hab, hg1, hg2⟩
            have hne : skipTo (p ++ post) ≠ [] := by rw [hab]; simp [hp]
            obtain ⟨X, hX, hXne, hXl⟩ := skip_bwd (p ++ post) hne
            refine ⟨pre ++ X ++ a2, b, ?_, ?_, ?_⟩
            · rw [hs1, hX, hab]; simp
            · unfold bnd at hg1 ⊢
              by_cases ha2 : a2 = []
              · subst ha2
                rw [List.append_nil, lastIsWord_append_ne_nil _ _ hXne, hXl]; simp
              · rw [lastIsWord_append_ne_nil _ _ ha2]
                exact hg1
            · unfold bnd at hg2 ⊢
              rw [lastIsWord_append_ne_nil _ _ hp] at hg2 ⊢
              exact hg2
        rw [nextWord_eq]
        split
        · rename_i hnil
          have hnil' : skipTo (p ++ post) = [] := by
            by_cases h : skipTo (p ++ post) = []
            · exact h
            · simp [h] at hnil
          refine ⟨false, rfl, ?_⟩
          rw [hiff, hnil']
          simp only [Bool.false_eq_true, false_iff]
          rintro ⟨a, b, h, _⟩
          have := congrArg List.length h; simp at this
          have : p.length = 0 := by omega
          exact hp (List.eq_nil_of_length_eq_zero this)
        · rename_i next hnn
          have hne : skipTo (p ++ post) ≠ [] := by
            intro h; simp [h] at hnn
          have hnext : next = skipTo (p ++ post) := by
            simp [hne] at hnn; exact hnn.symm
          obtain ⟨X, hX, hXne, _⟩ := skip_bwd (p ++ post) hne
          have hlen : next.length < s.length := by
            have h1 := congrArg List.length hX
            have h2 := congrArg List.length hs1
            have h3 : 0 < X.length := List.length_pos_iff.2 hXne
            simp only [List.length_append] at h1 h2
            rw [hnext]; omega
          obtain ⟨r, hr1, hr2⟩ := scanLit_correct p hp next
          exact ⟨r, hr1, by rw [hiff, ← hnext]; exact hr2⟩
termination_by s.length

open Ruma.Spec.Glob (Glob WordMatch boundary)

theorem isWordChar_eq : @isWordChar = @Ruma.Spec.Glob.isWordChar := rfl

theorem wordAt_append_last (l : Text) (x : Char) (r : Text) :
    Ruma.Spec.Glob.wordAt (l ++ x :: r) l.length = isWordChar x := by
  simp [Ruma.Spec.Glob.wordAt, isWordChar_eq]

theorem boundary_iff_bnd (l r : Text) : boundary (l ++ r) l.length ↔ bnd l r = true := by
  unfold boundary bnd
  cases r with
  | nil => simp
  | cons y r' =>
    rcases List.eq_nil_or_concat l with rfl | ⟨l', x, rfl⟩
    · simp
    · rw [List.concat_eq_append]
      have h1 : Ruma.Spec.Glob.wordAt (l' ++ [x] ++ y :: r') ((l' ++ [x]).length - 1) = isWordChar x := by
        have : (l' ++ [x]).length - 1 = l'.length := by simp
        rw [this, List.append_assoc]
        exact wordAt_append_last l' x _
      have h2 : Ruma.Spec.Glob.wordAt (l' ++ [x] ++ y :: r') (l' ++ [x]).length = isWordChar y :=
        wordAt_append_last (l' ++ [x]) y r'
      rw [h1, h2]
      have h3 : lastIsWord (l' ++ [x]) = isWordChar x := by simp [lastIsWord]
      rw [h3, headIsWord_cons]
      have : (l' ++ [x]).length ≠ 0 := by simp
      have : (l' ++ [x]).length ≠ (l' ++ [x] ++ y :: r').length := by simp
      cases isWordChar x <;> cases isWordChar y <;> simp_all

theorem slice_decomp (s : Text) (i j : Nat) (hij : i ≤ j) (hj : j ≤ s.length) :
    s = s.take i ++ Ruma.Spec.Glob.slice s i j ++ s.drop j ∧ (s.take i).length = i := by
  unfold Ruma.Spec.Glob.slice
  refine ⟨?_, by simp; omega⟩
  have : s.drop j = (s.drop i).drop (j - i) := by rw [List.drop_drop]; congr 1; omega
  rw [this, List.append_assoc, List.take_append_drop, List.take_append_drop]

theorem slice_mid (a p b : Text) : Ruma.Spec.Glob.slice (a ++ p ++ b) a.length (a.length + p.length) = p := by
  unfold Ruma.Spec.Glob.slice
  rw [List.append_assoc, List.drop_left]
  simp

/-- For a non-empty pattern without wildcards the spec's word matching is `LitOcc`. -/
theorem WordMatch_literal {p : Text} (hp : p ≠ []) (hlit : ∀ c ∈ p, c ≠ '*' ∧ c ≠ '?') (s : Text) :
    WordMatch p s ↔ LitOcc p s := by
  unfold WordMatch LitOcc
  constructor
  · rintro (⟨h, _⟩ | ⟨_, i, j, hij, hj, hg, hbi, hbj⟩)
    · exact absurd h hp
    have hsl := (Ruma.Spec.Glob.Glob_literal hlit _).1 hg
    obtain ⟨hdec, hlen⟩ := slice_decomp s i j hij hj
    rw [hsl] at hdec
    refine ⟨s.take i, s.drop j, hdec, ?_, ?_⟩
    · have := boundary_iff_bnd (s.take i) (p ++ s.drop j)
      rw [hlen, ← List.append_assoc, ← hdec] at this
      exact this.1 hbi
    · have := boundary_iff_bnd (s.take i ++ p) (s.drop j)
      have hl : (s.take i ++ p).length = j := by
        have := congrArg List.length hsl
        simp [Ruma.Spec.Glob.slice] at this
        simp; omega
      rw [hl, ← hdec] at this
      exact this.1 hbj
  · rintro ⟨a, b, rfl, h1, h2⟩
    refine Or.inr ⟨hp, a.length, a.length + p.length, by omega, by simp, ?_, ?_, ?_⟩
    · rw [slice_mid]; exact (Ruma.Spec.Glob.Glob_literal hlit _).2 rfl
    · have := boundary_iff_bnd a (p ++ b)
      rw [← List.append_assoc] at this
      exact this.2 h1
    · have := boundary_iff_bnd (a ++ p) b
      simp only [List.length_append] at this
      exact this.2 h2

theorem not_isWild_of_any {p : Text} (h : p.any isWild = false) : ∀ c ∈ p, c ≠ '*' ∧ c ≠ '?' := by
  intro c hc
  have := List.any_eq_false.1 h c hc
  simp only [isWild, Bool.or_eq_true, beq_iff_eq, not_or] at this
  exact ⟨this.2, this.1⟩

/-- `matches_word` on a pattern without wildcards decides the spec's word matching and never panics. -/
theorem matchesWord_literal (E : Ext) (p s : Text) (hlit : p.any isWild = false) :
    ∃ b, matchesWord E p s = .ok b ∧ (b = true ↔ WordMatch p s) := by
  unfold matchesWord matchesWordImpl
  by_cases hs : s = p
  · subst hs
    refine ⟨true, by simp, ?_⟩
    simp only [true_iff]
    by_cases hp : s = []
    · subst hp; exact Or.inl ⟨rfl, rfl⟩
    · exact (WordMatch_literal hp (not_isWild_of_any hlit) s).2
        ⟨[], [], by simp, by simp [bnd], by simp [bnd]⟩
  · simp only [hs, if_false]
    by_cases hp : p = []
    · subst hp
      refine ⟨false, by simp, ?_⟩
      simp only [Bool.false_eq_true, false_iff]
      rintro (⟨_, h⟩ | ⟨h, _⟩)
      · exact hs h
      · exact h rfl
    · have hpe : p.isEmpty = false := by cases p <;> simp_all
      simp only [hpe, Bool.false_eq_true, if_false, hlit]
      obtain ⟨r, hr1, hr2⟩ := scanLit_correct p hp s
      exact ⟨r, hr1, by rw [hr2, WordMatch_literal hp (not_isWild_of_any hlit)]⟩

/-- For a non-empty text, occurring literally between word boundaries is `LitOcc`, whatever
characters the text contains. -/
theorem LiteralWordMatch_LitOcc {p : Text} (hp : p ≠ []) (s : Text) :
    Ruma.Spec.Glob.LiteralWordMatch p s ↔ LitOcc p s := by
  unfold Ruma.Spec.Glob.LiteralWordMatch LitOcc
  constructor
  · rintro (⟨h, _⟩ | ⟨_, i, j, hij, hj, hsl, hbi, hbj⟩)
    · exact absurd h hp
    obtain ⟨hdec, hlen⟩ := slice_decomp s i j hij hj
    rw [hsl] at hdec
    refine ⟨s.take i, s.drop j, hdec, ?_, ?_⟩
    · have := boundary_iff_bnd (s.take i) (p ++ s.drop j)
      rw [hlen, ← List.append_assoc, ← hdec] at this
      exact this.1 hbi
    · have := boundary_iff_bnd (s.take i ++ p) (s.drop j)
      have hl : (s.take i ++ p).length = j := by
        have := congrArg List.length hsl
        simp [Ruma.Spec.Glob.slice] at this
        simp; omega
      rw [hl, ← hdec] at this
      exact this.1 hbj
  · rintro ⟨a, b, rfl, h1, h2⟩
    refine Or.inr ⟨hp, a.length, a.length + p.length, by omega, by simp, ?_, ?_, ?_⟩
    · rw [slice_mid]
    · have := boundary_iff_bnd a (p ++ b)
      rw [← List.append_assoc] at this
      exact this.2 h1
    · have := boundary_iff_bnd (a ++ p) b
      simp only [List.length_append] at this
      exact this.2 h2

/-- `matches_word_impl` with `has_wildcards = false` never panics and decides the literal
occurrence of `p` between word boundaries, for EVERY `p` (its `*` and `?` are ordinary characters). -/
theorem matchesWordImpl_literal (E : Ext) (p s : Text) :
    ∃ b, matchesWordImpl E false p s = .ok b ∧ (b = true ↔ Ruma.Spec.Glob.LiteralWordMatch p s) := by
  unfold matchesWordImpl
  by_cases hs : s = p
  · subst hs
    refine ⟨true, by simp, ?_⟩
    simp only [true_iff]
    by_cases hp : s = []
    · subst hp; exact Or.inl ⟨rfl, rfl⟩
    · exact (LiteralWordMatch_LitOcc hp s).2 ⟨[], [], by simp, by simp [bnd], by simp [bnd]⟩
  · simp only [hs, if_false]
    by_cases hp : p = []
    · subst hp
      refine ⟨false, by simp, ?_⟩
      simp only [Bool.false_eq_true, false_iff]
      rintro (⟨_, h⟩ | ⟨h, _⟩)
      · exact hs h
      · exact h rfl
    · have hpe : p.isEmpty = false := by cases p <;> simp_all
      simp only [hpe, Bool.false_eq_true, if_false]
      obtain ⟨r, hr1, hr2⟩ := scanLit_correct p hp s
      exact ⟨r, hr1, by rw [hr2, LiteralWordMatch_LitOcc hp]⟩

end Ruma.Push
