import RumaModel.Model.RingCompat
namespace Ruma.RingCompat

theorem findSub_bound (pat s : List Nat) (i : Nat) (h : findSub pat s = some i) :
    i + pat.length ≤ s.length := by
  induction s generalizing i with
  | nil =>
    simp only [findSub] at h
    split at h
    · cases h; simp_all [List.isEmpty_iff]
    · cases h
  | cons b t ih =>
    simp only [findSub] at h
    split at h
    · rename_i hp
      cases h
      have := List.IsPrefix.length_le (List.isPrefixOf_iff_prefix.mp hp)
      simpa using this
    · cases hf : findSub pat t with
      | none => simp [hf] at h
      | some j =>
        simp [hf] at h
        subst h
        have := ih j hf
        simp; omega

theorem findSub_head_ne (s : List Nat) (b0 : Nat) (rest : List Nat) (i : Nat)
    (hs : s = b0 :: rest) (hb : b0 = 0x30) (h : findSub template s = some i) : 1 ≤ i := by
  subst hs
  simp only [findSub] at h
  split at h
  · rename_i hp
    simp [template, List.isPrefixOf] at hp
    omega
  · cases hf : findSub template rest with
    | none => simp [hf] at h
    | some j => simp [hf] at h; omega

theorem fixRingDoc_ok (t : List Nat) (idx : Nat) (hbyte : t.length < 256)
    (hidx : findSub template (48 :: t.length :: t) = some idx) :
    ∃ d, fixRingDoc (48 :: t.length :: t) = .ok d := by
  have hb := findSub_bound _ _ _ hidx
  have h1i := findSub_head_ne _ 48 (t.length :: t) idx rfl rfl hidx
  simp only [template, List.length_cons, List.length_nil] at hb
  have hdrop : ¬ (List.drop idx (48 :: t.length :: t)).length < 4 := by
    simp only [List.length_drop, List.length_cons]; omega
  have hlen : (List.take idx (48 :: t.length :: t) ++ wellFormedPrefix
      ++ List.drop 4 (List.drop idx (48 :: t.length :: t))).length = t.length := by
    simp only [List.length_append, List.length_take, List.length_drop, List.length_cons,
      wellFormedPrefix, List.length_nil]
    omega
  have h2 : ¬ t.length < 2 := by omega
  have h3 : ¬ t.length % 256 < 2 := by omega
  have h4 : t.length + 1 + 1 - 2 = t.length := by omega
  unfold fixRingDoc
  simp only [ne_eq, not_true_eq_false, if_false, List.length_cons, h4, hidx,
    hdrop, hlen, h2, h3]
  exact ⟨_, rfl⟩


end Ruma.RingCompat
