/-
  C10 helper lemmas, part 5: bridge between the declarative acceptance predicates of the model
  (`ServerOk`, `DelimOk`, `KeyOk`, `MxcOk`) and the specification's `struct` / `gram` predicates.
-/
import RumaModel.Lemmas.IdsKeyMxc
namespace Ruma.Ids
open Ruma Spec.IdGrammar

/-! ### Byte classes agree -/

theorem dnsChar_eq (b : Nat) : dnsChar b = hostByteOk b := by
  rw [Bool.eq_iff_iff]
  simp [dnsChar, hostByteOk, alnum, isAlnum, digit, isDigit, lower, isLower, upper, isUpper,
    oneOf, bs]
  omega

theorem alnum_eq (b : Nat) : alnum b = isAlnum b := by
  rw [Bool.eq_iff_iff]
  simp [alnum, isAlnum, digit, isDigit, lower, isLower, upper, isUpper]

theorem mediaChar_eq (b : Nat) : mediaChar b = mediaByteOk b := by
  rw [Bool.eq_iff_iff]
  simp [mediaChar, mediaByteOk, alnum, isAlnum, digit, isDigit, lower, isLower, upper, isUpper,
    oneOf, bs]
  omega

theorem all_congr {p q : Nat → Bool} (h : ∀ b, p b = q b) (s : Str) : s.all p = s.all q := by
  congr 1; funext b; exact h b

theorem nonEmptyAll_iff {p : Nat → Bool} {s : Str} :
    nonEmptyAll p s = true ↔ s ≠ [] ∧ ∀ b ∈ s, p b = true := by
  cases s <;> simp [nonEmptyAll]

theorem eq_dropLast_append {r : List Nat} {a : Nat} (h : r.getLast? = some a) :
    r = r.dropLast ++ [a] := by
  have hne : r ≠ [] := by intro e; simp [e] at h
  have h2 := List.dropLast_concat_getLast hne
  have h3 : r.getLast hne = a := by
    rw [List.getLast?_eq_some_getLast hne] at h
    exact Option.some.inj h
  rw [h3] at h2
  exact h2.symm

theorem bracketed_iff {q : Str → Bool} {h : Str} :
    bracketed q h = true ↔ ∃ c, h = 91 :: (c ++ [93]) ∧ q c = true := by
  constructor
  · intro hb
    unfold bracketed at hb
    split at hb
    · rename_i r
      simp only [Bool.and_eq_true, decide_eq_true_eq] at hb
      refine ⟨r.dropLast, ?_, hb.2⟩
      exact congrArg (91 :: ·) (eq_dropLast_append hb.1)
    · simp at hb
  · rintro ⟨c, rfl, hq⟩
    simp [bracketed, hq]

theorem bs_mxc : bs "mxc://" = mxcPrefix := by decide

/-! ### Server names -/

theorem structHost_of_hostOk {x : Ext} {h : Str} (hh : HostOk x h) :
    structHost x.isIpv6 h = true := by
  cases hh with
  | name h hne hall =>
    simp only [structHost, Bool.or_eq_true]
    left
    exact nonEmptyAll_iff.2 ⟨hne, fun b hb => by rw [dnsChar_eq]; exact hall b hb⟩
  | v6 c hn h6 =>
    simp only [structHost, Bool.or_eq_true]
    right
    exact bracketed_iff.2 ⟨c, rfl, h6⟩

theorem structServerName_of_serverOk {x : Ext} {s : Str} (h : ServerOk x s) :
    structServerName x.isIpv6 s = true := by
  obtain ⟨hst, hh, hrest⟩ := h
  simp only [structServerName, withPort, Bool.or_eq_true]
  rcases hrest with rfl | ⟨p, rfl, hp⟩
  · left; exact structHost_of_hostOk hh
  · right
    exact cutAt_iff.2 ⟨hst, p, rfl, structHost_of_hostOk hh, (isValidPort_iff.1 hp).1⟩

theorem ipv6Char_ne_rbracket {b : Nat} (h : ipv6Char b = true) : b ≠ 93 := by
  simp [ipv6Char, digit, oneOf, bs] at h; omega

theorem hostOk_of_gramHost {x : Ext} {h : Str} (hg : gramHost x.isIpv6 h = true) : HostOk x h := by
  simp only [gramHost, Bool.or_eq_true, Bool.and_eq_true] at hg
  rcases hg with ⟨hn, _⟩ | hb
  · obtain ⟨hne, hall⟩ := nonEmptyAll_iff.1 hn
    exact .name h hne (fun b hb => by rw [← dnsChar_eq]; exact hall b hb)
  · obtain ⟨c, rfl, hq⟩ := bracketed_iff.1 hb
    simp only [Bool.and_eq_true, List.all_eq_true] at hq
    exact .v6 c (fun hm => ipv6Char_ne_rbracket (hq.1.2 93 hm) rfl) hq.2

/-- A server name in the recommended grammar is accepted unless its port exceeds `u16::MAX`. -/
theorem serverOk_of_gram {x : Ext} {s : Str} (hg : gramServerName x.isIpv6 s = true)
    (hp : portTooBig (gramHost x.isIpv6) s = false) : ServerOk x s := by
  simp only [gramServerName, withPort, Bool.or_eq_true] at hg
  rcases hg with hh | hc
  · exact ⟨s, hostOk_of_gramHost hh, .inl rfl⟩
  · obtain ⟨h, p, rfl, hh, hport⟩ := cutAt_iff.1 hc
    refine ⟨h, hostOk_of_gramHost hh, .inr ⟨p, rfl, ?_⟩⟩
    rw [isValidPort_iff]
    refine ⟨hport, ?_⟩
    by_cases hv : portValue p ≤ 65535
    · exact hv
    · have : portTooBig (gramHost x.isIpv6) (h ++ 58 :: p) = true :=
        cutAt_iff.2 ⟨h, p, rfl, hh, by simp [hport]; omega⟩
      rw [hp] at this
      exact absurd this (by simp)

/-- Bytes of a server name in the grammar. -/
theorem gramServerName_byte {v6 : Str → Bool} {s : Str} (hg : gramServerName v6 s = true)
    {c : Nat} (hm : c ∈ s) :
    dnsChar c = true ∨ ipv6Char c = true ∨ c = 91 ∨ c = 93 ∨ c = 58 := by
  have host_b : ∀ h, gramHost v6 h = true → c ∈ h →
      dnsChar c = true ∨ ipv6Char c = true ∨ c = 91 ∨ c = 93 ∨ c = 58 := by
    intro h hh hm
    simp only [gramHost, Bool.or_eq_true, Bool.and_eq_true] at hh
    rcases hh with ⟨hn, _⟩ | hb
    · exact .inl ((nonEmptyAll_iff.1 hn).2 c hm)
    · obtain ⟨r, rfl, hq⟩ := bracketed_iff.1 hb
      simp only [Bool.and_eq_true, List.all_eq_true] at hq
      simp only [List.mem_cons, List.mem_append, List.not_mem_nil, or_false] at hm
      rcases hm with rfl | hm | rfl
      · exact .inr (.inr (.inl rfl))
      · exact .inr (.inl (hq.1.2 c hm))
      · exact .inr (.inr (.inr (.inl rfl)))
  simp only [gramServerName, withPort, Bool.or_eq_true] at hg
  rcases hg with hh | hc
  · exact host_b s hh hm
  · obtain ⟨h, p, rfl, hh, hport⟩ := cutAt_iff.1 hc
    simp only [List.mem_append, List.mem_cons] at hm
    rcases hm with hm | rfl | hm
    · exact host_b h hh hm
    · exact .inr (.inr (.inr (.inr rfl)))
    · simp only [isPort, Bool.and_eq_true, List.all_eq_true] at hport
      have := hport.2 c hm
      left
      simp only [dnsChar, alnum, this, Bool.true_or]

theorem gramServerName_no_slash {v6 : Str → Bool} {s : Str} (hg : gramServerName v6 s = true) :
    47 ∉ s := by
  intro hm
  have := gramServerName_byte hg hm
  simp [dnsChar, ipv6Char, alnum, digit, lower, upper, oneOf, bs] at this

theorem gramServerName_no_nul {v6 : Str → Bool} {s : Str} (hg : gramServerName v6 s = true) :
    0 ∉ s := by
  intro hm
  have := gramServerName_byte hg hm
  simp [dnsChar, ipv6Char, alnum, digit, lower, upper, oneOf, bs] at this

/-! ### Sigil identifiers -/

theorem localpartOk_iff {lp : Str} : localpartOk lp = true ↔ 58 ∉ lp ∧ 0 ∉ lp := by
  simp only [localpartOk, List.all_eq_true, Bool.and_eq_true, bne_iff_ne, ne_eq]
  constructor
  · intro h
    exact ⟨fun hm => (h 58 hm).2 rfl, fun hm => (h 0 hm).1 rfl⟩
  · rintro ⟨h1, h2⟩ b hb
    exact ⟨fun e => h2 (e ▸ hb), fun e => h1 (e ▸ hb)⟩

theorem all_ne_iff {c : Nat} {s : Str} : s.all (· != c) = true ↔ c ∉ s := by
  simp only [List.all_eq_true, bne_iff_ne, ne_eq]
  constructor
  · intro h hm; exact h c hm rfl
  · intro h b hb e; exact h (e ▸ hb)

theorem delimited_iff {sigil : Nat} {lp server : Str → Bool} {s : Str} :
    delimited sigil lp server s = true ↔
      ∃ l srv, s = sigil :: (l ++ 58 :: srv) ∧ lp l = true ∧ server srv = true := by
  cases s with
  | nil => simp [delimited]
  | cons c rest =>
    simp only [delimited, Bool.and_eq_true, beq_iff_eq, cutAt_iff]
    constructor
    · rintro ⟨rfl, l, srv, rfl, h1, h2⟩
      exact ⟨l, srv, rfl, h1, h2⟩
    · rintro ⟨l, srv, he, h1, h2⟩
      simp only [List.cons.injEq] at he
      exact ⟨he.1, l, srv, he.2, h1, h2⟩

theorem struct_delim {x : Ext} {sigil : Nat} {s lp srv : Str} (h : DelimOk x sigil s lp srv)
    (h0 : 0 ∉ lp) :
    (max255 s && delimited sigil localpartOk (structServerName x.isIpv6) s) = true := by
  obtain ⟨he, hlen, hlp, hsrv⟩ := h
  simp only [Bool.and_eq_true, max255, decide_eq_true_eq]
  exact ⟨hlen, delimited_iff.2 ⟨lp, srv, he, localpartOk_iff.2 ⟨hlp, h0⟩,
    structServerName_of_serverOk hsrv⟩⟩

/-- From the grammar's cut to the code's: the localpart has no colon, so the cut is at the first
colon. -/
theorem delimOk_of_gram {x : Ext} {sigil : Nat} {s : Str} {lpOk : Str → Bool}
    (hlp : ∀ l, lpOk l = true → 58 ∉ l ∧ 0 ∉ l)
    (hlen : max255 s = true)
    (hd : delimited sigil lpOk (gramServerName x.isIpv6) s = true)
    (hp : delimited sigil (fun _ => true) (portTooBig (gramHost x.isIpv6)) s = false) :
    ∃ lp srv, DelimOk x sigil s lp srv ∧ 0 ∉ lp := by
  obtain ⟨l, srv, rfl, h1, h2⟩ := delimited_iff.1 hd
  have hpb : portTooBig (gramHost x.isIpv6) srv = false := by
    cases hb : portTooBig (gramHost x.isIpv6) srv with
    | false => rfl
    | true =>
      have : delimited sigil (fun _ => true) (portTooBig (gramHost x.isIpv6))
          (sigil :: (l ++ 58 :: srv)) = true := delimited_iff.2 ⟨l, srv, rfl, rfl, hb⟩
      rw [hp] at this
      exact absurd this (by simp)
  exact ⟨l, srv, ⟨rfl, by simpa [max255] using hlen, (hlp l h1).1, serverOk_of_gram h2 hpb⟩,
    (hlp l h1).2⟩

theorem userIdChar_facts {l : Str} (h : nonEmptyAll userIdChar l = true) : 58 ∉ l ∧ 0 ∉ l := by
  have hall := (nonEmptyAll_iff.1 h).2
  constructor <;> intro hm
  · have := hall 58 hm; simp [userIdChar, digit, lower, oneOf, bs] at this
  · have := hall 0 hm; simp [userIdChar, digit, lower, oneOf, bs] at this

theorem nonEmptyLocalpart_facts {l : Str} (h : (!l.isEmpty && localpartOk l) = true) :
    58 ∉ l ∧ 0 ∉ l := by
  simp only [Bool.and_eq_true] at h
  exact localpartOk_iff.1 h.2

/-- 43 base64 characters after the sigil: no colon, no NUL. -/
theorem hashId_facts {sigil : Nat} {s : Str} (h : hashId sigil s = true) :
    s.head? = some sigil ∧ 58 ∉ s.tail ∧ 0 ∉ s.tail := by
  cases s with
  | nil => simp [hashId] at h
  | cons c t =>
    simp only [hashId, Bool.and_eq_true, beq_iff_eq, Bool.or_eq_true, List.all_eq_true] at h
    obtain ⟨⟨rfl, _⟩, hchars⟩ := h
    refine ⟨rfl, ?_, ?_⟩ <;> intro hm <;> simp only [List.tail_cons] at hm
    · rcases hchars with hc | hc
      · have := hc 58 hm; simp [base64Char, alnum, digit, lower, upper, oneOf, bs] at this
      · have := hc 58 hm; simp [base64UrlChar, alnum, digit, lower, upper, oneOf, bs] at this
    · rcases hchars with hc | hc
      · have := hc 0 hm; simp [base64Char, alnum, digit, lower, upper, oneOf, bs] at this
      · have := hc 0 hm; simp [base64UrlChar, alnum, digit, lower, upper, oneOf, bs] at this

theorem codePoints_eq (s : Str) : codePoints s = charCount s := by
  unfold codePoints charCount
  congr 2
  funext b
  simp [isCont]

end Ruma.Ids
