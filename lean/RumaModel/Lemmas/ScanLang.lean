/-
  C17 helper lemmas: the `language-` class scan of `CodeData::parse` (`Model/ScanLang.lean`) returns for
  every attribute value.
-/
import RumaModel.Model.ScanLang
import RumaModel.Lemmas.ScanCommon
namespace Ruma.ScanLang
open Ruma Ruma.Scan Ruma.Ids

theorem isAsciiWs_lt {b : Nat} (h : isAsciiWs b = true) : b < 128 := by
  simp [isAsciiWs] at h
  omega

/-- `v` with an occurrence of `language-` at `ms`: the position behind the occurrence is a boundary. -/
theorem boundary_after_prefix {v : Str} (hs : Sep v) {ms : Nat}
    (hpre : langPrefix.isPrefixOf (v.drop ms) = true) (hle : ms + langPrefix.length ≤ v.length) :
    isBoundary v (ms + langPrefix.length) = true := by
  obtain ⟨r, hr⟩ := List.isPrefixOf_iff_prefix.mp hpre
  have hv : v = (v.take ms ++ [108, 97, 110, 103, 117, 97, 103, 101]) ++ 45 :: r := by
    have : v = v.take ms ++ v.drop ms := (List.take_append_drop ms v).symm
    rw [← hr] at this
    simpa [langPrefix] using this
  have hlen : (v.take ms ++ [108, 97, 110, 103, 117, 97, 103, 101]).length + 1 = ms + langPrefix.length := by
    have : ms ≤ v.length := by omega
    simp [langPrefix, List.length_take, Nat.min_eq_left this]
  have hs' := hs
  rw [hv] at hs'
  have := isBoundary_after hs' (by omega : (45 : Nat) < 128)
  rw [hlen, ← hv] at this
  exact this

/-- The end of the language is not before its start and is a char boundary. -/
theorem languageEnd_spec (v : Str) (ls : Nat) (hle : ls ≤ v.length) :
    ls ≤ languageEnd v (v.drop ls) ls ∧ isBoundary v (languageEnd v (v.drop ls) ls) = true := by
  unfold languageEnd
  cases hf : findP isAsciiWs (v.drop ls) with
  | none => exact ⟨hle, isBoundary_length v⟩
  | some pos =>
    obtain ⟨pre, c, post, hdrop, _, hc, rfl⟩ := findP_eq_some hf
    refine ⟨by simp, ?_⟩
    have hv : v = (v.take ls ++ pre) ++ c :: post := by
      have : v = v.take ls ++ v.drop ls := (List.take_append_drop _ v).symm
      rw [hdrop] at this
      simpa using this
    have hl : (v.take ls ++ pre).length = ls + pre.length := by
      simp [List.length_take, Nat.min_eq_left hle]
    have := isBoundary_at (v.take ls ++ pre) c post (isAsciiWs_lt hc)
    rw [hl, ← hv] at this
    exact this

theorem langLoop_returns (v : Str) (hs : Sep v) :
    ∀ l : List Nat, (∀ ms ∈ l, ms + langPrefix.length ≤ v.length ∧ langPrefix.isPrefixOf (v.drop ms) = true) →
      (langLoop v l).Returns := by
  intro l
  induction l with
  | nil => intro _; simp [langLoop, Out.Returns]
  | cons ms rest ih =>
    intro h
    obtain ⟨hle, hpre⟩ := h ms (by simp)
    have ihr := ih (fun m hm => h m (by simp [hm]))
    unfold langLoop startGuard
    have hlt : ms - 1 < v.length := by simp [langPrefix] at hle; omega
    -- the byte before the match exists
    have hb : v[ms - 1]? = some v[ms - 1] := by simp [hlt]
    rw [hb]
    have hbd := boundary_after_prefix hs hpre hle
    obtain ⟨hge, hend⟩ := languageEnd_spec v (ms + langPrefix.length) hle
    have hsl : ∃ lang, strSlice v (ms + langPrefix.length)
        (languageEnd v (v.drop (ms + langPrefix.length)) (ms + langPrefix.length)) = some lang := by
      simp [strSlice, hbd, hend, hge]
    obtain ⟨lang, hlang⟩ := hsl
    simp only [strFrom, hbd, if_true, hlang]
    have hnot : ¬ (languageEnd v (v.drop (ms + langPrefix.length)) (ms + langPrefix.length)
        < ms + langPrefix.length) := by omega
    simp only [hnot, if_false]
    by_cases h0 : ms = 0
    · subst h0
      simp only [ne_eq, not_true_eq_false, if_false]
      split
      · exact ihr
      · simp [Out.Returns]
    · simp only [ne_eq, h0, not_false_eq_true, if_true]
      cases isAsciiWs v[ms - 1]
      · simp only [Bool.not_false]; exact ihr
      · simp only [Bool.not_true]
        split
        · exact ihr
        · simp [Out.Returns]

theorem scanClass_returns (v : Str) (hs : Sep v) : (scanClass v).Returns := by
  unfold scanClass
  have := langLoop_returns v hs (findIter langPrefix v)
    (fun ms hm => findIter_mem (by simp [langPrefix]) hm)
  cases h : langLoop v (findIter langPrefix v) with
  | ok r =>
    cases r with
    | none => simp [Out.Returns]
    | some p => obtain ⟨lang, keep⟩ := p; simp [Out.Returns]
  | err => simp [Out.Returns]
  | panic => rw [h] at this; exact this.elim
  | hang => rw [h] at this; exact this.elim

/-! ### What the scan finds -/

/-- The language found by the scan is a class of the attribute: it follows `language-`, which is at
the start of the value or behind an ASCII whitespace; it is not empty, contains no ASCII whitespace
and extends to the next ASCII whitespace or the end; the attribute is dropped from the remaining
attributes exactly when this class is the whole value. -/
def IsLanguageClass (v lang : Str) (keep : Bool) : Prop :=
  ∃ a r, v = a ++ langPrefix ++ lang ++ r ∧ lang ≠ [] ∧ (∀ b ∈ lang, isAsciiWs b = false) ∧
    (a = [] ∨ ∃ a' w, a = a' ++ [w] ∧ isAsciiWs w = true) ∧
    (r = [] ∨ ∃ w r', r = w :: r' ∧ isAsciiWs w = true) ∧
    (keep = false ↔ (a = [] ∧ r = []))

/-- One iteration of the loop at an occurrence `a ++ language- ++ r0` that is not skipped. -/
theorem found_at (a r0 : Str) (lg : Str) (keep : Bool)
    (hbefore : a = [] ∨ ∃ a' w, a = a' ++ [w] ∧ isAsciiWs w = true)
    (hne : languageEnd (a ++ langPrefix ++ r0) r0 (a.length + langPrefix.length) ≠ a.length + langPrefix.length)
    (hss : strSlice (a ++ langPrefix ++ r0) (a.length + langPrefix.length)
      (languageEnd (a ++ langPrefix ++ r0) r0 (a.length + langPrefix.length)) = some lg)
    (hkeep : decide (a.length ≠ 0 ∨
      languageEnd (a ++ langPrefix ++ r0) r0 (a.length + langPrefix.length) ≠ (a ++ langPrefix ++ r0).length) = keep) :
    IsLanguageClass (a ++ langPrefix ++ r0) lg keep := by
  have hlen1 : (a ++ langPrefix).length = a.length + langPrefix.length := by simp
  have hlg : lg = ((a ++ langPrefix ++ r0).take (languageEnd (a ++ langPrefix ++ r0) r0 (a.length + langPrefix.length))).drop
      (a.length + langPrefix.length) := by
    unfold strSlice at hss
    split at hss
    · simpa using hss.symm
    · simp at hss
  unfold languageEnd at hlg hne hkeep
  cases hf : findP isAsciiWs r0 with
  | none =>
    rw [hf] at hlg hne hkeep
    simp only at hlg hne hkeep
    have hall := findP_eq_none hf
    have hlg' : lg = r0 := by
      rw [hlg, List.take_length, ← hlen1]
      exact List.drop_left' rfl
    subst hlg'
    refine ⟨a, [], by simp, ?_, hall, hbefore, Or.inl rfl, ?_⟩
    · intro e
      subst e
      apply hne
      simp
    · rw [← hkeep]
      simp only [ne_eq, not_true_eq_false, or_false, decide_not, Bool.not_eq_false', decide_eq_true_eq,
        and_true]
      exact List.length_eq_zero_iff
  | some pos =>
    rw [hf] at hlg hne hkeep
    simp only at hlg hne hkeep
    obtain ⟨pre, c, post, rfl, hpre', hc, rfl⟩ := findP_eq_some hf
    have hlg' : lg = pre := by
      rw [hlg]
      have h1 : (a ++ langPrefix ++ (pre ++ c :: post)).take (a.length + langPrefix.length + pre.length)
          = a ++ langPrefix ++ pre := by
        have : a ++ langPrefix ++ (pre ++ c :: post) = (a ++ langPrefix ++ pre) ++ c :: post := by simp
        rw [this]
        exact List.take_left' (by simp; omega)
      rw [h1, ← hlen1]
      exact List.drop_left' rfl
    subst hlg'
    refine ⟨a, c :: post, by simp, ?_, hpre', hbefore, Or.inr ⟨c, post, rfl, hc⟩, ?_⟩
    · intro e
      subst e
      simp at hne
    · rw [← hkeep]
      have hlt' : a.length + langPrefix.length + lg.length ≠ (a ++ langPrefix ++ (lg ++ c :: post)).length := by
        simp; omega
      constructor
      · intro hd
        simp only [decide_eq_false_iff_not, not_or] at hd
        exact absurd hlt' hd.2
      · intro hh
        cases hh.2

/-- The guard at an occurrence behind `a`: it skips, or it does not and `a` is empty or ends in
ASCII whitespace. -/
theorem guard_cases (a r0 : Str) :
    startGuard (a ++ langPrefix ++ r0) a.length = some true ∨
    (startGuard (a ++ langPrefix ++ r0) a.length = some false ∧
      (a = [] ∨ ∃ a' w, a = a' ++ [w] ∧ isAsciiWs w = true)) := by
  unfold startGuard
  rcases List.eq_nil_or_concat a with rfl | ⟨a', w, ha⟩
  · right; simp
  · rw [List.concat_eq_append] at ha
    subst ha
    have hget : (a' ++ [w] ++ langPrefix ++ r0)[(a' ++ [w]).length - 1]? = some w := by
      simp [List.append_assoc]
    have hn0 : (a' ++ [w]).length ≠ 0 := by simp
    simp only [ne_eq, hn0, not_false_eq_true, if_true, hget]
    cases hw : isAsciiWs w
    · left; rfl
    · right; exact ⟨rfl, Or.inr ⟨a', w, rfl, hw⟩⟩

theorem langLoop_found (v : Str) :
    ∀ l : List Nat, (∀ ms ∈ l, ms + langPrefix.length ≤ v.length ∧ langPrefix.isPrefixOf (v.drop ms) = true) →
      ∀ lang keep, langLoop v l = .ok (some (lang, keep)) → IsLanguageClass v lang keep := by
  intro l
  induction l with
  | nil => intro _ lang keep h; simp [langLoop] at h
  | cons ms rest ih =>
    intro hl lang keep h
    obtain ⟨hle, hpre⟩ := hl ms (by simp)
    have ihr := ih (fun m hm => hl m (by simp [hm]))
    -- write `v` around the occurrence
    obtain ⟨r0, hr0⟩ := List.isPrefixOf_iff_prefix.mp hpre
    have hms : ms ≤ v.length := by omega
    obtain ⟨a, hv, ha⟩ : ∃ a, v = a ++ langPrefix ++ r0 ∧ a.length = ms := by
      refine ⟨v.take ms, ?_, by simp [List.length_take, Nat.min_eq_left hms]⟩
      have := (List.take_append_drop ms v).symm
      rw [← hr0] at this
      simpa [List.append_assoc] using this
    subst ha
    clear hms hle hpre hr0 hl
    subst hv
    unfold langLoop at h
    dsimp only at h
    have hdrop : (a ++ langPrefix ++ r0).drop (a.length + langPrefix.length) = r0 := by
      have : (a ++ langPrefix).length = a.length + langPrefix.length := by simp
      rw [← this]
      exact List.drop_left' rfl
    rcases guard_cases a r0 with hg | ⟨hg, hbefore⟩
    · rw [hg] at h
      exact ihr lang keep h
    · rw [hg] at h
      simp only at h
      cases hsf : strFrom (a ++ langPrefix ++ r0) (a.length + langPrefix.length) with
      | none => rw [hsf] at h; simp at h
      | some strEnd =>
        have hse : strEnd = r0 := by
          unfold strFrom at hsf
          split at hsf
          · simp only [Option.some.injEq] at hsf
            rw [← hsf]
            exact hdrop
          · simp at hsf
        subst hse
        rw [hsf] at h
        simp only at h
        split at h
        · exact ihr lang keep h
        · rename_i hne
          split at h
          · simp at h
          · cases hss : strSlice (a ++ langPrefix ++ strEnd) (a.length + langPrefix.length)
                (languageEnd (a ++ langPrefix ++ strEnd) strEnd (a.length + langPrefix.length)) with
            | none => rw [hss] at h; simp at h
            | some lg =>
              rw [hss] at h
              simp only [Out.ok.injEq, Option.some.injEq, Prod.mk.injEq] at h
              obtain ⟨rfl, hkeep⟩ := h
              exact found_at a strEnd lg keep hbefore hne hss hkeep

theorem scanClass_language (v : Str) {lang : Str} {keep : Bool}
    (h : scanClass v = .ok ⟨some lang, keep⟩) : IsLanguageClass v lang keep := by
  unfold scanClass at h
  cases hl : langLoop v (findIter langPrefix v) with
  | ok r =>
    rw [hl] at h
    cases r with
    | none => simp at h
    | some p =>
      obtain ⟨lg, kp⟩ := p
      simp only [Out.ok.injEq, LangRes.mk.injEq, Option.some.injEq] at h
      obtain ⟨rfl, rfl⟩ := h
      exact langLoop_found v _ (fun ms hm => findIter_mem (by simp [langPrefix]) hm) _ _ hl
  | err => rw [hl] at h; simp at h
  | panic => rw [hl] at h; simp at h
  | hang => rw [hl] at h; simp at h

end Ruma.ScanLang
