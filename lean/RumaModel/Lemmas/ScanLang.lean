/-
  C17 helper lemmas: the `language-` class scan of `CodeData::parse` (`Model/ScanLang.lean`) returns for
  every attribute value.
-/
import RumaModel.Model.ScanLang
import RumaModel.Lemmas.ScanCommon
namespace Ruma.ScanLang
open Ruma Ruma.Scan Ruma.Ids

theorem isAsciiWs_lt {b : Nat} (h : isAsciiWs b = true) : b < 128 := by
  simp [isAsciiWs] at h
  omega

/-- `v` with an occurrence of `language-` at `ms`: the position behind the occurrence is a boundary. -/
theorem boundary_after_prefix {v : Str} (hs : Sep v) {ms : Nat}
    (hpre : langPrefix.isPrefixOf (v.drop ms) = true) (hle : ms + langPrefix.length ≤ v.length) :
    isBoundary v (ms + langPrefix.length) = true := by
  obtain ⟨r, hr⟩ := List.isPrefixOf_iff_prefix.mp hpre
  have hv : v = (v.take ms ++ [108, 97, 110, 103, 117, 97, 103, 101]) ++ 45 :: r := by
    have : v = v.take ms ++ v.drop ms := (List.take_append_drop ms v).symm
    rw [← hr] at this
    simpa [langPrefix] using this
  have hlen : (v.take ms ++ [108, 97, 110, 103, 117, 97, 103, 101]).length + 1 = ms + langPrefix.length := by
    have : ms ≤ v.length := by omega
    simp [langPrefix, List.length_take, Nat.min_eq_left this]
  have hs' := hs
  rw [hv] at hs'
  have := isBoundary_after hs' (by omega : (45 : Nat) < 128)
  rw [hlen, ← hv] at this
  exact this

/-- The end of the language is not before its start and is a char boundary. -/
theorem languageEnd_spec (v : Str) (ls : Nat) (hle : ls ≤ v.length) :
    ls ≤ languageEnd v (v.drop ls) ls ∧ isBoundary v (languageEnd v (v.drop ls) ls) = true := by
  unfold languageEnd
  cases hf : findP isAsciiWs (v.drop ls) with
  | none => exact ⟨hle, isBoundary_length v⟩
  | some pos =>
    obtain ⟨pre, c, post, hdrop, _, hc, rfl⟩ := findP_eq_some hf
    refine ⟨by simp, ?_⟩
    have hv : v = (v.take ls ++ pre) ++ c :: post := by
      have : v = v.take ls ++ v.drop ls := (List.take_append_drop _ v).symm
      rw [hdrop] at this
      simpa using this
    have hl : (v.take ls ++ pre).length = ls + pre.length := by
      simp [List.length_take, Nat.min_eq_left hle]
    have := isBoundary_at (v.take ls ++ pre) c post (isAsciiWs_lt hc)
    rw [hl, ← hv] at this
    exact this

theorem langLoop_returns (v : Str) (hs : Sep v) :
    ∀ l : List Nat, (∀ ms ∈ l, ms + langPrefix.length ≤ v.length ∧ langPrefix.isPrefixOf (v.drop ms) = true) →
      (langLoop v l).Returns := by
  intro l
  induction l with
  | nil => intro _; simp [langLoop, Out.Returns]
  | cons ms rest ih =>
    intro h
    obtain ⟨hle, hpre⟩ := h ms (by simp)
    have ihr := ih (fun m hm => h m (by simp [hm]))
    unfold langLoop
    have hlt : ms - 1 < v.length := by simp [langPrefix] at hle; omega
    -- the byte before the match exists
    have hb : v[ms - 1]? = some v[ms - 1] := by simp [hlt]
    rw [hb]
    have hbd := boundary_after_prefix hs hpre hle
    obtain ⟨hge, hend⟩ := languageEnd_spec v (ms + langPrefix.length) hle
    have hsl : ∃ lang, strSlice v (ms + langPrefix.length)
        (languageEnd v (v.drop (ms + langPrefix.length)) (ms + langPrefix.length)) = some lang := by
      simp [strSlice, hbd, hend, hge]
    obtain ⟨lang, hlang⟩ := hsl
    simp only [strFrom, hbd, if_true, hlang]
    have hnot : ¬ (languageEnd v (v.drop (ms + langPrefix.length)) (ms + langPrefix.length)
        < ms + langPrefix.length) := by omega
    simp only [hnot, if_false]
    by_cases h0 : ms = 0
    · subst h0
      simp only [ne_eq, not_true_eq_false, if_false]
      split
      · exact ihr
      · simp [Out.Returns]
    · simp only [ne_eq, h0, not_false_eq_true, if_true]
      cases isAsciiWs v[ms - 1]
      · simp only [Bool.not_false]; exact ihr
      · simp only [Bool.not_true]
        split
        · exact ihr
        · simp [Out.Returns]

theorem scanClass_returns (v : Str) (hs : Sep v) : (scanClass v).Returns := by
  unfold scanClass
  have := langLoop_returns v hs (findIter langPrefix v)
    (fun ms hm => findIter_mem (by simp [langPrefix]) hm)
  cases h : langLoop v (findIter langPrefix v) with
  | ok r =>
    cases r with
    | none => simp [Out.Returns]
    | some p => obtain ⟨lang, keep⟩ := p; simp [Out.Returns]
  | err => simp [Out.Returns]
  | panic => rw [h] at this; exact this.elim
  | hang => rw [h] at this; exact this.elim

end Ruma.ScanLang
