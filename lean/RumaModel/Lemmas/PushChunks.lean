/-
  C12 — the chunked regular expression of `matches_word` denotes the glob (`chunks_spec`), its edge
  groups are the spec's word boundaries (`startEdge_iff`, `endEdge_iff`), the reference matchers are
  correct (`chunksDecide_iff`, `rxDecide_iff`).
-/
import RumaModel.Lemmas.PushWord
set_option linter.unusedSimpArgs false
namespace Ruma.Push
open Ruma.Spec.Glob (Glob WordMatch boundary Glob_cons_inv)

/-- A literal prefix of a glob matches itself. -/
theorem Glob_lit_append {l : Text} (hl : ∀ c ∈ l, isWild c = false) (q t : Text) :
    Glob (l ++ q) t ↔ ∃ r, t = l ++ r ∧ Glob q r := by
  induction l generalizing t with
  | nil => simp
  | cons a l ih =>
    have ha : a ≠ '*' ∧ a ≠ '?' := by
      have := hl a (by simp)
      simp only [isWild, Bool.or_eq_false_iff, beq_eq_false_iff_ne, ne_eq] at this
      exact ⟨this.2, this.1⟩
    have ih' := ih (fun c hc => hl c (by simp [hc]))
    constructor
    · intro h
      rcases Glob_cons_inv h with ⟨h, _⟩ | ⟨h, _⟩ | ⟨_, _, t', rfl, hg⟩
      · exact absurd h ha.1
      · exact absurd h ha.2
      · obtain ⟨r, rfl, hr⟩ := (ih' t').1 hg
        exact ⟨r, rfl, hr⟩
    · rintro ⟨r, rfl, hr⟩
      exact Glob.lit a _ _ ha.1 ha.2 ((ih' _).2 ⟨r, rfl, hr⟩)

def qCount (w : Text) : Nat := (w.filter (· == '?')).length

/-- The length condition of `(?s:.){n}` / `(?s:.){n,}` for a run of wildcards. -/
def runLen (w : Text) (u : Text) : Prop :=
  if w.contains '*' then qCount w ≤ u.length else u.length = qCount w

/-- A run of wildcards matches any text of the right length. -/
theorem Glob_run_append {w : Text} (hw : ∀ c ∈ w, isWild c = true) (q t : Text) :
    Glob (w ++ q) t ↔ ∃ u r, t = u ++ r ∧ runLen w u ∧ Glob q r := by
  induction w generalizing t with
  | nil =>
    simp only [List.nil_append, runLen, qCount]
    constructor
    · intro h; exact ⟨[], t, rfl, by simp, h⟩
    · rintro ⟨u, r, rfl, hu, hr⟩
      simp at hu; subst hu; exact hr
  | cons a w ih =>
    have ih' := ih (fun c hc => hw c (by simp [hc]))
    have ha := hw a (by simp)
    simp only [isWild, Bool.or_eq_true, beq_iff_eq] at ha
    rcases ha with rfl | rfl
    · -- `?`
      have hc : ('?' :: w).contains '*' = w.contains '*' := by simp [List.contains_cons]
      have hq : qCount ('?' :: w) = qCount w + 1 := by simp [qCount]
      constructor
      · intro h
        rcases Glob_cons_inv h with ⟨h, _⟩ | ⟨_, c, t', rfl, hg⟩ | ⟨_, h, _⟩
        · exact absurd h (by decide)
        · obtain ⟨u, r, rfl, hu, hr⟩ := (ih' t').1 hg
          refine ⟨c :: u, r, rfl, ?_, hr⟩
          unfold runLen at hu ⊢
          rw [hc, hq]; split <;> simp_all
        · exact absurd rfl h
      · rintro ⟨u, r, rfl, hu, hr⟩
        unfold runLen at hu
        rw [hc, hq] at hu
        cases u with
        | nil => split at hu <;> simp at hu
        | cons c u =>
          refine Glob.one _ c _ ((ih' _).2 ⟨u, r, rfl, ?_, hr⟩)
          unfold runLen
          split <;> simp_all
    · -- `*`
      have hc : ('*' :: w).contains '*' = true := by simp [List.contains_cons]
      have hq : qCount ('*' :: w) = qCount w := by simp [qCount]
      constructor
      · intro h
        rcases Glob_cons_inv h with ⟨_, u1, t1, rfl, hg⟩ | ⟨h, _⟩ | ⟨h, _⟩
        · obtain ⟨u2, r, rfl, hu, hr⟩ := (ih' t1).1 hg
          refine ⟨u1 ++ u2, r, by simp, ?_, hr⟩
          unfold runLen at hu ⊢
          rw [hc, hq]
          simp only [if_true, List.length_append]
          split at hu <;> omega
        · exact absurd h (by decide)
        · exact absurd rfl h
      · rintro ⟨u, r, rfl, hu, hr⟩
        unfold runLen at hu
        rw [hc, hq] at hu
        simp only [if_true] at hu
        -- split `u` so that the tail has the length the rest of the run wants
        have : u ++ r = u.take (u.length - qCount w) ++ (u.drop (u.length - qCount w) ++ r) := by
          rw [← List.append_assoc, List.take_append_drop]
        rw [List.cons_append, this]
        refine Glob.star _ _ _ ((ih' _).2 ⟨u.drop (u.length - qCount w), r, rfl, ?_, hr⟩)
        unfold runLen
        split
        · simp; omega
        · simp; omega


theorem ChunksMatch_dots (w : Text) (cs : List Chunk) (t : Text) :
    ChunksMatch (wildcardsToRegex w :: cs) t ↔ ∃ u r, t = u ++ r ∧ runLen w u ∧ ChunksMatch cs r := by
  unfold wildcardsToRegex runLen qCount
  cases h : w.contains '*'
  · simp only [ChunksMatch, Bool.false_eq_true, if_false]
  · simp only [ChunksMatch, if_true]

/-- The chunk list produced from any state of the loop denotes the rest of the glob. -/
theorem chunksGo_spec (rest : Text) : ∀ (pw : Bool) (cur : Text) (first : Bool) (t : Text),
    (pw = false → ∀ c ∈ cur, isWild c = false) → (pw = true → ∀ c ∈ cur, isWild c = true) →
    (first = true → cur = [] ∧ pw = false) →
    (ChunksMatch (chunksGo pw cur first rest) t ↔ Glob (cur ++ rest) t) := by
  induction rest with
  | nil =>
    intro pw cur first t h1 h2 _
    cases pw
    · simp only [chunksGo, Bool.false_eq_true, if_false, ChunksMatch]
      rw [Glob_lit_append (h1 rfl)]
      constructor
      · rintro ⟨r, h, rfl⟩; exact ⟨[], h, Glob.nil⟩
      · rintro ⟨r, h, hg⟩; cases hg; exact ⟨[], h, rfl⟩
    · simp only [chunksGo, if_true]
      rw [ChunksMatch_dots, Glob_run_append (h2 rfl)]
      constructor
      · rintro ⟨u, r, h, hl, hr⟩
        simp only [ChunksMatch] at hr; subst hr; exact ⟨u, [], h, hl, Glob.nil⟩
      · rintro ⟨u, r, h, hl, hg⟩; cases hg; exact ⟨u, [], h, hl, rfl⟩
  | cons c rest ih =>
    intro pw cur first t h1 h2 h3
    have hassoc : cur ++ c :: rest = (cur ++ [c]) ++ rest := by simp
    by_cases hc : isWild c = true
    · cases pw
      · cases first
        · -- a literal chunk ends here
          simp only [chunksGo, hc, if_true, Bool.not_false, Bool.false_eq_true, if_false, ChunksMatch]
          rw [Glob_lit_append (h1 rfl)]
          constructor
          · rintro ⟨r, h, hr⟩
            exact ⟨r, h, (ih true [c] false r (by simp) (by simp [hc]) (by simp)).1 hr⟩
          · rintro ⟨r, h, hr⟩
            exact ⟨r, h, (ih true [c] false r (by simp) (by simp [hc]) (by simp)).2 hr⟩
        · obtain ⟨rfl, _⟩ := h3 rfl
          simp only [chunksGo, hc, if_true, Bool.not_false, List.nil_append]
          exact ih true [c] false t (by simp) (by simp [hc]) (by simp)
      · simp only [chunksGo, hc, if_true, Bool.not_true, Bool.false_eq_true, if_false]
        rw [hassoc]
        exact ih true (cur ++ [c]) false t (by simp)
          (fun _ x hx => by
            rcases List.mem_append.1 hx with hx | hx
            · exact h2 rfl x hx
            · simp at hx; subst hx; exact hc) (by simp)
    · have hc' : isWild c = false := by simpa using hc
      cases pw
      · simp only [chunksGo, hc', Bool.false_eq_true, if_false]
        rw [hassoc]
        exact ih false (cur ++ [c]) false t
          (fun _ x hx => by
            rcases List.mem_append.1 hx with hx | hx
            · exact h1 rfl x hx
            · simp at hx; subst hx; exact hc') (by simp) (by simp)
      · simp only [chunksGo, hc', Bool.false_eq_true, if_false, if_true]
        rw [ChunksMatch_dots, Glob_run_append (h2 rfl)]
        constructor
        · rintro ⟨u, r, h, hl, hr⟩
          exact ⟨u, r, h, hl, (ih false [c] false r (by simp [hc']) (by simp) (by simp)).1 hr⟩
        · rintro ⟨u, r, h, hl, hr⟩
          exact ⟨u, r, h, hl, (ih false [c] false r (by simp [hc']) (by simp) (by simp)).2 hr⟩

/-- The chunk list built from a pattern denotes the same language as the glob. -/
theorem chunks_spec (p t : Text) : ChunksMatch (chunks p) t ↔ Glob p t := by
  have := chunksGo_spec p false [] true t (by simp) (by simp) (by simp)
  simpa [chunks] using this


theorem wordAt_eq : @wordAt = @Ruma.Spec.Glob.wordAt := rfl
theorem slice_eq : @slice = @Ruma.Spec.Glob.slice := rfl

theorem wordAt_length (s : Text) : wordAt s s.length = false := by
  simp [wordAt]

/-- `(?-u:^|\W|\b)` can end exactly at the spec's word boundaries. -/
theorem startEdge_iff (s : Text) (i : Nat) (hi : i ≤ s.length) : startEdge s i = true ↔ boundary s i := by
  unfold startEdge asciiWordBoundary boundary
  rw [← wordAt_eq]
  by_cases h0 : i = 0
  · subst h0; simp
  · by_cases hl : i = s.length
    · subst hl
      rw [wordAt_length]
      cases wordAt s (s.length - 1) <;> simp [h0]
    · have hlt : i ≤ s.length := hi
      cases wordAt s (i - 1) <;> cases wordAt s i <;> simp [h0, hl, hlt]

/-- `(?-u:\b|\W|$)` can start exactly at the spec's word boundaries. -/
theorem endEdge_iff (s : Text) (j : Nat) (hj : j ≤ s.length) : endEdge s j = true ↔ boundary s j := by
  unfold endEdge asciiWordBoundary boundary
  rw [← wordAt_eq]
  by_cases hl : j = s.length
  · subst hl; simp
  · have hlt : j < s.length := by omega
    by_cases h0 : j = 0
    · subst h0
      cases wordAt s 0 <;> simp [hlt]
    · cases wordAt s (j - 1) <;> cases wordAt s j <;> simp [h0, hl, hlt]

/-- The regular expression that `matches_word` builds for a non-empty pattern matches a text iff
the spec's word-boundary glob matching holds. -/
theorem RegexMatches_chunks_iff (p s : Text) (hp : p ≠ []) :
    RegexMatches (chunks p) s ↔ WordMatch p s := by
  unfold RegexMatches WordMatch
  constructor
  · rintro ⟨i, j, hij, hj, h1, h2, h3⟩
    refine Or.inr ⟨hp, i, j, hij, hj, ?_, (startEdge_iff s i (by omega)).1 h1, (endEdge_iff s j hj).1 h3⟩
    rw [← slice_eq]; exact (chunks_spec p _).1 h2
  · rintro (⟨h, _⟩ | ⟨_, i, j, hij, hj, h2, h1, h3⟩)
    · exact absurd h hp
    · refine ⟨i, j, hij, hj, (startEdge_iff s i (by omega)).2 h1, ?_, (endEdge_iff s j hj).2 h3⟩
      rw [slice_eq]; exact (chunks_spec p _).2 h2

theorem anySuffix_iff (f : Text → Bool) (s : Text) :
    anySuffix f s = true ↔ ∃ u t, s = u ++ t ∧ f t = true := by
  have h : anySuffix f s = Ruma.Spec.Glob.anySuffix f s := by
    induction s with
    | nil => rfl
    | cons c t ih => simp [anySuffix, Ruma.Spec.Glob.anySuffix, ih]
  rw [h]; exact Ruma.Spec.Glob.anySuffix_iff f s

theorem chunksDecide_iff (cs : List Chunk) : ∀ t, chunksDecide cs t = true ↔ ChunksMatch cs t := by
  induction cs with
  | nil => intro t; cases t <;> simp [chunksDecide, ChunksMatch]
  | cons c cs ih =>
    intro t
    cases c with
    | lit l =>
      simp only [chunksDecide, ChunksMatch, Bool.and_eq_true, List.isPrefixOf_iff_prefix, ih]
      constructor
      · rintro ⟨⟨r, rfl⟩, h⟩
        exact ⟨r, rfl, by simpa using h⟩
      · rintro ⟨r, rfl, h⟩
        exact ⟨⟨r, rfl⟩, by simpa using h⟩
    | dots n o =>
      cases o
      · simp only [chunksDecide, ChunksMatch, Bool.and_eq_true, decide_eq_true_eq, ih]
        constructor
        · rintro ⟨hn, h⟩
          exact ⟨t.take n, t.drop n, (List.take_append_drop n t).symm, by simp; omega, h⟩
        · rintro ⟨u, r, rfl, hu, h⟩
          subst hu
          exact ⟨by simp, by simpa using h⟩
      · simp only [chunksDecide, ChunksMatch, Bool.and_eq_true, decide_eq_true_eq, anySuffix_iff, ih]
        constructor
        · rintro ⟨hn, u, r, hur, h⟩
          refine ⟨t.take n ++ u, r, ?_, by simp; omega, h⟩
          rw [List.append_assoc, ← hur, List.take_append_drop]
        · rintro ⟨u, r, rfl, hu, h⟩
          refine ⟨by simp; omega, u.drop n, r, ?_, h⟩
          rw [List.drop_append_of_le_length hu]

/-- The reference matcher decides the meaning of the generated regular expression. -/
theorem rxDecide_iff (cs : List Chunk) (s : Text) : rxDecide cs s = true ↔ RegexMatches cs s := by
  unfold rxDecide RegexMatches
  simp only [List.any_eq_true, List.mem_range, Bool.and_eq_true, decide_eq_true_eq, chunksDecide_iff]
  constructor
  · rintro ⟨i, _, h1, j, hj, ⟨hij, h3⟩, h2⟩
    exact ⟨i, j, hij, by omega, h1, h2, h3⟩
  · rintro ⟨i, j, hij, hj, h1, h2, h3⟩
    exact ⟨i, by omega, h1, j, by omega, ⟨hij, h3⟩, h2⟩

end Ruma.Push
