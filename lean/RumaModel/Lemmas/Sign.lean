/-
  Lemmas for C02 (JSON signing and verification): key identifiers, the verification loops
  characterised as propositions, the object after signing, and that signing keeps valid signatures.
-/
import RumaModel.Lemmas.SignObj
import RumaModel.Lemmas.SignB64
import RumaModel.Spec.Sign
namespace Ruma.Sign
open Ruma Ruma.Spec.Sign

/-! ### Key identifiers -/

theorem splitColon_append (a b : Str) (h : 58 ∉ a) : splitColon (a ++ 58 :: b) = some (a, b) := by
  induction a with
  | nil => simp [splitColon]
  | cons c t ih =>
    have hc : c ≠ 58 := fun e => h (by simp [e])
    have ht : 58 ∉ t := fun e => h (by simp [e])
    simp [splitColon, hc, ih ht]

theorem splitColon_some (l a b : Str) (h : splitColon l = some (a, b)) : l = a ++ 58 :: b := by
  induction l generalizing a with
  | nil => simp [splitColon] at h
  | cons c t ih =>
    simp only [splitColon] at h
    split at h
    · rename_i e; simp at h; simp [← h.1, ← h.2, e]
    · split at h
      · rename_i a' b' e
        simp at h
        obtain ⟨h1, h2⟩ := h
        subst h1 h2
        rw [List.cons_append, ← ih a' e]
      · simp at h

theorem supportedKeyId_iff (keyId : Str) : supportedKeyId keyId = true ↔ IsEd25519KeyId keyId := by
  have hb : bs "ed25519:" = bs "ed25519" ++ [58] := by decide
  have hn : (58 : Nat) ∉ bs "ed25519" := by decide
  constructor
  · intro h
    unfold supportedKeyId keyIdAlgorithm at h
    split at h
    · rename_i a hsome
      split at hsome
      · rename_i a' b' hs
        split at hsome
        · simp at hsome
        · simp at hsome
          subst hsome
          simp at h
          subst h
          refine ⟨b', ?_⟩
          rw [splitColon_some _ _ _ hs, hb]; simp
      · simp at hsome
    · simp at h
  · rintro ⟨v, rfl⟩
    have : splitColon (bs "ed25519:" ++ v) = some (bs "ed25519", v) := by
      rw [hb, List.append_assoc]; exact splitColon_append _ _ hn
    unfold supportedKeyId keyIdAlgorithm
    rw [this]
    have hne : bs "ed25519" ≠ [] := by decide
    simp [hne]

theorem ed25519KeyId_eq (version : Str) : ed25519KeyId version = bs "ed25519:" ++ version := by
  have hb : bs "ed25519:" = bs "ed25519" ++ [58] := by decide
  simp [ed25519KeyId, hb]

theorem supported_ed25519KeyId (version : Str) : supportedKeyId (ed25519KeyId version) = true :=
  (supportedKeyId_iff _).mpr ⟨version, ed25519KeyId_eq version⟩


/-! ### Verification, characterised -/

theorem verifyBytes_ok_iff (S : SigScheme) (pk raw msg : List Nat) :
    verifyBytes S pk raw msg = .ok () ↔ pk.length = 32 ∧ raw.length = 64 ∧ S.verify pk msg raw = true := by
  unfold verifyBytes
  by_cases h1 : pk.length = 32 <;> by_cases h2 : raw.length = 64 <;>
    cases h3 : S.verify pk msg raw <;> simp [h1, h2]

/-- What one iteration of the loop requires of a supported entry. -/
def EntryOk (S : SigScheme) (pks : List (Str × Str)) (msg : List Nat) (p : Str × JVal) : Prop :=
  ∃ pk, Obj.get pks p.1 = some pk ∧ ValidSignature S pk msg p.2

theorem checkSet_ok_iff (S : SigScheme) (pks : List (Str × Str)) (msg : List Nat)
    (set : List (Str × JVal)) (c c' : Bool) :
    checkSet S pks msg set c = .ok c' ↔
      (∀ p ∈ set, supportedKeyId p.1 = true → EntryOk S pks msg p) ∧
      c' = (c || set.any (fun p => supportedKeyId p.1)) := by
  induction set generalizing c with
  | nil => simp [checkSet]; exact eq_comm
  | cons p t ih =>
    obtain ⟨kid, v⟩ := p
    simp only [checkSet]
    by_cases hs : supportedKeyId kid = true
    · simp only [hs, Bool.true_eq_false, if_false]
      cases hpk : Obj.get pks kid with
      | none =>
        simp only [List.mem_cons, forall_eq_or_imp]
        constructor
        · intro h; cases h
        · rintro ⟨⟨h, _⟩, _⟩
          obtain ⟨pk, h1, _⟩ := h hs
          simp [hpk] at h1
      | some pk =>
        have notValid : ∀ {P Q : Prop}, ¬ ValidSignature S pk msg v →
            ((∀ p ∈ (kid, v) :: t, supportedKeyId p.1 = true → EntryOk S pks msg p) ∧ P) → Q := by
          intro P Q hv h
          obtain ⟨pk', h1, h2⟩ := h.1 (kid, v) (by simp) hs
          simp [hpk] at h1; subst h1; exact absurd h2 hv
        cases v with
        | str s =>
          simp only
          cases hd : unb64 s with
          | none =>
            simp only
            constructor
            · intro h; cases h
            · apply notValid
              rintro ⟨s', raw, e, hu, _⟩
              cases e; simp [hd] at hu
          | some raw =>
            simp only
            cases hv : verifyBytes S pk raw msg with
            | error e =>
              simp only
              constructor
              · intro h; cases h
              · apply notValid
                rintro ⟨s', raw', e', hu, h1, h2, h3⟩
                cases e'; rw [hd] at hu; cases hu
                have := (verifyBytes_ok_iff S pk raw msg).mpr ⟨h1, h2, h3⟩
                rw [hv] at this; cases this
            | ok u =>
              cases u
              simp only
              rw [ih]
              have hvalid : ValidSignature S pk msg (.str s) := by
                obtain ⟨h1, h2, h3⟩ := (verifyBytes_ok_iff S pk raw msg).mp hv
                exact ⟨s, raw, rfl, hd, h1, h2, h3⟩
              simp only [List.mem_cons, forall_eq_or_imp, List.any_cons, hs, Bool.true_or, Bool.or_true]
              constructor
              · rintro ⟨h1, h2⟩
                exact ⟨⟨fun _ => ⟨pk, hpk, hvalid⟩, h1⟩, h2⟩
              · rintro ⟨⟨_, h1⟩, h2⟩
                exact ⟨h1, h2⟩
        | null | bool _ | int _ | float | arr _ | obj _ =>
          simp only
          constructor
          · intro h; cases h
          · apply notValid
            rintro ⟨s', raw, e, _⟩
            cases e
    · have hs' : supportedKeyId kid = false := by simpa using hs
      simp only [hs', if_true]
      rw [ih]
      simp only [List.mem_cons, forall_eq_or_imp, List.any_cons, hs', Bool.false_or]
      constructor
      · rintro ⟨h1, h2⟩
        exact ⟨⟨fun h => by simp at h, h1⟩, h2⟩
      · rintro ⟨⟨_, h1⟩, h2⟩
        exact ⟨h1, h2⟩


/-- The per-entity check of the model, as a proposition (same shape as `Spec.Sign.EntityVerifies`,
with the model's `supportedKeyId`). -/
def EntityOk (S : SigScheme) (keys : KeyMap) (sigs : Obj) (msg : List Nat) (entity : Str) : Prop :=
  ∃ set pks, Obj.get sigs entity = some (.obj set) ∧ Obj.get keys entity = some pks ∧
    (∃ p ∈ set, supportedKeyId p.1 = true) ∧
    ∀ p ∈ set, supportedKeyId p.1 = true → EntryOk S pks msg p

theorem verifyForEntity_ok_iff (S : SigScheme) (entity : Str) (keys : KeyMap) (sigs : Obj)
    (msg : List Nat) :
    verifyForEntity S entity keys sigs msg = .ok () ↔ EntityOk S keys sigs msg entity := by
  unfold verifyForEntity EntityOk
  cases hset : Obj.get sigs entity with
  | none => simp
  | some v =>
    cases v with
    | obj set =>
      simp only
      cases hk : Obj.get keys entity with
      | none => simp
      | some pks =>
        simp only
        cases hc : checkSet S pks msg set false with
        | error e =>
          simp only
          constructor
          · intro h; cases h
          · rintro ⟨set', pks', e1, e2, h1, h2⟩
            simp at e1 e2; subst e1 e2
            have := (checkSet_ok_iff S pks msg set false _).mpr ⟨h2, rfl⟩
            rw [hc] at this; cases this
        | ok b =>
          obtain ⟨h2, hb⟩ := (checkSet_ok_iff S pks msg set false b).mp hc
          simp only [Bool.false_or] at hb
          cases b with
          | true =>
            simp only
            constructor
            · intro _
              refine ⟨set, pks, rfl, rfl, ?_, h2⟩
              have := hb.symm
              rw [List.any_eq_true] at this
              exact this
            · intro _; trivial
          | false =>
            simp only
            constructor
            · intro h; cases h
            · rintro ⟨set', pks', e1, e2, ⟨p, hp, hsup⟩, _⟩
              simp at e1; subst e1
              have : set.any (fun p => supportedKeyId p.1) = true := List.any_eq_true.mpr ⟨p, hp, hsup⟩
              rw [this] at hb; cases hb
    | null | bool _ | int _ | float | arr _ | str _ => simp

theorem verifyEntities_ok_iff (S : SigScheme) (keys : KeyMap) (sigs : Obj) (msg : List Nat)
    (l : List Str) :
    verifyEntities S keys sigs msg l = .ok () ↔ ∀ e ∈ l, EntityOk S keys sigs msg e := by
  induction l with
  | nil => simp [verifyEntities]
  | cons e t ih =>
    simp only [verifyEntities, List.mem_cons, forall_eq_or_imp]
    cases h : verifyForEntity S e keys sigs msg with
    | error err =>
      simp only
      constructor
      · intro h'; cases h'
      · rintro ⟨h1, _⟩
        have := (verifyForEntity_ok_iff S e keys sigs msg).mpr h1
        rw [h] at this; cases this
    | ok u =>
      cases u
      simp only
      rw [ih]
      exact ⟨fun h' => ⟨(verifyForEntity_ok_iff S e keys sigs msg).mp h, h'⟩, fun h' => h'.2⟩

theorem verifyJson_ok_iff (S : SigScheme) (keys : KeyMap) (obj : Obj) :
    verifyJson S keys obj = .ok () ↔
      ∃ sigs, Obj.get obj sigKey = some (.obj sigs) ∧
        ∀ e ∈ Obj.keys sigs, EntityOk S keys sigs (canonicalJson obj) e := by
  unfold verifyJson
  cases h : Obj.get obj sigKey with
  | none => simp
  | some v =>
    cases v with
    | obj sigs => simp [verifyEntities_ok_iff]
    | null | bool _ | int _ | float | arr _ | str _ => simp

/-! ### Bridge to the specification's vocabulary -/

theorem canonicalJson_eq_signedBytes (obj : Obj) : canonicalJson obj = signedBytes obj := by
  unfold canonicalJson signedBytes signedContent Obj.erase sigKey unsKey
  rw [List.filter_filter]
  congr 2
  funext p
  simp [Bool.and_comm]

theorem entityOk_iff (S : SigScheme) (keys : KeyMap) (sigs : Obj) (msg : List Nat) (e : Str) :
    EntityOk S keys sigs msg e ↔ EntityVerifies S keys sigs msg e := by
  unfold EntityOk EntityVerifies EntryOk
  simp only [supportedKeyId_iff]

/-- `verify_sound`: the model accepts exactly when the specification's condition holds. -/
theorem verifyJson_ok_iff_spec (S : SigScheme) (keys : KeyMap) (obj : Obj) :
    verifyJson S keys obj = .ok () ↔ Verifies S keys obj := by
  rw [verifyJson_ok_iff]
  unfold Verifies
  simp only [entityOk_iff, canonicalJson_eq_signedBytes]
  rfl


/-! ### Signing -/

theorem sigKey_ne_unsKey : sigKey ≠ unsKey := by decide
theorem unsKey_ne_sigKey : unsKey ≠ sigKey := by decide
theorem sigKey_eq : sigKey = bs "signatures" := rfl
theorem unsKey_eq : unsKey = bs "unsigned" := rfl

/-- The new `signatures` object after signing. -/
def newSignatures (S : SigScheme) (entity : Str) (kp : KeyPair) (obj : Obj) : Obj :=
  Obj.insert (signaturesOf obj) entity
    (.obj (Obj.insert (signatureSetOf obj entity) (ed25519KeyId kp.version)
      (.str (signatureString S kp (canonicalJson obj)))))

/-- The object after a successful `signJson`, exactly as the statements of the code build it. -/
def signResult (S : SigScheme) (entity : Str) (kp : KeyPair) (obj : Obj) : Obj :=
  let o3 := Obj.insert (Obj.erase (Obj.erase obj sigKey) unsKey) sigKey (.obj (newSignatures S entity kp obj))
  match Obj.get (Obj.erase obj sigKey) unsKey with
  | some u => Obj.insert o3 unsKey u
  | none => o3

theorem signJson_of_signable (S : SigScheme) (entity : Str) (kp : KeyPair) (obj : Obj)
    (h : Signable obj entity) : signJson S entity kp obj = (.ok (), signResult S entity kp obj) := by
  unfold Signable at h
  rw [← sigKey_eq] at h
  rcases h with h | ⟨s, h, h'⟩
  · cases hu : Obj.get (Obj.erase obj sigKey) unsKey <;>
      simp only [signJson, h, signCore, signResult, newSignatures, signaturesOf, signatureSetOf,
        ← sigKey_eq, Obj.get, canonicalJson, hu]
  · rcases h' with h' | ⟨set, h'⟩
    · cases hu : Obj.get (Obj.erase obj sigKey) unsKey <;>
        simp only [signJson, h, h', signCore, signResult, newSignatures, signaturesOf, signatureSetOf,
          ← sigKey_eq, canonicalJson, hu]
    · cases hu : Obj.get (Obj.erase obj sigKey) unsKey <;>
        simp only [signJson, h, h', signCore, signResult, newSignatures, signaturesOf, signatureSetOf,
          ← sigKey_eq, canonicalJson, hu]

theorem signJson_of_not_signable (S : SigScheme) (entity : Str) (kp : KeyPair) (obj : Obj)
    (h : ¬ Signable obj entity) : ∃ e, signJson S entity kp obj = (.error e, obj) := by
  unfold Signable at h
  rw [← sigKey_eq] at h
  unfold signJson
  cases h1 : Obj.get obj sigKey with
  | none => exact absurd (Or.inl h1) h
  | some v =>
    cases v with
    | obj s =>
      simp only
      cases h2 : Obj.get s entity with
      | none => exact absurd (Or.inr ⟨s, h1, Or.inl h2⟩) h
      | some w =>
        cases w with
        | obj set => exact absurd (Or.inr ⟨s, h1, Or.inr ⟨set, h2⟩⟩) h
        | null | bool _ | int _ | float | arr _ | str _ => exact ⟨_, rfl⟩
    | null | bool _ | int _ | float | arr _ | str _ => exact ⟨_, rfl⟩

theorem signJson_ok_iff (S : SigScheme) (entity : Str) (kp : KeyPair) (obj : Obj) :
    (signJson S entity kp obj).1 = .ok () ↔ Signable obj entity := by
  constructor
  · intro h
    apply Classical.byContradiction
    intro hn
    obtain ⟨e, he⟩ := signJson_of_not_signable S entity kp obj hn
    rw [he] at h; cases h
  · intro h; rw [signJson_of_signable S entity kp obj h]

theorem get_signResult_ne (S : SigScheme) (entity : Str) (kp : KeyPair) (obj : Obj) (k : Str)
    (hk : k ≠ sigKey) : Obj.get (signResult S entity kp obj) k = Obj.get obj k := by
  unfold signResult
  by_cases hu : k = unsKey
  · subst hu
    cases h : Obj.get (Obj.erase obj sigKey) unsKey with
    | some u =>
      simp only
      rw [Obj.get_insert_self, ← h, Obj.get_erase_ne _ _ _ unsKey_ne_sigKey]
    | none =>
      simp only
      rw [Obj.get_insert_ne _ _ _ _ unsKey_ne_sigKey, Obj.get_erase_self, ← h,
        Obj.get_erase_ne _ _ _ unsKey_ne_sigKey]
  · have step : Obj.get (Obj.insert (Obj.erase (Obj.erase obj sigKey) unsKey) sigKey
        (.obj (newSignatures S entity kp obj))) k = Obj.get obj k := by
      rw [Obj.get_insert_ne _ _ _ _ hk, Obj.get_erase_ne _ _ _ hu, Obj.get_erase_ne _ _ _ hk]
    cases h : Obj.get (Obj.erase obj sigKey) unsKey with
    | some u => simp only; rw [Obj.get_insert_ne _ _ _ _ hu, step]
    | none => simp only; exact step

theorem get_signResult_sig (S : SigScheme) (entity : Str) (kp : KeyPair) (obj : Obj) :
    Obj.get (signResult S entity kp obj) sigKey = some (.obj (newSignatures S entity kp obj)) := by
  unfold signResult
  cases h : Obj.get (Obj.erase obj sigKey) unsKey with
  | some u => simp only; rw [Obj.get_insert_ne _ _ _ _ sigKey_ne_unsKey, Obj.get_insert_self]
  | none => simp only; rw [Obj.get_insert_self]

/-- The signed bytes never include `signatures` (nor `unsigned`): signing does not change them. -/
theorem canonicalJson_signResult (S : SigScheme) (entity : Str) (kp : KeyPair) (obj : Obj) :
    canonicalJson (signResult S entity kp obj) = canonicalJson obj := by
  have key : ∀ X, Obj.erase (Obj.erase (Obj.insert (Obj.erase (Obj.erase obj sigKey) unsKey) sigKey X)
      sigKey) unsKey = Obj.erase (Obj.erase obj sigKey) unsKey := by
    intro X
    rw [Obj.erase_insert_self, Obj.erase_comm _ unsKey sigKey, Obj.erase_erase_self,
      Obj.erase_erase_self]
  unfold canonicalJson signResult
  cases h : Obj.get (Obj.erase obj sigKey) unsKey with
  | some u =>
    simp only
    rw [Obj.erase_comm _ sigKey unsKey, Obj.erase_insert_self, Obj.erase_comm _ unsKey sigKey, key]
  | none => simp only; rw [key]


/-! ### Signing keeps (and adds) valid signatures -/

/-- The key map knows the signer's public key under the key id the signer uses. -/
def HasKey (S : SigScheme) (keys : KeyMap) (entity : Str) (kp : KeyPair) : Prop :=
  ∃ pks, Obj.get keys entity = some pks ∧
    Obj.get pks (ed25519KeyId kp.version) = some (S.pub kp.secret)

theorem signaturesOf_of_get (obj : Obj) (sigs : Obj) (h : Obj.get obj sigKey = some (.obj sigs)) :
    signaturesOf obj = sigs := by
  unfold signaturesOf; rw [← sigKey_eq, h]

theorem signaturesOf_of_none (obj : Obj) (h : Obj.get obj sigKey = none) : signaturesOf obj = [] := by
  unfold signaturesOf; rw [← sigKey_eq, h]

theorem oldOk_of_inv (S : SigScheme) (keys : KeyMap) (obj : Obj)
    (h0 : Obj.get obj sigKey = none ∨ verifyJson S keys obj = .ok ()) :
    ∀ e ∈ Obj.keys (signaturesOf obj), EntityOk S keys (signaturesOf obj) (canonicalJson obj) e := by
  rcases h0 with h | h
  · rw [signaturesOf_of_none obj h]; intro e he; simp [Obj.keys] at he
  · obtain ⟨sigs, h1, h2⟩ := (verifyJson_ok_iff S keys obj).mp h
    rw [signaturesOf_of_get obj sigs h1]; exact h2

theorem signable_of_inv (S : SigScheme) (keys : KeyMap) (obj : Obj) (entity : Str)
    (h0 : Obj.get obj sigKey = none ∨ verifyJson S keys obj = .ok ()) : Signable obj entity := by
  unfold Signable
  rw [← sigKey_eq]
  rcases h0 with h | h
  · exact Or.inl h
  · obtain ⟨sigs, h1, h2⟩ := (verifyJson_ok_iff S keys obj).mp h
    refine Or.inr ⟨sigs, h1, ?_⟩
    cases hg : Obj.get sigs entity with
    | none => exact Or.inl rfl
    | some v =>
      obtain ⟨set, _, h3, _⟩ := h2 entity (Obj.mem_keys_of_get sigs entity v hg)
      rw [hg] at h3
      exact Or.inr ⟨set, h3⟩

theorem validSignature_new (S : SigScheme) (hS : S.Lawful) (kp : KeyPair) (msg : List Nat) :
    ValidSignature S (S.pub kp.secret) msg (.str (signatureString S kp msg)) :=
  ⟨_, S.sign kp.secret msg, rfl, unb64_b64 _ (hS.sig_bytes _ _), hS.pub_len _, hS.sig_len _ _,
    hS.verify_sign _ _⟩

/-- Signing an object that is fresh (no `signatures`) or verifies yields an object that verifies,
provided the key map knows the signer. -/
theorem verify_signResult (S : SigScheme) (hS : S.Lawful) (keys : KeyMap) (entity : Str) (kp : KeyPair)
    (obj : Obj) (h0 : Obj.get obj sigKey = none ∨ verifyJson S keys obj = .ok ())
    (hk : HasKey S keys entity kp) :
    verifyJson S keys (signResult S entity kp obj) = .ok () := by
  have old := oldOk_of_inv S keys obj h0
  obtain ⟨pks, hpks, hpk⟩ := hk
  rw [verifyJson_ok_iff]
  refine ⟨_, get_signResult_sig S entity kp obj, ?_⟩
  rw [canonicalJson_signResult]
  intro e he
  by_cases hee : e = entity
  · subst hee
    refine ⟨_, pks, Obj.get_insert_self _ _ _, hpks, ⟨_, Obj.mem_insert_self _ _ _, supported_ed25519KeyId _⟩, ?_⟩
    intro p hp hsup
    rcases Obj.mem_insert _ _ _ p hp with hp | hp
    · subst hp
      exact ⟨_, hpk, validSignature_new S hS kp _⟩
    · -- an earlier signature of the same entity
      unfold signatureSetOf at hp
      cases hg : Obj.get (signaturesOf obj) e with
      | none => rw [hg] at hp; simp at hp
      | some v =>
        obtain ⟨set, pks', h1, h2, _, h4⟩ := old e (Obj.mem_keys_of_get _ _ _ hg)
        rw [h1] at hp
        rw [hpks] at h2; cases h2
        exact h4 p hp hsup
  · have he' : e ∈ Obj.keys (signaturesOf obj) := by
      rcases Obj.mem_keys_insert _ _ _ _ he with h | h
      · exact absurd h hee
      · exact h
    obtain ⟨set, pks', h1, h2, h3, h4⟩ := old e he'
    refine ⟨set, pks', ?_, h2, h3, h4⟩
    unfold newSignatures
    rw [Obj.get_insert_ne _ _ _ _ hee, h1]

/-- Repeated signing: the steps in order; stops at the first error. -/
def signAll (S : SigScheme) : List (Str × KeyPair) → Obj → Except Err Unit × Obj
  | [], o => (.ok (), o)
  | (entity, kp) :: rest, o =>
    match signJson S entity kp o with
    | (.ok _, o') => signAll S rest o'
    | (.error e, o') => (.error e, o')

theorem signAll_verified (S : SigScheme) (hS : S.Lawful) (keys : KeyMap)
    (steps : List (Str × KeyPair)) (obj : Obj) (h0 : verifyJson S keys obj = .ok ())
    (hk : ∀ st ∈ steps, HasKey S keys st.1 st.2) :
    (signAll S steps obj).1 = .ok () ∧ verifyJson S keys (signAll S steps obj).2 = .ok () := by
  induction steps generalizing obj with
  | nil => exact ⟨rfl, h0⟩
  | cons st rest ih =>
    obtain ⟨entity, kp⟩ := st
    have hs := signable_of_inv S keys obj entity (Or.inr h0)
    simp only [signAll, signJson_of_signable S entity kp obj hs]
    exact ih _ (verify_signResult S hS keys entity kp obj (Or.inr h0) (hk (entity, kp) (by simp)))
      (fun st hst => hk st (by simp [hst]))

theorem signAll_fresh (S : SigScheme) (hS : S.Lawful) (keys : KeyMap)
    (steps : List (Str × KeyPair)) (obj : Obj) (hne : steps ≠ [])
    (h0 : Obj.get obj sigKey = none ∨ verifyJson S keys obj = .ok ())
    (hk : ∀ st ∈ steps, HasKey S keys st.1 st.2) :
    (signAll S steps obj).1 = .ok () ∧ verifyJson S keys (signAll S steps obj).2 = .ok () := by
  cases steps with
  | nil => exact absurd rfl hne
  | cons st rest =>
    obtain ⟨entity, kp⟩ := st
    have hs := signable_of_inv S keys obj entity h0
    simp only [signAll, signJson_of_signable S entity kp obj hs]
    exact signAll_verified S hS keys rest _
      (verify_signResult S hS keys entity kp obj h0 (hk (entity, kp) (by simp)))
      (fun st hst => hk st (by simp [hst]))

/-! ### Verification looks only at `signatures` and the signed bytes -/

theorem verifyJson_congr (S : SigScheme) (keys : KeyMap) (obj obj' : Obj)
    (h1 : Obj.get obj sigKey = Obj.get obj' sigKey) (h2 : canonicalJson obj = canonicalJson obj') :
    verifyJson S keys obj = verifyJson S keys obj' := by
  unfold verifyJson; rw [h1, h2]

theorem canonicalJson_insert_unsigned (obj : Obj) (u : JVal) :
    canonicalJson (Obj.insert obj unsKey u) = canonicalJson obj := by
  unfold canonicalJson
  rw [Obj.erase_comm, Obj.erase_insert_self, Obj.erase_comm]

theorem canonicalJson_erase_unsigned (obj : Obj) :
    canonicalJson (Obj.erase obj unsKey) = canonicalJson obj := by
  unfold canonicalJson
  rw [Obj.erase_comm, Obj.erase_erase_self, Obj.erase_comm]

/-! ### Exact shape of the signed object (sorted objects) -/

theorem sorted_signResult (S : SigScheme) (entity : Str) (kp : KeyPair) (obj : Obj)
    (hs : Obj.Sorted obj) : Obj.Sorted (signResult S entity kp obj) := by
  unfold signResult
  have h3 := Obj.sorted_insert _ sigKey (.obj (newSignatures S entity kp obj))
    (Obj.sorted_erase _ unsKey (Obj.sorted_erase _ sigKey hs))
  cases Obj.get (Obj.erase obj sigKey) unsKey with
  | none => exact h3
  | some u => exact Obj.sorted_insert _ _ _ h3

theorem newSignatures_eq (S : SigScheme) (entity : Str) (kp : KeyPair) (obj : Obj) :
    newSignatures S entity kp obj =
      Obj.insert (signaturesOf obj) entity
        (.obj (Obj.insert (signatureSetOf obj entity) (bs "ed25519:" ++ kp.version)
          (.str (b64 (S.sign kp.secret (signedBytes obj)))))) := by
  unfold newSignatures signatureString
  rw [ed25519KeyId_eq, canonicalJson_eq_signedBytes]

theorem signResult_eq_signed (S : SigScheme) (entity : Str) (kp : KeyPair) (obj : Obj)
    (hs : Obj.Sorted obj) : signResult S entity kp obj = signed S entity kp.secret kp.version obj := by
  apply Obj.sorted_ext _ _ (sorted_signResult S entity kp obj hs)
  · exact Obj.sorted_insert _ _ _ hs
  · intro k
    unfold signed withSignature
    rw [← sigKey_eq, ← newSignatures_eq]
    by_cases hk : k = sigKey
    · subst hk
      rw [get_signResult_sig, Obj.get_insert_self]
    · rw [get_signResult_ne _ _ _ _ _ hk, Obj.get_insert_ne _ _ _ _ hk]

end Ruma.Sign
