/-
  Model = spec, part 1: every value the specification reads out of the state or an event's content
  (`Spec/AuthRules.lean`) is what the model of ruma's lazy accessors (`Model/Auth.lean`) reads,
  for the rule flags `Spec.Auth.rulesOf v` of room version `v`.
-/
import RumaModel.Lemmas.Auth
import RumaModel.Spec.AuthRules
namespace Ruma.AuthSpec
open Ruma Ruma.Auth Ruma.Ident
open Ruma.Spec.Auth (rulesOf)

/-- `Result` → `Option`. -/
def opt {α} : Res α → Option α
  | .ok a => some a
  | .error _ => none

@[simp] theorem opt_ok {α} (a : α) : opt (.ok a : Res α) = some a := rfl
@[simp] theorem opt_error {α} (e : Unit) : opt (.error e : Res α) = none := rfl

theorem opt_eq_some {α} {r : Res α} {a : α} : opt r = some a ↔ r = .ok a := by
  cases r <;> simp

theorem opt_map {α β} (r : Res α) (g : α → β) : opt (r.map g) = (opt r).map g := by
  cases r <;> rfl

theorem opt_fmap {α β} (r : Res α) (g : α → β) : opt (g <$> r) = (opt r).map g := by
  cases r <;> rfl

theorem strProp_eq (c : Obj) (k : Str) : Spec.Auth.strProp c k = opt (strField c k) := by
  unfold Spec.Auth.strProp strField
  cases Obj.get c k with
  | none => rfl
  | some j => cases j <;> rfl

theorem membershipOf_eq (f : Fetch) (u : Str) : Spec.Auth.membershipOf f u = opt (userMembership f u) := by
  unfold Spec.Auth.membershipOf userMembership contentMembership
  show (match f tMember u with | some e => _ | none => _) = _
  cases f tMember u with
  | none => rfl
  | some e => simp [strProp_eq]

theorem joinRuleOf_eq (f : Fetch) : Spec.Auth.joinRuleOf f = opt (joinRule f) := by
  unfold Spec.Auth.joinRuleOf joinRule contentJoinRule
  show (match f tJoinRules [] with | some e => _ | none => _) = _
  cases f tJoinRules [] with
  | none => rfl
  | some e => simp [strProp_eq]

theorem federates_eq (create : Event) : Spec.Auth.federates create = opt (createFederate create.content) := by
  unfold Spec.Auth.federates createFederate
  cases Obj.get create.content (bs "m.federate") with
  | none => rfl
  | some j => cases j <;> rfl

theorem creatorOf_eq (v : Nat) (create : Event) :
    Spec.Auth.creatorOf v create = opt (createCreator (rulesOf v) create) := by
  unfold Spec.Auth.creatorOf createCreator
  simp only [rulesOf]
  by_cases h : Spec.Auth.creatorIsCreateSender v = true
  · simp [h]
  · simp only [h]
    cases Obj.get create.content (bs "creator") with
    | none => rfl
    | some j =>
      cases j <;> try rfl
      rename_i s
      by_cases h : validUserId s = true <;> simp [h]

theorem hasCreatorProp_eq (c : Obj) : Spec.Auth.hasCreatorProp c = createHasCreator c := by
  unfold Spec.Auth.hasCreatorProp createHasCreator
  cases Obj.get c (bs "creator") with
  | none => rfl
  | some j => cases j <;> rfl

theorem optUserIdProp_eq (c : Obj) (k : Str) : Spec.Auth.optUserIdProp c k = opt (optUserIdField c k) := by
  unfold Spec.Auth.optUserIdProp optUserIdField
  cases Obj.get c k with
  | none => rfl
  | some j =>
    cases j <;> try rfl
    rename_i s
    by_cases h : validUserId s = true <;> simp [h]

/-! ## levels -/

theorem levelInRange_eq (i : Int) : Spec.Auth.levelInRange i = inRange i := rfl

theorem natOfDigits_plus (r : List Nat) : natOfDigits (43 :: r) = none := by
  simp [natOfDigits, isDigit]

theorem natOfDigits_minus (r : List Nat) : natOfDigits (45 :: r) = none := by
  simp [natOfDigits, isDigit]

theorem unsignedDecimal_eq (d : Nat) (r : List Nat) (h : d ≠ 43) :
    unsignedDecimal (d :: r) = (natOfDigits (d :: r)).map Int.ofNat := by
  unfold unsignedDecimal
  split
  · rename_i heq; simp at heq; exact absurd heq.1 h
  · rfl

theorem opt_checkedLevel (o : Option Int) :
    opt (checkedLevel o) = o.bind fun i => if inRange i then some i else none := by
  cases o with
  | none => rfl
  | some v => simp [checkedLevel]; split <;> simp_all

theorem integerString_eq (s : Str) :
    ((Spec.Auth.integerString s).bind fun i => if Spec.Auth.levelInRange i then some i else none)
      = opt (parseV1String s) := by
  unfold Spec.Auth.integerString parseV1String
  simp only [levelInRange_eq]
  generalize trim s = t
  cases t with
  | nil => simp only [opt_checkedLevel]; rfl
  | cons c r =>
    by_cases h43 : c = 43
    · subst h43
      cases r with
      | nil => simp [signedDecimal, unsignedDecimal, natOfDigits, opt_checkedLevel]
      | cons d r' =>
        by_cases hd43 : d = 43
        · subst hd43; simp [signedDecimal, natOfDigits_plus]
        · have : (some d = some 43) = False := by simp [hd43]
          simp only [signedDecimal, List.head?, unsignedDecimal_eq d r' hd43, this, if_false, opt_checkedLevel]
          rfl
    · split
      · rename_i heq; simp at heq; exact absurd heq.1 h43
      · simp only [opt_checkedLevel]; rfl

theorem levelValue_eq (v : Nat) (j : JVal) : Spec.Auth.levelValue v j = opt (plInt (rulesOf v) j) := by
  unfold Spec.Auth.levelValue plInt
  cases j <;> try rfl
  · rename_i i; simp only [levelInRange_eq]; split <;> simp_all
  · rename_i s
    simp only [rulesOf]
    by_cases h : Spec.Auth.integersOnly v = true
    · simp [h]
    · simp only [h]; exact integerString_eq s

theorem levelProp_eq (v : Nat) (c : Obj) (fld : PLField) :
    Spec.Auth.levelProp v c fld.key = opt (getAsInt (rulesOf v) c fld) := by
  unfold Spec.Auth.levelProp getAsInt
  cases Obj.get c fld.key with
  | none => rfl
  | some j => simp [levelValue_eq, opt_map]

theorem levelPropOr_eq (v : Nat) (c : Obj) (fld : PLField) :
    Spec.Auth.levelPropOr v c fld.key fld.default = opt (getAsIntOrDefault (rulesOf v) c fld) := by
  unfold Spec.Auth.levelPropOr getAsIntOrDefault
  rw [levelProp_eq, opt_map]

/-! ## maps -/

theorem levelEntries_eq (v : Nat) (keyOk : Str → Bool) (keyOf : Str → Option Str) :
    ∀ (kvs : List (Str × JVal)), (∀ p ∈ kvs, keyOf p.1 = if keyOk p.1 then some p.1 else none) →
      Spec.Auth.levelEntries v keyOk kvs = opt (intMapEntries (rulesOf v) keyOf kvs) := by
  intro kvs
  induction kvs with
  | nil => intro _; rfl
  | cons p t ih =>
    intro h
    obtain ⟨k, j⟩ := p
    have hk := h (k, j) (by simp)
    have ht := ih (fun q hq => h q (List.mem_cons_of_mem _ hq))
    simp only [Spec.Auth.levelEntries, intMapEntries]
    simp only at hk
    rw [hk]
    by_cases hok : keyOk k = true
    · simp only [hok, if_true, levelValue_eq, ht]
      cases plInt (rulesOf v) j with
      | error e => simp [bind, Except.bind]
      | ok i =>
        cases intMapEntries (rulesOf v) keyOf t with
        | error e => simp [bind, Except.bind]
        | ok r => simp [bind, Except.bind]
    · simp [hok]

theorem levelEntries_keys (v : Nat) (keyOk : Str → Bool) :
    ∀ (kvs : List (Str × JVal)) (l : List (Str × Int)), Spec.Auth.levelEntries v keyOk kvs = some l →
      l.map (·.1) = kvs.map (·.1) := by
  intro kvs
  induction kvs with
  | nil => intro l h; simp [Spec.Auth.levelEntries] at h; subst h; rfl
  | cons p t ih =>
    intro l h
    obtain ⟨k, j⟩ := p
    simp only [Spec.Auth.levelEntries] at h
    by_cases hok : keyOk k = true
    · simp only [hok, if_true] at h
      cases hv : Spec.Auth.levelValue v j with
      | none => simp [hv] at h
      | some i =>
        cases ht : Spec.Auth.levelEntries v keyOk t with
        | none => simp [hv, ht] at h
        | some r =>
          simp [hv, ht] at h
          subst h
          simp [ih r ht]
    · simp [hok] at h

theorem get_some_mem {α} {l : List (Str × α)} {k : Str} {a : α} (h : Obj.get l k = some a) :
    k ∈ l.map (·.1) := by
  induction l with
  | nil => simp [Obj.get] at h
  | cons p t ih =>
    obtain ⟨k', x⟩ := p
    simp only [Obj.get] at h
    by_cases hk : k' = k
    · simp [hk]
    · simp only [hk, if_false] at h
      simp [ih h]

theorem lastGet_eq_get {l : PLMap} (hnd : (l.map (·.1)).Nodup) (k : Str) : lastGet l k = Obj.get l k := by
  induction l with
  | nil => rfl
  | cons p t ih =>
    obtain ⟨k', x⟩ := p
    simp only [List.map_cons, List.nodup_cons] at hnd
    simp only [lastGet, Obj.get, ih hnd.2]
    cases hg : Obj.get t k with
    | none => rfl
    | some y =>
      have hm := get_some_mem hg
      have : k' ≠ k := fun e => hnd.1 (e ▸ hm)
      simp [this]

/-- The three level maps of a power-levels content have pairwise different keys, and `events` has no
key that `TimelineEventType` identifies with another spelling. (JSON objects have unique keys; the
alias is the one unstable spelling ruma identifies with `m.call.sdp_stream_metadata_changed`.) -/
def PLContentOk (c : Obj) : Prop :=
  (∀ name kvs, Obj.get c name = some (.obj kvs) → (kvs.map (·.1)).Nodup) ∧
  (∀ kvs, Obj.get c (bs "events") = some (.obj kvs) → ∀ p ∈ kvs, canonType p.1 = p.1)

theorem levelMap_eq (v : Nat) (c : Obj) (name : Str) (keyOk : Str → Bool) (keyOf : Str → Option Str)
    (h : ∀ kvs, Obj.get c name = some (.obj kvs) → ∀ p ∈ kvs, keyOf p.1 = if keyOk p.1 then some p.1 else none) :
    Spec.Auth.levelMap v c name keyOk = opt (getAsIntMap (rulesOf v) c name keyOf) := by
  unfold Spec.Auth.levelMap getAsIntMap
  cases hg : Obj.get c name with
  | none => rfl
  | some j =>
    cases j <;> try rfl
    rename_i kvs
    simp only [levelEntries_eq v keyOk keyOf kvs (h kvs hg), opt_map]

theorem usersMap_eq (v : Nat) (c : Obj) : Spec.Auth.usersMap v c = opt (plUsers (rulesOf v) c) :=
  levelMap_eq v c _ _ _ (fun _ _ _ _ => rfl)

theorem notificationsMap_eq (v : Nat) (c : Obj) :
    Spec.Auth.notificationsMap v c = opt (plNotifications (rulesOf v) c) :=
  levelMap_eq v c _ _ _ (fun _ _ _ _ => rfl)

theorem eventsMap_eq (v : Nat) (c : Obj) (hc : PLContentOk c) :
    Spec.Auth.eventsMap v c = opt (plEvents (rulesOf v) c) :=
  levelMap_eq v c _ _ _ (fun kvs hk p hp => by simp [hc.2 kvs hk p hp])

/-- A map read by the spec has pairwise different keys when the content is well formed. -/
theorem levelMap_nodup {v : Nat} {c : Obj} {name : Str} {keyOk : Str → Bool} {l : List (Str × Int)}
    (hc : PLContentOk c) (h : Spec.Auth.levelMap v c name keyOk = some (some l)) : (l.map (·.1)).Nodup := by
  unfold Spec.Auth.levelMap at h
  cases hg : Obj.get c name with
  | none => simp [hg] at h
  | some j =>
    cases j <;> simp [hg] at h
    rename_i kvs
    rw [levelEntries_keys v keyOk kvs l h]
    exact hc.1 name kvs hg

theorem entry_eq {m : Option (List (Str × Int))} (h : ∀ l, m = some l → (l.map (·.1)).Nodup) (k : Str) :
    Spec.Auth.entry m k = m.bind (lastGet · k) := by
  cases m with
  | none => rfl
  | some l => simp [Spec.Auth.entry, lastGet_eq_get (h l rfl)]

/-! ## composite readings -/

/-- The power-levels event (if any) is well formed. -/
def PLOk (pl : Option Event) : Prop := ∀ e, pl = some e → PLContentOk e.content

theorem usersMap_nodup {v : Nat} {c : Obj} (hc : PLContentOk c) {l : List (Str × Int)}
    (h : plUsers (rulesOf v) c = .ok (some l)) : (l.map (·.1)).Nodup := by
  have := usersMap_eq v c
  rw [h] at this
  exact levelMap_nodup hc this

theorem eventsMap_nodup {v : Nat} {c : Obj} (hc : PLContentOk c) {l : List (Str × Int)}
    (h : plEvents (rulesOf v) c = .ok (some l)) : (l.map (·.1)).Nodup := by
  have := eventsMap_eq v c hc
  rw [h] at this
  exact levelMap_nodup hc this

theorem notificationsMap_nodup {v : Nat} {c : Obj} (hc : PLContentOk c) {l : List (Str × Int)}
    (h : plNotifications (rulesOf v) c = .ok (some l)) : (l.map (·.1)).Nodup := by
  have := notificationsMap_eq v c
  rw [h] at this
  exact levelMap_nodup hc this

theorem userLevel_eq (v : Nat) (pl : Option Event) (creator u : Str) (h : PLOk pl) :
    Spec.Auth.userLevel v pl creator u = opt (plUserLevel (rulesOf v) pl u creator) := by
  unfold Spec.Auth.userLevel plUserLevel
  cases pl with
  | none => rfl
  | some e =>
    have hc := h e rfl
    simp only [usersMap_eq]
    cases hu : plUsers (rulesOf v) e.content with
    | error x => simp [bind, Except.bind]
    | ok users =>
      have hnd : ∀ l, users = some l → (l.map (·.1)).Nodup := fun l hl => usersMap_nodup hc (hl ▸ hu)
      simp only [opt_ok, Option.bind_some, entry_eq hnd, bind, Except.bind]
      cases users.bind (lastGet · u) with
      | some l => rfl
      | none => exact levelPropOr_eq v e.content .usersDefault

theorem namedLevel_eq (v : Nat) (pl : Option Event) (fld : PLField) :
    Spec.Auth.namedLevel v pl fld.key fld.default = opt (plIntOrDefault (rulesOf v) pl fld) := by
  unfold Spec.Auth.namedLevel plIntOrDefault
  cases pl with
  | none => rfl
  | some e => exact levelPropOr_eq v e.content fld

theorem namedLevel_invite (v : Nat) (pl : Option Event) :
    Spec.Auth.namedLevel v pl (bs "invite") 0 = opt (plIntOrDefault (rulesOf v) pl .invite) :=
  namedLevel_eq v pl .invite
theorem namedLevel_kick (v : Nat) (pl : Option Event) :
    Spec.Auth.namedLevel v pl (bs "kick") 50 = opt (plIntOrDefault (rulesOf v) pl .kick) :=
  namedLevel_eq v pl .kick
theorem namedLevel_ban (v : Nat) (pl : Option Event) :
    Spec.Auth.namedLevel v pl (bs "ban") 50 = opt (plIntOrDefault (rulesOf v) pl .ban) :=
  namedLevel_eq v pl .ban
theorem namedLevel_redact (v : Nat) (pl : Option Event) :
    Spec.Auth.namedLevel v pl (bs "redact") 50 = opt (plIntOrDefault (rulesOf v) pl .redact) :=
  namedLevel_eq v pl .redact

theorem requiredLevel_eq (v : Nat) (pl : Option Event) (type : Str) (isState : Bool) (h : PLOk pl) :
    Spec.Auth.requiredLevel v pl type isState = opt (plEventLevel (rulesOf v) pl type isState) := by
  unfold Spec.Auth.requiredLevel plEventLevel
  cases pl with
  | none => cases isState <;> rfl
  | some e =>
    have hc := h e rfl
    simp only [eventsMap_eq v e.content hc]
    cases hu : plEvents (rulesOf v) e.content with
    | error x => simp [bind, Except.bind]
    | ok events =>
      have hnd : ∀ l, events = some l → (l.map (·.1)).Nodup := fun l hl => eventsMap_nodup hc (hl ▸ hu)
      simp only [opt_ok, Option.bind_some, entry_eq hnd, bind, Except.bind]
      cases events.bind (lastGet · type) with
      | some l => rfl
      | none =>
        cases isState
        · exact levelPropOr_eq v e.content .eventsDefault
        · exact levelPropOr_eq v e.content .stateDefault

end Ruma.AuthSpec
