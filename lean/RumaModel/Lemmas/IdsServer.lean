/-
  C10 helper lemmas, part 2: `server_name::validate` characterised declaratively (`ServerOk`),
  `ServerName::host` / `port`, and the bridge to the spec predicates.
-/
import RumaModel.Lemmas.Ids
namespace Ruma.Ids
open Ruma

/-! ### Small facts about bytes -/

theorem hostByteOk_lt {b : Nat} (h : hostByteOk b = true) : b < 128 := by
  simp [hostByteOk, isAlnum, isDigit, isLower, isUpper] at h; omega

theorem hostByteOk_ne_colon {b : Nat} (h : hostByteOk b = true) : b ≠ 58 := by
  simp [hostByteOk, isAlnum, isDigit, isLower, isUpper] at h; omega

theorem hostByteOk_ne_lbracket {b : Nat} (h : hostByteOk b = true) : b ≠ 91 := by
  simp [hostByteOk, isAlnum, isDigit, isLower, isUpper] at h; omega

theorem hostByteOk_ne_rbracket {b : Nat} (h : hostByteOk b = true) : b ≠ 93 := by
  simp [hostByteOk, isAlnum, isDigit, isLower, isUpper] at h; omega

/-! ### Declarative acceptance -/

/-- A host the code accepts: a non-empty name of letters, digits, `-`, `.`, or `[c]` with `c` an
IPv6 address (no `]` inside `c`). -/
inductive HostOk (x : Ext) : Str → Prop
  | name (h : Str) : h ≠ [] → (∀ b ∈ h, hostByteOk b = true) → HostOk x h
  | v6 (c : Str) : 93 ∉ c → x.isIpv6 c = true → HostOk x (91 :: (c ++ [93]))

/-- A server name the code accepts: a host, optionally followed by `:` and a valid port. -/
def ServerOk (x : Ext) (s : Str) : Prop :=
  ∃ h, HostOk x h ∧ (s = h ∨ ∃ p, s = h ++ 58 :: p ∧ isValidPort p = true)

/-! ### `checkPort` -/

theorem checkPort_nil (h : Str) : checkPort h h.length = .ok () := by
  simp [checkPort]

theorem checkPort_cons {h : Str} {b : Nat} {p : Str} (hs : Sep (h ++ b :: p)) :
    checkPort (h ++ b :: p) h.length =
      if b = 58 then (if isValidPort p then .ok () else .err) else .err := by
  unfold checkPort
  have hl : (h ++ b :: p).length ≠ h.length := by simp
  simp only [hl, if_false, List.getElem?_append_right (Nat.le_refl _), Nat.sub_self,
    List.getElem?_cons_zero]
  by_cases hb : b = 58
  · subst hb
    simp [sliceFrom_after hs (by omega : 58 < 128)]
  · simp [hb]

theorem port_ite_ne_panic (b : Nat) (v : Bool) :
    (if b = 58 then (if v = true then Res.ok () else Res.err) else Res.err) ≠ Res.panic := by
  by_cases h : b = 58 <;> cases v <;> simp [h]

/-! ### `endOfHost` -/

theorem endOfHost_name {x : Ext} {h rest : Str} (hh : (h ++ rest).head? ≠ some 91)
    (hc : 58 ∉ h) (hr : rest = [] ∨ ∃ p, rest = 58 :: p) :
    endOfHost x (h ++ rest) =
      if h = [] ∨ h.any (fun b => !hostByteOk b) = true then .err else .ok h.length := by
  unfold endOfHost
  simp only [hh, if_false]
  rcases hr with rfl | ⟨p, rfl⟩
  · have hf : find 58 h = none := find_eq_none.2 hc
    simp only [List.append_nil] at hh ⊢
    simp only [hf]
    rw [sliceTo_length]
    by_cases he : h = []
    · simp [he]
    · simp [he]
  · rw [find_append hc]
    simp only [sliceTo_at (by omega : 58 < 128)]
    by_cases he : h = []
    · simp [he]
    · simp [he]

theorem endOfHost_bracket_none {x : Ext} {t : Str} (h : 93 ∉ t) :
    endOfHost x (91 :: t) = .err := by
  unfold endOfHost
  have : find 93 (91 :: t) = none := find_eq_none.2 (by simp [h])
  simp [this]

theorem endOfHost_bracket {x : Ext} {c post : Str} (hs : Sep (91 :: (c ++ 93 :: post)))
    (h : 93 ∉ c) :
    endOfHost x (91 :: (c ++ 93 :: post)) = if x.isIpv6 c then .ok (c.length + 2) else .err := by
  unfold endOfHost
  have hf : find 93 (91 :: (c ++ 93 :: post)) = some (c.length + 1) := by
    have := find_append (c := 93) (pre := 91 :: c) (post := post) (by simp [h])
    simpa using this
  simp only [List.head?_cons, if_true, hf]
  rw [slice_one_at hs (by omega) (by omega)]

/-! ### `server_name::validate` -/

/-- Every string is a colon-free prefix followed by nothing or by a colon. -/
theorem split_colon (s : Str) :
    ∃ h rest, s = h ++ rest ∧ 58 ∉ h ∧ (rest = [] ∨ ∃ p, rest = 58 :: p) := by
  cases hf : find 58 s with
  | none => exact ⟨s, [], by simp, find_eq_none.1 hf, .inl rfl⟩
  | some i =>
    obtain ⟨pre, post, rfl, hn, _⟩ := find_eq_some hf
    exact ⟨pre, 58 :: post, rfl, hn, .inr ⟨post, rfl⟩⟩

theorem any_not_hostByteOk {h : Str} :
    h.any (fun b => !hostByteOk b) = true ↔ ¬ ∀ b ∈ h, hostByteOk b = true := by
  simp [List.any_eq_true]

theorem serverNameValidate_ne_panic {x : Ext} {s : Str} (hs : Sep s) :
    serverNameValidate x s ≠ .panic := by
  unfold serverNameValidate
  by_cases he : s = []
  · simp [he]
  simp only [he, if_false]
  by_cases hb : s.head? = some 91
  · obtain ⟨t, rfl⟩ : ∃ t, s = 91 :: t := by
      cases s with
      | nil => simp at hb
      | cons a t => simp at hb; exact ⟨t, by rw [hb]⟩
    by_cases h93 : 93 ∈ t
    · obtain ⟨c, post, rfl, hn⟩ : ∃ c post, t = c ++ 93 :: post ∧ 93 ∉ c := by
        have := find_eq_none (c := 93) (s := t)
        cases hf : find 93 t with
        | none => exact absurd h93 (this.1 hf)
        | some i =>
          obtain ⟨pre, post, rfl, hn, _⟩ := find_eq_some hf
          exact ⟨pre, post, rfl, hn⟩
      rw [endOfHost_bracket hs hn]
      by_cases h6 : x.isIpv6 c = true
      · simp only [h6, if_true]
        have e : 91 :: (c ++ 93 :: post) = (91 :: (c ++ [93])) ++ post := by simp
        have hl : c.length + 2 = (91 :: (c ++ [93])).length := by simp
        rw [hl, e]
        cases post with
        | nil => simp [checkPort]
        | cons b p =>
          rw [checkPort_cons (by rw [← e]; exact hs)]
          exact port_ite_ne_panic b _
      · simp [h6]
    · simp [endOfHost_bracket_none h93]
  · obtain ⟨h, rest, rfl, hc, hr⟩ := split_colon s
    rw [endOfHost_name hb hc hr]
    by_cases hbad : h = [] ∨ h.any (fun b => !hostByteOk b) = true
    · rw [if_pos hbad]; simp
    · rw [if_neg hbad]
      show checkPort (h ++ rest) h.length ≠ .panic
      rcases hr with rfl | ⟨p, rfl⟩
      · simp [checkPort]
      · rw [checkPort_cons hs]
        exact port_ite_ne_panic 58 _

theorem serverNameValidate_ok_iff {x : Ext} {s : Str} (hs : Sep s) :
    serverNameValidate x s = .ok () ↔ ServerOk x s := by
  constructor
  · intro hv
    unfold serverNameValidate at hv
    by_cases he : s = []
    · simp [he] at hv
    simp only [he, if_false] at hv
    by_cases hb : s.head? = some 91
    · obtain ⟨t, rfl⟩ : ∃ t, s = 91 :: t := by
        cases s with
        | nil => simp at hb
        | cons a t => simp at hb; exact ⟨t, by rw [hb]⟩
      by_cases h93 : 93 ∈ t
      · obtain ⟨c, post, rfl, hn⟩ : ∃ c post, t = c ++ 93 :: post ∧ 93 ∉ c := by
          cases hf : find 93 t with
          | none => exact absurd h93 (find_eq_none.1 hf)
          | some i =>
            obtain ⟨pre, post, rfl, hn, _⟩ := find_eq_some hf
            exact ⟨pre, post, rfl, hn⟩
        rw [endOfHost_bracket hs hn] at hv
        by_cases h6 : x.isIpv6 c = true
        · simp only [h6, if_true] at hv
          have e : 91 :: (c ++ 93 :: post) = (91 :: (c ++ [93])) ++ post := by simp
          have hl : c.length + 2 = (91 :: (c ++ [93])).length := by simp
          refine ⟨91 :: (c ++ [93]), .v6 c hn h6, ?_⟩
          rw [hl, e] at hv
          cases post with
          | nil => left; simp
          | cons b p =>
            rw [checkPort_cons (by rw [← e]; exact hs)] at hv
            by_cases hb58 : b = 58
            · subst hb58
              by_cases hp : isValidPort p = true
              · right; exact ⟨p, by simp, hp⟩
              · simp [hp] at hv
            · simp [hb58] at hv
        · simp [h6] at hv
      · simp [endOfHost_bracket_none h93] at hv
    · obtain ⟨h, rest, rfl, hc, hr⟩ := split_colon s
      rw [endOfHost_name hb hc hr] at hv
      by_cases hbad : h = [] ∨ h.any (fun b => !hostByteOk b) = true
      · rw [if_pos hbad] at hv; simp at hv
      · rw [if_neg hbad] at hv
        replace hv : checkPort (h ++ rest) h.length = .ok () := hv
        have hne : h ≠ [] := fun e => hbad (.inl e)
        have hall : ∀ b ∈ h, hostByteOk b = true := by
          have := mt any_not_hostByteOk.2 (fun e => hbad (.inr e))
          simpa using this
        refine ⟨h, .name h hne hall, ?_⟩
        rcases hr with rfl | ⟨p, rfl⟩
        · left; simp
        · rw [checkPort_cons hs] at hv
          by_cases hp : isValidPort p = true
          · right; exact ⟨p, rfl, hp⟩
          · simp [hp] at hv
  · rintro ⟨h, hh, hrest⟩
    unfold serverNameValidate
    cases hh with
    | name h hne hall =>
      have hc : 58 ∉ h := fun hm => hostByteOk_ne_colon (hall 58 hm) rfl
      have hhead : ∀ rest, (h ++ rest).head? ≠ some 91 := by
        intro rest
        cases h with
        | nil => exact absurd rfl hne
        | cons a t =>
          simp
          exact hostByteOk_ne_lbracket (hall a (by simp))
      have hgood : ¬ (h = [] ∨ h.any (fun b => !hostByteOk b) = true) := by
        rintro (e | e)
        · exact hne e
        · exact any_not_hostByteOk.1 e hall
      rcases hrest with hrest | ⟨p, hrest, hp⟩
      · subst hrest
        have := endOfHost_name (x := x) (h := s) (rest := []) (hhead []) hc (.inl rfl)
        simp only [List.append_nil] at this
        rw [if_neg hne, this, if_neg hgood]
        show checkPort s s.length = .ok ()
        simp [checkPort]
      · subst hrest
        have hne' : h ++ 58 :: p ≠ [] := by simp
        rw [if_neg hne', endOfHost_name (hhead _) hc (.inr ⟨p, rfl⟩), if_neg hgood]
        show checkPort (h ++ 58 :: p) h.length = .ok ()
        rw [checkPort_cons hs]
        simp [hp]
    | v6 c hn h6 =>
      rcases hrest with rfl | ⟨p, rfl, hp⟩
      · have e : 91 :: (c ++ [93]) = 91 :: (c ++ 93 :: []) := rfl
        rw [e] at hs ⊢
        rw [if_neg (by simp), endOfHost_bracket hs hn]
        simp [h6, checkPort]
      · have e : 91 :: (c ++ [93]) ++ 58 :: p = 91 :: (c ++ 93 :: 58 :: p) := by simp
        have hl : c.length + 2 = (91 :: (c ++ [93])).length := by simp
        rw [e] at hs ⊢
        rw [if_neg (by simp), endOfHost_bracket hs hn]
        simp only [h6, if_true]
        rw [← e, hl, checkPort_cons (by rw [e]; exact hs)]
        simp [hp]

/-! ### Ports -/

theorem digitsVal_all {p : Str} (acc : Nat) (hd : p.all isDigit = true) :
    digitsVal p acc = some (p.foldl (fun a b => a * 10 + (b - 48)) acc) := by
  induction p generalizing acc with
  | nil => simp [digitsVal]
  | cons a t ih =>
    simp only [List.all_cons, Bool.and_eq_true] at hd
    simp [digitsVal, hd.1, ih _ hd.2]

open Spec.IdGrammar in
/-- On a non-empty digit string `u16::from_str` fails exactly on overflow. -/
theorem parseU16_digits {p : Str} (hne : p ≠ []) (hd : p.all isDigit = true) :
    parseU16 p = if portValue p ≤ 65535 then some (portValue p) else none := by
  cases p with
  | nil => exact absurd rfl hne
  | cons a t =>
    have ha : isDigit a = true := by simp at hd; exact hd.1
    have h43 : a ≠ 43 := by simp [isDigit] at ha; omega
    have h45 : a ≠ 45 := by simp [isDigit] at ha; omega
    have hs : stripPlus (a :: t) = a :: t := by
      unfold stripPlus
      split
      · rename_i heq; simp at heq; exact absurd heq.1 h43
      · rfl
    unfold parseU16
    rw [if_neg (by simp [h43, h45]), hs, digitsVal_all 0 hd]
    rfl

open Spec.IdGrammar in
theorem isDigit_eq (b : Nat) : digit b = isDigit b := by
  rw [Bool.eq_iff_iff]; simp [digit, isDigit]

open Spec.IdGrammar in
/-- The code's port check is the grammar's `1*5DIGIT` plus "fits `u16`". -/
theorem isValidPort_iff {p : Str} :
    isValidPort p = true ↔ isPort p = true ∧ portValue p ≤ 65535 := by
  have hall : p.all digit = p.all isDigit := by congr 1; funext b; exact isDigit_eq b
  by_cases hd : p.all isDigit = true
  · by_cases hne : p = []
    · simp [hne, isValidPort, isPort]
    · simp only [isValidPort, isPort, hall, hd, parseU16_digits hne hd, Bool.and_true,
        Bool.and_eq_true, decide_eq_true_eq]
      by_cases hv : portValue p ≤ 65535 <;> simp [hv]
  · simp [isValidPort, isPort, hall, hd]

theorem isValidPort_parse {p : Str} (h : isValidPort p = true) : ∃ v, parseU16 p = some v := by
  simp only [isValidPort, Bool.and_eq_true] at h
  exact Option.isSome_iff_exists.1 h.2

theorem isValidPort_digits {p : Str} (h : isValidPort p = true) : ∀ b ∈ p, isDigit b = true := by
  simp only [isValidPort, Bool.and_eq_true, List.all_eq_true] at h
  exact h.1.2

/-! ### `ServerName::host`, `ServerName::port` on accepted server names -/

theorem isDigit_ne_rbracket {b : Nat} (h : isDigit b = true) : b ≠ 93 := by
  simp [isDigit] at h; omega

theorem isDigit_ne_colon {b : Nat} (h : isDigit b = true) : b ≠ 58 := by
  simp [isDigit] at h; omega

/-- `host()` returns the host part and `port()` the parsed port part of an accepted server name;
neither panics. -/
theorem host_port_of_serverOk {x : Ext} {s : Str} (hs : Sep s) (h : ServerOk x s) :
    ∃ hst, HostOk x hst ∧ host s = .ok hst ∧
      ((s = hst ∧ port s = .ok none) ∨
        ∃ p v, s = hst ++ 58 :: p ∧ isValidPort p = true ∧ parseU16 p = some v ∧
          port s = .ok (some v)) := by
  obtain ⟨hst, hh, hrest⟩ := h
  refine ⟨hst, hh, ?_⟩
  cases hh with
  | name hst hne hall =>
    have hc : 58 ∉ hst := fun hm => hostByteOk_ne_colon (hall 58 hm) rfl
    have hb : 93 ∉ hst := fun hm => hostByteOk_ne_rbracket (hall 93 hm) rfl
    rcases hrest with hrest | ⟨p, hrest, hp⟩
    · subst hrest
      have h93 : find 93 s = none := find_eq_none.2 hb
      have h58 : find 58 s = none := find_eq_none.2 hc
      refine ⟨?_, .inl ⟨rfl, ?_⟩⟩
      · simp [host, h93, h58, sliceTo_length]
      · simp [port, h93, h58]
    · subst hrest
      have hpb : 93 ∉ p := fun hm => isDigit_ne_rbracket (isValidPort_digits hp 93 hm) rfl
      have h93 : find 93 (hst ++ 58 :: p) = none := find_eq_none.2 (by simp [hb, hpb])
      have h58 : find 58 (hst ++ 58 :: p) = some hst.length := find_append hc
      obtain ⟨v, hv⟩ := isValidPort_parse hp
      refine ⟨?_, .inr ⟨p, v, rfl, hp, hv, ?_⟩⟩
      · simp [host, h93, h58, sliceTo_at]
      · simp [port, h93, h58, sliceFrom_after hs, hv]
  | v6 c hn h6 =>
    rcases hrest with hrest | ⟨p, hrest, hp⟩
    · subst hrest
      have h93 : find 93 (91 :: (c ++ [93])) = some (c.length + 1) := by
        have := find_append (c := 93) (pre := 91 :: c) (post := []) (by simp [hn])
        simpa using this
      have hlen : (91 :: (c ++ [93])).length = c.length + 1 + 1 := by simp
      refine ⟨?_, .inl ⟨rfl, ?_⟩⟩
      · simp only [host, h93]
        rw [← hlen, sliceTo_length]
      · simp [port, h93]
    · subst hrest
      have e : 91 :: (c ++ [93]) ++ 58 :: p = 91 :: (c ++ 93 :: 58 :: p) := by simp
      have h93 : find 93 (91 :: (c ++ [93]) ++ 58 :: p) = some (c.length + 1) := by
        have := find_append (c := 93) (pre := 91 :: c) (post := 58 :: p) (by simp [hn])
        simpa using this
      have hlen : (91 :: (c ++ [93])).length = c.length + 1 + 1 := by simp
      obtain ⟨v, hv⟩ := isValidPort_parse hp
      refine ⟨?_, .inr ⟨p, v, rfl, hp, hv, ?_⟩⟩
      · simp only [host, h93]
        rw [← hlen, sliceTo_at (by omega)]
      · simp only [port, h93]
        rw [← hlen]
        have hl : (91 :: (c ++ [93]) ++ 58 :: p).length ≠ (91 :: (c ++ [93])).length := by simp
        rw [if_neg hl, List.getElem?_append_right (Nat.le_refl _)]
        simp only [Nat.sub_self, List.getElem?_cons_zero, ne_eq, not_true_eq_false, if_false]
        rw [sliceFrom_after hs (by omega)]
        simp [hv]

end Ruma.Ids
