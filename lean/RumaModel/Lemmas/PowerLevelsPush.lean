/-
  C20 — the power levels seen by the push-condition model (C12, `Model/Push.lean`):
  `From<RoomPowerLevels> for PushConditionPowerLevelsCtx` and the sender's level read through it.
-/
import RumaModel.Model.PowerLevels
import RumaModel.Model.Push
namespace Ruma.PowerLevels
open Ruma Ruma.Auth

/-- `From<RoomPowerLevels> for PushConditionPowerLevelsCtx`: the `users` map, `users_default` and
`notifications` move over unchanged. `enc` is how a user id (bytes here) is written in the push
model (text). The map is listed newest insertion first, so that the push model's `BTreeMap::get`
(first entry with the key) is this model's (last insertion with the key). -/
def toPushCtx (enc : Str → Push.Text) (p : Levels) : Push.PowerLevelsCtx :=
  { users := p.users.reverse.map (fun kv => (enc kv.1, kv.2)),
    usersDefault := p.usersDefault, room := p.notificationsRoom }

theorem lookupLevel_append (a b : List (Push.Text × Int)) (k : Push.Text) :
    Push.lookupLevel (a ++ b) k =
      match Push.lookupLevel a k with
      | some x => some x
      | none => Push.lookupLevel b k := by
  induction a with
  | nil => simp [Push.lookupLevel]
  | cons kv t ih =>
    obtain ⟨k', v⟩ := kv
    simp only [List.cons_append, Push.lookupLevel]
    by_cases h : k' = k
    · simp [h]
    · simp [h, ih]

theorem lookupLevel_toPushCtx (enc : Str → Push.Text) (m : PLMap) (u : Str)
    (henc : ∀ k ∈ m.map (·.1), enc k = enc u → k = u) :
    Push.lookupLevel (m.reverse.map (fun kv => (enc kv.1, kv.2))) (enc u) = lastGet m u := by
  induction m with
  | nil => simp [Push.lookupLevel, lastGet]
  | cons kv t ih =>
    obtain ⟨k, v⟩ := kv
    have ih' := ih (fun k' hk' => henc k' (List.mem_cons_of_mem _ hk'))
    simp only [List.reverse_cons, List.map_append, List.map_cons, List.map_nil, lookupLevel_append, ih',
      lastGet]
    cases lastGet t u with
    | some x => rfl
    | none =>
      simp only [Push.lookupLevel]
      by_cases hk : k = u
      · simp [hk]
      · have : ¬ enc k = enc u := fun e => hk (henc k (by simp) e)
        simp [hk, this]

theorem userLevel_toPushCtx (enc : Str → Push.Text) (p : Levels) (u : Str)
    (henc : ∀ k ∈ p.users.map (·.1), enc k = enc u → k = u) :
    Push.userLevel (toPushCtx enc p) (enc u) = p.forUser u := by
  simp only [Push.userLevel, toPushCtx, lookupLevel_toPushCtx enc p.users u henc, Levels.forUser]
  cases lastGet p.users u <;> rfl

end Ruma.PowerLevels

