/-
  Helper lemmas for C01, part 5: specification values in memory are canonical; no control bytes.
-/
import RumaModel.Lemmas.CanonicalDecode
import RumaModel.Lemmas.CanonicalUtf8
namespace Ruma.Canonical
open Ruma Ruma.Spec.CanonicalJson

theorem toJValO_keys : ∀ (kvs : List (List Nat × CVal)),
    Obj.keys (CVal.toJValO kvs) = (kvs.map (·.1)).map utf8Encode
  | [] => rfl
  | (k, v) :: t => by
    simp only [CVal.toJValO, Obj.keys, List.map_cons]
    exact congrArg _ (toJValO_keys t)

mutual
theorem toJVal_isCanonical : ∀ (v : CVal), v.WF → IsCanonical v.toJVal
  | .null, _ => trivial
  | .bool _, _ => trivial
  | .int _, h => h
  | .str _, _ => trivial
  | .arr xs, h => toJValL_isCanonical xs h
  | .obj kvs, h => by
    refine ⟨?_, toJValO_isCanonical kvs h.2⟩
    unfold Obj.Sorted
    rw [toJValO_keys, List.pairwise_map]
    exact List.Pairwise.imp (fun hab => (utf8Encode_lt_iff _ _).mpr hab) h.1
theorem toJValL_isCanonical : ∀ (xs : List CVal), CVal.WFL xs → IsCanonicalL (CVal.toJValL xs)
  | [], _ => trivial
  | v :: t, h => ⟨toJVal_isCanonical v h.1, toJValL_isCanonical t h.2⟩
theorem toJValO_isCanonical : ∀ (kvs : List (List Nat × CVal)), CVal.WFO kvs → IsCanonicalO (CVal.toJValO kvs)
  | [], _ => trivial
  | (_, v) :: t, h => ⟨toJVal_isCanonical v h.2.1, toJValO_isCanonical t h.2.2⟩
end

theorem escape_ge (s : Str) : ∀ x ∈ escape s, 32 ≤ x := by
  intro x hx
  unfold escape at hx
  obtain ⟨b, _, hb⟩ := List.mem_flatMap.mp hx
  exact escapeByte_ge b x hb

theorem encodeStr_ge (s : Str) : ∀ x ∈ encodeStr s, 32 ≤ x := by
  intro x hx
  unfold encodeStr at hx
  rcases List.mem_cons.mp hx with h | h
  · omega
  rcases List.mem_append.mp h with h | h
  · exact escape_ge s x h
  · simp at h; omega

theorem encodeInt_ge (i : Int) : ∀ x ∈ encodeInt i, 32 ≤ x := by
  intro x hx
  have := (encodeInt_structural i).2 x hx
  unfold IsStructural at this
  simp at this
  omega

mutual
theorem encode_ge : ∀ (v : JVal) (x : Nat), x ∈ encode v → 32 ≤ x
  | .null, x, h => by simp [encode, bs] at h; omega
  | .bool true, x, h => by simp [encode, bs] at h; omega
  | .bool false, x, h => by simp [encode, bs] at h; omega
  | .int i, x, h => encodeInt_ge i x h
  | .float, x, h => by simp [encode] at h
  | .str s, x, h => encodeStr_ge s x h
  | .arr xs, x, h => by
    rw [encode] at h
    rcases List.mem_cons.mp h with h | h
    · omega
    rcases List.mem_append.mp h with h | h
    · exact encodeL_ge xs x h
    · simp at h; omega
  | .obj kvs, x, h => by
    rw [encode] at h
    rcases List.mem_cons.mp h with h | h
    · omega
    rcases List.mem_append.mp h with h | h
    · exact encodeO_ge kvs x h
    · simp at h; omega
theorem encodeL_ge : ∀ (xs : List JVal) (x : Nat), x ∈ encodeL xs → 32 ≤ x
  | [], x, h => by simp [encodeL] at h
  | [v], x, h => by rw [encodeL] at h; exact encode_ge v x h
  | v :: w :: t, x, h => by
    rw [encodeL] at h
    · rcases List.mem_append.mp h with h | h
      · exact encode_ge v x h
      rcases List.mem_cons.mp h with h | h
      · omega
      · exact encodeL_ge (w :: t) x h
    · simp
theorem encodeO_ge : ∀ (kvs : List (Str × JVal)) (x : Nat), x ∈ encodeO kvs → 32 ≤ x
  | [], x, h => by simp [encodeO] at h
  | [(k, v)], x, h => by
    rw [encodeO] at h
    rcases List.mem_append.mp h with h | h
    · exact encodeStr_ge k x h
    rcases List.mem_cons.mp h with h | h
    · omega
    · exact encode_ge v x h
  | (k, v) :: w :: t, x, h => by
    rw [encodeO] at h
    · rcases List.mem_append.mp h with h | h
      · rcases List.mem_append.mp h with h | h
        · exact encodeStr_ge k x h
        rcases List.mem_cons.mp h with h | h
        · omega
        · exact encode_ge v x h
      rcases List.mem_cons.mp h with h | h
      · omega
      · exact encodeO_ge (w :: t) x h
    · simp
end

end Ruma.Canonical
