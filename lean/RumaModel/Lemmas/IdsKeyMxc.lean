/-
  C10 helper lemmas, part 4: key IDs, MXC URIs and the opaque identifier types.
-/
import RumaModel.Lemmas.IdsSigil
namespace Ruma.Ids
open Ruma

/-! ### Opaque types: no panic sites at all -/

theorem ite_ne_panic {α : Type} {c : Prop} [Decidable c] {a b : Res α} (ha : a ≠ .panic)
    (hb : b ≠ .panic) : (if c then a else b) ≠ .panic := by
  split <;> assumption

theorem base64PublicKeyValidate_ne_panic {x : Ext} {s : Str} :
    base64PublicKeyValidate x s ≠ .panic := by
  unfold base64PublicKeyValidate
  exact ite_ne_panic (by simp) (ite_ne_panic (by simp) (by simp))

theorem serverSigningKeyVersionValidate_ne_panic {x : Ext} {s : Str} :
    serverSigningKeyVersionValidate x s ≠ .panic := by
  unfold serverSigningKeyVersionValidate
  exact ite_ne_panic (by simp) (ite_ne_panic (by simp) (by simp))

theorem clientSecretValidate_ne_panic {x : Ext} {s : Str} : clientSecretValidate x s ≠ .panic := by
  unfold clientSecretValidate
  exact ite_ne_panic (by simp) (ite_ne_panic (by simp) (ite_ne_panic (by simp) (by simp)))

theorem sessionIdValidate_ne_panic {s : Str} : sessionIdValidate s ≠ .panic := by
  unfold sessionIdValidate
  exact ite_ne_panic (by simp) (ite_ne_panic (by simp) (ite_ne_panic (by simp) (by simp)))

theorem roomVersionIdValidate_ne_panic {s : Str} : roomVersionIdValidate s ≠ .panic := by
  unfold roomVersionIdValidate
  exact ite_ne_panic (by simp) (ite_ne_panic (by simp) (ite_ne_panic (by simp) (by simp)))

theorem keyNameValidate_ne_panic {x : Ext} {k : KeyNameKind} {s : Str} :
    keyNameValidate x k s ≠ .panic := by
  cases k
  · simp [keyNameValidate]
  · exact serverSigningKeyVersionValidate_ne_panic
  · exact base64PublicKeyValidate_ne_panic

/-! ### Key IDs -/

/-- `alg ":" name` with a non-empty colon-free algorithm and a key name `K::validate` accepts. -/
def KeyOk (x : Ext) (k : KeyNameKind) (s alg name : Str) : Prop :=
  s = alg ++ 58 :: name ∧ 58 ∉ alg ∧ alg ≠ [] ∧ keyNameValidate x k name = .ok ()

theorem keyIdValidate_ne_panic {x : Ext} {k : KeyNameKind} {s : Str} (hs : Sep s) :
    keyIdValidate x k s ≠ .panic := by
  unfold keyIdValidate
  cases hf : find 58 s with
  | none => simp
  | some ci =>
    obtain ⟨pre, post, rfl, hn, rfl⟩ := find_eq_some hf
    simp only
    split
    · simp
    · simp only [sliceFrom_after hs (by omega : 58 < 128)]
      cases hk : keyNameValidate x k post with
      | ok u => cases u; simp
      | err => simp
      | panic => exact absurd hk keyNameValidate_ne_panic

theorem keyIdValidate_ok_iff {x : Ext} {k : KeyNameKind} {s : Str} {ci : Nat} (hs : Sep s) :
    keyIdValidate x k s = .ok ci ↔ ∃ alg name, KeyOk x k s alg name ∧ ci = alg.length := by
  constructor
  · intro h
    unfold keyIdValidate at h
    cases hf : find 58 s with
    | none => simp [hf] at h
    | some i =>
      obtain ⟨pre, post, rfl, hn, rfl⟩ := find_eq_some hf
      simp only [hf] at h
      by_cases h0 : pre.length = 0
      · simp [h0] at h
      · simp only [h0, if_false, sliceFrom_after hs (by omega : 58 < 128)] at h
        cases hk : keyNameValidate x k post with
        | ok u =>
          cases u
          simp only [hk, Res.ok.injEq] at h
          exact ⟨pre, post, ⟨rfl, hn, fun e => h0 (by simp [e]), hk⟩, h.symm⟩
        | err => simp [hk] at h
        | panic => simp [hk] at h
  · rintro ⟨alg, name, ⟨rfl, hn, hne, hk⟩, rfl⟩
    unfold keyIdValidate
    have h0 : alg.length ≠ 0 := fun e => hne (List.length_eq_zero_iff.1 e)
    simp only [find_append hn, h0, if_false, sliceFrom_after hs (by omega : 58 < 128), hk]

/-- `algorithm()` and `key_name()` of an accepted key ID. -/
theorem key_accessors {x : Ext} {k : KeyNameKind} {alg name : Str}
    (hs : Sep (alg ++ 58 :: name)) (hn : 58 ∉ alg) (hk : keyNameValidate x k name = .ok ()) :
    keyAlgorithm (alg ++ 58 :: name) = .ok alg ∧ keyName x k (alg ++ 58 :: name) = .ok name := by
  constructor
  · simp [keyAlgorithm, colonIdx, find_append hn, sliceTo_at]
  · simp [keyName, colonIdx, find_append hn, sliceFrom_after hs, hk]

/-! ### MXC URIs -/

/-- `"mxc://" srv "/" media`. -/
def MxcOk (x : Ext) (s srv media : Str) : Prop :=
  s = mxcPrefix ++ (srv ++ 47 :: media) ∧ 47 ∉ srv ∧ media.all mediaByteOk = true ∧ ServerOk x srv

theorem eq_prefix_of_take {s : Str} (h : s.take 6 = mxcPrefix) : s = mxcPrefix ++ s.drop 6 := by
  rw [← h, List.take_append_drop]

theorem mxcValidate_ne_panic {x : Ext} {s : Str} (hs : Sep s) : mxcValidate x s ≠ .panic := by
  unfold mxcValidate
  by_cases hp : s.take 6 = mxcPrefix
  · simp only [hp, ne_eq, not_true_eq_false, if_false]
    have hs6 : Sep (s.drop 6) := hs.drop 6
    cases hf : find 47 (s.drop 6) with
    | none => simp
    | some i =>
      obtain ⟨pre, post, he, hn, rfl⟩ := find_eq_some hf
      rw [he] at hs6 ⊢
      simp only [sliceTo_at (by omega : 47 < 128), sliceFrom_after hs6 (by omega : 47 < 128)]
      split
      · simp
      · have := serverNameValidate_ne_panic (x := x) hs6.of_append_left
        cases hsn : serverNameValidate x pre with
        | ok u => cases u; simp
        | err => simp
        | panic => exact absurd hsn this
  · simp [hp]

theorem mxcValidate_ok_iff {x : Ext} {s : Str} {idx : Nat} (hs : Sep s) :
    mxcValidate x s = .ok idx ↔ ∃ srv media, MxcOk x s srv media ∧ idx = srv.length + 6 := by
  constructor
  · intro h
    unfold mxcValidate at h
    by_cases hp : s.take 6 = mxcPrefix
    · simp only [hp, ne_eq, not_true_eq_false, if_false] at h
      have hs6 : Sep (s.drop 6) := hs.drop 6
      have hse := eq_prefix_of_take hp
      cases hf : find 47 (s.drop 6) with
      | none => simp [hf] at h
      | some i =>
        obtain ⟨pre, post, he, hn, rfl⟩ := find_eq_some hf
        rw [hf] at h
        rw [he] at hs6 h hse
        simp only [sliceTo_at (by omega : 47 < 128), sliceFrom_after hs6 (by omega : 47 < 128)] at h
        by_cases hm : post.all mediaByteOk = true
        · simp only [hm, Bool.not_true, Bool.false_eq_true, if_false] at h
          cases hsn : serverNameValidate x pre with
          | ok u =>
            cases u
            have h6 : ¬ (pre.length + 6 = 0) := by omega
            simp only [hsn, h6, if_false, Res.ok.injEq] at h
            exact ⟨pre, post, ⟨hse, hn, hm,
              (serverNameValidate_ok_iff hs6.of_append_left).1 hsn⟩, h.symm⟩
          | err => simp [hsn] at h
          | panic => simp [hsn] at h
        · simp [hm] at h
    · simp [hp] at h
  · rintro ⟨srv, media, ⟨rfl, hn, hm, hsrv⟩, rfl⟩
    unfold mxcValidate
    have ht : (mxcPrefix ++ (srv ++ 47 :: media)).take 6 = mxcPrefix := List.take_left' rfl
    have hd : (mxcPrefix ++ (srv ++ 47 :: media)).drop 6 = srv ++ 47 :: media :=
      List.drop_left' rfl
    have hs6 : Sep (srv ++ 47 :: media) := hs.of_append_right
    have h6 : ¬ (srv.length + 6 = 0) := by omega
    simp only [ht, hd, ne_eq, not_true_eq_false, if_false, find_append hn,
      sliceTo_at (by omega : 47 < 128), sliceFrom_after hs6 (by omega : 47 < 128), hm,
      Bool.not_true, Bool.false_eq_true, (serverNameValidate_ok_iff hs6.of_append_left).2 hsrv,
      h6]

/-- `MxcUri::parts` of a valid MXC URI returns its two components. -/
theorem mxcParts_ok {x : Ext} {srv media : Str}
    (hs : Sep (mxcPrefix ++ (srv ++ 47 :: media)))
    (h : MxcOk x (mxcPrefix ++ (srv ++ 47 :: media)) srv media) :
    mxcParts x (mxcPrefix ++ (srv ++ 47 :: media)) = .ok (srv, media) := by
  unfold mxcParts
  rw [(mxcValidate_ok_iff hs).2 ⟨srv, media, h, rfl⟩]
  have e : mxcPrefix ++ (srv ++ 47 :: media) = (mxcPrefix ++ srv) ++ 47 :: media := by simp
  have hl : srv.length + 6 = (mxcPrefix ++ srv).length := by simp [mxcPrefix]
  have hb6 : isBoundary (mxcPrefix ++ (srv ++ 47 :: media)) 6 = true := by
    have := isBoundary_after (a := [109, 120, 99, 58, 47]) (c := 47) (b := srv ++ 47 :: media)
      (by simpa [mxcPrefix] using hs) (by omega)
    simpa [mxcPrefix] using this
  have hbi : isBoundary (mxcPrefix ++ (srv ++ 47 :: media)) (srv.length + 6) = true := by
    rw [hl, e]; exact isBoundary_at _ _ _ (by omega)
  have hsl : slice (mxcPrefix ++ (srv ++ 47 :: media)) 6 (srv.length + 6) = .ok srv := by
    have ht : List.take (srv.length + 6) (mxcPrefix ++ (srv ++ 47 :: media)) = mxcPrefix ++ srv := by
      rw [hl, e]; exact List.take_left' rfl
    have hd : List.drop 6 (mxcPrefix ++ srv) = srv := List.drop_left' rfl
    simp [slice, hb6, hbi, ht, hd]
  have hsf : sliceFrom (mxcPrefix ++ (srv ++ 47 :: media)) (srv.length + 6 + 1) = .ok media := by
    rw [hl, e]; exact sliceFrom_after (by rw [← e]; exact hs) (by omega)
  simp only [hsl, hsf]

theorem mxcParts_ne_panic {x : Ext} {s : Str} (hs : Sep s) : mxcParts x s ≠ .panic := by
  cases hv : mxcValidate x s with
  | err => simp [mxcParts, hv]
  | panic => exact absurd hv (mxcValidate_ne_panic hs)
  | ok idx =>
    obtain ⟨srv, media, hm, rfl⟩ := (mxcValidate_ok_iff hs).1 hv
    obtain ⟨rfl, _⟩ := id hm
    rw [mxcParts_ok hs hm]
    simp

end Ruma.Ids
