/-
  C12 — `RoomMemberCountIs` as a string: the model's `FromStr` (`MemberCountIs.fromStr`, with Rust's
  `u64::from_str`) against the spec's reading of `is` (`Spec.Push.readAs` / `memberCountDecide`).
-/
import RumaModel.Spec.Push
namespace Ruma.Push
open Ruma.Spec.Push (isDigit decimalValue maxInteger opSpellings MemberCountDenotes MemberCountHolds readAs memberCountDecide)
theorem digitVal_eq (c : Char) : digitVal c = if isDigit c then some (c.toNat - 48) else none := by
  unfold digitVal isDigit
  by_cases h1 : '0' ≤ c <;> by_cases h2 : c ≤ '9' <;> simp [h1, h2]

theorem parseDigits_eq (acc : Nat) (ds : Text) :
    parseDigits acc ds =
      if ds.all isDigit then some (ds.foldl (fun a c => a * 10 + (c.toNat - 48)) acc) else none := by
  induction ds generalizing acc with
  | nil => simp [parseDigits]
  | cons c t ih =>
    simp only [parseDigits, digitVal_eq]
    by_cases h : isDigit c = true <;> simp [h, ih]

/-- The spec's reading of a number: non-empty, digits only, a Matrix integer. -/
def specNumber (ds : Text) : Option Nat :=
  if !ds.isEmpty && ds.all isDigit && decide (decimalValue ds ≤ maxInteger) then some (decimalValue ds)
  else none

theorem specNumber_nondigit (c : Char) (r : Text) (h : isDigit c = false) : specNumber (c :: r) = none := by
  simp [specNumber, h]

theorem parseUInt_noplus (s : Text) (h : '+' ∉ s) : parseUInt s = specNumber s := by
  unfold parseUInt parseU64 specNumber
  match s, h with
  | [], _ => simp
  | [c], h =>
    have hc : c ≠ '+' := by intro e; subst e; simp at h
    by_cases hm : c = '-'
    · subst hm; simp [isDigit]
    · simp only [hc, hm, or_self, if_false, parseDigits_eq, decimalValue]
      by_cases hd : isDigit c = true
      · simp [hd, maxSafeUInt, maxInteger]
        split <;> simp_all <;> omega
      · simp [hd]
  | c :: c' :: rest, h =>
    have hc : c ≠ '+' := by intro e; subst e; simp at h
    simp only [hc, if_false, parseDigits_eq, decimalValue]
    by_cases hd : (c :: c' :: rest).all isDigit = true
    · simp only [hd, if_true, u64Max, maxSafeUInt, maxInteger]
      simp
      generalize List.foldl (fun a c => a * 10 + (c.toNat - 48)) ((c.toNat - 48) * 10 + (c'.toNat - 48)) rest = v
      by_cases h1 : v ≤ 18446744073709551615 <;> by_cases h2 : v ≤ 9007199254740991 <;> simp [h1, h2] <;> omega
    · simp [hd]

theorem readAs_eq (s : Text) (sp : Text × CmpOp) :
    readAs s sp = if sp.1.isPrefixOf s then (specNumber (s.drop sp.1.length)).map (sp.2, ·) else none := by
  unfold readAs specNumber
  by_cases hp : sp.1.isPrefixOf s = true
  · simp only [hp, Bool.true_and, if_true]
    split <;> simp
  · simp [hp]

theorem drop_notMem {c : Char} {s : Text} (n : Nat) (h : c ∉ s) : c ∉ s.drop n :=
  fun hm => h (List.mem_of_mem_drop hm)

theorem fromStr_noplus (s : Text) (h : '+' ∉ s) :
    MemberCountIs.fromStr s =
      (opSpellings.findSome? (readAs s)).map fun r => (⟨r.1, r.2⟩ : MemberCountIs) := by
  unfold MemberCountIs.fromStr
  simp only [opSpellings, List.findSome?, readAs_eq]
  match s, h with
  | [], _ => simp [specNumber, parseUInt, parseU64]
  | c :: r, h =>
    have hr : '+' ∉ r := fun hm => h (List.mem_cons_of_mem _ hm)
    have two : ∀ (c : Char), c = '<' ∨ c = '>' ∨ c = '=' → '+' ∉ c :: r →
        (match parseUInt (c :: r) with | some n => some (⟨.eq, n⟩ : MemberCountIs) | none => none) = none := by
      intro c hc hp
      rw [parseUInt_noplus _ hp, specNumber_nondigit]
      rcases hc with rfl | rfl | rfl <;> simp [isDigit]
    by_cases hlt : c = '<'
    · subst hlt
      match r, hr with
      | [], _ => simp [specNumber, parseUInt, parseU64, isDigit]
      | d :: r', hr =>
        have hr' : '+' ∉ r' := fun hm => hr (List.mem_cons_of_mem _ hm)
        by_cases hd : '=' = d
        · subst hd
          simp [parseUInt_noplus _ hr', specNumber_nondigit, isDigit]
          cases specNumber r' <;> simp
        · simp [hd, parseUInt_noplus _ hr, specNumber_nondigit, isDigit]
          cases specNumber (d :: r') <;> simp
    · by_cases hgt : c = '>'
      · subst hgt
        match r, hr with
        | [], _ => simp [specNumber, parseUInt, parseU64, isDigit]
        | d :: r', hr =>
          have hr' : '+' ∉ r' := fun hm => hr (List.mem_cons_of_mem _ hm)
          by_cases hd : '=' = d
          · subst hd
            simp [parseUInt_noplus _ hr', specNumber_nondigit, isDigit]
            cases specNumber r' <;> simp
          · simp [hd, parseUInt_noplus _ hr, specNumber_nondigit, isDigit]
            cases specNumber (d :: r') <;> simp
      · by_cases heq : c = '='
        · subst heq
          match r, hr with
          | [], _ => simp [specNumber, parseUInt, parseU64, isDigit, parseDigits, digitVal]
          | d :: r', hr =>
            have hr' : '+' ∉ r' := fun hm => hr (List.mem_cons_of_mem _ hm)
            by_cases hd : '=' = d
            · subst hd
              simp [parseUInt_noplus _ hr', specNumber_nondigit, isDigit]
              cases specNumber r' <;> simp
            · simp [hd, parseUInt_noplus _ h, specNumber_nondigit, isDigit]
        · have h1 : ¬ '<' = c := fun e => hlt e.symm
          have h2 : ¬ '>' = c := fun e => hgt e.symm
          have h3 : ¬ '=' = c := fun e => heq e.symm
          simp [h1, h2, h3, parseUInt_noplus _ h]
          cases specNumber (c :: r) <;> simp

/-! ### The spec's reading is unique; decision procedure; spellings -/

theorem readAs_some_iff (s : Text) (sp : Text × CmpOp) (op : CmpOp) (n : Nat) :
    readAs s sp = some (op, n) ↔
      ∃ ds, s = sp.1 ++ ds ∧ sp.2 = op ∧ ds ≠ [] ∧ ds.all isDigit = true ∧ decimalValue ds = n ∧ n ≤ maxInteger := by
  simp only [readAs]
  constructor
  · intro h
    split at h
    · rename_i hc
      simp only [Bool.and_eq_true, Bool.not_eq_true', decide_eq_true_eq] at hc
      obtain ⟨⟨⟨hp, hne⟩, hd⟩, hm⟩ := hc
      simp only [Option.some.injEq, Prod.mk.injEq] at h
      obtain ⟨h1, h2⟩ := h
      refine ⟨s.drop sp.1.length, ?_, h1, ?_, hd, h2, h2 ▸ hm⟩
      · obtain ⟨t, ht⟩ := List.isPrefixOf_iff_prefix.1 hp
        rw [← ht]; simp
      · intro e; rw [e] at hne; simp at hne
    · cases h
  · rintro ⟨ds, hs, hop, hne, hd, hv, hm⟩
    subst hs
    have hp : sp.1.isPrefixOf (sp.1 ++ ds) = true := List.isPrefixOf_iff_prefix.2 ⟨ds, rfl⟩
    have hdrop : (sp.1 ++ ds).drop sp.1.length = ds := by simp
    have hne' : ds.isEmpty = false := by cases ds <;> simp_all
    rw [hdrop, hp, hne', hd]
    subst hv
    simp [hm, hop]

theorem nondigit_spellings : ∀ sp ∈ opSpellings, ∀ c ∈ sp.1, isDigit c = false := by decide

theorem takeWhile_append_stop {p : Char → Bool} (a b : Text) (ha : ∀ c ∈ a, p c = true)
    (hb : ∀ c t, b = c :: t → p c = false) : (a ++ b).takeWhile p = a := by
  induction a with
  | nil =>
    cases b with
    | nil => rfl
    | cons c t => simp [hb c t rfl]
  | cons x a ih =>
    simp only [List.cons_append, List.takeWhile_cons, ha x (List.mem_cons_self ..), if_true]
    rw [ih (fun c hc => ha c (List.mem_cons_of_mem _ hc))]

theorem spelling_unique : ∀ sp ∈ opSpellings, ∀ sp' ∈ opSpellings, sp.1 = sp'.1 → sp.2 = sp'.2 := by decide

/-- A string is well-formed in at most one way. -/
theorem MemberCountDenotes_unique {s : Text} {op op' : CmpOp} {n n' : Nat}
    (h : MemberCountDenotes s op n) (h' : MemberCountDenotes s op' n') : op = op' ∧ n = n' := by
  obtain ⟨sp, hsp, ds, hs, hop, hne, hd, hv, _⟩ := h
  obtain ⟨sp', hsp', ds', hs', hop', hne', hd', hv', _⟩ := h'
  have key : ∀ (sp : Text × CmpOp) (ds : Text), sp ∈ opSpellings → ds ≠ [] → ds.all isDigit = true →
      (sp.1 ++ ds).takeWhile (fun c => !isDigit c) = sp.1 := by
    intro sp ds hsp hne hd
    apply takeWhile_append_stop
    · intro c hc; simp [nondigit_spellings sp hsp c hc]
    · intro c t e; subst e; simp at hd; simp [hd.1]
  have e1 : sp.1 = sp'.1 := by
    rw [← key sp ds hsp hne hd, ← key sp' ds' hsp' hne' hd', ← hs, ← hs']
  have e2 : ds = ds' := by
    rw [hs, e1] at hs'; exact List.append_cancel_left hs'
  refine ⟨?_, ?_⟩
  · rw [← hop, ← hop']; exact spelling_unique sp hsp sp' hsp' e1
  · rw [← hv, ← hv', e2]

theorem findSome_readAs_iff (s : Text) (op : CmpOp) (n : Nat) :
    opSpellings.findSome? (readAs s) = some (op, n) ↔ MemberCountDenotes s op n := by
  constructor
  · intro h
    obtain ⟨sp, hsp, hr⟩ := List.exists_of_findSome?_eq_some h
    exact ⟨sp, hsp, (readAs_some_iff s sp op n).1 hr⟩
  · rintro ⟨sp, hsp, hd⟩
    have hr := (readAs_some_iff s sp op n).2 hd
    cases hf : opSpellings.findSome? (readAs s) with
    | none =>
      have := List.findSome?_eq_none_iff.1 hf sp hsp
      rw [hr] at this; cases this
    | some r =>
      obtain ⟨op', n'⟩ := r
      obtain ⟨sp', hsp', hr'⟩ := List.exists_of_findSome?_eq_some hf
      have hd' : MemberCountDenotes s op' n' := ⟨sp', hsp', (readAs_some_iff s sp' op' n').1 hr'⟩
      obtain ⟨e1, e2⟩ := MemberCountDenotes_unique ⟨sp, hsp, hd⟩ hd'
      rw [e1, e2]

theorem memberCountDecide_true_iff (s : Text) (x : Nat) :
    memberCountDecide s x = some true ↔ MemberCountHolds s x := by
  unfold memberCountDecide MemberCountHolds
  constructor
  · intro h
    cases hf : opSpellings.findSome? (readAs s) with
    | none => rw [hf] at h; cases h
    | some r =>
      obtain ⟨op, n⟩ := r
      rw [hf] at h
      simp only [Option.map_some, Option.some.injEq] at h
      exact ⟨op, n, (findSome_readAs_iff s op n).1 hf, h⟩
  · rintro ⟨op, n, hd, hc⟩
    rw [(findSome_readAs_iff s op n).2 hd]
    simp [hc]

theorem memberCountDecide_none_iff (s : Text) (x : Nat) :
    memberCountDecide s x = none ↔ ¬ ∃ op n, MemberCountDenotes s op n := by
  unfold memberCountDecide
  constructor
  · intro h ⟨op, n, hd⟩
    rw [(findSome_readAs_iff s op n).2 hd] at h
    cases h
  · intro h
    cases hf : opSpellings.findSome? (readAs s) with
    | none => rfl
    | some r =>
      obtain ⟨op, n⟩ := r
      exact absurd ⟨op, n, (findSome_readAs_iff s op n).1 hf⟩ h
theorem isDigit_eq (c : Char) : isDigit c = c.isDigit := by
  simp [isDigit, Char.isDigit, Char.le_def]

theorem all_isDigit_toDigits (n : Nat) : (Nat.toDigits 10 n).all isDigit = true := by
  simp only [List.all_eq_true]
  intro c hc
  rw [isDigit_eq]
  exact Nat.isDigit_of_mem_toDigits (by decide) (by decide) hc

theorem decimalValue_append (a : Text) (c : Char) : decimalValue (a ++ [c]) = decimalValue a * 10 + (c.toNat - 48) := by
  simp [decimalValue, List.foldl_append]

theorem decimalValue_toDigits (n : Nat) : decimalValue (Nat.toDigits 10 n) = n := by
  induction n using Nat.strongRecOn with
  | _ n ih =>
    rw [Nat.toDigits_eq_if (by decide)]
    split
    · rename_i h
      simp [decimalValue, Nat.toNat_digitChar_sub_48_of_lt_ten h]
    · rename_i h
      rw [decimalValue_append, ih (n / 10) (by omega),
        Nat.toNat_digitChar_sub_48_of_lt_ten (Nat.mod_lt _ (by decide))]
      omega

theorem plus_notMem_toDigits (n : Nat) : '+' ∉ Nat.toDigits 10 n := by
  intro h
  have := Nat.isDigit_of_mem_toDigits (by decide) (by decide) h
  revert this; decide

theorem plus_notMem_spellings : ∀ sp ∈ opSpellings, '+' ∉ sp.1 := by decide

theorem fromStr_spelling (sp : Text × CmpOp) (hsp : sp ∈ opSpellings) (n : Nat) (hn : n ≤ maxInteger) :
    MemberCountIs.fromStr (sp.1 ++ Nat.toDigits 10 n) = some ⟨sp.2, n⟩ := by
  have hplus : '+' ∉ sp.1 ++ Nat.toDigits 10 n := by
    intro h
    rcases List.mem_append.1 h with h | h
    · exact plus_notMem_spellings sp hsp h
    · exact plus_notMem_toDigits n h
  rw [fromStr_noplus _ hplus,
    (findSome_readAs_iff _ sp.2 n).2
      ⟨sp, hsp, Nat.toDigits 10 n, rfl, rfl, Nat.toDigits_ne_nil, all_isDigit_toDigits n,
        decimalValue_toDigits n, hn⟩]
  rfl

theorem fromStr_display (r : MemberCountIs) (hn : r.count ≤ maxSafeUInt) :
    MemberCountIs.fromStr r.display = some r := by
  obtain ⟨op, n⟩ := r
  cases op
  · exact fromStr_spelling ([], .eq) (by decide) n hn
  · exact fromStr_spelling ("<".toList, .lt) (by decide) n hn
  · exact fromStr_spelling (">".toList, .gt) (by decide) n hn
  · exact fromStr_spelling (">=".toList, .ge) (by decide) n hn
  · exact fromStr_spelling ("<=".toList, .le) (by decide) n hn
end Ruma.Push
