/-
  C12 — `RoomMemberCountIs` as a string: the model's `FromStr` (`MemberCountIs.fromStr`, with Rust's
  `u64::from_str`) against the spec's reading of `is` (`Spec.Push.readAs` / `memberCountDecide`).
-/
import RumaModel.Spec.Push
namespace Ruma.Push
open Ruma.Spec.Push (isDigit decimalValue maxInteger opSpellings MemberCountDenotes MemberCountHolds readAs memberCountDecide)
theorem digitVal_eq (c : Char) : digitVal c = if isDigit c then some (c.toNat - 48) else none := by
  unfold digitVal isDigit
  by_cases h1 : '0' ≤ c <;> by_cases h2 : c ≤ '9' <;> simp [h1, h2]

theorem parseDigits_eq (acc : Nat) (ds : Text) :
    parseDigits acc ds =
      if ds.all isDigit then some (ds.foldl (fun a c => a * 10 + (c.toNat - 48)) acc) else none := by
  induction ds generalizing acc with
  | nil => simp [parseDigits]
  | cons c t ih =>
    simp only [parseDigits, digitVal_eq]
    by_cases h : isDigit c = true <;> simp [h, ih]

/-- The spec's reading of a number: non-empty, digits only, a Matrix integer. -/
def specNumber (ds : Text) : Option Nat :=
  if !ds.isEmpty && ds.all isDigit && decide (decimalValue ds ≤ maxInteger) then some (decimalValue ds)
  else none

theorem specNumber_nondigit (c : Char) (r : Text) (h : isDigit c = false) : specNumber (c :: r) = none := by
  simp [specNumber, h]

theorem parseUInt_noplus (s : Text) (h : '+' ∉ s) : parseUInt s = specNumber s := by
  unfold parseUInt parseU64 specNumber
  match s, h with
  | [], _ => simp
  | [c], h =>
    have hc : c ≠ '+' := by intro e; subst e; simp at h
    by_cases hm : c = '-'
    · subst hm; simp [isDigit]
    · simp only [hc, hm, or_self, if_false, parseDigits_eq, decimalValue]
      by_cases hd : isDigit c = true
      · simp [hd, maxSafeUInt, maxInteger]
        split <;> simp_all <;> omega
      · simp [hd]
  | c :: c' :: rest, h =>
    have hc : c ≠ '+' := by intro e; subst e; simp at h
    simp only [hc, if_false, parseDigits_eq, decimalValue]
    by_cases hd : (c :: c' :: rest).all isDigit = true
    · simp only [hd, if_true, u64Max, maxSafeUInt, maxInteger]
      simp
      generalize List.foldl (fun a c => a * 10 + (c.toNat - 48)) ((c.toNat - 48) * 10 + (c'.toNat - 48)) rest = v
      by_cases h1 : v ≤ 18446744073709551615 <;> by_cases h2 : v ≤ 9007199254740991 <;> simp [h1, h2] <;> omega
    · simp [hd]

theorem readAs_eq (s : Text) (sp : Text × CmpOp) :
    readAs s sp = if sp.1.isPrefixOf s then (specNumber (s.drop sp.1.length)).map (sp.2, ·) else none := by
  unfold readAs specNumber
  by_cases hp : sp.1.isPrefixOf s = true
  · simp only [hp, Bool.true_and, if_true]
    split <;> simp
  · simp [hp]

theorem drop_notMem {c : Char} {s : Text} (n : Nat) (h : c ∉ s) : c ∉ s.drop n :=
  fun hm => h (List.mem_of_mem_drop hm)

theorem fromStr_noplus (s : Text) (h : '+' ∉ s) :
    MemberCountIs.fromStr s =
      (opSpellings.findSome? (readAs s)).map fun r => (⟨r.1, r.2⟩ : MemberCountIs) := by
  unfold MemberCountIs.fromStr
  simp only [opSpellings, List.findSome?, readAs_eq]
  match s, h with
  | [], _ => simp [specNumber, parseUInt, parseU64]
  | c :: r, h =>
    have hr : '+' ∉ r := fun hm => h (List.mem_cons_of_mem _ hm)
    have two : ∀ (c : Char), c = '<' ∨ c = '>' ∨ c = '=' → '+' ∉ c :: r →
        (match parseUInt (c :: r) with | some n => some (⟨.eq, n⟩ : MemberCountIs) | none => none) = none := by
      intro c hc hp
      rw [parseUInt_noplus _ hp, specNumber_nondigit]
      rcases hc with rfl | rfl | rfl <;> simp [isDigit]
    by_cases hlt : c = '<'
    · subst hlt
      match r, hr with
      | [], _ => simp [specNumber, parseUInt, parseU64, isDigit]
      | d :: r', hr =>
        have hr' : '+' ∉ r' := fun hm => hr (List.mem_cons_of_mem _ hm)
        by_cases hd : '=' = d
        · subst hd
          simp [parseUInt_noplus _ hr', specNumber_nondigit, isDigit]
          cases specNumber r' <;> simp
        · simp [hd, parseUInt_noplus _ hr, specNumber_nondigit, isDigit]
          cases specNumber (d :: r') <;> simp
    · by_cases hgt : c = '>'
      · subst hgt
        match r, hr with
        | [], _ => simp [specNumber, parseUInt, parseU64, isDigit]
        | d :: r', hr =>
          have hr' : '+' ∉ r' := fun hm => hr (List.mem_cons_of_mem _ hm)
          by_cases hd : '=' = d
          · subst hd
            simp [parseUInt_noplus _ hr', specNumber_nondigit, isDigit]
            cases specNumber r' <;> simp
          · simp [hd, parseUInt_noplus _ hr, specNumber_nondigit, isDigit]
            cases specNumber (d :: r') <;> simp
      · by_cases heq : c = '='
        · subst heq
          match r, hr with
          | [], _ => simp [specNumber, parseUInt, parseU64, isDigit, parseDigits, digitVal]
          | d :: r', hr =>
            have hr' : '+' ∉ r' := fun hm => hr (List.mem_cons_of_mem _ hm)
            by_cases hd : '=' = d
            · subst hd
              simp [parseUInt_noplus _ hr', specNumber_nondigit, isDigit]
              cases specNumber r' <;> simp
            · simp [hd, parseUInt_noplus _ h, specNumber_nondigit, isDigit]
        · have h1 : ¬ '<' = c := fun e => hlt e.symm
          have h2 : ¬ '>' = c := fun e => hgt e.symm
          have h3 : ¬ '=' = c := fun e => heq e.symm
          simp [h1, h2, h3, parseUInt_noplus _ h]
          cases specNumber (c :: r) <;> simp
end Ruma.Push
