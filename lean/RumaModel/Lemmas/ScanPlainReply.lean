/-
  C17 helper lemmas: `remove_plain_reply_fallback` (`Model/ScanPlainReply.lean`) terminates for every
  string and returns a suffix of it.
-/
import RumaModel.Model.ScanPlainReply
import RumaModel.Lemmas.ScanCommon
namespace Ruma.ScanPlainReply
open Ruma Ruma.Scan

theorem afterNewline_suffix {s r : Str} (h : afterNewline s = some r) : r <:+ s ∧ r.length < s.length := by
  induction s with
  | nil => simp [afterNewline] at h
  | cons b t ih =>
    simp only [afterNewline] at h
    split at h
    · simp only [Option.some.injEq] at h
      subst h
      exact ⟨List.suffix_cons _ _, by simp⟩
    · obtain ⟨h1, h2⟩ := ih h
      exact ⟨h1.trans (List.suffix_cons _ _), by simp only [List.length_cons]; omega⟩

/-- The quote-stripping loop ends within `len + 1` iterations, with a suffix of its input. -/
theorem stripQuoted_ok : ∀ (fuel : Nat) (s : Str), s.length + 1 ≤ fuel →
    ∃ r, stripQuoted fuel s = .ok r ∧ r <:+ s := by
  intro fuel
  induction fuel with
  | zero => intro s h; omega
  | succ f ih =>
    intro s h
    unfold stripQuoted
    split
    · cases ha : afterNewline s with
      | none => exact ⟨[], rfl, List.nil_suffix⟩
      | some rest =>
        obtain ⟨h1, h2⟩ := afterNewline_suffix ha
        obtain ⟨r, hr, hsuf⟩ := ih rest (by omega)
        exact ⟨r, hr, hsuf.trans h1⟩
    · exact ⟨s, rfl, List.suffix_refl _⟩

/-- `remove_plain_reply_fallback` returns a suffix of its argument, for every string. -/
theorem removeFallback_ok (s : Str) : ∃ r, removeFallback s = .ok r ∧ r <:+ s := by
  unfold removeFallback
  split
  · exact ⟨s, rfl, List.suffix_refl _⟩
  · obtain ⟨r, hr, hsuf⟩ := stripQuoted_ok (s.length + 1) s (Nat.le_refl _)
    rw [hr]
    simp only
    split
    · rename_i rest
      exact ⟨rest, rfl, (List.suffix_cons _ _).trans hsuf⟩
    · exact ⟨r, rfl, hsuf⟩

end Ruma.ScanPlainReply
