/-
  C17 helper lemmas: `CallMemberStateKeyEnum::from_str` (`Model/ScanCallMember.lean`) returns for every
  string, and what it accepts formats back to the input.
-/
import RumaModel.Model.ScanCallMember
import RumaModel.Lemmas.ScanCommon
import RumaModel.Lemmas.IdsSigil
namespace Ruma.ScanCallMember
open Ruma Ruma.Scan Ruma.Ids

theorem userParse_returns {x : Ext} {s : Str} (hs : Sep s) : (userParse x s).Returns := by
  unfold userParse
  have := delimitedValidate_ne_panic (x := x) (sigil := 64) hs (by omega) (by omega)
  unfold userIdValidate
  cases h : delimitedValidate x 64 s <;> simp_all [Out.Returns]

theorem sep_stripUnderscore {s : Str} (hs : Sep s) : Sep (stripUnderscore s).1 := by
  unfold stripUnderscore
  split
  · exact hs.tail
  · exact hs

/-- The three slices of `from_str`, for a string with a colon and an underscore behind it. -/
theorem slices_ok {pre pre2 post2 : Str} (hs : Sep (pre ++ 58 :: (pre2 ++ 95 :: post2))) :
    strFrom (pre ++ 58 :: (pre2 ++ 95 :: post2)) (pre.length + 1) = some (pre2 ++ 95 :: post2) ∧
    strTo (pre ++ 58 :: (pre2 ++ 95 :: post2)) (pre.length + 1 + pre2.length) = some (pre ++ 58 :: pre2) ∧
    strFrom (pre ++ 58 :: (pre2 ++ 95 :: post2)) (pre.length + 2 + pre2.length) = some post2 := by
  have e : pre ++ 58 :: (pre2 ++ 95 :: post2) = (pre ++ 58 :: pre2) ++ 95 :: post2 := by simp
  have l : pre.length + 1 + pre2.length = (pre ++ 58 :: pre2).length := by simp; omega
  have l2 : pre.length + 2 + pre2.length = (pre ++ 58 :: pre2).length + 1 := by simp; omega
  refine ⟨strFrom_after hs (by omega), ?_, ?_⟩
  · rw [l, e]; exact strTo_at (by omega)
  · rw [l2, e]; rw [e] at hs; exact strFrom_after hs (by omega)

theorem parseStripped_returns (x : Ext) (sk : Str) (u : Bool) (hs : Sep sk) :
    (parseStripped x sk u).Returns := by
  unfold parseStripped
  cases hc : findByte 58 sk with
  | none => simp [Out.Returns]
  | some ci =>
    obtain ⟨pre, post, rfl, _, rfl⟩ := find_eq_some hc
    simp only
    rw [strFrom_after hs (by omega)]
    simp only
    cases hu : findByte 95 post with
    | none =>
      simp only
      have := userParse_returns (x := x) hs
      cases hp : userParse x (pre ++ 58 :: post) with
      | ok a => simp only; split <;> simp [Out.Returns]
      | err => simp [Out.Returns]
      | panic => rw [hp] at this; exact this.elim
      | hang => rw [hp] at this; exact this.elim
    | some si =>
      obtain ⟨pre2, post2, rfl, _, rfl⟩ := find_eq_some hu
      simp only
      obtain ⟨_, h2, h3⟩ := slices_ok hs
      rw [h2, h3]
      simp only
      have hsu : Sep (pre ++ 58 :: pre2) := by
        have e : pre ++ 58 :: (pre2 ++ 95 :: post2) = (pre ++ 58 :: pre2) ++ 95 :: post2 := by simp
        rw [e] at hs
        exact hs.of_append_left
      have := userParse_returns (x := x) hsu
      cases hp : userParse x (pre ++ 58 :: pre2) with
      | ok a => simp only; split <;> simp [Out.Returns]
      | err => simp [Out.Returns]
      | panic => rw [hp] at this; exact this.elim
      | hang => rw [hp] at this; exact this.elim

theorem fromStr_returns (x : Ext) (s : Str) (hs : Sep s) : (fromStr x s).Returns :=
  parseStripped_returns x _ _ (sep_stripUnderscore hs)

/-- What `parseStripped` accepts formats back (without the leading underscore) to its input. -/
theorem parseStripped_display (x : Ext) (sk : Str) (u : Bool) (hs : Sep sk) {k : Key}
    (h : parseStripped x sk u = .ok k) :
    k.display = (if u then 95 :: sk else sk) := by
  unfold parseStripped at h
  cases hc : findByte 58 sk with
  | none => simp [hc] at h
  | some ci =>
    obtain ⟨pre, post, rfl, _, rfl⟩ := find_eq_some hc
    rw [hc] at h
    simp only at h
    rw [strFrom_after hs (by omega)] at h
    simp only at h
    cases hu : findByte 95 post with
    | none =>
      rw [hu] at h
      simp only at h
      cases hp : userParse x (pre ++ 58 :: post) with
      | ok a =>
        rw [hp] at h
        simp only at h
        split at h
        · simp at h
        · rename_i hu'
          simp only [Out.ok.injEq] at h
          subst h
          simp [Key.new, Key.display, hu']
      | err => rw [hp] at h; simp at h
      | panic => rw [hp] at h; simp at h
      | hang => rw [hp] at h; simp at h
    | some si =>
      obtain ⟨pre2, post2, rfl, _, rfl⟩ := find_eq_some hu
      rw [hu] at h
      simp only at h
      obtain ⟨_, h2, h3⟩ := slices_ok hs
      rw [h2, h3] at h
      simp only at h
      cases hp : userParse x (pre ++ 58 :: pre2) with
      | ok a =>
        rw [hp] at h
        simp only at h
        split at h
        · simp at h
        · simp only [Out.ok.injEq] at h
          subst h
          cases u <;> simp [Key.new, Key.display]
      | err => rw [hp] at h; simp at h
      | panic => rw [hp] at h; simp at h
      | hang => rw [hp] at h; simp at h

theorem fromStr_display (x : Ext) (s : Str) (hs : Sep s) {k : Key} (h : fromStr x s = .ok k) :
    k.display = s := by
  have := parseStripped_display x _ _ (sep_stripUnderscore hs) h
  rw [this]
  unfold stripUnderscore
  split <;> simp

end Ruma.ScanCallMember
