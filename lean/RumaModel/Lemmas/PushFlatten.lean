/-
  C12 — `FlattenedJson::from_raw` inserts exactly the spec's leaves under their property paths
  (`flatten_eq`), hence `get` / `get_str` / `contains_mentions` are the spec's `lookup` /
  `lookupStr` / `hasMentions`.
-/
import RumaModel.Spec.Push
import RumaModel.Model.Push
set_option linter.unusedSimpArgs false
namespace Ruma.Push
open Ruma.Spec.Push (escape pathString leaves leavesFields canonicalInt)

theorem escapeKey_eq (k : Text) : escapeKey k = escape k := by
  unfold escapeKey replaceChar escape
  induction k with
  | nil => rfl
  | cons c t ih =>
    simp only [List.flatMap_cons] at ih ⊢
    by_cases h1 : c = '\\'
    · subst h1; simp [ih]
    · by_cases h2 : c = '.'
      · subst h2; simp [ih]
      · simp [h1, h2, ih]

theorem pathString_append_singleton (l : List Text) (k : Text) (hl : l ≠ []) :
    pathString (l ++ [k]) = pathString l ++ '.' :: escape k := by
  induction l with
  | nil => exact absurd rfl hl
  | cons a t ih =>
    cases t with
    | nil => simp [pathString]
    | cons b t' =>
      have := ih (by simp)
      simp only [List.cons_append] at this ⊢
      simp only [pathString, this, List.append_assoc, List.cons_append]

/-- The `path` argument of `flatten_value` for the keys walked so far (last key first). -/
def pathOf (rpath : List Text) : Option Text :=
  match rpath with
  | [] => none
  | _ :: _ => some (pathString rpath.reverse)

theorem pathOf_getD (rpath : List Text) : (pathOf rpath).getD [] = pathString rpath.reverse := by
  cases rpath <;> simp [pathOf, pathString]

theorem childPath_pathOf (rpath : List Text) (k : Text) :
    some (childPath (pathOf rpath) k) = pathOf (k :: rpath) := by
  cases rpath with
  | nil => simp [pathOf, childPath, escapeKey_eq, pathString]
  | cons a t =>
    show some (pathString (a :: t).reverse ++ '.' :: escapeKey k) = some (pathString (k :: a :: t).reverse)
    rw [escapeKey_eq, List.reverse_cons (a := k), pathString_append_singleton _ _ (by simp)]

/-- The flattened value of a leaf. -/
def toF (v : PJ) : FVal :=
  match FVal.ofJson v with
  | some f => f
  | none => .emptyObj

def entry (e : List Text × PJ) : Text × FVal := (pathString e.1, toF e.2)

theorem intOk_eq (i : Int) : intOk i = canonicalInt i := by
  simp [intOk, canonicalInt, Bool.decide_and]

mutual
/-- `flatten_value` inserts exactly the spec's leaves, with their property paths. -/
theorem flattenValue_eq : ∀ (v : PJ) (rpath : List Text) (m : FMap),
    flattenValue v (pathOf rpath) m = ((leaves v rpath).reverse.map entry) ++ m
  | .obj [], rpath, m => by
    simp [flattenValue, leaves, entry, pathOf_getD, toF, FVal.ofJson]
  | .obj (kv :: kvs), rpath, m => by
    rw [flattenValue, leaves]; exact flattenFields_eq (kv :: kvs) rpath m
  | .null, rpath, m => by simp [flattenValue, leaves, entry, pathOf_getD, toF, FVal.ofJson, insertLeaf]
  | .bool b, rpath, m => by simp [flattenValue, leaves, entry, pathOf_getD, toF, FVal.ofJson, insertLeaf]
  | .int i, rpath, m => by
    simp only [flattenValue, leaves, FVal.ofJson, insertLeaf, intOk_eq]
    cases h : canonicalInt i <;> simp [entry, pathOf_getD, toF, FVal.ofJson, intOk_eq, h]
  | .float, rpath, m => by simp [flattenValue, leaves, FVal.ofJson, insertLeaf]
  | .str s, rpath, m => by simp [flattenValue, leaves, entry, pathOf_getD, toF, FVal.ofJson, insertLeaf]
  | .arr xs, rpath, m => by simp [flattenValue, leaves, entry, pathOf_getD, toF, FVal.ofJson, insertLeaf]
theorem flattenFields_eq : ∀ (kvs : List (Text × PJ)) (rpath : List Text) (m : FMap),
    flattenFields kvs (pathOf rpath) m = ((leavesFields kvs rpath).reverse.map entry) ++ m
  | [], rpath, m => by simp [flattenFields, leavesFields]
  | (k, v) :: rest, rpath, m => by
    rw [flattenFields, leavesFields, childPath_pathOf, flattenValue_eq v (k :: rpath) m,
      flattenFields_eq rest rpath]
    simp
end

theorem flatten_eq (ev : PJ) : flatten ev = (leaves ev []).reverse.map entry := by
  have := flattenValue_eq ev [] []
  simpa [flatten, pathOf] using this

theorem get_map_entry (l : List (List Text × PJ)) (k : Text) :
    FMap.get (l.map entry) k = (l.find? fun e => pathString e.1 = k).map fun e => toF e.2 := by
  induction l with
  | nil => rfl
  | cons e t ih =>
    simp only [List.map_cons, FMap.get, entry, List.find?_cons]
    by_cases h : pathString e.1 = k
    · simp [h]
    · simp only [h, if_false, decide_false]
      exact ih

/-- `FlattenedJson::get` is the spec's property lookup. -/
theorem flatten_get (ev : PJ) (k : Text) :
    (flatten ev).get k = (Ruma.Spec.Push.lookup ev k).map toF := by
  rw [flatten_eq, get_map_entry]
  simp only [Ruma.Spec.Push.lookup, Option.map_map]
  rfl

theorem toF_int (i : Int) : toF (.int i) = if canonicalInt i then .int i else .emptyObj := by
  simp only [toF, FVal.ofJson, intOk_eq]
  cases canonicalInt i <;> rfl

/-- `FlattenedJson::get_str` is the spec's string lookup. -/
theorem flatten_getStr (ev : PJ) (k : Text) :
    (flatten ev).getStr k = Ruma.Spec.Push.lookupStr ev k := by
  unfold FMap.getStr Ruma.Spec.Push.lookupStr
  rw [flatten_get]
  cases h : Ruma.Spec.Push.lookup ev k with
  | none => rfl
  | some v =>
    cases v with
    | int i =>
      simp only [Option.map_some, toF_int]
      cases canonicalInt i <;> rfl
    | _ => rfl

/-- `contains_mentions` is the spec's `hasMentions`. -/
theorem flatten_containsMentions (ev : PJ) :
    containsMentions (flatten ev) = Ruma.Spec.Push.hasMentions ev := by
  have h1 : mentionsKey = Ruma.Spec.Push.mentionsPath := by decide
  have h2 : mentionsPrefix = Ruma.Spec.Push.mentionsPath ++ ['.'] := by decide
  unfold containsMentions Ruma.Spec.Push.hasMentions
  rw [flatten_eq, List.any_map, List.any_reverse, h1, h2]
  rfl

theorem eqScalar_toF (v : PJ) (x : Scalar) : (toF v).eqScalar x = Ruma.Spec.Push.jsonEq v x := by
  cases v with
  | int i =>
    rw [toF_int]
    cases h : canonicalInt i <;> cases x <;> simp [FVal.eqScalar, Ruma.Spec.Push.jsonEq, h]
  | null => cases x <;> rfl
  | bool b => cases x <;> rfl
  | float => cases x <;> rfl
  | str s => cases x <;> rfl
  | arr xs => cases x <;> rfl
  | obj kvs => cases x <;> rfl

theorem Scalar_ofJson_eq (e : PJ) (x : Scalar) :
    (match Scalar.ofJson e with | some sc => sc == x | none => false) = Ruma.Spec.Push.jsonEq e x := by
  cases e with
  | int i =>
    simp only [Scalar.ofJson, intOk_eq]
    cases h : canonicalInt i <;> cases x <;> simp [Ruma.Spec.Push.jsonEq, h] <;>
      (rw [Bool.eq_iff_iff]; simp)
  | null => cases x <;> simp [Scalar.ofJson, Ruma.Spec.Push.jsonEq] <;> (try (rw [Bool.eq_iff_iff]; simp))
  | bool b => cases x <;> simp [Scalar.ofJson, Ruma.Spec.Push.jsonEq] <;> (try (rw [Bool.eq_iff_iff]; simp))
  | float => cases x <;> simp [Scalar.ofJson, Ruma.Spec.Push.jsonEq] <;> (try (rw [Bool.eq_iff_iff]; simp))
  | str s => cases x <;> simp [Scalar.ofJson, Ruma.Spec.Push.jsonEq] <;> (try (rw [Bool.eq_iff_iff]; simp))
  | arr xs => cases x <;> simp [Scalar.ofJson, Ruma.Spec.Push.jsonEq] <;> (try (rw [Bool.eq_iff_iff]; simp))
  | obj kvs => cases x <;> simp [Scalar.ofJson, Ruma.Spec.Push.jsonEq] <;> (try (rw [Bool.eq_iff_iff]; simp))

theorem contains_filterMap (xs : List PJ) (x : Scalar) :
    (xs.filterMap Scalar.ofJson).contains x = xs.any (Ruma.Spec.Push.jsonEq · x) := by
  induction xs with
  | nil => rfl
  | cons e t ih =>
    simp only [List.filterMap_cons, List.any_cons, ← Scalar_ofJson_eq e x]
    cases h : Scalar.ofJson e with
    | none => simpa using ih
    | some sc =>
      simp only [List.contains_cons, ih]
      congr 1
      exact BEq.comm

end Ruma.Push
