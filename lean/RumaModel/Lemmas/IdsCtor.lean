/-
  C10 helper lemmas, part 7: constructors (`with_bytes`) and the `UserId` conformance accessors.
-/
import RumaModel.Lemmas.IdsGram
import RumaModel.Model.IdsExt
namespace Ruma.Ids
open Ruma Spec.IdGrammar

/-- Every symbol of the encoder is a character of the standard base64 alphabet. -/
theorem b64Char_ok (i : Nat) : base64Char (b64Char i) = true := by
  have hi : i % 64 < 64 := Nat.mod_lt _ (by omega)
  simp only [b64Char]
  generalize i % 64 = j at hi
  simp only [base64Char, alnum, digit, lower, upper, oneOf, bs]
  split
  · simp; omega
  · split
    · simp; omega
    · split
      · simp; omega
      · split <;> decide

theorem b64_all : ∀ (bytes : List Nat), ∀ c ∈ b64 bytes, base64Char c = true
  | [], c, h => by simp [b64] at h
  | [a], c, h => by
    simp only [b64, List.mem_cons, List.not_mem_nil, or_false] at h
    rcases h with rfl | rfl <;> exact b64Char_ok _
  | [a, b], c, h => by
    simp only [b64, List.mem_cons, List.not_mem_nil, or_false] at h
    rcases h with rfl | rfl | rfl <;> exact b64Char_ok _
  | a :: b :: d :: t, c, h => by
    simp only [b64, List.mem_cons] at h
    rcases h with rfl | rfl | rfl | rfl | h
    · exact b64Char_ok _
    · exact b64Char_ok _
    · exact b64Char_ok _
    · exact b64Char_ok _
    · exact b64_all t c h

theorem b64_ne_nil : ∀ {bytes : List Nat}, bytes ≠ [] → b64 bytes ≠ []
  | [], h => absurd rfl h
  | [_], _ => by simp [b64]
  | [_, _], _ => by simp [b64]
  | _ :: _ :: _ :: _, _ => by simp [b64]

theorem localpartFullyConforming_ne_panic (lp : Str) : localpartFullyConforming lp ≠ .panic := by
  unfold localpartFullyConforming
  exact ite_ne_panic (by simp) (ite_ne_panic (by simp) (ite_ne_panic (by simp) (by simp)))

theorem userIdChar_eq (b : Nat) : userIdChar b = userIdCharOk b := by
  rw [Bool.eq_iff_iff]
  simp only [userIdChar, userIdCharOk, oneOf, bs, isDigit_eq, lower, isLower, Bool.or_eq_true,
    Bool.and_eq_true, decide_eq_true_eq, beq_iff_eq]
  simp [or_assoc]

/-! ### Accepted ⇒ required structure, opaque identifier types -/

theorem asciiIn_of_allUniAlnumOr {x : Ext} {extra set : Nat → Bool} {s : Str}
    (hset : ∀ b, (isAlnum b || extra b) = true → set b = true)
    (h : allUniAlnumOr x extra s = true) : asciiIn set s = true := by
  simp only [allUniAlnumOr, Bool.and_eq_true, List.all_eq_true] at h
  simp only [asciiIn, List.all_eq_true]
  intro b hb
  have := h.1 b hb
  simp only [Bool.or_eq_true, decide_eq_true_eq] at this ⊢
  rcases this with (h1 | h1) | h1
  · exact .inl h1
  · exact .inr (hset b (by simp [h1]))
  · exact .inr (hset b (by simp [h1]))

theorem struct_signingKeyVersion {x : Ext} {s : Str}
    (h : serverSigningKeyVersionValidate x s = .ok ()) :
    (!s.isEmpty && asciiIn keyVersionChar s) = true := by
  unfold serverSigningKeyVersionValidate at h
  by_cases he : s = []
  · simp [he] at h
  · by_cases ha : allUniAlnumOr x (fun b => b == 95) s = true
    · have := asciiIn_of_allUniAlnumOr (set := keyVersionChar)
        (fun b hb => by simpa [keyVersionChar, alnum_eq] using hb) ha
      cases s <;> simp_all
    · simp [he, ha] at h

theorem struct_base64PublicKey {x : Ext} {s : Str} (h : base64PublicKeyValidate x s = .ok ()) :
    (!s.isEmpty && asciiIn base64PadChar s) = true := by
  unfold base64PublicKeyValidate at h
  by_cases he : s = []
  · simp [he] at h
  · by_cases ha : allUniAlnumOr x (fun b => b == 43 || b == 47 || b == 61) s = true
    · have := asciiIn_of_allUniAlnumOr (set := base64PadChar)
        (fun b hb => by
          simp only [base64PadChar, alnum_eq, oneOf, bs, Bool.or_eq_true] at hb ⊢
          rcases hb with hb | hb
          · exact .inl hb
          · right; simp at hb ⊢; omega) ha
      cases s <;> simp_all
    · simp [he, ha] at h

theorem secretChar_eq (b : Nat) : secretChar b = (isAlnum b || secretByteExtra b) := by
  rw [Bool.eq_iff_iff]
  simp only [secretChar, alnum_eq, oneOf, bs, secretByteExtra, Bool.or_eq_true, beq_iff_eq]
  simp [or_assoc]

theorem struct_clientSecret {x : Ext} {s : Str} (h : clientSecretValidate x s = .ok ()) :
    (!s.isEmpty && max255 s && asciiIn secretChar s) = true := by
  unfold clientSecretValidate at h
  by_cases hl : s.length > 255
  · simp [hl] at h
  · by_cases ha : allUniAlnumOr x secretByteExtra s = true
    · by_cases he : s = []
      · simp [he] at h
      · have := asciiIn_of_allUniAlnumOr (set := secretChar)
          (fun b hb => by rw [secretChar_eq]; exact hb) ha
        have hm : max255 s = true := by simp [max255]; omega
        cases s <;> simp_all
    · simp [hl, ha] at h

theorem struct_sessionId {s : Str} (h : sessionIdValidate s = .ok ()) :
    (nonEmptyAll secretChar s && max255 s) = true := by
  unfold sessionIdValidate at h
  by_cases hl : s.length > 255
  · rw [if_pos hl] at h; cases h
  · rw [if_neg hl] at h
    by_cases ha : s.any (fun b => !(isAlnum b || secretByteExtra b)) = true
    · rw [if_pos ha] at h; cases h
    · rw [if_neg ha] at h
      by_cases he : s = []
      · rw [if_pos he] at h; cases h
      · have hm : max255 s = true := by simp [max255]; omega
        rw [Bool.and_eq_true, nonEmptyAll_iff]
        refine ⟨⟨he, ?_⟩, hm⟩
        intro b hb
        rw [secretChar_eq]
        rw [Bool.not_eq_true, List.any_eq_false] at ha
        have := ha b hb
        cases h1 : isAlnum b <;> cases h2 : secretByteExtra b <;> simp_all

theorem roomVersionChar_eq (b : Nat) : roomVersionChar b = (isAlnum b || b == 46 || b == 45) := by
  rw [Bool.eq_iff_iff]
  simp only [roomVersionChar, alnum_eq, oneOf, bs, Bool.or_eq_true, beq_iff_eq]
  simp [or_assoc]

theorem struct_roomVersion {s : Str} (h : roomVersionIdValidate s = .ok ()) :
    (nonEmptyAll roomVersionChar s && decide (codePoints s ≤ 32)) = true := by
  unfold roomVersionIdValidate at h
  by_cases he : s = []
  · simp [he] at h
  · by_cases hc : charCount s > 32
    · simp [he, hc] at h
    · by_cases ha : s.all (fun b => isAlnum b || b == 46 || b == 45) = true
      · rw [Bool.and_eq_true, nonEmptyAll_iff, codePoints_eq]
        refine ⟨⟨he, ?_⟩, by simp; omega⟩
        intro b hb
        rw [roomVersionChar_eq]
        exact List.all_eq_true.1 ha b hb
      · simp [he, hc, ha] at h

end Ruma.Ids
