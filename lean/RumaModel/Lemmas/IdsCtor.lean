/-
  C10 helper lemmas, part 7: constructors (`with_bytes`) and the `UserId` conformance accessors.
-/
import RumaModel.Lemmas.IdsGram
import RumaModel.Model.IdsExt
namespace Ruma.Ids
open Ruma Spec.IdGrammar

/-- Every symbol of the encoder is a character of the standard base64 alphabet. -/
theorem b64Char_ok (i : Nat) : base64Char (b64Char i) = true := by
  have hi : i % 64 < 64 := Nat.mod_lt _ (by omega)
  simp only [b64Char]
  generalize i % 64 = j at hi
  simp only [base64Char, alnum, digit, lower, upper, oneOf, bs]
  split
  · simp; omega
  · split
    · simp; omega
    · split
      · simp; omega
      · split <;> decide

theorem b64_all : ∀ (bytes : List Nat), ∀ c ∈ b64 bytes, base64Char c = true
  | [], c, h => by simp [b64] at h
  | [a], c, h => by
    simp only [b64, List.mem_cons, List.not_mem_nil, or_false] at h
    rcases h with rfl | rfl <;> exact b64Char_ok _
  | [a, b], c, h => by
    simp only [b64, List.mem_cons, List.not_mem_nil, or_false] at h
    rcases h with rfl | rfl | rfl <;> exact b64Char_ok _
  | a :: b :: d :: t, c, h => by
    simp only [b64, List.mem_cons] at h
    rcases h with rfl | rfl | rfl | rfl | h
    · exact b64Char_ok _
    · exact b64Char_ok _
    · exact b64Char_ok _
    · exact b64Char_ok _
    · exact b64_all t c h

theorem b64_ne_nil : ∀ {bytes : List Nat}, bytes ≠ [] → b64 bytes ≠ []
  | [], h => absurd rfl h
  | [_], _ => by simp [b64]
  | [_, _], _ => by simp [b64]
  | _ :: _ :: _ :: _, _ => by simp [b64]

theorem localpartFullyConforming_ne_panic (lp : Str) : localpartFullyConforming lp ≠ .panic := by
  unfold localpartFullyConforming
  exact ite_ne_panic (by simp) (ite_ne_panic (by simp) (ite_ne_panic (by simp) (by simp)))

theorem userIdChar_eq (b : Nat) : userIdChar b = userIdCharOk b := by
  rw [Bool.eq_iff_iff]
  simp only [userIdChar, userIdCharOk, oneOf, bs, isDigit_eq, lower, isLower, Bool.or_eq_true,
    Bool.and_eq_true, decide_eq_true_eq, beq_iff_eq]
  simp [or_assoc]

end Ruma.Ids
