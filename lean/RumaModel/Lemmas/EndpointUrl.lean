/-
  Helper lemmas for C16, part 2: percent-encoding of path arguments, `make_endpoint_url`, and the
  receiving side's routing. Core Lean only.
-/
import RumaModel.Model.Endpoint
namespace Ruma.Endpoint
open Ruma.Spec.Endpoint

/-- Every element is a byte. -/
def IsBytes (s : Str) : Prop := ∀ b ∈ s, b < 256

theorem hexUpper_spec : ∀ n, n < 16 → isHexDigit (hexUpper n) = true ∧ hexVal (hexUpper n) = n := by
  decide

theorem percentDecode_cons_ne (b : Nat) (t : Str) (hb : b ≠ 37) :
    percentDecode (b :: t) = b :: percentDecode t := by
  rw [percentDecode.eq_def]
  simp [hb]

theorem percentDecode_escape (x y : Nat) (t : Str) (hx : isHexDigit x = true) (hy : isHexDigit y = true) :
    percentDecode (37 :: x :: y :: t) = (16 * hexVal x + hexVal y) :: percentDecode t := by
  rw [percentDecode.eq_2]
  simp [hx, hy]

/-- Decoding undoes encoding whenever `%` itself is in the encode set. -/
theorem percentDecode_encode (set : Nat → Bool) (hpct : set 37 = true) :
    ∀ (s : Str), IsBytes s → percentDecode (percentEncode set s) = s
  | [], _ => rfl
  | b :: t, hs => by
    have hb : b < 256 := hs b (by simp)
    have ht : IsBytes t := fun x hx => hs x (List.mem_cons_of_mem _ hx)
    have ih := percentDecode_encode set hpct t ht
    unfold percentEncode
    split
    · have h1 := hexUpper_spec (b / 16) (by omega)
      have h2 := hexUpper_spec (b % 16) (by omega)
      rw [percentDecode_escape _ _ _ h1.1 h2.1, h1.2, h2.2, ih]
      congr 1
      omega
    · rename_i hne
      have : b ≠ 37 := by
        intro h; subst h; simp [hpct] at hne
      rw [percentDecode_cons_ne _ _ this, ih]

/-- Why `%` must be in the set (finding F8): for any encode set that leaves the hex digits alone,
decoding is a left inverse of encoding exactly when the set contains `%`. -/
theorem percent_roundtrip_iff' (set : Nat → Bool) (hhex : ∀ d, isHexDigit d = true → set d = false) :
    (∀ s, IsBytes s → percentDecode (percentEncode set s) = s) ↔ set 37 = true := by
  constructor
  · intro h
    cases hp : set 37 with
    | true => rfl
    | false =>
      exfalso
      have h4 : set 52 = false := hhex 52 (by decide)
      have h1 : set 49 = false := hhex 49 (by decide)
      have := h [37, 52, 49] (by intro b hb; simp at hb; omega)
      have henc : percentEncode set [37, 52, 49] = [37, 52, 49] := by
        simp [percentEncode, hp, h4, h1]
      rw [henc, percentDecode_escape 52 49 [] (by decide) (by decide)] at this
      simp [hexVal] at this
  · exact fun h s hs => percentDecode_encode set h s hs

/-! ### No stray delimiters -/

theorem pathSet_safe : ∀ b, b < 128 → pathSet b = false → segmentUnsafe b = false := by decide

theorem hexUpper_safe : ∀ n, n < 16 → segmentUnsafe (hexUpper n) = false := by decide

theorem percentEncode_safe : ∀ (s : Str), IsBytes s → ∀ b ∈ percentEncode pathSet s, segmentUnsafe b = false
  | [], _, b, hb => by simp [percentEncode] at hb
  | c :: t, hs, b, hb => by
    have hc : c < 256 := hs c (by simp)
    have ht : IsBytes t := fun x hx => hs x (List.mem_cons_of_mem _ hx)
    unfold percentEncode at hb
    split at hb
    · simp only [List.mem_cons] at hb
      rcases hb with rfl | rfl | rfl | hb
      · decide
      · exact hexUpper_safe _ (by omega)
      · exact hexUpper_safe _ (by omega)
      · exact percentEncode_safe t ht b hb
    · rename_i hne
      simp only [Bool.or_eq_true, decide_eq_true_eq, not_or, Nat.not_le, Bool.not_eq_true] at hne
      rcases List.mem_cons.1 hb with rfl | hb
      · exact pathSet_safe _ hne.1 hne.2
      · exact percentEncode_safe t ht b hb


/-! ### Splitting and joining on `/` -/

theorem splitAux_noSep (sep : Nat) : ∀ (s : Str),
    sep ∉ (splitAux sep s).1 ∧ ∀ x ∈ (splitAux sep s).2, sep ∉ x
  | [] => by simp [splitAux]
  | b :: t => by
    have ih := splitAux_noSep sep t
    unfold splitAux
    by_cases hb : b = sep
    · simp only [hb, if_true]
      refine ⟨by simp, ?_⟩
      intro x hx
      rcases List.mem_cons.1 hx with rfl | hx
      · exact ih.1
      · exact ih.2 x hx
    · simp only [hb, if_false]
      refine ⟨?_, ih.2⟩
      intro h
      rcases List.mem_cons.1 h with h | h
      · exact hb h.symm
      · exact ih.1 h

theorem splitAux_mem (sep : Nat) : ∀ (s : Str),
    (∀ b ∈ (splitAux sep s).1, b ∈ s) ∧ ∀ x ∈ (splitAux sep s).2, ∀ b ∈ x, b ∈ s
  | [] => by simp [splitAux]
  | c :: t => by
    have ih := splitAux_mem sep t
    unfold splitAux
    by_cases hb : c = sep
    · simp only [hb, if_true]
      refine ⟨by simp, ?_⟩
      intro x hx b hbx
      rcases List.mem_cons.1 hx with rfl | hx
      · exact List.mem_cons_of_mem _ (ih.1 b hbx)
      · exact List.mem_cons_of_mem _ (ih.2 x hx b hbx)
    · simp only [hb, if_false]
      refine ⟨?_, fun x hx b hbx => List.mem_cons_of_mem _ (ih.2 x hx b hbx)⟩
      intro b hb'
      rcases List.mem_cons.1 hb' with rfl | h
      · simp
      · exact List.mem_cons_of_mem _ (ih.1 b h)

/-- A piece without separator in front of a string only extends the first piece. -/
theorem splitAux_append (sep : Nat) : ∀ (p r : Str), sep ∉ p →
    splitAux sep (p ++ r) = (p ++ (splitAux sep r).1, (splitAux sep r).2)
  | [], r, _ => by simp
  | b :: p, r, h => by
    have hb : b ≠ sep := fun e => h (by simp [e])
    have hp : sep ∉ p := fun e => h (List.mem_cons_of_mem _ e)
    simp only [List.cons_append, splitAux, hb, if_false, splitAux_append sep p r hp]

theorem splitAux_cons_sep (sep : Nat) (t : Str) :
    splitAux sep (sep :: t) = ([], (splitAux sep t).1 :: (splitAux sep t).2) := by
  rw [splitAux]; simp

theorem percentEncode_noSlash (s : Str) (hs : IsBytes s) : 47 ∉ percentEncode pathSet s := by
  intro h
  have := percentEncode_safe s hs 47 h
  simp [segmentUnsafe] at this

/-- The heart of `path_args_roundtrip`, on the segment lists. -/
theorem route_subst : ∀ (segs : List Str) (args : List Str) (p : Str),
    (∀ s ∈ segs, 47 ∉ s) → (∀ a ∈ args, IsBytes a) →
    args.length = (segs.filterMap stripColon).length →
    substSegments pathSet segs args = some p →
    ∃ pieces, splitAux 47 p = ([], pieces) ∧ pieces.length = segs.length ∧
      routeSegments segs pieces = some args
  | [], args, p, _, _, hlen, h => by
    simp only [substSegments, Option.some.injEq] at h
    subst h
    simp only [List.filterMap_nil, List.length_nil, List.length_eq_zero_iff] at hlen
    subst hlen
    exact ⟨[], rfl, rfl, rfl⟩
  | seg :: segs, args, p, hseg, hargs, hlen, h => by
    have hsegs : ∀ s ∈ segs, 47 ∉ s := fun s hs => hseg s (List.mem_cons_of_mem _ hs)
    unfold substSegments at h
    split at h
    · -- placeholder
      rename_i tl
      have hstrip : stripColon (58 :: tl) = some tl := rfl
      cases args with
      | nil => simp at h
      | cons a args' =>
        simp only [Option.map_eq_some_iff] at h
        obtain ⟨r, hr, hp⟩ := h
        subst hp
        have hlen' : args'.length = (segs.filterMap stripColon).length := by
          simp only [List.filterMap_cons, hstrip, List.length_cons] at hlen
          omega
        obtain ⟨pieces, hsp, hl, hroute⟩ := route_subst segs args' r hsegs
          (fun x hx => hargs x (List.mem_cons_of_mem _ hx)) hlen' hr
        have ha : IsBytes a := hargs a (by simp)
        refine ⟨percentEncode pathSet a :: pieces, ?_, by simp [hl], ?_⟩
        · rw [List.cons_append, splitAux_cons_sep, splitAux_append 47 _ r (percentEncode_noSlash a ha), hsp]
          simp
        · simp only [routeSegments, hroute, Option.map_some,
            percentDecode_encode pathSet (by decide) a ha]
    · -- literal segment
      rename_i hnot
      simp only [Option.map_eq_some_iff] at h
      obtain ⟨r, hr, hp⟩ := h
      subst hp
      have hnone : stripColon seg = none := by
        cases seg with
        | nil => rfl
        | cons c tl =>
          by_cases hc : c = 58
          · subst hc; exact absurd rfl (hnot tl)
          · unfold stripColon; split
            · rename_i heq; cases heq; exact absurd rfl hc
            · rfl
      have hlen' : args.length = (segs.filterMap stripColon).length := by
        simpa [List.filterMap_cons, hnone] using hlen
      obtain ⟨pieces, hsp, hl, hroute⟩ := route_subst segs args r hsegs hargs hlen' hr
      refine ⟨seg :: pieces, ?_, by simp [hl], ?_⟩
      · rw [List.cons_append, splitAux_cons_sep, splitAux_append 47 _ r (hseg seg (by simp)), hsp]
        simp
      · unfold routeSegments
        split
        · rename_i tl; exact absurd rfl (hnot tl)
        · simp [hroute]


theorem pathArgNames_eq (tmpl : Str) (h1 : (splitAux 47 tmpl).1 = []) :
    pathArgNames tmpl = (splitAux 47 tmpl).2.filterMap stripColon := by
  unfold pathArgNames splitOn
  rw [h1]
  rfl

theorem path_args_roundtrip' (tmpl : Str) (args : List Str) (p : Str)
    (hargs : ∀ a ∈ args, IsBytes a) (hlen : args.length = (pathArgNames tmpl).length)
    (h : substPath tmpl args = some p) :
    routeArgs tmpl p = some args ∧ (splitOn 47 p).length = (splitOn 47 tmpl).length := by
  unfold substPath substPathWith at h
  simp only at h
  split at h
  · cases h
  · rename_i h1
    simp only [ne_eq, Decidable.not_not] at h1
    rw [pathArgNames_eq tmpl h1] at hlen
    obtain ⟨pieces, hsp, hl, hroute⟩ := route_subst _ args p
      (fun s hs => (splitAux_noSep 47 tmpl).2 s hs) hargs hlen h
    unfold routeArgs splitOn
    rw [hsp, h1]
    refine ⟨?_, by simp [hl]⟩
    simp only [routeSegments]
    simp [hroute]

theorem substSegments_some (set : Nat → Bool) : ∀ (segs : List Str) (args : List Str),
    (segs.filterMap stripColon).length ≤ args.length → ∃ p, substSegments set segs args = some p
  | [], _, _ => ⟨[], rfl⟩
  | seg :: segs, args, h => by
    unfold substSegments
    split
    · rename_i tl
      have hstrip : stripColon (58 :: tl) = some tl := rfl
      cases args with
      | nil => simp [hstrip] at h
      | cons a args' =>
        simp only [List.filterMap_cons, hstrip, List.length_cons] at h
        obtain ⟨r, hr⟩ := substSegments_some set segs args' (by omega)
        exact ⟨47 :: percentEncode set a ++ r, by simp [hr]⟩
    · have : (segs.filterMap stripColon).length ≤ args.length := by
        rw [List.filterMap_cons] at h
        split at h
        · exact h
        · simp only [List.length_cons] at h; omega
      obtain ⟨r, hr⟩ := substSegments_some set segs args this
      exact ⟨47 :: seg ++ r, by simp [hr]⟩

/-- Neither `assert!`/`expect` of the substitution loop fires for a path that starts with `/` when
at least as many arguments as placeholders are supplied. -/
theorem substPath_some (tmpl : Str) (args : List Str) (hslash : tmpl.head? = some 47)
    (hlen : (pathArgNames tmpl).length ≤ args.length) : ∃ p, substPath tmpl args = some p := by
  cases tmpl with
  | nil => simp at hslash
  | cons c t =>
    simp only [List.head?_cons, Option.some.injEq] at hslash
    subst hslash
    have h1 : (splitAux 47 (47 :: t)).1 = [] := by rw [splitAux_cons_sep]
    unfold substPath substPathWith
    simp only [h1, ne_eq, not_true_eq_false, if_false]
    rw [pathArgNames_eq _ h1] at hlen
    exact substSegments_some pathSet _ args hlen

theorem substSegments_bytes : ∀ (segs : List Str) (args : List Str) (p : Str),
    (∀ a ∈ args, IsBytes a) → substSegments pathSet segs args = some p →
    ∀ b ∈ p, b = 47 ∨ (∃ seg ∈ segs, b ∈ seg) ∨ segmentUnsafe b = false
  | [], _, p, _, h, b, hb => by
    simp only [substSegments, Option.some.injEq] at h
    subst h; simp at hb
  | seg :: segs, args, p, hargs, h, b, hb => by
    unfold substSegments at h
    split at h
    · cases args with
      | nil => simp at h
      | cons a args' =>
        simp only [Option.map_eq_some_iff] at h
        obtain ⟨r, hr, hp⟩ := h
        subst hp
        simp only [List.cons_append, List.mem_cons, List.mem_append] at hb
        rcases hb with rfl | hb | hb
        · exact Or.inl rfl
        · exact Or.inr (Or.inr (percentEncode_safe a (hargs a (by simp)) b hb))
        · rcases substSegments_bytes segs args' r (fun x hx => hargs x (List.mem_cons_of_mem _ hx)) hr b hb
            with h | ⟨s, hs, hbs⟩ | h
          · exact Or.inl h
          · exact Or.inr (Or.inl ⟨s, List.mem_cons_of_mem _ hs, hbs⟩)
          · exact Or.inr (Or.inr h)
    · simp only [Option.map_eq_some_iff] at h
      obtain ⟨r, hr, hp⟩ := h
      subst hp
      simp only [List.cons_append, List.mem_cons, List.mem_append] at hb
      rcases hb with rfl | hb | hb
      · exact Or.inl rfl
      · exact Or.inr (Or.inl ⟨seg, by simp, hb⟩)
      · rcases substSegments_bytes segs args r hargs hr b hb with h | ⟨s, hs, hbs⟩ | h
        · exact Or.inl h
        · exact Or.inr (Or.inl ⟨s, List.mem_cons_of_mem _ hs, hbs⟩)
        · exact Or.inr (Or.inr h)

theorem url_no_stray_delims' (tmpl : Str) (args : List Str) (p : Str)
    (htmpl : ∀ b ∈ tmpl, b = 47 ∨ segmentUnsafe b = false) (hargs : ∀ a ∈ args, IsBytes a)
    (h : substPath tmpl args = some p) : ∀ b ∈ p, b = 47 ∨ segmentUnsafe b = false := by
  unfold substPath substPathWith at h
  simp only at h
  split at h
  · cases h
  · intro b hb
    rcases substSegments_bytes _ args p hargs h b hb with h | ⟨s, hs, hbs⟩ | h
    · exact Or.inl h
    · exact htmpl b ((splitAux_mem 47 tmpl).2 s hs b hbs)
    · exact Or.inr h

end Ruma.Endpoint
