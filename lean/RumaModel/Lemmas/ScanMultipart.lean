/-
  C17 helper lemmas: the `multipart/mixed` splitter of `Model/ScanMultipart.lean` neither panics nor
  runs out of fuel.
-/
import RumaModel.Model.ScanMultipart
import RumaModel.Lemmas.ScanCommon
namespace Ruma.ScanMultipart
open Ruma Ruma.Scan

/-- The line loop returns whenever its cursor is inside `[headers_start, end]`, `end` is inside the
body and the fuel covers the remaining distance. -/
theorem lineLoop_returns (bytes : Str) (end_ hs : Nat) (hend : end_ ≤ bytes.length) :
    ∀ (fuel ls : Nat), hs ≤ ls → ls ≤ end_ → end_ - ls + 1 ≤ fuel →
      (lineLoop bytes end_ hs fuel ls).Returns := by
  intro fuel
  induction fuel with
  | zero => intro ls _ _ h; omega
  | succ f ih =>
    intro ls h1 h2 h3
    unfold lineLoop
    obtain ⟨sl, hsl, hlen⟩ := bytesSlice_some (s := bytes) h2 hend
    rw [hsl]
    simp only
    cases hf : findByte 10 sl with
    | none => simp [Res.Returns]
    | some k =>
      simp only
      have hk : k < sl.length := findByte_lt hf
      have hle : k + ls + 1 ≤ end_ := by omega
      obtain ⟨line, hline, _⟩ := bytesSlice_some (s := bytes) (i := ls) (j := k + ls + 1) (by omega) (by omega)
      rw [hline]
      simp only
      split
      · obtain ⟨h, hh, _⟩ := bytesSlice_some (s := bytes) h1 (by omega : ls ≤ bytes.length)
        obtain ⟨c, hc, _⟩ := bytesSlice_some (s := bytes) hle hend
        rw [hh, hc]
        simp [Res.Returns]
      · exact ih (k + ls + 1) (by omega) hle (by omega)

/-- `parse_multipart_body_part` returns for every body whenever `start ≤ end ≤ len`. -/
theorem parsePart_returns (bytes : Str) (start end_ : Nat) (h1 : start ≤ end_) (h2 : end_ ≤ bytes.length) :
    (parsePart bytes start end_).Returns := by
  unfold parsePart
  obtain ⟨sl, hsl, hlen⟩ := bytesSlice_some (s := bytes) h1 h2
  rw [hsl]
  simp only
  cases hf : findByte 10 sl with
  | none => simp [Res.Returns]
  | some k =>
    simp only
    have hk : k < sl.length := findByte_lt hf
    exact lineLoop_returns bytes end_ (k + start + 1) h2 _ _ (Nat.le_refl _) (by omega) (Nat.le_refl _)

/-- With the positions the other way round the very first slice panics. -/
theorem parsePart_panics_of_gt (bytes : Str) (start end_ : Nat) (h : end_ < start) :
    parsePart bytes start end_ = .panic := by
  have : ¬ (start ≤ end_ ∧ end_ ≤ bytes.length) := by omega
  simp [parsePart, bytesSlice, this]

/-- A boundary without CR cannot start inside the leading `--boundary`. -/
theorem prefix_then_match_le {noCrlf body : Str} {p : Nat} (hno : 13 ∉ noCrlf)
    (hpre : noCrlf.isPrefixOf body = true) (hp : body[p]? = some 13) : noCrlf.length ≤ p := by
  obtain ⟨r, rfl⟩ := List.isPrefixOf_iff_prefix.mp hpre
  by_cases h : p < noCrlf.length
  · rw [List.getElem?_append_left h] at hp
    exact absurd (List.mem_of_getElem? hp) hno
  · omega

theorem finish_returns (E : Ext) {r : Res (Str × Str)} (hr : r.Returns) : (finish E r).Returns := by
  cases r with
  | ok x =>
    obtain ⟨hdrs, file⟩ := x
    simp only [finish]
    cases E.headers hdrs <;> simp [Res.Returns]
  | err e => simp [finish, Res.Returns]
  | panic => exact hr.elim
  | hang => exact hr.elim

theorem contentPart_returns (E : Ext) (fullLen : Nat) (body : Str) (metaEnd : Nat) (bs2 : List Nat)
    (h : ∀ q ∈ bs2, metaEnd + fullLen ≤ q ∧ q ≤ body.length) :
    (contentPart E fullLen body metaEnd bs2).Returns := by
  cases bs2 with
  | nil => simp [contentPart, Res.Returns]
  | cons contentEnd rest =>
    obtain ⟨ha, hb⟩ := h contentEnd (by simp)
    exact finish_returns E (parsePart_returns body _ contentEnd ha hb)

theorem metaPart_returns (E : Ext) (fullLen : Nat) (body : Str) (mStart metaEnd : Nat) (bs2 : List Nat)
    (h1 : mStart ≤ metaEnd) (h2 : metaEnd ≤ body.length)
    (h : ∀ q ∈ bs2, metaEnd + fullLen ≤ q ∧ q ≤ body.length) :
    (metaPart E fullLen body mStart metaEnd bs2).Returns := by
  have hp := parsePart_returns body mStart metaEnd h1 h2
  unfold metaPart
  cases hr : parsePart body mStart metaEnd with
  | ok x =>
    obtain ⟨hdrs, mb⟩ := x
    simp only
    split
    · simp [Res.Returns]
    · exact contentPart_returns E fullLen body metaEnd bs2 h
  | err e => simp [Res.Returns]
  | panic => rw [hr] at hp; exact hp.elim
  | hang => rw [hr] at hp; exact hp.elim

/-- The positions handed to the metadata part are ordered and inside the body, and every later
boundary lies behind the end boundary of the metadata part. -/
theorem metaStart_spec (boundary body : Str) (hcr : 13 ∉ boundary) {ms me : Nat} {bs2 : List Nat}
    (h : metaStart (45 :: 45 :: boundary) (fullBoundary boundary) body
      (findIter (fullBoundary boundary) body) = some (ms, me :: bs2)) :
    ms ≤ me ∧ me ≤ body.length ∧
      ∀ q ∈ bs2, me + (fullBoundary boundary).length ≤ q ∧ q ≤ body.length := by
  have hfull : fullBoundary boundary = 13 :: 10 :: 45 :: 45 :: boundary := rfl
  have hne : fullBoundary boundary ≠ [] := by simp [hfull]
  have hno : 13 ∉ (45 :: 45 :: boundary) := by simp [hcr]
  have hmem : ∀ p ∈ findIter (fullBoundary boundary) body,
      p + (fullBoundary boundary).length ≤ body.length := fun p hp => (findIter_mem hne hp).1
  have hpw := findIter_pairwise (nd := fullBoundary boundary) (hay := body) hne
  unfold metaStart at h
  split at h
  · -- no preamble: the body starts with `--boundary`
    rename_i hpre
    simp only [Option.some.injEq, Prod.mk.injEq] at h
    obtain ⟨rfl, hbs⟩ := h
    rw [hbs] at hpw
    have hin : me ∈ findIter (fullBoundary boundary) body := by rw [hbs]; simp
    have hhead : body[me]? = some 13 := by
      rw [hfull] at hin
      exact findIter_head hin
    refine ⟨prefix_then_match_le hno hpre hhead, by have := hmem me hin; omega, ?_⟩
    intro q hq
    have := hmem q (by rw [hbs]; simp [hq])
    exact ⟨(List.pairwise_cons.mp hpw).1 q hq, by omega⟩
  · cases hbs : findIter (fullBoundary boundary) body with
    | nil => rw [hbs] at h; simp at h
    | cons p0 bs1 =>
      rw [hbs] at h hpw
      simp only [Option.some.injEq, Prod.mk.injEq] at h
      obtain ⟨rfl, rfl⟩ := h
      have hp0 := List.pairwise_cons.mp hpw
      have hp1 := List.pairwise_cons.mp hp0.2
      have hin : me ∈ findIter (fullBoundary boundary) body := by rw [hbs]; simp
      refine ⟨hp0.1 me (by simp), by have := hmem me hin; omega, ?_⟩
      intro q hq
      have := hmem q (by rw [hbs]; simp [hq])
      exact ⟨hp1.1 q hq, by omega⟩

/-- **The splitter returns** (a value or an error) for every body and every boundary without CR. -/
theorem split_returns (E : Ext) (boundary body : Str) (hcr : 13 ∉ boundary) :
    (split E boundary body).Returns := by
  have hfull : fullBoundary boundary = 13 :: 10 :: 45 :: 45 :: boundary := rfl
  unfold split
  simp only [hfull]
  rw [← hfull]
  cases hm : metaStart (45 :: 45 :: boundary) (fullBoundary boundary) body
      (findIter (fullBoundary boundary) body) with
  | none => simp [Res.Returns]
  | some x =>
    obtain ⟨ms, bs1⟩ := x
    cases bs1 with
    | nil => simp [Res.Returns]
    | cons me bs2 =>
      simp only
      obtain ⟨h1, h2, h3⟩ := metaStart_spec boundary body hcr hm
      exact metaPart_returns E _ body ms me bs2 h1 h2 h3

/-! ### What `parse_multipart_body_part` returns -/

/-- Adjacent slices concatenate. -/
theorem bytesSlice_append_adj {s : Str} {i j k : Nat} (hij : i ≤ j) (hjk : j ≤ k) (hk : k ≤ s.length)
    {a b : Str} (ha : bytesSlice s i j = some a) (hb : bytesSlice s j k = some b) :
    bytesSlice s i k = some (a ++ b) := by
  unfold bytesSlice at ha hb ⊢
  have h1 : i ≤ j ∧ j ≤ s.length := ⟨hij, by omega⟩
  have h2 : j ≤ k ∧ k ≤ s.length := ⟨hjk, hk⟩
  have h3 : i ≤ k ∧ k ≤ s.length := ⟨by omega, hk⟩
  simp only [h1, h2, h3, and_self, if_true, Option.some.injEq] at ha hb ⊢
  subst ha hb
  -- (take k).drop i = (take j).drop i ++ (take k).drop j
  have e1 : s.take k = s.take j ++ (s.take k).drop j := by
    have := (List.take_append_drop j (s.take k)).symm
    rwa [List.take_take, Nat.min_eq_left hjk] at this
  conv => lhs; rw [e1]
  rw [List.drop_append_of_le_length (by simp [List.length_take]; omega)]

/-- What the line loop returns: the text from `headers_start` to `end` is
`headers ++ empty line ++ content`. -/
theorem lineLoop_ok_shape (bytes : Str) (end_ hs : Nat) (hend : end_ ≤ bytes.length) :
    ∀ (fuel ls : Nat), hs ≤ ls → ls ≤ end_ → ∀ h c, lineLoop bytes end_ hs fuel ls = .ok (h, c) →
      ∃ nl, (nl = [13, 10] ∨ nl = [10]) ∧ bytesSlice bytes hs end_ = some (h ++ nl ++ c) := by
  intro fuel
  induction fuel with
  | zero => intro ls _ _ h c hr; simp [lineLoop] at hr
  | succ f ih =>
    intro ls h1 h2 h c hr
    unfold lineLoop at hr
    obtain ⟨sl, hsl, hlen⟩ := bytesSlice_some (s := bytes) h2 hend
    rw [hsl] at hr
    simp only at hr
    cases hf : findByte 10 sl with
    | none => rw [hf] at hr; simp at hr
    | some k =>
      rw [hf] at hr
      simp only at hr
      have hk : k < sl.length := findByte_lt hf
      have hle : k + ls + 1 ≤ end_ := by omega
      obtain ⟨line, hline, _⟩ := bytesSlice_some (s := bytes) (i := ls) (j := k + ls + 1) (by omega) (by omega)
      rw [hline] at hr
      simp only at hr
      split at hr
      · rename_i hnl
        obtain ⟨hh, hhs, _⟩ := bytesSlice_some (s := bytes) h1 (by omega : ls ≤ bytes.length)
        obtain ⟨cc, hcs, _⟩ := bytesSlice_some (s := bytes) hle hend
        rw [hhs, hcs] at hr
        simp only [Res.ok.injEq, Prod.mk.injEq] at hr
        obtain ⟨rfl, rfl⟩ := hr
        refine ⟨line, hnl, ?_⟩
        have a1 := bytesSlice_append_adj h1 (by omega) (by omega) hhs hline
        exact bytesSlice_append_adj (by omega) hle hend a1 hcs
      · exact ih (k + ls + 1) (by omega) hle h c hr

/-- **What `parse_multipart_body_part` returns**: the part `bytes[start..end]` is some text without
a newline (the rest of the boundary line), a newline, the headers, an empty line (`\r\n` or `\n`)
and the content. -/
theorem parsePart_ok_shape (bytes : Str) (start end_ : Nat) (h1 : start ≤ end_) (h2 : end_ ≤ bytes.length)
    {h c : Str} (hr : parsePart bytes start end_ = .ok (h, c)) :
    ∃ pre nl, 10 ∉ pre ∧ (nl = [13, 10] ∨ nl = [10]) ∧
      bytesSlice bytes start end_ = some (pre ++ [10] ++ h ++ nl ++ c) := by
  unfold parsePart at hr
  obtain ⟨sl, hsl, hlen⟩ := bytesSlice_some (s := bytes) h1 h2
  rw [hsl] at hr
  simp only at hr
  cases hf : findByte 10 sl with
  | none => rw [hf] at hr; simp at hr
  | some k =>
    rw [hf] at hr
    simp only at hr
    obtain ⟨pre, post, rfl, hpre, rfl⟩ := Ids.find_eq_some hf
    have hle : pre.length + start + 1 ≤ end_ := by simp at hlen; omega
    obtain ⟨nl, hnl, hrest⟩ := lineLoop_ok_shape bytes end_ _ h2 _ _ (Nat.le_refl _) hle h c hr
    refine ⟨pre, nl, hpre, hnl, ?_⟩
    -- `bytes[start..end] = pre ++ 10 :: post` and `post = bytes[headers_start..end]`
    obtain ⟨a, ha, _⟩ := bytesSlice_some (s := bytes) (i := start) (j := pre.length + start + 1) (by omega) (by omega)
    have hcat := bytesSlice_append_adj (by omega) hle h2 ha hrest
    rw [hsl] at hcat
    simp only [Option.some.injEq] at hcat
    -- `a = pre ++ [10]`: both are the first `|pre| + 1` bytes of the slice
    have hal : a.length = pre.length + 1 := by
      have := bytesSlice_some (s := bytes) (i := start) (j := pre.length + start + 1) (by omega) (by omega)
      obtain ⟨a', ha', hl'⟩ := this
      rw [ha] at ha'
      simp only [Option.some.injEq] at ha'
      subst ha'
      omega
    have : a = pre ++ [10] := by
      have h3 : (pre ++ 10 :: post).take (pre.length + 1) = pre ++ [10] := by
        have : pre ++ 10 :: post = (pre ++ [10]) ++ post := by simp
        rw [this]; exact List.take_left' (by simp)
      have h4 : (a ++ (h ++ nl ++ c)).take (pre.length + 1) = a := List.take_left' hal
      rw [← hcat] at h4
      rw [h3] at h4
      exact h4.symm
    rw [hsl, hcat, this]
    simp

end Ruma.ScanMultipart
