/-
  Helper lemmas for C01, part 2: escaping, the serialiser's output against the specification's
  grammar, whitespace.
-/
import RumaModel.Lemmas.Canonical
namespace Ruma.Canonical
open Ruma Ruma.Spec.CanonicalJson

/-! ### Escaping -/

theorem hexLower_eq (n : Nat) : Canonical.hexLower n = Spec.CanonicalJson.hexLower n := by
  unfold Canonical.hexLower Spec.CanonicalJson.hexLower
  split <;> omega

theorem escapeByte_eq_charText (b : Nat) : escapeByte b = charText b := by
  unfold escapeByte charText
  simp only [hexLower_eq]

theorem escapeByte_raw_iff (b : Nat) : escapeByte b = [b] ↔ ¬ (b = 34 ∨ b = 92 ∨ b < 32) := by
  unfold escapeByte
  constructor
  · intro h
    rintro (h1 | h1 | h1)
    · subst h1; simp at h
    · subst h1; simp at h
    · repeat' split at h
      all_goals first | omega | simp at h
  · intro h
    have h1 : b ≠ 34 := fun e => h (.inl e)
    have h2 : b ≠ 92 := fun e => h (.inr (.inl e))
    have h3 : ¬ b < 32 := fun e => h (.inr (.inr e))
    have : b ≠ 8 ∧ b ≠ 12 ∧ b ≠ 10 ∧ b ≠ 13 ∧ b ≠ 9 := by omega
    simp [h1, h2, h3, this]

theorem escapeByte_escaped (b : Nat) (h : b = 34 ∨ b = 92 ∨ b < 32) :
    ∃ rest, escapeByte b = 92 :: rest ∧ rest ≠ [] := by
  unfold escapeByte
  repeat' split
  all_goals first | exact ⟨_, rfl, by simp⟩ | omega


/-! ### The serialiser's output is the specification's text in UTF-8 -/

theorem utf8Encode_append (a b : List Nat) : utf8Encode (a ++ b) = utf8Encode a ++ utf8Encode b := by
  simp [utf8Encode, List.flatMap_append]

theorem utf8Encode_cons (c : Nat) (s : List Nat) : utf8Encode (c :: s) = utf8EncodeChar c ++ utf8Encode s := by
  simp [utf8Encode]

theorem utf8Encode_ascii (l : List Nat) (h : ∀ c ∈ l, c < 128) : utf8Encode l = l := by
  induction l with
  | nil => rfl
  | cons c t ih =>
    have hc : c < 128 := h c List.mem_cons_self
    rw [utf8Encode_cons, ih (fun x hx => h x (List.mem_cons_of_mem _ hx))]
    simp [utf8EncodeChar, hc]

theorem escape_append (a b : List Nat) : escape (a ++ b) = escape a ++ escape b := by
  simp [escape, List.flatMap_append]

theorem hexLower_lt (n : Nat) (h : n < 16) : Spec.CanonicalJson.hexLower n < 128 := by
  unfold Spec.CanonicalJson.hexLower; split <;> omega

theorem charText_ascii (c : Nat) (hc : c < 128) : ∀ x ∈ charText c, x < 128 := by
  unfold charText
  have h1 := hexLower_lt (c / 16)
  have h2 := hexLower_lt (c % 16) (by omega)
  repeat' split
  all_goals (intro x hx; simp at hx)
  all_goals omega

theorem escape_raw (l : List Nat) (h : ∀ b ∈ l, 128 ≤ b) : escape l = l := by
  induction l with
  | nil => rfl
  | cons b t ih =>
    have hb : 128 ≤ b := h b List.mem_cons_self
    have : escapeByte b = [b] := (escapeByte_raw_iff b).mpr (by omega)
    rw [show b :: t = [b] ++ t from rfl, escape_append, ih (fun x hx => h x (List.mem_cons_of_mem _ hx))]
    simp [escape, this]

theorem utf8EncodeChar_high (c : Nat) (hc : 128 ≤ c) : ∀ b ∈ utf8EncodeChar c, 128 ≤ b := by
  unfold utf8EncodeChar
  have : ¬ c < 128 := by omega
  simp only [this, if_false]
  repeat' split
  all_goals (intro x hx; simp at hx)
  all_goals omega

/-- Escaping the UTF-8 bytes of a code point = UTF-8 of the grammar's text for that code point. -/
theorem escape_utf8EncodeChar (c : Nat) : escape (utf8EncodeChar c) = utf8Encode (charText c) := by
  by_cases hc : c < 128
  · rw [utf8Encode_ascii _ (charText_ascii c hc)]
    simp [utf8EncodeChar, hc, escape, escapeByte_eq_charText]
  · have h1 : charText c = [c] := by
      rw [← escapeByte_eq_charText]; exact (escapeByte_raw_iff c).mpr (by omega)
    rw [h1, escape_raw _ (utf8EncodeChar_high c (by omega))]
    simp [utf8Encode]

theorem escape_utf8Encode (s : List Nat) : escape (utf8Encode s) = utf8Encode (s.flatMap charText) := by
  induction s with
  | nil => rfl
  | cons c t ih =>
    rw [utf8Encode_cons, escape_append, ih, escape_utf8EncodeChar, List.flatMap_cons, utf8Encode_append]

theorem encodeStr_utf8Encode (s : List Nat) : encodeStr (utf8Encode s) = utf8Encode (strText s) := by
  unfold encodeStr strText
  rw [utf8Encode_cons, utf8Encode_append, escape_utf8Encode]
  simp [utf8EncodeChar, utf8Encode]

theorem digitChar_toNat (d : Nat) (h : d < 10) : (Nat.digitChar d).toNat = 48 + d := by
  have : ∀ d : Fin 10, (Nat.digitChar d.val).toNat = 48 + d.val := by decide
  exact this ⟨d, h⟩

theorem natDigits_eq_decimal (n : Nat) : natDigits n = decimal n := by
  induction n using Nat.strongRecOn with
  | ind n ih =>
    unfold natDigits
    rw [decimal, Nat.toDigits_eq_if (by decide)]
    by_cases h : n < 10
    · simp [h, digitChar_toNat n h]
    · simp only [h, if_false, List.map_append, List.map_cons, List.map_nil]
      rw [digitChar_toNat _ (Nat.mod_lt n (by decide))]
      have := ih (n / 10) (by omega)
      unfold natDigits at this
      rw [this]

theorem encodeInt_eq_intText (i : Int) : encodeInt i = intText i := by
  unfold encodeInt intText
  cases i with
  | ofNat n =>
    have : ¬ (Int.ofNat n < 0) := Int.not_lt.mpr (Int.natCast_nonneg n)
    simp only [this, if_false]
    exact natDigits_eq_decimal n
  | negSucc n =>
    have : Int.negSucc n < 0 := Int.negSucc_lt_zero n
    simp only [this, if_true]
    rw [natDigits_eq_decimal]
    congr 2

theorem decimal_ascii (n : Nat) : ∀ x ∈ decimal n, x < 128 := by
  induction n using Nat.strongRecOn with
  | ind n ih =>
    rw [decimal]
    by_cases h : n < 10
    · simp only [h, if_true]; intro x hx; simp at hx; omega
    · simp only [h, if_false]
      intro x hx
      rcases List.mem_append.mp hx with hx | hx
      · exact ih (n / 10) (by omega) x hx
      · simp at hx; omega

theorem intText_ascii (i : Int) : ∀ x ∈ intText i, x < 128 := by
  unfold intText
  split
  · intro x hx
    rcases List.mem_cons.mp hx with hx | hx
    · omega
    · exact decimal_ascii _ x hx
  · exact decimal_ascii _

mutual
theorem encode_toJVal : ∀ (v : CVal), encode v.toJVal = utf8Encode (text v)
  | .null => by decide
  | .bool true => by decide
  | .bool false => by decide
  | .int i => by
    rw [CVal.toJVal, encode, text, encodeInt_eq_intText, utf8Encode_ascii _ (intText_ascii i)]
  | .str s => by rw [CVal.toJVal, encode, text, encodeStr_utf8Encode]
  | .arr xs => by
    rw [CVal.toJVal, encode, text, encodeL_toJVal xs, utf8Encode_cons, utf8Encode_append]
    simp [utf8EncodeChar, utf8Encode]
  | .obj kvs => by
    rw [CVal.toJVal, encode, text, encodeO_toJVal kvs, utf8Encode_cons, utf8Encode_append]
    simp [utf8EncodeChar, utf8Encode]
theorem encodeL_toJVal : ∀ (xs : List CVal), encodeL (CVal.toJValL xs) = utf8Encode (elemsText xs)
  | [] => rfl
  | [v] => by rw [CVal.toJValL, CVal.toJValL, encodeL, elemsText, encode_toJVal v]
  | v :: w :: t => by
    have ih := encodeL_toJVal (w :: t)
    simp only [CVal.toJValL] at ih ⊢
    rw [encodeL, elemsText, encode_toJVal v, ih, utf8Encode_append, utf8Encode_cons]
    all_goals simp [utf8EncodeChar]
theorem encodeO_toJVal : ∀ (kvs : List (List Nat × CVal)),
    encodeO (CVal.toJValO kvs) = utf8Encode (membersText kvs)
  | [] => rfl
  | [(k, v)] => by
    rw [CVal.toJValO, CVal.toJValO, encodeO, membersText, encode_toJVal v, encodeStr_utf8Encode,
      utf8Encode_append, utf8Encode_cons]
    simp [utf8EncodeChar]
  | (k, v) :: e :: t => by
    have ih := encodeO_toJVal (e :: t)
    obtain ⟨k2, v2⟩ := e
    simp only [CVal.toJValO] at ih ⊢
    rw [encodeO, membersText, encode_toJVal v, ih, encodeStr_utf8Encode, utf8Encode_append,
      utf8Encode_append, utf8Encode_cons, utf8Encode_cons]
    all_goals simp [utf8EncodeChar]
end

/-! ### The grammar's `char` production: function and relation agree -/

theorem charText_sound (c : Nat) (hc : c ≤ 0x10FFFF) : CharText c (charText c) := by
  unfold charText
  by_cases h1 : c = 0x22
  · subst h1; exact .quote
  by_cases h2 : c = 0x5C
  · subst h2; exact .backslash
  by_cases h3 : c = 0x08
  · subst h3; exact .b
  by_cases h4 : c = 0x0C
  · subst h4; exact .f
  by_cases h5 : c = 0x0A
  · subst h5; exact .n
  by_cases h6 : c = 0x0D
  · subst h6; exact .r
  by_cases h7 : c = 0x09
  · subst h7; exact .t
  simp only [h1, h2, h3, h4, h5, h6, h7, if_false]
  by_cases h8 : c < 0x20
  · simp only [h8, if_true]
    by_cases h9 : c < 16
    · have e1 : c / 16 = 0 := by omega
      have e2 : c % 16 = c := by omega
      rw [e1, e2]
      exact .u000 c (by omega)
    · have e1 : c / 16 = 1 := by omega
      have e2 : c % 16 = c - 16 := by omega
      rw [e1, e2]
      have := CharText.u001 (c - 16) (by omega)
      rw [show 0x10 + (c - 16) = c by omega] at this
      exact this
  · simp only [h8, if_false]
    exact .unescaped c (by omega)

theorem charText_complete {c : Nat} {t : List Nat} (h : CharText c t) : t = charText c := by
  cases h with
  | unescaped _ hr =>
    unfold charText
    have : c ≠ 0x22 ∧ c ≠ 0x5C ∧ c ≠ 0x08 ∧ c ≠ 0x0C ∧ c ≠ 0x0A ∧ c ≠ 0x0D ∧ c ≠ 0x09 ∧ ¬ c < 0x20 := by omega
    simp [this]
  | quote => rfl
  | backslash => rfl
  | b => rfl
  | f => rfl
  | n => rfl
  | r => rfl
  | t => rfl
  | u000 x hx =>
    unfold charText
    have : c ≠ 0x22 ∧ c ≠ 0x5C ∧ c ≠ 0x08 ∧ c ≠ 0x0C ∧ c ≠ 0x0A ∧ c ≠ 0x0D ∧ c ≠ 0x09 ∧ c < 0x20 := by omega
    have e1 : c / 16 = 0 := by omega
    have e2 : c % 16 = c := by omega
    simp [this, e1, e2, Spec.CanonicalJson.hexLower]
  | u001 x hx =>
    unfold charText
    have : 0x10 + x ≠ 0x22 ∧ 0x10 + x ≠ 0x5C ∧ 0x10 + x ≠ 0x08 ∧ 0x10 + x ≠ 0x0C ∧ 0x10 + x ≠ 0x0A
        ∧ 0x10 + x ≠ 0x0D ∧ 0x10 + x ≠ 0x09 ∧ 0x10 + x < 0x20 := by omega
    have e1 : (0x10 + x) / 16 = 1 := by omega
    have e2 : (0x10 + x) % 16 = x := by omega
    simp [this, e1, e2, Spec.CanonicalJson.hexLower]

/-! ### No whitespace outside strings -/

theorem outside_true_raw (b : Nat) (more : List Nat) (hm : more ≠ []) (h1 : b ≠ 34) (h2 : b ≠ 92) :
    outsideStrings true (b :: more) = outsideStrings true more := by
  cases more with
  | nil => exact absurd rfl hm
  | cons c t => simp [outsideStrings, h1, h2]

theorem hexLower_ne (n : Nat) : Canonical.hexLower n ≠ 34 ∧ Canonical.hexLower n ≠ 92 := by
  unfold Canonical.hexLower; split <;> omega

theorem outside_true_escapeByte (b : Nat) (more : List Nat) (hm : more ≠ []) :
    outsideStrings true (escapeByte b ++ more) = outsideStrings true more := by
  unfold escapeByte
  have h1 := hexLower_ne (b / 16)
  have h2 := hexLower_ne (b % 16)
  cases more with
  | nil => exact absurd rfl hm
  | cons c t =>
    repeat' split
    all_goals try (simp [outsideStrings]; done)
    · simp [outsideStrings, h1, h2]
    · rename_i h34 h92 _ _ _ _ _ _
      simp [outsideStrings, h34, h92]

theorem outside_true_escape (s : Str) (rest : List Nat) :
    outsideStrings true (escape s ++ 34 :: rest) = outsideStrings false rest := by
  induction s with
  | nil =>
    cases rest with
    | nil => simp [escape, outsideStrings]
    | cons c t => simp [escape, outsideStrings]
  | cons b t ih =>
    rw [show b :: t = [b] ++ t from rfl, escape_append, List.append_assoc]
    rw [show escape [b] = escapeByte b by simp [escape]]
    rw [outside_true_escapeByte _ _ (by simp), ih]

theorem outside_encodeStr (s : Str) (rest : List Nat) :
    outsideStrings false (encodeStr s ++ rest) = outsideStrings false rest := by
  unfold encodeStr
  simp only [List.cons_append, List.append_assoc]
  rw [outsideStrings]
  simp only [if_true]
  exact outside_true_escape s rest

theorem outside_false_append (xs rest : List Nat) (h : ∀ b ∈ xs, b ≠ 34) :
    outsideStrings false (xs ++ rest) = xs ++ outsideStrings false rest := by
  induction xs with
  | nil => rfl
  | cons b t ih =>
    have hb : b ≠ 34 := h b List.mem_cons_self
    simp only [List.cons_append, outsideStrings, hb, if_false]
    rw [ih (fun x hx => h x (List.mem_cons_of_mem _ hx))]

theorem natDigits_digits (n : Nat) : ∀ b ∈ natDigits n, 48 ≤ b ∧ b ≤ 57 := by
  intro b hb
  unfold natDigits at hb
  obtain ⟨c, hc, rfl⟩ := List.mem_map.mp hb
  have := Nat.isDigit_of_mem_toDigits (by decide) (by decide) hc
  simp [Char.isDigit] at this
  have h1 : (48 : Nat) ≤ c.toNat := by
    have := this.1; exact this
  have h2 : c.toNat ≤ 57 := by
    have := this.2; exact this
  exact ⟨h1, h2⟩

theorem outside_plain (xs rest : List Nat) (h34 : ∀ b ∈ xs, b ≠ 34) (hs : ∀ b ∈ xs, IsStructural b)
    (b : Nat) (hb : b ∈ outsideStrings false (xs ++ rest)) :
    IsStructural b ∨ b ∈ outsideStrings false rest := by
  rw [outside_false_append xs rest h34] at hb
  rcases List.mem_append.mp hb with hb | hb
  · exact .inl (hs b hb)
  · exact .inr hb

theorem outside_cons (x : Nat) (rest : List Nat) (hx : x ≠ 34) (hs : IsStructural x)
    (b : Nat) (hb : b ∈ outsideStrings false (x :: rest)) :
    IsStructural b ∨ b ∈ outsideStrings false rest :=
  outside_plain [x] rest (by simp [hx]) (by simp [hs]) b hb

theorem encodeInt_structural (i : Int) : (∀ b ∈ encodeInt i, b ≠ 34) ∧ (∀ b ∈ encodeInt i, IsStructural b) := by
  unfold encodeInt
  cases i with
  | ofNat n =>
    simp only
    constructor
    · intro b hb; have := natDigits_digits n b hb; omega
    · intro b hb; have := natDigits_digits n b hb; unfold IsStructural; omega
  | negSucc n =>
    simp only
    constructor
    · intro b hb
      rcases List.mem_cons.mp hb with hb | hb
      · omega
      · have := natDigits_digits _ b hb; omega
    · intro b hb
      rcases List.mem_cons.mp hb with hb | hb
      · unfold IsStructural; omega
      · have := natDigits_digits _ b hb; unfold IsStructural; omega

mutual
theorem outside_encode : ∀ (v : JVal) (rest : List Nat) (b : Nat),
    b ∈ outsideStrings false (encode v ++ rest) → IsStructural b ∨ b ∈ outsideStrings false rest
  | .null, rest, b, hb =>
    outside_plain _ rest (by decide) (by simp [encode, bs, IsStructural]) b hb
  | .bool true, rest, b, hb =>
    outside_plain _ rest (by decide) (by simp [encode, bs, IsStructural]) b hb
  | .bool false, rest, b, hb =>
    outside_plain _ rest (by decide) (by simp [encode, bs, IsStructural]) b hb
  | .int i, rest, b, hb =>
    outside_plain _ rest (encodeInt_structural i).1 (encodeInt_structural i).2 b hb
  | .float, rest, b, hb => .inr hb
  | .str s, rest, b, hb => by
    rw [encode, outside_encodeStr] at hb; exact .inr hb
  | .arr xs, rest, b, hb => by
    rw [encode] at hb
    simp only [List.cons_append, List.append_assoc] at hb
    rcases outside_cons 91 _ (by decide) (by simp [IsStructural]) b hb with h | h
    · exact .inl h
    rcases outside_encodeL xs _ b h with h | h
    · exact .inl h
    exact outside_cons 93 _ (by decide) (by simp [IsStructural]) b h
  | .obj kvs, rest, b, hb => by
    rw [encode] at hb
    simp only [List.cons_append, List.append_assoc] at hb
    rcases outside_cons 123 _ (by decide) (by simp [IsStructural]) b hb with h | h
    · exact .inl h
    rcases outside_encodeO kvs _ b h with h | h
    · exact .inl h
    exact outside_cons 125 _ (by decide) (by simp [IsStructural]) b h
theorem outside_encodeL : ∀ (xs : List JVal) (rest : List Nat) (b : Nat),
    b ∈ outsideStrings false (encodeL xs ++ rest) → IsStructural b ∨ b ∈ outsideStrings false rest
  | [], rest, b, hb => .inr hb
  | [v], rest, b, hb => by rw [encodeL] at hb; exact outside_encode v rest b hb
  | v :: w :: t, rest, b, hb => by
    rw [encodeL] at hb
    · simp only [List.append_assoc, List.cons_append] at hb
      rcases outside_encode v _ b hb with h | h
      · exact .inl h
      rcases outside_cons 44 _ (by decide) (by simp [IsStructural]) b h with h | h
      · exact .inl h
      exact outside_encodeL (w :: t) rest b h
    · simp
theorem outside_encodeO : ∀ (kvs : List (Str × JVal)) (rest : List Nat) (b : Nat),
    b ∈ outsideStrings false (encodeO kvs ++ rest) → IsStructural b ∨ b ∈ outsideStrings false rest
  | [], rest, b, hb => .inr hb
  | [(k, v)], rest, b, hb => by
    rw [encodeO] at hb
    simp only [List.append_assoc, List.cons_append] at hb
    rw [outside_encodeStr] at hb
    rcases outside_cons 58 _ (by decide) (by simp [IsStructural]) b hb with h | h
    · exact .inl h
    exact outside_encode v rest b h
  | (k, v) :: e :: t, rest, b, hb => by
    rw [encodeO] at hb
    · simp only [List.append_assoc, List.cons_append] at hb
      rw [outside_encodeStr] at hb
      rcases outside_cons 58 _ (by decide) (by simp [IsStructural]) b hb with h | h
      · exact .inl h
      rcases outside_encode v _ b h with h | h
      · exact .inl h
      rcases outside_cons 44 _ (by decide) (by simp [IsStructural]) b h with h | h
      · exact .inl h
      exact outside_encodeO (e :: t) rest b h
    · simp
end

/-- No byte of the output is a control character (so no tab, line feed or carriage return
anywhere, not even inside strings). -/
theorem escapeByte_ge (b : Nat) : ∀ x ∈ escapeByte b, 32 ≤ x := by
  unfold escapeByte
  have h1 : 32 ≤ Canonical.hexLower (b / 16) := by unfold Canonical.hexLower; split <;> omega
  have h2 : 32 ≤ Canonical.hexLower (b % 16) := by unfold Canonical.hexLower; split <;> omega
  repeat' split
  all_goals (intro x hx; simp at hx)
  all_goals omega

end Ruma.Canonical
