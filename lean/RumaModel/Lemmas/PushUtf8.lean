/-
  C12 — why modelling text as code points is faithful to the byte-indexed Rust code: UTF-8 is
  self-synchronising, so the byte-level `str::find` of a valid needle in a valid haystack finds
  exactly the code-point-level occurrences, and its result is a character boundary.
  (Lean's `String` is, like Rust's `str`, a validated UTF-8 byte array; `List.utf8Encode` is core.)
-/
import RumaModel.Lemmas.PushWord
namespace Ruma.Push
open String

theorem ByteArray_append_cancel_of_size {a b c d : ByteArray} (h : a ++ b = c ++ d) (hs : a.size = c.size) :
    a = c ∧ b = d := by
  have h1 : a = c := by
    have := congrArg (fun x => x.extract 0 a.size) h
    simp only [ByteArray.extract_append_eq_left rfl] at this
    rw [hs, ByteArray.extract_append_eq_left rfl] at this
    exact this
  subst h1
  exact ⟨rfl, (ByteArray.append_right_inj a).1 h⟩

/-- Self-synchronisation of UTF-8: wherever the bytes of a non-empty text `cp` occur inside the
bytes of a text `cs`, the occurrence starts and ends on character boundaries and is an occurrence
of `cp` in `cs` as a list of characters. -/
theorem utf8_occurrence (cs cp : List Char) (hcp : cp ≠ []) (pre post : ByteArray)
    (h : cs.utf8Encode = pre ++ cp.utf8Encode ++ post) :
    ∃ a b : List Char, cs = a ++ cp ++ b ∧ a.utf8Encode = pre ∧ b.utf8Encode = post := by
  let s := String.ofList cs
  let p : Pos.Raw := ⟨pre.size⟩
  have hsb : s.toByteArray = pre ++ cp.utf8Encode ++ post := by simp [s, h]
  have hcpsize : 0 < cp.utf8Encode.size := by
    cases cp with
    | nil => exact absurd rfl hcp
    | cons c t =>
      rw [List.utf8Encode_cons]
      have := c.utf8Size_pos
      simp [List.utf8Encode_singleton]; omega
  have hvalid : p.IsValid s := by
    rw [Pos.Raw.isValid_iff_isUTF8FirstByte]
    right
    have hlt : p < s.rawEndPos := by
      simp [Pos.Raw.lt_iff, p, ← size_toByteArray, hsb]
      omega
    refine ⟨hlt, ?_⟩
    have hfirst := (ByteArray.isValidUTF8_utf8Encode (l := cp)).isUTF8FirstByte_getElem_zero hcpsize
    have hidx : pre.size < (pre ++ cp.utf8Encode ++ post).size := by simp; omega
    have hbyte : (pre ++ cp.utf8Encode ++ post)[pre.size]'hidx = cp.utf8Encode[0] := by
      rw [ByteArray.getElem_append_left (by simp; omega), ByteArray.getElem_append_right (Nat.le_refl _)]
      simp
    have hget : s.getUTF8Byte p hlt = (pre ++ cp.utf8Encode ++ post)[pre.size]'hidx := by
      simp only [getUTF8Byte, p]
      congr 1
    rw [hget, hbyte]; exact hfirst
  obtain ⟨s₁, s₂, hs, hp⟩ := Pos.Raw.isValid_iff_exists_append.1 hvalid
  have hs₁size : s₁.toByteArray.size = pre.size := by
    have := congrArg Pos.Raw.byteIdx hp
    simpa [p, ← size_toByteArray] using this.symm
  have hbytes : s₁.toByteArray ++ s₂.toByteArray = pre ++ (cp.utf8Encode ++ post) := by
    rw [← ByteArray.append_assoc, ← hsb, hs]; simp
  obtain ⟨e1, e2⟩ := ByteArray_append_cancel_of_size hbytes hs₁size
  have hpre : cp <+: s₂.toList :=
    List.isPrefix_of_utf8Encode_append_eq_utf8Encode post (by rw [String.utf8Encode_toList]; exact e2.symm)
  obtain ⟨b, hb⟩ := hpre
  refine ⟨s₁.toList, b, ?_, ?_, ?_⟩
  · have := congrArg String.toList hs
    simp only [s, String.toList_ofList, String.toList_append] at this
    rw [this, ← hb, List.append_assoc]
  · rw [String.utf8Encode_toList]; exact e1
  · have : s₂.toList.utf8Encode = cp.utf8Encode ++ post := by rw [String.utf8Encode_toList]; exact e2
    rw [← hb, List.utf8Encode_append] at this
    exact (ByteArray.append_right_inj _).1 this

/-- `str::find(pat)` on the UTF-8 bytes, as a statement: `k` is the offset of the first place where
the bytes of `cp` occur in the bytes of `cs`. -/
def IsFirstByteOcc (cp cs : List Char) (k : Nat) : Prop :=
  (∃ pre post : ByteArray, cs.utf8Encode = pre ++ cp.utf8Encode ++ post ∧ pre.size = k) ∧
  ∀ pre' post' : ByteArray, cs.utf8Encode = pre' ++ cp.utf8Encode ++ post' → k ≤ pre'.size

/-- The code-point-level `findSub` of the model is Rust's byte-level `str::find`: the split it
returns is at the byte offset of the first byte-level occurrence (which is therefore a character
boundary, with `rest` the text from there on), and it returns `none` exactly when the needle's
bytes occur nowhere. -/
theorem findSub_is_byte_find (cp cs : List Char) (hcp : cp ≠ []) :
    (∀ a rest, findSub cp cs = some (a, rest) →
        cs = a ++ rest ∧ IsFirstByteOcc cp cs a.utf8Encode.size) ∧
    (findSub cp cs = none → ¬ ∃ pre post : ByteArray, cs.utf8Encode = pre ++ cp.utf8Encode ++ post) := by
  constructor
  · intro a rest h
    obtain ⟨hs, hpre, hfirst⟩ := findSub_some h
    obtain ⟨b, hb⟩ := hpre
    refine ⟨hs, ⟨a.utf8Encode, b.utf8Encode, ?_, rfl⟩, ?_⟩
    · rw [hs, ← hb]; simp [List.utf8Encode_append, ByteArray.append_assoc]
    · intro pre' post' h'
      obtain ⟨a', b', hs', ha', _⟩ := utf8_occurrence cs cp hcp pre' post' h'
      have hle := hfirst a' b' hs'
      have hp1 : a <+: cs := ⟨rest, hs.symm⟩
      have hp2 : a' <+: cs := ⟨cp ++ b', by rw [hs']; simp⟩
      obtain ⟨x, hx⟩ := List.prefix_of_prefix_length_le hp1 hp2 hle
      rw [← ha', ← hx, List.utf8Encode_append]
      simp
  · intro h ⟨pre, post, hb⟩
    obtain ⟨a, b, hs, _, _⟩ := utf8_occurrence cs cp hcp pre post hb
    exact findSub_none h a b hs
end Ruma.Push
