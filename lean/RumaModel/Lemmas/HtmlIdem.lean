/-
  Lemmas for C15 (sanitization is idempotent; clean documents are fixpoints; deprecated markup is
  rewritten): monotonicity of `node_action` in the depth, "a clean tree is left alone", "the
  output is clean" under the explicit `Settled` hypothesis, and the decidable form of `Settled`.
  Core Lean only.
-/
import RumaModel.Lemmas.HtmlTree
namespace Ruma.Lemmas.Html
open Ruma Ruma.Html Ruma.Spec.HtmlPolicy

/-! ### predicates on trees -/

mutual
theorem allElems_congr (p q : Nat → Str → List Attr → Prop) (h : ∀ d n as, p d n as ↔ q d n as) :
    ∀ (node : Node) (d : Nat), AllElems p d node ↔ AllElems q d node
  | .text _, _ => by simp [AllElems]
  | .other, _ => by simp [AllElems]
  | .elem n as cs, d => by
    simp only [AllElems, h d n as, allElemsL_congr p q h cs (d + 1)]
theorem allElemsL_congr (p q : Nat → Str → List Attr → Prop) (h : ∀ d n as, p d n as ↔ q d n as) :
    ∀ (l : List Node) (d : Nat), AllElemsL p d l ↔ AllElemsL q d l
  | [], _ => by simp [AllElemsL]
  | n :: t, d => by
    simp only [AllElemsL, allElems_congr p q h n d, allElemsL_congr p q h t d]
end

mutual
theorem allElems_and (p q : Nat → Str → List Attr → Prop) :
    ∀ (node : Node) (d : Nat), AllElems (fun d n as => p d n as ∧ q d n as) d node ↔
      AllElems p d node ∧ AllElems q d node
  | .text _, _ => by simp [AllElems]
  | .other, _ => by simp [AllElems]
  | .elem n as cs, d => by
    simp only [AllElems, allElemsL_and p q cs (d + 1)]
    constructor
    · rintro ⟨⟨a, b⟩, c, e⟩; exact ⟨⟨a, c⟩, b, e⟩
    · rintro ⟨⟨a, c⟩, b, e⟩; exact ⟨⟨a, b⟩, c, e⟩
theorem allElemsL_and (p q : Nat → Str → List Attr → Prop) :
    ∀ (l : List Node) (d : Nat), AllElemsL (fun d n as => p d n as ∧ q d n as) d l ↔
      AllElemsL p d l ∧ AllElemsL q d l
  | [], _ => by simp [AllElemsL]
  | n :: t, d => by
    simp only [AllElemsL, allElems_and p q n d, allElemsL_and p q t d]
    constructor
    · rintro ⟨⟨a, b⟩, c, e⟩; exact ⟨⟨a, c⟩, b, e⟩
    · rintro ⟨⟨a, c⟩, b, e⟩; exact ⟨⟨a, b⟩, c, e⟩
end

/-! ### `node_action` and the depth -/

theorem depthExceeded_mono (L : Lists) (c : Cfg) (d d' : Nat) (h : d' ≤ d)
    (hd : depthExceeded L c d = false) : depthExceeded L c d' = false := by
  unfold depthExceeded at *
  cases hm : maxDepthValue L c with
  | none => rfl
  | some m =>
    simp only [hm, decide_eq_false_iff_not, ge_iff_le, Nat.not_le] at hd ⊢
    omega

/-- An element that is kept with `depth` element ancestors is kept with fewer (the first pass
counts ignored ancestors, the second pass no longer sees them). -/
theorem nodeAction_none_mono (L : Lists) (c : Cfg) (n : Str) (as : List Attr) (d d' : Nat)
    (h : d' ≤ d) (ha : nodeAction L c n as d = .none) : nodeAction L c n as d' = .none := by
  rw [nodeAction_none_iff] at ha ⊢
  obtain ⟨h1, h2, h3, h4⟩ := ha
  refine ⟨?_, h2, h3, h4⟩
  rw [removeCheck_eq] at h1 ⊢
  simp only [Bool.or_eq_false_iff] at h1 ⊢
  exact ⟨h1.1, depthExceeded_mono L c d d' h h1.2⟩

/-! ### a clean tree is left alone -/

/-- An element that satisfies `Keeps` gets `NodeAction::None` and keeps all its attributes. -/
theorem keeps_fix (L : Lists) (c : Cfg) (d : Nat) (n : Str) (as : List Attr)
    (h : Keeps L c d n as) : nodeAction L c n as d = .none ∧ cleanAttrs L c n as = as := by
  obtain ⟨he, hd, ha⟩ := h
  constructor
  · rw [nodeAction_none_iff]
    simp only [elemOk, Bool.and_eq_true, Bool.not_eq_true'] at he
    refine ⟨?_, he.1.2, ?_, fun a h => (ha a h).2.1⟩
    · rw [removeCheck_eq, he.1.1, Bool.false_or]
      unfold depthExceeded
      cases hm : maxDepthValue L c with
      | none => rfl
      | some m => have := hd m hm; simp only [decide_eq_false_iff_not, ge_iff_le, Nat.not_le]; exact this
    · simpa [allowCheck, elemListed] using he.2
  · apply cleanAttrs_fix
    intro a h
    exact (attrGood_iff L c n a).2 ⟨(ha a h).1, (ha a h).2.2⟩

mutual
/-- `clean_node` returns a node of an already clean tree (at its true depth) as it is. -/
theorem cleanNode_fix (L : Lists) (c : Cfg) : ∀ (node : Node) (d : Nat),
    AllElems (CleanElem L c) d node → NoOther node → cleanNode L c d node = [node]
  | .text s, _, _, _ => by simp [cleanNode]
  | .other, _, _, h => by simp [NoOther] at h
  | .elem n as cs, d, h, ho => by
    simp only [AllElems] at h
    obtain ⟨⟨hk, hn, ha⟩, hcs⟩ := h
    simp only [NoOther] at ho
    have hf := keeps_fix L c d n as hk
    simp only [cleanNode, hn, ha, hf.1, hf.2, cleanList_fix L c cs (d + 1) hcs ho]
theorem cleanList_fix (L : Lists) (c : Cfg) : ∀ (l : List Node) (d : Nat),
    AllElemsL (CleanElem L c) d l → NoOtherL l → cleanList L c d l = l
  | [], _, _, _ => by simp [cleanList]
  | n :: t, d, h, ho => by
    simp only [AllElemsL] at h
    simp only [NoOtherL] at ho
    simp only [cleanList, cleanNode_fix L c n d h.1 ho.1, cleanList_fix L c t d h.2 ho.2,
      List.singleton_append]
end

mutual
/-- If the tree with the documented replacements applied is clean, `clean_node` returns exactly
that: it only rewrites. -/
theorem cleanNode_rewrites (L : Lists) (c : Cfg) : ∀ (node : Node) (d : Nat),
    AllElems (Keeps L c) d (rewrite L c node) → NoOther node →
    cleanNode L c d node = [rewrite L c node]
  | .text s, _, _, _ => by simp [cleanNode, rewrite]
  | .other, _, _, h => by simp [NoOther] at h
  | .elem n as cs, d, h, ho => by
    simp only [rewrite, AllElems] at h
    simp only [NoOther] at ho
    have hf := keeps_fix L c d _ _ h.1
    simp only [cleanNode, rewrite, hf.1, hf.2, cleanList_rewrites L c cs (d + 1) h.2 ho]
theorem cleanList_rewrites (L : Lists) (c : Cfg) : ∀ (l : List Node) (d : Nat),
    AllElemsL (Keeps L c) d (rewriteL L c l) → NoOtherL l →
    cleanList L c d l = rewriteL L c l
  | [], _, _, _ => by simp [cleanList, rewriteL]
  | n :: t, d, h, ho => by
    simp only [rewriteL, AllElemsL] at h
    simp only [NoOtherL] at ho
    simp only [cleanList, rewriteL, cleanNode_rewrites L c n d h.1 ho.1,
      cleanList_rewrites L c t d h.2 ho.2, List.singleton_append]
end

/-! ### the output is clean, for settled configurations -/

/-- The element has a table of attribute replacements (configuration list or mode list): the
condition under which `apply_replacements` rebuilds the attribute set. -/
def hasAttrRepl (L : Lists) (c : Cfg) (n : Str) : Bool :=
  (c.replaceAttrs.bind (fun l => mapGet l.content n)).isSome ||
  (if !isOverride c.replaceAttrs && c.useStrict then mapGet L.deprecatedAttrs n else none).isSome

theorem replaceAttrsOf_of_not (L : Lists) (c : Cfg) (n : Str) (as : List Attr)
    (h : hasAttrRepl L c n = false) : replaceAttrsOf L c n as = as := by
  unfold hasAttrRepl at h
  unfold replaceAttrsOf
  simp only [h, Bool.false_eq_true, if_false]

/-- The replacement tables are settled: an element that may remain in the output is not itself
the subject of a replacement (a replacement's target is not replaced again, and is not renamed
back), has no attribute replacement table, and its `class` attribute — whose value the class
filter rewrites after the scheme check — carries no scheme restriction. -/
def Settled (L : Lists) (c : Cfg) : Prop :=
  ∀ n, elemOk L c n = true →
    replaceNameOf L c n = n ∧ hasAttrRepl L c n = false ∧
    ∀ v, valueOk L c n className v = true

/-- What the first pass leaves of an element it keeps satisfies `CleanElem` at every depth up to
the depth the first pass counted. -/
theorem cleanElem_of_none (L : Lists) (c : Cfg) (hs : Settled L c) (dOut dIn : Nat) (n : Str)
    (as : List Attr) (hle : dOut ≤ dIn) (h : nodeAction L c n as dIn = .none) :
    CleanElem L c dOut n (cleanAttrs L c n as) := by
  have he := elemOk_of_none L c n as dIn h
  obtain ⟨hn, hr, hc⟩ := hs n he
  refine ⟨⟨he, ?_, ?_⟩, hn, replaceAttrsOf_of_not L c n _ hr⟩
  · intro m hm
    exact Nat.lt_of_le_of_lt hle (depth_of_none L c n as dIn m h hm)
  · intro a ha
    have hg := (attrGood_iff L c n a).1 (cleanAttrs_good L c n as a ha)
    refine ⟨hg.1, ?_, hg.2⟩
    by_cases hcl : a.name = className
    · rw [hcl]; exact hc a.value
    · exact ((nodeAction_none_iff L c n as dIn).1 h).2.2.2 a (cleanAttrs_origin L c n as a ha hcl)

/-! ### the decidable form of `Settled` -/

theorem mapGet_none_of_not_mem {α : Type} (m : List (Str × α)) (k : Str)
    (h : k ∉ m.map (·.1)) : mapGet m k = none := by
  induction m with
  | nil => rfl
  | cons p t ih =>
    obtain ⟨k', v⟩ := p
    simp only [List.map_cons, List.mem_cons, not_or] at h
    simp only [mapGet, ih h.2]
    simp [Ne.symm h.1]

/-- Element names some table of the configuration or of the static lists mentions as the subject
of a replacement or of a scheme list: for every other name `Settled` holds trivially. -/
def settledCandidates (L : Lists) (c : Cfg) : List Str :=
  (match c.replaceElements with | some l => l.content.map (·.1) | none => []) ++
  L.deprecatedElements.map (·.1) ++
  (match c.replaceAttrs with | some l => l.content.map (·.1) | none => []) ++
  L.deprecatedAttrs.map (·.1) ++
  (match c.denySchemes with | some l => l.map (·.1) | none => []) ++
  (match c.allowSchemes with | some l => l.content.map (·.1) | none => []) ++
  L.schemesStrict.map (·.1) ++ L.schemesCompat.map (·.1)

/-- No value of `class` on `n` can be rejected by a scheme list. -/
def classFree (L : Lists) (c : Cfg) (n : Str) : Bool :=
  (match (c.denySchemes.bind (mapGet · n)).bind (mapGet · className) with
    | some l => l.isEmpty
    | none => true) &&
  (schemeList L c n className).isNone

theorem classFree_valueOk (L : Lists) (c : Cfg) (n : Str) (h : classFree L c n = true) (v : Str) :
    valueOk L c n className v = true := by
  unfold classFree at h
  simp only [Bool.and_eq_true, Option.isNone_iff_eq_none] at h
  rw [valueOk_eq_model, denied_eq_model, h.2]
  simp only [schemesPass, Bool.and_true, Bool.not_eq_true']
  cases hd : (c.denySchemes.bind (mapGet · n)).bind (mapGet · className) with
  | none => rfl
  | some l =>
    have := h.1
    rw [hd] at this
    simp only [List.isEmpty_iff] at this
    simp [schemesHit, this]

/-- `Settled`, checked on the finitely many names that any table mentions. -/
def settledB (L : Lists) (c : Cfg) : Bool :=
  (settledCandidates L c).all (fun n =>
    !elemOk L c n || (replaceNameOf L c n == n && !hasAttrRepl L c n && classFree L c n))

theorem settled_of_settledB (L : Lists) (c : Cfg) (h : settledB L c = true) : Settled L c := by
  intro n he
  by_cases hm : n ∈ settledCandidates L c
  · unfold settledB at h
    rw [List.all_eq_true] at h
    have := h n hm
    simp only [he, Bool.not_true, Bool.false_or, Bool.and_eq_true, beq_iff_eq, Bool.not_eq_true'] at this
    exact ⟨this.1.1, this.1.2, classFree_valueOk L c n this.2⟩
  · -- a name no table mentions: no lookup finds anything
    unfold settledCandidates at hm
    simp only [List.mem_append, not_or] at hm
    obtain ⟨⟨⟨⟨⟨⟨⟨h1, h2⟩, h3⟩, h4⟩, h5⟩, h6⟩, h7⟩, h8⟩ := hm
    have e1 : c.replaceElements.bind (fun l => mapGet l.content n) = none := by
      cases hc : c.replaceElements with
      | none => rfl
      | some l => rw [hc] at h1; exact mapGet_none_of_not_mem _ _ h1
    have e2 : mapGet L.deprecatedElements n = none := mapGet_none_of_not_mem _ _ h2
    have e3 : c.replaceAttrs.bind (fun l => mapGet l.content n) = none := by
      cases hc : c.replaceAttrs with
      | none => rfl
      | some l => rw [hc] at h3; exact mapGet_none_of_not_mem _ _ h3
    have e4 : mapGet L.deprecatedAttrs n = none := mapGet_none_of_not_mem _ _ h4
    have e5 : c.denySchemes.bind (mapGet · n) = none := by
      cases hc : c.denySchemes with
      | none => rfl
      | some l => rw [hc] at h5; exact mapGet_none_of_not_mem _ _ h5
    have e6 : c.allowSchemes.bind (fun l => mapGet l.content n) = none := by
      cases hc : c.allowSchemes with
      | none => rfl
      | some l => rw [hc] at h6; exact mapGet_none_of_not_mem _ _ h6
    have e7 : mapGet L.schemesStrict n = none := mapGet_none_of_not_mem _ _ h7
    have e8 : mapGet L.schemesCompat n = none := mapGet_none_of_not_mem _ _ h8
    refine ⟨?_, ?_, ?_⟩
    · simp [replaceNameOf, e1, e2]
    · simp [hasAttrRepl, e3, e4]
    · intro v
      apply classFree_valueOk
      simp [classFree, e5, schemeList_eq_model, schemeCtx, attrSchemes, e6, e7, e8]

end Ruma.Lemmas.Html
