/-
  C17 helper lemmas about well-formed UTF-8 (`Ids.utf8Valid`): well-formedness splits at every
  position that is not followed by a continuation byte, and a well-formed prefix leaves a well-formed
  rest. These turn "the needle is valid UTF-8" into "the match ends on a char boundary".
-/
import RumaModel.Model.ScanCommon
import RumaModel.Lemmas.Ids
namespace Ruma.Scan
open Ruma Ruma.Ids

/-- The rest after a well-formed prefix of a well-formed string is well-formed. -/
theorem utf8Valid_of_append_left : ∀ (n : Nat) (p b : Str), p.length ≤ n →
    utf8Valid (p ++ b) = true → utf8Valid p = true → utf8Valid b = true := by
  intro n
  induction n with
  | zero =>
    intro p b hn h _
    have : p = [] := List.length_eq_zero_iff.mp (by omega)
    subst this; simpa using h
  | succ n ih =>
    intro p b hn h hp
    match p, hn, h, hp with
    | [], _, h, _ => simpa using h
    | b0 :: p', hn, h, hp =>
      simp only [List.cons_append] at h
      unfold utf8Valid at h hp
      by_cases h1 : b0 < 128
      · simp only [h1, if_true] at h hp
        exact ih p' b (by simp at hn; omega) h hp
      · simp only [h1, if_false] at h hp
        by_cases h2 : 194 ≤ b0 ∧ b0 ≤ 223
        · simp only [h2, and_self, if_true] at h hp
          match p', hn, h, hp with
          | c1 :: p'', hn, h, hp =>
            simp only [List.cons_append, Bool.and_eq_true] at h hp
            exact ih p'' b (by simp at hn; omega) h.2 hp.2
        · simp only [h2, if_false] at h hp
          by_cases h3 : 224 ≤ b0 ∧ b0 ≤ 239
          · simp only [h3, and_self, if_true] at h hp
            match p', hn, h, hp with
            | c1 :: c2 :: p'', hn, h, hp =>
              simp only [List.cons_append, Bool.and_eq_true] at h hp
              exact ih p'' b (by simp at hn; omega) h.2 hp.2
          · simp only [h3, if_false] at h hp
            by_cases h4 : 240 ≤ b0 ∧ b0 ≤ 244
            · simp only [h4, and_self, if_true] at h hp
              match p', hn, h, hp with
              | c1 :: c2 :: c3 :: p'', hn, h, hp =>
                simp only [List.cons_append, Bool.and_eq_true] at h hp
                exact ih p'' b (by simp at hn; omega) h.2 hp.2
            · simp [h4] at hp

theorem utf8Valid_append_left {p b : Str} (h : utf8Valid (p ++ b) = true) (hp : utf8Valid p = true) :
    utf8Valid b = true :=
  utf8Valid_of_append_left p.length p b (Nat.le_refl _) h hp

/-- A well-formed string splits into well-formed halves at every position whose next byte (if any) is
not a continuation byte. -/
theorem utf8Valid_split_aux : ∀ (n : Nat) (a r : Str), a.length ≤ n →
    utf8Valid (a ++ r) = true → (∀ c t, r = c :: t → isCont c = false) →
    utf8Valid a = true ∧ utf8Valid r = true := by
  intro n
  induction n with
  | zero =>
    intro a r hn h _
    have : a = [] := List.length_eq_zero_iff.mp (by omega)
    subst this
    exact ⟨by simp [utf8Valid], by simpa using h⟩
  | succ n ih =>
    intro a r hn h hr
    match a, hn, h with
    | [], _, h => exact ⟨by simp [utf8Valid], by simpa using h⟩
    | b0 :: a', hn, h =>
      simp only [List.cons_append] at h
      have hn' : a'.length ≤ n := by simp at hn; omega
      unfold utf8Valid at h
      by_cases h1 : b0 < 128
      · simp only [h1, if_true] at h
        obtain ⟨ha, hr'⟩ := ih a' r hn' h hr
        exact ⟨by unfold utf8Valid; simp [h1, ha], hr'⟩
      · simp only [h1, if_false] at h
        by_cases h2 : 194 ≤ b0 ∧ b0 ≤ 223
        · simp only [h2, and_self, if_true] at h
          match a', hn', h with
          | [], _, h =>
            exfalso
            simp only [List.nil_append] at h
            match r, h, hr with
            | c1 :: t1, h, hr =>
              simp only [Bool.and_eq_true] at h
              have := hr c1 t1 rfl
              simp [this] at h
          | c1 :: a'', hn', h =>
            simp only [List.cons_append, Bool.and_eq_true] at h
            obtain ⟨ha, hr'⟩ := ih a'' r (by simp at hn'; omega) h.2 hr
            exact ⟨by unfold utf8Valid; simp [h1, h2, h.1, ha], hr'⟩
        · simp only [h2, if_false] at h
          by_cases h3 : 224 ≤ b0 ∧ b0 ≤ 239
          · simp only [h3, and_self, if_true] at h
            match a', hn', h with
            | [], _, h =>
              exfalso
              simp only [List.nil_append] at h
              match r, h, hr with
              | c1 :: c2 :: t2, h, hr =>
                simp only [Bool.and_eq_true] at h
                have := hr c1 (c2 :: t2) rfl
                simp [this] at h
            | [c1], _, h =>
              exfalso
              simp only [List.cons_append, List.nil_append] at h
              match r, h, hr with
              | c2 :: t2, h, hr =>
                simp only [Bool.and_eq_true] at h
                have := hr c2 t2 rfl
                simp [this] at h
            | c1 :: c2 :: a'', hn', h =>
              simp only [List.cons_append, Bool.and_eq_true] at h
              obtain ⟨ha, hr'⟩ := ih a'' r (by simp at hn'; omega) h.2 hr
              exact ⟨by unfold utf8Valid; simp [h1, h2, h3, h.1, ha], hr'⟩
          · simp only [h3, if_false] at h
            by_cases h4 : 240 ≤ b0 ∧ b0 ≤ 244
            · simp only [h4, and_self, if_true] at h
              match a', hn', h with
              | [], _, h =>
                exfalso
                simp only [List.nil_append] at h
                match r, h, hr with
                | c1 :: c2 :: c3 :: t3, h, hr =>
                  simp only [Bool.and_eq_true] at h
                  have := hr c1 (c2 :: c3 :: t3) rfl
                  simp [this] at h
              | [c1], _, h =>
                exfalso
                simp only [List.cons_append, List.nil_append] at h
                match r, h, hr with
                | c2 :: c3 :: t3, h, hr =>
                  simp only [Bool.and_eq_true] at h
                  have := hr c2 (c3 :: t3) rfl
                  simp [this] at h
              | [c1, c2], _, h =>
                exfalso
                simp only [List.cons_append, List.nil_append] at h
                match r, h, hr with
                | c3 :: t3, h, hr =>
                  simp only [Bool.and_eq_true] at h
                  have := hr c3 t3 rfl
                  simp [this] at h
              | c1 :: c2 :: c3 :: a'', hn', h =>
                simp only [List.cons_append, Bool.and_eq_true] at h
                obtain ⟨ha, hr'⟩ := ih a'' r (by simp at hn'; omega) h.2 hr
                exact ⟨by unfold utf8Valid; simp [h1, h2, h3, h4, h.1, ha], hr'⟩
            · simp [h4] at h

theorem utf8Valid_split {a r : Str} (h : utf8Valid (a ++ r) = true)
    (hr : ∀ c t, r = c :: t → isCont c = false) : utf8Valid a = true ∧ utf8Valid r = true :=
  utf8Valid_split_aux a.length a r (Nat.le_refl _) h hr

/-- The head of a non-empty well-formed string is not a continuation byte (as a statement about
every way of writing it as `c :: t`). -/
theorem head_not_cont {r : Str} (h : utf8Valid r = true) : ∀ c t, r = c :: t → isCont c = false := by
  intro c t e
  subst e
  exact not_isCont_head_of_utf8Valid h

end Ruma.Scan
