/-
  C14/C15 — the glob relation on code points (`Spec/HtmlGlob.lean`): its decision procedure, the
  model of `WildMatch::matches` (`Model/Html.lean`, `globMatch`), and the relation `Glob` of
  `Spec/Glob.lean` on `List Char`. Core Lean only.
-/
import RumaModel.Spec.HtmlGlob
import RumaModel.Spec.Glob
import RumaModel.Model.Html
namespace Ruma.Lemmas.HtmlGlob
open Ruma Ruma.Html Ruma.Spec.HtmlGlob

theorem anySuffix_iff (f : Str → Bool) (s : Str) :
    anySuffix f s = true ↔ ∃ u t, s = u ++ t ∧ f t = true := by
  induction s with
  | nil =>
    simp only [anySuffix]
    constructor
    · intro h; exact ⟨[], [], rfl, h⟩
    · rintro ⟨u, t, h, hf⟩
      have : t = [] := by
        have := congrArg List.length h; simp at this; exact List.eq_nil_of_length_eq_zero (by omega)
      subst this; exact hf
  | cons c s ih =>
    simp only [anySuffix, Bool.or_eq_true, ih]
    constructor
    · rintro (h | ⟨u, t, rfl, hf⟩)
      · exact ⟨[], c :: s, rfl, h⟩
      · exact ⟨c :: u, t, rfl, hf⟩
    · rintro ⟨u, t, h, hf⟩
      cases u with
      | nil => left; simp at h; subst h; exact hf
      | cons a u =>
        right
        simp only [List.cons_append, List.cons.injEq] at h
        exact ⟨u, t, h.2, hf⟩

theorem GlobCp_cons_inv {a : Nat} {p s : Str} (h : GlobCp (a :: p) s) :
    (a = 42 ∧ ∃ u t, s = u ++ t ∧ GlobCp p t) ∨ (a = 63 ∧ ∃ c t, s = c :: t ∧ GlobCp p t) ∨
    (a ≠ 42 ∧ a ≠ 63 ∧ ∃ t, s = a :: t ∧ GlobCp p t) := by
  cases h with
  | star _ u t h => exact Or.inl ⟨rfl, u, t, rfl, h⟩
  | one _ c t h => exact Or.inr (Or.inl ⟨rfl, c, t, rfl, h⟩)
  | lit _ _ t h1 h2 h => exact Or.inr (Or.inr ⟨h1, h2, t, rfl, h⟩)

theorem GlobCp_star_iff (p s : Str) : GlobCp (42 :: p) s ↔ ∃ u t, s = u ++ t ∧ GlobCp p t := by
  constructor
  · intro h
    rcases GlobCp_cons_inv h with ⟨_, h⟩ | ⟨h, _⟩ | ⟨h, _⟩
    · exact h
    · exact absurd h (by decide)
    · exact absurd rfl h
  · rintro ⟨u, t, rfl, h⟩; exact GlobCp.star p u t h

theorem GlobCp_nil_iff (s : Str) : GlobCp [] s ↔ s = [] := by
  constructor
  · intro h; cases h; rfl
  · rintro rfl; exact GlobCp.nil

/-- `globCp` decides the relation. -/
theorem globCp_iff (p s : Str) : globCp p s = true ↔ GlobCp p s := by
  induction p generalizing s with
  | nil => cases s <;> simp [globCp, GlobCp_nil_iff]
  | cons a p ih =>
    by_cases ha : a = 42
    · subst ha
      simp only [globCp, beq_self_eq_true, if_true]
      rw [anySuffix_iff, GlobCp_star_iff]
      constructor
      · rintro ⟨u, t, h, hf⟩; exact ⟨u, t, h, (ih t).1 hf⟩
      · rintro ⟨u, t, h, hf⟩; exact ⟨u, t, h, (ih t).2 hf⟩
    · have ha' : (a == 42) = false := by simp [ha]
      simp only [globCp, ha', Bool.false_eq_true, if_false]
      cases s with
      | nil =>
        simp only [Bool.false_eq_true, false_iff]
        intro h
        rcases GlobCp_cons_inv h with ⟨h, _⟩ | ⟨_, c, t, h, _⟩ | ⟨_, _, t, h, _⟩
        · exact ha h
        · cases h
        · cases h
      | cons c t =>
        simp only [Bool.and_eq_true, Bool.or_eq_true, beq_iff_eq, ih]
        constructor
        · rintro ⟨h1 | h1, h2⟩
          · subst h1; exact GlobCp.one p c t h2
          · subst h1
            by_cases hq : a = 63
            · subst hq; exact GlobCp.one p _ t h2
            · exact GlobCp.lit a p t ha hq h2
        · intro h
          rcases GlobCp_cons_inv h with ⟨h, _⟩ | ⟨h1, c', t', h, hg⟩ | ⟨_, _, t', h, hg⟩
          · exact absurd h ha
          · cases h; exact ⟨Or.inl h1, hg⟩
          · cases h; exact ⟨Or.inr rfl, hg⟩

/-- The model of `WildMatch::matches` decides the relation as well. -/
theorem globMatch_iff : ∀ (n : Nat) (p s : Str), p.length + s.length ≤ n →
    (globMatch p s = true ↔ GlobCp p s) := by
  intro n
  induction n with
  | zero =>
    intro p s h
    have hp : p = [] := List.eq_nil_of_length_eq_zero (by omega)
    have hs : s = [] := List.eq_nil_of_length_eq_zero (by omega)
    subst hp hs
    simp [globMatch, GlobCp_nil_iff]
  | succ n ih =>
    intro p s h
    cases p with
    | nil => cases s <;> simp [globMatch, GlobCp_nil_iff]
    | cons a p =>
      cases s with
      | nil =>
        rw [globMatch]
        simp only [Bool.and_eq_true, beq_iff_eq]
        rw [ih p [] (by simp at h ⊢; omega)]
        constructor
        · rintro ⟨rfl, h2⟩; exact GlobCp.star p [] [] h2
        · intro h2
          rcases GlobCp_cons_inv h2 with ⟨h1, u, t, hs, hg⟩ | ⟨_, c, t, hs, _⟩ | ⟨_, _, t, hs, _⟩
          · have : t = [] := (List.nil_eq_append_iff.1 hs).2
            subst this; exact ⟨h1, hg⟩
          · cases hs
          · cases hs
      | cons c s =>
        rw [globMatch]
        by_cases ha : a = 42
        · subst ha
          simp only [beq_self_eq_true, if_true, Bool.or_eq_true]
          rw [ih p (c :: s) (by simp at h ⊢; omega), ih (42 :: p) s (by simp at h ⊢; omega)]
          constructor
          · rintro (h1 | h1)
            · exact GlobCp.star p [] (c :: s) h1
            · rcases (GlobCp_star_iff p s).1 h1 with ⟨u, t, rfl, hg⟩
              exact GlobCp.star p (c :: u) t hg
          · intro h1
            rcases (GlobCp_star_iff p (c :: s)).1 h1 with ⟨u, t, hs, hg⟩
            cases u with
            | nil => simp at hs; subst hs; exact Or.inl hg
            | cons x u =>
              simp only [List.cons_append, List.cons.injEq] at hs
              obtain ⟨_, rfl⟩ := hs
              exact Or.inr (GlobCp.star p u t hg)
        · have ha' : (a == 42) = false := by simp [ha]
          simp only [ha', Bool.false_eq_true, if_false, Bool.and_eq_true, Bool.or_eq_true, beq_iff_eq]
          rw [ih p s (by simp at h ⊢; omega)]
          constructor
          · rintro ⟨h1 | h1, h2⟩
            · subst h1; exact GlobCp.one p c s h2
            · subst h1
              by_cases hq : a = 63
              · subst hq; exact GlobCp.one p _ s h2
              · exact GlobCp.lit a p s ha hq h2
          · intro h1
            rcases GlobCp_cons_inv h1 with ⟨h, _⟩ | ⟨h1, c', t', h, hg⟩ | ⟨_, _, t', h, hg⟩
            · exact absurd h ha
            · cases h; exact ⟨Or.inl h1, hg⟩
            · cases h; exact ⟨Or.inr rfl, hg⟩

/-- `WildMatch::matches` as modelled is the spec-side decision procedure. -/
theorem globMatch_eq_globCp (p s : Str) : globMatch p s = globCp p s := by
  rw [Bool.eq_iff_iff, globMatch_iff _ p s (Nat.le_refl _), globCp_iff]

theorem anyGlob_eq_matchesAny (pats : List Str) (cl : Str) : anyGlob pats cl = matchesAny pats cl := by
  simp [anyGlob, matchesAny, globMatch_eq_globCp]

theorem matchesAny_iff (pats : List Str) (cl : Str) :
    matchesAny pats cl = true ↔ ∃ p ∈ pats, GlobCp p cl := by
  simp [matchesAny, globCp_iff]

/-! ### the relation of `Spec/Glob.lean` -/

/-- A string of Unicode scalar values (what a Rust `str` holds). -/
def Scalars (s : Str) : Prop := ∀ c ∈ s, c.isValidChar

/-- The text of `Spec/Glob.lean` for a code-point string. -/
def toText (s : Str) : Spec.Glob.Text := s.map Char.ofNat

theorem ofNat_inj {a b : Nat} (ha : a.isValidChar) (hb : b.isValidChar)
    (h : Char.ofNat a = Char.ofNat b) : a = b := by
  have e : ∀ n : Nat, n.isValidChar → (Char.ofNat n).toNat = n := by
    intro n hn; simp [Char.ofNat, hn, Char.ofNatAux, Char.toNat]
  have := congrArg Char.toNat h
  rwa [e a ha, e b hb] at this

theorem ofNat_star : Char.ofNat 42 = '*' := by decide
theorem ofNat_qm : Char.ofNat 63 = '?' := by decide

theorem ofNat_eq_star {a : Nat} (ha : a.isValidChar) : Char.ofNat a = '*' ↔ a = 42 :=
  ⟨fun h => ofNat_inj ha (by decide) (h.trans ofNat_star.symm), fun h => h ▸ ofNat_star⟩

theorem ofNat_eq_qm {a : Nat} (ha : a.isValidChar) : Char.ofNat a = '?' ↔ a = 63 :=
  ⟨fun h => ofNat_inj ha (by decide) (h.trans ofNat_qm.symm), fun h => h ▸ ofNat_qm⟩

theorem Glob_cons_inv {a : Char} {p s : Spec.Glob.Text} (h : Spec.Glob.Glob (a :: p) s) :
    (a = '*' ∧ ∃ u t, s = u ++ t ∧ Spec.Glob.Glob p t) ∨
    (a = '?' ∧ ∃ c t, s = c :: t ∧ Spec.Glob.Glob p t) ∨
    (a ≠ '*' ∧ a ≠ '?' ∧ ∃ t, s = a :: t ∧ Spec.Glob.Glob p t) := by
  cases h with
  | star _ u t h => exact Or.inl ⟨rfl, u, t, rfl, h⟩
  | one _ c t h => exact Or.inr (Or.inl ⟨rfl, c, t, rfl, h⟩)
  | lit _ _ t h1 h2 h => exact Or.inr (Or.inr ⟨h1, h2, t, rfl, h⟩)

/-- On strings of Unicode scalar values, `GlobCp` IS the glob relation of `Spec/Glob.lean`. -/
theorem globCp_iff_Glob (p s : Str) (hp : Scalars p) (hs : Scalars s) :
    GlobCp p s ↔ Spec.Glob.Glob (toText p) (toText s) := by
  constructor
  · intro h
    induction h with
    | nil => exact Spec.Glob.Glob.nil
    | star p u t _ ih =>
      have := ih (fun c hc => hp c (by simp [hc])) (fun c hc => hs c (by simp [hc]))
      simp only [toText, List.map_cons, List.map_append, ofNat_star]
      exact Spec.Glob.Glob.star _ _ _ this
    | one p c t _ ih =>
      have := ih (fun c hc => hp c (by simp [hc])) (fun c hc => hs c (by simp [hc]))
      simp only [toText, List.map_cons, ofNat_qm]
      exact Spec.Glob.Glob.one _ _ _ this
    | lit a p t h1 h2 _ ih =>
      have := ih (fun c hc => hp c (by simp [hc])) (fun c hc => hs c (by simp [hc]))
      have ha := hp a (by simp)
      simp only [toText, List.map_cons]
      exact Spec.Glob.Glob.lit _ _ _ (fun e => h1 ((ofNat_eq_star ha).1 e))
        (fun e => h2 ((ofNat_eq_qm ha).1 e)) this
  · induction p generalizing s with
    | nil =>
      intro h
      cases s with
      | nil => exact GlobCp.nil
      | cons c t => simp [toText] at h; cases h
    | cons a p ih =>
      intro h
      have ha := hp a (by simp)
      have hp' : Scalars p := fun c hc => hp c (by simp [hc])
      simp only [toText, List.map_cons] at h
      rcases Glob_cons_inv h with ⟨h1, u, t, hst, hg⟩ | ⟨h1, c, t, hst, hg⟩ | ⟨h1, h2, t, hst, hg⟩
      · obtain ⟨u', t', rfl, rfl, rfl⟩ := List.map_eq_append_iff.1 hst
        rw [(ofNat_eq_star ha).1 h1]
        exact GlobCp.star p u' t' (ih t' hp' (fun c hc => hs c (by simp [hc])) hg)
      · cases s with
        | nil => simp at hst
        | cons c' t' =>
          simp only [List.map_cons, List.cons.injEq] at hst
          obtain ⟨_, rfl⟩ := hst
          rw [(ofNat_eq_qm ha).1 h1]
          exact GlobCp.one p c' t' (ih t' hp' (fun c hc => hs c (by simp [hc])) hg)
      · cases s with
        | nil => simp at hst
        | cons c' t' =>
          simp only [List.map_cons, List.cons.injEq] at hst
          obtain ⟨hc, rfl⟩ := hst
          have : c' = a := ofNat_inj (hs c' (by simp)) ha hc
          subst this
          exact GlobCp.lit c' p t' (fun e => h1 ((ofNat_eq_star ha).2 e))
            (fun e => h2 ((ofNat_eq_qm ha).2 e)) (ih t' hp' (fun c hc => hs c (by simp [hc])) hg)

end Ruma.Lemmas.HtmlGlob
