/-
  Helper lemmas for C16 (glue), part 3: the request round trip, assembled from the groups.
-/
import RumaModel.Lemmas.EndpointGlue
namespace Ruma.Glue
open Ruma Ruma.Endpoint
open Ruma.Spec.Endpoint (Version AuthScheme percentDecode segmentUnsafe)

/-! ### Hypotheses, named -/

/-- Every field's wire form is the wire form of a value of the field's type. -/
structure ReqVal.Canon (d : ReqDesc) (v : ReqVal) : Prop where
  path : CanonAll d.pathFields v.path
  query : CanonAll (d.queryFields.map (·.2)) v.query
  queryAll : CanonAll d.queryAllFields v.queryAll
  header : HeaderCanon d.headerFields v.header
  body : CanonAll (d.bodyFields.map (·.2)) v.body
  newtype : CanonAll d.newtypeFields v.newtype

/-- The strings that pass through a text layer are Rust `String`s: path arguments are bytes, query
keys and values are text of the form codec. -/
structure ReqVal.Text (F : FormCodec) (d : ReqDesc) (v : ReqVal) : Prop where
  path : ∀ a ∈ v.path, IsBytes a
  keys : ∀ f ∈ d.queryFields, F.text f.1
  query : ∀ vs ∈ v.query, ∀ s ∈ vs, F.text s
  queryAll : ∀ ps ∈ v.queryAll, ∀ p ∈ ps, F.text p.1 ∧ F.text p.2

/-- The header names the generated code sets by itself: `Content-Type` when there is a body,
`Authorization` when a token is sent. -/
def implicitHeaders (d : ReqDesc) (sat : SendAccessToken) : List Str :=
  (if d.hasRawBody || d.hasBodyFields then [contentType] else [])
  ++ (match authorizationHeader d.auth sat with | .header _ => [authorization] | _ => [])

/-! ### Unpacking -/

theorem shapeOk_inv (d : ReqDesc) (v : ReqVal) (h : v.shapeOk d = true) :
    v.path.length = d.pathFields.length ∧ v.query.length = d.queryFields.length
    ∧ v.queryAll.length = d.queryAllFields.length ∧ headerShapeOk d.headerFields v.header = true
    ∧ v.body.length = d.bodyFields.length ∧ v.newtype.length = d.newtypeFields.length
    ∧ v.raw.length = d.rawFields.length := by
  unfold ReqVal.shapeOk at h
  simp only [Bool.and_eq_true, beq_iff_eq] at h
  obtain ⟨⟨⟨⟨⟨⟨h1, h2⟩, h3⟩, h4⟩, h5⟩, h6⟩, h7⟩ := h
  exact ⟨h1, h2, h3, h4, h5, h6, h7⟩

theorem macroAccepts_inv (d : ReqDesc) (h : d.macroAccepts = true) :
    d.newtypeFields.length + d.rawFields.length ≤ 1 ∧ d.queryAllFields.length ≤ 1
    ∧ (d.newtypeFields.length + d.rawFields.length = 1 → d.bodyFields = [])
    ∧ (d.queryAllFields ≠ [] → d.queryFields = []) := by
  unfold ReqDesc.macroAccepts ReqDesc.hasQueryAll ReqDesc.hasQueryFields at h
  simp only [Bool.and_eq_true, decide_eq_true_eq, Bool.not_eq_true', Bool.and_eq_false_imp,
    Bool.not_eq_false', List.isEmpty_iff] at h
  obtain ⟨⟨⟨⟨h1, h2⟩, h3⟩, h4⟩, _⟩ := h
  refine ⟨h1, h2, h3, ?_⟩
  intro hne
  apply h4
  cases hq : d.queryAllFields with
  | nil => exact absurd hq hne
  | cons a l => rfl

theorem makeEndpointUrl_ok_inv (h : VersionHistory) (vs : List Version) (base query : Str)
    (args : List Str) (url : Str) (hu : makeEndpointUrl h vs base args query = .ok url) :
    ∃ tmpl p, selectPath h vs = .ok tmpl ∧ substPath tmpl args = some p ∧
      url = stripSlashSuffix base ++ p ++ (if query = [] then [] else 63 :: query) := by
  unfold makeEndpointUrl at hu
  cases hsel : selectPath h vs with
  | ok tmpl =>
    rw [hsel] at hu
    simp only at hu
    cases hp : substPath tmpl args with
    | none => rw [hp] at hu; cases hu
    | some p =>
      rw [hp] at hu
      simp only [Out.ok.injEq] at hu
      exact ⟨tmpl, p, rfl, hp, hu.symm⟩
  | errRemoved v => rw [hsel] at hu; cases hu
  | errNoUnstable => rw [hsel] at hu; cases hu
  | panic => rw [hsel] at hu; cases hu

theorem tryInto_ok_inv (F : FormCodec) (J : JsonCodec) (H : HttpLib) (d : ReqDesc) (v : ReqVal)
    (base : Str) (sat : SendAccessToken) (vs : List Version) (m : HttpRequest)
    (henc : tryIntoHttpRequest F J H d v base sat vs = .ok m) :
    v.shapeOk d = true ∧ ∃ q url hs body, requestQueryString F d v = some q
      ∧ makeEndpointUrl d.history vs base v.path q = .ok url ∧ H.uriOk url = true
      ∧ requestHeaders d v sat = .ok hs ∧ requestBody J d v = .ok body
      ∧ m = ⟨d.method, url, hs, body⟩ := by
  unfold tryIntoHttpRequest at henc
  by_cases hshape : v.shapeOk d = true
  · refine ⟨hshape, ?_⟩
    simp only [hshape, Bool.not_true, Bool.false_eq_true, if_false] at henc
    cases hq : requestQueryString F d v with
    | none => rw [hq] at henc; cases henc
    | some q =>
      rw [hq] at henc
      simp only at henc
      cases hu : makeEndpointUrl d.history vs base v.path q with
      | errRemoved r => rw [hu] at henc; cases henc
      | errNoUnstable => rw [hu] at henc; cases henc
      | panic => rw [hu] at henc; cases henc
      | ok url =>
        rw [hu] at henc
        simp only at henc
        by_cases huri : H.uriOk url = true
        · simp only [huri, if_true] at henc
          cases hh : requestHeaders d v sat with
          | error e => rw [hh] at henc; cases henc
          | ok hs =>
            rw [hh] at henc
            simp only at henc
            cases hb : requestBody J d v with
            | illTyped => rw [hb] at henc; cases henc
            | panic => rw [hb] at henc; cases henc
            | err e => rw [hb] at henc; cases henc
            | ok body =>
              rw [hb] at henc
              simp only [Outcome.ok.injEq] at henc
              exact ⟨q, url, hs, body, rfl, hu, huri, rfl, rfl, henc.symm⟩
        · simp only [huri, Bool.false_eq_true, if_false] at henc
          cases hb : requestBody J d v with
          | illTyped => rw [hb] at henc; cases henc
          | panic => rw [hb] at henc; cases henc
          | err e => rw [hb] at henc; cases henc
          | ok body => rw [hb] at henc; cases henc
  · simp only [hshape, Bool.not_false, if_true] at henc
    cases henc

/-! ### Transport -/

theorem deliver_url (base tmpl p q method body : Str) (hs : Headers) (args : List Str)
    (hp : 63 ∉ p) (hq : 35 ∉ q) (hroute : routeArgs tmpl p = some args) :
    deliver base tmpl ⟨method, stripSlashSuffix base ++ p ++ (if q = [] then [] else 63 :: q), hs, body⟩
      = some ⟨method, q, hs, body, args⟩ := by
  unfold deliver
  simp only
  rw [List.append_assoc, List.drop_left]
  unfold splitUri
  by_cases hq0 : q = []
  · subst hq0
    simp only [if_true, List.append_nil, splitFirst_none 63 p hp, hroute, Option.map_some]
  · simp only [hq0, if_false, splitFirst_append 63 p q hp, splitFirst_none 35 q hq, hroute,
      Option.map_some]

/-! ### Path -/

theorem rt_path (d : ReqDesc) (v : ReqVal) (hlen : v.path.length = d.pathFields.length)
    (hc : CanonAll d.pathFields v.path) :
    (if d.hasPathFields then decodePathArgs d.pathFields v.path else some []) = some v.path := by
  unfold ReqDesc.hasPathFields
  cases hpf : d.pathFields with
  | nil =>
    rw [hpf] at hlen
    have : v.path = [] := List.length_eq_zero_iff.1 hlen
    simp [this]
  | cons c cs =>
    simp only [List.isEmpty_cons, Bool.not_false, if_true]
    rw [← hpf]
    exact decodePathArgs_canon _ _ hc

/-! ### Query -/

theorem queryPairs_text (F : FormCodec) : ∀ (fs : List (Str × Codec (List Str)))
    (vss : List (List Str)), (∀ f ∈ fs, F.text f.1) → (∀ vs ∈ vss, ∀ s ∈ vs, F.text s) →
    ∀ p ∈ queryPairs fs vss, F.text p.1 ∧ F.text p.2
  | [], _, _, _, p, hp => by simp [queryPairs] at hp
  | _ :: _, [], _, _, p, hp => by simp [queryPairs] at hp
  | (n, c) :: fs, vs :: vss, hk, hv, p, hp => by
    rw [queryPairs_cons] at hp
    rcases List.mem_append.1 hp with hp | hp
    · obtain ⟨x, hx, rfl⟩ := List.mem_map.1 hp
      exact ⟨hk (n, c) (by simp), hv vs (by simp) x hx⟩
    · exact queryPairs_text F fs vss (fun g hg => hk g (List.mem_cons_of_mem _ hg))
        (fun ws hws => hv ws (List.mem_cons_of_mem _ hws)) p hp

theorem rt_query (F : FormCodec) (hF : F.Lawful) (d : ReqDesc) (v : ReqVal) (q : Str)
    (hmacro : d.macroAccepts = true) (hnames : (d.fields.map (·.name)).Nodup)
    (hshape : v.shapeOk d = true) (hcq : CanonAll (d.queryFields.map (·.2)) v.query)
    (hcqa : CanonAll d.queryAllFields v.queryAll) (ht : v.Text F d)
    (hq : requestQueryString F d v = some q) :
    decodeQuery F d q = some (v.query, v.queryAll) := by
  unfold decodeQuery
  obtain ⟨_, hl2, hl3, _⟩ := shapeOk_inv d v hshape
  obtain ⟨_, hm2, _, hm4⟩ := macroAccepts_inv d hmacro
  unfold requestQueryString ReqDesc.hasQueryAll at hq
  cases hqa : d.queryAllFields with
  | cons c rest =>
    rw [hqa] at hq hl3 hm2 hcqa
    simp only [List.isEmpty_cons, Bool.not_false, if_true] at hq
    have hrest : rest = [] := by
      simp only [List.length_cons] at hm2
      exact List.length_eq_zero_iff.1 (by omega)
    subst hrest
    cases hv : v.queryAll with
    | nil => rw [hv] at hl3; simp at hl3
    | cons qa tl =>
      rw [hv] at hl3 hq hcqa
      have htl : tl = [] := by
        simp only [List.length_cons, List.length_nil] at hl3
        exact List.length_eq_zero_iff.1 (by omega)
      subst htl
      simp only [List.head?_cons, Option.map_some, Option.some.injEq] at hq
      subst hq
      have hqf : d.queryFields = [] := hm4 (by rw [hqa]; simp)
      have hvq : v.query = [] := by
        rw [hqf] at hl2
        exact List.length_eq_zero_iff.1 hl2
      have hlaw := hF.law qa (fun p hp => ht.queryAll qa (by rw [hv]; simp) p hp)
      simp only [hlaw, show c.norm qa = some qa from hcqa.1, Option.map_some, hvq]
  | nil =>
    rw [hqa] at hq hl3
    have hvqa : v.queryAll = [] := List.length_eq_zero_iff.1 hl3
    simp only [List.isEmpty_nil, Bool.not_true, Bool.false_eq_true, if_false] at hq
    simp only
    by_cases hqf : d.hasQueryFields = true
    · simp only [hqf, if_true, Option.some.injEq] at hq ⊢
      subst hq
      have hnd : (d.queryFields.map (·.1)).Nodup :=
        nodup_filterMap_names (fun f : ReqField => f.name) ReqField.asQuery
          (by
            intro a p hp
            unfold ReqField.asQuery at hp
            split at hp
            · cases hp; rfl
            · cases hp) d.fields hnames
      have hlaw := hF.law (queryPairs d.queryFields v.query)
        (queryPairs_text F d.queryFields v.query ht.keys ht.query)
      rw [hlaw]
      have := decodeQueryFields_pairs d.queryFields v.query [] hnd (by simp) hcq
      simp only [List.nil_append] at this
      rw [this, hvqa]
      rfl
    · simp only [hqf, Bool.false_eq_true, if_false]
      have : d.queryFields = [] := by
        unfold ReqDesc.hasQueryFields at hqf
        simpa using hqf
      rw [this] at hl2
      rw [List.length_eq_zero_iff.1 hl2, hvqa]

/-! ### Headers -/

theorem decodeReqHeaders_all (hs : Headers) : ∀ (fs : List HeaderField) (vs : List (Option Str)),
    fs.length = vs.length → (∀ f v, (f, v) ∈ fs.zip vs → decodeReqHeader hs f = some v) →
    decodeReqHeaders hs fs = some vs
  | [], [], _, _ => rfl
  | [], _ :: _, h, _ => by simp at h
  | _ :: _, [], h, _ => by simp at h
  | f :: fs, v :: vs, hl, h => by
    have h1 := h f v (by simp)
    have h2 := decodeReqHeaders_all hs fs vs (by simpa using hl)
      (fun g w hg => h g w (by simp only [List.zip_cons_cons]; exact List.mem_cons_of_mem _ hg))
    simp only [decodeReqHeaders, h1, h2, Option.map_some]

theorem headerShapeOk_len : ∀ (fs : List HeaderField) (vs : List (Option Str)),
    headerShapeOk fs vs = true → fs.length = vs.length
  | [], [], _ => rfl
  | [], _ :: _, h => by simp [headerShapeOk] at h
  | _ :: _, [], h => by simp [headerShapeOk] at h
  | f :: fs, v :: vs, h => by
    simp only [headerShapeOk, Bool.and_eq_true] at h
    simp [headerShapeOk_len fs vs h.2]

theorem headerShapeOk_mem : ∀ (fs : List HeaderField) (vs : List (Option Str)),
    headerShapeOk fs vs = true → ∀ f, (f, none) ∈ fs.zip vs → f.optional = true
  | [], _, _, f, hm => by simp at hm
  | _ :: _, [], _, f, hm => by simp at hm
  | g :: fs, w :: vs, h, f, hm => by
    simp only [headerShapeOk, Bool.and_eq_true, Bool.or_eq_true] at h
    simp only [List.zip_cons_cons, List.mem_cons, Prod.mk.injEq] at hm
    rcases hm with ⟨rfl, rfl⟩ | hm
    · rcases h.1 with h1 | h1
      · exact h1
      · simp at h1
    · exact headerShapeOk_mem fs vs h.2 f hm

theorem headerCanon_mem : ∀ (fs : List HeaderField) (vs : List (Option Str)),
    HeaderCanon fs vs → ∀ f s, (f, some s) ∈ fs.zip vs → f.codec.norm s = some s
  | [], _, _, f, s, hm => by simp at hm
  | _ :: _, [], _, f, s, hm => by simp at hm
  | g :: fs, w :: vs, h, f, s, hm => by
    obtain ⟨h1, h2⟩ := h
    simp only [List.zip_cons_cons, List.mem_cons, Prod.mk.injEq] at hm
    rcases hm with ⟨rfl, rfl⟩ | hm
    · exact h1
    · exact headerCanon_mem fs vs h2 f s hm

/-- What `hGet` finds in the produced header map. -/
theorem hGet_requestHeaders (d : ReqDesc) (v : ReqVal) (sat : SendAccessToken) (hs : Headers)
    (n : Str) (h : requestHeaders d v sat = .ok hs) :
    hGet hs n = (lookupPut d.headerFields v.header n).orElse (fun _ =>
      if n ∈ implicitHeaders d sat then hGet hs n else none) := by
  unfold requestHeaders at h
  simp only at h
  cases hp : putHeaderFields d.headerFields v.header
      (if (d.hasRawBody || d.hasBodyFields) = true then [(contentType, applicationJson)] else []) with
  | error e => rw [hp] at h; cases h
  | ok hs1 =>
    rw [hp] at h
    simp only at h
    have h1 := hGet_putHeaderFields _ _ _ hs1 n hp
    cases hl : lookupPut d.headerFields v.header n with
    | some s =>
      rw [hl] at h1
      simp only [Option.orElse_some] at h1 ⊢
      unfold putAuthorization at h
      cases ha : authorizationHeader d.auth sat with
      | noHeader => rw [ha] at h; cases h; exact h1
      | header value =>
        rw [ha] at h; cases h
        unfold hAppend
        rw [hGet_append, h1]; rfl
      | errNeedsAuth => rw [ha] at h; cases h
      | errHeaderValue => rw [ha] at h; cases h
    | none =>
      rw [hl] at h1
      simp only [Option.orElse_none] at h1 ⊢
      by_cases hmem : n ∈ implicitHeaders d sat
      · simp [hmem]
      · simp only [hmem, if_false]
        unfold implicitHeaders at hmem
        simp only [List.mem_append, not_or] at hmem
        obtain ⟨hm1, hm2⟩ := hmem
        have hct : hGet (if (d.hasRawBody || d.hasBodyFields) = true then [(contentType, applicationJson)] else []) n = none := by
          by_cases hb : (d.hasRawBody || d.hasBodyFields) = true
          · simp only [hb, if_true] at hm1 ⊢
            simp only [List.mem_singleton] at hm1
            simp only [hGet]
            rw [if_neg (fun e => hm1 e.symm)]
          · simp only [hb]
            rfl
        rw [hct] at h1
        unfold putAuthorization at h
        cases ha : authorizationHeader d.auth sat with
        | noHeader => rw [ha] at h; cases h; exact h1
        | header value =>
          rw [ha] at h hm2
          cases h
          simp only [List.mem_singleton] at hm2
          unfold hAppend
          rw [hGet_append, h1]
          simp only [Option.orElse_none, hGet]
          rw [if_neg (fun e => hm2 e.symm)]
        | errNeedsAuth => rw [ha] at h; cases h
        | errHeaderValue => rw [ha] at h; cases h

theorem rt_headers (d : ReqDesc) (v : ReqVal) (sat : SendAccessToken) (hs : Headers)
    (hnd : (d.headerFields.map (·.header)).Nodup)
    (hshape : headerShapeOk d.headerFields v.header = true)
    (hcanon : HeaderCanon d.headerFields v.header)
    (hvis : ∀ s, some s ∈ v.header → headerToStrOk s = true)
    (himp : ∀ f, (f, none) ∈ d.headerFields.zip v.header → f.header ∉ implicitHeaders d sat)
    (h : requestHeaders d v sat = .ok hs) :
    decodeReqHeaders hs d.headerFields = some v.header := by
  apply decodeReqHeaders_all hs _ _ (headerShapeOk_len _ _ hshape)
  intro f w hm
  have hget := hGet_requestHeaders d v sat hs f.header h
  rw [lookupPut_own _ _ f w hnd hm] at hget
  unfold decodeReqHeader
  cases w with
  | some s =>
    simp only [Option.orElse_some] at hget
    rw [hget]
    have hv : headerToStrOk s = true := hvis s (List.of_mem_zip hm).2
    have hc := headerCanon_mem _ _ hcanon f s hm
    simp only [hv, Bool.not_true, Bool.false_eq_true, if_false, hc, Option.map_some]
    split <;> rfl
  | none =>
    simp only [Option.orElse_none, himp f hm, if_false] at hget
    rw [hget]
    simp [headerShapeOk_mem _ _ hshape f hm]

/-! ### Body -/

theorem rt_body (J : JsonCodec) (hJ : J.Lawful) (d : ReqDesc) (v : ReqVal) (body : Str)
    (hmacro : d.macroAccepts = true) (hnames : (d.fields.map (·.name)).Nodup)
    (hshape : v.shapeOk d = true) (hcb : CanonAll (d.bodyFields.map (·.2)) v.body)
    (hcn : CanonAll d.newtypeFields v.newtype) (h : requestBody J d v = .ok body) :
    (if d.hasBodyFields then decodeJsonBody J d.bodyFields d.newtypeFields body else .ok ([], []))
      = .ok (v.body, v.newtype)
    ∧ (if d.hasRawBody then [body] else []) = v.raw := by
  obtain ⟨_, _, _, _, hl5, hl6, hl7⟩ := shapeOk_inv d v hshape
  obtain ⟨hm1, _, hm3, _⟩ := macroAccepts_inv d hmacro
  unfold requestBody at h
  by_cases hraw : d.hasRawBody = true
  · -- raw body
    simp only [hraw, if_true] at h ⊢
    have hrl : d.rawFields.length = 1 ∧ d.newtypeFields.length = 0 := by
      unfold ReqDesc.hasRawBody at hraw
      cases hr : d.rawFields with
      | nil => rw [hr] at hraw; simp at hraw
      | cons a l => rw [hr] at hm1; simp only [List.length_cons] at hm1 ⊢; omega
    have hbf : d.bodyFields = [] := hm3 (by omega)
    have hnb : d.hasBodyFields = false := by
      unfold ReqDesc.hasBodyFields
      simp [hbf, List.length_eq_zero_iff.1 hrl.2]
    have hvb : v.body = [] := List.length_eq_zero_iff.1 (by rw [hl5, hbf]; rfl)
    have hvn : v.newtype = [] := List.length_eq_zero_iff.1 (by rw [hl6, hrl.2])
    simp only [hnb, Bool.false_eq_true, if_false, hvb, hvn, true_and]
    cases hv : v.raw with
    | nil => rw [hv] at h; cases h
    | cons r tl =>
      rw [hv] at h hl7
      simp only [List.head?_cons, Outcome.ok.injEq] at h
      subst h
      have : tl = [] := List.length_eq_zero_iff.1 (by simp only [List.length_cons] at hl7; omega)
      rw [this]
  · simp only [hraw, Bool.false_eq_true, if_false] at h ⊢
    have hvr : v.raw = [] := by
      have : d.rawFields = [] := by
        unfold ReqDesc.hasRawBody at hraw; simpa using hraw
      exact List.length_eq_zero_iff.1 (by rw [hl7, this]; rfl)
    refine ⟨?_, hvr.symm⟩
    by_cases hbf : d.hasBodyFields = true
    · simp only [hbf, if_true] at h ⊢
      cases hj : requestBodyJson d v with
      | none => rw [hj] at h; cases h
      | some j =>
        rw [hj] at h
        simp only at h
        cases hser : J.ser j with
        | none => rw [hser] at h; cases h
        | some b =>
          rw [hser] at h
          simp only [Outcome.ok.injEq] at h
          subst h
          have hne := hJ.ser_ne j b hser
          have hparse := hJ.law j b hser
          unfold decodeJsonBody bodyOrEmptyObject
          simp only [hne, if_false, hparse]
          unfold requestBodyJson ReqDesc.hasNewtypeBody at hj
          cases hnf : d.newtypeFields with
          | cons c rest =>
            rw [hnf] at hj hl6 hm1 hcn
            simp only [List.isEmpty_cons, Bool.not_false, if_true] at hj
            have hrest : rest = [] :=
              List.length_eq_zero_iff.1 (by simp only [List.length_cons] at hm1; omega)
            subst hrest
            cases hv : v.newtype with
            | nil => rw [hv] at hj; cases hj
            | cons x tl =>
              rw [hv] at hj hl6 hcn
              simp only [List.head?_cons, Option.some.injEq] at hj
              subst hj
              have htl : tl = [] :=
                List.length_eq_zero_iff.1 (by simp only [List.length_cons, List.length_nil] at hl6; omega)
              subst htl
              have hbf0 : d.bodyFields = [] := hm3 (by
                rw [hnf]
                simp only [List.length_cons, List.length_nil] at hm1 ⊢
                omega)
              have hvb : v.body = [] := List.length_eq_zero_iff.1 (by rw [hl5, hbf0]; rfl)
              simp only [show c.norm x = some x from hcn.1, hvb]
          | nil =>
            rw [hnf] at hj hl6
            simp only [List.isEmpty_nil, Bool.not_true, Bool.false_eq_true, if_false,
              Option.some.injEq] at hj
            subst hj
            have hvn : v.newtype = [] := List.length_eq_zero_iff.1 hl6
            have hnd : (d.bodyFields.map (·.1)).Nodup :=
              nodup_filterMap_names (fun f : ReqField => f.name) ReqField.asBody
                (by
                  intro a p hp
                  unfold ReqField.asBody at hp
                  split at hp
                  · cases hp; rfl
                  · cases hp) d.fields hnames
            have := fieldsFromObj_entries d.bodyFields v.body [] hnd (by simp) hcb
            simp only [List.nil_append] at this
            simp only [this, hvn]
    · simp only [hbf, Bool.false_eq_true, if_false]
      unfold ReqDesc.hasBodyFields at hbf
      simp only [Bool.or_eq_true, Bool.not_eq_true', List.isEmpty_eq_false_iff, not_or,
        Decidable.not_not] at hbf
      rw [hbf.1] at hl5
      rw [hbf.2] at hl6
      rw [List.length_eq_zero_iff.1 hl5, List.length_eq_zero_iff.1 hl6]

/-! ### The request round trip -/

theorem testsPass_inv (d : ReqDesc) (h : d.testsPass = true) :
    (∃ r, refPath d.history = some r ∧ (pathArgNames r).length = d.pathFields.length)
    ∧ (d.fields.map (·.name)).Nodup := by
  unfold ReqDesc.testsPass at h
  simp only [Bool.and_eq_true, decide_eq_true_eq] at h
  obtain ⟨⟨h1, _⟩, h3⟩ := h
  refine ⟨?_, h3⟩
  cases hr : refPath d.history with
  | none => rw [hr] at h1; cases h1
  | some r =>
    rw [hr] at h1
    refine ⟨r, rfl, ?_⟩
    have h1 : pathArgNames r = d.fields.filterMap (fun f => f.asPath.map (fun _ => f.name)) := by
      simpa using h1
    rw [h1]
    unfold ReqDesc.pathFields
    generalize d.fields = l
    induction l with
    | nil => rfl
    | cons f l ih =>
      simp only [List.filterMap_cons]
      cases f.asPath with
      | none => simpa using ih
      | some c => simpa using ih

theorem request_roundtrip' (F : FormCodec) (hF : F.Lawful) (J : JsonCodec) (hJ : J.Lawful)
    (H : HttpLib) (d : ReqDesc) (v : ReqVal)
    (base : Str) (sat : SendAccessToken) (vs : List Version) (m : HttpRequest)
    (hnew : newOk d.history = true)
    (hsafe : ∀ p ∈ allPaths d.history, ∀ b ∈ p, b = 47 ∨ segmentUnsafe b = false)
    (hmacro : d.macroAccepts = true) (htests : d.testsPass = true)
    (hhn : (d.headerFields.map (·.header)).Nodup)
    (hcanon : v.Canon d) (htext : v.Text F d)
    (hvis : ∀ s, some s ∈ v.header → headerToStrOk s = true)
    (himp : ∀ f, (f, none) ∈ d.headerFields.zip v.header → f.header ∉ implicitHeaders d sat)
    (henc : tryIntoHttpRequest F J H d v base sat vs = .ok m) :
    ∃ tmpl a, selectPath d.history vs = .ok tmpl ∧ deliver base tmpl m = some a
      ∧ tryFromHttpRequest F J d a = .ok v := by
  obtain ⟨hshape, q, url, hs, body, hq, hu, _, hh, hb, hm⟩ :=
    tryInto_ok_inv F J H d v base sat vs m henc
  obtain ⟨tmpl, p, hsel, hsub, hurl⟩ := makeEndpointUrl_ok_inv _ _ _ _ _ _ hu
  obtain ⟨hl1, _, _, hl4, _⟩ := shapeOk_inv d v hshape
  obtain ⟨⟨r, hr, hrlen⟩, hnames⟩ := testsPass_inv d htests
  have hinv := newOk_inv d.history hnew
  have hmem := selectPath_mem d.history vs hinv tmpl hsel
  obtain ⟨r', hr', hargs⟩ := newOk_argNames d.history hnew
  have hrr : r' = r := by rw [hr] at hr'; cases hr'; rfl
  subst hrr
  have hlen : v.path.length = (pathArgNames tmpl).length := by rw [hargs tmpl hmem, hrlen, hl1]
  have hroute := (path_args_roundtrip' tmpl v.path p htext.path hlen hsub).1
  have hp63 : (63 : Nat) ∉ p := by
    intro h63
    rcases url_no_stray_delims' tmpl v.path p (hsafe tmpl hmem) htext.path hsub 63 h63 with h | h
    · omega
    · simp [segmentUnsafe] at h
  have hq35 : (35 : Nat) ∉ q := by
    unfold requestQueryString at hq
    split at hq
    · cases hv : v.queryAll with
      | nil => rw [hv] at hq; cases hq
      | cons qa tl =>
        rw [hv] at hq
        simp only [List.head?_cons, Option.map_some, Option.some.injEq] at hq
        subst hq
        exact hF.no_hash qa
    · split at hq
      · cases hq; exact hF.no_hash _
      · cases hq; simp
  refine ⟨tmpl, ⟨d.method, q, hs, body, v.path⟩, hsel, ?_, ?_⟩
  · rw [hm, hurl]
    exact deliver_url base tmpl p q d.method body hs v.path hp63 hq35 hroute
  · unfold tryFromHttpRequest
    simp only [decide_true, Bool.true_or, Bool.not_true, Bool.false_eq_true, if_false]
    rw [rt_path d v hl1 hcanon.path]
    simp only
    rw [rt_query F hF d v q hmacro hnames hshape hcanon.query hcanon.queryAll htext hq]
    simp only
    rw [rt_headers d v sat hs hhn hl4 hcanon.header hvis himp hh]
    simp only
    obtain ⟨hb1, hb2⟩ := rt_body J hJ d v body hmacro hnames hshape hcanon.body hcanon.newtype hb
    rw [hb1]
    simp only
    rw [hb2]

/-- None of the panic sites of the generated code (all inside `make_endpoint_url`) is reachable,
and a well-shaped value is never reported ill-typed. -/
theorem tryInto_no_panic' (F : FormCodec) (J : JsonCodec) (H : HttpLib) (d : ReqDesc) (v : ReqVal)
    (base : Str) (sat : SendAccessToken) (vs : List Version)
    (hnew : newOk d.history = true) (hslash : ∀ p ∈ allPaths d.history, p.head? = some 47)
    (htests : d.testsPass = true) (hshape : v.shapeOk d = true) :
    (∃ m, tryIntoHttpRequest F J H d v base sat vs = .ok m)
    ∨ (∃ e, tryIntoHttpRequest F J H d v base sat vs = .err e) := by
  obtain ⟨hl1, _, hl3, _, _, hl6, hl7⟩ := shapeOk_inv d v hshape
  obtain ⟨⟨r, hr, hrlen⟩, _⟩ := testsPass_inv d htests
  unfold tryIntoHttpRequest
  simp only [hshape, Bool.not_true, Bool.false_eq_true, if_false]
  have hq : ∃ q, requestQueryString F d v = some q := by
    unfold requestQueryString ReqDesc.hasQueryAll
    cases hqa : d.queryAllFields with
    | nil => simp only [List.isEmpty_nil, Bool.not_true, Bool.false_eq_true, if_false]; split <;> exact ⟨_, rfl⟩
    | cons c l =>
      rw [hqa] at hl3
      cases hv : v.queryAll with
      | nil => rw [hv] at hl3; simp at hl3
      | cons qa tl => exact ⟨F.ser qa, by simp⟩
  obtain ⟨q, hq⟩ := hq
  rw [hq]
  simp only
  have hnp := makeEndpointUrl_no_panic' d.history vs base q v.path hnew hslash
    (fun r' hr' => by rw [hr] at hr'; cases hr'; omega)
  cases hu : makeEndpointUrl d.history vs base v.path q with
  | errRemoved x => exact Or.inr ⟨_, rfl⟩
  | errNoUnstable => exact Or.inr ⟨_, rfl⟩
  | panic => exact absurd hu hnp
  | ok url =>
    simp only
    have hbody : (∃ b, requestBody J d v = .ok b) ∨ (∃ e, requestBody J d v = .err e) := by
      unfold requestBody
      by_cases hraw : d.hasRawBody = true
      · simp only [hraw, if_true]
        unfold ReqDesc.hasRawBody at hraw
        cases hv : v.raw with
        | nil =>
          rw [hv] at hl7
          have : d.rawFields = [] := List.length_eq_zero_iff.1 hl7.symm
          rw [this] at hraw; simp at hraw
        | cons x tl => exact Or.inl ⟨x, rfl⟩
      · simp only [hraw, Bool.false_eq_true, if_false]
        by_cases hbf : d.hasBodyFields = true
        · simp only [hbf, if_true]
          have hj : ∃ j, requestBodyJson d v = some j := by
            unfold requestBodyJson ReqDesc.hasNewtypeBody
            cases hnf : d.newtypeFields with
            | nil => exact ⟨.obj (bodyEntries d.bodyFields v.body), by simp⟩
            | cons c l =>
              rw [hnf] at hl6
              cases hv : v.newtype with
              | nil => rw [hv] at hl6; simp at hl6
              | cons x tl => exact ⟨x, by simp⟩
          obtain ⟨j, hj⟩ := hj
          rw [hj]
          simp only
          cases J.ser j with
          | none => exact Or.inr ⟨_, rfl⟩
          | some b => exact Or.inl ⟨_, rfl⟩
        · simp only [hbf, Bool.false_eq_true, if_false]
          exact Or.inl ⟨_, rfl⟩
    cases hh : (if H.uriOk url = true then requestHeaders d v sat else Except.ok []) with
    | error e => exact Or.inr ⟨_, rfl⟩
    | ok hs =>
      simp only
      rcases hbody with ⟨b, hb⟩ | ⟨e, hb⟩
      · rw [hb]
        simp only
        split
        · exact Or.inl ⟨_, rfl⟩
        · exact Or.inr ⟨_, rfl⟩
      · rw [hb]
        exact Or.inr ⟨_, rfl⟩

end Ruma.Glue
