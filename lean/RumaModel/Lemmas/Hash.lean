/-
  Helper lemmas for C05 (content hash / reference hash / base64).
-/
import RumaModel.Model.Hash
import RumaModel.Spec.Hash
import RumaModel.Spec.RedactionRules
import RumaModel.Props.C04
namespace Ruma.Hash
open Ruma Ruma.Redact Ruma.Canonical Ruma.Spec.Redaction

/-! ### Removing fields -/

theorem removeFields_eq_filter (o : Obj) (fs : List Str) :
    removeFields o fs = o.filter (fun p => !fs.contains p.1) := by
  induction fs generalizing o with
  | nil =>
    simp only [removeFields, List.foldl_nil, List.contains_nil, Bool.not_false]
    exact (List.filter_eq_self.mpr (fun _ _ => rfl)).symm
  | cons f fs ih =>
    have : removeFields o (f :: fs) = removeFields (Obj.erase o f) fs := rfl
    rw [this, ih, Obj.erase, List.filter_filter]
    apply List.filter_congr
    intro p _
    by_cases h : p.1 = f <;> simp [h, Bool.and_comm]

theorem removeFields_content (o : Obj) :
    removeFields o contentHashFields
      = Spec.Hash.without o [bs "unsigned", bs "signatures", bs "hashes"] := by
  rw [removeFields_eq_filter, Spec.Hash.without]
  apply List.filter_congr
  intro p _
  simp only [contentHashFields, List.contains_cons, List.contains_nil, Bool.or_false]
  cases (p.1 == bs "hashes") <;> cases (p.1 == bs "signatures") <;> cases (p.1 == bs "unsigned") <;> rfl

theorem removeFields_reference (o : Obj) :
    removeFields o referenceHashFields = Spec.Hash.without o [bs "signatures", bs "unsigned"] := by
  rw [removeFields_eq_filter, Spec.Hash.without]; rfl

/-- Inserting (or replacing) a key that the filter drops is invisible after the filter. -/
theorem filter_insert_dropped {α} (o : List (Str × α)) (k : Str) (v : α) (q : Str → Bool)
    (hq : q k = false) :
    (Obj.insert o k v).filter (fun p => q p.1) = o.filter (fun p => q p.1) := by
  induction o with
  | nil => simp [Obj.insert, hq]
  | cons e t ih =>
    obtain ⟨a, b⟩ := e
    simp only [Obj.insert]
    by_cases h1 : a = k
    · subst h1; simp [hq]
    · simp only [h1, if_false]
      by_cases h2 : k < a
      · simp [h2, hq]
      · simp only [h2, if_false, List.filter_cons, ih]

theorem filter_erase_dropped {α} (o : List (Str × α)) (k : Str) (q : Str → Bool)
    (hq : q k = false) :
    (Obj.erase o k).filter (fun p => q p.1) = o.filter (fun p => q p.1) := by
  rw [Obj.erase, List.filter_filter]
  apply List.filter_congr
  intro p _
  by_cases h : p.1 = k
  · simp [h, hq]
  · simp [h]

theorem filter_setVal_dropped (o : Obj) (k : Str) (v : JVal) (q : Str → Bool) (hq : q k = false) :
    (setVal o k v).filter (fun p => q p.1) = o.filter (fun p => q p.1) := by
  rw [← setVal_filter]
  simp only [setVal]
  conv => rhs; rw [← List.map_id (o.filter (fun p => q p.1))]
  apply List.map_congr_left
  intro p hp
  have := (List.mem_filter.mp hp).2
  by_cases h : p.1 = k
  · rw [h, hq] at this; cases this
  · simp [h]

/-! ### Redaction commutes with dropping keys other than `type` / `content` -/

theorem redact_filter (r : Rules) (o : Obj) (q : Str → Bool)
    (hT : q (bs "type") = true) (hC : q (bs "content") = true) :
    redact r (o.filter (fun e => q e.1)) none
      = (redact r o none).map (fun res => res.filter (fun e => q e.1)) := by
  unfold redact
  rw [get_filter, hT, if_pos rfl]
  cases hty : Obj.get o (bs "type") with
  | none => rfl
  | some x =>
    cases x with
    | str ty =>
      simp only [redactContentField]
      rw [get_filter, hC, if_pos rfl]
      cases hc : Obj.get o (bs "content") with
      | none =>
        simp only [finish, Except.map, List.filter_filter]
        congr 1
        apply List.filter_congr
        intro p _
        exact Bool.and_comm _ _
      | some y =>
        cases y with
        | obj c =>
          simp only
          cases hr : redactContent r ty c with
          | error e => rfl
          | ok c' =>
            simp only [finish, Except.map, setVal_filter, List.filter_filter]
            congr 1
            apply List.filter_congr
            intro p _
            exact Bool.and_comm _ _
        | _ => rfl
    | _ => rfl

/-! ### Sorted objects have unique keys -/

theorem sorted_unique {α} (o : List (Str × α)) (hs : Obj.Sorted o) (k : Str) (x : α)
    (hg : Obj.get o k = some x) : ∀ p ∈ o, p.1 = k → p.2 = x := by
  induction o with
  | nil => intro p hp; cases hp
  | cons e t ih =>
    obtain ⟨a, b⟩ := e
    simp only [Obj.Sorted, Obj.keys, List.map_cons, List.pairwise_cons] at hs
    obtain ⟨hlt, hst⟩ := hs
    intro p hp hk
    simp only [Obj.get] at hg
    by_cases hak : a = k
    · simp only [hak, if_true, Option.some.injEq] at hg
      rcases List.mem_cons.mp hp with rfl | hpt
      · exact hg
      · exfalso
        have : a < p.1 := hlt p.1 (List.mem_map.mpr ⟨p, hpt, rfl⟩)
        rw [hk, hak] at this
        exact List.lt_irrefl _ this
    · simp only [hak, if_false] at hg
      rcases List.mem_cons.mp hp with rfl | hpt
      · exact absurd hk hak
      · exact ih hst hg p hpt hk

theorem get_none_not_mem {α} (o : List (Str × α)) (k : Str) (h : Obj.get o k = none) :
    ∀ p ∈ o, p.1 ≠ k := by
  intro p hp hk
  have : k ∈ Obj.keys o := List.mem_map.mpr ⟨p, hp, hk⟩
  exact ((get_mem_keys o k).mpr this) h

/-! ### The model's redaction under the spec's rules is the spec's redacted event -/

theorem redact_eq_spec (v : Nat) (o res : Obj) (hs : Obj.Sorted o)
    (h : redact (rulesOf v) o none = .ok res) :
    ∃ ty, Obj.get o (bs "type") = some (.str ty) ∧ res = Spec.Hash.redacted v ty o := by
  obtain ⟨ty, hty, hcase⟩ := Props.C04.redact_ok_shape _ _ _ h
  refine ⟨ty, hty, ?_⟩
  have hpred : (fun e : Str × JVal => isEventKeyRetained (rulesOf v) e.1)
      = (fun e : Str × JVal => topKept v e.1) := by
    funext e; exact Props.C04.top_key_eq_spec v e.1
  rcases hcase with ⟨hnone, rfl⟩ | ⟨c, c', hc, hred, rfl⟩
  · rw [hpred, Spec.Hash.redacted]
    conv => lhs; rw [← List.map_id (o.filter (fun e => topKept v e.1))]
    apply List.map_congr_left
    intro p hp
    have hne := get_none_not_mem o _ hnone p (List.mem_filter.mp hp).1
    simp [hne]
  · rw [hpred, ← setVal_filter, Spec.Hash.redacted, setVal]
    apply List.map_congr_left
    intro p hp
    have hpo := (List.mem_filter.mp hp).1
    by_cases hk : p.1 = bs "content"
    · have := sorted_unique o hs _ _ hc p hpo hk
      rw [Props.C04.redactContent_eq_spec v ty c c' hred]
      simp only [hk, if_true, this]
    · simp [hk]

/-! ### Base64 -/

theorem valOf_charOf (a : Alphabet) : ∀ i, i < 64 → valOf a (charOf a i) = some i := by
  cases a <;> decide

theorem unb64_b64 (a : Alphabet) (x : List Nat) (hx : ∀ b ∈ x, b < 256) :
    unb64 a (b64 a x) = some x := by
  fun_induction b64 a x with
  | case1 x y z rest ih =>
    have hx' : x < 256 := hx x (by simp)
    have hy : y < 256 := hx y (by simp)
    have hz : z < 256 := hx z (by simp)
    have ih' := ih (fun b hb => hx b (by simp [hb]))
    simp only [unb64]
    rw [valOf_charOf a _ (by omega), valOf_charOf a _ (by omega), valOf_charOf a _ (by omega),
      valOf_charOf a _ (by omega), ih']
    simp only [Option.some.injEq, List.cons.injEq, and_true]
    refine ⟨by omega, by omega, by omega⟩
  | case2 x y =>
    have hx' : x < 256 := hx x (by simp)
    have hy : y < 256 := hx y (by simp)
    simp only [unb64]
    rw [valOf_charOf a _ (by omega), valOf_charOf a _ (by omega), valOf_charOf a _ (by omega)]
    simp only
    rw [if_pos (by omega)]
    simp only [Option.some.injEq, List.cons.injEq, and_true]
    refine ⟨by omega, by omega⟩
  | case3 x =>
    have hx' : x < 256 := hx x (by simp)
    simp only [unb64]
    rw [valOf_charOf a _ (by omega), valOf_charOf a _ (by omega)]
    simp only
    rw [if_pos (by omega)]
    simp only [Option.some.injEq, List.cons.injEq, and_true]
    omega
  | case4 => rfl

theorem b64_length (a : Alphabet) (x : List Nat) : (b64 a x).length = (4 * x.length + 2) / 3 := by
  fun_induction b64 a x with
  | case1 x y z rest ih => simp only [List.length_cons, ih]; omega
  | case2 x y => simp
  | case3 x => simp
  | case4 => rfl

/-- The characters of an alphabet, sextet 0 first. -/
def alphabetChars (a : Alphabet) : List Nat := (List.range 64).map (charOf a)

theorem charOf_mem (a : Alphabet) : ∀ i, i < 64 → charOf a i ∈ alphabetChars a := by
  intro i hi
  exact List.mem_map.mpr ⟨i, List.mem_range.mpr hi, rfl⟩

theorem b64_chars (a : Alphabet) (x : List Nat) (hx : ∀ b ∈ x, b < 256) :
    ∀ c ∈ b64 a x, c ∈ alphabetChars a := by
  fun_induction b64 a x with
  | case1 x y z rest ih =>
    have hx' : x < 256 := hx x (by simp)
    have hy : y < 256 := hx y (by simp)
    have hz : z < 256 := hx z (by simp)
    intro c hc
    simp only [List.mem_cons] at hc
    rcases hc with rfl | rfl | rfl | rfl | hc
    · exact charOf_mem a _ (by omega)
    · exact charOf_mem a _ (by omega)
    · exact charOf_mem a _ (by omega)
    · exact charOf_mem a _ (by omega)
    · exact ih (fun b hb => hx b (by simp [hb])) c hc
  | case2 x y =>
    have hx' : x < 256 := hx x (by simp)
    have hy : y < 256 := hx y (by simp)
    intro c hc
    simp only [List.mem_cons, List.not_mem_nil, or_false] at hc
    rcases hc with rfl | rfl | rfl
    · exact charOf_mem a _ (by omega)
    · exact charOf_mem a _ (by omega)
    · exact charOf_mem a _ (by omega)
  | case3 x =>
    have hx' : x < 256 := hx x (by simp)
    intro c hc
    simp only [List.mem_cons, List.not_mem_nil, or_false] at hc
    rcases hc with rfl | rfl
    · exact charOf_mem a _ (by omega)
    · exact charOf_mem a _ (by omega)
  | case4 => intro c hc; cases hc

end Ruma.Hash

/-! ### Glue between the spec's per-version answers and the model's types -/

namespace Ruma.Hash
open Ruma Ruma.Redact Ruma.Canonical Ruma.Spec.Redaction

/-- The spec's event-ID format generation as the model's `EventIdFormat`. -/
def specFormat (v : Nat) : EventIdFormat :=
  if Spec.Hash.eventIdFormat v = 1 then .v1 else if Spec.Hash.eventIdFormat v = 2 then .v2 else .v3

/-- The spec's reference-hash alphabet for a room version. -/
def specAlphabet (v : Nat) : Alphabet := if Spec.Hash.urlSafeFrom v then .urlSafe else .standard

/-- The part of `reference_hash` after redaction and field removal. -/
def refTail (sha256 : List Nat → List Nat) (fmt : EventIdFormat) :
    Except Redact.Err Obj → Except Err (List Nat)
  | .error e => .error (.redact e)
  | .ok w =>
    if (encodeObj w).length > maxPduBytes then .error .pduSize
    else .ok (b64 (alphabetOf fmt) (sha256 (encodeObj w)))

theorem referenceHash_eq_refTail (sha256 : List Nat → List Nat) (r : Rules) (fmt : EventIdFormat)
    (o : Obj) :
    referenceHash sha256 r fmt o
      = refTail sha256 fmt ((redact r o none).map
          (fun res => Spec.Hash.without res [bs "signatures", bs "unsigned"])) := by
  unfold referenceHash
  cases redact r o none with
  | error e => rfl
  | ok res => simp only [Except.map, refTail, canonicalWithout, removeFields_reference]

/-- `reference_hash` only sees the event without `signatures` and `unsigned`. -/
theorem referenceHash_strip (sha256 : List Nat → List Nat) (r : Rules) (fmt : EventIdFormat)
    (o : Obj) :
    referenceHash sha256 r fmt o
      = refTail sha256 fmt
          (redact r (Spec.Hash.without o [bs "signatures", bs "unsigned"]) none) := by
  rw [referenceHash_eq_refTail]
  have := redact_filter r o (fun k => ![bs "signatures", bs "unsigned"].contains k)
    (by decide) (by decide)
  simp only [Spec.Hash.without] at this ⊢
  rw [this]

theorem get_without (o : Obj) (ks : List Str) (k : Str) :
    Obj.get (Spec.Hash.without o ks) k = if ks.contains k then none else Obj.get o k := by
  rw [Spec.Hash.without, get_filter (p := fun k => !ks.contains k)]
  cases ks.contains k <;> rfl

/-- A content key the spec keeps unchanged (everything kept except the narrowed
`third_party_invite` of member events) has the same value in the redacted content. -/
theorem get_redactedContent (v : Nat) (ty k : Str) (c : Obj)
    (hk : contentKept v ty k = true) (hn : ¬ (ty = bs "m.room.member" ∧ k = bs "third_party_invite")) :
    Obj.get (redactedContent v ty c) k = Obj.get c k := by
  induction c with
  | nil => rfl
  | cons e t ih =>
    obtain ⟨a, b⟩ := e
    simp only [redactedContent, List.filterMap_cons] at ih ⊢
    by_cases hak : a = k
    · subst hak
      simp [contentEntry, hk, hn, Obj.get]
    · cases hce : contentEntry v ty a b with
      | none => simp only [Option.map_none, Obj.get, hak, if_false]; exact ih
      | some v' => simp only [Option.map_some, Obj.get, hak, if_false]; exact ih

end Ruma.Hash
