/-
  C11 — helper lemmas, part 1: percent-coding, UTF-8, splitting, bytes of encoded segments.
  Core Lean only.
-/
import RumaModel.Model.MatrixUri
import RumaModel.Spec.MatrixUri
namespace Ruma.MatrixUri
open Ruma Ruma.Spec.MatrixUri

/-! ## percent-coding -/

theorem hexVal_hexUpper (n : Nat) (h : n < 16) : hexVal (hexUpper n) = some n := by
  unfold hexUpper hexVal
  split <;> split <;> first | (congr 1; omega) | (split <;> first | (congr 1; omega) | (split <;> first | (congr 1; omega) | omega))

@[simp] theorem decodeFrom_nil (k : Nat) : decodeFrom k [] = [] := by
  cases k <;> rfl

@[simp] theorem decodeFrom_succ (k b) (t : Str) : decodeFrom (k + 1) (b :: t) = decodeFrom k t := rfl

theorem percentDecode_cons_ne (b : Nat) (t : Str) (h : b ≠ 37) :
    percentDecode (b :: t) = b :: percentDecode t := by
  simp [percentDecode, decodeFrom, h]

theorem percentDecode_escape (h l x y : Nat) (t : Str) (hx : hexVal h = some x) (hy : hexVal l = some y) :
    percentDecode (37 :: h :: l :: t) = (16 * x + y) :: percentDecode t := by
  simp [percentDecode, decodeFrom, escapeAt, hx, hy]

theorem percentDecode_pct_lit (t : Str) (h : escapeAt t = none) :
    percentDecode (37 :: t) = 37 :: percentDecode t := by
  simp [percentDecode, decodeFrom, h]

theorem percent_roundtrip_of_pct (set : Nat → Bool) (hs : set 37 = true) (b : Str) (hb : Bytes b) :
    percentDecode (percentEncode set b) = b := by
  induction b with
  | nil => rfl
  | cons c t ih =>
    have hc : c < 256 := hb c (by simp)
    have ht : Bytes t := fun x hx => hb x (by simp [hx])
    unfold percentEncode
    split
    · rw [percentDecode_escape _ _ (c / 16) (c % 16) _ (hexVal_hexUpper _ (by omega)) (hexVal_hexUpper _ (by omega)), ih ht]
      congr 1; omega
    · rename_i hne
      have : c ≠ 37 := by
        intro h; subst h; simp [hs] at hne
      rw [percentDecode_cons_ne _ _ this, ih ht]

/-! ## UTF-8 -/

theorem validFrom_drop (k : Nat) (t : Str) : validFrom k t = validFrom 0 (t.drop k) := by
  induction t generalizing k with
  | nil => cases k <;> simp [validFrom]
  | cons b t ih =>
    cases k with
    | zero => simp
    | succ k => simp [validFrom, ih k]

theorem lossyFrom_of_valid (k : Nat) (s : Str) (h : validFrom k s = true) : lossyFrom k s = s.drop k := by
  induction s generalizing k with
  | nil => cases k <;> simp [lossyFrom]
  | cons b t ih =>
    cases k with
    | succ k => simp [validFrom] at h; simp [lossyFrom, ih k h]
    | zero =>
      simp [validFrom] at h
      simp [lossyFrom, h.1, ih _ h.2]

theorem utf8Lossy_of_valid (s : Str) (h : validUtf8 s = true) : utf8Lossy s = s := by
  unfold utf8Lossy; simpa using lossyFrom_of_valid 0 s h

/-- A valid step only looks at the bytes it consumes. -/
theorem utf8Step_take (b : Nat) (t r : Str) (k : Nat) (h : utf8Step b t = (true, k)) :
    utf8Step b (t.take k ++ r) = (true, k) ∧ (t.take k ++ r).drop k = r := by
  unfold utf8Step at h ⊢
  split at h
  · simp at h; subst h; simp [*]
  split at h
  · rename_i h1 h2
    simp only [h1, h2, if_false]
    cases t with
    | nil => simp at h
    | cons b1 t1 =>
      simp only at h
      split at h
      · simp at h; subst h; simp [*]
      · simp at h
  split at h
  · rename_i h1 h2 h3
    simp only [h1, h2, h3, if_false]
    cases t with
    | nil => simp at h
    | cons b1 t1 =>
      simp only at h
      split at h
      · cases t1 with
        | nil => simp at h
        | cons b2 t2 =>
          simp only at h
          split at h
          · simp at h; subst h; simp [*]
          · simp at h
      · simp at h
  split at h
  · rename_i h1 h2 h3 h4
    simp only [h1, h2, h3, h4, if_false]
    cases t with
    | nil => simp at h
    | cons b1 t1 =>
      simp only at h
      split at h
      · cases t1 with
        | nil => simp at h
        | cons b2 t2 =>
          simp only at h
          split at h
          · cases t2 with
            | nil => simp at h
            | cons b3 t3 =>
              simp only at h
              split at h
              · simp at h; subst h; simp [*]
              · simp at h
          · simp at h
      · simp at h
  · simp at h

theorem validFrom_chunk (b : Nat) (t r : Str) (k : Nat) (h : utf8Step b t = (true, k)) :
    validFrom 0 (b :: t.take k ++ r) = validFrom 0 r := by
  have := utf8Step_take b t r k h
  simp only [List.cons_append, validFrom, this.1, Bool.true_and]
  rw [validFrom_drop, this.2]

theorem validFrom_replacement (r : Str) : validFrom 0 (replacement ++ r) = validFrom 0 r := by
  simp [replacement, validFrom, utf8Step, second3, isCont]

theorem valid_lossyFrom (k : Nat) (s : Str) : validFrom 0 (lossyFrom k s) = true := by
  induction s generalizing k with
  | nil => cases k <;> simp [lossyFrom, validFrom]
  | cons b t ih =>
    cases k with
    | succ k => simpa [lossyFrom] using ih k
    | zero =>
      simp only [lossyFrom]
      split
      · rename_i hv
        have : utf8Step b t = (true, (utf8Step b t).2) := by rw [← hv]
        rw [validFrom_chunk b t _ _ this]; exact ih _
      · rw [validFrom_replacement]; exact ih _

theorem validUtf8_utf8Lossy (s : Str) : validUtf8 (utf8Lossy s) = true := valid_lossyFrom 0 s

/-! ## splitting -/

/-! split lemmas -/
theorem splitHT_not_mem (c : Nat) (a : Str) (h : c ∉ a) : splitHT c a = (a, []) := by
  induction a with
  | nil => rfl
  | cons b t ih =>
    have hb : b ≠ c := fun e => h (by simp [e])
    have ht : c ∉ t := fun e => h (by simp [e])
    simp [splitHT, hb, ih ht]

theorem splitHT_append (c : Nat) (a r : Str) (h : c ∉ a) :
    splitHT c (a ++ c :: r) = (a, splitOn c r) := by
  induction a with
  | nil => simp [splitHT, splitOn]
  | cons b t ih =>
    have hb : b ≠ c := fun e => h (by simp [e])
    have ht : c ∉ t := fun e => h (by simp [e])
    simp [splitHT, hb, ih ht]

theorem splitOn_not_mem (c : Nat) (a : Str) (h : c ∉ a) : splitOn c a = [a] := by
  simp [splitOn, splitHT_not_mem c a h]

theorem splitOn_append (c : Nat) (a r : Str) (h : c ∉ a) :
    splitOn c (a ++ c :: r) = a :: splitOn c r := by
  simp [splitOn, splitHT_append c a r h]

theorem splitOnce_not_mem (c : Nat) (a : Str) (h : c ∉ a) : splitOnce c a = none := by
  induction a with
  | nil => rfl
  | cons b t ih =>
    have hb : b ≠ c := fun e => h (by simp [e])
    have ht : c ∉ t := fun e => h (by simp [e])
    simp [splitOnce, hb, ih ht]

theorem splitOnce_append (c : Nat) (a r : Str) (h : c ∉ a) :
    splitOnce c (a ++ c :: r) = some (a, r) := by
  induction a with
  | nil => simp [splitOnce]
  | cons b t ih =>
    have hb : b ≠ c := fun e => h (by simp [e])
    have ht : c ∉ t := fun e => h (by simp [e])
    simp [splitOnce, hb, ih ht]

theorem stripPrefix_append (p s : Str) : stripPrefix p (p ++ s) = some s := by
  induction p with
  | nil => cases s <;> rfl
  | cons a p ih => simp [stripPrefix, ih]

theorem stripSuffixByte_of_last_ne (c : Nat) (s : Str) (h : s.getLast? ≠ some c) :
    stripSuffixByte c s = s := by
  simp [stripSuffixByte, h]

theorem stripPrefixByte_of_head_ne (c : Nat) (s : Str) (h : s.head? ≠ some c) :
    stripPrefixByte c s = s := by
  cases s with
  | nil => rfl
  | cons b t =>
    have : b ≠ c := by intro e; apply h; simp [e]
    simp [stripPrefixByte, this]

/-- Join with a one-byte separator (`[a,b,c] ↦ a ++ sep :: b ++ sep :: c`). -/
def joinWith (c : Nat) : List Str → Str
  | [] => []
  | [p] => p
  | p :: q :: r => p ++ c :: joinWith c (q :: r)

theorem splitOn_joinWith (c : Nat) (ps : List Str) (hne : ps ≠ []) (h : ∀ p ∈ ps, c ∉ p) :
    splitOn c (joinWith c ps) = ps := by
  induction ps with
  | nil => exact absurd rfl hne
  | cons p r ih =>
    cases r with
    | nil => simpa [joinWith] using splitOn_not_mem c p (h p (by simp))
    | cons q r =>
      simp only [joinWith]
      rw [splitOn_append c p _ (h p (by simp)), ih (by simp) (fun x hx => h x (by simp [hx]))]

/-! ## bytes of encoded segments -/

def isHexUpperByte (c : Nat) : Bool := (48 ≤ c && c ≤ 57) || (65 ≤ c && c ≤ 70)

theorem hexUpper_isHex (n : Nat) (h : n < 16) : isHexUpperByte (hexUpper n) = true := by
  unfold hexUpper isHexUpperByte
  split <;> simp <;> omega

theorem mem_percentEncode (set : Nat → Bool) (b : Str) (hb : Bytes b) (c : Nat)
    (hc : c ∈ percentEncode set b) :
    c = 37 ∨ isHexUpperByte c = true ∨ (c < 128 ∧ set c = false ∧ c ∈ b) := by
  induction b with
  | nil => simp [percentEncode] at hc
  | cons x t ih =>
    have hx : x < 256 := hb x (by simp)
    have ht : Bytes t := fun y hy => hb y (by simp [hy])
    unfold percentEncode at hc
    split at hc
    · simp only [List.mem_cons] at hc
      rcases hc with h | h | h | h
      · exact Or.inl h
      · exact Or.inr (Or.inl (h ▸ hexUpper_isHex _ (by omega)))
      · exact Or.inr (Or.inl (h ▸ hexUpper_isHex _ (by omega)))
      · rcases ih ht h with h | h | ⟨h1, h2, h3⟩
        · exact Or.inl h
        · exact Or.inr (Or.inl h)
        · exact Or.inr (Or.inr ⟨h1, h2, by simp [h3]⟩)
    · rename_i hne
      simp only [List.mem_cons] at hc
      rcases hc with h | h
      · subst h
        simp at hne
        exact Or.inr (Or.inr ⟨hne.1, hne.2, by simp⟩)
      · rcases ih ht h with h | h | ⟨h1, h2, h3⟩
        · exact Or.inl h
        · exact Or.inr (Or.inl h)
        · exact Or.inr (Or.inr ⟨h1, h2, by simp [h3]⟩)

theorem encPath_byte (s : Str) (hs : Bytes s) (c : Nat) (hc : c ∈ encPath s) :
    urlSafe c = true ∧ c ≠ 47 := by
  rcases mem_percentEncode _ s hs c hc with h | h | ⟨h1, h2, _⟩
  · subst h; decide
  · simp [isHexUpperByte] at h
    simp [urlSafe]; omega
  · simp [pathSet, pathSetOld, controls] at h2
    simp [urlSafe]; omega

theorem encQuery_byte (s : Str) (hs : Bytes s) (c : Nat) (hc : c ∈ encQuery s) :
    urlSafe c = true ∧ c ≠ 47 ∧ c ≠ 38 ∧ c ≠ 43 ∧ c ≠ 61 := by
  rcases mem_percentEncode _ s hs c hc with h | h | ⟨h1, h2, _⟩
  · subst h; decide
  · simp [isHexUpperByte] at h
    simp [urlSafe]; omega
  · simp [queryValueSet, pathSet, pathSetOld, controls] at h2
    simp [urlSafe]; omega
end Ruma.MatrixUri
