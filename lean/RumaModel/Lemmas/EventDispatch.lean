/-
  Helper lemmas for C18 (`Model/EventDispatch.lean`). Core Lean only.
-/
import RumaModel.Model.EventDispatch
namespace Ruma.EventDispatch
open Ruma

/-! ### `field1` and permutations -/

/-- The case analysis `field1` makes on the filtered entry list. -/
def pick1 : List (Str × JVal) → Except Err (Option JVal)
  | [] => .ok none
  | [e] => .ok (some e.2)
  | _ :: _ :: _ => .error .duplicateField

theorem field1_eq (o : Obj) (k : Str) : field1 o k = pick1 (o.filter (fun e => e.1 == k)) := by
  unfold field1
  generalize o.filter (fun e => e.1 == k) = l
  match l with
  | [] => rfl
  | [_] => rfl
  | _ :: _ :: _ => rfl

theorem pick1_perm {l l' : List (Str × JVal)} (h : l.Perm l') : pick1 l = pick1 l' := by
  match l, l', h with
  | [], l', h => rw [h.symm.eq_nil]
  | [e], l', h => rw [List.perm_singleton.mp h.symm]
  | a :: b :: t, l', h =>
    have hl := h.length_eq
    match l', hl with
    | [], hl => simp at hl
    | [_], hl => simp at hl
    | _ :: _ :: _, _ => rfl

theorem field1_perm {o o' : Obj} (h : o.Perm o') (k : Str) : field1 o k = field1 o' k := by
  rw [field1_eq, field1_eq]
  exact pick1_perm (h.filter _)

theorem typeHelper_perm {o o' : Obj} (h : o.Perm o') : typeHelper o = typeHelper o' := by
  unfold typeHelper; rw [field1_perm h]

theorem redactionHelper_perm {o o' : Obj} (h : o.Perm o') : redactionHelper o = redactionHelper o' := by
  unfold redactionHelper; rw [field1_perm h]

theorem dispatchKind_perm (tbl : Kind → Table) (k : Kind) (mr : Bool) {o o' : Obj} (h : o.Perm o') :
    dispatchKind tbl k mr o = dispatchKind tbl k mr o' := by
  unfold dispatchKind; rw [typeHelper_perm h, redactionHelper_perm h]

theorem dispatchTimeline_perm (tbl : Kind → Table) {o o' : Obj} (h : o.Perm o') :
    dispatchTimeline tbl o = dispatchTimeline tbl o' := by
  unfold dispatchTimeline
  rw [field1_perm h, dispatchKind_perm tbl .state true h, dispatchKind_perm tbl .messageLike true h]

/-- Reordering the entries of `unsigned` does not change what the helper reads. -/
theorem unsignedHelper_perm {u u' : Obj} (h : u.Perm u') :
    unsignedHelper (.obj u) = unsignedHelper (.obj u') := by
  simp only [unsignedHelper]; rw [field1_perm h]

/-! ### `field1` on a list with one distinguished entry -/

theorem filter_mid (pre post : Obj) (k k' : Str) (v : JVal) :
    (pre ++ (k', v) :: post).filter (fun e => e.1 == k)
      = pre.filter (fun e => e.1 == k) ++ (if k' == k then [(k', v)] else [])
        ++ post.filter (fun e => e.1 == k) := by
  rw [List.filter_append, List.filter_cons]
  by_cases h : (k' == k) = true <;> simp [h]

theorem field1_mid_ne (pre post : Obj) (k k' : Str) (v v' : JVal) (hk : (k' == k) = false) :
    field1 (pre ++ (k', v) :: post) k = field1 (pre ++ (k', v') :: post) k := by
  rw [field1_eq, field1_eq, filter_mid, filter_mid]; simp [hk]

/-- Replacing the value of one `unsigned` entry by one the helper reads identically leaves the
redaction decision unchanged. -/
theorem redactionHelper_mid (pre post : Obj) (v v' : JVal)
    (hn : isNull v = isNull v') (hu : unsignedHelper v = unsignedHelper v') :
    redactionHelper (pre ++ (bs "unsigned", v) :: post)
      = redactionHelper (pre ++ (bs "unsigned", v') :: post) := by
  unfold redactionHelper
  rw [field1_eq, field1_eq, filter_mid, filter_mid]
  simp only [beq_self_eq_true, if_true]
  generalize pre.filter (fun e => e.1 == bs "unsigned") = a
  generalize post.filter (fun e => e.1 == bs "unsigned") = b
  match a, b with
  | [], [] => simp [pick1, hn, hu]
  | [], _ :: _ => simp [pick1]
  | [_], _ => simp [pick1]
  | _ :: _ :: _, _ => simp [pick1]

/-! ### Membership and uniqueness behind a successful `field1` -/

theorem field1_some_mem {o : Obj} {k : Str} {v : JVal} (h : field1 o k = .ok (some v)) :
    (k, v) ∈ o ∧ ∀ v', (k, v') ∈ o → v' = v := by
  rw [field1_eq] at h
  have hf : ∀ e, e ∈ o.filter (fun e => e.1 == k) ↔ e ∈ o ∧ e.1 = k := by
    intro e; simp [List.mem_filter]
  generalize hl : o.filter (fun e => e.1 == k) = l at h hf
  match l, h with
  | [e], h =>
    simp only [pick1] at h
    injection h with h; injection h with h
    have he : e ∈ o ∧ e.1 = k := (hf e).mp (by simp)
    constructor
    · have : e = (k, v) := by
        obtain ⟨a, b⟩ := e
        simp only at h he
        rw [h, he.2]
      rw [← this]; exact he.1
    · intro v' hv'
      have : (k, v') ∈ [e] := (hf _).mpr ⟨hv', rfl⟩
      simp only [List.mem_singleton] at this
      rw [← this] at h; exact h
  | [], h => simp [pick1] at h
  | _ :: _ :: _, h => simp [pick1] at h

theorem field1_none_not_mem {o : Obj} {k : Str} (h : field1 o k = .ok none) :
    ∀ v, (k, v) ∉ o := by
  rw [field1_eq] at h
  intro v hv
  have hm : (k, v) ∈ o.filter (fun e => e.1 == k) := by simp [List.mem_filter, hv]
  generalize o.filter (fun e => e.1 == k) = l at h hm
  match l, h with
  | [], _ => cases hm
  | [_], h => simp [pick1] at h
  | _ :: _ :: _, h => simp [pick1] at h

/-! ### The generated `match` -/

theorem selectRow_none {tbl : Table} {t : Str} :
    selectRow tbl t = none ↔ ∀ r ∈ tbl, r.select t = none := by
  induction tbl with
  | nil => simp [selectRow]
  | cons r rest ih =>
    simp only [selectRow]
    cases hr : r.select t with
    | none => simp [ih, hr]
    | some rt => simp [hr]

theorem selectRow_some_mem {tbl : Table} {t : Str} {r : Row} {rt : Str}
    (h : selectRow tbl t = some (r, rt)) : r ∈ tbl ∧ r.select t = some rt := by
  induction tbl with
  | nil => simp [selectRow] at h
  | cons r0 rest ih =>
    simp only [selectRow] at h
    cases hr : r0.select t with
    | none => rw [hr] at h; have := ih h; exact ⟨List.mem_cons_of_mem _ this.1, this.2⟩
    | some rt0 =>
      rw [hr] at h
      injection h with h; injection h with h1 h2
      subst h1; subst h2
      exact ⟨List.mem_cons_self, hr⟩

/-- Syntactic disjointness of two arms: no string can be accepted by both. -/
def patDisjoint (f1 : Bool) (p1 : Str) (f2 : Bool) (p2 : Str) : Bool :=
  match f1, f2 with
  | false, false => !(p1 == p2)
  | true, false => !((stripStar p1).isPrefixOf p2)
  | false, true => !((stripStar p2).isPrefixOf p1)
  | true, true => !((stripStar p1).isPrefixOf (stripStar p2)) && !((stripStar p2).isPrefixOf (stripStar p1))

def Row.disjoint (a b : Row) : Bool :=
  a.patterns.all (fun p => b.patterns.all (fun q => patDisjoint a.hasFragment p b.hasFragment q))

/-- Well-formed table: arms pairwise disjoint (then arm order is irrelevant). -/
def Table.wf : Table → Bool
  | [] => true
  | r :: rest => rest.all (fun r' => r.disjoint r') && Table.wf rest

/-- The pattern of `r` that accepts `t`, if any. -/
theorem select_some_pattern {r : Row} {t rt : Str} (h : r.select t = some rt) :
    ∃ p ∈ r.patterns, if r.hasFragment then (stripStar p).isPrefixOf t = true else p = t := by
  unfold Row.select at h
  by_cases hf : r.hasFragment = true
  · simp only [hf, if_true] at h
    cases hfind : r.patterns.find? (fun p => (stripStar p).isPrefixOf t) with
    | none => rw [hfind] at h; cases h
    | some p =>
      refine ⟨p, List.mem_of_find?_eq_some hfind, ?_⟩
      simp only [hf, if_true]
      exact List.find?_some (p := fun p => (stripStar p).isPrefixOf t) hfind
  · simp only [hf] at h
    by_cases hc : r.patterns.contains t = true
    · refine ⟨t, by simpa using hc, ?_⟩
      simp [hf]
    · rw [if_neg hc] at h; cases h

theorem patDisjoint_sound {f1 f2 : Bool} {p1 p2 t : Str}
    (h1 : if f1 then (stripStar p1).isPrefixOf t = true else p1 = t)
    (h2 : if f2 then (stripStar p2).isPrefixOf t = true else p2 = t) :
    patDisjoint f1 p1 f2 p2 = false := by
  cases f1 <;> cases f2 <;> simp only [patDisjoint, if_true, Bool.false_eq_true, if_false] at *
  · subst h1; subst h2; simp
  · subst h1; simp [h2]
  · subst h2; simp [h1]
  · have a := List.isPrefixOf_iff_prefix.mp h1
    have b := List.isPrefixOf_iff_prefix.mp h2
    rcases List.prefix_or_prefix_of_prefix a b with c | c
    · simp [List.isPrefixOf_iff_prefix.mpr c]
    · simp [List.isPrefixOf_iff_prefix.mpr c]

theorem disjoint_sound {a b : Row} {t ra rb : Str} (ha : a.select t = some ra)
    (hb : b.select t = some rb) : a.disjoint b = false := by
  obtain ⟨p, hp, hpa⟩ := select_some_pattern ha
  obtain ⟨q, hq, hqb⟩ := select_some_pattern hb
  have := patDisjoint_sound hpa hqb
  unfold Row.disjoint
  cases hall : a.patterns.all (fun p => b.patterns.all (fun q => patDisjoint a.hasFragment p b.hasFragment q)) with
  | false => rfl
  | true =>
    rw [List.all_eq_true] at hall
    have h1 := hall p hp
    rw [List.all_eq_true] at h1
    have h2 := h1 q hq
    rw [this] at h2; cases h2

/-- In a well-formed table the arm that accepts `t` is selected wherever it stands. -/
theorem selectRow_of_wf {tbl : Table} (hwf : Table.wf tbl = true) {r : Row} {t rt : Str}
    (hr : r ∈ tbl) (hs : r.select t = some rt) : selectRow tbl t = some (r, rt) := by
  induction tbl with
  | nil => cases hr
  | cons r0 rest ih =>
    simp only [Table.wf, Bool.and_eq_true] at hwf
    simp only [selectRow]
    rcases List.mem_cons.mp hr with rfl | hmem
    · rw [hs]
    · cases h0 : r0.select t with
      | none => exact ih hwf.2 hmem
      | some rt0 =>
        have hd := disjoint_sound h0 hs
        have := (List.all_eq_true.mp hwf.1) r hmem
        rw [hd] at this; cases this

/-! ### `Raw::get_field` against a full parse -/

theorem get_insert_self (acc : Obj) (k : Str) (v : JVal) : Obj.get (Obj.insert acc k v) k = some v := by
  induction acc with
  | nil => simp [Obj.insert, Obj.get]
  | cons e t ih =>
    obtain ⟨k', v'⟩ := e
    simp only [Obj.insert]
    by_cases h1 : k' = k
    · simp [h1, Obj.get]
    · simp only [h1, if_false]
      by_cases h2 : k < k'
      · simp [h2, Obj.get]
      · simp [h2, Obj.get, h1, ih]

theorem get_insert_ne (acc : Obj) (k k2 : Str) (v : JVal) (h : k ≠ k2) :
    Obj.get (Obj.insert acc k v) k2 = Obj.get acc k2 := by
  induction acc with
  | nil => simp [Obj.insert, Obj.get, h]
  | cons e t ih =>
    obtain ⟨k', v'⟩ := e
    simp only [Obj.insert]
    by_cases h1 : k' = k
    · subst h1; simp [Obj.get, h]
    · simp only [h1, if_false]
      by_cases h2 : k < k'
      · simp [h2, Obj.get, h]
      · simp only [h2, if_false, Obj.get]
        by_cases h3 : k' = k2
        · simp [h3]
        · simp [h3, ih]

/-- `getField` as a fold with an explicit start value. -/
def getFieldFrom (init : Option JVal) (o : Obj) (k : Str) : Option JVal :=
  o.foldl (fun res e => if e.1 == k then some e.2 else res) init

theorem getField_eq_from (o : Obj) (k : Str) : getField o k = getFieldFrom none o k := rfl

theorem fullParseO_get (acc : Obj) (o : Obj) (k : Str) :
    Obj.get (fullParseO acc o) k = getFieldFrom (Obj.get acc k) (o.map (fun e => (e.1, fullParse e.2))) k := by
  induction o generalizing acc with
  | nil => simp [fullParseO, getFieldFrom]
  | cons e t ih =>
    obtain ⟨k', v⟩ := e
    rw [fullParseO, ih]
    simp only [getFieldFrom, List.map_cons, List.foldl_cons]
    by_cases h : k' = k
    · subst h; simp [get_insert_self]
    · have hb : (k' == k) = false := by simp [h]
      simp [hb, get_insert_ne _ _ _ _ h]

theorem getFieldFrom_map (init : Option JVal) (o : Obj) (k : Str) (f : JVal → JVal) :
    getFieldFrom (init.map f) (o.map (fun e => (e.1, f e.2))) k = (getFieldFrom init o k).map f := by
  induction o generalizing init with
  | nil => simp [getFieldFrom]
  | cons e t ih =>
    simp only [getFieldFrom, List.map_cons, List.foldl_cons] at *
    by_cases h : (e.1 == k) = true
    · simp only [h, if_true]; exact ih (some e.2)
    · simp only [h]; exact ih init

/-- The last entry with key `k`, described without a fold. -/
theorem getFieldFrom_append (init : Option JVal) (a b : Obj) (k : Str) :
    getFieldFrom init (a ++ b) k = getFieldFrom (getFieldFrom init a k) b k := by
  simp [getFieldFrom, List.foldl_append]

theorem getFieldFrom_no_key (init : Option JVal) (o : Obj) (k : Str) (h : ∀ e ∈ o, e.1 ≠ k) :
    getFieldFrom init o k = init := by
  induction o generalizing init with
  | nil => rfl
  | cons e t ih =>
    simp only [getFieldFrom, List.foldl_cons]
    have he : (e.1 == k) = false := by simpa using h e List.mem_cons_self
    simp only [he]
    exact ih init (fun e' he' => h e' (List.mem_cons_of_mem _ he'))

/-! ### `rawText` -/

theorem dropWhile_suffix (p : Nat → Bool) (l : List Nat) :
    ∃ pre, l = pre ++ l.dropWhile p ∧ ∀ b ∈ pre, p b = true := by
  induction l with
  | nil => exact ⟨[], rfl, by simp⟩
  | cons a t ih =>
    by_cases h : p a = true
    · obtain ⟨pre, h1, h2⟩ := ih
      refine ⟨a :: pre, ?_, ?_⟩
      · simp only [List.dropWhile_cons, h, if_true, List.cons_append]; rw [← h1]
      · intro b hb
        rcases List.mem_cons.mp hb with rfl | hb
        · exact h
        · exact h2 b hb
    · refine ⟨[], ?_, by simp⟩
      simp [h]

theorem dropWhile_id_of_head (p : Nat → Bool) (l : List Nat) (h : ∀ a, l.head? = some a → p a = false) :
    l.dropWhile p = l := by
  cases l with
  | nil => rfl
  | cons a t => simp [h a rfl]

end Ruma.EventDispatch
