/-
  Stage lemmas for `resolve`: each stage of the model is characterised in order-free terms
  (membership / lookup), which gives both the correspondence with `Spec/StateResV2.lean` (C07) and
  the independence of iteration orders and argument permutations (C06).
-/
import RumaModel.Lemmas.StateResBasic
import RumaModel.Lemmas.StateResTopo
namespace Ruma.StateRes
open Ruma Ruma.Spec.StateResV2

theorem mem_of_cntOf [DecidableEq κ] {m : List (κ × Nat)} (hn : (AL.keys m).Nodup) {k : κ} {c : Nat} :
    (k, c) ∈ m ↔ k ∈ AL.keys m ∧ cntOf m k = c := by
  constructor
  · intro h
    refine ⟨List.mem_map_of_mem (f := Prod.fst) h, ?_⟩
    simp [cntOf, AL.get_of_mem_nodup hn h]
  · rintro ⟨h1, h2⟩
    cases hg : AL.get m k with
    | none => exact absurd h1 ((AL.get_eq_none_iff m k).mp hg)
    | some c' =>
      simp [cntOf, hg] at h2; subst h2
      exact AL.get_some_mem hg

theorem count_flatten_of_nodup [DecidableEq α] (a : α) : ∀ (ls : List (List α)), (∀ l ∈ ls, l.Nodup) →
    ls.flatten.count a = (ls.filter (fun l => l.contains a)).length
  | [], _ => by simp
  | l :: ls, h => by
    have ih := count_flatten_of_nodup a ls (fun l' hl' => h l' (List.mem_cons_of_mem _ hl'))
    have hl := h l (by simp)
    simp only [List.flatten_cons, List.count_append, ih, List.filter_cons]
    by_cases ha : a ∈ l
    · have h1 : l.count a ≤ 1 := List.nodup_iff_count.mp hl a
      have h2 : 0 < l.count a := List.count_pos_iff.mpr ha
      have : l.count a = 1 := by omega
      simp [ha, this]; omega
    · have : l.count a = 0 := List.count_eq_zero_of_not_mem ha
      simp [ha, this]

theorem filter_length_lt_iff {p : α → Bool} : ∀ {l : List α},
    (l.filter p).length < l.length ↔ ∃ x ∈ l, p x = false
  | [] => by simp
  | x :: xs => by
    have ih := filter_length_lt_iff (p := p) (l := xs)
    have hle := List.length_filter_le p xs
    by_cases hx : p x = true
    · simp only [List.filter_cons, hx, if_true, List.length_cons, Nat.add_lt_add_iff_right, ih,
        List.mem_cons, exists_eq_or_imp]
      simp [hx]
    · simp only [List.filter_cons, hx, List.length_cons, List.mem_cons, exists_eq_or_imp]
      simp at hx
      simp [hx]; omega

/-- Membership in the model's auth-chain difference, in order-free terms. -/
theorem mem_authChainDiff {o : Orders} (ho : o.Valid) {chains : List (List Id)}
    (hn : ∀ c ∈ chains, c.Nodup) (id : Id) :
    id ∈ authChainDiff o chains ↔ (∃ c ∈ chains, id ∈ c) ∧ (∃ c ∈ chains, id ∉ c) := by
  unfold authChainDiff idCounts
  obtain ⟨hk1, hk2⟩ := keys_foldl_bump chains.flatten ([] : List (Id × Nat)) (by simp [AL.keys])
  simp only [List.mem_filterMap, (ho.idCounts _).mem_iff]
  constructor
  · rintro ⟨⟨i, c⟩, hm, hc⟩
    split at hc
    next hlt =>
      simp at hc; subst hc
      obtain ⟨h1, h2⟩ := (mem_of_cntOf hk1).mp hm
      rw [cntOf_foldl_bump] at h2
      simp [cntOf] at h2
      have hmem : i ∈ chains.flatten := by
        have := (hk2 i).mp h1; simpa [AL.keys] using this
      rw [count_flatten_of_nodup i chains hn] at h2
      simp only [] at hlt
      rw [← h2] at hlt
      obtain ⟨x, hx, hpx⟩ := filter_length_lt_iff.mp hlt
      refine ⟨by simpa using hmem, x, hx, by simpa using hpx⟩
    next => cases hc
  · rintro ⟨⟨c, hc, hic⟩, ⟨c', hc', hic'⟩⟩
    refine ⟨(id, cntOf (List.foldl bump [] chains.flatten) id), ?_, ?_⟩
    · rw [mem_of_cntOf hk1]
      exact ⟨(hk2 id).mpr (.inl (List.mem_flatten.mpr ⟨c, hc, hic⟩)), rfl⟩
    · have : cntOf (List.foldl bump [] chains.flatten) id < chains.length := by
        rw [cntOf_foldl_bump, count_flatten_of_nodup id chains hn]
        simp only [cntOf, AL.get_nil, Nat.zero_add]
        exact filter_length_lt_iff.mpr ⟨c', hc', by simpa using hic'⟩
      simp [this]

theorem mem_authDifference {chains : List (List Id)} (id : Id) :
    id ∈ authDifference chains ↔ (∃ c ∈ chains, id ∈ c) ∧ (∃ c ∈ chains, id ∉ c) := by
  unfold authDifference
  rw [mem_dedup]
  simp only [List.mem_filter, List.mem_flatten, Bool.not_eq_true', List.all_eq_false,
    List.contains_iff_mem, decide_eq_false_iff_not]

theorem nodup_authChainDiff {o : Orders} (ho : o.Valid) (chains : List (List Id)) :
    (authChainDiff o chains).Nodup := by
  unfold authChainDiff idCounts
  obtain ⟨hk1, _⟩ := keys_foldl_bump chains.flatten ([] : List (Id × Nat)) (by simp [AL.keys])
  have hk : (AL.keys (o.idCounts.sh (List.foldl bump [] chains.flatten))).Nodup :=
    ((ho.idCounts _).map _).symm.nodup hk1
  generalize o.idCounts.sh (List.foldl bump [] chains.flatten) = l at hk
  induction l with
  | nil => simp
  | cons a t ih =>
    simp only [AL.keys, List.map_cons, List.nodup_cons] at hk
    simp only [List.filterMap_cons]
    split
    · exact ih hk.2
    next b hb =>
      split at hb
      · simp at hb; subst hb
        refine List.nodup_cons.mpr ⟨?_, ih hk.2⟩
        intro hm
        obtain ⟨x, hx, hxe⟩ := List.mem_filterMap.mp hm
        split at hxe
        · simp at hxe; apply hk.1; rw [← hxe]; exact List.mem_map_of_mem hx
        · cases hxe
      · cases hb
/-! ### `separate` -/

/-- The `(key, id, count)` triples in the order the two nested loops of `separate` visit them. -/
def triples (o : Orders) (occ : List (SKey × List (Id × Nat))) : List (SKey × (Id × Nat)) :=
  (o.occ.sh occ).flatMap (fun kv => ((o.occIn kv.1).sh kv.2).map (fun ic => (kv.1, ic)))

def sepFold (n : Nat) (T : List (SKey × (Id × Nat))) (acc : StateMap × List (SKey × List Id)) :
    StateMap × List (SKey × List Id) :=
  T.foldl (fun acc t => separateStep n t.1 acc t.2) acc

theorem separate_eq_sepFold (o : Orders) (sets : List StateMap) :
    separate o sets = sepFold sets.length (triples o (occurrences sets)) ([], []) := by
  unfold separate triples sepFold
  generalize o.occ.sh (occurrences sets) = l
  generalize (([], []) : StateMap × List (SKey × List Id)) = acc
  induction l generalizing acc with
  | nil => rfl
  | cons a t ih =>
    simp only [List.foldl_cons, List.flatMap_cons, List.foldl_append, List.foldl_map]
    exact ih _

theorem mem_triples {o : Orders} (ho : o.Valid) {occ : List (SKey × List (Id × Nat))}
    {k : SKey} {v : Id} {c : Nat} :
    (k, (v, c)) ∈ triples o occ ↔ ∃ m, (k, m) ∈ occ ∧ (v, c) ∈ m := by
  unfold triples
  simp only [List.mem_flatMap, List.mem_map, (ho.occ _).mem_iff]
  constructor
  · rintro ⟨⟨k', m⟩, hm, ⟨ic, hic, he⟩⟩
    simp only [Prod.mk.injEq] at he
    obtain ⟨h1, h2⟩ := he
    subst h1; subst h2
    exact ⟨m, hm, ((ho.occIn _) _).mem_iff.mp hic⟩
  · rintro ⟨m, hm, hvc⟩
    exact ⟨(k, m), hm, (v, c), ((ho.occIn _) _).mem_iff.mpr hvc, rfl⟩

/-! `sepFold` -/

theorem sepFold_clean_sound (n : Nat) : ∀ (T : List (SKey × (Id × Nat))) (acc) (k : SKey) (v : Id),
    AL.get (sepFold n T acc).1 k = some v → (k, (v, n)) ∈ T ∨ AL.get acc.1 k = some v := by
  intro T
  induction T with
  | nil => intro acc k v h; exact .inr h
  | cons t T ih =>
    intro acc k v h
    obtain ⟨tk, tv, tc⟩ := t
    simp only [sepFold, List.foldl_cons] at h
    rcases ih _ k v h with h1 | h1
    · exact .inl (List.mem_cons_of_mem _ h1)
    · simp only [separateStep] at h1
      split at h1
      next hc =>
        simp only [AL.get_insert] at h1
        split at h1
        next hk =>
          simp at h1; subst h1; subst hk
          have hc' : tc = n := hc
          subst hc'; exact .inl (by simp)
        next => exact .inr h1
      next => exact .inr h1

theorem sepFold_clean_mono (n : Nat) : ∀ (T : List (SKey × (Id × Nat))) (acc) (k : SKey),
    (AL.get acc.1 k).isSome → (AL.get (sepFold n T acc).1 k).isSome := by
  intro T
  induction T with
  | nil => intro acc k h; exact h
  | cons t T ih =>
    intro acc k h
    simp only [sepFold, List.foldl_cons]
    apply ih
    simp only [separateStep]
    split
    · simp only [AL.get_insert]; split <;> simp [h]
    · exact h

theorem sepFold_clean_complete (n : Nat) : ∀ (T : List (SKey × (Id × Nat))) (acc) (k : SKey) (v : Id),
    (k, (v, n)) ∈ T → (AL.get (sepFold n T acc).1 k).isSome := by
  intro T
  induction T with
  | nil => intro acc k v h; cases h
  | cons t T ih =>
    intro acc k v h
    simp only [sepFold, List.foldl_cons]
    rcases List.mem_cons.mp h with h | h
    · subst h
      apply sepFold_clean_mono
      simp [separateStep, AL.get_insert_self]
    · exact ih _ k v h

def confIds (cf : List (SKey × List Id)) : List Id := (cf.map (·.2)).flatten

theorem confIds_confPush : ∀ (cf : List (SKey × List Id)) (k : SKey) (v x : Id),
    x ∈ confIds (confPush cf k v) ↔ x = v ∨ x ∈ confIds cf
  | [], k, v, x => by simp [confPush, confIds]
  | (q, m) :: t, k, v, x => by
    have ih := confIds_confPush t k v x
    simp only [confIds] at ih ⊢
    by_cases hq : q = k
    · simp only [confPush, hq, if_true, List.map_cons, List.flatten_cons, List.mem_append,
        List.mem_singleton]
      constructor
      · rintro ((h | h) | h); exact .inr (.inl h); exact .inl h; exact .inr (.inr h)
      · rintro (h | h | h); exact .inl (.inr h); exact .inl (.inl h); exact .inr h
    · simp only [confPush, hq, if_false, List.map_cons, List.flatten_cons, List.mem_append, ih]
      constructor
      · rintro (h | h | h); exact .inr (.inl h); exact .inl h; exact .inr (.inr h)
      · rintro (h | h | h); exact .inr (.inl h); exact .inl h; exact .inr (.inr h)

theorem sepFold_conf (n : Nat) : ∀ (T : List (SKey × (Id × Nat))) (acc) (x : Id),
    x ∈ confIds (sepFold n T acc).2 ↔ (∃ k c, (k, (x, c)) ∈ T ∧ c ≠ n) ∨ x ∈ confIds acc.2 := by
  intro T
  induction T with
  | nil => intro acc x; simp [sepFold]
  | cons t T ih =>
    intro acc x
    obtain ⟨tk, tv, tc⟩ := t
    simp only [sepFold, List.foldl_cons]
    have := ih (separateStep n tk acc (tv, tc)) x
    simp only [sepFold] at this
    rw [this]
    simp only [separateStep]
    by_cases hc : tc = n
    · simp only [hc, if_true, List.mem_cons, Prod.mk.injEq]
      constructor
      · rintro (⟨k, c, h1, h2⟩ | h); exact .inl ⟨k, c, .inr h1, h2⟩; exact .inr h
      · rintro (⟨k, c, (⟨_, _, h3⟩ | h1), h2⟩ | h)
        · exact absurd h3 h2
        · exact .inl ⟨k, c, h1, h2⟩
        · exact .inr h
    · simp only [hc, if_false, confIds_confPush, List.mem_cons, Prod.mk.injEq]
      constructor
      · rintro (⟨k, c, h1, h2⟩ | h | h)
        · exact .inl ⟨k, c, .inr h1, h2⟩
        · exact .inl ⟨tk, tc, .inl ⟨rfl, h, rfl⟩, hc⟩
        · exact .inr h
      · rintro (⟨k, c, (⟨_, h3, h4⟩ | h1), h2⟩ | h)
        · exact .inr (.inl h3)
        · exact .inl ⟨k, c, h1, h2⟩
        · exact .inr (.inr h)

theorem sepFold_conf_nil (n : Nat) : ∀ (T : List (SKey × (Id × Nat))) (acc),
    (∀ t ∈ T, t.2.2 = n) → (sepFold n T acc).2 = acc.2 := by
  intro T
  induction T with
  | nil => intro acc _; rfl
  | cons t T ih =>
    intro acc h
    simp only [sepFold, List.foldl_cons]
    have := ih (separateStep n t.1 acc t.2) (fun t' ht' => h t' (List.mem_cons_of_mem _ ht'))
    simp only [sepFold] at this
    rw [this]
    simp [separateStep, h t (by simp)]

theorem confPush_ne_nil (cf : List (SKey × List Id)) (k : SKey) (v : Id) : confPush cf k v ≠ [] := by
  cases cf with
  | nil => simp [confPush]
  | cons a t => obtain ⟨q, m⟩ := a; simp only [confPush]; split <;> simp

theorem sepFold_conf_ne_nil (n : Nat) : ∀ (T : List (SKey × (Id × Nat))) (acc),
    acc.2 ≠ [] → (sepFold n T acc).2 ≠ [] := by
  intro T
  induction T with
  | nil => intro acc h; exact h
  | cons t T ih =>
    intro acc h
    simp only [sepFold, List.foldl_cons]
    apply ih
    simp only [separateStep]
    split
    · exact h
    · exact confPush_ne_nil _ _ _

theorem sepFold_conf_isEmpty (n : Nat) (T : List (SKey × (Id × Nat))) :
    (sepFold n T ([], [])).2 = [] ↔ ∀ t ∈ T, t.2.2 = n := by
  constructor
  · intro h t ht
    apply Classical.byContradiction
    intro hc
    have := (sepFold_conf n T ([], []) t.2.1).mpr (.inl ⟨t.1, t.2.2, ht, hc⟩)
    rw [h] at this
    simp [confIds] at this
  · intro h; exact sepFold_conf_nil n T _ h
end Ruma.StateRes
