/-
  Stage lemmas for `resolve`: each stage of the model is characterised in order-free terms
  (membership / lookup), which gives both the correspondence with `Spec/StateResV2.lean` (C07) and
  the independence of iteration orders and argument permutations (C06).
-/
import RumaModel.Lemmas.StateResBasic
import RumaModel.Lemmas.StateResTopo
namespace Ruma.StateRes
open Ruma Ruma.Spec.StateResV2

theorem mem_of_cntOf [DecidableEq κ] {m : List (κ × Nat)} (hn : (AL.keys m).Nodup) {k : κ} {c : Nat} :
    (k, c) ∈ m ↔ k ∈ AL.keys m ∧ cntOf m k = c := by
  constructor
  · intro h
    refine ⟨List.mem_map_of_mem (f := Prod.fst) h, ?_⟩
    simp [cntOf, AL.get_of_mem_nodup hn h]
  · rintro ⟨h1, h2⟩
    cases hg : AL.get m k with
    | none => exact absurd h1 ((AL.get_eq_none_iff m k).mp hg)
    | some c' =>
      simp [cntOf, hg] at h2; subst h2
      exact AL.get_some_mem hg

theorem count_flatten_of_nodup [DecidableEq α] (a : α) : ∀ (ls : List (List α)), (∀ l ∈ ls, l.Nodup) →
    ls.flatten.count a = (ls.filter (fun l => l.contains a)).length
  | [], _ => by simp
  | l :: ls, h => by
    have ih := count_flatten_of_nodup a ls (fun l' hl' => h l' (List.mem_cons_of_mem _ hl'))
    have hl := h l (by simp)
    simp only [List.flatten_cons, List.count_append, ih, List.filter_cons]
    by_cases ha : a ∈ l
    · have h1 : l.count a ≤ 1 := List.nodup_iff_count.mp hl a
      have h2 : 0 < l.count a := List.count_pos_iff.mpr ha
      have : l.count a = 1 := by omega
      simp [ha, this]; omega
    · have : l.count a = 0 := List.count_eq_zero_of_not_mem ha
      simp [ha, this]

theorem filter_length_lt_iff {p : α → Bool} : ∀ {l : List α},
    (l.filter p).length < l.length ↔ ∃ x ∈ l, p x = false
  | [] => by simp
  | x :: xs => by
    have ih := filter_length_lt_iff (p := p) (l := xs)
    have hle := List.length_filter_le p xs
    by_cases hx : p x = true
    · simp only [List.filter_cons, hx, if_true, List.length_cons, Nat.add_lt_add_iff_right, ih,
        List.mem_cons, exists_eq_or_imp]
      simp [hx]
    · simp only [List.filter_cons, hx, List.length_cons, List.mem_cons, exists_eq_or_imp]
      simp at hx
      simp [hx]; omega

/-- Membership in the model's auth-chain difference, in order-free terms. -/
theorem mem_authChainDiff {o : Orders} (ho : o.Valid) {chains : List (List Id)}
    (hn : ∀ c ∈ chains, c.Nodup) (id : Id) :
    id ∈ authChainDiff o chains ↔ (∃ c ∈ chains, id ∈ c) ∧ (∃ c ∈ chains, id ∉ c) := by
  unfold authChainDiff idCounts
  obtain ⟨hk1, hk2⟩ := keys_foldl_bump chains.flatten ([] : List (Id × Nat)) (by simp [AL.keys])
  simp only [List.mem_filterMap, (ho.idCounts _).mem_iff]
  constructor
  · rintro ⟨⟨i, c⟩, hm, hc⟩
    split at hc
    next hlt =>
      simp at hc; subst hc
      obtain ⟨h1, h2⟩ := (mem_of_cntOf hk1).mp hm
      rw [cntOf_foldl_bump] at h2
      simp [cntOf] at h2
      have hmem : i ∈ chains.flatten := by
        have := (hk2 i).mp h1; simpa [AL.keys] using this
      rw [count_flatten_of_nodup i chains hn] at h2
      simp only [] at hlt
      rw [← h2] at hlt
      obtain ⟨x, hx, hpx⟩ := filter_length_lt_iff.mp hlt
      refine ⟨by simpa using hmem, x, hx, by simpa using hpx⟩
    next => cases hc
  · rintro ⟨⟨c, hc, hic⟩, ⟨c', hc', hic'⟩⟩
    refine ⟨(id, cntOf (List.foldl bump [] chains.flatten) id), ?_, ?_⟩
    · rw [mem_of_cntOf hk1]
      exact ⟨(hk2 id).mpr (.inl (List.mem_flatten.mpr ⟨c, hc, hic⟩)), rfl⟩
    · have : cntOf (List.foldl bump [] chains.flatten) id < chains.length := by
        rw [cntOf_foldl_bump, count_flatten_of_nodup id chains hn]
        simp only [cntOf, AL.get_nil, Nat.zero_add]
        exact filter_length_lt_iff.mpr ⟨c', hc', by simpa using hic'⟩
      simp [this]

theorem mem_authDifference {chains : List (List Id)} (id : Id) :
    id ∈ authDifference chains ↔ (∃ c ∈ chains, id ∈ c) ∧ (∃ c ∈ chains, id ∉ c) := by
  unfold authDifference
  rw [mem_dedup]
  simp only [List.mem_filter, List.mem_flatten, Bool.not_eq_true', List.all_eq_false,
    List.contains_iff_mem, decide_eq_false_iff_not]

theorem nodup_authChainDiff {o : Orders} (ho : o.Valid) (chains : List (List Id)) :
    (authChainDiff o chains).Nodup := by
  unfold authChainDiff idCounts
  obtain ⟨hk1, _⟩ := keys_foldl_bump chains.flatten ([] : List (Id × Nat)) (by simp [AL.keys])
  have hk : (AL.keys (o.idCounts.sh (List.foldl bump [] chains.flatten))).Nodup :=
    ((ho.idCounts _).map _).symm.nodup hk1
  generalize o.idCounts.sh (List.foldl bump [] chains.flatten) = l at hk
  induction l with
  | nil => simp
  | cons a t ih =>
    simp only [AL.keys, List.map_cons, List.nodup_cons] at hk
    simp only [List.filterMap_cons]
    split
    · exact ih hk.2
    next b hb =>
      split at hb
      · simp at hb; subst hb
        refine List.nodup_cons.mpr ⟨?_, ih hk.2⟩
        intro hm
        obtain ⟨x, hx, hxe⟩ := List.mem_filterMap.mp hm
        split at hxe
        · simp at hxe; apply hk.1; rw [← hxe]; exact List.mem_map_of_mem hx
        · cases hxe
      · cases hb
/-! ### `separate` -/

/-- The `(key, id, count)` triples in the order the two nested loops of `separate` visit them. -/
def triples (o : Orders) (occ : List (SKey × List (Id × Nat))) : List (SKey × (Id × Nat)) :=
  (o.occ.sh occ).flatMap (fun kv => ((o.occIn kv.1).sh kv.2).map (fun ic => (kv.1, ic)))

def sepFold (n : Nat) (T : List (SKey × (Id × Nat))) (acc : StateMap × List (SKey × List Id)) :
    StateMap × List (SKey × List Id) :=
  T.foldl (fun acc t => separateStep n t.1 acc t.2) acc

theorem separate_eq_sepFold (o : Orders) (sets : List StateMap) :
    separate o sets = sepFold sets.length (triples o (occurrences sets)) ([], []) := by
  unfold separate triples sepFold
  generalize o.occ.sh (occurrences sets) = l
  generalize (([], []) : StateMap × List (SKey × List Id)) = acc
  induction l generalizing acc with
  | nil => rfl
  | cons a t ih =>
    simp only [List.foldl_cons, List.flatMap_cons, List.foldl_append, List.foldl_map]
    exact ih _

theorem mem_triples {o : Orders} (ho : o.Valid) {occ : List (SKey × List (Id × Nat))}
    {k : SKey} {v : Id} {c : Nat} :
    (k, (v, c)) ∈ triples o occ ↔ ∃ m, (k, m) ∈ occ ∧ (v, c) ∈ m := by
  unfold triples
  simp only [List.mem_flatMap, List.mem_map, (ho.occ _).mem_iff]
  constructor
  · rintro ⟨⟨k', m⟩, hm, ⟨ic, hic, he⟩⟩
    simp only [Prod.mk.injEq] at he
    obtain ⟨h1, h2⟩ := he
    subst h1; subst h2
    exact ⟨m, hm, ((ho.occIn _) _).mem_iff.mp hic⟩
  · rintro ⟨m, hm, hvc⟩
    exact ⟨(k, m), hm, (v, c), ((ho.occIn _) _).mem_iff.mpr hvc, rfl⟩

/-! `sepFold` -/

theorem sepFold_clean_sound (n : Nat) : ∀ (T : List (SKey × (Id × Nat))) (acc) (k : SKey) (v : Id),
    AL.get (sepFold n T acc).1 k = some v → (k, (v, n)) ∈ T ∨ AL.get acc.1 k = some v := by
  intro T
  induction T with
  | nil => intro acc k v h; exact .inr h
  | cons t T ih =>
    intro acc k v h
    obtain ⟨tk, tv, tc⟩ := t
    simp only [sepFold, List.foldl_cons] at h
    rcases ih _ k v h with h1 | h1
    · exact .inl (List.mem_cons_of_mem _ h1)
    · simp only [separateStep] at h1
      split at h1
      next hc =>
        simp only [AL.get_insert] at h1
        split at h1
        next hk =>
          simp at h1; subst h1; subst hk
          have hc' : tc = n := hc
          subst hc'; exact .inl (by simp)
        next => exact .inr h1
      next => exact .inr h1

theorem sepFold_clean_mono (n : Nat) : ∀ (T : List (SKey × (Id × Nat))) (acc) (k : SKey),
    (AL.get acc.1 k).isSome → (AL.get (sepFold n T acc).1 k).isSome := by
  intro T
  induction T with
  | nil => intro acc k h; exact h
  | cons t T ih =>
    intro acc k h
    simp only [sepFold, List.foldl_cons]
    apply ih
    simp only [separateStep]
    split
    · simp only [AL.get_insert]; split <;> simp [h]
    · exact h

theorem sepFold_clean_complete (n : Nat) : ∀ (T : List (SKey × (Id × Nat))) (acc) (k : SKey) (v : Id),
    (k, (v, n)) ∈ T → (AL.get (sepFold n T acc).1 k).isSome := by
  intro T
  induction T with
  | nil => intro acc k v h; cases h
  | cons t T ih =>
    intro acc k v h
    simp only [sepFold, List.foldl_cons]
    rcases List.mem_cons.mp h with h | h
    · subst h
      apply sepFold_clean_mono
      simp [separateStep, AL.get_insert_self]
    · exact ih _ k v h

def confIds (cf : List (SKey × List Id)) : List Id := (cf.map (·.2)).flatten

theorem confIds_confPush : ∀ (cf : List (SKey × List Id)) (k : SKey) (v x : Id),
    x ∈ confIds (confPush cf k v) ↔ x = v ∨ x ∈ confIds cf
  | [], k, v, x => by simp [confPush, confIds]
  | (q, m) :: t, k, v, x => by
    have ih := confIds_confPush t k v x
    simp only [confIds] at ih ⊢
    by_cases hq : q = k
    · simp only [confPush, hq, if_true, List.map_cons, List.flatten_cons, List.mem_append,
        List.mem_singleton]
      constructor
      · rintro ((h | h) | h); exact .inr (.inl h); exact .inl h; exact .inr (.inr h)
      · rintro (h | h | h); exact .inl (.inr h); exact .inl (.inl h); exact .inr h
    · simp only [confPush, hq, if_false, List.map_cons, List.flatten_cons, List.mem_append, ih]
      constructor
      · rintro (h | h | h); exact .inr (.inl h); exact .inl h; exact .inr (.inr h)
      · rintro (h | h | h); exact .inr (.inl h); exact .inl h; exact .inr (.inr h)

theorem sepFold_conf (n : Nat) : ∀ (T : List (SKey × (Id × Nat))) (acc) (x : Id),
    x ∈ confIds (sepFold n T acc).2 ↔ (∃ k c, (k, (x, c)) ∈ T ∧ c ≠ n) ∨ x ∈ confIds acc.2 := by
  intro T
  induction T with
  | nil => intro acc x; simp [sepFold]
  | cons t T ih =>
    intro acc x
    obtain ⟨tk, tv, tc⟩ := t
    simp only [sepFold, List.foldl_cons]
    have := ih (separateStep n tk acc (tv, tc)) x
    simp only [sepFold] at this
    rw [this]
    simp only [separateStep]
    by_cases hc : tc = n
    · simp only [hc, if_true, List.mem_cons, Prod.mk.injEq]
      constructor
      · rintro (⟨k, c, h1, h2⟩ | h); exact .inl ⟨k, c, .inr h1, h2⟩; exact .inr h
      · rintro (⟨k, c, (⟨_, _, h3⟩ | h1), h2⟩ | h)
        · exact absurd h3 h2
        · exact .inl ⟨k, c, h1, h2⟩
        · exact .inr h
    · simp only [hc, if_false, confIds_confPush, List.mem_cons, Prod.mk.injEq]
      constructor
      · rintro (⟨k, c, h1, h2⟩ | h | h)
        · exact .inl ⟨k, c, .inr h1, h2⟩
        · exact .inl ⟨tk, tc, .inl ⟨rfl, h, rfl⟩, hc⟩
        · exact .inr h
      · rintro (⟨k, c, (⟨_, h3, h4⟩ | h1), h2⟩ | h)
        · exact .inr (.inl h3)
        · exact .inl ⟨k, c, h1, h2⟩
        · exact .inr (.inr h)

theorem sepFold_conf_nil (n : Nat) : ∀ (T : List (SKey × (Id × Nat))) (acc),
    (∀ t ∈ T, t.2.2 = n) → (sepFold n T acc).2 = acc.2 := by
  intro T
  induction T with
  | nil => intro acc _; rfl
  | cons t T ih =>
    intro acc h
    simp only [sepFold, List.foldl_cons]
    have := ih (separateStep n t.1 acc t.2) (fun t' ht' => h t' (List.mem_cons_of_mem _ ht'))
    simp only [sepFold] at this
    rw [this]
    simp [separateStep, h t (by simp)]

theorem confPush_ne_nil (cf : List (SKey × List Id)) (k : SKey) (v : Id) : confPush cf k v ≠ [] := by
  cases cf with
  | nil => simp [confPush]
  | cons a t => obtain ⟨q, m⟩ := a; simp only [confPush]; split <;> simp

theorem sepFold_conf_ne_nil (n : Nat) : ∀ (T : List (SKey × (Id × Nat))) (acc),
    acc.2 ≠ [] → (sepFold n T acc).2 ≠ [] := by
  intro T
  induction T with
  | nil => intro acc h; exact h
  | cons t T ih =>
    intro acc h
    simp only [sepFold, List.foldl_cons]
    apply ih
    simp only [separateStep]
    split
    · exact h
    · exact confPush_ne_nil _ _ _

theorem sepFold_conf_isEmpty (n : Nat) (T : List (SKey × (Id × Nat))) :
    (sepFold n T ([], [])).2 = [] ↔ ∀ t ∈ T, t.2.2 = n := by
  constructor
  · intro h t ht
    apply Classical.byContradiction
    intro hc
    have := (sepFold_conf n T ([], []) t.2.1).mpr (.inl ⟨t.1, t.2.2, ht, hc⟩)
    rw [h] at this
    simp [confIds] at this
  · intro h; exact sepFold_conf_nil n T _ h

theorem countP_flatten_of_nodup [DecidableEq α] (a : α) : ∀ (ls : List (List α)), (∀ l ∈ ls, l.Nodup) →
    ls.flatten.countP (fun x => decide (x = a)) =
      (ls.filter (fun l => l.any (fun x => decide (x = a)))).length
  | [], _ => by simp
  | l :: ls, h => by
    have ih := countP_flatten_of_nodup a ls (fun l' hl' => h l' (List.mem_cons_of_mem _ hl'))
    have hl := h l (by simp)
    have hc : l.countP (fun x => decide (x = a)) = if a ∈ l then 1 else 0 := by
      clear ih h
      induction l with
      | nil => simp
      | cons x xs ihx =>
        rw [List.nodup_cons] at hl
        rw [List.countP_cons, ihx hl.2]
        by_cases hx : x = a
        · subst hx; simp [hl.1]
        · simp [hx, Ne.symm hx]
    have hany : l.any (fun x => decide (x = a)) = decide (a ∈ l) := by
      by_cases ha : a ∈ l
      · simp only [ha, decide_true, List.any_eq_true, decide_eq_true_eq]; exact ⟨a, ha, rfl⟩
      · simp only [ha, decide_false, List.any_eq_false, decide_eq_true_eq]
        intro x hx he; subst he; exact ha hx
    simp only [List.flatten_cons, List.countP_append, ih, List.filter_cons, hc, hany]
    by_cases ha : a ∈ l <;> simp [ha] <;> omega

theorem cntOf_foldl_bump' [DecidableEq κ] (l : List κ) : ∀ (m : List (κ × Nat)) (k : κ),
    cntOf (l.foldl bump m) k = cntOf m k + l.countP (fun x => decide (x = k)) := by
  induction l with
  | nil => intro m k; simp
  | cons a t ih =>
    intro m k
    simp only [List.foldl_cons, ih, cntOf_bump, List.countP_cons]
    by_cases h : a = k <;> simp [h] <;> omega

def occCount (occ : List (SKey × List (Id × Nat))) (k : SKey) (v : Id) : Nat :=
  match AL.get occ k with
  | some m => cntOf m v
  | none => 0

structure OccWF (occ : List (SKey × List (Id × Nat))) : Prop where
  keys : (AL.keys occ).Nodup
  inner : ∀ p ∈ occ, (AL.keys p.2).Nodup
  pos : ∀ p ∈ occ, ∀ q ∈ p.2, 0 < q.2

theorem bump_pos [DecidableEq κ] : ∀ (m : List (κ × Nat)) (k : κ), (∀ q ∈ m, 0 < q.2) →
    ∀ q ∈ bump m k, 0 < q.2
  | [], k, _, q, hq => by simp [bump] at hq; subst hq; simp
  | (a, c) :: t, k, h, q, hq => by
    by_cases ha : a = k
    · simp only [bump, ha, if_true, List.mem_cons] at hq
      rcases hq with rfl | hq
      · simp
      · exact h q (List.mem_cons_of_mem _ hq)
    · simp only [bump, ha, if_false, List.mem_cons] at hq
      rcases hq with rfl | hq
      · exact h _ (by simp)
      · exact bump_pos t k (fun q hq => h q (List.mem_cons_of_mem _ hq)) q hq

theorem keys_occAdd : ∀ (occ : List (SKey × List (Id × Nat))) (k : SKey) (v : Id) (k' : SKey),
    k' ∈ AL.keys (occAdd occ k v) ↔ k' = k ∨ k' ∈ AL.keys occ
  | [], k, v, k' => by simp [occAdd, AL.keys]
  | (q, m) :: t, k, v, k' => by
    have ih := keys_occAdd t k v k'
    simp only [AL.keys] at ih ⊢
    by_cases hq : q = k
    · subst hq
      simp only [occAdd, if_true, List.map_cons, List.mem_cons]
      constructor
      · rintro (h | h); exact .inl h; exact .inr (.inr h)
      · rintro (h | h | h); exact .inl h; exact .inl h; exact .inr h
    · simp only [occAdd, hq, if_false, List.map_cons, List.mem_cons, ih]
      constructor
      · rintro (h | h | h); exact .inr (.inl h); exact .inl h; exact .inr (.inr h)
      · rintro (h | h | h); exact .inr (.inl h); exact .inl h; exact .inr (.inr h)

theorem occAdd_wf : ∀ (occ : List (SKey × List (Id × Nat))) (k : SKey) (v : Id), OccWF occ →
    OccWF (occAdd occ k v)
  | [], k, v, _ => by
    refine ⟨by simp [occAdd, AL.keys], ?_, ?_⟩
    · intro p hp; simp [occAdd] at hp; subst hp; simp [AL.keys]
    · intro p hp q hq; simp [occAdd] at hp; subst hp; simp at hq; subst hq; simp
  | (a, m) :: t, k, v, wf => by
    have wft : OccWF t := by
      refine ⟨?_, fun p hp => wf.inner p (List.mem_cons_of_mem _ hp),
        fun p hp => wf.pos p (List.mem_cons_of_mem _ hp)⟩
      have := wf.keys
      simp only [AL.keys, List.map_cons, List.nodup_cons] at this
      exact this.2
    have hk := wf.keys
    simp only [AL.keys, List.map_cons, List.nodup_cons] at hk
    by_cases ha : a = k
    · subst ha
      simp only [occAdd, if_true]
      refine ⟨?_, ?_, ?_⟩
      · simpa [AL.keys] using hk
      · intro p hp
        rcases List.mem_cons.mp hp with rfl | hp
        · exact (keys_bump_nodup m v (wf.inner (a, m) (by simp))).1
        · exact wf.inner p (List.mem_cons_of_mem _ hp)
      · intro p hp
        rcases List.mem_cons.mp hp with rfl | hp
        · exact bump_pos m v (wf.pos (a, m) (by simp))
        · exact wf.pos p (List.mem_cons_of_mem _ hp)
    · have ih := occAdd_wf t k v wft
      simp only [occAdd, ha, if_false]
      refine ⟨?_, ?_, ?_⟩
      · simp only [AL.keys, List.map_cons, List.nodup_cons]
        refine ⟨?_, ih.keys⟩
        intro h
        rcases (keys_occAdd t k v a).mp h with h | h
        · exact ha h
        · exact hk.1 h
      · intro p hp
        rcases List.mem_cons.mp hp with rfl | hp
        · exact wf.inner _ (by simp)
        · exact ih.inner p hp
      · intro p hp
        rcases List.mem_cons.mp hp with rfl | hp
        · exact wf.pos _ (by simp)
        · exact ih.pos p hp

theorem occCount_occAdd : ∀ (occ : List (SKey × List (Id × Nat))) (k : SKey) (v : Id) (k' : SKey) (v' : Id),
    occCount (occAdd occ k v) k' v' = occCount occ k' v' + if k = k' ∧ v = v' then 1 else 0
  | [], k, v, k', v' => by
    by_cases hk : k = k' <;> by_cases hv : v = v' <;> simp [occAdd, occCount, AL.get, cntOf, hk, hv]
  | (a, m) :: t, k, v, k', v' => by
    have ih := occCount_occAdd t k v k' v'
    unfold occCount at ih ⊢
    by_cases ha : a = k
    · subst ha
      by_cases hk : a = k'
      · subst hk
        simp only [occAdd, if_true, AL.get, cntOf_bump]
        by_cases hv : v = v' <;> simp [hv]
      · simp [occAdd, AL.get, hk]
    · by_cases hk : a = k'
      · subst hk
        simp [occAdd, ha, AL.get, Ne.symm ha]
      · simp only [occAdd, ha, if_false, AL.get, hk]
        exact ih

theorem occ_foldl (l : List (SKey × Id)) : ∀ (occ : List (SKey × List (Id × Nat))), OccWF occ →
    OccWF (l.foldl (fun acc kv => occAdd acc kv.1 kv.2) occ) ∧
    ∀ k v, occCount (l.foldl (fun acc kv => occAdd acc kv.1 kv.2) occ) k v =
      occCount occ k v + l.countP (fun x => decide (x = (k, v))) := by
  induction l with
  | nil => intro occ wf; exact ⟨wf, by simp⟩
  | cons a t ih =>
    intro occ wf
    obtain ⟨h1, h2⟩ := ih (occAdd occ a.1 a.2) (occAdd_wf occ a.1 a.2 wf)
    refine ⟨h1, ?_⟩
    intro k v
    simp only [List.foldl_cons, h2, occCount_occAdd, List.countP_cons]
    by_cases h : a = (k, v)
    · subst h; simp; omega
    · have : ¬ (a.1 = k ∧ a.2 = v) := by
        intro ⟨e1, e2⟩; apply h; cases a; simp_all
      simp [h, this]

theorem mem_occ_iff {occ : List (SKey × List (Id × Nat))} (wf : OccWF occ) {k : SKey} {v : Id} {c : Nat} :
    (∃ m, (k, m) ∈ occ ∧ (v, c) ∈ m) ↔ 0 < c ∧ occCount occ k v = c := by
  constructor
  · rintro ⟨m, hm, hvc⟩
    refine ⟨wf.pos _ hm _ hvc, ?_⟩
    simp [occCount, AL.get_of_mem_nodup wf.keys hm, cntOf,
      AL.get_of_mem_nodup (wf.inner _ hm) hvc]
  · rintro ⟨hpos, hc⟩
    unfold occCount at hc
    cases hg : AL.get occ k with
    | none => rw [hg] at hc; simp at hc; omega
    | some m =>
      rw [hg] at hc
      simp only [cntOf] at hc
      cases hg2 : AL.get m v with
      | none => rw [hg2] at hc; simp at hc; omega
      | some c' =>
        rw [hg2] at hc; simp at hc; subst hc
        exact ⟨m, AL.get_some_mem hg, AL.get_some_mem hg2⟩

/-- Every state set is a map: its keys are distinct. -/
def SetsWF (sets : List StateMap) : Prop := ∀ s ∈ sets, (AL.keys s).Nodup

/-- `k ↦ v` in every state set, and there is at least one state set. -/
def Unconf (sets : List StateMap) (k : SKey) (v : Id) : Prop :=
  sets ≠ [] ∧ ∀ s ∈ sets, AL.get s k = some v

theorem nodup_of_keys_nodup [DecidableEq κ] {m : List (κ × β)} (h : (AL.keys m).Nodup) : m.Nodup := by
  induction m with
  | nil => simp
  | cons a t ih =>
    simp only [AL.keys, List.map_cons, List.nodup_cons] at h
    refine List.nodup_cons.mpr ⟨?_, ih h.2⟩
    intro hm; exact h.1 (List.mem_map_of_mem hm)

theorem filter_length_eq_iff {p : α → Bool} : ∀ {l : List α},
    (l.filter p).length = l.length ↔ ∀ x ∈ l, p x = true
  | [] => by simp
  | x :: xs => by
    have ih := filter_length_eq_iff (p := p) (l := xs)
    have hle := List.length_filter_le p xs
    by_cases hx : p x = true
    · simp [List.filter_cons, hx, ih]
    · simp [List.filter_cons, hx]; omega

def hasPair (k : SKey) (v : Id) (s : StateMap) : Bool := s.any (fun x => decide (x = (k, v)))

theorem hasPair_iff {k : SKey} {v : Id} {s : StateMap} : hasPair k v s = true ↔ (k, v) ∈ s := by
  simp only [hasPair, List.any_eq_true, decide_eq_true_eq]
  constructor
  · rintro ⟨x, hx, rfl⟩; exact hx
  · intro h; exact ⟨_, h, rfl⟩

theorem mem_triples_occurrences {o : Orders} (ho : o.Valid) {sets : List StateMap} (wf : SetsWF sets)
    {k : SKey} {v : Id} {c : Nat} :
    (k, (v, c)) ∈ triples o (occurrences sets) ↔
      0 < c ∧ (sets.filter (hasPair k v)).length = c := by
  rw [mem_triples ho]
  have hf := occ_foldl sets.flatten [] ⟨by simp [AL.keys], by simp, by simp⟩
  unfold occurrences
  rw [mem_occ_iff hf.1, hf.2]
  have : occCount [] k v = 0 := rfl
  rw [this, Nat.zero_add, countP_flatten_of_nodup (k, v) sets (fun s hs => nodup_of_keys_nodup (wf s hs))]
  rfl

theorem mem_iff_get {s : StateMap} (h : (AL.keys s).Nodup) {k : SKey} {v : Id} :
    (k, v) ∈ s ↔ AL.get s k = some v :=
  ⟨AL.get_of_mem_nodup h, AL.get_some_mem⟩

theorem mem_triples_n {o : Orders} (ho : o.Valid) {sets : List StateMap} (wf : SetsWF sets)
    {k : SKey} {v : Id} :
    (k, (v, sets.length)) ∈ triples o (occurrences sets) ↔ Unconf sets k v := by
  rw [mem_triples_occurrences ho wf, filter_length_eq_iff]
  unfold Unconf
  constructor
  · rintro ⟨h1, h2⟩
    refine ⟨by intro h; subst h; simp at h1, ?_⟩
    intro s hs
    exact (mem_iff_get (wf s hs)).mp (hasPair_iff.mp (h2 s hs))
  · rintro ⟨h1, h2⟩
    refine ⟨List.length_pos_iff.mpr h1, ?_⟩
    intro s hs
    exact hasPair_iff.mpr ((mem_iff_get (wf s hs)).mpr (h2 s hs))

theorem Unconf.unique {sets : List StateMap} {k : SKey} {v v' : Id} (h : Unconf sets k v)
    (h' : Unconf sets k v') : v = v' := by
  obtain ⟨hne, h1⟩ := h
  cases sets with
  | nil => exact absurd rfl hne
  | cons s t =>
    have a := h1 s (by simp)
    have b := h'.2 s (by simp)
    rw [a] at b; exact Option.some.inj b

/-- **separate, unconflicted part**: `k ↦ v` is in the unconflicted map iff every state set maps
`k` to `v`. -/
theorem separate_clean {o : Orders} (ho : o.Valid) {sets : List StateMap} (wf : SetsWF sets)
    (k : SKey) (v : Id) : AL.get (separate o sets).1 k = some v ↔ Unconf sets k v := by
  rw [separate_eq_sepFold]
  constructor
  · intro h
    rcases sepFold_clean_sound _ _ _ k v h with h | h
    · exact (mem_triples_n ho wf).mp h
    · simp at h
  · intro h
    have hm := (mem_triples_n ho wf).mpr h
    have := sepFold_clean_complete sets.length _ ([], []) k v hm
    cases hg : AL.get (sepFold sets.length (triples o (occurrences sets)) ([], [])).1 k with
    | none => rw [hg] at this; cases this
    | some v' =>
      rcases sepFold_clean_sound _ _ _ k v' hg with h' | h'
      · have := (mem_triples_n ho wf).mp h'
        rw [h.unique this]
      · simp at h'

/-- **separate, conflicted part**: the ids listed in the conflicted map are the values some state
set gives to some key without all state sets agreeing on it. -/
theorem separate_conf {o : Orders} (ho : o.Valid) {sets : List StateMap} (wf : SetsWF sets)
    (id : Id) : id ∈ confIds (separate o sets).2 ↔
      ∃ k, (∃ s ∈ sets, AL.get s k = some id) ∧ ¬ Unconf sets k id := by
  rw [separate_eq_sepFold, sepFold_conf]
  simp only [confIds, List.map_nil, List.flatten_nil, List.not_mem_nil, or_false]
  constructor
  · rintro ⟨k, c, hm, hc⟩
    refine ⟨k, ?_, ?_⟩
    · obtain ⟨hpos, hlen⟩ := (mem_triples_occurrences ho wf).mp hm
      rw [← hlen] at hpos
      obtain ⟨s, hs⟩ := List.exists_mem_of_length_pos hpos
      obtain ⟨hs1, hs2⟩ := List.mem_filter.mp hs
      exact ⟨s, hs1, (mem_iff_get (wf s hs1)).mp (hasPair_iff.mp hs2)⟩
    · intro hu
      have := (mem_triples_occurrences ho wf).mp ((mem_triples_n ho wf).mpr hu)
      have h2 := (mem_triples_occurrences ho wf).mp hm
      omega
  · rintro ⟨k, ⟨s, hs, hg⟩, hnu⟩
    refine ⟨k, (sets.filter (hasPair k id)).length, ?_, ?_⟩
    · rw [mem_triples_occurrences ho wf]
      refine ⟨?_, rfl⟩
      apply List.length_pos_of_mem (a := s)
      exact List.mem_filter.mpr ⟨hs, hasPair_iff.mpr ((mem_iff_get (wf s hs)).mpr hg)⟩
    · intro hlen
      apply hnu
      apply (mem_triples_n ho wf).mp
      rw [mem_triples_occurrences ho wf]
      refine ⟨?_, hlen⟩
      rw [← hlen]
      apply List.length_pos_of_mem (a := s)
      exact List.mem_filter.mpr ⟨hs, hasPair_iff.mpr ((mem_iff_get (wf s hs)).mpr hg)⟩

/-- No conflict: the conflicted map is empty iff all state sets agree on every key any of them has. -/
theorem separate_conf_nil {o : Orders} (ho : o.Valid) {sets : List StateMap} (wf : SetsWF sets) :
    (separate o sets).2 = [] ↔ ∀ k id, (∃ s ∈ sets, AL.get s k = some id) → Unconf sets k id := by
  rw [separate_eq_sepFold, sepFold_conf_isEmpty]
  constructor
  · intro h k id ⟨s, hs, hg⟩
    apply (mem_triples_n ho wf).mp
    have hm : (k, (id, (sets.filter (hasPair k id)).length)) ∈
        triples o (occurrences sets) := by
      rw [mem_triples_occurrences ho wf]
      refine ⟨?_, rfl⟩
      apply List.length_pos_of_mem (a := s)
      exact List.mem_filter.mpr ⟨hs, hasPair_iff.mpr ((mem_iff_get (wf s hs)).mpr hg)⟩
    have := h _ hm
    simp only [] at this
    rw [this] at hm; exact hm
  · intro h t ht
    obtain ⟨k, v, c⟩ := t
    simp only []
    obtain ⟨hpos, hlen⟩ := (mem_triples_occurrences ho wf).mp ht
    rw [← hlen] at hpos
    obtain ⟨s, hs⟩ := List.exists_mem_of_length_pos hpos
    obtain ⟨hs1, hs2⟩ := List.mem_filter.mp hs
    have hu := h k v ⟨s, hs1, (mem_iff_get (wf s hs1)).mp (hasPair_iff.mp hs2)⟩
    have := (mem_triples_occurrences ho wf).mp ((mem_triples_n ho wf).mpr hu)
    omega
/-! ### `add_event_and_auth_chain_to_graph` -/

/-- `HashSet::insert`. -/
def insSet (es : List Id) (a : Id) : List Id := if a ∈ es then es else es ++ [a]

def addAll (es : List Id) (as : List Id) : List Id := as.foldl insSet es

theorem mem_insSet {es : List Id} {a c : Id} : c ∈ insSet es a ↔ c ∈ es ∨ c = a := by
  unfold insSet; split
  · constructor
    · exact .inl
    · rintro (h | rfl); exact h; assumption
  · simp

theorem nodup_insSet {es : List Id} (a : Id) (h : es.Nodup) : (insSet es a).Nodup := by
  unfold insSet; split
  · exact h
  next hn =>
    rw [List.nodup_append]
    exact ⟨h, by simp, by intro x hx y hy; simp at hy; subst hy; intro e; subst e; exact hn hx⟩

theorem mem_addAll {as : List Id} : ∀ {es : List Id} {c : Id}, c ∈ addAll es as ↔ c ∈ es ∨ c ∈ as := by
  induction as with
  | nil => intro es c; simp [addAll]
  | cons a t ih =>
    intro es c
    simp only [addAll, List.foldl_cons] at ih ⊢
    rw [ih, mem_insSet]
    simp only [List.mem_cons]
    constructor
    · rintro ((h | h) | h); exact .inl h; exact .inr (.inl h); exact .inr (.inr h)
    · rintro (h | h | h); exact .inl (.inl h); exact .inl (.inr h); exact .inr h

theorem nodup_addAll {as : List Id} : ∀ {es : List Id}, es.Nodup → (addAll es as).Nodup := by
  induction as with
  | nil => intro es h; exact h
  | cons a t ih => intro es h; exact ih (nodup_insSet a h)

theorem contains_eq_mem_nodes (g : Graph) (x : Id) : AL.contains g x = decide (x ∈ g.nodes) := by
  by_cases h : x ∈ g.nodes
  · simp only [h, decide_true, AL.contains, List.any_eq_true, decide_eq_true_eq]
    obtain ⟨p, hp, he⟩ := List.mem_map.mp h
    exact ⟨p, hp, he⟩
  · simp only [h, decide_false, AL.contains, List.any_eq_false, decide_eq_true_eq]
    intro p hp he; apply h; rw [← he]; exact List.mem_map_of_mem hp

/-- Replace the edge list of `eid`. -/
def setEdges (g : Graph) (eid : Id) (f : List Id → List Id) : Graph :=
  g.map (fun ne => if ne.1 = eid then (ne.1, f ne.2) else ne)

theorem nodes_setEdges (g : Graph) (eid : Id) (f : List Id → List Id) :
    (setEdges g eid f).nodes = g.nodes := by
  unfold setEdges Graph.nodes
  rw [List.map_map]
  apply List.map_congr_left
  intro a _; simp only [Function.comp]; split <;> rfl

theorem graphAddEdge_eq : ∀ (g : Graph) (eid a : Id), g.nodes.Nodup → eid ∈ g.nodes →
    graphAddEdge g eid a = some (setEdges g eid (fun es => insSet es a))
  | [], _, _, _, h => by simp [Graph.nodes] at h
  | (q, es) :: t, eid, a, hn, hm => by
    simp only [Graph.nodes, List.map_cons, List.nodup_cons] at hn
    by_cases hq : q = eid
    · subst hq
      have : setEdges t q (fun es => insSet es a) = t := by
        unfold setEdges
        conv => rhs; rw [← List.map_id t]
        apply List.map_congr_left
        intro x hx
        have : x.1 ≠ q := by intro h; apply hn.1; rw [← h]; exact List.mem_map_of_mem hx
        simp [this]
      simp only [graphAddEdge, if_true]
      simp only [setEdges, List.map_cons, if_true] at this ⊢
      rw [this]; rfl
    · have hm' : eid ∈ Graph.nodes t := by
        simp only [Graph.nodes, List.map_cons, List.mem_cons] at hm
        rcases hm with h | h
        · exact absurd h.symm hq
        · exact h
      simp only [graphAddEdge, hq, if_false, graphAddEdge_eq t eid a hn.2 hm']
      simp [setEdges, hq]

theorem setEdges_setEdges (g : Graph) (eid : Id) (f f' : List Id → List Id) :
    setEdges (setEdges g eid f) eid f' = setEdges g eid (fun es => f' (f es)) := by
  unfold setEdges
  rw [List.map_map]
  apply List.map_congr_left
  intro a _; simp only [Function.comp]
  by_cases h : a.1 = eid <;> simp [h]

theorem setEdges_id (g : Graph) (eid : Id) : setEdges g eid (fun es => es) = g := by
  unfold setEdges
  conv => rhs; rw [← List.map_id g]
  apply List.map_congr_left
  intro a _; split <;> rfl

/-- The `for aid in auth_events` loop: all conflicted auth events become edges of `eid`; those that
are not yet graph keys are pushed. -/
theorem addAuthEdges_eq (allConf : List Id) (eid : Id) : ∀ (auths : List Id) (g : Graph) (st : List Id),
    g.nodes.Nodup → eid ∈ g.nodes →
    addAuthEdges allConf eid auths g st =
      .ok (setEdges g eid (fun es => addAll es (auths.filter (fun a => decide (a ∈ allConf)))),
           (auths.filter (fun a => decide (a ∈ allConf) && !AL.contains g a)).reverse ++ st)
  | [], g, st, _, _ => by simp [addAuthEdges, addAll, setEdges_id]
  | a :: rest, g, st, hn, hm => by
    by_cases ha : a ∈ allConf
    · simp only [addAuthEdges, ha, if_true, graphAddEdge_eq g eid a hn hm]
      have hn' : (setEdges g eid (fun es => insSet es a)).nodes.Nodup := by
        rw [nodes_setEdges]; exact hn
      have hm' : eid ∈ (setEdges g eid (fun es => insSet es a)).nodes := by
        rw [nodes_setEdges]; exact hm
      rw [addAuthEdges_eq allConf eid rest _ _ hn' hm', setEdges_setEdges]
      have hc : ∀ x, AL.contains (setEdges g eid (fun es => insSet es a)) x = AL.contains g x := by
        intro x; rw [contains_eq_mem_nodes, contains_eq_mem_nodes, nodes_setEdges]
      congr 2
      · simp [List.filter_cons, ha, addAll]
      · by_cases hg : AL.contains g a = true
        · simp [List.filter_cons, ha, hg, hc]
        · simp only [Bool.not_eq_true] at hg
          simp [List.filter_cons, ha, hg, hc]
    · simp only [addAuthEdges, ha, if_false]
      rw [addAuthEdges_eq allConf eid rest g st hn hm]
      simp [List.filter_cons, ha]

/-- The auth events of `n` inside the full conflicted set. -/
def children (fetch : Id → Option Event) (allConf : List Id) (n : Id) : List Id :=
  (authEventsOf fetch n).filter (fun a => decide (a ∈ allConf))

/-- `n` is reachable from `r` along auth-event edges that stay inside the full conflicted set. -/
inductive Path (fetch : Id → Option Event) (allConf : List Id) (r : Id) : Id → Prop
  | refl : Path fetch allConf r r
  | step {n c : Id} : Path fetch allConf r n → c ∈ children fetch allConf n → Path fetch allConf r c

theorem Path.trans {fetch : Id → Option Event} {allConf : List Id} {a b c : Id}
    (h1 : Path fetch allConf a b) (h2 : Path fetch allConf b c) : Path fetch allConf a c := by
  induction h2 with
  | refl => exact h1
  | step _ hc ih => exact .step ih hc

structure GInv (fetch : Id → Option Event) (allConf : List Id) (g : Graph) : Prop where
  nodup : g.nodes.Nodup
  edges : ∀ n es, (n, es) ∈ g → es.Nodup ∧ ∀ c, c ∈ es ↔ c ∈ children fetch allConf n

theorem graphInsertNode_of_mem {g : Graph} {eid : Id} (h : eid ∈ g.nodes) :
    graphInsertNode g eid = g := by
  have hc : AL.contains g eid = true := by rw [contains_eq_mem_nodes]; simp [h]
  simp [graphInsertNode, hc]

theorem graphInsertNode_of_not_mem {g : Graph} {eid : Id} (h : eid ∉ g.nodes) :
    graphInsertNode g eid = g ++ [(eid, [])] := by
  have hc : AL.contains g eid = false := by rw [contains_eq_mem_nodes]; simp [h]
  simp [graphInsertNode, hc]

theorem nodes_append_single (g : Graph) (eid : Id) : (g ++ [(eid, [])]).nodes = g.nodes ++ [eid] := by
  simp [Graph.nodes]

theorem mem_graphInsertNode {g : Graph} {eid : Id} {p : Id × List Id} :
    p ∈ graphInsertNode g eid ↔ p ∈ g ∨ (eid ∉ g.nodes ∧ p = (eid, [])) := by
  by_cases h : eid ∈ g.nodes
  · rw [graphInsertNode_of_mem h]; simp [h]
  · rw [graphInsertNode_of_not_mem h]; simp [h]

theorem nodes_graphInsertNode {g : Graph} {eid n : Id} :
    n ∈ (graphInsertNode g eid).nodes ↔ n = eid ∨ n ∈ g.nodes := by
  by_cases h : eid ∈ g.nodes
  · rw [graphInsertNode_of_mem h]
    constructor
    · exact .inr
    · rintro (rfl | h'); exact h; exact h'
  · rw [graphInsertNode_of_not_mem h, nodes_append_single]; simp [or_comm]

theorem nodup_graphInsertNode {g : Graph} {eid : Id} (h : g.nodes.Nodup) :
    (graphInsertNode g eid).nodes.Nodup := by
  by_cases hm : eid ∈ g.nodes
  · rw [graphInsertNode_of_mem hm]; exact h
  · rw [graphInsertNode_of_not_mem hm, nodes_append_single, List.nodup_append]
    exact ⟨h, by simp, by intro a ha b hb; simp at hb; subst hb; intro e; subst e; exact hm ha⟩

theorem mem_setEdges {g : Graph} {eid : Id} {f : List Id → List Id} {n : Id} {es : List Id} :
    (n, es) ∈ setEdges g eid f ↔
      (n ≠ eid ∧ (n, es) ∈ g) ∨ (n = eid ∧ ∃ es0, (eid, es0) ∈ g ∧ es = f es0) := by
  unfold setEdges
  simp only [List.mem_map]
  constructor
  · rintro ⟨⟨a, b⟩, hm, he⟩
    by_cases ha : a = eid
    · subst ha
      simp only [if_true, Prod.mk.injEq] at he
      exact .inr ⟨he.1.symm, b, hm, he.2.symm⟩
    · simp only [ha, if_false, Prod.mk.injEq] at he
      obtain ⟨rfl, rfl⟩ := he
      exact .inl ⟨ha, hm⟩
  · rintro (⟨h1, h2⟩ | ⟨rfl, es0, h2, rfl⟩)
    · exact ⟨(n, es), h2, by simp [h1]⟩
    · exact ⟨(n, es0), h2, by simp⟩

/-- One iteration of `while let Some(eid) = state.pop()`. -/
theorem dfs_step {fetch : Id → Option Event} {allConf : List Id} {g : Graph}
    (inv : GInv fetch allConf g) (eid : Id) (st : List Id) :
    ∃ (g' : Graph) (pushes : List Id), addAuthEdges allConf eid (authEventsOf fetch eid) (graphInsertNode g eid) st
        = .ok (g', pushes.reverse ++ st) ∧
      GInv fetch allConf g' ∧
      (∀ n, n ∈ g'.nodes ↔ n = eid ∨ n ∈ g.nodes) ∧
      (∀ c, c ∈ pushes ↔ c ∈ children fetch allConf eid ∧ c ≠ eid ∧ c ∉ g.nodes) ∧
      pushes.length ≤ (authEventsOf fetch eid).length := by
  have hn1 := nodup_graphInsertNode (eid := eid) inv.nodup
  have hm1 : eid ∈ (graphInsertNode g eid).nodes := nodes_graphInsertNode.mpr (.inl rfl)
  refine ⟨_, _, addAuthEdges_eq allConf eid _ _ st hn1 hm1, ?_, ?_, ?_, ?_⟩
  · constructor
    · rw [nodes_setEdges]; exact hn1
    · intro n es hm
      rcases mem_setEdges.mp hm with ⟨hne, hm'⟩ | ⟨rfl, es0, hm', rfl⟩
      · rcases mem_graphInsertNode.mp hm' with h | ⟨_, h⟩
        · exact inv.edges n es h
        · simp only [Prod.mk.injEq] at h; exact absurd h.1 hne
      · have h0 : es0.Nodup ∧ ∀ c, c ∈ es0 → c ∈ children fetch allConf n := by
          rcases mem_graphInsertNode.mp hm' with h | ⟨_, h⟩
          · have := inv.edges n es0 h; exact ⟨this.1, fun c hc => (this.2 c).mp hc⟩
          · simp only [Prod.mk.injEq] at h; rw [h.2]; simp
        refine ⟨nodup_addAll h0.1, ?_⟩
        intro c
        rw [mem_addAll]
        constructor
        · rintro (h | h); exact h0.2 c h; exact h
        · intro h; exact .inr h
  · intro n
    rw [nodes_setEdges]; exact nodes_graphInsertNode
  · intro c
    simp only [List.mem_filter, Bool.and_eq_true, decide_eq_true_eq, Bool.not_eq_true',
      contains_eq_mem_nodes, decide_eq_false_iff_not, nodes_graphInsertNode, not_or, children]
    constructor
    · rintro ⟨h1, h2, h3, h4⟩; exact ⟨⟨h1, h2⟩, h3, h4⟩
    · rintro ⟨⟨h1, h2⟩, h3, h4⟩; exact ⟨h1, h2, h3, h4⟩
  · exact List.length_filter_le _ _

/-- Every child of a graph node is a graph node or still on the stack. -/
def Closed (fetch : Id → Option Event) (allConf : List Id) (g : Graph) (st : List Id) : Prop :=
  ∀ n ∈ g.nodes, ∀ c ∈ children fetch allConf n, c ∈ g.nodes ∨ c ∈ st

/-- What one `add_event_and_auth_chain_to_graph` run that does not run out of fuel computes. -/
theorem dfs_ok {fetch : Id → Option Event} {allConf : List Id} : ∀ (fuel : Nat) (st : List Id) (g g' : Graph),
    dfs fetch allConf fuel st g = .ok g' → GInv fetch allConf g → Closed fetch allConf g st →
    GInv fetch allConf g' ∧ Closed fetch allConf g' [] ∧
    (∀ n ∈ g.nodes, n ∈ g'.nodes) ∧ (∀ n ∈ st, n ∈ g'.nodes) ∧
    (∀ n ∈ g'.nodes, n ∈ g.nodes ∨ ∃ r ∈ st, Path fetch allConf r n)
  | fuel, [], g, g', h, inv, cl => by
    cases fuel <;> (simp only [dfs] at h; cases h; exact ⟨inv, cl, fun n h => h, by simp, fun n h => .inl h⟩)
  | 0, _ :: _, _, _, h, _, _ => by simp [dfs] at h
  | fuel + 1, eid :: st, g, g', h, inv, cl => by
    obtain ⟨g1, pushes, hstep, inv1, hnodes, hpush, _⟩ := dfs_step inv eid st
    simp only [dfs, hstep] at h
    have cl1 : Closed fetch allConf g1 (pushes.reverse ++ st) := by
      intro n hn c hc
      rcases (hnodes n).mp hn with rfl | hn'
      · by_cases hcg : c ∈ g1.nodes
        · exact .inl hcg
        · right
          have : c ≠ n ∧ c ∉ g.nodes := by
            constructor
            · intro e; apply hcg; rw [hnodes]; exact .inl e
            · intro e; apply hcg; rw [hnodes]; exact .inr e
          simp [(hpush c).mpr ⟨hc, this.1, this.2⟩]
      · rcases cl n hn' c hc with h1 | h1
        · exact .inl ((hnodes c).mpr (.inr h1))
        · rcases List.mem_cons.mp h1 with rfl | h1
          · exact .inl ((hnodes c).mpr (.inl rfl))
          · exact .inr (by simp [h1])
    obtain ⟨i1, i2, i3, i4, i5⟩ := dfs_ok fuel _ g1 g' h inv1 cl1
    refine ⟨i1, i2, ?_, ?_, ?_⟩
    · intro n hn; exact i3 n ((hnodes n).mpr (.inr hn))
    · intro n hn
      rcases List.mem_cons.mp hn with rfl | hn
      · exact i3 n ((hnodes n).mpr (.inl rfl))
      · exact i4 n (by simp [hn])
    · intro n hn
      rcases i5 n hn with h1 | ⟨r, hr, hp⟩
      · rcases (hnodes n).mp h1 with rfl | h1
        · exact .inr ⟨n, by simp, .refl⟩
        · exact .inl h1
      · rcases List.mem_append.mp hr with hr | hr
        · have := (hpush r).mp (List.mem_reverse.mp hr)
          exact .inr ⟨eid, by simp, Path.trans (.step .refl this.1) hp⟩
        · exact .inr ⟨r, by simp [hr], hp⟩

/-- A closed graph contains everything reachable from its nodes. -/
theorem closed_path {fetch : Id → Option Event} {allConf : List Id} {g : Graph}
    (cl : Closed fetch allConf g []) {r n : Id} (hr : r ∈ g.nodes) (hp : Path fetch allConf r n) :
    n ∈ g.nodes := by
  induction hp with
  | refl => exact hr
  | step _ hc ih =>
    rcases cl _ ih _ hc with h | h
    · exact h
    · cases h

/-- The graph built by `reverse_topological_power_sort` (when no run exhausts its fuel): its nodes
are the events reachable from the control events inside the full conflicted set, and the edges of
a node are its auth events inside that set. -/
theorem buildGraph_ok {fetch : Id → Option Event} {allConf : List Id} : ∀ (cs : List Id) (g g' : Graph),
    buildGraph fetch allConf cs g = .ok g' → GInv fetch allConf g → Closed fetch allConf g [] →
    GInv fetch allConf g' ∧ Closed fetch allConf g' [] ∧
    ∀ n, n ∈ g'.nodes ↔ n ∈ g.nodes ∨ ∃ r ∈ cs, Path fetch allConf r n
  | [], g, g', h, inv, cl => by
    simp only [buildGraph] at h; cases h
    exact ⟨inv, cl, fun n => by simp⟩
  | c :: cs, g, g', h, inv, cl => by
    simp only [buildGraph] at h
    cases hd : dfs fetch allConf (dfsFuel fetch allConf) [c] g with
    | error e => rw [hd] at h; cases h
    | ok g1 =>
      rw [hd] at h
      have cl0 : Closed fetch allConf g [c] := fun n hn x hx => (cl n hn x hx).imp id (fun h => by cases h)
      obtain ⟨i1, i2, i3, i4, i5⟩ := dfs_ok _ _ g g1 hd inv cl0
      obtain ⟨j1, j2, j3⟩ := buildGraph_ok cs g1 g' h i1 i2
      refine ⟨j1, j2, ?_⟩
      intro n
      rw [j3]
      constructor
      · rintro (h1 | ⟨r, hr, hp⟩)
        · rcases i5 n h1 with h2 | ⟨r, hr, hp⟩
          · exact .inl h2
          · simp only [List.mem_singleton] at hr; subst hr
            exact .inr ⟨r, by simp, hp⟩
        · exact .inr ⟨r, by simp [hr], hp⟩
      · rintro (h1 | ⟨r, hr, hp⟩)
        · exact .inl (i3 n h1)
        · rcases List.mem_cons.mp hr with rfl | hr
          · exact .inl (closed_path i2 (i4 r (by simp)) hp)
          · exact .inr ⟨r, hr, hp⟩

/-- Stack discipline: an unvisited child of a visited node lies on the stack above every copy of
that node (so re-visiting a node pushes nothing). -/
def Lifo (fetch : Id → Option Event) (allConf : List Id) (g : Graph) (st : List Id) : Prop :=
  ∀ n ∈ g.nodes, ∀ c ∈ children fetch allConf n,
    c ∈ g.nodes ∨ ∃ pre post, st = pre ++ c :: post ∧ n ∉ pre

/-- Number of events of the full conflicted set that are not graph keys yet. -/
def unvisited (allConf : List Id) (g : Graph) : Nat :=
  (allConf.filter (fun x => decide (x ∉ g.nodes))).length

def authTotal (fetch : Id → Option Event) (allConf : List Id) : Nat :=
  (allConf.map (fun id => (authEventsOf fetch id).length)).sum

theorem le_sum_map {f : α → Nat} : ∀ {l : List α} {a : α}, a ∈ l → f a ≤ (l.map f).sum
  | x :: xs, a, h => by
    rcases List.mem_cons.mp h with rfl | h
    · simp
    · have := le_sum_map (f := f) h; simp; omega

theorem filter_length_remove [DecidableEq α] {p q : α → Bool} {a : α} : ∀ {l : List α}, l.Nodup → a ∈ l →
    p a = true → q a = false → (∀ x, x ≠ a → q x = p x) →
    (l.filter q).length + 1 = (l.filter p).length
  | x :: xs, hn, hm, hp, hq, hpq => by
    rw [List.nodup_cons] at hn
    by_cases hx : x = a
    · subst hx
      have : xs.filter q = xs.filter p := by
        apply List.filter_congr
        intro y hy; apply hpq; intro e; subst e; exact hn.1 hy
      simp [List.filter_cons, hp, hq, this]
    · have hm' : a ∈ xs := by
        rcases List.mem_cons.mp hm with h | h
        · exact absurd h.symm hx
        · exact h
      have ih := filter_length_remove hn.2 hm' hp hq hpq
      rw [List.filter_cons, List.filter_cons, hpq x hx]
      by_cases hpx : p x = true <;> simp [hpx] <;> omega

theorem dfs_fuel_ok {fetch : Id → Option Event} {allConf : List Id} (hac : allConf.Nodup) :
    ∀ (fuel : Nat) (st : List Id) (g : Graph), GInv fetch allConf g → Lifo fetch allConf g st →
      (∀ x ∈ st, x ∈ allConf) →
      unvisited allConf g * (authTotal fetch allConf + 1) + st.length ≤ fuel →
      ∃ g', dfs fetch allConf fuel st g = .ok g'
  | fuel, [], g, _, _, _, _ => by cases fuel <;> exact ⟨g, rfl⟩
  | 0, _ :: _, _, _, _, _, h => by simp at h
  | fuel + 1, eid :: st, g, inv, lifo, hst, hfuel => by
    obtain ⟨g1, pushes, hstep, inv1, hnodes, hpush, hlen⟩ := dfs_step inv eid st
    simp only [dfs, hstep]
    have heid : eid ∈ allConf := hst eid (by simp)
    have hsub : ∀ x ∈ pushes.reverse ++ st, x ∈ allConf := by
      intro x hx
      rcases List.mem_append.mp hx with h | h
      · have := ((hpush x).mp (List.mem_reverse.mp h)).1
        simp only [children, List.mem_filter, decide_eq_true_eq] at this
        exact this.2
      · exact hst x (by simp [h])
    have hnotpush : ∀ n ∈ g.nodes, n ∉ pushes := fun n hn hp => ((hpush n).mp hp).2.2 hn
    by_cases hv : eid ∈ g.nodes
    · -- re-visit: nothing is pushed
      have hp : pushes = [] := by
        cases hpe : pushes with
        | nil => rfl
        | cons c t =>
          exfalso
          have hc := (hpush c).mp (by rw [hpe]; simp)
          rcases lifo eid hv c hc.1 with h | ⟨pre, post, he, hpre⟩
          · exact hc.2.2 h
          · cases pre with
            | nil => simp at he; exact hc.2.1 he.1.symm
            | cons a pre' => simp at he; apply hpre; rw [← he.1]; simp
      subst hp
      have hu : unvisited allConf g1 = unvisited allConf g := by
        unfold unvisited
        congr 1
        apply List.filter_congr
        intro x _
        have : x ∈ g1.nodes ↔ x ∈ g.nodes := by
          rw [hnodes]
          constructor
          · rintro (rfl | h); exact hv; exact h
          · exact .inr
        simp [this]
      apply dfs_fuel_ok hac fuel _ g1 inv1 ?_ hsub ?_
      · intro n hn c hc
        have hn' : n ∈ g.nodes := by
          rcases (hnodes n).mp hn with rfl | h
          · exact hv
          · exact h
        rcases lifo n hn' c hc with h | ⟨pre, post, he, hpre⟩
        · exact .inl ((hnodes c).mpr (.inr h))
        · cases pre with
          | nil => simp at he; left; rw [hnodes]; exact .inl he.1.symm
          | cons a pre' =>
            simp at he
            exact .inr ⟨pre', post, by simpa using he.2, fun h => hpre (by simp [h])⟩
      · simp only [List.reverse_nil, List.nil_append, List.length_cons] at hfuel ⊢
        rw [hu]; omega
    · -- first visit
      have hu : unvisited allConf g1 + 1 = unvisited allConf g := by
        unfold unvisited
        apply filter_length_remove hac heid
        · simp [hv]
        · simp [(hnodes eid).mpr (.inl rfl)]
        · intro x hx
          have : x ∈ g1.nodes ↔ x ∈ g.nodes := by
            rw [hnodes]
            constructor
            · rintro (h | h); exact absurd h hx; exact h
            · exact .inr
          simp [this]
      have hS : pushes.length ≤ authTotal fetch allConf :=
        Nat.le_trans hlen (le_sum_map (f := fun id => (authEventsOf fetch id).length) heid)
      apply dfs_fuel_ok hac fuel _ g1 inv1 ?_ hsub ?_
      · intro n hn c hc
        by_cases hcg : c ∈ g1.nodes
        · exact .inl hcg
        right
        have hc1 : c ≠ eid := fun e => hcg ((hnodes c).mpr (.inl e))
        have hc2 : c ∉ g.nodes := fun e => hcg ((hnodes c).mpr (.inr e))
        rcases (hnodes n).mp hn with rfl | hn'
        · have hcp : c ∈ pushes.reverse := List.mem_reverse.mpr ((hpush c).mpr ⟨hc, hc1, hc2⟩)
          obtain ⟨pre, post, he⟩ := List.append_of_mem hcp
          refine ⟨pre, post ++ st, by rw [he]; simp, ?_⟩
          intro hpre
          have : n ∈ pushes := List.mem_reverse.mp (by rw [he]; simp [hpre])
          exact ((hpush n).mp this).2.1 rfl
        · rcases lifo n hn' c hc with h | ⟨pre, post, he, hpre⟩
          · exact absurd h hc2
          · cases pre with
            | nil => simp at he; exact absurd he.1.symm hc1
            | cons a pre' =>
              simp at he
              refine ⟨pushes.reverse ++ pre', post, by rw [he.2]; simp, ?_⟩
              intro h
              rcases List.mem_append.mp h with h | h
              · exact hnotpush n hn' (List.mem_reverse.mp h)
              · exact hpre (by simp [h])
      · simp only [List.length_append, List.length_reverse, List.length_cons] at hfuel ⊢
        have : unvisited allConf g * (authTotal fetch allConf + 1) =
            unvisited allConf g1 * (authTotal fetch allConf + 1) + (authTotal fetch allConf + 1) := by
          rw [← hu, Nat.add_mul, Nat.one_mul]
        omega

theorem unvisited_le (allConf : List Id) (g : Graph) : unvisited allConf g ≤ allConf.length :=
  List.length_filter_le _ _

/-- `reverse_topological_power_sort`'s graph construction never fails in the model: neither the
`unwrap` nor the loop bound is reached. -/
theorem buildGraph_total {fetch : Id → Option Event} {allConf : List Id} (hac : allConf.Nodup) :
    ∀ (cs : List Id) (g : Graph), (∀ c ∈ cs, c ∈ allConf) → GInv fetch allConf g →
      Closed fetch allConf g [] → ∃ g', buildGraph fetch allConf cs g = .ok g'
  | [], g, _, _, _ => ⟨g, rfl⟩
  | c :: cs, g, hcs, inv, cl => by
    have lifo : Lifo fetch allConf g [c] := by
      intro n hn x hx
      rcases cl n hn x hx with h | h
      · exact .inl h
      · cases h
    have hfuel : unvisited allConf g * (authTotal fetch allConf + 1) + [c].length ≤
        dfsFuel fetch allConf := by
      have := unvisited_le allConf g
      have h2 := Nat.mul_le_mul_right (authTotal fetch allConf + 1) this
      simp only [dfsFuel, authTotal, List.length_singleton] at h2 ⊢
      rw [Nat.add_mul (allConf.length) 1]
      omega
    obtain ⟨g1, hd⟩ := dfs_fuel_ok hac _ [c] g inv lifo
      (by intro x hx; simp at hx; subst hx; exact hcs x (by simp)) hfuel
    have cl0 : Closed fetch allConf g [c] := fun n hn x hx => (cl n hn x hx).imp id (fun h => by cases h)
    obtain ⟨i1, i2, _⟩ := dfs_ok _ _ g g1 hd inv cl0
    obtain ⟨g', hb⟩ := buildGraph_total hac cs g1 (fun c hc => hcs c (by simp [hc])) i1 i2
    exact ⟨g', by simp only [buildGraph, hd]; exact hb⟩
/-! ### `get_power_level_for_sender` and the creator cache -/

def isPL (e : Event) : Bool := isTypeAndKey e tPowerLevels []
def isCreate (e : Event) : Bool := isTypeAndKey e tCreate []

theorem not_isPL_and_isCreate (e : Event) : ¬ (isPL e = true ∧ isCreate e = true) := by
  simp only [isPL, isCreate, isTypeAndKey, Bool.and_eq_true, decide_eq_true_eq]
  rintro ⟨⟨h1, _⟩, ⟨h2, _⟩⟩
  rw [h1] at h2
  revert h2; decide

/-- The loop of `get_power_level_for_sender` over the fetched auth events. -/
def scanE (lockSet : Bool) : List Event → Option Event → Option Event → Option Event × Option Event
  | [], pl, cr => (pl, cr)
  | aev :: rest, pl, cr =>
    let pc : Option Event × Option Event :=
      if isTypeAndKey aev tPowerLevels [] then (some aev, cr)
      else if !lockSet && isTypeAndKey aev tCreate [] then (pl, some aev)
      else (pl, cr)
    if pc.1.isSome && (lockSet || pc.2.isSome) then pc
    else scanE lockSet rest pc.1 pc.2

theorem scanAuth_eq_scanE (fetch : Id → Option Event) (lockSet : Bool) : ∀ (auths : List Id) pl cr,
    scanAuth fetch lockSet auths pl cr = scanE lockSet (auths.filterMap fetch) pl cr
  | [], pl, cr => rfl
  | a :: rest, pl, cr => by
    cases h : fetch a with
    | none => simp only [scanAuth, h, List.filterMap_cons]; exact scanAuth_eq_scanE fetch lockSet rest pl cr
    | some aev =>
      simp only [scanAuth, h, List.filterMap_cons, scanE]
      rw [scanAuth_eq_scanE fetch lockSet rest]

/-- At most one power-levels event and at most one create event. -/
def UniquePlCreate (L : List Event) : Prop :=
  (L.filter isPL).length ≤ 1 ∧ (L.filter isCreate).length ≤ 1

def scanStep (lockSet : Bool) (a : Event) (pl cr : Option Event) : Option Event × Option Event :=
  if isPL a then (some a, cr) else if !lockSet && isCreate a then (pl, some a) else (pl, cr)

theorem scanE_cons (lockSet : Bool) (a : Event) (L : List Event) (pl cr : Option Event) :
    scanE lockSet (a :: L) pl cr =
      if (scanStep lockSet a pl cr).1.isSome && (lockSet || (scanStep lockSet a pl cr).2.isSome)
      then scanStep lockSet a pl cr
      else scanE lockSet L (scanStep lockSet a pl cr).1 (scanStep lockSet a pl cr).2 := rfl

theorem find?_none_of_filter_nil {p : α → Bool} {L : List α} (h : L.filter p = []) :
    L.find? p = none := by
  rw [List.find?_eq_none]
  intro x hx hpx
  have : x ∈ L.filter p := List.mem_filter.mpr ⟨hx, by simpa using hpx⟩
  rw [h] at this; cases this

theorem scanE_spec (lockSet : Bool) : ∀ (L : List Event) (pl cr : Option Event),
    (pl.isSome → L.filter isPL = []) → (cr.isSome → L.filter isCreate = []) → UniquePlCreate L →
    (scanE lockSet L pl cr).1 = (L.find? isPL).or pl ∧
    (lockSet = false → (scanE lockSet L pl cr).2 = (L.find? isCreate).or cr)
  | [], pl, cr, _, _, _ => by simp [scanE]
  | a :: L, pl, cr, hpl, hcr, hu => by
    have hnot := not_isPL_and_isCreate a
    rw [scanE_cons]
    by_cases hp : isPL a = true
    · have hc : isCreate a = false := by
        cases h : isCreate a with
        | false => rfl
        | true => exact absurd ⟨hp, h⟩ hnot
      have hL : L.filter isPL = [] := by
        have := hu.1; simp only [List.filter_cons, hp, if_true, List.length_cons] at this
        exact List.eq_nil_of_length_eq_zero (by omega)
      have hu' : UniquePlCreate L := by
        refine ⟨by rw [hL]; simp, ?_⟩
        have := hu.2; simp only [List.filter_cons, hc] at this; exact this
      have hcr' : cr.isSome → L.filter isCreate = [] := by
        intro h; have := hcr h; simp only [List.filter_cons, hc] at this; exact this
      have hs : scanStep lockSet a pl cr = (some a, cr) := by simp [scanStep, hp]
      rw [hs]
      simp only [List.find?_cons, hp, hc]
      by_cases hb : ((some a).isSome && (lockSet || cr.isSome)) = true
      · rw [if_pos hb]
        refine ⟨by simp, fun hl => ?_⟩
        subst hl
        simp only [Option.isSome_some, Bool.false_or, Bool.true_and] at hb
        rw [find?_none_of_filter_nil (hcr' hb)]; simp
      · rw [if_neg hb]
        obtain ⟨i1, i2⟩ := scanE_spec lockSet L (some a) cr (fun _ => hL) hcr' hu'
        refine ⟨?_, i2⟩
        rw [i1, find?_none_of_filter_nil hL]; simp
    · have hpf : isPL a = false := by simpa using hp
      have hpl' : pl.isSome → L.filter isPL = [] := by
        intro h; have := hpl h; simp only [List.filter_cons, hpf] at this; exact this
      by_cases hc : isCreate a = true
      · have hLc : L.filter isCreate = [] := by
          have := hu.2; simp only [List.filter_cons, hc, if_true, List.length_cons] at this
          exact List.eq_nil_of_length_eq_zero (by omega)
        have hu' : UniquePlCreate L := by
          refine ⟨?_, by rw [hLc]; simp⟩
          have := hu.1; simp only [List.filter_cons, hpf] at this; exact this
        have hcrn : cr = none := by
          cases cr with
          | none => rfl
          | some c => have := hcr rfl; simp [List.filter_cons, hc] at this
        subst hcrn
        simp only [List.find?_cons, hpf, hc]
        cases lockSet with
        | true =>
          have hs : scanStep true a pl none = (pl, none) := by simp [scanStep, hpf]
          rw [hs]
          by_cases hb : (pl.isSome && (true || (none : Option Event).isSome)) = true
          · rw [if_pos hb]
            simp only [Bool.true_or, Bool.and_true] at hb
            refine ⟨?_, fun hl => by cases hl⟩
            rw [find?_none_of_filter_nil (hpl' hb)]; simp
          · rw [if_neg hb]
            obtain ⟨i1, _⟩ := scanE_spec true L pl none hpl' (by simp) hu'
            exact ⟨i1, fun hl => by cases hl⟩
        | false =>
          have hs : scanStep false a pl none = (pl, some a) := by simp [scanStep, hpf, hc]
          rw [hs]
          by_cases hb : (pl.isSome && (false || (some a).isSome)) = true
          · rw [if_pos hb]
            simp only [Option.isSome_some, Bool.or_true, Bool.and_true] at hb
            refine ⟨?_, fun _ => by simp⟩
            rw [find?_none_of_filter_nil (hpl' hb)]; simp
          · rw [if_neg hb]
            obtain ⟨i1, i2⟩ := scanE_spec false L pl (some a) hpl' (fun _ => hLc) hu'
            refine ⟨i1, fun _ => ?_⟩
            rw [i2 rfl, find?_none_of_filter_nil hLc]; simp
      · have hcf : isCreate a = false := by simpa using hc
        have hcr' : cr.isSome → L.filter isCreate = [] := by
          intro h; have := hcr h; simp only [List.filter_cons, hcf] at this; exact this
        have hu' : UniquePlCreate L := by
          have h1 := hu.1; have h2 := hu.2
          simp only [List.filter_cons, hpf, hcf] at h1 h2
          exact ⟨h1, h2⟩
        have hs : scanStep lockSet a pl cr = (pl, cr) := by simp [scanStep, hpf, hcf]
        rw [hs]
        simp only [List.find?_cons, hpf, hcf]
        by_cases hb : (pl.isSome && (lockSet || cr.isSome)) = true
        · rw [if_pos hb]
          simp only [Bool.and_eq_true, Bool.or_eq_true] at hb
          refine ⟨?_, fun hl => ?_⟩
          · rw [find?_none_of_filter_nil (hpl' hb.1)]; simp
          · subst hl
            simp only [Bool.false_eq_true, false_or] at hb
            rw [find?_none_of_filter_nil (hcr' hb.2)]; simp
        · rw [if_neg hb]
          exact scanE_spec lockSet L pl cr hpl' hcr' hu'

/-- What the power sort needs of an event `e` of the graph (§ DESIGN C06 `WF`): among its auth
events there is at most one power-levels event, and exactly the room's create event `c0`. -/
structure EventWF (fetch : Id → Option Event) (c0 : Event) (e : Event) : Prop where
  unique : UniquePlCreate (e.authEvents.filterMap fetch)
  create : createAmong fetch e = some c0

theorem plAmong_eq (fetch : Id → Option Event) (e : Event) :
    plAmong fetch e = (e.authEvents.filterMap fetch).find? isPL := rfl

theorem createAmong_eq (fetch : Id → Option Event) (e : Event) :
    createAmong fetch e = (e.authEvents.filterMap fetch).find? isCreate := rfl

theorem powerLevelForSender_eq {p : Params} {fetch : Id → Option Event} {c0 e : Event} {eid : Id}
    (he : fetch eid = some e) (wf : EventWF fetch c0 e) (lock : Option Str)
    (hlock : ∀ c, lock = some c → p.creatorOf c0 = some c) :
    powerLevelForSender p fetch lock eid =
      match senderPower p fetch e with
      | some v => .ok (v, p.creatorOf c0)
      | none => .error .err := by
  unfold powerLevelForSender senderPower
  simp only [he, wf.create]
  rw [scanAuth_eq_scanE]
  cases lock with
  | some c =>
    obtain ⟨s1, _⟩ := scanE_spec true (e.authEvents.filterMap fetch) none none (by simp) (by simp) wf.unique
    simp only [Option.or_none] at s1
    rw [← plAmong_eq] at s1
    have hc := hlock c rfl
    simp only [Option.isSome_some, s1, hc, Option.bind_some]
    cases p.userLevel (plAmong fetch e) e.sender c <;> rfl
  | none =>
    obtain ⟨s1, s2⟩ := scanE_spec false (e.authEvents.filterMap fetch) none none (by simp) (by simp) wf.unique
    have s2' := s2 rfl
    simp only [Option.or_none] at s1 s2'
    rw [← plAmong_eq] at s1
    rw [← createAmong_eq, wf.create] at s2'
    simp only [Option.isSome_none, s1, s2']
    cases hcr : p.creatorOf c0 with
    | none => simp
    | some c =>
      simp only [Option.bind_some]
      cases p.userLevel (plAmong fetch e) e.sender c <;> rfl

/-- The spec's power level of the sender of graph node `n`. -/
def specPL (p : Params) (fetch : Id → Option Event) (n : Id) : Option Int :=
  (fetch n).bind (senderPower p fetch)

theorem powerLevels_ok {p : Params} {fetch : Id → Option Event} {c0 : Event} :
    ∀ (nodes : List Id) (lock : Option Str) (m : List (Id × Int)),
    (∀ n ∈ nodes, ∃ e, fetch n = some e ∧ EventWF fetch c0 e) →
    (∀ c, lock = some c → p.creatorOf c0 = some c) →
    (∀ n ∈ nodes, (specPL p fetch n).isSome) →
    ∃ m', powerLevels p fetch nodes lock m = .ok m' ∧
      ∀ k, AL.get m' k = if k ∈ nodes then specPL p fetch k else AL.get m k
  | [], lock, m, _, _, _ => ⟨m, rfl, by simp⟩
  | n :: ns, lock, m, hwf, hlock, hsome => by
    obtain ⟨e, he, wfe⟩ := hwf n (by simp)
    have hs := hsome n (by simp)
    simp only [specPL, he, Option.bind_some] at hs
    obtain ⟨v, hv⟩ := Option.isSome_iff_exists.mp hs
    simp only [powerLevels, powerLevelForSender_eq he wfe lock hlock, hv]
    obtain ⟨m', h1, h2⟩ := powerLevels_ok ns (p.creatorOf c0) (AL.insert m n v)
      (fun x hx => hwf x (by simp [hx])) (fun c hc => hc) (fun x hx => hsome x (by simp [hx]))
    refine ⟨m', h1, ?_⟩
    intro k
    rw [h2, AL.get_insert]
    by_cases hk : k ∈ ns
    · simp [hk]
    · by_cases hkn : n = k
      · subst hkn; simp [hk, specPL, he, hv]
      · simp [hk, hkn, Ne.symm hkn]

theorem powerLevels_err {p : Params} {fetch : Id → Option Event} {c0 : Event} :
    ∀ (nodes : List Id) (lock : Option Str) (m : List (Id × Int)),
    (∀ n ∈ nodes, ∃ e, fetch n = some e ∧ EventWF fetch c0 e) →
    (∀ c, lock = some c → p.creatorOf c0 = some c) →
    (∃ n ∈ nodes, specPL p fetch n = none) →
    powerLevels p fetch nodes lock m = .error .err
  | [], _, _, _, _, h => by obtain ⟨n, hn, _⟩ := h; cases hn
  | n :: ns, lock, m, hwf, hlock, hnone => by
    obtain ⟨e, he, wfe⟩ := hwf n (by simp)
    simp only [powerLevels, powerLevelForSender_eq he wfe lock hlock]
    cases hv : senderPower p fetch e with
    | none => rfl
    | some v =>
      simp only []
      apply powerLevels_err ns _ _ (fun x hx => hwf x (by simp [hx])) (fun c hc => hc)
      obtain ⟨x, hx, hxn⟩ := hnone
      rcases List.mem_cons.mp hx with rfl | hx
      · simp [specPL, he, hv] at hxn
      · exact ⟨x, hx, hxn⟩
/-! ### `reverse_topological_power_sort` -/

/-- Same node set and, node by node, the same edge set (any representation of one graph). -/
def GraphSim (g g' : Graph) : Prop :=
  g'.nodes.Perm g.nodes ∧
  ∀ n es es', (n, es) ∈ g → (n, es') ∈ g' → ∀ x, x ∈ es ↔ x ∈ es'

theorem GraphPerm.sim {g g' : Graph} (hg : g.nodes.Nodup) (h : GraphPerm g g') : GraphSim g g' := by
  refine ⟨h.nodes, ?_⟩
  intro n es es' h1 h2 x
  obtain ⟨es0, h3, h4⟩ := h.mem h2
  have := edges_unique hg h1 h3
  subst this
  exact (h4.mem_iff).symm

theorem candidates_sim {g g' : Graph} (hg : g.nodes.Nodup) (h : GraphSim g g') (done : List Id) :
    (candidates g' done).Perm (candidates g done) := by
  have hg' : g'.nodes.Nodup := h.1.symm.nodup hg
  rw [List.perm_ext_iff_of_nodup (candidates_nodup hg' _) (candidates_nodup hg _)]
  intro n
  rw [mem_candidates, mem_candidates]
  constructor
  · rintro ⟨es', h1, h2, h3⟩
    obtain ⟨es, h4⟩ := mem_nodes_iff.mp (h.1.mem_iff.mp (mem_nodes_iff.mpr ⟨es', h1⟩))
    exact ⟨es, h4, h2, fun e he => h3 e ((h.2 n es es' h4 h1 e).mp he)⟩
  · rintro ⟨es, h1, h2, h3⟩
    obtain ⟨es', h4⟩ := mem_nodes_iff.mp (h.1.mem_iff.mpr (mem_nodes_iff.mpr ⟨es, h1⟩))
    exact ⟨es', h4, h2, fun e he => h3 e ((h.2 n es es' h1 h4 e).mpr he)⟩

theorem kahn_sim {g g' : Graph} (hg : g.nodes.Nodup) (h : GraphSim g g') (K : Id → TB) :
    ∀ (fuel : Nat) (done : List Id), kahn g' K fuel done = kahn g K fuel done
  | 0, _ => rfl
  | fuel + 1, done => by
    unfold kahn
    rw [least_perm powerLt_strictTotal ((candidates_sim hg h done).map K)]
    cases least powerLt ((candidates g done).map K) with
    | none => rfl
    | some m => exact kahn_sim hg h K fuel _

theorem lexTopo_sim {g g' : Graph} (hg : g.nodes.Nodup) (h : GraphSim g g') (K : Id → TB) :
    lexTopo g' K = lexTopo g K := by
  unfold lexTopo
  have : g'.length = g.length := by
    rw [← length_nodes, ← length_nodes]; exact h.1.length_eq
  rw [this]
  exact kahn_sim hg h K _ _

/-- Agreement of two key functions on the nodes suffices. -/
theorem kahn_key_congr (g : Graph) {K K' : Id → TB} (hK : ∀ n ∈ g.nodes, K n = K' n) :
    ∀ (fuel : Nat) (done : List Id), kahn g K fuel done = kahn g K' fuel done
  | 0, _ => rfl
  | fuel + 1, done => by
    unfold kahn
    have : (candidates g done).map K = (candidates g done).map K' := by
      apply List.map_congr_left
      intro n hn
      obtain ⟨es, h1, _, _⟩ := mem_candidates.mp hn
      exact hK n (mem_nodes_iff.mpr ⟨es, h1⟩)
    rw [this]
    cases least powerLt ((candidates g done).map K') with
    | none => rfl
    | some m => exact kahn_key_congr g hK fuel _

/-- The comparison keys of the power sort, from the spec's sender power levels. -/
def powerKey (p : Params) (fetch : Id → Option Event) (n : Id) : Int × Int :=
  ((specPL p fetch n).getD 0, tsOf fetch n)

/-- **powerSort, in order-free terms.** `G` is any representation of the graph of events reachable
from the control events inside the full conflicted set. -/
theorem powerSort_eq {p : Params} {o : Orders} (ho : o.Valid) {fetch : Id → Option Event}
    {allConf control : List Id} {c0 : Event} (hac : allConf.Nodup)
    (hctl : ∀ c ∈ control, c ∈ allConf)
    (hwf : ∀ n ∈ allConf, ∃ e, fetch n = some e ∧ EventWF fetch c0 e)
    (G : Graph) (hG : G.nodes.Nodup)
    (hGn : ∀ n, n ∈ G.nodes ↔ ∃ r ∈ control, Path fetch allConf r n)
    (hGe : ∀ n es, (n, es) ∈ G → ∀ x, x ∈ es ↔ x ∈ children fetch allConf n) :
    powerSort p o fetch allConf control =
      if ∀ n ∈ G.nodes, (specPL p fetch n).isSome = true
      then .ok (lexTopo G (Kf (powerKey p fetch))) else .error .err := by
  have inv0 : GInv fetch allConf [] := ⟨by simp [Graph.nodes], by intro n es h; cases h⟩
  have cl0 : Closed fetch allConf [] [] := by intro n hn; simp [Graph.nodes] at hn
  obtain ⟨g0, hb⟩ := buildGraph_total hac control [] hctl inv0 cl0
  obtain ⟨inv, cl, hnodes⟩ := buildGraph_ok control [] g0 hb inv0 cl0
  unfold powerSort
  simp only [hb]
  -- the shuffled graph
  have hsim : GraphSim G (o.graph.sh (g0.map (fun ne => (ne.1, (o.edges ne.1).sh ne.2)))) := by
    have hperm : GraphPerm g0 (o.graph.sh (g0.map (fun ne => (ne.1, (o.edges ne.1).sh ne.2)))) :=
      ⟨fun n l => (o.edges n).sh l, fun n l => (ho.edges n) l, ho.graph _⟩
    have hs0 := hperm.sim inv.nodup
    refine ⟨hs0.1.trans ?_, ?_⟩
    · rw [List.perm_ext_iff_of_nodup inv.nodup hG]
      intro n; rw [hnodes, hGn]; simp [Graph.nodes]
    · intro n es es' h1 h2 x
      obtain ⟨es0, h3⟩ := mem_nodes_iff.mp (hs0.1.mem_iff.mp (mem_nodes_iff.mpr ⟨es', h2⟩))
      rw [hGe n es h1, ← (inv.edges n es0 h3).2 x]
      exact hs0.2 n es0 es' h3 h2 x
  obtain ⟨g, hg⟩ : ∃ g : Graph, g = o.graph.sh (g0.map (fun ne => (ne.1, (o.edges ne.1).sh ne.2))) := ⟨_, rfl⟩
  rw [← hg] at hsim ⊢
  have hgn : g.nodes.Nodup := hsim.1.symm.nodup hG
  have hnodes_wf : ∀ n ∈ g.nodes, ∃ e, fetch n = some e ∧ EventWF fetch c0 e := by
    intro n hn
    have : n ∈ G.nodes := hsim.1.mem_iff.mp hn
    obtain ⟨r, hr, hp⟩ := (hGn n).mp this
    apply hwf
    cases hp with
    | refl => exact hctl n hr
    | step _ hc =>
      simp only [children, List.mem_filter, decide_eq_true_eq] at hc
      exact hc.2
  by_cases hall : ∀ n ∈ G.nodes, (specPL p fetch n).isSome = true
  · rw [if_pos hall]
    obtain ⟨pls, hpls, hget⟩ := powerLevels_ok (p := p) g.nodes none [] hnodes_wf (by intro c h; cases h)
      (fun n hn => hall n (hsim.1.mem_iff.mp hn))
    simp only [hpls]
    rw [lexTopoSort_eq_lexTopo hgn (fun n l => (ho.parents n) l) (kf := powerKey p fetch)]
    · rw [lexTopo_sim hG hsim]
    · intro n hn
      obtain ⟨e, he, _⟩ := hnodes_wf n hn
      have hs := hall n (hsim.1.mem_iff.mp hn)
      obtain ⟨v, hv⟩ := Option.isSome_iff_exists.mp hs
      simp [he, hget n, hn, hv, powerKey, tsOf]
  · rw [if_neg hall]
    have : ∃ n ∈ g.nodes, specPL p fetch n = none := by
      apply Classical.byContradiction
      intro hne
      apply hall
      intro n hn
      cases hs : specPL p fetch n with
      | some v => rfl
      | none => exact absurd ⟨n, hsim.1.mem_iff.mpr hn, hs⟩ hne
    rw [powerLevels_err g.nodes none [] hnodes_wf (by intro c h; cases h) this]
/-! ### full conflicted set, iterative auth check, final overlay -/

theorem mem_fullConflicted {o : Orders} (ho : o.Valid) {fetch : Id → Option Event} {diff : List Id}
    {conf : List (SKey × List Id)} (id : Id) :
    id ∈ fullConflicted o fetch diff conf ↔
      (id ∈ diff ∨ id ∈ confIds conf) ∧ (fetch id).isSome = true := by
  unfold fullConflicted
  rw [(ho.allConf _).mem_iff, mem_dedup, List.mem_filter, List.mem_append]
  have : id ∈ ((o.confVals.sh conf).map (·.2)).flatten ↔ id ∈ confIds conf := by
    unfold confIds
    simp only [List.mem_flatten, List.mem_map]
    constructor
    · rintro ⟨l, ⟨a, ha, rfl⟩, hid⟩; exact ⟨_, ⟨a, (ho.confVals _).mem_iff.mp ha, rfl⟩, hid⟩
    · rintro ⟨l, ⟨a, ha, rfl⟩, hid⟩; exact ⟨_, ⟨a, (ho.confVals _).mem_iff.mpr ha, rfl⟩, hid⟩
  rw [this]

theorem nodup_fullConflicted {o : Orders} (ho : o.Valid) (fetch : Id → Option Event) (diff : List Id)
    (conf : List (SKey × List Id)) : (fullConflicted o fetch diff conf).Nodup :=
  (ho.allConf _).symm.nodup (nodup_dedup _)

/-! ### state maps up to lookup -/

/-- Two state maps with the same lookups. -/
def StEq (a b : StateMap) : Prop := ∀ k, AL.get a k = AL.get b k

theorem StEq.insert {a b : StateMap} (h : StEq a b) (k : SKey) (v : Id) :
    StEq (AL.insert a k v) (AL.insert b k v) := by
  intro k'; rw [AL.get_insert, AL.get_insert, h k']

/-- Outcomes up to lookup. -/
def ResEq : Except Fail StateMap → Except Fail StateMap → Prop
  | .ok a, .ok b => StEq a b
  | .error e, .error e' => e = e'
  | _, _ => False

theorem ResEq.rfl' {r : Except Fail StateMap} : ResEq r r := by
  cases r with
  | ok a => exact fun _ => rfl
  | error e => exact rfl

theorem overlayState_congr (fetch : Id → Option Event) {st st' : StateMap} (h : StEq st st') :
    ∀ (ks : List SKey) (m : List (SKey × Event)), overlayState fetch st ks m = overlayState fetch st' ks m
  | [], m => rfl
  | k :: ks, m => by
    simp only [overlayState, h k]
    cases AL.get st' k with
    | none => exact overlayState_congr fetch h ks m
    | some id =>
      simp only []
      cases fetch id with
      | none => exact overlayState_congr fetch h ks m
      | some e => exact overlayState_congr fetch h ks _

/-- `iterative_auth_check` depends on the starting state only through its lookups. -/
theorem iterativeAuthCheck_congr (p : Params) (fetch : Id → Option Event) :
    ∀ (ids : List Id) {st st' : StateMap}, StEq st st' →
      ResEq (iterativeAuthCheck p fetch ids st) (iterativeAuthCheck p fetch ids st')
  | [], st, st', h => h
  | id :: rest, st, st', h => by
    simp only [iterativeAuthCheck]
    cases fetch id with
    | none => exact rfl
    | some ev =>
      simp only []
      cases ev.stateKey with
      | none => exact rfl
      | some sk =>
        simp only []
        cases authEventsMap fetch ev.authEvents [] with
        | error e => exact rfl
        | ok am =>
          simp only []
          cases p.authTypes ev with
          | none => exact iterativeAuthCheck_congr p fetch rest h
          | some tys =>
            simp only [overlayState_congr fetch h]
            split
            · exact iterativeAuthCheck_congr p fetch rest (h.insert _ _)
            · exact iterativeAuthCheck_congr p fetch rest h

theorem extend_get : ∀ (clean st : StateMap) (k : SKey), (AL.keys clean).Nodup →
    AL.get (extend st clean) k = (AL.get clean k).or (AL.get st k)
  | [], st, k, _ => by simp [extend]
  | (q, v) :: t, st, k, hn => by
    simp only [AL.keys, List.map_cons, List.nodup_cons] at hn
    have ih := extend_get t (AL.insert st q v) k hn.2
    simp only [extend, List.foldl_cons] at ih ⊢
    rw [ih, AL.get_insert, AL.get_cons]
    by_cases hq : q = k
    · subst hq
      have : AL.get t q = none := (AL.get_eq_none_iff t q).mpr hn.1
      simp [this]
    · simp [hq]
/-! ### `mainline_sort` -/

/-- Two sorted permutations of each other are equal when the order is antisymmetric on them. -/
theorem eq_of_perm_of_sorted {le : α → α → Bool} : ∀ {l₁ l₂ : List α},
    (∀ a b, a ∈ l₁ → b ∈ l₁ → le a b = true → le b a = true → a = b) →
    l₁.Pairwise (fun a b => le a b = true) → l₂.Pairwise (fun a b => le a b = true) →
    l₁.Perm l₂ → l₁ = l₂
  | [], l₂, _, _, _, hp => (List.Perm.eq_nil hp.symm).symm
  | a :: t₁, [], _, _, _, hp => by have := hp.length_eq; simp at this
  | a :: t₁, b :: t₂, hanti, h1, h2, hp => by
    rw [List.pairwise_cons] at h1 h2
    have hab : a = b := by
      by_cases e : a = b
      · exact e
      · have ha : a ∈ t₂ := by
          have := hp.mem_iff.mp (List.mem_cons_self (a := a) (l := t₁))
          rcases List.mem_cons.mp this with h | h
          · exact absurd h e
          · exact h
        have hb : b ∈ t₁ := by
          have := hp.mem_iff.mpr (List.mem_cons_self (a := b) (l := t₂))
          rcases List.mem_cons.mp this with h | h
          · exact absurd h.symm e
          · exact h
        exact hanti a b (by simp) (by simp [hb]) (h1.1 b hb) (h2.1 a ha)
    subst hab
    congr 1
    exact eq_of_perm_of_sorted (fun x y hx hy => hanti x y (by simp [hx]) (by simp [hy]))
      h1.2 h2.2 (List.Perm.cons_inv hp)

/-- Sorting with a total, transitive order that is antisymmetric on the elements does not depend
on the order of the input. -/
theorem mergeSort_perm_eq {le : α → α → Bool} (htrans : ∀ a b c, le a b = true → le b c = true → le a c = true)
    (htotal : ∀ a b, le a b = true ∨ le b a = true) {l l' : List α}
    (hanti : ∀ a b, a ∈ l → b ∈ l → le a b = true → le b a = true → a = b) (hp : l.Perm l') :
    l.mergeSort le = l'.mergeSort le := by
  apply eq_of_perm_of_sorted (le := le)
  · intro a b ha hb
    exact hanti a b ((List.mergeSort_perm l le).mem_iff.mp ha) ((List.mergeSort_perm l le).mem_iff.mp hb)
  · exact List.pairwise_mergeSort (fun a b c => htrans a b c) (fun a b => by
      rcases htotal a b with h | h <;> simp [h]) l
  · exact List.pairwise_mergeSort (fun a b c => htrans a b c) (fun a b => by
      rcases htotal a b with h | h <;> simp [h]) l'
  · exact (List.mergeSort_perm l le).trans (hp.trans (List.mergeSort_perm l' le).symm)

theorem str_le_iff (a b : Str) : a ≤ b ↔ ¬ b < a := List.not_lt.symm

theorem mkey_le_iff (a b : MKey) : MKey.le a b = true ↔
    a.depth < b.depth ∨ (a.depth = b.depth ∧ (a.ts < b.ts ∨ (a.ts = b.ts ∧ a.id ≤ b.id))) := by
  unfold MKey.le
  by_cases h1 : a.depth = b.depth <;> by_cases h2 : a.ts = b.ts <;> simp [h1, h2] <;> omega

theorem mkey_le_total (a b : MKey) : MKey.le a b = true ∨ MKey.le b a = true := by
  rw [mkey_le_iff, mkey_le_iff]
  by_cases h1 : a.depth = b.depth
  · by_cases h2 : a.ts = b.ts
    · rcases List.le_total a.id b.id with h | h
      · exact .inl (.inr ⟨h1, .inr ⟨h2, h⟩⟩)
      · exact .inr (.inr ⟨h1.symm, .inr ⟨h2.symm, h⟩⟩)
    · rcases Int.lt_or_gt_of_ne h2 with h | h
      · exact .inl (.inr ⟨h1, .inl h⟩)
      · exact .inr (.inr ⟨h1.symm, .inl h⟩)
  · rcases Nat.lt_or_gt_of_ne h1 with h | h
    · exact .inl (.inl h)
    · exact .inr (.inl h)

theorem str_le_trans {a b c : Str} (h1 : a ≤ b) (h2 : b ≤ c) : a ≤ c := by
  rw [str_le_iff] at *
  intro h
  rcases Std.lt_trichotomy a b with hab | hab | hab
  · exact h2 (str_lt_trans h hab)
  · subst hab; exact h2 h
  · exact h1 hab

theorem mkey_le_trans (a b c : MKey) (hab : MKey.le a b = true) (hbc : MKey.le b c = true) :
    MKey.le a c = true := by
  rw [mkey_le_iff] at *
  rcases hab with h | ⟨e1, h | ⟨e2, h⟩⟩ <;> rcases hbc with h' | ⟨e1', h' | ⟨e2', h'⟩⟩
  all_goals first
    | (left; omega)
    | (right; refine ⟨by omega, ?_⟩; left; omega)
    | (right; refine ⟨by omega, ?_⟩; right; exact ⟨by omega, str_le_trans h h'⟩)

theorem mkey_le_antisymm (a b : MKey) (hab : MKey.le a b = true) (hba : MKey.le b a = true) :
    a = b := by
  rw [mkey_le_iff] at *
  rcases hab with h | ⟨e1, h | ⟨e2, h⟩⟩ <;> rcases hba with h' | ⟨e1', h' | ⟨e2', h'⟩⟩
  all_goals first
    | (exfalso; omega)
    | skip
  have : a.id = b.id := List.le_antisymm h h'
  cases a; cases b; simp_all

/-- What the `order_map` loop does with one id. -/
inductive OmStep where
  | skip | fuel | entry (k : MKey)

def omStep (fetch : Id → Option Event) (mm : List (Id × Nat)) (fuel : Nat) (id : Id) : OmStep :=
  match fetch id with
  | none => .skip
  | some ev =>
    match mainlineDepth fetch mm fuel (some ev) with
    | .ok d => .entry ⟨d, ev.originServerTs, id⟩
    | .error .fuel => .fuel
    | .error _ => .skip

def omEntry (fetch : Id → Option Event) (mm : List (Id × Nat)) (fuel : Nat) (id : Id) : Option (Id × MKey) :=
  match omStep fetch mm fuel id with
  | .entry k => some (id, k)
  | _ => none

def omIsFuel (fetch : Id → Option Event) (mm : List (Id × Nat)) (fuel : Nat) (id : Id) : Bool :=
  match omStep fetch mm fuel id with
  | .fuel => true
  | _ => false

theorem insert_of_not_mem [DecidableEq κ] : ∀ (m : List (κ × β)) (k : κ) (v : β), k ∉ AL.keys m →
    AL.insert m k v = m ++ [(k, v)]
  | [], k, v, _ => rfl
  | (q, w) :: t, k, v, h => by
    have hq : q ≠ k := by intro e; apply h; simp [AL.keys, e]
    have : k ∉ AL.keys t := by intro h'; apply h; simp only [AL.keys, List.map_cons, List.mem_cons]; exact .inr h'
    simp [AL.insert, hq, insert_of_not_mem t k v this]

theorem omEntry_fst {fetch : Id → Option Event} {mm : List (Id × Nat)} {fuel : Nat} {id : Id} {e : Id × MKey}
    (h : omEntry fetch mm fuel id = some e) : e.1 = id ∧ e.2.id = id := by
  unfold omEntry at h
  cases hs : omStep fetch mm fuel id with
  | skip => rw [hs] at h; cases h
  | fuel => rw [hs] at h; cases h
  | entry k =>
    rw [hs] at h; simp at h; subst h
    unfold omStep at hs
    cases hf : fetch id with
    | none => rw [hf] at hs; cases hs
    | some ev =>
      rw [hf] at hs; simp only [] at hs
      cases hd : mainlineDepth fetch mm fuel (some ev) with
      | ok d => rw [hd] at hs; simp at hs; subst hs; exact ⟨rfl, rfl⟩
      | error er => rw [hd] at hs; cases er <;> cases hs

theorem orderMap_eq (fetch : Id → Option Event) (mm : List (Id × Nat)) (fuel : Nat) :
    ∀ (l : List Id) (m : List (Id × MKey)), l.Nodup → (∀ id ∈ l, id ∉ AL.keys m) →
    orderMap fetch mm fuel l m =
      if l.any (omIsFuel fetch mm fuel) = true then .error .fuel
      else .ok (m ++ l.filterMap (omEntry fetch mm fuel))
  | [], m, _, _ => by simp [orderMap]
  | id :: rest, m, hn, hd => by
    rw [List.nodup_cons] at hn
    have hd' : ∀ x ∈ rest, x ∉ AL.keys m := fun x hx => hd x (by simp [hx])
    have ih := orderMap_eq fetch mm fuel rest m hn.2 hd'
    unfold orderMap
    cases hf : fetch id with
    | none =>
      have hs : omStep fetch mm fuel id = .skip := by simp [omStep, hf]
      simp only [ih, List.filterMap_cons, omEntry, hs, List.any_cons, omIsFuel, Bool.false_or]
    | some ev =>
      simp only []
      cases hdep : mainlineDepth fetch mm fuel (some ev) with
      | ok d =>
        have hs : omStep fetch mm fuel id = .entry ⟨d, ev.originServerTs, id⟩ := by
          simp [omStep, hf, hdep]
        have hnk : id ∉ AL.keys m := hd id (by simp)
        have hd2 : ∀ x ∈ rest, x ∉ AL.keys (AL.insert m id ⟨d, ev.originServerTs, id⟩) := by
          intro x hx
          rw [AL.mem_keys_insert]
          intro h
          rcases h with h | h
          · subst h; exact hn.1 hx
          · exact hd' x hx h
        simp only []
        rw [orderMap_eq fetch mm fuel rest _ hn.2 hd2, insert_of_not_mem m id _ hnk]
        simp only [List.filterMap_cons, omEntry, hs, List.any_cons, omIsFuel, Bool.false_or,
          List.append_assoc, List.singleton_append]
      | error er =>
        cases er with
        | fuel =>
          have hs : omStep fetch mm fuel id = .fuel := by simp [omStep, hf, hdep]
          simp [List.any_cons, omIsFuel, hs]
        | err =>
          have hs : omStep fetch mm fuel id = .skip := by simp [omStep, hf, hdep]
          simp only [ih, List.filterMap_cons, omEntry, hs, List.any_cons, omIsFuel, Bool.false_or]
        | panic =>
          have hs : omStep fetch mm fuel id = .skip := by simp [omStep, hf, hdep]
          simp only [ih, List.filterMap_cons, omEntry, hs, List.any_cons, omIsFuel, Bool.false_or]

/-- **mainlineSort_perm.** The mainline sort of a duplicate-free list does not depend on the order
of that list nor on the iteration order of `order_map`: its sort key `(depth, ts, id)` is
injective on ids. -/
theorem mainlineSort_perm {o o' : Orders} (ho : o.Valid) (ho' : o'.Valid) (fetch : Id → Option Event)
    (fuel : Nat) {l l' : List Id} (hn : l.Nodup) (hp : l.Perm l') (pl : Option Id) :
    mainlineSort o fetch fuel l pl = mainlineSort o' fetch fuel l' pl := by
  have hn' : l'.Nodup := hp.nodup hn
  unfold mainlineSort
  have hemp : l.isEmpty = l'.isEmpty := by
    cases l with
    | nil => have := List.Perm.eq_nil hp.symm; subst this; rfl
    | cons a t =>
      cases l' with
      | nil => have := hp.length_eq; simp at this
      | cons b t' => rfl
  rw [hemp]
  split
  · rfl
  · cases mainlineChain fetch fuel pl [] with
    | error e => rfl
    | ok ml =>
      simp only []
      rw [orderMap_eq fetch _ fuel l [] hn (by simp [AL.keys]),
        orderMap_eq fetch _ fuel l' [] hn' (by simp [AL.keys])]
      have hex : l.any (omIsFuel fetch (mainlineMap ml) fuel) = l'.any (omIsFuel fetch (mainlineMap ml) fuel) := by
        cases h1 : l.any (omIsFuel fetch (mainlineMap ml) fuel) with
        | true =>
          obtain ⟨x, hx, hpx⟩ := List.any_eq_true.mp h1
          exact (List.any_eq_true.mpr ⟨x, hp.mem_iff.mp hx, hpx⟩).symm
        | false =>
          symm; rw [List.any_eq_false] at h1 ⊢
          intro x hx; exact h1 x (hp.mem_iff.mpr hx)
      rw [← hex]
      cases hfu : l.any (omIsFuel fetch (mainlineMap ml) fuel) with
      | true => simp
      | false =>
        simp only [Bool.false_eq_true, if_false, List.nil_append]
        congr 2
        have hperm : (o.orderMap.sh (l.filterMap (omEntry fetch (mainlineMap ml) fuel))).Perm
            (o'.orderMap.sh (l'.filterMap (omEntry fetch (mainlineMap ml) fuel))) :=
          (ho.orderMap _).trans ((hp.filterMap _).trans (ho'.orderMap _).symm)
        apply mergeSort_perm_eq (le := fun a b => MKey.le a.2 b.2)
          (fun a b c => mkey_le_trans a.2 b.2 c.2) (fun a b => mkey_le_total a.2 b.2) _ hperm
        intro a b ha hb h1 h2
        have hk := mkey_le_antisymm a.2 b.2 h1 h2
        have ha' := (ho.orderMap _).mem_iff.mp ha
        have hb' := (ho.orderMap _).mem_iff.mp hb
        obtain ⟨x, _, hx⟩ := List.mem_filterMap.mp ha'
        obtain ⟨y, _, hy⟩ := List.mem_filterMap.mp hb'
        have ea := omEntry_fst hx
        have eb := omEntry_fst hy
        have : a.1 = b.1 := by rw [ea.1, eb.1, ← ea.2, ← eb.2, hk]
        cases a; cases b; simp_all

/-! ### the spec's definitions in the same order-free terms -/

theorem keys_unconflicted_nodup (sets : List StateMap) : (AL.keys (unconflicted sets)).Nodup := by
  unfold unconflicted
  have hk : (keysOf sets).Nodup := nodup_dedup _
  generalize keysOf sets = ks at hk
  induction ks with
  | nil => simp [AL.keys]
  | cons k t ih =>
    rw [List.nodup_cons] at hk
    simp only [List.filterMap_cons]
    split
    · exact ih hk.2
    next b hb =>
      simp only [AL.keys, List.map_cons, List.nodup_cons]
      refine ⟨?_, ih hk.2⟩
      intro hm
      obtain ⟨x, hx, hxe⟩ := List.mem_map.mp hm
      obtain ⟨k', hk', he⟩ := List.mem_filterMap.mp hx
      have e1 : b.1 = k := by
        cases sets with
        | nil => simp at hb
        | cons s rest =>
          simp only [] at hb
          split at hb
          · split at hb
            · simp at hb; rw [← hb]
            · cases hb
          · cases hb
      have e2 : x.1 = k' := by
        cases sets with
        | nil => simp at he
        | cons s rest =>
          simp only [] at he
          split at he
          · split at he
            · simp at he; rw [← he]
            · cases he
          · cases he
      rw [e2, e1] at hxe
      subst hxe
      exact hk.1 hk'

theorem mem_unconflicted {sets : List StateMap} {k : SKey} {v : Id} :
    (k, v) ∈ unconflicted sets ↔ Unconf sets k v := by
  unfold unconflicted Unconf
  simp only [List.mem_filterMap]
  constructor
  · rintro ⟨k', hk', he⟩
    cases sets with
    | nil => simp at he
    | cons s rest =>
      simp only [] at he
      cases hg : AL.get s k' with
      | none => rw [hg] at he; cases he
      | some v' =>
        rw [hg] at he
        simp only [] at he
        split at he
        next hall =>
          simp only [Option.some.injEq, Prod.mk.injEq] at he
          obtain ⟨rfl, rfl⟩ := he
          refine ⟨by simp, ?_⟩
          intro s' hs'
          rcases List.mem_cons.mp hs' with rfl | hs'
          · exact hg
          · rw [List.all_eq_true] at hall
            simpa using hall s' hs'
        next => cases he
  · rintro ⟨hne, hall⟩
    cases sets with
    | nil => exact absurd rfl hne
    | cons s rest =>
      refine ⟨k, ?_, ?_⟩
      · unfold keysOf
        rw [mem_dedup]
        have := AL.get_some_mem (hall s (by simp))
        exact List.mem_map.mpr ⟨(k, v), List.mem_flatten.mpr ⟨s, by simp, this⟩, rfl⟩
      · simp only [hall s (by simp)]
        have : rest.all (fun s' => decide (AL.get s' k = some v)) = true := by
          rw [List.all_eq_true]
          intro s' hs'; simpa using hall s' (by simp [hs'])
        simp [this]

theorem get_unconflicted {sets : List StateMap} {k : SKey} {v : Id} :
    AL.get (unconflicted sets) k = some v ↔ Unconf sets k v := by
  rw [← mem_unconflicted]
  exact ⟨AL.get_some_mem, AL.get_of_mem_nodup (keys_unconflicted_nodup sets)⟩

theorem mem_conflictedSet {sets : List StateMap} (wf : SetsWF sets) (id : Id) :
    id ∈ conflictedSet sets ↔ ∃ k, (∃ s ∈ sets, AL.get s k = some id) ∧ ¬ Unconf sets k id := by
  unfold conflictedSet
  rw [mem_dedup]
  simp only [List.mem_map, List.mem_filter, List.mem_flatten, ne_eq, decide_not, Bool.not_eq_true',
    decide_eq_false_iff_not]
  constructor
  · rintro ⟨⟨k, v⟩, ⟨⟨s, hs, hm⟩, hne⟩, rfl⟩
    exact ⟨k, ⟨s, hs, (mem_iff_get (wf s hs)).mp hm⟩, fun hu => hne (get_unconflicted.mpr hu)⟩
  · rintro ⟨k, ⟨s, hs, hg⟩, hnu⟩
    exact ⟨(k, id), ⟨⟨s, hs, AL.get_some_mem hg⟩, fun h => hnu (get_unconflicted.mp h)⟩, rfl⟩

theorem conflictedSet_isEmpty {sets : List StateMap} (wf : SetsWF sets) :
    conflictedSet sets = [] ↔ ∀ k id, (∃ s ∈ sets, AL.get s k = some id) → Unconf sets k id := by
  constructor
  · intro h k id hex
    apply Classical.byContradiction
    intro hnu
    have := (mem_conflictedSet wf id).mpr ⟨k, hex, hnu⟩
    rw [h] at this; cases this
  · intro h
    cases hc : conflictedSet sets with
    | nil => rfl
    | cons a t =>
      have : a ∈ conflictedSet sets := by rw [hc]; simp
      obtain ⟨k, hex, hnu⟩ := (mem_conflictedSet wf a).mp this
      exact absurd (h k a hex) hnu

theorem mem_fullConflictedSet {fetch : Id → Option Event} {sets : List StateMap} (wf : SetsWF sets)
    {chains : List (List Id)} (id : Id) :
    id ∈ fullConflictedSet fetch sets chains ↔
      (id ∈ conflictedSet sets ∨ id ∈ authDifference chains) ∧ (fetch id).isSome = true := by
  unfold fullConflictedSet
  rw [mem_dedup, List.mem_filter, List.mem_append]
/-! ### assembling `resolve` -/

theorem option_ext {a b : Option α} (h : ∀ v, a = some v ↔ b = some v) : a = b := by
  cases a with
  | none =>
    cases b with
    | none => rfl
    | some v => exact ((h v).mpr rfl).symm ▸ rfl
  | some v => exact ((h v).mp rfl).symm

theorem sepFold_clean_keys (n : Nat) : ∀ (T : List (SKey × (Id × Nat))) (acc),
    (AL.keys acc.1).Nodup → (AL.keys (sepFold n T acc).1).Nodup := by
  intro T
  induction T with
  | nil => intro acc h; exact h
  | cons t T ih =>
    intro acc h
    simp only [sepFold, List.foldl_cons]
    apply ih
    simp only [separateStep]
    split
    · exact AL.keys_nodup_insert _ _ _ h
    · exact h

theorem separate_clean_keys (o : Orders) (sets : List StateMap) :
    (AL.keys (separate o sets).1).Nodup := by
  rw [separate_eq_sepFold]; exact sepFold_clean_keys _ _ _ (by simp [AL.keys])

/-- The two argument lists describe the same state sets: each map of one occurs, up to storage
order, in the other (in particular: any permutation of the list and of every map). -/
structure SetsEquiv (sets sets' : List StateMap) : Prop where
  nil : sets = [] ↔ sets' = []
  fwd : ∀ s ∈ sets, ∃ s' ∈ sets', s.Perm s'
  bwd : ∀ s' ∈ sets', ∃ s ∈ sets, s.Perm s'

/-- The two argument lists describe the same auth-chain sets. -/
structure ChainsEquiv (chains chains' : List (List Id)) : Prop where
  fwd : ∀ c ∈ chains, ∃ c' ∈ chains', ∀ x, x ∈ c ↔ x ∈ c'
  bwd : ∀ c' ∈ chains', ∃ c ∈ chains, ∀ x, x ∈ c ↔ x ∈ c'

theorem SetsEquiv.unconf {sets sets' : List StateMap} (h : SetsEquiv sets sets') (wf : SetsWF sets)
    (k : SKey) (v : Id) : Unconf sets k v ↔ Unconf sets' k v := by
  unfold Unconf
  constructor
  · rintro ⟨hne, hall⟩
    refine ⟨fun e => hne (h.nil.mpr e), ?_⟩
    intro s' hs'
    obtain ⟨s, hs, hp⟩ := h.bwd s' hs'
    rw [← AL.get_perm (wf s hs) hp]; exact hall s hs
  · rintro ⟨hne, hall⟩
    refine ⟨fun e => hne (h.nil.mp e), ?_⟩
    intro s hs
    obtain ⟨s', hs', hp⟩ := h.fwd s hs
    rw [AL.get_perm (wf s hs) hp]; exact hall s' hs'

theorem SetsEquiv.has {sets sets' : List StateMap} (h : SetsEquiv sets sets') (wf : SetsWF sets)
    (k : SKey) (v : Id) : (∃ s ∈ sets, AL.get s k = some v) ↔ (∃ s' ∈ sets', AL.get s' k = some v) := by
  constructor
  · rintro ⟨s, hs, hg⟩
    obtain ⟨s', hs', hp⟩ := h.fwd s hs
    exact ⟨s', hs', by rw [← AL.get_perm (wf s hs) hp]; exact hg⟩
  · rintro ⟨s', hs', hg⟩
    obtain ⟨s, hs, hp⟩ := h.bwd s' hs'
    exact ⟨s, hs, by rw [AL.get_perm (wf s hs) hp]; exact hg⟩

theorem ChainsEquiv.diff {chains chains' : List (List Id)} (h : ChainsEquiv chains chains') (id : Id) :
    ((∃ c ∈ chains, id ∈ c) ∧ (∃ c ∈ chains, id ∉ c)) ↔
    ((∃ c ∈ chains', id ∈ c) ∧ (∃ c ∈ chains', id ∉ c)) := by
  constructor
  · rintro ⟨⟨c, hc, h1⟩, ⟨d, hd, h2⟩⟩
    obtain ⟨c', hc', e1⟩ := h.fwd c hc
    obtain ⟨d', hd', e2⟩ := h.fwd d hd
    exact ⟨⟨c', hc', (e1 id).mp h1⟩, ⟨d', hd', fun x => h2 ((e2 id).mpr x)⟩⟩
  · rintro ⟨⟨c', hc', h1⟩, ⟨d', hd', h2⟩⟩
    obtain ⟨c, hc, e1⟩ := h.bwd c' hc'
    obtain ⟨d, hd, e2⟩ := h.bwd d' hd'
    exact ⟨⟨c, hc, (e1 id).mpr h1⟩, ⟨d, hd, fun x => h2 ((e2 id).mp x)⟩⟩

theorem children_congr (fetch : Id → Option Event) {A A' : List Id} (h : ∀ x, x ∈ A ↔ x ∈ A') (n : Id) :
    children fetch A n = children fetch A' n := by
  unfold children
  apply List.filter_congr
  intro x _
  exact decide_eq_decide.mpr (h x)

theorem Path.congr {fetch : Id → Option Event} {A A' : List Id} (h : ∀ x, x ∈ A ↔ x ∈ A') {r n : Id}
    (hp : Path fetch A r n) : Path fetch A' r n := by
  induction hp with
  | refl => exact .refl
  | step _ hc ih => exact .step ih (by rw [← children_congr fetch h]; exact hc)

/-- Membership in the model's full conflicted set is membership in the spec's. -/
theorem mem_allConf_iff {o : Orders} (ho : o.Valid) {fetch : Id → Option Event} {sets : List StateMap}
    (wf : SetsWF sets) {chains : List (List Id)} (hc : ∀ c ∈ chains, c.Nodup) (id : Id) :
    id ∈ fullConflicted o fetch (authChainDiff o chains) (separate o sets).2 ↔
      id ∈ fullConflictedSet fetch sets chains := by
  rw [mem_fullConflicted ho, mem_fullConflictedSet wf, mem_authChainDiff ho hc, mem_authDifference,
    separate_conf ho wf, mem_conflictedSet wf]
  constructor
  · rintro ⟨h1 | h1, h2⟩; exact ⟨.inr h1, h2⟩; exact ⟨.inl h1, h2⟩
  · rintro ⟨h1 | h1, h2⟩; exact ⟨.inr h1, h2⟩; exact ⟨.inl h1, h2⟩

theorem fullConflictedSet_congr {fetch : Id → Option Event} {sets sets' : List StateMap}
    (wf : SetsWF sets) (wf' : SetsWF sets') (hs : SetsEquiv sets sets')
    {chains chains' : List (List Id)} (hce : ChainsEquiv chains chains') (id : Id) :
    id ∈ fullConflictedSet fetch sets chains ↔ id ∈ fullConflictedSet fetch sets' chains' := by
  rw [mem_fullConflictedSet wf, mem_fullConflictedSet wf', mem_conflictedSet wf, mem_conflictedSet wf',
    mem_authDifference, mem_authDifference, hce.diff id]
  constructor
  · rintro ⟨⟨k, h1, h2⟩ | h, h3⟩
    · exact ⟨.inl ⟨k, (hs.has wf k id).mp h1, fun u => h2 ((hs.unconf wf k id).mpr u)⟩, h3⟩
    · exact ⟨.inr h, h3⟩
  · rintro ⟨⟨k, h1, h2⟩ | h, h3⟩
    · exact ⟨.inl ⟨k, (hs.has wf k id).mpr h1, fun u => h2 ((hs.unconf wf k id).mp u)⟩, h3⟩
    · exact ⟨.inr h, h3⟩

/-- `resolve` from the first iterative auth check on. -/
def resolveTail (p : Params) (o : Orders) (fetch : Id → Option Event) (fuel : Nat) (allConf : List Id)
    (clean : StateMap) (sortedControl : List Id) : Except Fail StateMap :=
  match iterativeAuthCheck p fetch sortedControl clean with
  | .error e => .error e
  | .ok resolvedControl =>
    let toResolve := allConf.filter (fun id => !sortedControl.contains id)
    let powerEvent := AL.get resolvedControl (tPowerLevels, [])
    match mainlineSort o fetch fuel toResolve powerEvent with
    | .error e => .error e
    | .ok sortedLeft =>
      match iterativeAuthCheck p fetch sortedLeft resolvedControl with
      | .error e => .error e
      | .ok resolved => .ok (extend resolved clean)

theorem resolve_eq_tail (p : Params) (o : Orders) (store : List Event) (sets : List StateMap)
    (chains : List (List Id)) :
    resolve p o store sets chains =
      if (separate o sets).2.isEmpty then .ok (separate o sets).1
      else
        match powerSort p o (fetchOf store)
            (fullConflicted o (fetchOf store) (authChainDiff o chains) (separate o sets).2)
            ((fullConflicted o (fetchOf store) (authChainDiff o chains) (separate o sets).2).filter
              (isPowerEventId p (fetchOf store))) with
        | .error e => .error e
        | .ok sc => resolveTail p o (fetchOf store) (store.length + 1)
            (fullConflicted o (fetchOf store) (authChainDiff o chains) (separate o sets).2)
            (separate o sets).1 sc := by
  unfold resolve resolveTail
  rfl

theorem resolveTail_congr (p : Params) {o o' : Orders} (ho : o.Valid) (ho' : o'.Valid)
    (fetch : Id → Option Event) (fuel : Nat) {A A' : List Id} (hA : A.Nodup) (hp : A.Perm A')
    {clean clean' : StateMap} (hk : (AL.keys clean).Nodup) (hk' : (AL.keys clean').Nodup)
    (hc : StEq clean clean') (sc : List Id) :
    ResEq (resolveTail p o fetch fuel A clean sc) (resolveTail p o' fetch fuel A' clean' sc) := by
  unfold resolveTail
  have h1 := iterativeAuthCheck_congr p fetch sc hc
  cases r1 : iterativeAuthCheck p fetch sc clean with
  | error e =>
    cases r1' : iterativeAuthCheck p fetch sc clean' with
    | error e' => rw [r1, r1'] at h1; exact h1
    | ok x => rw [r1, r1'] at h1; exact h1.elim
  | ok rc =>
    cases r1' : iterativeAuthCheck p fetch sc clean' with
    | error e' => rw [r1, r1'] at h1; exact h1.elim
    | ok rc' =>
      rw [r1, r1'] at h1
      have hst : StEq rc rc' := h1
      simp only []
      rw [← hst (tPowerLevels, [])]
      rw [mainlineSort_perm ho ho' fetch fuel (List.Nodup.sublist List.filter_sublist hA)
        (hp.filter _) (AL.get rc (tPowerLevels, []))]
      cases mainlineSort o' fetch fuel (A'.filter (fun id => !sc.contains id)) (AL.get rc (tPowerLevels, [])) with
      | error e => exact rfl
      | ok sl =>
        simp only []
        have h2 := iterativeAuthCheck_congr p fetch sl hst
        cases r2 : iterativeAuthCheck p fetch sl rc with
        | error e =>
          cases r2' : iterativeAuthCheck p fetch sl rc' with
          | error e' => rw [r2, r2'] at h2; exact h2
          | ok x => rw [r2, r2'] at h2; exact h2.elim
        | ok rs =>
          cases r2' : iterativeAuthCheck p fetch sl rc' with
          | error e' => rw [r2, r2'] at h2; exact h2.elim
          | ok rs' =>
            rw [r2, r2'] at h2
            have hst2 : StEq rs rs' := h2
            intro k
            rw [extend_get clean rs k hk, extend_get clean' rs' k hk', hc k, hst2 k]

/-- Room well-formedness needed by the power sort (DESIGN C06 `WF`): every event of the full
conflicted set is known, cites exactly one create event `c0` and at most one power-levels event. In
particular the create event itself is not in the full conflicted set. -/
def RoomWF (store : List Event) (sets : List StateMap) (chains : List (List Id)) (c0 : Event) : Prop :=
  ∀ n ∈ fullConflictedSet (fetchOf store) sets chains,
    ∃ e, fetchOf store n = some e ∧ EventWF (fetchOf store) c0 e

theorem resolve_congr (p : Params) {o o' : Orders} (ho : o.Valid) (ho' : o'.Valid) (store : List Event)
    {sets sets' : List StateMap} (wf : SetsWF sets) (wf' : SetsWF sets') (hs : SetsEquiv sets sets')
    {chains chains' : List (List Id)} (hcn : ∀ c ∈ chains, c.Nodup) (hcn' : ∀ c ∈ chains', c.Nodup)
    (hce : ChainsEquiv chains chains') {c0 : Event} (hwf : RoomWF store sets chains c0) :
    ResEq (resolve p o store sets chains) (resolve p o' store sets' chains') := by
  rw [resolve_eq_tail, resolve_eq_tail]
  -- unconflicted maps agree
  have hclean : StEq (separate o sets).1 (separate o' sets').1 := by
    intro k
    apply option_ext
    intro v
    rw [separate_clean ho wf, separate_clean ho' wf', hs.unconf wf]
  -- emptiness of the conflicted maps agrees
  have hemp : (separate o sets).2.isEmpty = (separate o' sets').2.isEmpty := by
    have e1 := separate_conf_nil ho wf
    have e2 := separate_conf_nil ho' wf'
    have : (separate o sets).2 = [] ↔ (separate o' sets').2 = [] := by
      rw [e1, e2]
      constructor
      · intro h k id hex; exact (hs.unconf wf k id).mp (h k id ((hs.has wf k id).mpr hex))
      · intro h k id hex; exact (hs.unconf wf k id).mpr (h k id ((hs.has wf k id).mp hex))
    cases h1 : (separate o sets).2 with
    | nil => rw [this.mp h1]
    | cons a t =>
      cases h2 : (separate o' sets').2 with
      | nil => rw [this.mpr h2] at h1; cases h1
      | cons b t' => rfl
  rw [← hemp]
  split
  · exact hclean
  · -- full conflicted sets
    obtain ⟨A, hAdef⟩ : ∃ A, A = fullConflicted o (fetchOf store) (authChainDiff o chains) (separate o sets).2 := ⟨_, rfl⟩
    obtain ⟨A', hA'def⟩ : ∃ A', A' = fullConflicted o' (fetchOf store) (authChainDiff o' chains') (separate o' sets').2 := ⟨_, rfl⟩
    rw [← hAdef, ← hA'def]
    have hAn : A.Nodup := by rw [hAdef]; exact nodup_fullConflicted ho _ _ _
    have hAn' : A'.Nodup := by rw [hA'def]; exact nodup_fullConflicted ho' _ _ _
    have hAmem : ∀ x, x ∈ A ↔ x ∈ fullConflictedSet (fetchOf store) sets chains := by
      intro x; rw [hAdef]; exact mem_allConf_iff ho wf hcn x
    have hAmem' : ∀ x, x ∈ A' ↔ x ∈ fullConflictedSet (fetchOf store) sets chains := by
      intro x; rw [hA'def, mem_allConf_iff ho' wf' hcn' x]
      exact (fullConflictedSet_congr wf wf' hs hce x).symm
    have hAA : ∀ x, x ∈ A ↔ x ∈ A' := fun x => (hAmem x).trans (hAmem' x).symm
    have hperm : A.Perm A' := (List.perm_ext_iff_of_nodup hAn hAn').mpr hAA
    -- a representation of the power graph
    have hwfA : ∀ n ∈ A, ∃ e, fetchOf store n = some e ∧ EventWF (fetchOf store) c0 e :=
      fun n hn => hwf n ((hAmem n).mp hn)
    have hwfA' : ∀ n ∈ A', ∃ e, fetchOf store n = some e ∧ EventWF (fetchOf store) c0 e :=
      fun n hn => hwf n ((hAmem' n).mp hn)
    have hctl : ∀ c ∈ A.filter (isPowerEventId p (fetchOf store)), c ∈ A := fun c hc => (List.mem_filter.mp hc).1
    have hctl' : ∀ c ∈ A'.filter (isPowerEventId p (fetchOf store)), c ∈ A' := fun c hc => (List.mem_filter.mp hc).1
    have inv0 : GInv (fetchOf store) A [] := ⟨by simp [Graph.nodes], by intro n es h; cases h⟩
    have cl0 : Closed (fetchOf store) A [] [] := by intro n hn; simp [Graph.nodes] at hn
    obtain ⟨G, hb⟩ := buildGraph_total hAn _ [] hctl inv0 cl0
    obtain ⟨inv, _, hnodes⟩ := buildGraph_ok _ [] G hb inv0 cl0
    have hGn : ∀ n, n ∈ G.nodes ↔ ∃ r ∈ A.filter (isPowerEventId p (fetchOf store)), Path (fetchOf store) A r n := by
      intro n; rw [hnodes]; simp [Graph.nodes]
    have hGe : ∀ n es, (n, es) ∈ G → ∀ x, x ∈ es ↔ x ∈ children (fetchOf store) A n :=
      fun n es h x => (inv.edges n es h).2 x
    have hGn' : ∀ n, n ∈ G.nodes ↔ ∃ r ∈ A'.filter (isPowerEventId p (fetchOf store)), Path (fetchOf store) A' r n := by
      intro n; rw [hGn]
      constructor
      · rintro ⟨r, hr, hp⟩
        obtain ⟨h1, h2⟩ := List.mem_filter.mp hr
        exact ⟨r, List.mem_filter.mpr ⟨(hAA r).mp h1, h2⟩, hp.congr hAA⟩
      · rintro ⟨r, hr, hp⟩
        obtain ⟨h1, h2⟩ := List.mem_filter.mp hr
        exact ⟨r, List.mem_filter.mpr ⟨(hAA r).mpr h1, h2⟩, hp.congr (fun x => (hAA x).symm)⟩
    have hGe' : ∀ n es, (n, es) ∈ G → ∀ x, x ∈ es ↔ x ∈ children (fetchOf store) A' n := by
      intro n es h x; rw [← children_congr _ hAA]; exact hGe n es h x
    rw [powerSort_eq ho hAn hctl hwfA G inv.nodup hGn hGe,
      powerSort_eq ho' hAn' hctl' hwfA' G inv.nodup hGn' hGe']
    by_cases hall : ∀ n ∈ G.nodes, (specPL p (fetchOf store) n).isSome = true
    · simp only [if_pos hall]
      exact resolveTail_congr p ho ho' _ _ hAn hperm (separate_clean_keys o sets)
        (separate_clean_keys o' sets') hclean _
    · simp only [if_neg hall]
      exact rfl

theorem SetsWF.of_perm {sets sets' : List StateMap} (σ : StateMap → StateMap) (hσ : ∀ s, (σ s).Perm s)
    (hp : sets'.Perm (sets.map σ)) (wf : SetsWF sets) : SetsWF sets' := by
  intro s' hs'
  obtain ⟨s, hs, rfl⟩ := List.mem_map.mp (hp.mem_iff.mp hs')
  have : (AL.keys (σ s)).Perm (AL.keys s) := (hσ s).map _
  exact this.symm.nodup (wf s hs)

theorem SetsEquiv.of_perm {sets sets' : List StateMap} (σ : StateMap → StateMap) (hσ : ∀ s, (σ s).Perm s)
    (hp : sets'.Perm (sets.map σ)) : SetsEquiv sets sets' := by
  refine ⟨?_, ?_, ?_⟩
  · constructor
    · intro h; subst h; exact List.Perm.eq_nil hp
    · intro h; subst h
      have := (List.Perm.eq_nil hp.symm)
      cases sets with
      | nil => rfl
      | cons a t => simp at this
  · intro s hs
    exact ⟨σ s, hp.mem_iff.mpr (List.mem_map_of_mem hs), (hσ s).symm⟩
  · intro s' hs'
    obtain ⟨s, hs, rfl⟩ := List.mem_map.mp (hp.mem_iff.mp hs')
    exact ⟨s, hs, (hσ s).symm⟩

theorem ChainsEquiv.of_perm {chains chains' : List (List Id)} (τ : List Id → List Id)
    (hτ : ∀ c, (τ c).Perm c) (hp : chains'.Perm (chains.map τ)) : ChainsEquiv chains chains' := by
  refine ⟨?_, ?_⟩
  · intro c hc
    exact ⟨τ c, hp.mem_iff.mpr (List.mem_map_of_mem hc), fun x => ((hτ c).mem_iff).symm⟩
  · intro c' hc'
    obtain ⟨c, hc, rfl⟩ := List.mem_map.mp (hp.mem_iff.mp hc')
    exact ⟨c, hc, fun x => ((hτ c).mem_iff).symm⟩

theorem chains_nodup_of_perm {chains chains' : List (List Id)} (τ : List Id → List Id)
    (hτ : ∀ c, (τ c).Perm c) (hp : chains'.Perm (chains.map τ)) (hn : ∀ c ∈ chains, c.Nodup) :
    ∀ c' ∈ chains', c'.Nodup := by
  intro c' hc'
  obtain ⟨c, hc, rfl⟩ := List.mem_map.mp (hp.mem_iff.mp hc')
  exact (hτ c).symm.nodup (hn c hc)

/-- Without conflict `resolve` returns the unconflicted map (the early return). -/
theorem resolve_noconflict (p : Params) {o : Orders} (ho : o.Valid) (store : List Event)
    {sets : List StateMap} (wf : SetsWF sets) (chains : List (List Id))
    (h : ∀ k id, (∃ s ∈ sets, AL.get s k = some id) → Unconf sets k id) :
    ∃ m, resolve p o store sets chains = .ok m ∧ ∀ k v, AL.get m k = some v ↔ Unconf sets k v := by
  refine ⟨(separate o sets).1, ?_, fun k v => separate_clean ho wf k v⟩
  rw [resolve_eq_tail, (separate_conf_nil ho wf).mpr h]
  rfl

/-- All the state sets are (up to storage order) the one map `s`. -/
theorem unconf_of_identical {sets : List StateMap} {s : StateMap} (hs : (AL.keys s).Nodup)
    (hne : sets ≠ []) (hall : ∀ s' ∈ sets, s'.Perm s) (k : SKey) (v : Id) :
    Unconf sets k v ↔ AL.get s k = some v := by
  unfold Unconf
  constructor
  · rintro ⟨_, h⟩
    cases sets with
    | nil => exact absurd rfl hne
    | cons a t =>
      have := h a (by simp)
      have hp := hall a (by simp)
      rw [AL.get_perm hs hp.symm]; exact this
  · intro h
    refine ⟨hne, fun s' hs' => ?_⟩
    rw [← AL.get_perm hs (hall s' hs').symm]; exact h
end Ruma.StateRes
