/-
  Stage lemmas for `resolve`: each stage of the model is characterised in order-free terms
  (membership / lookup), which gives both the correspondence with `Spec/StateResV2.lean` (C07) and
  the independence of iteration orders and argument permutations (C06).
-/
import RumaModel.Lemmas.StateResBasic
import RumaModel.Lemmas.StateResTopo
namespace Ruma.StateRes
open Ruma Ruma.Spec.StateResV2

theorem mem_of_cntOf [DecidableEq κ] {m : List (κ × Nat)} (hn : (AL.keys m).Nodup) {k : κ} {c : Nat} :
    (k, c) ∈ m ↔ k ∈ AL.keys m ∧ cntOf m k = c := by
  constructor
  · intro h
    refine ⟨List.mem_map_of_mem (f := Prod.fst) h, ?_⟩
    simp [cntOf, AL.get_of_mem_nodup hn h]
  · rintro ⟨h1, h2⟩
    cases hg : AL.get m k with
    | none => exact absurd h1 ((AL.get_eq_none_iff m k).mp hg)
    | some c' =>
      simp [cntOf, hg] at h2; subst h2
      exact AL.get_some_mem hg

theorem count_flatten_of_nodup [DecidableEq α] (a : α) : ∀ (ls : List (List α)), (∀ l ∈ ls, l.Nodup) →
    ls.flatten.count a = (ls.filter (fun l => l.contains a)).length
  | [], _ => by simp
  | l :: ls, h => by
    have ih := count_flatten_of_nodup a ls (fun l' hl' => h l' (List.mem_cons_of_mem _ hl'))
    have hl := h l (by simp)
    simp only [List.flatten_cons, List.count_append, ih, List.filter_cons]
    by_cases ha : a ∈ l
    · have h1 : l.count a ≤ 1 := List.nodup_iff_count.mp hl a
      have h2 : 0 < l.count a := List.count_pos_iff.mpr ha
      have : l.count a = 1 := by omega
      simp [ha, this]; omega
    · have : l.count a = 0 := List.count_eq_zero_of_not_mem ha
      simp [ha, this]

theorem filter_length_lt_iff {p : α → Bool} : ∀ {l : List α},
    (l.filter p).length < l.length ↔ ∃ x ∈ l, p x = false
  | [] => by simp
  | x :: xs => by
    have ih := filter_length_lt_iff (p := p) (l := xs)
    have hle := List.length_filter_le p xs
    by_cases hx : p x = true
    · simp only [List.filter_cons, hx, if_true, List.length_cons, Nat.add_lt_add_iff_right, ih,
        List.mem_cons, exists_eq_or_imp]
      simp [hx]
    · simp only [List.filter_cons, hx, List.length_cons, List.mem_cons, exists_eq_or_imp]
      simp at hx
      simp [hx]; omega

/-- Membership in the model's auth-chain difference, in order-free terms. -/
theorem mem_authChainDiff {o : Orders} (ho : o.Valid) {chains : List (List Id)}
    (hn : ∀ c ∈ chains, c.Nodup) (id : Id) :
    id ∈ authChainDiff o chains ↔ (∃ c ∈ chains, id ∈ c) ∧ (∃ c ∈ chains, id ∉ c) := by
  unfold authChainDiff idCounts
  obtain ⟨hk1, hk2⟩ := keys_foldl_bump chains.flatten ([] : List (Id × Nat)) (by simp [AL.keys])
  simp only [List.mem_filterMap, (ho.idCounts _).mem_iff]
  constructor
  · rintro ⟨⟨i, c⟩, hm, hc⟩
    split at hc
    next hlt =>
      simp at hc; subst hc
      obtain ⟨h1, h2⟩ := (mem_of_cntOf hk1).mp hm
      rw [cntOf_foldl_bump] at h2
      simp [cntOf] at h2
      have hmem : i ∈ chains.flatten := by
        have := (hk2 i).mp h1; simpa [AL.keys] using this
      rw [count_flatten_of_nodup i chains hn] at h2
      simp only [] at hlt
      rw [← h2] at hlt
      obtain ⟨x, hx, hpx⟩ := filter_length_lt_iff.mp hlt
      refine ⟨by simpa using hmem, x, hx, by simpa using hpx⟩
    next => cases hc
  · rintro ⟨⟨c, hc, hic⟩, ⟨c', hc', hic'⟩⟩
    refine ⟨(id, cntOf (List.foldl bump [] chains.flatten) id), ?_, ?_⟩
    · rw [mem_of_cntOf hk1]
      exact ⟨(hk2 id).mpr (.inl (List.mem_flatten.mpr ⟨c, hc, hic⟩)), rfl⟩
    · have : cntOf (List.foldl bump [] chains.flatten) id < chains.length := by
        rw [cntOf_foldl_bump, count_flatten_of_nodup id chains hn]
        simp only [cntOf, AL.get_nil, Nat.zero_add]
        exact filter_length_lt_iff.mpr ⟨c', hc', by simpa using hic'⟩
      simp [this]

theorem mem_authDifference {chains : List (List Id)} (id : Id) :
    id ∈ authDifference chains ↔ (∃ c ∈ chains, id ∈ c) ∧ (∃ c ∈ chains, id ∉ c) := by
  unfold authDifference
  rw [mem_dedup]
  simp only [List.mem_filter, List.mem_flatten, Bool.not_eq_true', List.all_eq_false,
    List.contains_iff_mem, decide_eq_false_iff_not]

theorem nodup_authChainDiff {o : Orders} (ho : o.Valid) (chains : List (List Id)) :
    (authChainDiff o chains).Nodup := by
  unfold authChainDiff idCounts
  obtain ⟨hk1, _⟩ := keys_foldl_bump chains.flatten ([] : List (Id × Nat)) (by simp [AL.keys])
  have hk : (AL.keys (o.idCounts.sh (List.foldl bump [] chains.flatten))).Nodup :=
    ((ho.idCounts _).map _).symm.nodup hk1
  generalize o.idCounts.sh (List.foldl bump [] chains.flatten) = l at hk
  induction l with
  | nil => simp
  | cons a t ih =>
    simp only [AL.keys, List.map_cons, List.nodup_cons] at hk
    simp only [List.filterMap_cons]
    split
    · exact ih hk.2
    next b hb =>
      split at hb
      · simp at hb; subst hb
        refine List.nodup_cons.mpr ⟨?_, ih hk.2⟩
        intro hm
        obtain ⟨x, hx, hxe⟩ := List.mem_filterMap.mp hm
        split at hxe
        · simp at hxe; apply hk.1; rw [← hxe]; exact List.mem_map_of_mem hx
        · cases hxe
      · cases hb
end Ruma.StateRes
