/-
  Helper lemmas for C18's schema model (`Model/ContentSchema.lean`). Core Lean only.
  Part 1: an induction principle for `Schema`, non-mutual readings of the mutual functions,
  `allSome`, `serdeValue` facts.
-/
import RumaModel.Model.ContentSchema
import RumaModel.Lemmas.Canonical
namespace Ruma.ContentSchema
open Ruma Ruma.Canonical

/-! ### Induction over schemas -/

/-- Structural induction with the hypotheses for the field / case lists collected as `∀ x ∈ list`. -/
theorem Schema.ind {P : Schema → Prop}
    (any : P .any) (scalar : ∀ n, P (.scalar n))
    (arr : ∀ e, P e → P (.arr e))
    (map : ∀ ok s, P s → P (.map ok s))
    (obj : ∀ fields keep, (∀ f ∈ fields, P f.schema) → P (.obj fields keep))
    (nullOr : ∀ s, P s → P (.nullOr s))
    (tagged : ∀ tag cases, (∀ c ∈ cases, P c.schema) → P (.tagged tag cases)) :
    ∀ s, P s := by
  intro s
  refine Schema.rec (motive_1 := P) (motive_2 := fun f => P f.schema) (motive_3 := fun c => P c.schema)
    (motive_4 := fun fs => ∀ f ∈ fs, P f.schema) (motive_5 := fun cs => ∀ c ∈ cs, P c.schema)
    any scalar arr map ?_ nullOr ?_ ?_ ?_ ?_ ?_ ?_ ?_ s
  · intro fields keep h; exact obj fields keep h
  · intro tag cases h; exact tagged tag cases h
  · intro _ _ s _ _ _ _ _ _ h; exact h
  · intro _ s h; exact h
  · intro f hf; cases hf
  · intro head tail h1 h2 f hf
    cases hf with
    | head => exact h1
    | tail _ h => exact h2 f h
  · intro c hc; cases hc
  · intro head tail h1 h2 c hc
    cases hc with
    | head => exact h1
    | tail _ h => exact h2 c h

/-! ### Non-mutual readings -/

/-- What a field contributes, as a function of what the visitor found for it. -/
def outOf (f : Field) (l : Look) : Out :=
  if f.ghost then absentOut f.req f.dflt else
  match l with
  | .dup => .fail
  | .absent => absentOut f.req f.dflt
  | .one v =>
    if f.nullAbsent && isNull v then absentOut f.req f.dflt else
    match project f.schema v with
    | some nv => if f.skip nv then .nothing else .emit nv
    | none => if f.lenient then absentOut f.req f.dflt else .fail

def Field.look (f : Field) (o : Obj) : Look := ContentSchema.look f.name f.aliases o

theorem projectField_eq (f : Field) (o : Obj) : projectField f o = outOf f (f.look o) := by
  cases f with
  | mk name aliases s req dflt na len skip ghost =>
    rw [projectField]
    simp only [Field.look, Field.name, Field.aliases, outOf, Field.ghost]
    cases ghost
    · simp only [Bool.false_eq_true, if_false]
      cases look name aliases o <;> rfl
    · rfl

/-- Assemble the written fields; the first failure fails everything. -/
def collect : List (Str × Out) → Option Obj
  | [] => some []
  | (_, .fail) :: _ => none
  | (_, .nothing) :: t => collect t
  | (k, .emit v) :: t =>
    match collect t with
    | some out => some ((k, v) :: out)
    | none => none

theorem projectFields_eq (fs : List Field) (o : Obj) :
    projectFields fs o = collect (fs.map (fun f => (f.name, outOf f (f.look o)))) := by
  induction fs with
  | nil => rw [projectFields]; rfl
  | cons f fs ih =>
    rw [projectFields, projectField_eq, ih]
    simp only [List.map_cons]
    cases outOf f (f.look o) <;> rfl

theorem projectCases_eq (cs : List Case) (t : Str) (v : JVal) :
    projectCases cs t v =
      match cs.find? (fun c => c.label == t) with
      | some c => project c.schema v
      | none => none := by
  induction cs with
  | nil => rw [projectCases]; rfl
  | cons c cs ih =>
    cases c with
    | mk label s =>
      rw [projectCases, List.find?_cons]
      by_cases h : t = label
      · subst h; simp [Case.label, Case.schema]
      · have h' : (label == t) = false := by simp; exact fun e => h e.symm
        simp only [h, if_false, Case.label, h', ih]

theorem project_obj (fields : List Field) (keep : Bool) (o : Obj) :
    project (.obj fields keep) (.obj o) =
      match collect (fields.map (fun f => (f.name, outOf f (f.look o)))) with
      | some out => some (.obj (out ++ (if keep then Obj.ofList (serdeValueO (o.filter (fun e => !known fields e.1))) else [])))
      | none => none := by
  rw [project, projectFields_eq]
  cases collect (fields.map (fun f => (f.name, outOf f (f.look o)))) <;> rfl

theorem project_tagged (tag : Str) (cases : List Case) (o : Obj) :
    project (.tagged tag cases) (.obj o) =
      match tagOf tag o with
      | some t =>
        (match cases.find? (fun c => c.label == t) with
         | some c => project c.schema (.obj o)
         | none => none)
      | none => none := by
  rw [project]
  cases tagOf tag o with
  | none => rfl
  | some t => simp only [projectCases_eq]

theorem project_nullOr (s : Schema) (v : JVal) (h : v ≠ .null) : project (.nullOr s) v = project s v := by
  cases v <;> first | exact absurd rfl h | (rw [project]; intro e; cases e)

theorem project_nullOr_null (s : Schema) : project (.nullOr s) .null = some .null := by
  rw [project]

/-! ### `allSome` -/

theorem allSome_map_some (r : List α) : allSome (r.map some) = some r := by
  induction r with
  | nil => rfl
  | cons x t ih => simp only [List.map_cons, allSome, ih]

/-- Two lists related element by element. -/
inductive All2 (R : β → α → Prop) : List β → List α → Prop
  | nil : All2 R [] []
  | cons {x : β} {y : α} {xs : List β} {ys : List α} : R x y → All2 R xs ys → All2 R (x :: xs) (y :: ys)

/-- Element-wise reading of a successful `allSome (xs.map f)`. -/
theorem allSome_map_eq_some {f : β → Option α} {xs : List β} {r : List α}
    (h : allSome (xs.map f) = some r) : All2 (fun x y => f x = some y) xs r := by
  induction xs generalizing r with
  | nil =>
    simp only [List.map_nil, allSome, Option.some.injEq] at h
    subst h; exact .nil
  | cons x t ih =>
    simp only [List.map_cons] at h
    cases hx : f x with
    | none => rw [hx] at h; simp [allSome] at h
    | some a =>
      rw [hx] at h
      simp only [allSome] at h
      cases ht : allSome (t.map f) with
      | none => rw [ht] at h; cases h
      | some t' =>
        rw [ht] at h
        simp only [Option.some.injEq] at h
        subst h
        exact .cons hx (ih ht)

theorem allSome_map_of_forall₂ {f : β → Option α} {xs : List β} {r : List α}
    (h : All2 (fun x y => f x = some y) xs r) : allSome (xs.map f) = some r := by
  induction h with
  | nil => rfl
  | cons hx _ ih => simp only [List.map_cons, hx, allSome, ih]

/-- A list all of whose elements are fixed by `f` is fixed by the element-wise reading. -/
theorem allSome_map_fix {f : α → Option α} {xs : List α} (h : ∀ x ∈ xs, f x = some x) :
    allSome (xs.map f) = some xs := by
  induction xs with
  | nil => rfl
  | cons x t ih =>
    simp only [List.map_cons, h x (List.mem_cons_self ..), allSome,
      ih (fun y hy => h y (List.mem_cons_of_mem _ hy))]

theorem forall₂_mem_right {R : β → α → Prop} {xs : List β} {r : List α} (h : All2 R xs r) :
    ∀ y ∈ r, ∃ x ∈ xs, R x y := by
  induction h with
  | nil => intro y hy; cases hy
  | cons hx _ ih =>
    intro y hy
    cases hy with
    | head => exact ⟨_, List.mem_cons_self .., hx⟩
    | tail _ hy =>
      obtain ⟨x, hx', hr⟩ := ih y hy
      exact ⟨x, List.mem_cons_of_mem _ hx', hr⟩

/-- Under a permutation of the inputs the outcome is the same up to the same permutation. -/
theorem allSome_perm {l l' : List (Option α)} (h : l.Perm l') :
    (allSome l = none ∧ allSome l' = none) ∨
      ∃ a a', allSome l = some a ∧ allSome l' = some a' ∧ a.Perm a' := by
  induction h with
  | nil => exact .inr ⟨[], [], rfl, rfl, .nil⟩
  | cons x _ ih =>
    cases x with
    | none => exact .inl ⟨rfl, rfl⟩
    | some v =>
      rcases ih with ⟨h1, h2⟩ | ⟨a, a', h1, h2, hp⟩
      · exact .inl ⟨by simp [allSome, h1], by simp [allSome, h2]⟩
      · exact .inr ⟨v :: a, v :: a', by simp [allSome, h1], by simp [allSome, h2], hp.cons v⟩
  | swap x y l =>
    cases x with
    | none => cases y <;> exact .inl ⟨by simp [allSome], by simp [allSome]⟩
    | some v =>
      cases y with
      | none => exact .inl ⟨by simp [allSome], by simp [allSome]⟩
      | some w =>
        cases hl : allSome l with
        | none => exact .inl ⟨by simp [allSome, hl], by simp [allSome, hl]⟩
        | some a => exact .inr ⟨w :: v :: a, v :: w :: a, by simp [allSome, hl], by simp [allSome, hl], .swap ..⟩
  | trans _ _ ih1 ih2 =>
    rcases ih1 with ⟨h1, h2⟩ | ⟨a, a', h1, h2, hp⟩
    · rcases ih2 with ⟨_, h4⟩ | ⟨b, b', h3, _, _⟩
      · exact .inl ⟨h1, h4⟩
      · rw [h2] at h3; cases h3
    · rcases ih2 with ⟨h3, _⟩ | ⟨b, b', h3, h4, hp'⟩
      · rw [h2] at h3; cases h3
      · rw [h2] at h3; cases h3
        exact .inr ⟨a, b', h1, h4, hp.trans hp'⟩

end Ruma.ContentSchema
