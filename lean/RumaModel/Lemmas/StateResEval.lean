/-
  Evaluation forms. `List.mergeSort` is defined by well-founded recursion and does not reduce in the
  kernel, so statements about the specification on *concrete* rooms (the F4 witness) cannot be closed
  by `decide` directly. Here the spec's mainline ordering and `resolveWith` are shown equal to
  copies that sort with a structurally recursive insertion sort; the concrete evaluations in
  `StateResWitness.lean` go through these equalities. Nothing here is used by the general theorems.
-/
import RumaModel.Lemmas.StateResSpec
namespace Ruma.StateRes
open Ruma Ruma.Spec.StateResV2

/-- Insert into a sorted list, before the first element that is not smaller. -/
def oins (le : α → α → Bool) (a : α) : List α → List α
  | [] => [a]
  | b :: t => if le a b then a :: b :: t else b :: oins le a t

/-- Insertion sort (structural recursion). -/
def isort (le : α → α → Bool) : List α → List α
  | [] => []
  | a :: t => oins le a (isort le t)

theorem oins_perm (le : α → α → Bool) (a : α) : ∀ l : List α, (oins le a l).Perm (a :: l)
  | [] => List.Perm.refl _
  | b :: t => by
    unfold oins
    split
    · exact List.Perm.refl _
    · exact ((oins_perm le a t).cons b).trans (List.Perm.swap a b t)

theorem isort_perm (le : α → α → Bool) : ∀ l : List α, (isort le l).Perm l
  | [] => List.Perm.refl _
  | a :: t => (oins_perm le a _).trans ((isort_perm le t).cons a)

theorem oins_sorted {le : α → α → Bool} (htrans : ∀ a b c, le a b = true → le b c = true → le a c = true)
    (htotal : ∀ a b, le a b = true ∨ le b a = true) (a : α) :
    ∀ l : List α, l.Pairwise (fun x y => le x y = true) → (oins le a l).Pairwise (fun x y => le x y = true)
  | [], _ => by simp [oins]
  | b :: t, h => by
    unfold oins
    rw [List.pairwise_cons] at h
    split
    · rename_i hab
      refine List.pairwise_cons.mpr ⟨?_, List.pairwise_cons.mpr h⟩
      intro x hx
      rcases List.mem_cons.mp hx with rfl | hx
      · exact hab
      · exact htrans a b x hab (h.1 x hx)
    · rename_i hab
      have hba : le b a = true := by
        rcases htotal a b with h' | h'
        · exact absurd h' hab
        · exact h'
      refine List.pairwise_cons.mpr ⟨?_, oins_sorted htrans htotal a t h.2⟩
      intro x hx
      rcases List.mem_cons.mp ((oins_perm le a t).mem_iff.mp hx) with rfl | hx
      · exact hba
      · exact h.1 x hx

theorem isort_sorted {le : α → α → Bool} (htrans : ∀ a b c, le a b = true → le b c = true → le a c = true)
    (htotal : ∀ a b, le a b = true ∨ le b a = true) :
    ∀ l : List α, (isort le l).Pairwise (fun x y => le x y = true)
  | [] => List.Pairwise.nil
  | a :: t => oins_sorted htrans htotal a _ (isort_sorted htrans htotal t)

/-- Merge sort and insertion sort agree when the order is total, transitive and antisymmetric on the
elements. -/
theorem mergeSort_eq_isort {le : α → α → Bool}
    (htrans : ∀ a b c, le a b = true → le b c = true → le a c = true)
    (htotal : ∀ a b, le a b = true ∨ le b a = true) {l : List α}
    (hanti : ∀ a b, a ∈ l → b ∈ l → le a b = true → le b a = true → a = b) :
    l.mergeSort le = isort le l := by
  apply eq_of_perm_of_sorted (le := le)
  · intro a b ha hb
    exact hanti a b ((List.mergeSort_perm l le).mem_iff.mp ha) ((List.mergeSort_perm l le).mem_iff.mp hb)
  · exact List.pairwise_mergeSort (fun a b c => htrans a b c) (fun a b => by
      rcases htotal a b with h | h <;> simp [h]) l
  · exact isort_sorted htrans htotal l
  · exact (List.mergeSort_perm l le).trans (isort_perm le l).symm

/-- The spec's mainline ordering with the insertion sort. -/
def mainlineOrderE (dev : Bool) (fetch : Id → Option Event) (fuel : Nat) (P : Option Event)
    (rest : List Id) : List Id :=
  (isort (fun (a b : Id × MKey) => mainlineLe a.2 b.2) (keyedFor dev fetch fuel P rest)).map (·.1)

theorem mainlineOrder_eq_E (dev : Bool) (fetch : Id → Option Event) (fuel : Nat) (P : Option Event)
    (rest : List Id) : mainlineOrder dev fetch fuel P rest = mainlineOrderE dev fetch fuel P rest := by
  rw [mainlineOrder_eq]
  unfold mainlineOrderE
  congr 1
  have hle : (fun (a b : Id × MKey) => mainlineLe a.2 b.2) = (fun a b => MKey.le a.2 b.2) := by
    funext a b; exact mainlineLe_eq a.2 b.2
  rw [hle]
  apply mergeSort_eq_isort (le := fun (a b : Id × MKey) => MKey.le a.2 b.2)
    (fun a b c => mkey_le_trans a.2 b.2 c.2) (fun a b => mkey_le_total a.2 b.2)
  intro x y hx hy h1 h2
  exact keyed_antisymm (keyedFor_ok dev fetch fuel P rest) x y hx hy h1 h2

/-- `Spec.StateResV2.resolveWith`, word for word, with `mainlineOrderE` for `mainlineOrder`. -/
def resolveWithE (dev : Bool) (p : Params) (store : List Event) (sets : List StateMap)
    (chains : List (List Id)) : Except Fail StateMap :=
  let fetch := fetchOf store
  let U := unconflicted sets
  if (conflictedSet sets).isEmpty then .ok U else
  let F := fullConflictedSet fetch sets chains
  let X := powerEventsWithChains p fetch F
  match reversePowerOrdering p fetch X with
  | .error x => .error x
  | .ok sortedX =>
    match iterativeAuthChecks p fetch sortedX U with
    | .error x => .error x
    | .ok partial_ =>
      let rest := F.filter (fun id => !X.contains id)
      let P := (AL.get partial_ (tPowerLevels, [])).bind fetch
      let sortedRest := mainlineOrderE dev fetch (store.length + 1) P rest
      match iterativeAuthChecks p fetch sortedRest partial_ with
      | .error x => .error x
      | .ok resolved => .ok (U.foldl (fun m kv => AL.insert m kv.1 kv.2) resolved)

theorem resolveWith_eq_E (dev : Bool) (p : Params) (store : List Event) (sets : List StateMap)
    (chains : List (List Id)) :
    resolveWith dev p store sets chains = resolveWithE dev p store sets chains := by
  unfold resolveWith resolveWithE
  simp only [mainlineOrder_eq_E]
  rfl

end Ruma.StateRes
