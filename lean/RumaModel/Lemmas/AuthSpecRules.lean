/-
  Model = spec, part 3: rule 9 (`m.room.power_levels`), rule 10a (`m.room.redaction`, v1–v2),
  rules 5–11, and the whole: `Spec.Auth.authorize v = authCheck (Spec.Auth.rulesOf v)` on the
  comparison domain `InSpecDomain`.
-/
import RumaModel.Lemmas.AuthSpecMember
set_option linter.unusedSimpArgs false
namespace Ruma.AuthSpec
open Ruma Ruma.Auth Ruma.Ident
open Ruma.Spec.Auth (rulesOf Verdict orReject)

/-! ## rule 9 — power levels -/

/-- name and default of an integer property. -/
def prop (fld : PLField) : Str × Int := (fld.key, fld.default)

theorem intProps_eq : Spec.Auth.intProps = PLField.all.map prop := by decide

theorem readInts_none_iff (v : Nat) (c : Obj) :
    ∀ l : List PLField, (Spec.Auth.readInts v c (l.map prop) = none ↔ ∀ m, intFieldsMap (rulesOf v) c l ≠ .ok m) := by
  intro l
  induction l with
  | nil => simp [Spec.Auth.readInts, intFieldsMap]
  | cons fld t ih =>
    simp only [List.map_cons, prop, Spec.Auth.readInts, intFieldsMap, levelProp_eq]
    cases hg : getAsInt (rulesOf v) c fld with
    | error e => simp [bind, Except.bind]
    | ok x =>
      simp only [opt_ok, Option.bind_some, bind, Except.bind]
      cases hr : Spec.Auth.readInts v c (t.map prop) with
      | none =>
        have := ih.mp hr
        simp only [Option.map_none, true_iff]
        intro m
        cases hi : intFieldsMap (rulesOf v) c t with
        | error e => simp
        | ok r => exact absurd hi (this r)
      | some r =>
        have h' : ¬ ∀ m, intFieldsMap (rulesOf v) c t ≠ .ok m := fun hh => by
          have := ih.mpr hh; simp [hr] at this
        cases hi : intFieldsMap (rulesOf v) c t with
        | error e => exact absurd (fun m => by simp [hi]) h'
        | ok r' => simp

/-- peel the shape check of the seven integer properties (9.1). -/
theorem readIntsA {v : Nat} {c : Obj} {X : Option Verdict} {G : List (PLField × Int) → Res Unit}
    (h : ∀ m, intFieldsMap (rulesOf v) c PLField.all = .ok m → (orReject X = .allow ↔ G m = .ok ())) :
    orReject ((Spec.Auth.readInts v c Spec.Auth.intProps).bind fun _ => X) = .allow ↔
      (intFieldsMap (rulesOf v) c PLField.all >>= G) = .ok () := by
  rw [intProps_eq]
  cases hi : intFieldsMap (rulesOf v) c PLField.all with
  | error e =>
    have : Spec.Auth.readInts v c (PLField.all.map prop) = none :=
      (readInts_none_iff v c PLField.all).mpr (fun m => by simp [hi])
    simp [this, orReject, bind, Except.bind]
  | ok m =>
    cases hr : Spec.Auth.readInts v c (PLField.all.map prop) with
    | none => exact absurd hi ((readInts_none_iff v c PLField.all).mp hr m)
    | some r => simpa [bind, Except.bind] using h m hi

theorem mapChangeOk_eq (cur new : Option PLMap) (sl : Int) (rej : Str → Int → Bool)
    (hc : ∀ l, cur = some l → (l.map (·.1)).Nodup) (hn : ∀ l, new = some l → (l.map (·.1)).Nodup) :
    Spec.Auth.mapChangeOk cur new sl rej = checkPowerLevelMaps cur new sl rej := by
  unfold Spec.Auth.mapChangeOk checkPowerLevelMaps
  have hk : ∀ m : Option PLMap, Spec.Auth.keysOf m = plKeys m := fun m => by cases m <;> rfl
  rw [hk, hk]
  congr 1
  funext k
  rw [entry_eq hc, entry_eq hn]
  cases cur.bind (lastGet · k) <;> cases new.bind (lastGet · k) <;> simp <;> grind

theorem intsChangeOk_eq (v : Nat) (cur new : Obj) (newInts : List (PLField × Int)) (sl : Int)
    (hnew : ∀ fld, getAsInt (rulesOf v) new fld = .ok (fieldsGet newInts fld)) :
    ∀ l : List PLField,
      Spec.Auth.intsChangeOk v cur new sl (l.map prop) = some true ↔
        checkIntFields (rulesOf v) cur newInts sl l = .ok () := by
  intro l
  induction l with
  | nil => simp [Spec.Auth.intsChangeOk, checkIntFields]
  | cons fld t ih =>
    simp only [List.map_cons, prop, Spec.Auth.intsChangeOk, checkIntFields, levelProp_eq, hnew fld]
    cases hg : getAsInt (rulesOf v) cur fld with
    | error e => simp [bind, Except.bind]
    | ok c =>
      simp only [opt_ok, Option.bind_some, bind, Except.bind]
      by_cases heq : c = fieldsGet newInts fld
      · subst heq
        simp only [beq_self_eq_true, if_true]
        exact ih
      · have : (c == fieldsGet newInts fld) = false := by simpa using heq
        simp only [heq, if_false, this, Bool.false_eq_true]
        by_cases hbig : c.getD fld.default > sl ∨ (fieldsGet newInts fld).getD fld.default > sl
        · have : (decide (c.getD fld.default > sl) || decide ((fieldsGet newInts fld).getD fld.default > sl)) = true := by
            simpa using hbig
          simp [hbig, this]
        · have : (decide (c.getD fld.default > sl) || decide ((fieldsGet newInts fld).getD fld.default > sl)) = false := by
            simp at hbig ⊢; omega
          simp only [hbig, if_false, this, Bool.false_eq_true]
          exact ih

theorem intsA {v : Nat} {cur new : Obj} {newInts : List (PLField × Int)} {sl : Int}
    {X : Option Verdict} {Y : Res Unit}
    (hnew : intFieldsMap (rulesOf v) new PLField.all = .ok newInts)
    (h : orReject X = .allow ↔ Y = .ok ()) :
    orReject ((Spec.Auth.intsChangeOk v cur new sl Spec.Auth.intProps).bind fun ok =>
        if !ok then some .reject else X) = .allow ↔
      (checkIntFields (rulesOf v) cur newInts sl PLField.all >>= fun _ => Y) = .ok () := by
  have hget : ∀ fld, getAsInt (rulesOf v) new fld = .ok (fieldsGet newInts fld) := by
    intro fld
    obtain ⟨x, hx, hf⟩ := intFieldsMap_get hnew PLField.all_nodup fld (PLField.mem_all fld)
    rw [hx, hf]
  have key := intsChangeOk_eq v cur new newInts sl hget PLField.all
  rw [intProps_eq]
  cases hi : Spec.Auth.intsChangeOk v cur new sl (PLField.all.map prop) with
  | none =>
    have : checkIntFields (rulesOf v) cur newInts sl PLField.all ≠ .ok () := fun hh => by
      have := key.mpr hh; simp [hi] at this
    cases hc : checkIntFields (rulesOf v) cur newInts sl PLField.all with
    | error e => simp [orReject, bind, Except.bind]
    | ok u => exact absurd hc this
  | some b =>
    cases b with
    | true =>
      have hc := key.mp hi
      simpa [hc, bind, Except.bind] using h
    | false =>
      have : checkIntFields (rulesOf v) cur newInts sl PLField.all ≠ .ok () := fun hh => by
        have := key.mpr hh; simp [hi] at this
      cases hc : checkIntFields (rulesOf v) cur newInts sl PLField.all with
      | error e => simp [orReject, bind, Except.bind]
      | ok u => exact absurd hc this

theorem power_levels_eq_spec (v : Nat) (ev : Event) (pl : Option Event) (sl : Int)
    (hpl : PLOk pl) (hev : PLContentOk ev.content) :
    orReject (Spec.Auth.rule9 v ev pl sl) = .allow ↔ Allows (checkRoomPowerLevels (rulesOf v) ev pl sl) := by
  unfold Spec.Auth.rule9 checkRoomPowerLevels Allows
  simp only [eventsMap_eq v ev.content hev, notificationsMap_eq, usersMap_eq]
  refine readIntsA fun newInts hni => ?_
  refine bindA fun newEvents hne => ?_
  refine bindA fun newN hnn => ?_
  refine bindA fun newUsers hnu => ?_
  cases pl with
  | none => exact allowA rfl
  | some cur =>
    have hc : PLContentOk cur.content := hpl cur rfl
    simp only [eventsMap_eq v cur.content hc]
    refine intsA hni ?_
    refine bindA fun curEvents hce => ?_
    have ndNE : ∀ l, newEvents = some l → (l.map (·.1)).Nodup := fun l hl => eventsMap_nodup hev (hl ▸ hne)
    have ndCE : ∀ l, curEvents = some l → (l.map (·.1)).Nodup := fun l hl => eventsMap_nodup hc (hl ▸ hce)
    have ndNU : ∀ l, newUsers = some l → (l.map (·.1)).Nodup := fun l hl => usersMap_nodup hev (hl ▸ hnu)
    have ndNN : ∀ l, newN = some l → (l.map (·.1)).Nodup := fun l hl => notificationsMap_nodup hev (hl ▸ hnn)
    rw [mapChangeOk_eq _ _ _ _ ndCE ndNE]
    refine requireA (by simp) fun _ => ?_
    by_cases hnc : Spec.Auth.notificationsChecked v = true
    · have hr : (rulesOf v).limitNotificationsPowerLevels = true := hnc
      simp only [hnc, hr, if_true]
      cases hcn : plNotifications (rulesOf v) cur.content with
      | error e => simp [orReject, bind, Except.bind]
      | ok curN =>
        have ndCN : ∀ l, curN = some l → (l.map (·.1)).Nodup :=
          fun l hl => notificationsMap_nodup hc (hl ▸ hcn)
        simp only [opt_ok, Option.map_some, Option.bind_some, bind, Except.bind]
        rw [mapChangeOk_eq _ _ _ _ ndCN ndNN]
        refine requireA (by simp) fun _ => ?_
        refine mapA fun curUsers hcu => ?_
        have ndCU : ∀ l, curUsers = some l → (l.map (·.1)).Nodup := fun l hl => usersMap_nodup hc (hl ▸ hcu)
        rw [mapChangeOk_eq _ _ _ _ ndCU ndNU]
        exact lastA (by simp)
    · have hr : (rulesOf v).limitNotificationsPowerLevels = false := by
        simpa [rulesOf] using hnc
      simp only [hnc, hr, if_false, Bool.false_eq_true, Option.bind_some, Bool.not_true]
      refine mapA fun curUsers hcu => ?_
      have ndCU : ∀ l, curUsers = some l → (l.map (·.1)).Nodup := fun l hl => usersMap_nodup hc (hl ▸ hcu)
      rw [mapChangeOk_eq _ _ _ _ ndCU ndNU]
      exact lastA (by simp)

theorem redaction_eq_spec (v : Nat) (ev : Event) (pl : Option Event) (sl : Int) :
    orReject (Spec.Auth.rule10a v ev pl sl) = .allow ↔ Allows (checkRoomRedaction (rulesOf v) ev pl sl) := by
  unfold Spec.Auth.rule10a checkRoomRedaction Allows
  simp only [namedLevel_redact]
  refine mapA fun rl _ => ?_
  by_cases h1 : sl ≥ rl
  · simp [h1]
  · by_cases h2 : eventServer ev.eventId = ev.redacts.bind eventServer
    · simp [h1, h2, require]
    · simp [h1, h2, require]

/-- Rules 5–11. -/
theorem general_eq_spec (v : Nat) (ev : Event) (create : Event) (f : Fetch)
    (hpl : PLOk (fetchPowerLevels f)) (hev : ev.type = tPowerLevels → PLContentOk ev.content) :
    orReject (Spec.Auth.rules5to11 v ev create f) = .allow ↔
      (userMembership f ev.sender >>= fun sm =>
        require (sm == mJoin) >>= fun _ =>
        createCreator (rulesOf v) create >>= fun creator =>
        plUserLevel (rulesOf v) (fetchPowerLevels f) ev.sender creator >>= fun senderLevel =>
        if ev.type == tThirdPartyInvite then
          plIntOrDefault (rulesOf v) (fetchPowerLevels f) .invite >>= fun inviteLevel =>
          require (decide (senderLevel ≥ inviteLevel))
        else
          plEventLevel (rulesOf v) (fetchPowerLevels f) ev.type ev.stateKey.isSome >>= fun required =>
          require (decide (senderLevel ≥ required)) >>= fun _ =>
          require (!foreignUserStateKey ev) >>= fun _ =>
          if ev.type == tPowerLevels then checkRoomPowerLevels (rulesOf v) ev (fetchPowerLevels f) senderLevel
          else if (rulesOf v).specialCaseRoomRedaction && ev.type == tRedaction then
            checkRoomRedaction (rulesOf v) ev (fetchPowerLevels f) senderLevel
          else .ok ()) = .ok () := by
  unfold Spec.Auth.rules5to11
  have hpl' : PLOk (f (bs "m.room.power_levels") []) := hpl
  simp only [membershipOf_eq, creatorOf_eq, userLevel_eq _ _ _ _ hpl', namedLevel_invite,
    requiredLevel_eq _ _ _ _ hpl', fetchPowerLevels, tPowerLevels]
  refine bindA fun sm _ => ?_
  refine requireA (by side) fun _ => ?_
  refine bindA fun creator _ => ?_
  refine bindA fun sl _ => ?_
  refine iteA (by simp [tThirdPartyInvite]) (fun _ => ?_) (fun _ => ?_)
  · refine mapA fun il _ => ?_
    exact lastA (by simp)
  · refine bindA fun req _ => ?_
    refine requireA (by simp) fun _ => ?_
    have hfk : Spec.Auth.stateKeyNamesOtherUser ev = foreignUserStateKey ev := rfl
    rw [hfk]
    refine requireA (by simp) fun _ => ?_
    refine iteA (by simp) (fun hty => ?_) (fun _ => ?_)
    · exact power_levels_eq_spec v ev _ sl hpl' (hev hty)
    · refine iteA (by simp [rulesOf, tRedaction]) (fun _ => ?_) (fun _ => allowA rfl)
      exact redaction_eq_spec v ev _ sl

/-- The inputs on which specification and implementation are compared: JSON objects have unique
keys (stated for the three level maps of the power-levels contents involved), no `events` key uses
the one spelling that ruma's `TimelineEventType` identifies with another type string, and the
entities of `third_party_invite.signed.signatures` map to objects. -/
structure InSpecDomain (ev : Event) (f : Fetch) : Prop where
  pl : PLOk (fetchPowerLevels f)
  evPl : ev.type = tPowerLevels → PLContentOk ev.content
  sigs : TpiSigsOk ev

theorem verdict_allow_iff {r : Res Unit} : (match r with | .ok _ => true | .error _ => false) = true ↔ r = .ok () := by
  cases r <;> simp

theorem authCheck_eq_authorize (v : Nat) (ev : Event) (f : Fetch) (h : InSpecDomain ev f) :
    Spec.Auth.authorize v ev f = authCheck (rulesOf v) ev f := by
  have key : Spec.Auth.authorize v ev f = true ↔ authCheck (rulesOf v) ev f = true := by
    rw [authCheck_true]
    unfold Spec.Auth.authorize authCheckR
    simp only [decide_eq_true_eq]
    by_cases hcr : ev.type = bs "m.room.create"
    · have e0 : (ev.type == tCreate) = true := by simp [hcr, tCreate]
      rw [if_pos hcr, if_pos e0]
      exact create_eq_spec v ev
    · have e0 : ¬ ((ev.type == tCreate) = true) := by simpa [tCreate] using hcr
      rw [if_neg hcr, if_neg e0]
      simp only [fetchCreate, tCreate]
      cases hc : f (bs "m.room.create") [] with
      | none => simp [bind, Except.bind]
      | some create =>
        simp only [bind, Except.bind]
        by_cases hauth : ev.authEvents.contains create.eventId = true
        · simp only [hauth, Bool.not_true, Bool.false_eq_true, if_false, require, if_true, federates_eq]
          cases hfed : createFederate create.content with
          | error e => simp
          | ok fed =>
            simp only [opt_ok]
            by_cases hf : (fed || userServer create.sender == userServer ev.sender) = true
            · have hf' : ¬ ((!fed && userServer create.sender != userServer ev.sender) = true) := by
                cases fed <;> simp_all
              rw [if_neg hf', if_pos hf]
              simp only
              by_cases hal : Spec.Auth.hasAliasesRule v = true ∧ ev.type = bs "m.room.aliases"
              · have e1 : ((rulesOf v).specialCaseRoomAliases && ev.type == tAliases) = true := by
                  simp [rulesOf, hal.1, hal.2, tAliases]
                rw [if_pos hal, if_pos e1]
                exact aliases_eq_spec ev
              · have e1 : ¬ (((rulesOf v).specialCaseRoomAliases && ev.type == tAliases) = true) := by
                  simp [rulesOf, tAliases]; grind
                rw [if_neg hal, if_neg e1]
                by_cases hm : ev.type = bs "m.room.member"
                · have e2 : (ev.type == tMember) = true := by simp [hm, tMember]
                  rw [if_pos hm, if_pos e2]
                  exact member_eq_spec v ev create f h.pl h.sigs
                · have e2 : ¬ ((ev.type == tMember) = true) := by simpa [tMember] using hm
                  rw [if_neg hm, if_neg e2]
                  exact general_eq_spec v ev create f h.pl h.evPl
            · have hf' : (!fed && userServer create.sender != userServer ev.sender) = true := by
                cases fed <;> simp_all
              rw [if_pos hf', if_neg hf]
              simp
        · have hn : ¬ create.eventId ∈ ev.authEvents := by simpa using hauth
          simp [hn, require]
  cases ha : Spec.Auth.authorize v ev f <;> cases hb : authCheck (rulesOf v) ev f <;> simp_all

end Ruma.AuthSpec
