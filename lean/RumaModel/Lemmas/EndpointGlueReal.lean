/-
  Helper lemmas for C16 (glue), part 5: a lawful JSON codec built from C01's canonical encoder and
  its decoder, and the link between the shape of finding G17 (`g17Fields`, computed from a
  description alone) and the hypothesis `himp` of the round-trip theorems.
-/
import RumaModel.Lemmas.EndpointGlueResp
import RumaModel.Lemmas.CanonicalDecode
namespace Ruma.Glue
open Ruma Ruma.Endpoint
open Ruma.Spec.Endpoint (Version AuthScheme)
open Ruma.Spec.CanonicalJson (IsCanonical IsCanonicalL IsCanonicalO IntInRange)

/-! ### A non-trivial lawful `JsonCodec` -/

mutual
/-- `IsCanonical`, computed: integers in range, no float, object keys strictly ascending at every
depth. -/
def canonB : JVal → Bool
  | .null => true
  | .bool _ => true
  | .int i => decide (-(2 ^ 53 - 1) ≤ i) && decide (i ≤ 2 ^ 53 - 1)
  | .float => false
  | .str _ => true
  | .arr xs => canonBL xs
  | .obj kvs => decide (List.Pairwise (· < ·) (Obj.keys kvs)) && canonBO kvs
def canonBL : List JVal → Bool
  | [] => true
  | v :: t => canonB v && canonBL t
def canonBO : List (Str × JVal) → Bool
  | [] => true
  | (_, v) :: t => canonB v && canonBO t
end

mutual
theorem canonB_sound : ∀ v : JVal, canonB v = true → IsCanonical v
  | .null, _ => by unfold IsCanonical; trivial
  | .bool _, _ => by unfold IsCanonical; trivial
  | .int i, h => by
    unfold canonB at h
    simp only [Bool.and_eq_true, decide_eq_true_eq] at h
    unfold IsCanonical IntInRange
    exact h
  | .float, h => by unfold canonB at h; cases h
  | .str _, _ => by unfold IsCanonical; trivial
  | .arr xs, h => by
    unfold canonB at h
    unfold IsCanonical
    exact canonBL_sound xs h
  | .obj kvs, h => by
    unfold canonB at h
    simp only [Bool.and_eq_true, decide_eq_true_eq] at h
    unfold IsCanonical Obj.Sorted
    exact ⟨h.1, canonBO_sound kvs h.2⟩
theorem canonBL_sound : ∀ l : List JVal, canonBL l = true → IsCanonicalL l
  | [], _ => by unfold IsCanonicalL; trivial
  | v :: t, h => by
    unfold canonBL at h
    simp only [Bool.and_eq_true] at h
    unfold IsCanonicalL
    exact ⟨canonB_sound v h.1, canonBL_sound t h.2⟩
theorem canonBO_sound : ∀ l : List (Str × JVal), canonBO l = true → IsCanonicalO l
  | [], _ => by unfold IsCanonicalO; trivial
  | (_, v) :: t, h => by
    unfold canonBO at h
    simp only [Bool.and_eq_true] at h
    unfold IsCanonicalO
    exact ⟨canonB_sound v h.1, canonBO_sound t h.2⟩
end

/-- The JSON library made of property C01's model: the writer is ruma's canonical encoder
(`Canonical.encode`, refusing values that are not canonical — a float, an integer out of range,
unsorted or repeated keys), the reader is the decoder of the canonical grammar
(`Lemmas/CanonicalDecode.decodeCanon`). -/
def canonJson : JsonCodec where
  ser := fun v => if canonB v then some (Canonical.encode v) else none
  parse := Canonical.decodeCanon

/-- It satisfies the three laws the glue theorems ask of a JSON library (by
`Props/C01.decode_encode`). -/
theorem canonJson_lawful : canonJson.Lawful where
  law := by
    intro v b h
    unfold canonJson at h
    simp only at h
    split at h
    · rename_i hc
      cases h
      exact Canonical.decodeCanon_encode v (canonB_sound v hc)
    · cases h
  ser_ne := by
    intro v b h hb
    unfold canonJson at h
    simp only at h
    split at h
    · rename_i hc
      cases h
      have := Canonical.decodeCanon_encode v (canonB_sound v hc)
      rw [hb] at this
      have hn : Canonical.decodeCanon [] = none := rfl
      rw [hn] at this
      cases this
    · cases h
  empty_obj := by
    have h : IsCanonical (.obj []) := by
      unfold IsCanonical Obj.Sorted IsCanonicalO
      exact ⟨List.Pairwise.nil, trivial⟩
    exact Canonical.decodeCanon_encode (.obj []) h

/-! ### The shape of G17 and the hypothesis `himp` -/

theorem headerCanon_none_optional : ∀ (fs : List HeaderField) (vs : List (Option Str)) (f : HeaderField),
    HeaderCanon fs vs → (f, none) ∈ fs.zip vs → f.optional = true
  | [], _, _, _, h => by simp at h
  | _ :: _, [], _, _, h => by simp at h
  | g :: fs, v :: vs, f, hc, h => by
    unfold HeaderCanon at hc
    simp only [List.zip_cons_cons, List.mem_cons, Prod.mk.injEq] at h
    rcases h with ⟨rfl, rfl⟩ | h
    · exact hc.1
    · exact headerCanon_none_optional fs vs f hc.2 h

/-- A description without the G17 shape satisfies the hypothesis `himp` of
`request_roundtrip_partial` for every value of it, whatever token is sent. -/
theorem g17_free_himp' (d : ReqDesc) (v : ReqVal) (sat : SendAccessToken)
    (hg : d.g17Fields = []) (hc : v.Canon d) :
    ∀ f, (f, none) ∈ d.headerFields.zip v.header → f.header ∉ implicitHeaders d sat := by
  intro f hf hmem
  have hopt := headerCanon_none_optional _ _ f hc.header hf
  have hfm : f ∈ d.headerFields := (List.of_mem_zip hf).1
  have hin : f.header ∈ d.g17Fields := by
    unfold ReqDesc.g17Fields
    refine List.mem_map.2 ⟨f, List.mem_filter.2 ⟨hfm, ?_⟩, rfl⟩
    unfold implicitHeaders at hmem
    rw [List.mem_append] at hmem
    rw [hopt, Bool.true_and]
    rcases hmem with h | h
    · by_cases hb : (d.hasRawBody || d.hasBodyFields) = true
      · rw [if_pos hb] at h
        simp only [List.mem_cons, List.mem_nil_iff, or_false] at h
        simp [h, hb]
      · rw [if_neg hb] at h
        cases h
    · have hss : d.auth ≠ .serverSignatures := by
        intro hs
        rw [hs] at h
        cases sat <;> simp [authorizationHeader] at h
      cases ha : authorizationHeader d.auth sat with
      | header x =>
        rw [ha] at h
        simp only [List.mem_cons, List.mem_nil_iff, or_false] at h
        simp [h, hss]
      | noHeader => rw [ha] at h; cases h
      | errNeedsAuth => rw [ha] at h; cases h
      | errHeaderValue => rw [ha] at h; cases h
  rw [hg] at hin
  cases hin

/-- The response-side form. -/
theorem respG17_free_himp' (d : RespDesc) (v : RespVal) (hg : d.g17Fields = []) (hc : v.Canon d) :
    ∀ f, (f, none) ∈ d.headerFields.zip v.header → f.header ≠ contentType := by
  intro f hf hct
  have hopt := headerCanon_none_optional _ _ f hc.header hf
  have hfm : f ∈ d.headerFields := (List.of_mem_zip hf).1
  have hin : f.header ∈ d.g17Fields := by
    unfold RespDesc.g17Fields
    refine List.mem_map.2 ⟨f, List.mem_filter.2 ⟨hfm, ?_⟩, rfl⟩
    simp [hopt, hct]
  rw [hg] at hin
  cases hin

/-! ### What the macro sees does not depend on the codecs

`erase` replaces every codec of a description by the one that rejects everything; what is left —
method, authentication, history, and per field its name, kind, header constant and `Option`-ness —
is what `#[request]` sees. The predicates that `Props/C16.real_endpoints_under_model` decides
for the extracted descriptions are functions of the erased description, so they hold for the
real endpoints whatever the codecs of their field types are. -/

def ReqKind.erase : ReqKind → ReqKind
  | .body _ => .body ⟨fun _ => none⟩
  | .header n o _ => .header n o ⟨fun _ => none⟩
  | .newtypeBody _ => .newtypeBody ⟨fun _ => none⟩
  | .rawBody => .rawBody
  | .path _ => .path ⟨fun _ => none⟩
  | .query _ => .query ⟨fun _ => none⟩
  | .queryAll _ => .queryAll ⟨fun _ => none⟩
  | .flattenBody => .flattenBody

def ReqField.erase (f : ReqField) : ReqField := ⟨f.name, f.kind.erase⟩

def ReqDesc.erase (d : ReqDesc) : ReqDesc := { d with fields := d.fields.map ReqField.erase }

theorem filterMap_erase_length {β γ : Type} (g : ReqField → Option β) (g' : ReqField → Option γ)
    (h : ∀ f, (g f).isSome = (g' f.erase).isSome) :
    ∀ l : List ReqField, (l.filterMap g).length = ((l.map ReqField.erase).filterMap g').length
  | [] => rfl
  | f :: l => by
    have ih := filterMap_erase_length g g' h l
    have hf := h f
    simp only [List.map_cons, List.filterMap_cons]
    cases hg : g f <;> cases hg' : g' f.erase <;> rw [hg, hg'] at hf <;> simp_all

theorem filter_erase_length (p : ReqField → Bool) (h : ∀ f, p f = p f.erase) :
    ∀ l : List ReqField, (l.filter p).length = ((l.map ReqField.erase).filter p).length
  | [] => rfl
  | f :: l => by
    have ih := filter_erase_length p h l
    simp only [List.map_cons, List.filter_cons, ← h f]
    cases p f <;> simp [ih]

theorem isEmpty_of_length_eq {α β : Type} {l : List α} {l' : List β} (h : l.length = l'.length) :
    l.isEmpty = l'.isEmpty := by
  cases l <;> cases l' <;> simp_all

theorem erase_newtype (d : ReqDesc) : d.newtypeFields.length = d.erase.newtypeFields.length :=
  filterMap_erase_length _ _ (fun f => by cases f with | mk n k => cases k <;> rfl) d.fields
theorem erase_body (d : ReqDesc) : d.bodyFields.length = d.erase.bodyFields.length :=
  filterMap_erase_length _ _ (fun f => by cases f with | mk n k => cases k <;> rfl) d.fields
theorem erase_query (d : ReqDesc) : d.queryFields.length = d.erase.queryFields.length :=
  filterMap_erase_length _ _ (fun f => by cases f with | mk n k => cases k <;> rfl) d.fields
theorem erase_queryAll (d : ReqDesc) : d.queryAllFields.length = d.erase.queryAllFields.length :=
  filterMap_erase_length _ _ (fun f => by cases f with | mk n k => cases k <;> rfl) d.fields
theorem erase_raw (d : ReqDesc) : d.rawFields.length = d.erase.rawFields.length :=
  filter_erase_length _ (fun f => by cases f with | mk n k => cases k <;> rfl) d.fields
theorem erase_flatten (d : ReqDesc) : d.flattenFields.length = d.erase.flattenFields.length :=
  filter_erase_length _ (fun f => by cases f with | mk n k => cases k <;> rfl) d.fields

theorem filterMap_erase_eq {β : Type} (g : ReqField → Option β) (h : ∀ f, g f = g f.erase)
    (l : List ReqField) : l.filterMap g = (l.map ReqField.erase).filterMap g := by
  rw [List.filterMap_map]
  congr 1
  funext f
  exact h f

theorem erase_pathNames (l : List ReqField) :
    l.filterMap (fun f : ReqField => f.asPath.map (fun _ => f.name))
      = (l.map ReqField.erase).filterMap (fun f : ReqField => f.asPath.map (fun _ => f.name)) :=
  filterMap_erase_eq _ (fun f => by cases f with | mk n k => cases k <;> rfl) l

theorem erase_names (l : List ReqField) : l.map (·.name) = (l.map ReqField.erase).map (·.name) := by
  simp [ReqField.erase]

/-- The header fields of the erased description: same constants, same `Option`-ness. -/
theorem erase_headers (l : List ReqField) :
    (l.filterMap ReqField.asHeader).map (fun f => (f.header, f.optional))
      = ((l.map ReqField.erase).filterMap ReqField.asHeader).map (fun f => (f.header, f.optional)) := by
  rw [List.map_filterMap, List.map_filterMap]
  exact filterMap_erase_eq _ (fun f => by cases f with | mk n k => cases k <;> rfl) l

theorem erase_headerNames (l : List ReqField) :
    (l.filterMap ReqField.asHeader).map (·.header)
      = ((l.map ReqField.erase).filterMap ReqField.asHeader).map (·.header) := by
  rw [List.map_filterMap, List.map_filterMap]
  exact filterMap_erase_eq _ (fun f => by cases f with | mk n k => cases k <;> rfl) l

theorem map_filter_of_map_eq {α β γ : Type} (key : α → γ) (key' : β → γ) (p : γ → Bool) (out : γ → Str) :
    ∀ (l : List α) (l' : List β), l.map key = l'.map key' →
      ((l.filter (fun x => p (key x))).map (fun x => out (key x)))
        = ((l'.filter (fun x => p (key' x))).map (fun x => out (key' x)))
  | [], [], _ => rfl
  | [], _ :: _, h => by simp at h
  | _ :: _, [], h => by simp at h
  | a :: l, b :: l', h => by
    simp only [List.map_cons, List.cons.injEq] at h
    have ih := map_filter_of_map_eq key key' p out l l' h.2
    simp only [List.filter_cons, h.1]
    cases p (key' b) <;> simp [ih, h.1]

/-- Every predicate on descriptions that the check decides for the real endpoints is a function
of the erased description. -/
theorem erase_invariant (d : ReqDesc) :
    d.macroAccepts = d.erase.macroAccepts ∧ d.testsPass = d.erase.testsPass
    ∧ d.inModel = d.erase.inModel ∧ d.g17Fields = d.erase.g17Fields
    ∧ d.headerFields.map (·.header) = d.erase.headerFields.map (·.header)
    ∧ d.history = d.erase.history := by
  have h1 := erase_newtype d
  have h2 := erase_body d
  have h3 := erase_query d
  have h4 := erase_queryAll d
  have h5 := erase_raw d
  have h6 := erase_flatten d
  have e2 := isEmpty_of_length_eq h2
  have e3 := isEmpty_of_length_eq h3
  have e4 := isEmpty_of_length_eq h4
  have e6 := isEmpty_of_length_eq h6
  have e1 := isEmpty_of_length_eq h1
  have e5 := isEmpty_of_length_eq h5
  have hh := erase_headers d.fields
  refine ⟨?_, ?_, ?_, ?_, ?_, rfl⟩
  · unfold ReqDesc.macroAccepts ReqDesc.flattenOk ReqDesc.hasQueryAll ReqDesc.hasQueryFields
      ReqDesc.hasFlatten
    rw [h1, h4, h5, h6, e2, e3, e4, e6]
  · unfold ReqDesc.testsPass ReqDesc.hasBodyFields ReqDesc.hasRawBody ReqDesc.hasFlatten
    rw [e1, e2, e5, e6]
    have hp := erase_pathNames d.fields
    have hn := erase_names d.fields
    have hf : d.erase.fields = d.fields.map ReqField.erase := rfl
    have hhist : d.erase.history = d.history := rfl
    have hm : d.erase.method = d.method := rfl
    rw [hf, hhist, hm, ← hp, ← hn]
  · unfold ReqDesc.inModel ReqDesc.hasFlatten
    rw [e6]
  · unfold ReqDesc.g17Fields ReqDesc.hasRawBody ReqDesc.hasBodyFields
    rw [e1, e2, e5]
    have hauth : d.erase.auth = d.auth := rfl
    rw [hauth]
    exact map_filter_of_map_eq (fun f : HeaderField => (f.header, f.optional))
      (fun f : HeaderField => (f.header, f.optional))
      (fun k => k.2 && ((k.1 = contentType && (!d.erase.rawFields.isEmpty || (!d.erase.bodyFields.isEmpty || !d.erase.newtypeFields.isEmpty)))
        || (k.1 = authorization && d.auth != .serverSignatures)))
      (fun k => k.1) d.headerFields d.erase.headerFields hh
  · exact erase_headerNames d.fields

/-! ### The same for response descriptions -/

def RespKind.erase : RespKind → RespKind
  | .body _ => .body ⟨fun _ => none⟩
  | .header n o _ => .header n o ⟨fun _ => none⟩
  | .newtypeBody _ => .newtypeBody ⟨fun _ => none⟩
  | .rawBody => .rawBody
  | .flattenBody => .flattenBody

def RespField.erase (f : RespField) : RespField := ⟨f.name, f.kind.erase⟩

def RespDesc.erase (d : RespDesc) : RespDesc :=
  { d with manualBody := d.manualBody.map (fun _ => ⟨fun _ => none⟩),
           fields := d.fields.map RespField.erase }

theorem resp_filterMap_erase_length {β γ : Type} (g : RespField → Option β) (g' : RespField → Option γ)
    (h : ∀ f, (g f).isSome = (g' f.erase).isSome) :
    ∀ l : List RespField, (l.filterMap g).length = ((l.map RespField.erase).filterMap g').length
  | [] => rfl
  | f :: l => by
    have ih := resp_filterMap_erase_length g g' h l
    have hf := h f
    simp only [List.map_cons, List.filterMap_cons]
    cases hg : g f <;> cases hg' : g' f.erase <;> rw [hg, hg'] at hf <;> simp_all

theorem resp_filter_erase_length (p : RespField → Bool) (h : ∀ f, p f = p f.erase) :
    ∀ l : List RespField, (l.filter p).length = ((l.map RespField.erase).filter p).length
  | [] => rfl
  | f :: l => by
    have ih := resp_filter_erase_length p h l
    simp only [List.map_cons, List.filter_cons, ← h f]
    cases p f <;> simp [ih]

theorem resp_filterMap_erase_eq {β : Type} (g : RespField → Option β) (h : ∀ f, g f = g f.erase)
    (l : List RespField) : l.filterMap g = (l.map RespField.erase).filterMap g := by
  rw [List.filterMap_map]
  congr 1
  funext f
  exact h f

theorem resp_erase_headers (l : List RespField) :
    (l.filterMap RespField.asHeader).map (fun f => (f.header, f.optional))
      = ((l.map RespField.erase).filterMap RespField.asHeader).map (fun f => (f.header, f.optional)) := by
  rw [List.map_filterMap, List.map_filterMap]
  exact resp_filterMap_erase_eq _ (fun f => by cases f with | mk n k => cases k <;> rfl) l

theorem resp_erase_headerNames (l : List RespField) :
    (l.filterMap RespField.asHeader).map (·.header)
      = ((l.map RespField.erase).filterMap RespField.asHeader).map (·.header) := by
  rw [List.map_filterMap, List.map_filterMap]
  exact resp_filterMap_erase_eq _ (fun f => by cases f with | mk n k => cases k <;> rfl) l

/-- The predicates decided for the response descriptions of the real endpoints are functions of
the erased description. -/
theorem resp_erase_invariant (d : RespDesc) :
    d.macroAccepts = d.erase.macroAccepts ∧ d.supported = d.erase.supported
    ∧ d.inModel = d.erase.inModel ∧ d.g17Fields = d.erase.g17Fields
    ∧ d.headerFields.map (·.header) = d.erase.headerFields.map (·.header)
    ∧ d.status = d.erase.status := by
  have h1 : d.newtypeFields.length = d.erase.newtypeFields.length :=
    resp_filterMap_erase_length _ _ (fun f => by cases f with | mk n k => cases k <;> rfl) d.fields
  have h2 : d.bodyFields.length = d.erase.bodyFields.length :=
    resp_filterMap_erase_length _ _ (fun f => by cases f with | mk n k => cases k <;> rfl) d.fields
  have h5 : d.rawFields.length = d.erase.rawFields.length :=
    resp_filter_erase_length _ (fun f => by cases f with | mk n k => cases k <;> rfl) d.fields
  have h6 : d.flattenFields.length = d.erase.flattenFields.length :=
    resp_filter_erase_length _ (fun f => by cases f with | mk n k => cases k <;> rfl) d.fields
  have e2 := isEmpty_of_length_eq h2
  have e6 := isEmpty_of_length_eq h6
  have hh := resp_erase_headers d.fields
  refine ⟨?_, ?_, ?_, ?_, resp_erase_headerNames d.fields, rfl⟩
  · unfold RespDesc.macroAccepts RespDesc.hasFlatten
    rw [h1, h5, h6, e2, e6]
  · unfold RespDesc.supported
    rw [e2]
    have hn : d.fields.map (·.name) = d.erase.fields.map (·.name) := by
      show _ = (d.fields.map RespField.erase).map (·.name)
      simp [RespField.erase]
    have hm : d.manualBody.isNone = d.erase.manualBody.isNone := by
      show _ = (d.manualBody.map _).isNone
      cases d.manualBody <;> rfl
    rw [hn, hm]
  · unfold RespDesc.inModel RespDesc.hasFlatten
    rw [e6]
  · unfold RespDesc.g17Fields
    exact map_filter_of_map_eq (fun f : HeaderField => (f.header, f.optional))
      (fun f : HeaderField => (f.header, f.optional))
      (fun k => k.2 && decide (k.1 = contentType)) (fun k => k.1)
      d.headerFields d.erase.headerFields hh

end Ruma.Glue
