/-
  Helper lemmas for C16 (glue), part 5: a lawful JSON codec built from C01's canonical encoder and
  its decoder, and the link between the shape of finding G17 (`g17Fields`, computed from a
  description alone) and the hypothesis `himp` of the round-trip theorems.
-/
import RumaModel.Lemmas.EndpointGlueResp
import RumaModel.Lemmas.CanonicalDecode
namespace Ruma.Glue
open Ruma Ruma.Endpoint
open Ruma.Spec.Endpoint (Version AuthScheme)
open Ruma.Spec.CanonicalJson (IsCanonical IsCanonicalL IsCanonicalO IntInRange)

/-! ### A non-trivial lawful `JsonCodec` -/

mutual
/-- `IsCanonical`, computed: integers in range, no float, object keys strictly ascending at every
depth. -/
def canonB : JVal → Bool
  | .null => true
  | .bool _ => true
  | .int i => decide (-(2 ^ 53 - 1) ≤ i) && decide (i ≤ 2 ^ 53 - 1)
  | .float => false
  | .str _ => true
  | .arr xs => canonBL xs
  | .obj kvs => decide (List.Pairwise (· < ·) (Obj.keys kvs)) && canonBO kvs
def canonBL : List JVal → Bool
  | [] => true
  | v :: t => canonB v && canonBL t
def canonBO : List (Str × JVal) → Bool
  | [] => true
  | (_, v) :: t => canonB v && canonBO t
end

mutual
theorem canonB_sound : ∀ v : JVal, canonB v = true → IsCanonical v
  | .null, _ => by unfold IsCanonical; trivial
  | .bool _, _ => by unfold IsCanonical; trivial
  | .int i, h => by
    unfold canonB at h
    simp only [Bool.and_eq_true, decide_eq_true_eq] at h
    unfold IsCanonical IntInRange
    exact h
  | .float, h => by unfold canonB at h; cases h
  | .str _, _ => by unfold IsCanonical; trivial
  | .arr xs, h => by
    unfold canonB at h
    unfold IsCanonical
    exact canonBL_sound xs h
  | .obj kvs, h => by
    unfold canonB at h
    simp only [Bool.and_eq_true, decide_eq_true_eq] at h
    unfold IsCanonical Obj.Sorted
    exact ⟨h.1, canonBO_sound kvs h.2⟩
theorem canonBL_sound : ∀ l : List JVal, canonBL l = true → IsCanonicalL l
  | [], _ => by unfold IsCanonicalL; trivial
  | v :: t, h => by
    unfold canonBL at h
    simp only [Bool.and_eq_true] at h
    unfold IsCanonicalL
    exact ⟨canonB_sound v h.1, canonBL_sound t h.2⟩
theorem canonBO_sound : ∀ l : List (Str × JVal), canonBO l = true → IsCanonicalO l
  | [], _ => by unfold IsCanonicalO; trivial
  | (_, v) :: t, h => by
    unfold canonBO at h
    simp only [Bool.and_eq_true] at h
    unfold IsCanonicalO
    exact ⟨canonB_sound v h.1, canonBO_sound t h.2⟩
end

/-- The JSON library made of property C01's model: the writer is ruma's canonical encoder
(`Canonical.encode`, refusing values that are not canonical — a float, an integer out of range,
unsorted or repeated keys), the reader is the decoder of the canonical grammar
(`Lemmas/CanonicalDecode.decodeCanon`). -/
def canonJson : JsonCodec where
  ser := fun v => if canonB v then some (Canonical.encode v) else none
  parse := Canonical.decodeCanon

/-- It satisfies the three laws the glue theorems ask of a JSON library (by
`Props/C01.decode_encode`). -/
theorem canonJson_lawful : canonJson.Lawful where
  law := by
    intro v b h
    unfold canonJson at h
    simp only at h
    split at h
    · rename_i hc
      cases h
      exact Canonical.decodeCanon_encode v (canonB_sound v hc)
    · cases h
  ser_ne := by
    intro v b h hb
    unfold canonJson at h
    simp only at h
    split at h
    · rename_i hc
      cases h
      have := Canonical.decodeCanon_encode v (canonB_sound v hc)
      rw [hb] at this
      have hn : Canonical.decodeCanon [] = none := rfl
      rw [hn] at this
      cases this
    · cases h
  empty_obj := by
    have h : IsCanonical (.obj []) := by
      unfold IsCanonical Obj.Sorted IsCanonicalO
      exact ⟨List.Pairwise.nil, trivial⟩
    exact Canonical.decodeCanon_encode (.obj []) h

/-! ### The shape of G17 and the hypothesis `himp` -/

theorem headerCanon_none_optional : ∀ (fs : List HeaderField) (vs : List (Option Str)) (f : HeaderField),
    HeaderCanon fs vs → (f, none) ∈ fs.zip vs → f.optional = true
  | [], _, _, _, h => by simp at h
  | _ :: _, [], _, _, h => by simp at h
  | g :: fs, v :: vs, f, hc, h => by
    unfold HeaderCanon at hc
    simp only [List.zip_cons_cons, List.mem_cons, Prod.mk.injEq] at h
    rcases h with ⟨rfl, rfl⟩ | h
    · exact hc.1
    · exact headerCanon_none_optional fs vs f hc.2 h

/-- A description without the G17 shape satisfies the hypothesis `himp` of
`request_roundtrip_partial` for every value of it, whatever token is sent. -/
theorem g17_free_himp' (d : ReqDesc) (v : ReqVal) (sat : SendAccessToken)
    (hg : d.g17Fields = []) (hc : v.Canon d) :
    ∀ f, (f, none) ∈ d.headerFields.zip v.header → f.header ∉ implicitHeaders d sat := by
  intro f hf hmem
  have hopt := headerCanon_none_optional _ _ f hc.header hf
  have hfm : f ∈ d.headerFields := (List.of_mem_zip hf).1
  have hin : f.header ∈ d.g17Fields := by
    unfold ReqDesc.g17Fields
    refine List.mem_map.2 ⟨f, List.mem_filter.2 ⟨hfm, ?_⟩, rfl⟩
    unfold implicitHeaders at hmem
    rw [List.mem_append] at hmem
    rw [hopt, Bool.true_and]
    rcases hmem with h | h
    · by_cases hb : (d.hasRawBody || d.hasBodyFields) = true
      · rw [if_pos hb] at h
        simp only [List.mem_cons, List.mem_nil_iff, or_false] at h
        simp [h, hb]
      · rw [if_neg hb] at h
        cases h
    · have hss : d.auth ≠ .serverSignatures := by
        intro hs
        rw [hs] at h
        cases sat <;> simp [authorizationHeader] at h
      cases ha : authorizationHeader d.auth sat with
      | header x =>
        rw [ha] at h
        simp only [List.mem_cons, List.mem_nil_iff, or_false] at h
        simp [h, hss]
      | noHeader => rw [ha] at h; cases h
      | errNeedsAuth => rw [ha] at h; cases h
      | errHeaderValue => rw [ha] at h; cases h
  rw [hg] at hin
  cases hin

/-- The response-side form. -/
theorem respG17_free_himp' (d : RespDesc) (v : RespVal) (hg : d.g17Fields = []) (hc : v.Canon d) :
    ∀ f, (f, none) ∈ d.headerFields.zip v.header → f.header ≠ contentType := by
  intro f hf hct
  have hopt := headerCanon_none_optional _ _ f hc.header hf
  have hfm : f ∈ d.headerFields := (List.of_mem_zip hf).1
  have hin : f.header ∈ d.g17Fields := by
    unfold RespDesc.g17Fields
    refine List.mem_map.2 ⟨f, List.mem_filter.2 ⟨hfm, ?_⟩, rfl⟩
    simp [hopt, hct]
  rw [hg] at hin
  cases hin

end Ruma.Glue
