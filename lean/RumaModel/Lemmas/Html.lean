/-
  Helper lemmas for the HTML sanitizer model (C14, C15): trees, attribute sets, the scheme loops
  and `node_action`, `split_whitespace`/`join`, the two loops of `clean_element_attributes`.
  Core Lean only.
-/
import RumaModel.Lemmas.HtmlPolicy
namespace Ruma.Lemmas.Html
open Ruma Ruma.Html Ruma.Spec.HtmlPolicy


/-! ### trees -/

theorem allElemsL_append (p : Nat → Str → List Attr → Prop) (d : Nat) (l₁ l₂ : List Node) :
    AllElemsL p d (l₁ ++ l₂) ↔ AllElemsL p d l₁ ∧ AllElemsL p d l₂ := by
  induction l₁ with
  | nil => simp [AllElemsL]
  | cons n t ih => simp [AllElemsL, ih, and_assoc]

theorem noOtherL_append (l₁ l₂ : List Node) :
    NoOtherL (l₁ ++ l₂) ↔ NoOtherL l₁ ∧ NoOtherL l₂ := by
  induction l₁ with
  | nil => simp [NoOtherL]
  | cons n t ih => simp [NoOtherL, ih, and_assoc]

theorem textOfL_append (l₁ l₂ : List Node) : textOfL (l₁ ++ l₂) = textOfL l₁ ++ textOfL l₂ := by
  induction l₁ with
  | nil => simp [textOfL]
  | cons n t ih => simp [textOfL, ih]

theorem depthOfL_append (l₁ l₂ : List Node) : depthOfL (l₁ ++ l₂) = max (depthOfL l₁) (depthOfL l₂) := by
  induction l₁ with
  | nil => simp [depthOfL]
  | cons n t ih => simp [depthOfL, ih, Nat.max_assoc]

/-! ### attribute sets -/

theorem mem_setInsert (a b : Attr) (s : List Attr) : b ∈ setInsert a s ↔ b = a ∨ b ∈ s := by
  induction s with
  | nil => simp [setInsert]
  | cons x t ih =>
    unfold setInsert
    by_cases h : a = x
    · subst h; simp
    · simp only [h, if_false]
      by_cases h2 : a.lt x = true
      · simp [h2]
      · simp only [h2, List.mem_cons, ih, Bool.false_eq_true, if_false]
        constructor
        · rintro (h | h | h) <;> simp [h]
        · rintro (h | h | h) <;> simp [h]

theorem mem_setErase (a b : Attr) (s : List Attr) : b ∈ setErase a s ↔ b ∈ s ∧ b ≠ a := by
  simp [setErase]

theorem mem_setCollect_aux (l acc : List Attr) (b : Attr) :
    b ∈ l.foldl (fun acc a => setInsert a acc) acc ↔ b ∈ l ∨ b ∈ acc := by
  induction l generalizing acc with
  | nil => simp
  | cons x t ih =>
    simp only [List.foldl_cons, ih, mem_setInsert, List.mem_cons]
    constructor
    · rintro (h | h | h) <;> simp [h]
    · rintro ((h | h) | h) <;> simp [h]

theorem mem_setCollect (l : List Attr) (b : Attr) : b ∈ setCollect l ↔ b ∈ l := by
  simp [setCollect, mem_setCollect_aux]

/-! ### the scheme loops and `node_action` -/

theorem denyLoop_false (deny : List (Str × List Str)) (as : List Attr) :
    denyLoop deny as = false ↔ ∀ a ∈ as, schemesHit (mapGet deny a.name) a.value = false := by
  induction as with
  | nil => simp [denyLoop]
  | cons a t ih =>
    simp only [denyLoop, List.mem_cons, forall_eq_or_imp]
    cases h : schemesHit (mapGet deny a.name) a.value <;> simp [ih]

theorem allowLoop_false (x : SchemeCtx) (as : List Attr) :
    allowLoop x as = false ↔ ∀ a ∈ as, schemesPass (attrSchemes x a.name) a.value = true := by
  induction as with
  | nil => simp [allowLoop]
  | cons a t ih =>
    simp only [allowLoop, List.mem_cons, forall_eq_or_imp]
    cases h : schemesPass (attrSchemes x a.name) a.value <;> simp [ih]

theorem attrSchemes_empty (x : SchemeCtx) (h : x.empty = true) (a : Str) : attrSchemes x a = none := by
  unfold SchemeCtx.empty at h
  simp only [Bool.and_eq_true, Option.isNone_iff_eq_none] at h
  simp [attrSchemes, h.1.1, h.1.2, h.2]

theorem denyCheck_false (c : Cfg) (n : Str) (as : List Attr) :
    denyCheck c n as = false ↔ ∀ a ∈ as, denied c n a.name a.value = false := by
  unfold denyCheck
  simp only [denied_eq_model]
  cases h : c.denySchemes.bind (mapGet · n) with
  | none => simp [schemesHit]
  | some deny => simp only [denyLoop_false, Option.bind_some]

theorem schemeCheck_none (L : Lists) (c : Cfg) (n : Str) (as : List Attr) :
    schemeCheck L c n as = .none ↔
      ∀ a ∈ as, schemesPass (schemeList L c n a.name) a.value = true := by
  unfold schemeCheck
  simp only [schemeList_eq_model]
  by_cases h1 : (c.allowSchemes.isNone && !c.useStrict) = true
  · simp [h1, schemesPass]
  · simp only [h1, if_false, Bool.false_eq_true]
    by_cases h2 : (schemeCtx L c n).empty = true
    · simp [h2, attrSchemes_empty _ h2, schemesPass]
    · simp only [h2, if_false, Bool.false_eq_true]
      rw [← allowLoop_false]
      cases h3 : allowLoop (schemeCtx L c n) as <;> simp

theorem schemeCheck_ne_remove (L : Lists) (c : Cfg) (n : Str) (as : List Attr) :
    schemeCheck L c n as ≠ .remove := by
  unfold schemeCheck
  split
  · simp
  · split
    · simp
    · split <;> simp

theorem valueOk_iff (L : Lists) (c : Cfg) (n a v : Str) :
    valueOk L c n a v = true ↔ denied c n a v = false ∧ schemesPass (schemeList L c n a) v = true := by
  simp [valueOk_eq_model]

/-- `node_action` returns `None` exactly when the element is not removed, not ignored by name,
allowed, and every attribute carries an acceptable value. -/
theorem nodeAction_none_iff (L : Lists) (c : Cfg) (n : Str) (as : List Attr) (d : Nat) :
    nodeAction L c n as d = .none ↔
      removeCheck L c n d = false ∧ optContains c.ignoreElements n = false ∧ allowCheck L c n = true ∧
      ∀ a ∈ as, valueOk L c n a.name a.value = true := by
  unfold nodeAction
  cases h1 : removeCheck L c n d
  · cases h2 : optContains c.ignoreElements n
    · cases h3 : allowCheck L c n
      · simp
      · simp only [Bool.false_eq_true, if_false, Bool.not_true, true_and]
        cases h4 : denyCheck c n as
        · simp only [Bool.false_eq_true, if_false]
          rw [schemeCheck_none]
          rw [denyCheck_false] at h4
          constructor
          · intro h a ha; exact (valueOk_iff ..).2 ⟨h4 a ha, h a ha⟩
          · intro h a ha; exact ((valueOk_iff ..).1 (h a ha)).2
        · simp only [if_true]
          constructor
          · intro h; cases h
          · intro h
            have : denyCheck c n as = false :=
              (denyCheck_false ..).2 (fun a ha => ((valueOk_iff ..).1 (h a ha)).1)
            rw [this] at h4; cases h4
    · simp
  · simp

/-- `node_action` returns `Remove` exactly on the removal checks. -/
theorem nodeAction_remove_iff (L : Lists) (c : Cfg) (n : Str) (as : List Attr) (d : Nat) :
    nodeAction L c n as d = .remove ↔ removeCheck L c n d = true := by
  unfold nodeAction
  cases h1 : removeCheck L c n d
  · simp only [Bool.false_eq_true, if_false, iff_false]
    split
    · simp
    · split
      · simp
      · split
        · simp
        · exact schemeCheck_ne_remove L c n as
  · simp



/-! ### `split_whitespace` / `join(" ")` -/

/-- No whitespace character. -/
def NoWs (w : Str) : Prop := ∀ c ∈ w, isWs c = false
/-- What `split_whitespace` yields: non-empty, no whitespace. -/
def Word (w : Str) : Prop := w ≠ [] ∧ NoWs w

theorem splitAux_words (s : Str) : NoWs (splitAux s).1 ∧ ∀ w ∈ (splitAux s).2, Word w := by
  induction s with
  | nil => simp [splitAux, NoWs]
  | cons c t ih =>
    unfold splitAux
    by_cases hc : isWs c = true
    · simp only [hc, if_true]
      refine ⟨by simp [NoWs], ?_⟩
      by_cases he : (splitAux t).1.isEmpty = true
      · simp only [he, if_true]; exact ih.2
      · simp only [he, if_false, Bool.false_eq_true, List.mem_cons]
        rintro w (rfl | hw)
        · exact ⟨by simpa using he, ih.1⟩
        · exact ih.2 w hw
    · simp only [hc, if_false, Bool.false_eq_true]
      refine ⟨?_, ih.2⟩
      intro x hx
      rcases List.mem_cons.1 hx with rfl | hx
      · simpa using hc
      · exact ih.1 x hx

theorem splitWs_words (s : Str) : ∀ w ∈ splitWs s, Word w := by
  unfold splitWs
  have h := splitAux_words s
  by_cases he : (splitAux s).1.isEmpty = true
  · simp only [he, if_true]; exact h.2
  · simp only [he, if_false, Bool.false_eq_true, List.mem_cons]
    rintro w (rfl | hw)
    · exact ⟨by simpa using he, h.1⟩
    · exact h.2 w hw

theorem splitAux_noWs (w : Str) (h : NoWs w) : splitAux w = (w, []) := by
  induction w with
  | nil => rfl
  | cons c t ih =>
    have hc : isWs c = false := h c (by simp)
    have ht : NoWs t := fun x hx => h x (by simp [hx])
    simp [splitAux, hc, ih ht]

theorem splitAux_word_sp (w rest : Str) (h : NoWs w) :
    splitAux (w ++ 32 :: rest) = (w, splitWs rest) := by
  induction w with
  | nil =>
    have : isWs 32 = true := by decide
    simp [splitAux, this, splitWs]
  | cons c t ih =>
    have hc : isWs c = false := h c (by simp)
    have ht : NoWs t := fun x hx => h x (by simp [hx])
    simp [splitAux, hc, ih ht]

/-- Joining words with single spaces and splitting again gives the words back. -/
theorem splitWs_joinSp (ws : List Str) (h : ∀ w ∈ ws, Word w) : splitWs (joinSp ws) = ws := by
  induction ws with
  | nil => simp [joinSp, splitWs, splitAux]
  | cons w t ih =>
    have hw : Word w := h w (by simp)
    have ht : ∀ x ∈ t, Word x := fun x hx => h x (by simp [hx])
    cases t with
    | nil =>
      have hne : w.isEmpty = false := by simpa using hw.1
      simp [joinSp, splitWs, splitAux_noWs w hw.2, hne]
    | cons w2 t2 =>
      have hne : w.isEmpty = false := by simpa using hw.1
      simp only [joinSp]
      unfold splitWs
      rw [splitAux_word_sp w _ hw.2]
      simp only [hne, Bool.false_eq_true, if_false]
      rw [ih ht]




/-! ### `clean_element_attributes` -/

/-- A class survives both `retain`s. -/
def classPass (x : AttrCtx) (cl : Str) : Bool :=
  !removedClass x.removeClasses cl && (!x.whitelistClasses || anyGlob x.allowClasses cl)

theorem filterClasses_eq (x : AttrCtx) (classes : List Str) :
    filterClasses x.removeClasses x.whitelistClasses x.allowClasses classes =
      classes.filter (classPass x) := by
  unfold filterClasses classPass
  cases x.whitelistClasses
  · simp
  · simp [List.filter_filter, Bool.and_comm]

/-- The attribute needs no action: its name is not removed and — if there is an allow list — it
is an HTML attribute (no namespace) whose name is allowed, and if it is the `class` attribute
every class of it passes the class filters. -/
def AttrGood (x : AttrCtx) (a : Attr) : Prop :=
  optContains x.removeAttrs a.name = false ∧
  (x.whitelistAttrs = true →
    a.isHtml = true ∧ (optContains x.listAllow a.name || optContains x.modeAllow a.name) = true) ∧
  (a.name = className → ∀ cl ∈ splitWs a.value, classPass x cl = true)

def _root_.Ruma.Html.AttrAction.target : AttrAction → Attr
  | .replaceValue a _ => a
  | .remove a => a

theorem filter_length_eq {α : Type} (p : α → Bool) (l : List α) :
    (l.filter p).length = l.length ↔ ∀ a ∈ l, p a = true := by
  induction l with
  | nil => simp
  | cons x t ih =>
    by_cases hx : p x = true
    · simp [hx, ih]
    · have hle := List.length_filter_le p t
      simp only [List.filter_cons, hx, if_false, List.length_cons, List.mem_cons, forall_eq_or_imp,
        Bool.false_eq_true, false_and, iff_false]
      omega

/-- The allow-list test of the closure: `true` = the attribute is removed for its name. -/
def nameBad (x : AttrCtx) (a : Attr) : Bool :=
  x.whitelistAttrs &&
    (!a.isHtml || (!optContains x.listAllow a.name && !optContains x.modeAllow a.name))

theorem nameBad_false_iff (x : AttrCtx) (a : Attr) :
    nameBad x a = false ↔ (x.whitelistAttrs = true →
      a.isHtml = true ∧ (optContains x.listAllow a.name || optContains x.modeAllow a.name) = true) := by
  unfold nameBad
  cases x.whitelistAttrs <;> cases a.isHtml <;> cases optContains x.listAllow a.name <;>
    cases optContains x.modeAllow a.name <;> simp

/-- The `class` branch of the closure returns nothing exactly when every class passes. -/
theorem classBranch_none_iff (x : AttrCtx) (a : Attr) :
    (let classes := splitWs a.value
     let kept := filterClasses x.removeClasses x.whitelistClasses x.allowClasses classes
     if kept.length == classes.length then (none : Option AttrAction)
     else if kept.isEmpty then some (.remove a)
     else some (.replaceValue a (joinSp kept))) = none ↔
    ∀ cl ∈ splitWs a.value, classPass x cl = true := by
  simp only [filterClasses_eq]
  rw [← filter_length_eq]
  by_cases hl : (List.filter (classPass x) (splitWs a.value)).length = (splitWs a.value).length
  · simp [hl]
  · simp only [beq_iff_eq, hl, if_false, iff_false]
    split <;> simp

theorem attrAction_none_iff (x : AttrCtx) (a : Attr) : attrAction x a = none ↔ AttrGood x a := by
  unfold AttrGood
  rw [← nameBad_false_iff]
  unfold attrAction
  cases h1 : optContains x.removeAttrs a.name
  · simp only [Bool.false_eq_true, if_false, true_and]
    cases hb : nameBad x a
    · have hb' : (x.whitelistAttrs &&
          (!a.isHtml || (!optContains x.listAllow a.name && !optContains x.modeAllow a.name))) = false := hb
      simp only [hb', Bool.false_eq_true, if_false, true_and]
      by_cases hc : a.name = className
      · simp only [hc, beq_self_eq_true, if_true, forall_const]
        exact classBranch_none_iff x a
      · have : (a.name == className) = false := by simpa using hc
        simp [this, hc]
    · have hb' : (x.whitelistAttrs &&
          (!a.isHtml || (!optContains x.listAllow a.name && !optContains x.modeAllow a.name))) = true := hb
      simp [hb']
  · simp

/-- What the `filter_map` closure can return for attribute `a`. -/
theorem attrAction_some (x : AttrCtx) (a : Attr) (act : AttrAction) (h : attrAction x a = some act) :
    act = .remove a ∨
    (a.name = className ∧ ∃ kept, kept ≠ [] ∧ kept = (splitWs a.value).filter (classPass x) ∧
      act = .replaceValue a (joinSp kept)) := by
  unfold attrAction at h
  split at h
  · left; exact (Option.some.inj h).symm
  · split at h
    · left; exact (Option.some.inj h).symm
    · split at h
      · rename_i hc
        simp only [filterClasses_eq] at h
        split at h
        · cases h
        · split at h
          · left; exact (Option.some.inj h).symm
          · rename_i hne
            right
            refine ⟨by simpa using hc, _, ?_, rfl, (Option.some.inj h).symm⟩
            simpa using hne
      · cases h

theorem attrAction_target (x : AttrCtx) (a : Attr) (act : AttrAction) (h : attrAction x a = some act) :
    act.target = a := by
  rcases attrAction_some x a act h with rfl | ⟨_, _, _, _, rfl⟩ <;> rfl

/-- The rewritten `class` attribute needs no further action. -/
theorem attrAction_replace_good (x : AttrCtx) (a b : Attr) (v : Str)
    (h : attrAction x a = some (.replaceValue b v)) :
    b = a ∧ a.name = className ∧ AttrGood x { a with value := v } := by
  have hs := attrAction_some x a _ h
  rcases hs with hs | ⟨hc, kept, hne, hk, hs⟩
  · cases hs
  · injection hs with hb hv
    subst hb; subst hv
    refine ⟨rfl, hc, ?_⟩
    -- the name is neither removed nor disallowed: otherwise the action would be `remove`
    unfold attrAction at h
    have hkw : ∀ w ∈ kept, Word w ∧ classPass x w = true := by
      intro w hw
      rw [hk] at hw
      have := List.mem_filter.1 hw
      exact ⟨splitWs_words _ w this.1, this.2⟩
    refine ⟨?_, ?_, ?_⟩
    · cases h1 : optContains x.removeAttrs b.name
      · rfl
      · simp [h1] at h
    · intro hw
      cases h1 : optContains x.removeAttrs b.name
      · cases hh : b.isHtml
        · simp [h1, hw, hh] at h
        · cases hl : optContains x.listAllow b.name
          · cases hm : optContains x.modeAllow b.name
            · simp [h1, hw, hh, hl, hm] at h
            · simp [Attr.isHtml] at hh ⊢; exact hh
          · simp [Attr.isHtml] at hh ⊢; exact hh
      · simp [h1] at h
    · intro _ cl hcl
      simp only at hcl
      rw [splitWs_joinSp kept (fun w hw => (hkw w hw).1)] at hcl
      exact (hkw cl hcl).2

/-- After the second loop every attribute of the set needs no action. -/
theorem applyActions_good (x : AttrCtx) (acts : List AttrAction) (s : List Attr)
    (hs : ∀ a ∈ s, AttrGood x a ∨ a ∈ acts.map AttrAction.target)
    (hr : ∀ b v, AttrAction.replaceValue b v ∈ acts → AttrGood x { b with value := v }) :
    ∀ a ∈ applyActions acts s, AttrGood x a := by
  induction acts generalizing s with
  | nil =>
    intro a ha
    rcases hs a ha with h | h
    · exact h
    · simp at h
  | cons act t ih =>
    have hr' : ∀ b v, AttrAction.replaceValue b v ∈ t → AttrGood x { b with value := v } :=
      fun b v h => hr b v (by simp [h])
    cases act with
    | remove b =>
      simp only [applyActions]
      apply ih _ _ hr'
      intro a ha
      rw [mem_setErase] at ha
      rcases hs a ha.1 with h | h
      · exact .inl h
      · simp only [List.map_cons, AttrAction.target, List.mem_cons] at h
        rcases h with h | h
        · exact absurd h ha.2
        · exact .inr h
    | replaceValue b v =>
      simp only [applyActions]
      split
      · apply ih _ _ hr'
        intro a ha
        rw [mem_setInsert, mem_setErase] at ha
        rcases ha with rfl | ha
        · exact .inl (hr b v (by simp))
        · rcases hs a ha.1 with h | h
          · exact .inl h
          · simp only [List.map_cons, AttrAction.target, List.mem_cons] at h
            rcases h with h | h
            · exact absurd h ha.2
            · exact .inr h
      · rename_i hb
        apply ih _ _ hr'
        intro a ha
        rcases hs a ha with h | h
        · exact .inl h
        · simp only [List.map_cons, AttrAction.target, List.mem_cons] at h
          rcases h with h | h
          · subst h; simp [ha] at hb
          · exact .inr h

/-- Where the attributes of the result come from: the original set, or a rewritten value. -/
theorem applyActions_origin (acts : List AttrAction) (s : List Attr) :
    ∀ a ∈ applyActions acts s, a ∈ s ∨ ∃ b v, AttrAction.replaceValue b v ∈ acts ∧ a = { b with value := v } := by
  induction acts generalizing s with
  | nil => intro a ha; exact .inl ha
  | cons act t ih =>
    intro a ha
    cases act with
    | remove b =>
      simp only [applyActions] at ha
      rcases ih _ a ha with h | ⟨b', v, h, rfl⟩
      · exact .inl ((mem_setErase ..).1 h).1
      · exact .inr ⟨b', v, by simp [h], rfl⟩
    | replaceValue b v =>
      simp only [applyActions] at ha
      split at ha
      · rcases ih _ a ha with h | ⟨b', v', h, rfl⟩
        · rw [mem_setInsert, mem_setErase] at h
          rcases h with rfl | h
          · exact .inr ⟨b, v, by simp, rfl⟩
          · exact .inl h.1
        · exact .inr ⟨b', v', by simp [h], rfl⟩
      · rcases ih _ a ha with h | ⟨b', v', h, rfl⟩
        · exact .inl h
        · exact .inr ⟨b', v', by simp [h], rfl⟩

/-- `clean_element_attributes` leaves only attributes that need no action. -/
theorem cleanAttrs_good (L : Lists) (c : Cfg) (n : Str) (as : List Attr) :
    ∀ a ∈ cleanAttrs L c n as, AttrGood (attrCtx L c n) a := by
  unfold cleanAttrs
  apply applyActions_good
  · intro a ha
    cases h : attrAction (attrCtx L c n) a with
    | none => exact .inl ((attrAction_none_iff ..).1 h)
    | some act =>
      right
      simp only [List.mem_map, List.mem_filterMap]
      exact ⟨act, ⟨a, ha, h⟩, attrAction_target _ _ _ h⟩
  · intro b v hb
    simp only [List.mem_filterMap] at hb
    obtain ⟨a, _, h⟩ := hb
    have := attrAction_replace_good _ _ _ _ h
    rw [this.1]; exact this.2.2

/-- Attributes other than `class` in the result are attributes of the input, unchanged. -/
theorem cleanAttrs_origin (L : Lists) (c : Cfg) (n : Str) (as : List Attr) (a : Attr)
    (ha : a ∈ cleanAttrs L c n as) (hc : a.name ≠ className) : a ∈ as := by
  unfold cleanAttrs at ha
  rcases applyActions_origin _ _ a ha with h | ⟨b, v, hb, rfl⟩
  · exact h
  · simp only [List.mem_filterMap] at hb
    obtain ⟨a', _, h⟩ := hb
    have := attrAction_replace_good _ _ _ _ h
    rw [this.1] at hc
    exact absurd this.2.1 hc

/-- A set whose attributes all need no action is left alone. -/
theorem cleanAttrs_fix (L : Lists) (c : Cfg) (n : Str) (as : List Attr)
    (h : ∀ a ∈ as, AttrGood (attrCtx L c n) a) : cleanAttrs L c n as = as := by
  unfold cleanAttrs
  have : as.filterMap (attrAction (attrCtx L c n)) = [] := by
    rw [List.filterMap_eq_nil_iff]
    intro a ha
    exact (attrAction_none_iff ..).2 (h a ha)
  rw [this]; rfl


end Ruma.Lemmas.Html
