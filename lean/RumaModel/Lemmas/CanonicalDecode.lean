/-
  Helper lemmas for C01, part 4: a reader for canonical JSON texts and the proof that it reads
  back exactly the value that was serialised.
-/
import RumaModel.Lemmas.CanonicalEncode
namespace Ruma.Canonical
open Ruma Ruma.Spec.CanonicalJson

/-! ### A reader for canonical JSON texts -/

def hexVal (b : Nat) : Option Nat :=
  if 48 ≤ b ∧ b ≤ 57 then some (b - 48) else if 97 ≤ b ∧ b ≤ 102 then some (b - 87) else none

def isDigit (b : Nat) : Bool := decide (48 ≤ b) && decide (b ≤ 57)

/-- One (possibly escaped) byte of a string body; returns it and the remaining input. -/
def decodeChar : List Nat → Option (Nat × List Nat)
  | [] => none
  | b :: t =>
    if b = 92 then
      match t with
      | [] => none
      | e :: t' =>
        if e = 34 then some (34, t')
        else if e = 92 then some (92, t')
        else if e = 98 then some (8, t')
        else if e = 102 then some (12, t')
        else if e = 110 then some (10, t')
        else if e = 114 then some (13, t')
        else if e = 116 then some (9, t')
        else if e = 117 then
          match t' with
          | z1 :: z2 :: h1 :: h2 :: t'' =>
            if z1 = 48 ∧ z2 = 48 then
              match hexVal h1, hexVal h2 with
              | some x, some y => some (16 * x + y, t'')
              | _, _ => none
            else none
          | _ => none
        else none
    else if b = 34 ∨ b < 32 then none
    else some (b, t)

/-- String body after the opening quote, up to and including the closing quote. -/
def decodeStrBody : Nat → List Nat → Option (Str × List Nat)
  | 0, _ => none
  | fuel + 1, inp =>
    match inp with
    | [] => none
    | b :: t =>
      if b = 34 then some ([], t)
      else
        match decodeChar (b :: t) with
        | none => none
        | some (c, rest) =>
          match decodeStrBody fuel rest with
          | none => none
          | some (s, r) => some (c :: s, r)

def decodeStr (inp : List Nat) : Option (Str × List Nat) :=
  match inp with
  | [] => none
  | b :: t => if b = 34 then decodeStrBody (t.length + 1) t else none

/-- Decimal digits, most significant first, accumulated into `acc`. -/
def decodeDigits : List Nat → Nat → Nat × List Nat
  | [], acc => (acc, [])
  | b :: t, acc => if isDigit b then decodeDigits t (10 * acc + (b - 48)) else (acc, b :: t)

def decodeInt (inp : List Nat) : Option (Int × List Nat) :=
  match inp with
  | [] => none
  | b :: t =>
    if b = 45 then
      match t with
      | [] => none
      | d :: _ => if isDigit d then
          let (n, r) := decodeDigits t 0
          some (-(Int.ofNat n), r)
        else none
    else if isDigit b then
      let (n, r) := decodeDigits (b :: t) 0
      some (Int.ofNat n, r)
    else none

def stripPrefix : List Nat → List Nat → Option (List Nat)
  | [], inp => some inp
  | _ :: _, [] => none
  | p :: ps, b :: t => if p = b then stripPrefix ps t else none

mutual
def decodeVal : Nat → List Nat → Option (JVal × List Nat)
  | 0, _ => none
  | fuel + 1, inp =>
    match inp with
    | [] => none
    | b :: t =>
      if b = 110 then (stripPrefix [117, 108, 108] t).map (fun r => (.null, r))
      else if b = 116 then (stripPrefix [114, 117, 101] t).map (fun r => (.bool true, r))
      else if b = 102 then (stripPrefix [97, 108, 115, 101] t).map (fun r => (.bool false, r))
      else if b = 34 then (decodeStr (b :: t)).map (fun p => (.str p.1, p.2))
      else if b = 91 then
        match t with
        | [] => none
        | c :: r =>
          if c = 93 then some (.arr [], r)
          else (decodeElems fuel (c :: r)).map (fun p => (.arr p.1, p.2))
      else if b = 123 then
        match t with
        | [] => none
        | c :: r =>
          if c = 125 then some (.obj [], r)
          else (decodeMembers fuel (c :: r)).map (fun p => (.obj p.1, p.2))
      else (decodeInt (b :: t)).map (fun p => (.int p.1, p.2))
/-- `value *( "," value ) "]"`. -/
def decodeElems : Nat → List Nat → Option (List JVal × List Nat)
  | 0, _ => none
  | fuel + 1, inp =>
    match decodeVal fuel inp with
    | none => none
    | some (v, r) =>
      match r with
      | [] => none
      | c :: r' =>
        if c = 44 then (decodeElems fuel r').map (fun p => (v :: p.1, p.2))
        else if c = 93 then some ([v], r')
        else none
/-- `member *( "," member ) "}"`. -/
def decodeMembers : Nat → List Nat → Option (List (Str × JVal) × List Nat)
  | 0, _ => none
  | fuel + 1, inp =>
    match decodeStr inp with
    | none => none
    | some (k, r0) =>
      match r0 with
      | [] => none
      | c0 :: r1 =>
        if c0 = 58 then
          match decodeVal fuel r1 with
          | none => none
          | some (v, r) =>
            match r with
            | [] => none
            | c :: r' =>
              if c = 44 then (decodeMembers fuel r').map (fun p => ((k, v) :: p.1, p.2))
              else if c = 125 then some ([(k, v)], r')
              else none
        else none
end

/-- Read one canonical JSON text; the whole input must be consumed. -/
def decodeCanon (b : List Nat) : Option JVal :=
  match decodeVal (2 * b.length + 2) b with
  | some (v, []) => some v
  | _ => none

/-! ### Reading back what the serialiser wrote -/

theorem hexVal_hexLower (n : Nat) (h : n < 16) : hexVal (Canonical.hexLower n) = some n := by
  unfold hexVal Canonical.hexLower
  by_cases h1 : n < 10
  · have : 48 ≤ 48 + n ∧ 48 + n ≤ 57 := by omega
    simp only [h1, if_true, this, and_self]
    congr 1; omega
  · have h2 : ¬ (48 ≤ 87 + n ∧ 87 + n ≤ 57) := by omega
    have h3 : 97 ≤ 87 + n ∧ 87 + n ≤ 102 := by omega
    simp only [h1, if_false, h2, h3, and_self, if_true]
    congr 1; omega

theorem decodeChar_escapeByte (b : Nat) (more : List Nat) :
    decodeChar (escapeByte b ++ more) = some (b, more) := by
  unfold escapeByte
  by_cases h1 : b = 34
  · subst h1; simp [decodeChar]
  by_cases h2 : b = 92
  · subst h2; simp [decodeChar]
  by_cases h3 : b = 8
  · subst h3; simp [decodeChar]
  by_cases h4 : b = 12
  · subst h4; simp [decodeChar]
  by_cases h5 : b = 10
  · subst h5; simp [decodeChar]
  by_cases h6 : b = 13
  · subst h6; simp [decodeChar]
  by_cases h7 : b = 9
  · subst h7; simp [decodeChar]
  simp only [h1, h2, h3, h4, h5, h6, h7, if_false]
  by_cases h8 : b < 32
  · simp only [h8, if_true]
    have e1 := hexVal_hexLower (b / 16) (by omega)
    have e2 := hexVal_hexLower (b % 16) (by omega)
    simp only [List.cons_append, List.nil_append, decodeChar]
    simp only [e1, e2]
    simp
    omega
  · simp only [h8, if_false, List.cons_append, List.nil_append, decodeChar, h2, if_false]
    simp [h1]

theorem escapeByte_head (b : Nat) : ∃ x t, escapeByte b = x :: t ∧ x ≠ 34 := by
  by_cases h : b = 34 ∨ b = 92 ∨ b < 32
  · obtain ⟨rest, h1, _⟩ := escapeByte_escaped b h
    exact ⟨92, rest, h1, by decide⟩
  · exact ⟨b, [], (escapeByte_raw_iff b).mpr h, fun e => h (.inl e)⟩

theorem escape_cons (b : Nat) (t : Str) : escape (b :: t) = escapeByte b ++ escape t := by
  simp [escape]

theorem decodeStrBody_escape : ∀ (s : Str) (more : List Nat) (fuel : Nat), (escape s).length < fuel →
    decodeStrBody fuel (escape s ++ 34 :: more) = some (s, more)
  | [], more, fuel, hf => by
    cases fuel with
    | zero => omega
    | succ f => simp [escape, decodeStrBody]
  | b :: t, more, fuel, hf => by
    cases fuel with
    | zero => omega
    | succ f =>
      rw [escape_cons] at hf ⊢
      obtain ⟨x, r, hx, hne⟩ := escapeByte_head b
      have hlen : (escape t).length < f := by
        rw [hx] at hf; simp only [List.length_append, List.length_cons] at hf; omega
      have hc := decodeChar_escapeByte b (escape t ++ 34 :: more)
      rw [List.append_assoc]
      rw [hx] at hc ⊢
      simp only [List.cons_append] at hc ⊢
      rw [decodeStrBody]
      simp only [hne, if_false, hc, decodeStrBody_escape t more f hlen]

theorem decodeStr_encodeStr (s : Str) (rest : List Nat) :
    decodeStr (encodeStr s ++ rest) = some (s, rest) := by
  unfold encodeStr
  simp only [List.cons_append, List.append_assoc, decodeStr, if_true]
  apply decodeStrBody_escape
  simp only [List.length_append, List.length_cons]
  omega

/-- `rest` does not continue a number. -/
def NoDigitStart (rest : List Nat) : Prop := ∀ b t, rest = b :: t → isDigit b = false

theorem decodeDigits_stop (rest : List Nat) (acc : Nat) (h : NoDigitStart rest) :
    decodeDigits rest acc = (acc, rest) := by
  cases rest with
  | nil => rfl
  | cons b t => simp [decodeDigits, h b t rfl]

/-- The value read after the digits of `n`, starting from `acc`. -/
def digitsVal (acc n : Nat) : Nat :=
  if n < 10 then 10 * acc + n else 10 * digitsVal acc (n / 10) + n % 10
decreasing_by omega

theorem digitsVal_zero (n : Nat) : digitsVal 0 n = n := by
  induction n using Nat.strongRecOn with
  | ind n ih =>
    rw [digitsVal]
    by_cases h : n < 10
    · simp [h]
    · simp only [h, if_false, ih (n / 10) (by omega)]; omega

theorem decodeDigits_decimal (n : Nat) : ∀ (acc : Nat) (rest : List Nat),
    decodeDigits (decimal n ++ rest) acc = decodeDigits rest (digitsVal acc n) := by
  induction n using Nat.strongRecOn with
  | ind n ih =>
    intro acc rest
    rw [decimal, digitsVal]
    by_cases h : n < 10
    · have hd : isDigit (48 + n) = true := by simp [isDigit]; omega
      simp only [h, if_true, List.cons_append, List.nil_append, decodeDigits, hd]
      congr 2; omega
    · have hd : isDigit (48 + n % 10) = true := by simp [isDigit]; omega
      simp only [h, if_false, List.append_assoc, List.cons_append, List.nil_append]
      rw [ih (n / 10) (by omega)]
      simp only [decodeDigits, hd, if_true]
      congr 2; omega

theorem decimal_head (n : Nat) : ∃ d t, decimal n = d :: t ∧ isDigit d = true := by
  induction n using Nat.strongRecOn with
  | ind n ih =>
    rw [decimal]
    by_cases h : n < 10
    · exact ⟨48 + n, [], by simp [h], by simp [isDigit]; omega⟩
    · obtain ⟨d, t, h1, h2⟩ := ih (n / 10) (by omega)
      exact ⟨d, t ++ [48 + n % 10], by simp [h, h1], h2⟩

theorem decodeInt_encodeInt (i : Int) (rest : List Nat) (h : NoDigitStart rest) :
    decodeInt (encodeInt i ++ rest) = some (i, rest) := by
  unfold encodeInt
  cases i with
  | ofNat n =>
    simp only [natDigits_eq_decimal]
    obtain ⟨d, t, h1, h2⟩ := decimal_head n
    have h45 : d ≠ 45 := by
      intro e; subst e; simp [isDigit] at h2
    have := decodeDigits_decimal n 0 rest
    rw [h1] at this ⊢
    simp only [List.cons_append] at this ⊢
    simp only [decodeInt, h45, if_false, h2, if_true, this, digitsVal_zero, decodeDigits_stop rest n h]
  | negSucc n =>
    simp only [natDigits_eq_decimal]
    obtain ⟨d, t, h1, h2⟩ := decimal_head (n + 1)
    have := decodeDigits_decimal (n + 1) 0 rest
    rw [h1] at this ⊢
    simp only [List.cons_append] at this ⊢
    simp only [decodeInt, if_true, h2, this, digitsVal_zero, decodeDigits_stop rest (n + 1) h]
    rfl

theorem stripPrefix_append (p rest : List Nat) : stripPrefix p (p ++ rest) = some rest := by
  induction p with
  | nil => cases rest <;> rfl
  | cons x t ih => simp [stripPrefix, ih]

theorem natDigits_head (n : Nat) : ∃ d t, natDigits n = d :: t ∧ isDigit d = true := by
  rw [natDigits_eq_decimal]; exact decimal_head n

theorem encodeInt_head (i : Int) : ∃ d t, encodeInt i = d :: t ∧ (d = 45 ∨ isDigit d = true) := by
  unfold encodeInt
  cases i with
  | ofNat n => obtain ⟨d, t, h1, h2⟩ := natDigits_head n; exact ⟨d, t, h1, .inr h2⟩
  | negSucc n => exact ⟨45, _, rfl, .inl rfl⟩

/-- First byte of the encoding of a canonical value: never a closing bracket. -/
theorem encode_head : ∀ (v : JVal), IsCanonical v →
    ∃ x t, encode v = x :: t ∧ x ≠ 93 ∧ x ≠ 125
  | .null, _ => ⟨110, _, rfl, by decide, by decide⟩
  | .bool true, _ => ⟨116, _, rfl, by decide, by decide⟩
  | .bool false, _ => ⟨102, _, rfl, by decide, by decide⟩
  | .int i, _ => by
    obtain ⟨d, t, h1, h2⟩ := encodeInt_head i
    refine ⟨d, t, by rw [encode, h1], ?_, ?_⟩
    · rcases h2 with h2 | h2
      · omega
      · intro e; subst e; simp [isDigit] at h2
    · rcases h2 with h2 | h2
      · omega
      · intro e; subst e; simp [isDigit] at h2
  | .float, h => by cases h
  | .str s, _ => ⟨34, _, rfl, by decide, by decide⟩
  | .arr xs, _ => ⟨91, _, rfl, by decide, by decide⟩
  | .obj kvs, _ => ⟨123, _, rfl, by decide, by decide⟩

theorem noDigitStart_cons (b : Nat) (t : List Nat) (h : isDigit b = false) : NoDigitStart (b :: t) := by
  intro b' t' e
  injection e with e1 _
  rw [← e1]; exact h

theorem encodeL_cons_head (x : JVal) (t : List JVal) (hx : IsCanonical x) :
    ∃ c r, encodeL (x :: t) = c :: r ∧ c ≠ 93 := by
  obtain ⟨c, r, h1, h2, _⟩ := encode_head x hx
  cases t with
  | nil => exact ⟨c, r, by rw [encodeL, h1], h2⟩
  | cons w t' => exact ⟨c, r ++ 44 :: encodeL (w :: t'), by rw [encodeL, h1]; rfl; simp, h2⟩

theorem encodeO_cons_head (k : Str) (v : JVal) (t : List (Str × JVal)) :
    ∃ r, encodeO ((k, v) :: t) = 34 :: r := by
  cases t with
  | nil => exact ⟨_, by rw [encodeO]; rfl⟩
  | cons w t' => exact ⟨_, by rw [encodeO]; rfl; simp⟩

mutual
theorem decodeVal_encode : ∀ (v : JVal) (rest : List Nat) (fuel : Nat), IsCanonical v →
    NoDigitStart rest → 2 * (encode v).length + 2 ≤ fuel →
    decodeVal fuel (encode v ++ rest) = some (v, rest)
  | .null, rest, fuel, _, _, hf => by
    cases fuel with
    | zero => omega
    | succ f =>
      show decodeVal (f + 1) (110 :: ([117, 108, 108] ++ rest)) = _
      simp [decodeVal, stripPrefix]
  | .bool true, rest, fuel, _, _, hf => by
    cases fuel with
    | zero => omega
    | succ f =>
      show decodeVal (f + 1) (116 :: ([114, 117, 101] ++ rest)) = _
      simp [decodeVal, stripPrefix]
  | .bool false, rest, fuel, _, _, hf => by
    cases fuel with
    | zero => omega
    | succ f =>
      show decodeVal (f + 1) (102 :: ([97, 108, 115, 101] ++ rest)) = _
      simp [decodeVal, stripPrefix]
  | .int i, rest, fuel, _, hr, hf => by
    cases fuel with
    | zero => omega
    | succ f =>
      obtain ⟨d, t, h1, h2⟩ := encodeInt_head i
      have hd : d ≠ 110 ∧ d ≠ 116 ∧ d ≠ 102 ∧ d ≠ 34 ∧ d ≠ 91 ∧ d ≠ 123 := by
        rcases h2 with h2 | h2
        · omega
        · simp [isDigit] at h2; omega
      have := decodeInt_encodeInt i rest hr
      rw [encode]
      rw [h1] at this ⊢
      simp only [List.cons_append] at this ⊢
      simp [decodeVal, hd, this]
  | .float, _, _, h, _, _ => by cases h
  | .str s, rest, fuel, _, _, hf => by
    cases fuel with
    | zero => omega
    | succ f =>
      have := decodeStr_encodeStr s rest
      rw [encode]
      unfold encodeStr at this ⊢
      simp only [List.cons_append, List.append_assoc, List.nil_append] at this ⊢
      simp [decodeVal, this]
  | .arr [], rest, fuel, _, _, hf => by
    cases fuel with
    | zero => omega
    | succ f =>
      show decodeVal (f + 1) (91 :: 93 :: rest) = _
      simp [decodeVal]
  | .arr (x :: t), rest, fuel, hc, hr, hf => by
    cases fuel with
    | zero => omega
    | succ f =>
      obtain ⟨c, r, h1, h2⟩ := encodeL_cons_head x t hc.1
      have hlen : 2 * (encodeL (x :: t)).length + 3 ≤ f := by
        rw [encode] at hf; simp only [List.length_cons, List.length_append, List.length_nil] at hf; omega
      have ih := decodeElems_encodeL (x :: t) rest f (by simp) hc hr hlen
      rw [encode]
      simp only [List.cons_append, List.append_assoc, List.nil_append]
      rw [h1] at ih ⊢
      simp only [List.cons_append] at ih ⊢
      simp [decodeVal, h2, ih]
  | .obj [], rest, fuel, _, _, hf => by
    cases fuel with
    | zero => omega
    | succ f =>
      show decodeVal (f + 1) (123 :: 125 :: rest) = _
      simp [decodeVal]
  | .obj ((k, v) :: t), rest, fuel, hc, hr, hf => by
    cases fuel with
    | zero => omega
    | succ f =>
      obtain ⟨r, h1⟩ := encodeO_cons_head k v t
      have hlen : 2 * (encodeO ((k, v) :: t)).length + 3 ≤ f := by
        rw [encode] at hf; simp only [List.length_cons, List.length_append, List.length_nil] at hf; omega
      have ih := decodeMembers_encodeO ((k, v) :: t) rest f (by simp) hc.2 hr hlen
      rw [encode]
      simp only [List.cons_append, List.append_assoc, List.nil_append]
      rw [h1] at ih ⊢
      simp only [List.cons_append] at ih ⊢
      simp [decodeVal, ih]
theorem decodeElems_encodeL : ∀ (l : List JVal) (rest : List Nat) (fuel : Nat), l ≠ [] →
    IsCanonicalL l → NoDigitStart rest → 2 * (encodeL l).length + 3 ≤ fuel →
    decodeElems fuel (encodeL l ++ 93 :: rest) = some (l, rest)
  | [], _, _, hne, _, _, _ => absurd rfl hne
  | [v], rest, fuel, _, hc, hr, hf => by
    cases fuel with
    | zero => omega
    | succ f =>
      rw [encodeL] at hf ⊢
      have := decodeVal_encode v (93 :: rest) f hc.1 (noDigitStart_cons 93 rest (by decide)) (by omega)
      simp [decodeElems, this]
  | v :: w :: t, rest, fuel, _, hc, hr, hf => by
    cases fuel with
    | zero => omega
    | succ f =>
      have e : encodeL (v :: w :: t) = encode v ++ (44 :: encodeL (w :: t)) := by rw [encodeL]; simp
      rw [e] at hf ⊢
      simp only [List.length_append, List.length_cons] at hf
      have h1 := decodeVal_encode v (44 :: (encodeL (w :: t) ++ 93 :: rest)) f hc.1
        (noDigitStart_cons 44 _ (by decide)) (by omega)
      have h2 := decodeElems_encodeL (w :: t) rest f (by simp) hc.2 hr (by omega)
      simp only [List.append_assoc, List.cons_append]
      simp [decodeElems, h1, h2]
theorem decodeMembers_encodeO : ∀ (l : List (Str × JVal)) (rest : List Nat) (fuel : Nat), l ≠ [] →
    IsCanonicalO l → NoDigitStart rest → 2 * (encodeO l).length + 3 ≤ fuel →
    decodeMembers fuel (encodeO l ++ 125 :: rest) = some (l, rest)
  | [], _, _, hne, _, _, _ => absurd rfl hne
  | [(k, v)], rest, fuel, _, hc, hr, hf => by
    cases fuel with
    | zero => omega
    | succ f =>
      rw [encodeO] at hf ⊢
      simp only [List.length_append, List.length_cons] at hf
      have h0 := decodeStr_encodeStr k (58 :: (encode v ++ 125 :: rest))
      have := decodeVal_encode v (125 :: rest) f hc.1 (noDigitStart_cons 125 rest (by decide)) (by omega)
      simp only [List.append_assoc, List.cons_append]
      simp [decodeMembers, h0, this]
  | (k, v) :: w :: t, rest, fuel, _, hc, hr, hf => by
    cases fuel with
    | zero => omega
    | succ f =>
      have e : encodeO ((k, v) :: w :: t) = encodeStr k ++ (58 :: encode v) ++ (44 :: encodeO (w :: t)) := by
        rw [encodeO]; simp
      rw [e] at hf ⊢
      simp only [List.length_append, List.length_cons] at hf
      have h0 := decodeStr_encodeStr k (58 :: (encode v ++ 44 :: (encodeO (w :: t) ++ 125 :: rest)))
      have h1 := decodeVal_encode v (44 :: (encodeO (w :: t) ++ 125 :: rest)) f hc.1
        (noDigitStart_cons 44 _ (by decide)) (by omega)
      have h2 := decodeMembers_encodeO (w :: t) rest f (by simp) hc.2 hr (by omega)
      simp only [List.append_assoc, List.cons_append]
      simp [decodeMembers, h0, h1, h2]
end

/-- Reading the serialised form of a canonical value gives the value back. -/
theorem decodeCanon_encode (v : JVal) (h : IsCanonical v) : decodeCanon (encode v) = some v := by
  unfold decodeCanon
  have := decodeVal_encode v [] (2 * (encode v).length + 2) h (by intro b t e; cases e) (Nat.le_refl _)
  rw [List.append_nil] at this
  rw [this]

end Ruma.Canonical
