/-
  C12 — the Boolean evaluation of conditions (`Spec.Push.condHolds`) decides their propositional
  reading (`Spec.Push.CondHolds`); the priority-ordered rule list is sorted by kind.
-/
import RumaModel.Lemmas.PushMatch
namespace Ruma.Push
open Ruma.Spec.Push
open Ruma.Spec.Glob (wordMatchDecide valueDecide wordMatches valueMatches globDecide_iff_Glob wordDecide_iff_WordMatch)

theorem jsonEq_iff (v : PJ) (x : Scalar) : jsonEq v x = true ↔ JsonIs v x := by
  unfold JsonIs
  cases v <;> cases x <;> simp [jsonEq, scalarJson]
  rename_i a b
  constructor
  · rintro ⟨h1, h2⟩; subst h2; exact ⟨rfl, h1⟩
  · rintro ⟨h1, h2⟩; subst h1; exact ⟨h2, rfl⟩

theorem valueDecide_iff (lower : Text → Text) (p s : Text) :
    valueDecide lower p s = true ↔ valueMatches lower p s := globDecide_iff_Glob _ _

theorem wordMatchDecide_iff (lower : Text → Text) (p s : Text) :
    wordMatchDecide lower p s = true ↔ wordMatches lower p s := wordDecide_iff_WordMatch _ _

theorem compare_iff (op : CmpOp) (x n : Nat) :
    Ruma.Spec.Push.compare op x n = true ↔
      match op with
      | .eq => x = n
      | .lt => x < n
      | .gt => x > n
      | .ge => x ≥ n
      | .le => x ≤ n := by
  cases op <;> simp [Ruma.Spec.Push.compare]

/-- The Boolean evaluation of a condition decides its propositional reading. -/
theorem condHolds_iff (P : Params) (ev : PJ) (ctx : Ctx) (c : Cond) :
    condHolds P ev ctx c = true ↔ CondHolds P ev ctx c := by
  cases c with
  | eventMatch key pattern =>
    simp only [condHolds, CondHolds]
    by_cases hk : key = keyRoomId
    · simp only [hk, if_true]
      have hne : ¬ keyRoomId = keyContentBody := by decide
      simp only [hne, if_false, valueDecide_iff]
      constructor
      · intro h; exact ⟨_, rfl, h⟩
      · rintro ⟨v, rfl, h⟩; exact h
    · simp only [hk, if_false]
      cases lookupStr ev key with
      | none => simp
      | some v =>
        by_cases hb : key = keyContentBody
        · simp only [hb, if_true, wordMatchDecide_iff]
          constructor
          · intro h; exact ⟨_, rfl, h⟩
          · rintro ⟨v', hv, h⟩; cases hv; exact h
        · simp only [hb, if_false, valueDecide_iff]
          constructor
          · intro h; exact ⟨_, rfl, h⟩
          · rintro ⟨v', hv, h⟩; cases hv; exact h
  | containsDisplayName =>
    simp only [condHolds, CondHolds]
    cases lookupStr ev keyContentBody with
    | none => simp
    | some v =>
      have hd : Ruma.Spec.Glob.containsWordDecide P.lower ctx.displayName v = true ↔
          Ruma.Spec.Glob.containsWordMatches P.lower ctx.displayName v :=
        Ruma.Spec.Glob.literalWordDecide_iff _ _
      simp only [hd]
      constructor
      · intro h; exact ⟨_, rfl, h⟩
      · rintro ⟨v', hv, h⟩; cases hv; exact h
  | roomMemberCount is =>
    simp only [condHolds, CondHolds]
    rw [compare_iff]
    cases is.prefix_ <;> exact Iff.rfl
  | senderNotificationPermission key =>
    simp only [condHolds, CondHolds, requiredLevel]
    cases ctx.powerLevels with
    | none => simp
    | some pl =>
      cases lookupStr ev keySender with
      | none => simp
      | some s =>
        by_cases hk : key = keyRoom
        · simp [hk]
        · simp [hk]
  | eventPropertyIs key value =>
    simp only [condHolds, CondHolds]
    cases lookup ev key with
    | none => simp
    | some v => simp [jsonEq_iff]
  | eventPropertyContains key value =>
    simp only [condHolds, CondHolds]
    cases lookup ev key with
    | none => simp
    | some v =>
      cases v <;> simp [jsonEq_iff]
  | custom => simp [condHolds, CondHolds]

theorem sorted_const {l : List AnyRule} {k : Nat} (h : ∀ x ∈ l, kindRank x = k) :
    l.Pairwise (fun a b => kindRank a ≤ kindRank b) := by
  induction l with
  | nil => exact List.Pairwise.nil
  | cons a t ih =>
    refine List.Pairwise.cons (fun b hb => ?_) (ih fun x hx => h x (List.mem_cons_of_mem _ hx))
    rw [h a (List.mem_cons_self ..), h b (List.mem_cons_of_mem _ hb)]
    exact Nat.le_refl _

theorem sorted_append {l1 l2 : List AnyRule} (k : Nat)
    (h1 : l1.Pairwise (fun a b => kindRank a ≤ kindRank b)) (hk1 : ∀ x ∈ l1, kindRank x ≤ k)
    (h2 : l2.Pairwise (fun a b => kindRank a ≤ kindRank b)) (hk2 : ∀ x ∈ l2, k ≤ kindRank x) :
    (l1 ++ l2).Pairwise (fun a b => kindRank a ≤ kindRank b) :=
  List.pairwise_append.2 ⟨h1, h2, fun a ha b hb => Nat.le_trans (hk1 a ha) (hk2 b hb)⟩

theorem orderedRules_sorted (rs : Ruleset) :
    (orderedRules rs).Pairwise (fun a b => kindRank a ≤ kindRank b) := by
  have ho : ∀ x ∈ rs.override_.map AnyRule.override_, kindRank x = 0 := by
    intro x hx; obtain ⟨_, _, rfl⟩ := List.mem_map.1 hx; rfl
  have hc : ∀ x ∈ rs.content.map AnyRule.content, kindRank x = 1 := by
    intro x hx; obtain ⟨_, _, rfl⟩ := List.mem_map.1 hx; rfl
  have hr : ∀ x ∈ rs.room.map AnyRule.room, kindRank x = 2 := by
    intro x hx; obtain ⟨_, _, rfl⟩ := List.mem_map.1 hx; rfl
  have hs : ∀ x ∈ rs.sender.map AnyRule.sender, kindRank x = 3 := by
    intro x hx; obtain ⟨_, _, rfl⟩ := List.mem_map.1 hx; rfl
  have hu : ∀ x ∈ rs.underride.map AnyRule.underride, kindRank x = 4 := by
    intro x hx; obtain ⟨_, _, rfl⟩ := List.mem_map.1 hx; rfl
  unfold orderedRules
  refine sorted_append 3 (sorted_append 2 (sorted_append 1 (sorted_append 0 (sorted_const ho) ?_
    (sorted_const hc) ?_) ?_ (sorted_const hr) ?_) ?_ (sorted_const hs) ?_) ?_ (sorted_const hu) ?_
  all_goals intro x hx
  all_goals try simp only [List.mem_append] at hx
  · rw [ho x hx]; omega
  · rw [hc x hx]; omega
  · rcases hx with hx | hx
    · rw [ho x hx]; omega
    · rw [hc x hx]; omega
  · rw [hr x hx]; omega
  · rcases hx with (hx | hx) | hx
    · rw [ho x hx]; omega
    · rw [hc x hx]; omega
    · rw [hr x hx]; omega
  · rw [hs x hx]; omega
  · rcases hx with ((hx | hx) | hx) | hx
    · rw [ho x hx]; omega
    · rw [hc x hx]; omega
    · rw [hr x hx]; omega
    · rw [hs x hx]; omega
  · rw [hu x hx]; omega

end Ruma.Push
