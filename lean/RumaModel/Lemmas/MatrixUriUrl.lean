/-
  C11 — helper lemmas, part 6: the reference `Url::parse` meets the two assumptions; the exact
  condition under which percent-decoding inverts percent-encoding.
-/
import RumaModel.Lemmas.MatrixUriWf
namespace Ruma.MatrixUri
open Ruma Ruma.Spec.MatrixUri

theorem urlSafe_of_all {p : Str} (h : p.all urlSafe = true) : ∀ c ∈ p, urlSafe c = true :=
  List.all_eq_true.mp h

theorem urlParseRef_keeps : UrlKeepsSafeText urlParseRef := by
  intro p q hp hhead hq
  have hp' := urlSafe_of_all hp
  have hp63 : 63 ∉ p := fun h => by have := hp' 63 h; simp [urlSafe] at this
  have hp35 : 35 ∉ p := fun h => by have := hp' 35 h; simp [urlSafe] at this
  unfold urlParseRef
  rw [List.append_assoc, stripPrefix_append]
  dsimp only
  have hcond : ∀ c, urlSafe c = true → (33 ≤ c && c ≤ 126 && c != 34 && c != 60 && c != 62) = true := by
    intro c hc; simp [urlSafe] at hc ⊢; omega
  cases q with
  | none =>
    simp only [queryText, List.append_nil]
    have hall : p.all (fun c => 33 ≤ c && c ≤ 126 && c != 34 && c != 60 && c != 62) = true :=
      List.all_eq_true.mpr (fun c hc => hcond c (hp' c hc))
    have hh : (p.head? != some 47) = true := by simpa using hhead
    simp only [hall, hh, Bool.and_self, if_true, splitHT_not_mem 35 p hp35, splitOnce_not_mem 63 p hp63]
  | some q' =>
    have hq' := urlSafe_of_all (hq q' rfl)
    have hq35 : 35 ∉ q' := fun h => by have := hq' 35 h; simp [urlSafe] at this
    simp only [queryText]
    have hall : (p ++ 63 :: q').all (fun c => 33 ≤ c && c ≤ 126 && c != 34 && c != 60 && c != 62) = true := by
      apply List.all_eq_true.mpr
      intro c hc
      simp at hc
      rcases hc with hc | rfl | hc
      · exact hcond c (hp' c hc)
      · decide
      · exact hcond c (hq' c hc)
    have hh : ((p ++ 63 :: q').head? != some 47) = true := by
      cases p with
      | nil => simp
      | cons a t => simpa using hhead
    have h35 : 35 ∉ p ++ 63 :: q' := by simp [hp35, hq35]
    simp only [hall, hh, Bool.and_self, if_true, splitHT_not_mem 35 _ h35, splitOnce_append 63 p q' hp63]

theorem urlParseRef_bytes : UrlReturnsBytes urlParseRef := by
  intro s u h
  unfold urlParseRef at h
  split at h
  · cases h
  · rename_i rest _
    split at h
    · rename_i hc
      simp only [Bool.and_eq_true] at hc
      have hrest : Bytes rest := by
        intro c hcm
        have := List.all_eq_true.mp hc.1 c hcm
        simp at this; omega
      have hnf : Bytes (splitHT 35 rest).1 := hrest.of_subset (mem_splitHT 35 rest).1
      dsimp only at h
      split at h
      · rename_i p q heq
        cases h
        have := mem_splitOnce 63 _ p q heq
        exact ⟨hnf.of_subset this.1, fun q0 hq0 => by cases hq0; exact hnf.of_subset this.2⟩
      · cases h
        exact ⟨hnf, fun q0 hq0 => by cases hq0⟩
    · cases h

/-! ## the exact condition under which percent-decoding inverts percent-encoding -/

theorem escapeAt_none_of_head (s : Str) (h : ∀ c, s.head? = some c → hexVal c = none) :
    escapeAt s = none := by
  unfold escapeAt
  split
  · rename_i a b t
    have := h a (by simp)
    simp [this]
  · rfl

theorem hexVal_lt_128 (c x : Nat) (h : hexVal c = some x) : c < 128 := by
  unfold hexVal at h
  repeat' split at h
  all_goals first | omega | cases h

theorem head_percentEncode_not_hex (set : Nat → Bool)
    (hall : ∀ c, (hexVal c).isSome = true → set c = true) (t : Str) :
    ∀ c, (percentEncode set t).head? = some c → hexVal c = none := by
  intro c hc
  cases t with
  | nil => simp [percentEncode] at hc
  | cons a t =>
    unfold percentEncode at hc
    split at hc
    · simp at hc; subst hc; decide
    · rename_i hne
      simp at hc; subst hc
      simp at hne
      cases hv : hexVal a with
      | none => rfl
      | some x => have := hall a (by simp [hv]); simp [this] at hne

theorem percent_roundtrip_of_hex (set : Nat → Bool)
    (hall : ∀ c, (hexVal c).isSome = true → set c = true) (b : Str) (hb : Bytes b) :
    percentDecode (percentEncode set b) = b := by
  induction b with
  | nil => rfl
  | cons c t ih =>
    have hc : c < 256 := hb c (by simp)
    have ht : Bytes t := hb.tail
    unfold percentEncode
    split
    · rw [percentDecode_escape _ _ (c / 16) (c % 16) _ (hexVal_hexUpper _ (by omega))
        (hexVal_hexUpper _ (by omega)), ih ht]
      congr 1; omega
    · by_cases h37 : c = 37
      · subst h37
        rw [percentDecode_pct_lit _ (escapeAt_none_of_head _ (head_percentEncode_not_hex set hall t)), ih ht]
      · rw [percentDecode_cons_ne _ _ h37, ih ht]

theorem percent_roundtrip_fails (set : Nat → Bool) (h : Nat) (x : Nat) (hx : hexVal h = some x)
    (h37 : set 37 = false) (hh : set h = false) :
    percentDecode (percentEncode set [37, h, h]) ≠ [37, h, h] := by
  have hlt := hexVal_lt_128 h x hx
  have h1 : ¬ (128 ≤ h) := by omega
  simp [percentEncode, h37, hh, h1, percentDecode, decodeFrom, escapeAt, hx]

/-- What `percent_encode` writes is a percent-encoding of its input in the sense of RFC 3986. -/
theorem percentEncode_denotes (set : Nat → Bool) (h37 : set 37 = true) (b : Str) (hb : Bytes b) :
    PctDenotes (percentEncode set b) b := by
  induction b with
  | nil => exact .nil
  | cons c t ih =>
    have hc : c < 256 := hb.head
    unfold percentEncode
    split
    · have e : c = 16 * (c / 16) + c % 16 := by omega
      have := PctDenotes.esc (hexUpper (c / 16)) (hexUpper (c % 16)) (c / 16) (c % 16)
        (hexVal_hexUpper _ (by omega)) (hexVal_hexUpper _ (by omega)) (ih hb.tail)
      rw [← e] at this
      exact this
    · rename_i hne
      have : c ≠ 37 := by intro h; subst h; simp [h37] at hne
      exact .lit c this (ih hb.tail)
end Ruma.MatrixUri
