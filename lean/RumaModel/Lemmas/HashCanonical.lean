/-
  C05 helper lemmas: the objects whose canonical JSON is hashed (`without …`, the spec's redacted
  event) are canonical values whenever the event is one, so that C01's injectivity of `encode`
  applies to them and `EncInj` need not be assumed.
-/
import RumaModel.Lemmas.Hash
import RumaModel.Props.C01
namespace Ruma.Hash
open Ruma Ruma.Redact Ruma.Canonical Ruma.Spec.Redaction Ruma.Spec.CanonicalJson
open Ruma.Spec.Hash (without redacted)

theorem keys_filter_sublist {α} (o : List (Str × α)) (p : Str × α → Bool) :
    (Obj.keys (o.filter p)).Sublist (Obj.keys o) := by
  unfold Obj.keys
  exact List.Sublist.map _ List.filter_sublist

/-- Filtering the entries of a canonical object leaves a canonical object. -/
theorem isCanonical_obj_filter (o : Obj) (p : Str × JVal → Bool) (h : IsCanonical (.obj o)) :
    IsCanonical (.obj (o.filter p)) := by
  obtain ⟨hs, hv⟩ := h
  refine ⟨List.Pairwise.sublist (keys_filter_sublist o p) hs, ?_⟩
  rw [isCanonicalO_iff] at hv ⊢
  exact fun e he => hv e (List.mem_filter.mp he).1

theorem isCanonical_without (o : Obj) (ks : List Str) (h : IsCanonical (.obj o)) :
    IsCanonical (.obj (without o ks)) :=
  isCanonical_obj_filter o _ h

theorem keys_filterMap_sublist (c : Obj) (g : Str → JVal → Option JVal) :
    (Obj.keys (c.filterMap (fun e => (g e.1 e.2).map (fun v' => (e.1, v'))))).Sublist (Obj.keys c) := by
  induction c with
  | nil => exact List.Sublist.slnil
  | cons e t ih =>
    simp only [List.filterMap_cons]
    cases hg : g e.1 e.2 with
    | none => simp only [Option.map_none]; exact List.Sublist.cons _ ih
    | some v' => simp only [Option.map_some]; exact List.Sublist.cons_cons _ ih

/-- The spec's redacted content of a canonical content is canonical. -/
theorem redactedContent_isCanonical (v : Nat) (ty : Str) (c : Obj) (h : IsCanonical (.obj c)) :
    IsCanonical (.obj (redactedContent v ty c)) := by
  obtain ⟨hs, hv⟩ := h
  refine ⟨List.Pairwise.sublist (keys_filterMap_sublist c (contentEntry v ty)) hs, ?_⟩
  rw [isCanonicalO_iff] at hv ⊢
  intro e' he'
  unfold redactedContent at he'
  obtain ⟨e, he, hf⟩ := List.mem_filterMap.mp he'
  cases hg : contentEntry v ty e.1 e.2 with
  | none => rw [hg] at hf; cases hf
  | some v' =>
    rw [hg] at hf
    simp only [Option.map_some, Option.some.injEq] at hf
    subst hf
    show IsCanonical v'
    have hev := hv e he
    unfold contentEntry at hg
    split at hg
    · cases hg
    · split at hg
      · cases hx : e.2 with
        | obj t =>
          rw [hx] at hg hev
          simp only at hg
          split at hg
          · cases hg
          · injection hg with hg
            subst hg
            exact isCanonical_obj_filter t _ hev
        | _ => rw [hx] at hg; cases hg
      · injection hg with hg
        subst hg
        exact hev

theorem keys_map_of_fst {α} (l : List (Str × α)) (f : Str × α → Str × α) (hf : ∀ p, (f p).1 = p.1) :
    Obj.keys (l.map f) = Obj.keys l := by
  unfold Obj.keys
  rw [List.map_map]
  exact List.map_congr_left (fun p _ => hf p)

/-- The spec's redacted event of a canonical event is canonical. -/
theorem redacted_isCanonical (v : Nat) (ty : Str) (e : Obj) (h : IsCanonical (.obj e)) :
    IsCanonical (.obj (redacted v ty e)) := by
  have hf := isCanonical_obj_filter e (fun p => topKept v p.1) h
  obtain ⟨hs, hv⟩ := hf
  unfold redacted
  refine ⟨?_, ?_⟩
  · unfold Obj.Sorted at hs ⊢
    rw [keys_map_of_fst]
    · exact hs
    · rintro ⟨k, x⟩
      simp only
      split
      · cases x <;> rfl
      · rfl
  · rw [isCanonicalO_iff] at hv ⊢
    intro e' he'
    obtain ⟨⟨k, x⟩, hp, rfl⟩ := List.mem_map.mp he'
    have hpv : IsCanonical x := hv _ hp
    simp only
    split
    · cases x with
      | obj c => exact redactedContent_isCanonical v ty c hpv
      | _ => exact hpv
    · exact hpv

/-- C01's injectivity of the canonical encoding, on objects. -/
theorem encodeObj_injective (a b : Obj) (ha : IsCanonical (.obj a)) (hb : IsCanonical (.obj b))
    (h : encodeObj a = encodeObj b) : a = b := by
  have := Props.C01.encode_injective (.obj a) (.obj b) ha hb h
  injection this

theorem get_mem_entry {α} (o : List (Str × α)) (k : Str) (x : α) (h : Obj.get o k = some x) : (k, x) ∈ o := by
  induction o with
  | nil => simp [Obj.get] at h
  | cons e t ih =>
    obtain ⟨a, b⟩ := e
    by_cases hak : a = k
    · subst hak
      simp only [Obj.get, if_true] at h
      injection h with h; subst h
      exact List.mem_cons_self
    · simp only [Obj.get, hak, if_false] at h
      exact List.mem_cons_of_mem _ (ih h)

/-- A value found in a canonical object is canonical. -/
theorem isCanonical_of_get (o : Obj) (k : Str) (x : JVal) (h : IsCanonical (.obj o))
    (hg : Obj.get o k = some x) : IsCanonical x :=
  (isCanonicalO_iff o).mp h.2 _ (get_mem_entry o k x hg)

/-- Looking a key up in an entry-wise filtered-and-mapped *sorted* object: the entry of the input,
if any, passed through the entry function. -/
theorem get_filterMap_entry (c : Obj) (g : Str → JVal → Option JVal) (k : Str) (hs : Obj.Sorted c) :
    Obj.get (c.filterMap (fun e => (g e.1 e.2).map (fun v' => (e.1, v')))) k = (Obj.get c k).bind (g k) := by
  induction c with
  | nil => rfl
  | cons e t ih =>
    obtain ⟨a, b⟩ := e
    have iht := ih (sorted_tail hs)
    simp only [List.filterMap_cons]
    by_cases hak : a = k
    · subst hak
      have htn : Obj.get t a = none := get_none_of_lt t a (sorted_head_lt hs)
      simp only [Obj.get, if_true, Option.bind_some]
      cases hg : g a b with
      | none =>
        simp only [Option.map_none]
        rw [iht, htn]; rfl
      | some v' => simp only [Option.map_some, Obj.get, if_true]
    · cases hg : g a b with
      | none => simp only [Option.map_none, Obj.get, hak, if_false]; exact iht
      | some v' => simp only [Option.map_some, Obj.get, hak, if_false]; exact iht

/-- The spec's redacted content of a sorted content, looked up at a key. -/
theorem get_redactedContent_sorted (v : Nat) (ty k : Str) (c : Obj) (hs : Obj.Sorted c) :
    Obj.get (redactedContent v ty c) k = (Obj.get c k).bind (contentEntry v ty k) :=
  get_filterMap_entry c (contentEntry v ty) k hs

end Ruma.Hash
