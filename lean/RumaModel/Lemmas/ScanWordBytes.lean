/-
  C17 helper lemmas: the byte-level word matching of `Model/ScanWordBytes.lean` neither panics nor runs
  out of fuel on well-formed UTF-8 — every byte index it computes is a char boundary inside the text.
-/
import RumaModel.Model.ScanWordBytes
import RumaModel.Lemmas.ScanCommon
import RumaModel.Lemmas.ScanUtf8
namespace Ruma.ScanWordBytes
open Ruma Ruma.Scan Ruma.Ids

/-! ### Boundaries -/

/-- A position that is not a char boundary holds a continuation byte (or lies beyond the end). -/
theorem not_boundary {s : Str} {j : Nat} (h : isBoundary s j = false) (hj : j ≤ s.length) :
    j ≠ 0 ∧ ∃ b, s[j]? = some b ∧ isCont b = true := by
  unfold isBoundary at h
  split at h
  · simp at h
  · rename_i h0
    refine ⟨h0, ?_⟩
    cases hg : s[j]? with
    | none =>
      rw [hg] at h
      simp only [decide_eq_false_iff_not] at h
      have := List.getElem?_eq_none_iff.mp hg
      omega
    | some b =>
      rw [hg] at h
      exact ⟨b, rfl, by simpa using h⟩

/-- A boundary inside the text holds a byte that is not a continuation byte (at 0: because the text is
well-formed). -/
theorem boundary_byte {s : Str} (hv : utf8Valid s = true) {i : Nat} (hb : isBoundary s i = true)
    (hi : i < s.length) : ∃ b, s[i]? = some b ∧ isCont b = false := by
  have hg : s[i]? = some s[i] := by simp [hi]
  refine ⟨s[i], hg, ?_⟩
  by_cases h0 : i = 0
  · subst h0
    match s, hv, hi with
    | b :: t, hv, _ => simpa using not_isCont_head_of_utf8Valid hv
  · unfold isBoundary at hb
    simp only [h0, if_false, hg] at hb
    simpa using hb

/-- A position whose byte is not a continuation byte is a boundary. -/
theorem isBoundary_of_byte {s : Str} {i : Nat} {b : Nat} (hg : s[i]? = some b) (hb : isCont b = false) :
    isBoundary s i = true := by
  unfold isBoundary
  split
  · rfl
  · simp [hg, hb]

/-! ### `char_len`, `char_at` -/

theorem charLenGo_spec (s : Str) (i : Nat) : ∀ (fuel len : Nat), 1 ≤ len → i + len ≤ s.length →
    s.length - (i + len) + 1 ≤ fuel →
    (∀ m, 1 ≤ m → m < len → isBoundary s (i + m) = false) →
    ∃ n, charLenGo s i fuel len = .ok n ∧ i + n ≤ s.length ∧ 1 ≤ n ∧ isBoundary s (i + n) = true ∧
      ∀ m, 1 ≤ m → m < n → isBoundary s (i + m) = false := by
  intro fuel
  induction fuel with
  | zero => intro len _ _ h; omega
  | succ f ih =>
    intro len h1 h2 h3 h4
    unfold charLenGo
    by_cases hb : isBoundary s (i + len) = true
    · simp only [hb, if_true]
      exact ⟨len, rfl, h2, h1, hb, h4⟩
    · simp only [hb, Bool.false_eq_true, if_false]
      have hne : i + len ≠ s.length := by
        intro e
        rw [e, isBoundary_length] at hb
        exact hb rfl
      have := ih (len + 1) (by omega) (by omega) (by omega) (by
        intro m hm1 hm2
        by_cases hm : m < len
        · exact h4 m hm1 hm
        · have : m = len := by omega
          subst this
          simpa using hb)
      simpa [Nat.add_assoc] using this

/-- The bytes from a boundary to the next boundary are one character. -/
theorem charAt_ok {s : Str} (hv : utf8Valid s = true) {i : Nat} (hb : isBoundary s i = true)
    (hi : i < s.length) : ∃ cs, charAt s i = .ok cs := by
  obtain ⟨n, hn, hle, h1, hbn, hmid⟩ := charLenGo_spec s i (s.length + 1) 1 (Nat.le_refl _) (by omega)
    (by omega) (by intro m a b; omega)
  unfold charAt charLen
  rw [hn]
  simp only
  have hsl : strSlice s i (i + n) = some ((s.take (i + n)).drop i) := by
    simp [strSlice, hb, hbn]
  rw [hsl]
  simp only
  obtain ⟨b, hg, hnc⟩ := boundary_byte hv hb hi
  -- the slice is the byte at `i` followed by continuation bytes only
  have hbi : s[i] = b := by simpa [hi] using hg
  have hcs : (s.take (i + n)).drop i = b :: (s.drop (i + 1)).take (n - 1) := by
    rw [List.drop_take, List.drop_eq_getElem_cons hi, hbi]
    have : i + n - i = (n - 1) + 1 := by omega
    rw [this, List.take_succ_cons]
  have htail : ∀ c ∈ (s.drop (i + 1)).take (n - 1), isCont c = true := by
    intro c hc
    obtain ⟨k, hk⟩ := List.mem_iff_getElem?.mp hc
    rw [List.getElem?_take] at hk
    split at hk
    · rename_i hlt
      rw [List.getElem?_drop] at hk
      have hnb := hmid (k + 1) (by omega) (by omega)
      obtain ⟨_, b', hb', hcont⟩ := not_boundary hnb (by omega)
      have : i + 1 + k = i + (k + 1) := by omega
      rw [this, hb'] at hk
      simp only [Option.some.injEq] at hk
      subst hk
      exact hcont
    · simp at hk
  have hfil : ((s.drop (i + 1)).take (n - 1)).filter (fun b => !isCont b) = [] := by
    rw [List.filter_eq_nil_iff]
    intro c hc
    simp [htail c hc]
  have : charCount ((s.take (i + n)).drop i) = 1 := by
    rw [hcs]
    simp [charCount, hnc, hfil]
  simp [this]

/-! ### `find_prev_char` -/

theorem prevGo_spec (s : Str) : ∀ (fuel pos : Nat), pos + 1 ≤ fuel →
    ∃ q, prevGo s fuel pos = .ok q ∧ q ≤ pos ∧ isBoundary s q = true := by
  intro fuel
  induction fuel with
  | zero => intro pos h; omega
  | succ f ih =>
    intro pos h
    unfold prevGo
    by_cases hb : isBoundary s pos = true
    · simp only [hb, if_true]
      exact ⟨pos, rfl, Nat.le_refl _, hb⟩
    · simp only [hb, Bool.false_eq_true, if_false]
      have h0 : pos ≠ 0 := by
        intro e
        rw [e, isBoundary_zero] at hb
        exact hb rfl
      simp only [h0, if_false]
      obtain ⟨q, hq, hle, hbq⟩ := ih (pos - 1) (by omega)
      exact ⟨q, hq, by omega, hbq⟩

theorem findPrevChar_ok {s : Str} (hv : utf8Valid s = true) {i : Nat} (hi : i ≤ s.length) :
    ∃ r, findPrevChar s i = .ok r ∧ (i ≠ 0 → r.isSome = true) := by
  unfold findPrevChar
  by_cases h0 : i = 0
  · simp [h0]
  · simp only [h0, if_false]
    obtain ⟨q, hq, hle, hbq⟩ := prevGo_spec s (i + 1) (i - 1) (by omega)
    rw [hq]
    simp only
    obtain ⟨cs, hcs⟩ := charAt_ok hv hbq (by omega)
    rw [hcs]
    exact ⟨some cs, rfl, fun _ => rfl⟩

/-! ### The match found by `str::find` lies on char boundaries -/

/-- `s = a ++ p ++ b` with `s` and the non-empty `p` well-formed: both ends of the occurrence are
char boundaries of `s`, and the text from the occurrence on is well-formed. -/
theorem occurrence_boundaries {a p b : Str} (hv : utf8Valid (a ++ p ++ b) = true)
    (hp : utf8Valid p = true) (hne : p ≠ []) :
    isBoundary (a ++ p ++ b) a.length = true ∧
    isBoundary (a ++ p ++ b) (a.length + p.length) = true ∧
    utf8Valid (p ++ b) = true := by
  obtain ⟨p0, pt, rfl⟩ := List.exists_cons_of_ne_nil hne
  have hp0 : isCont p0 = false := not_isCont_head_of_utf8Valid hp
  have hsplit : utf8Valid a = true ∧ utf8Valid ((p0 :: pt) ++ b) = true := by
    have h' : utf8Valid (a ++ ((p0 :: pt) ++ b)) = true := by simpa using hv
    refine utf8Valid_split h' ?_
    intro c t e
    simp only [List.cons_append, List.cons.injEq] at e
    rw [← e.1]
    exact hp0
  have hb : utf8Valid b = true := utf8Valid_append_left hsplit.2 hp
  refine ⟨?_, ?_, hsplit.2⟩
  · apply isBoundary_of_byte (b := p0) _ hp0
    simp
  · cases b with
    | nil =>
      have : a.length + (p0 :: pt).length = (a ++ (p0 :: pt) ++ []).length := by simp
      rw [this]
      exact isBoundary_length _
    | cons b0 bt =>
      apply isBoundary_of_byte (b := b0) _ (not_isCont_head_of_utf8Valid hb)
      have : a.length + (p0 :: pt).length = (a ++ (p0 :: pt)).length := by simp
      rw [this, List.getElem?_append_right (Nat.le_refl _)]
      simp

/-! ### Word boundaries and "find next word" -/

theorem wordBoundaryStart_ok {s : Str} (hv : utf8Valid s = true) {i : Nat} (hb : isBoundary s i = true)
    (hi : i < s.length) : ∃ r, wordBoundaryStart s i = .ok r := by
  unfold wordBoundaryStart
  obtain ⟨c0, hc0⟩ := charAt_ok hv hb hi
  rw [hc0]
  simp only [Out.bind]
  split
  · exact ⟨true, rfl⟩
  · obtain ⟨pc, hpc, _⟩ := findPrevChar_ok hv (Nat.le_of_lt hi)
    rw [hpc]
    exact ⟨_, rfl⟩

theorem wordBoundaryEnd_ok {s : Str} (hv : utf8Valid s = true) {j : Nat} (hb : isBoundary s j = true)
    (hj : j ≤ s.length) (h0 : j ≠ 0) : ∃ r, wordBoundaryEnd s j = .ok r := by
  unfold wordBoundaryEnd
  split
  · exact ⟨true, rfl⟩
  · rename_i hne
    obtain ⟨pc, hpc, hsome⟩ := findPrevChar_ok hv hj
    rw [hpc]
    simp only [Out.bind]
    match pc, hsome h0 with
    | some c, _ =>
      simp only
      split
      · exact ⟨true, rfl⟩
      · obtain ⟨c2, hc2⟩ := charAt_ok hv hb (by omega)
        rw [hc2]
        exact ⟨_, rfl⟩

theorem utf8Valid_of_ascii : ∀ (l : Str), (∀ x ∈ l, x < 128) → utf8Valid l = true
  | [], _ => by simp [utf8Valid]
  | x :: t, h => by
    unfold utf8Valid
    have hx : x < 128 := h x (by simp)
    simp only [hx, if_true]
    exact utf8Valid_of_ascii t (fun y hy => h y (by simp [hy]))

theorem isWordByte_lt {b : Nat} (h : isWordByte b = true) : b < 128 := by
  simp [isWordByte, isAlnum, isDigit, isLower, isUpper] at h
  omega

/-- The text from a char boundary on is well-formed. -/
theorem utf8Valid_drop {s : Str} (hv : utf8Valid s = true) {i : Nat} (hb : isBoundary s i = true)
    (hi : i ≤ s.length) : utf8Valid (s.drop i) = true := by
  have hs : utf8Valid (s.take i ++ s.drop i) = true := by rw [List.take_append_drop]; exact hv
  refine (utf8Valid_split hs ?_).2
  intro c t e
  have hlt : i < s.length := by
    by_cases h : i < s.length
    · exact h
    · have : s.drop i = [] := List.drop_eq_nil_of_le (by omega)
      rw [this] at e
      cases e
  obtain ⟨b, hg, hnc⟩ := boundary_byte hv hb hlt
  have : (s.drop i)[0]? = some b := by rw [List.getElem?_drop]; simpa using hg
  rw [e] at this
  simp only [List.getElem?_cons_zero, Option.some.injEq] at this
  rw [this]
  exact hnc

/-- "Find next word" returns, and the rest it hands to the recursive call is well-formed and strictly
shorter than the text. -/
theorem nextWord_spec {s : Str} (hv : utf8Valid s = true) {i : Nat} (hb : isBoundary s i = true)
    (hi : i ≤ s.length) :
    ∃ r, nextWord s i = .ok r ∧
      ∀ rest, r = some rest → utf8Valid rest = true ∧ rest.length < s.length := by
  unfold nextWord
  simp only [strFrom, hb, if_true]
  have hvt := utf8Valid_drop hv hb hi
  have hlen : (s.drop i).length ≤ s.length := by simp
  generalize s.drop i = t at hvt hlen
  cases hf : findP (fun b => !isWordByte b) t with
  | none => exact ⟨none, rfl, by intro _ e; cases e⟩
  | some nw =>
    obtain ⟨pre, c, post, rfl, hpre, hc, rfl⟩ := findP_eq_some hf
    simp only
    have hpv : utf8Valid pre = true := utf8Valid_of_ascii pre (fun x hx => by
      have := hpre x hx
      exact isWordByte_lt (by simpa using this))
    have hcv : utf8Valid (c :: post) = true := utf8Valid_append_left hvt hpv
    have hbc : isBoundary (pre ++ c :: post) pre.length = true :=
      isBoundary_of_byte (b := c) (by simp) (not_isCont_head_of_utf8Valid hcv)
    have hd : List.drop pre.length (pre ++ c :: post) = c :: post := List.drop_left' rfl
    simp only [hbc, if_true, hd]
    cases hf2 : findP isWordByte (c :: post) with
    | none => exact ⟨none, rfl, by intro _ e; cases e⟩
    | some w =>
      obtain ⟨pre2, d, post2, he, hpre2, hdw, rfl⟩ := findP_eq_some hf2
      simp only
      have hdlt : d < 128 := isWordByte_lt hdw
      rw [he]
      have hbd : isBoundary (pre2 ++ d :: post2) pre2.length = true := isBoundary_at pre2 d post2 hdlt
      have hd2 : List.drop pre2.length (pre2 ++ d :: post2) = d :: post2 := List.drop_left' rfl
      simp only [hbd, if_true, hd2]
      refine ⟨some (d :: post2), rfl, ?_⟩
      intro rest e
      simp only [Option.some.injEq] at e
      subst e
      refine ⟨?_, ?_⟩
      · rw [he] at hcv
        refine (utf8Valid_split hcv ?_).2
        intro c' t' e'
        simp only [List.cons.injEq] at e'
        rw [← e'.1]
        exact isCont_false_of_lt hdlt
      · -- `pre2` is not empty: its first byte would be `c`, which is not a word byte
        have hne : pre2 ≠ [] := by
          intro e0
          subst e0
          simp only [List.nil_append, List.cons.injEq] at he
          rw [he.1] at hc
          simp [hdw] at hc
        have h1 : 1 ≤ pre2.length := by
          cases pre2 with
          | nil => exact absurd rfl hne
          | cons _ _ => simp
        have h2 : (c :: post).length = pre2.length + (post2.length + 1) := by rw [he]; simp
        simp only [List.length_append, List.length_cons] at hlen h2 ⊢
        omega

/-! ### `matches_word_impl`, literal branch -/

/-- **The literal word matcher returns** on every well-formed text and pattern: none of its byte
indices leaves the text or falls inside a character, `find_prev_char(end).unwrap()` has a previous
character, and the recursion on the rest of the text ends within `len + 1` calls. -/
theorem matchesWordLit_ok : ∀ (fuel : Nat) (s p : Str), utf8Valid s = true → utf8Valid p = true →
    s.length + 1 ≤ fuel → ∃ r, matchesWordLit fuel s p = .ok r := by
  intro fuel
  induction fuel with
  | zero => intro s p _ _ h; omega
  | succ f ih =>
    intro s p hv hp hf
    unfold matchesWordLit
    by_cases h1 : s = p
    · simp [h1]
    · simp only [h1, if_false]
      by_cases h2 : p = []
      · simp [h2]
      · simp only [h2, if_false]
        cases hfs : findSub p s with
        | none => exact ⟨false, rfl⟩
        | some start =>
          obtain ⟨a, b, rfl, rfl⟩ := findSub_eq_some hfs
          simp only
          obtain ⟨hb1, hb2, _⟩ := occurrence_boundaries hv hp h2
          have hplen : 1 ≤ p.length := by
            cases p with
            | nil => exact absurd rfl h2
            | cons _ _ => simp
          have hlt : a.length < (a ++ p ++ b).length := by simp; omega
          have hle : a.length + p.length ≤ (a ++ p ++ b).length := by simp
          obtain ⟨wbs, hwbs⟩ := wordBoundaryStart_ok hv hb1 hlt
          rw [hwbs]
          simp only [Out.bind]
          obtain ⟨wbe, hwbe⟩ : ∃ wbe, (if wbs = true then wordBoundaryEnd (a ++ p ++ b) (a.length + p.length)
              else Out.ok false) = .ok wbe := by
            cases wbs
            · exact ⟨false, rfl⟩
            · simpa using wordBoundaryEnd_ok hv hb2 hle (by omega)
          rw [hwbe]
          simp only
          cases wbe
          · simp only [Bool.false_eq_true, if_false]
            obtain ⟨r, hr, hrest⟩ := nextWord_spec hv hb1 (Nat.le_of_lt hlt)
            rw [hr]
            simp only
            cases r with
            | none => exact ⟨false, rfl⟩
            | some rest =>
              obtain ⟨hvr, hlr⟩ := hrest rest rfl
              exact ih rest p hvr hp (by omega)
          · exact ⟨true, by simp⟩

theorem matchesWord_ok (s p : Str) (hv : utf8Valid s = true) (hp : utf8Valid p = true) :
    ∃ r, matchesWord s p = .ok r :=
  matchesWordLit_ok (s.length + 1) s p hv hp (Nat.le_refl _)

end Ruma.ScanWordBytes
