/-
  C17 helper lemmas: the index-faithful `Content-Disposition` parser of `Model/ScanCd.lean` keeps its
  cursor inside `[0, len]`, so that no index or slice can fail and every loop ends within its fuel.
-/
import RumaModel.Model.ScanCd
import RumaModel.Lemmas.ScanCommon
namespace Ruma.ScanCd
open Ruma Ruma.Scan Ruma.HttpHeaders

/-- The scanning loop returns a position in `[pos, len]`; if it stopped before the end, a byte is
there. -/
theorem scanGo_spec (bytes : Str) (p : Nat → Bool) : ∀ (fuel pos : Nat), pos ≤ bytes.length →
    bytes.length - pos + 1 ≤ fuel →
    ∃ q, scanGo bytes p fuel pos = .ok q ∧ pos ≤ q ∧ q ≤ bytes.length := by
  intro fuel
  induction fuel with
  | zero => intro pos _ h; omega
  | succ f ih =>
    intro pos h1 h2
    unfold scanGo
    cases hg : bytes[pos]? with
    | none => exact ⟨pos, rfl, Nat.le_refl _, h1⟩
    | some b =>
      simp only
      have hlt : pos < bytes.length := by
        by_cases h : pos < bytes.length
        · exact h
        · rw [List.getElem?_eq_none (by omega)] at hg; cases hg
      split
      · obtain ⟨q, hq, h3, h4⟩ := ih (pos + 1) (by omega) (by omega)
        exact ⟨q, hq, by omega, h4⟩
      · exact ⟨pos, rfl, Nat.le_refl _, h1⟩

theorem scan_spec (bytes : Str) (p : Nat → Bool) (pos : Nat) (h : pos ≤ bytes.length) :
    ∃ q, scan bytes p pos = .ok q ∧ pos ≤ q ∧ q ≤ bytes.length :=
  scanGo_spec bytes p _ pos h (Nat.le_refl _)

theorem skipWsI_spec (bytes : Str) (pos : Nat) (h : pos ≤ bytes.length) :
    ∃ q, skipWsI bytes pos = .ok q ∧ pos ≤ q ∧ q ≤ bytes.length := scan_spec bytes isWs pos h

theorem valueGo_spec (bytes : Str) (quoted : Bool) : ∀ (fuel pos : Nat) (esc : Bool),
    pos ≤ bytes.length → bytes.length - pos + 1 ≤ fuel →
    ∃ q, valueGo bytes quoted fuel pos esc = .ok q ∧ pos ≤ q ∧ q ≤ bytes.length := by
  intro fuel
  induction fuel with
  | zero => intro pos _ _ h; omega
  | succ f ih =>
    intro pos esc h1 h2
    unfold valueGo
    cases hg : bytes[pos]? with
    | none => exact ⟨pos, rfl, Nat.le_refl _, h1⟩
    | some b =>
      simp only
      have hlt : pos < bytes.length := by
        by_cases h : pos < bytes.length
        · exact h
        · rw [List.getElem?_eq_none (by omega)] at hg; cases hg
      split
      · exact ⟨pos, rfl, Nat.le_refl _, h1⟩
      · split
        · exact ⟨pos, rfl, Nat.le_refl _, h1⟩
        · obtain ⟨q, hq, h3, h4⟩ := ih (pos + 1) (b = 92 && !esc) (by omega) (by omega)
          exact ⟨q, hq, by omega, h4⟩

theorem get_of_lt {bytes : Str} {i : Nat} (h : i < bytes.length) : ∃ b, bytes[i]? = some b :=
  ⟨bytes[i], by simp [h]⟩

/-- `parse_param_name` returns, stays inside the input, and moves forward unless it is at the end. -/
theorem parseParamNameI_spec (bytes : Str) (pos : Nat) (h : pos ≤ bytes.length) :
    ∃ r q, parseParamNameI bytes pos = .ok (r, q) ∧ pos ≤ q ∧ q ≤ bytes.length ∧
      (pos < bytes.length → pos < q) := by
  unfold parseParamNameI
  obtain ⟨p1, hp1, h1a, h1b⟩ := skipWsI_spec bytes pos h
  rw [hp1]
  simp only [Out.bind]
  split
  · rename_i he
    exact ⟨none, p1, rfl, h1a, h1b, fun hl => by omega⟩
  · rename_i hne
    obtain ⟨p2, hp2, h2a, h2b⟩ := scan_spec bytes isTchar p1 h1b
    rw [hp2]
    simp only
    split
    · exact ⟨none, p2, rfl, by omega, h2b, fun hl => by omega⟩
    · rename_i hne2
      obtain ⟨b, hb⟩ := get_of_lt (bytes := bytes) (i := p2) (by omega)
      rw [hb]
      simp only
      split
      · exact ⟨none, p2 + 1, rfl, by omega, by omega, fun hl => by omega⟩
      · obtain ⟨name, hname, hlen⟩ := bytesSlice_some (s := bytes) h2a h2b
        rw [hname]
        simp only
        split
        · exact ⟨none, bytes.length, rfl, h, Nat.le_refl _, fun hl => hl⟩
        · rename_i hemp
          have : name.length ≠ 0 := by
            intro e
            apply hemp
            simp [List.length_eq_zero_iff.mp e]
          exact ⟨some name, p2, rfl, by omega, h2b, fun hl => by omega⟩

/-- `parse_param_value` returns and stays inside the input. -/
theorem parseParamValueI_spec (bytes : Str) (pos : Nat) (h : pos ≤ bytes.length) :
    ∃ r q, parseParamValueI bytes pos = .ok (r, q) ∧ pos ≤ q ∧ q ≤ bytes.length := by
  unfold parseParamValueI
  obtain ⟨p1, hp1, h1a, h1b⟩ := skipWsI_spec bytes pos h
  rw [hp1]
  simp only [Out.bind]
  split
  · exact ⟨none, p1, rfl, h1a, h1b⟩
  · rename_i hne
    obtain ⟨b, hb⟩ := get_of_lt (bytes := bytes) (i := p1) (by omega)
    rw [hb]
    simp only
    have hvs : (if decide (b = 34) = true then p1 + 1 else p1) ≤ bytes.length := by
      split <;> omega
    have hvs' : p1 ≤ (if decide (b = 34) = true then p1 + 1 else p1) := by
      split <;> omega
    generalize (if decide (b = 34) = true then p1 + 1 else p1) = vs at hvs hvs'
    obtain ⟨p3, hp3, h3a, h3b⟩ := valueGo_spec bytes (decide (b = 34)) _ vs false hvs (Nat.le_refl _)
    rw [hp3]
    simp only
    obtain ⟨value, hvalue, _⟩ := bytesSlice_some (s := bytes) h3a h3b
    rw [hvalue]
    simp only
    have hp4 : (if (decide (b = 34) && decide (p3 ≠ bytes.length)) = true then p3 + 1 else p3) ≤ bytes.length := by
      split
      · rename_i hc
        simp only [Bool.and_eq_true, decide_eq_true_eq] at hc
        omega
      · exact h3b
    have hp4' : p3 ≤ (if (decide (b = 34) && decide (p3 ≠ bytes.length)) = true then p3 + 1 else p3) := by
      split <;> omega
    generalize (if (decide (b = 34) && decide (p3 ≠ bytes.length)) = true then p3 + 1 else p3) = p4 at hp4 hp4'
    obtain ⟨p5, hp5, h5a, h5b⟩ := skipWsI_spec bytes p4 hp4
    rw [hp5]
    simp only
    split
    · rename_i hne5
      obtain ⟨c, hc⟩ := get_of_lt (bytes := bytes) (i := p5) (by omega)
      rw [hc]
      simp only
      split
      · exact ⟨_, p5 + 1, rfl, by omega, by omega⟩
      · exact ⟨none, bytes.length, rfl, h, Nat.le_refl _⟩
    · exact ⟨_, p5, rfl, by omega, h5b⟩

/-- `RawParam::parse_next` returns, stays inside the input and makes progress: the measure of the
parameter loop. -/
theorem parseNextI_spec (bytes : Str) (pos : Nat) (h : pos ≤ bytes.length) :
    ∃ r q, parseNextI bytes pos = .ok (r, q) ∧ pos ≤ q ∧ q ≤ bytes.length ∧
      (pos < bytes.length → pos < q) := by
  unfold parseNextI
  obtain ⟨r, q1, hr, h1a, h1b, h1c⟩ := parseParamNameI_spec bytes pos h
  rw [hr]
  simp only [Out.bind]
  cases r with
  | none => exact ⟨none, q1, rfl, h1a, h1b, h1c⟩
  | some name =>
    simp only
    obtain ⟨p2, hp2, h2a, h2b⟩ := skipWsI_spec bytes q1 h1b
    rw [hp2]
    simp only
    split
    · exact ⟨none, p2, rfl, by omega, h2b, fun hl => by have := h1c hl; omega⟩
    · rename_i hne
      obtain ⟨b, hb⟩ := get_of_lt (bytes := bytes) (i := p2) (by omega)
      rw [hb]
      simp only
      split
      · exact ⟨none, bytes.length, rfl, h, Nat.le_refl _, fun hl => hl⟩
      · obtain ⟨p4, hp4, h4a, h4b⟩ := skipWsI_spec bytes (p2 + 1) (by omega)
        rw [hp4]
        simp only
        obtain ⟨rv, q, hrv, h5a, h5b⟩ := parseParamValueI_spec bytes p4 h4b
        rw [hrv]
        simp only
        cases rv with
        | none => exact ⟨none, q, rfl, by omega, h5b, fun _ => by omega⟩
        | some vq =>
          obtain ⟨v, qq⟩ := vq
          exact ⟨_, q, rfl, by omega, h5b, fun _ => by omega⟩

/-- The parameter loop ends within `len − pos + 1` iterations. -/
theorem paramsLoopI_returns (bytes : Str) : ∀ (fuel pos : Nat) (fn : Option Str),
    pos ≤ bytes.length → bytes.length - pos + 1 ≤ fuel →
    ∃ r, paramsLoopI bytes fuel pos fn = .ok r := by
  intro fuel
  induction fuel with
  | zero => intro pos _ _ h; omega
  | succ f ih =>
    intro pos fn h1 h2
    unfold paramsLoopI
    split
    · exact ⟨_, rfl⟩
    · rename_i hne
      obtain ⟨r, q, hr, ha, hb, hc⟩ := parseNextI_spec bytes pos h1
      rw [hr]
      simp only [Out.bind]
      have hq : pos < q := hc (by omega)
      have hrec : ∀ fn', ∃ r', paramsLoopI bytes f q fn' = .ok r' :=
        fun fn' => ih q fn' hb (by omega)
      cases r with
      | none => exact hrec fn
      | some p =>
        simp only
        split
        · cases decodeValue p with
          | some v => exact ⟨_, rfl⟩
          | none => exact hrec fn
        · split
          · cases decodeValue p with
            | some v => exact hrec (some v)
            | none => exact hrec fn
          · exact hrec fn

/-- **`ContentDisposition::try_from(&[u8])` returns for every byte string.** -/
theorem parseI_returns (bytes : Str) : (parseI bytes).Returns := by
  unfold parseI
  obtain ⟨p0, hp0, _, h0b⟩ := skipWsI_spec bytes 0 (Nat.zero_le _)
  rw [hp0]
  simp only
  split
  · trivial
  · obtain ⟨p1, hp1, h1a, h1b⟩ := scan_spec bytes (fun b => !(isWs b || b = 59)) p0 h0b
    rw [hp1]
    simp only
    obtain ⟨ty, hty, _⟩ := bytesSlice_some (s := bytes) h1a h1b
    rw [hty]
    simp only
    cases parseType ty with
    | error e => trivial
    | ok dt =>
      simp only
      obtain ⟨fns, hfns⟩ := paramsLoopI_returns bytes _ p1 none h1b (Nat.le_refl _)
      rw [hfns]
      trivial

end Ruma.ScanCd
