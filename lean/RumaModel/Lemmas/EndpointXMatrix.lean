/-
  Helper lemmas for C16, part 3: the `X-Matrix` header — what `Display` writes, the challenge
  parser sub-machine reads back. Core Lean only.
-/
import RumaModel.Model.Endpoint
namespace Ruma.Endpoint

/-- `is_ascii_string_quotable`: what may stand inside a quoted string (tab, space, visible ASCII). -/
def isQuotable (b : Nat) : Bool := b = 9 || (32 ≤ b && b ≤ 126)

theorem run_append (st : PState) (a b : Str) : st.run (a ++ b) = (st.run a).run b := by
  simp [PState.run, List.foldl_append]

theorem run_nil (st : PState) : st.run [] = st := rfl
theorem run_cons (st : PState) (b : Nat) (t : Str) : st.run (b :: t) = (st.step b).run t := rfl

theorem tchar_facts : ∀ b, b < 128 → isTchar b = true →
    b ≠ 34 ∧ b ≠ 92 ∧ b ≠ 44 ∧ b ≠ 61 ∧ b ≠ 32 ∧ isQuotable b = true := by decide

theorem isTchar_lt (b : Nat) (h : isTchar b = true) : b < 128 := by
  unfold isTchar isAlnum at h
  simp only [Bool.or_eq_true, Bool.and_eq_true, decide_eq_true_eq] at h
  omega

theorem run_scheme (sch : Str) (ps : List (Str × Str)) : ∀ (tok acc : Str), tok.all isTchar = true →
    PState.run ⟨sch, ps, .scheme acc⟩ tok = ⟨sch, ps, .scheme (acc ++ tok)⟩
  | [], acc, _ => by simp [run_nil]
  | b :: t, acc, h => by
    simp only [List.all_cons, Bool.and_eq_true] at h
    rw [run_cons]
    simp only [PState.step, h.1, if_true]
    rw [run_scheme sch ps t (acc ++ [b]) h.2]
    simp

theorem run_key (sch : Str) (ps : List (Str × Str)) : ∀ (tok acc : Str), tok.all isTchar = true →
    PState.run ⟨sch, ps, .key acc⟩ tok = ⟨sch, ps, .key (acc ++ tok)⟩
  | [], acc, _ => by simp [run_nil]
  | b :: t, acc, h => by
    simp only [List.all_cons, Bool.and_eq_true] at h
    rw [run_cons]
    simp only [PState.step, h.1, if_true]
    rw [run_key sch ps t (acc ++ [b]) h.2]
    simp

theorem run_unquoted (sch : Str) (ps : List (Str × Str)) (k : Str) : ∀ (tok acc : Str),
    tok.all isTchar = true →
    PState.run ⟨sch, ps, .unquoted k acc⟩ tok = ⟨sch, ps, .unquoted k (acc ++ tok)⟩
  | [], acc, _ => by simp [run_nil]
  | b :: t, acc, h => by
    simp only [List.all_cons, Bool.and_eq_true] at h
    rw [run_cons]
    simp only [PState.step, h.1, if_true]
    rw [run_unquoted sch ps k t (acc ++ [b]) h.2]
    simp

theorem quotable_facts : ∀ b, b < 128 → isQuotable b = true →
    (b = 34 ∨ b = 92 → isEscapable b = true) ∧ (b ≠ 34 → b ≠ 92 → isQdtext b = true) := by decide

theorem isQuotable_lt (b : Nat) (h : isQuotable b = true) : b < 128 := by
  unfold isQuotable at h
  simp only [Bool.or_eq_true, Bool.and_eq_true, decide_eq_true_eq] at h
  omega

theorem run_quoted (sch : Str) (ps : List (Str × Str)) (k : Str) : ∀ (v acc : Str),
    v.all isQuotable = true →
    PState.run ⟨sch, ps, .quoted k acc false⟩ (escapeQuoted v)
      = ⟨sch, ps, .quoted k (acc ++ escapeQuoted v) false⟩
  | [], acc, _ => by simp [escapeQuoted, run_nil]
  | b :: t, acc, h => by
    simp only [List.all_cons, Bool.and_eq_true] at h
    have hf := quotable_facts b (isQuotable_lt b h.1) h.1
    unfold escapeQuoted
    split
    · rename_i hb
      simp only [Bool.or_eq_true, decide_eq_true_eq] at hb
      have hesc := hf.1 (by omega)
      rw [run_cons, run_cons]
      simp only [PState.step, Bool.false_eq_true, if_false, if_true, hesc]
      rw [run_quoted sch ps k t _ h.2]
      simp
    · rename_i hb
      simp only [Bool.or_eq_true, decide_eq_true_eq, not_or] at hb
      have hqd := hf.2 hb.2 hb.1
      rw [run_cons]
      simp only [PState.step, Bool.false_eq_true, if_false, hb.1, hb.2, hqd, if_true]
      rw [run_quoted sch ps k t _ h.2]
      simp

theorem unescape_escape : ∀ (v : Str), unescape (escapeQuoted v) = v
  | [] => rfl
  | b :: t => by
    unfold escapeQuoted
    split
    · simp [unescape, unescape_escape t]
    · rename_i hb
      simp only [Bool.or_eq_true, decide_eq_true_eq, not_or] at hb
      have : unescape (b :: escapeQuoted t) = b :: unescape (escapeQuoted t) := by
        rw [unescape.eq_def]
        split
        · rename_i heq; cases heq
        · rename_i c t' heq
          simp only [List.cons.injEq] at heq
          exact absurd heq.1 hb.1
        · rename_i b' t' _ heq
          cases heq; rfl
      rw [this, unescape_escape t]

theorem unescape_token : ∀ (v : Str), v.all isTchar = true → unescape v = v
  | [], _ => rfl
  | b :: t, h => by
    simp only [List.all_cons, Bool.and_eq_true] at h
    have hb := (tchar_facts b (isTchar_lt b h.1) h.1).2.1
    have : unescape (b :: t) = b :: unescape t := by
      rw [unescape.eq_def]
      split
      · rename_i heq; cases heq
      · rename_i c t' heq
        simp only [List.cons.injEq] at heq
        exact absurd heq.1 hb
      · rename_i b' t' _ heq
        cases heq; rfl
    rw [this, unescape_token t h.2]

/-- The raw (still escaped) parameter value the parser records for a formatted field. -/
def rawOf (v : Str) : Str := if v ≠ [] && v.all isTchar then v else escapeQuoted v

theorem unescape_rawOf (v : Str) : unescape (rawOf v) = v := by
  unfold rawOf
  split
  · rename_i h
    simp only [Bool.and_eq_true] at h
    exact unescape_token v h.2
  · exact unescape_escape v

/-- Reading one formatted value followed by a comma. -/
theorem run_value_comma (sch : Str) (ps : List (Str × Str)) (k v : Str)
    (hv : v.all isQuotable = true) :
    PState.run ⟨sch, ps, .postEq k⟩ (quoteIfRequired v ++ [44])
      = ⟨sch, ps ++ [(k, rawOf v)], .key []⟩ := by
  unfold quoteIfRequired rawOf
  split
  · rename_i h
    simp only [Bool.and_eq_true, decide_eq_true_eq] at h
    cases v with
    | nil => exact absurd rfl h.1
    | cons b t =>
      have hall := h.2
      simp only [List.all_cons, Bool.and_eq_true] at hall
      have hb := tchar_facts b (isTchar_lt b hall.1) hall.1
      rw [List.cons_append, run_cons]
      simp only [PState.step, hb.1, if_false, hall.1, if_true]
      rw [run_append, run_unquoted sch ps k t [b] hall.2, run_cons, run_nil]
      simp [PState.step, (by decide : isTchar 44 = false)]
  · simp only [List.cons_append, List.append_assoc]
    rw [run_cons]
    simp only [PState.step, if_true]
    rw [run_append, run_quoted sch ps k v [] hv]
    simp [run_cons, run_nil, PState.step]

/-- Reading the last formatted value, then the end of input. -/
theorem run_value_end (sch : Str) (ps : List (Str × Str)) (k v : Str)
    (hv : v.all isQuotable = true) :
    (PState.run ⟨sch, ps, .postEq k⟩ (quoteIfRequired v)).finish
      = some (sch, ps ++ [(k, rawOf v)]) := by
  unfold quoteIfRequired rawOf
  split
  · rename_i h
    simp only [Bool.and_eq_true, decide_eq_true_eq] at h
    cases v with
    | nil => exact absurd rfl h.1
    | cons b t =>
      have hall := h.2
      simp only [List.all_cons, Bool.and_eq_true] at hall
      have hb := tchar_facts b (isTchar_lt b hall.1) hall.1
      rw [run_cons]
      simp only [PState.step, hb.1, if_false, hall.1, if_true]
      rw [run_unquoted sch ps k t [b] hall.2]
      simp [PState.finish]
  · simp only [List.cons_append]
    rw [run_cons]
    simp only [PState.step, if_true]
    rw [run_append, run_quoted sch ps k v [] hv]
    simp [run_cons, run_nil, PState.step, PState.finish]

/-- Reading `name=`. -/
theorem run_name_eq (sch : Str) (ps : List (Str × Str)) (name : Str) (hn : name.all isTchar = true)
    (hne : name ≠ []) :
    PState.run ⟨sch, ps, .key []⟩ (name ++ [61]) = ⟨sch, ps, .postEq name⟩ := by
  rw [run_append, run_key sch ps name [] hn, run_cons, run_nil]
  simp [PState.step, hne, (by decide : isTchar 61 = false)]


def nScheme : Str := [88, 45, 77, 97, 116, 114, 105, 120]          -- "X-Matrix"
def nDestination : Str := [100, 101, 115, 116, 105, 110, 97, 116, 105, 111, 110]
def nKey : Str := [107, 101, 121]
def nOrigin : Str := [111, 114, 105, 103, 105, 110]
def nSig : Str := [115, 105, 103]

/-- One `name=value,` element read from the start-of-parameter state. -/
theorem run_param_comma (sch : Str) (ps : List (Str × Str)) (name v rest : Str)
    (hn : name.all isTchar = true) (hne : name ≠ []) (hv : v.all isQuotable = true) :
    PState.run ⟨sch, ps, .key []⟩ (name ++ [61] ++ (quoteIfRequired v ++ [44]) ++ rest)
      = PState.run ⟨sch, ps ++ [(name, rawOf v)], .key []⟩ rest := by
  rw [run_append, run_append, run_name_eq sch ps name hn hne, run_value_comma sch ps name v hv]

theorem run_param_end (sch : Str) (ps : List (Str × Str)) (name v : Str)
    (hn : name.all isTchar = true) (hne : name ≠ []) (hv : v.all isQuotable = true) :
    (PState.run ⟨sch, ps, .key []⟩ (name ++ [61] ++ quoteIfRequired v)).finish
      = some (sch, ps ++ [(name, rawOf v)]) := by
  rw [run_append, run_name_eq sch ps name hn hne, run_value_end sch ps name v hv]

/-- `xmatrixFormat` re-associated element by element. -/
theorem xmatrixFormat_eq (x : XMatrix) :
    xmatrixFormat x = nScheme ++ [32] ++
      ((match x.destination with
        | some d => nDestination ++ [61] ++ (quoteIfRequired d ++ [44])
        | none => []) ++
       (nKey ++ [61] ++ (quoteIfRequired x.key ++ [44]) ++
        (nOrigin ++ [61] ++ (quoteIfRequired x.origin ++ [44]) ++
         (nSig ++ [61] ++ quoteIfRequired x.sig)))) := by
  have e1 : bs "X-Matrix " = nScheme ++ [32] := by decide
  have e2 : bs "destination=" = nDestination ++ [61] := by decide
  have e3 : bs "key=" = nKey ++ [61] := by decide
  have e4 : bs ",origin=" = [44] ++ (nOrigin ++ [61]) := by decide
  have e5 : bs ",sig=" = [44] ++ (nSig ++ [61]) := by decide
  unfold xmatrixFormat
  rw [e1, e2, e3, e4, e5]
  cases x.destination <;> simp [List.append_assoc]

theorem parseChallenge_format (x : XMatrix) (ho : x.origin.all isQuotable = true)
    (hd : ∀ d, x.destination = some d → d.all isQuotable = true)
    (hk : x.key.all isQuotable = true) (hs : x.sig.all isQuotable = true) :
    parseChallenge (xmatrixFormat x) = some (nScheme,
      (match x.destination with | some d => [(nDestination, rawOf d)] | none => []) ++
      [(nKey, rawOf x.key), (nOrigin, rawOf x.origin), (nSig, rawOf x.sig)]) := by
  unfold parseChallenge
  have hsch : PState.run ⟨[], [], .scheme []⟩ (nScheme ++ [32]) = ⟨nScheme, [], .key []⟩ := by
    decide
  rw [xmatrixFormat_eq, run_append _ (nScheme ++ [32]), hsch]
  cases hdest : x.destination with
  | none =>
    simp only [List.nil_append]
    rw [run_param_comma nScheme [] nKey x.key _ (by decide) (by decide) hk,
      run_param_comma nScheme _ nOrigin x.origin _ (by decide) (by decide) ho,
      run_param_end nScheme _ nSig x.sig (by decide) (by decide) hs]
    simp
  | some d =>
    simp only
    rw [run_param_comma nScheme [] nDestination d _ (by decide) (by decide) (hd d hdest),
      run_param_comma nScheme _ nKey x.key _ (by decide) (by decide) hk,
      run_param_comma nScheme _ nOrigin x.origin _ (by decide) (by decide) ho,
      run_param_end nScheme _ nSig x.sig (by decide) (by decide) hs]
    simp

theorem xmatrix_roundtrip' (x : XMatrix) (ho : x.origin.all isQuotable = true)
    (hd : ∀ d, x.destination = some d → d.all isQuotable = true)
    (hk : x.key.all isQuotable = true) (hs : x.sig.all isQuotable = true) :
    xmatrixParse (xmatrixFormat x) = some x := by
  unfold xmatrixParse
  rw [parseChallenge_format x ho hd hk hs]
  have hsch : eqIgnoreCase nScheme (bs "x-matrix") = true := by decide
  simp only [hsch, Bool.not_true, Bool.false_eq_true, if_false]
  obtain ⟨o, d, k, s⟩ := x
  cases d with
  | none =>
    have : collectFields ([] ++ [(nKey, rawOf k), (nOrigin, rawOf o), (nSig, rawOf s)]) {}
        = some ⟨some (unescape (rawOf o)), none, some (unescape (rawOf k)), some (unescape (rawOf s))⟩ := by
      rfl
    simp only [this, unescape_rawOf]
  | some d =>
    have : collectFields ([(nDestination, rawOf d)] ++ [(nKey, rawOf k), (nOrigin, rawOf o), (nSig, rawOf s)]) {}
        = some ⟨some (unescape (rawOf o)), some (unescape (rawOf d)), some (unescape (rawOf k)),
            some (unescape (rawOf s))⟩ := by
      rfl
    simp only [this, unescape_rawOf]

end Ruma.Endpoint
