/-
  The hypothesis `AuthLocal` of the C07 refinement theorems holds for the parameters `resolve` is
  actually called with (`realParams`, the C08/C09 model of `event_auth.rs`): C09's non-interference.
-/
import RumaModel.Lemmas.StateResSpec
import RumaModel.Lemmas.AuthRestrict
namespace Ruma.StateRes
open Ruma

theorem authLocal_realParams (r : AuthRules) (hc : r.Consistent) : AuthLocal (realParams r) := by
  intro ev tys f f' ht hagree
  simp only [realParams] at ht ⊢
  cases hS : Auth.authTypesForEvent r ev with
  | error e => rw [hS] at ht; simp [Except.toOption] at ht
  | ok S =>
    rw [hS] at ht
    simp only [Except.toOption, Option.some.injEq] at ht
    subst ht
    rw [Auth.authCheck_restrict r hc ev f S hS, Auth.authCheck_restrict r hc ev f' S hS,
      Auth.restrict_congr (fun k hk => hagree k.1 k.2 hk)]

end Ruma.StateRes
