/-
  C03 helper lemmas: server selection on the redacted copy of an event that is not an invite
  created from a third-party invite succeeds whenever it succeeds on the original.
-/
import RumaModel.Lemmas.EventSignSize
namespace Ruma.EventSign
open Ruma Ruma.Sign Ruma.Redact Ruma.Spec.EventSign

/-- A key the retain function always keeps unchanged has the same value before and after. -/
theorem applySome_get_kept (f : RetainFn) (k : Str) (hk : ∀ v, f k v = .ok (.some v))
    (c c' : Obj) (h : applySome f c = .ok c') : Obj.get c' k = Obj.get c k := by
  induction c generalizing c' with
  | nil => simp only [applySome] at h; cases h; rfl
  | cons e t ih =>
    obtain ⟨a, b⟩ := e
    simp only [applySome] at h
    cases hfk : f a b with
    | error err => rw [hfk] at h; cases h
    | ok ov =>
      rw [hfk] at h
      cases ov with
      | none =>
        simp only at h
        have hne : a ≠ k := by intro heq; subst heq; rw [hk b] at hfk; cases hfk
        simp only [Obj.get, hne, if_false]
        exact ih c' h
      | some v' =>
        simp only at h
        cases ht : applySome f t with
        | error err => rw [ht] at h; cases h
        | ok t' =>
          rw [ht] at h; cases h
          by_cases hak : a = k
          · subst hak
            rw [hk b] at hfk; cases hfk
            simp [Obj.get]
          · simp only [Obj.get, hak, if_false]
            exact ih t' ht

/-- A key absent before is absent after. -/
theorem applySome_get_none (f : RetainFn) (k : Str) (c c' : Obj) (h : applySome f c = .ok c')
    (hn : Obj.get c k = none) : Obj.get c' k = none := by
  induction c generalizing c' with
  | nil => simp only [applySome] at h; cases h; rfl
  | cons e t ih =>
    obtain ⟨a, b⟩ := e
    simp only [Obj.get] at hn
    by_cases hak : a = k
    · simp [hak] at hn
    · simp only [hak, if_false] at hn
      simp only [applySome] at h
      cases hfk : f a b with
      | error err => rw [hfk] at h; cases h
      | ok ov =>
        rw [hfk] at h
        cases ov with
        | none => exact ih c' h hn
        | some v' =>
          simp only at h
          cases ht : applySome f t with
          | error err => rw [ht] at h; cases h
          | ok t' =>
            rw [ht] at h; cases h
            simp only [Obj.get, hak, if_false]
            exact ih t' ht hn

theorem retained_member (r : Rules) : retainedContentKeys (bs "m.room.member") r = .some (memberKey r) := by
  simp [retainedContentKeys]

/-- The content of the redacted copy, when the original has an object `content`. -/
theorem redact_content (rr : Rules) (o red : Obj) (ty : Str) (c : Obj)
    (h : redact rr o none = .ok red) (hty : Obj.get o (bs "type") = some (.str ty))
    (hc : Obj.get o (bs "content") = some (.obj c)) :
    ∃ c', redactContent rr ty c = .ok c' ∧ Obj.get red (bs "content") = some (.obj c') :=
  Props.C04.entry_points_agree rr o red ty c h hty hc

/-- The redacted copy has a `content` only if the original has one. -/
theorem redact_content_none (rr : Rules) (o red : Obj) (h : redact rr o none = .ok red)
    (hc : ∀ c, Obj.get o (bs "content") ≠ some (.obj c)) :
    ∀ c', Obj.get red (bs "content") ≠ some (.obj c') := by
  obtain ⟨ty, _, hcase⟩ := Props.C04.redact_ok_shape _ _ _ h
  rcases hcase with ⟨hnone, rfl⟩ | ⟨c, c', hc0, _, rfl⟩
  · intro c' hc'
    rw [get_filter] at hc'
    split at hc'
    · rw [hnone] at hc'; cases hc'
    · cases hc'
  · exact absurd hc0 (hc c)

/-- The copy of an event that is not an invite via a third-party invite is not one either. -/
theorem isInvite_redacted (rr : Rules) (o red : Obj) (h : redact rr o none = .ok red)
    (hi : isInviteViaThirdPartyId o = .ok false) : isInviteViaThirdPartyId red = .ok false := by
  obtain ⟨hgt, _, _, _, _⟩ := serversToCheck_redact_fields rr o red h
  unfold isInviteViaThirdPartyId at hi ⊢
  rw [hgt]
  cases hty : Obj.get o (bs "type") with
  | none => rw [hty] at hi; cases hi
  | some tv =>
    rw [hty] at hi
    cases tv with
    | str ty =>
      simp only at hi ⊢
      by_cases hm : ty = bs "m.room.member"
      · subst hm
        simp only [ne_eq, not_true_eq_false, if_false] at hi ⊢
        cases hc : Obj.get o (bs "content") with
        | none => rw [hc] at hi; cases hi
        | some cv =>
          rw [hc] at hi
          cases cv with
          | obj c =>
            simp only at hi
            obtain ⟨c', hrc, hgc⟩ := redact_content rr o red _ c h hty hc
            rw [hgc]
            simp only
            unfold redactContent at hrc
            rw [retained_member] at hrc
            simp only [Retained.apply] at hrc
            have hmem : Obj.get c' (bs "membership") = Obj.get c (bs "membership") :=
              applySome_get_kept (memberKey rr) _ (fun v => by simp [memberKey]) c c' hrc
            rw [hmem]
            cases hmv : Obj.get c (bs "membership") with
            | none => rw [hmv] at hi; cases hi
            | some mv =>
              rw [hmv] at hi
              cases mv with
              | str m =>
                simp only at hi ⊢
                by_cases hinv : m = bs "invite"
                · simp only [hinv, not_true_eq_false, if_false] at hi ⊢
                  cases htp : Obj.get c (bs "third_party_invite") with
                  | none =>
                    rw [applySome_get_none (memberKey rr) _ c c' hrc htp]
                  | some tv =>
                    rw [htp] at hi
                    cases tv <;> cases hi
                · simp only [hinv, not_false_eq_true, if_true]
              | _ => cases hi
          | _ => cases hi
      · simp only [ne_eq, hm, not_false_eq_true, if_true]
    | _ => cases hi

/-- `authorisedField` of the copy is absent or the original's. -/
theorem authorisedField_redacted (rr : Rules) (o red : Obj) (h : redact rr o none = .ok red) :
    authorisedField red = none ∨ authorisedField red = authorisedField o := by
  cases ha : authorisedField red with
  | none => exact Or.inl rfl
  | some a =>
    refine Or.inr ?_
    obtain ⟨c', hc', hac'⟩ := (authorisedField_some red a).mp ha
    obtain ⟨ty, hty, _⟩ := Props.C04.redact_ok_shape _ _ _ h
    cases hc : Obj.get o (bs "content") with
    | none => exact absurd hc' (redact_content_none rr o red h (by rw [hc]; simp) c')
    | some cv =>
      cases cv with
      | obj c =>
        obtain ⟨c'', hrc, hgc⟩ := redact_content rr o red ty c h hty hc
        rw [hc'] at hgc; injection hgc with hgc; injection hgc with hgc; subst hgc
        have := content_get_of_redacted rr ty c c' hrc _ (by decide) a hac'
        exact ((authorisedField_some o a).mpr ⟨c, hc, this⟩).symm
      | _ => exact absurd hc' (redact_content_none rr o red h (by rw [hc]; simp) c')

/-- **Server selection succeeds on the copy** of an event that is not an invite created from a
third-party invite whenever it succeeds on the event. -/
theorem serversToCheck_redacted_ok (x : Ids.Ext) (rr : Rules) (sr : SigRules) (o red : Obj) (l : List Str)
    (h : redact rr o none = .ok red) (h3 : isThirdPartyInvite o = false)
    (hl : serversToCheck x o sr = .ok l) : ∃ l', serversToCheck x red sr = .ok l' := by
  obtain ⟨_, hgs, hge, _, _⟩ := serversToCheck_redact_fields rr o red h
  unfold serversToCheck at hl ⊢
  cases h1 : senderStep x o [] with
  | error err => rw [h1] at hl; cases hl
  | ok s1 =>
    rw [h1] at hl
    simp only at hl
    -- the sender step is the same computation
    have hi : isInviteViaThirdPartyId o = .ok false := by
      unfold senderStep at h1
      cases hiv : isInviteViaThirdPartyId o with
      | error err => rw [hiv] at h1; cases h1
      | ok b => rw [← isInvite_spec o b hiv, h3]
    have h1' : senderStep x red [] = .ok s1 := by
      unfold senderStep at h1 ⊢
      rw [isInvite_redacted rr o red h hi, hgs]
      rw [hi] at h1
      exact h1
    rw [h1']
    simp only
    cases h2 : eventIdStep x o sr s1 with
    | error err => rw [h2] at hl; cases hl
    | ok s2 =>
      rw [h2] at hl
      simp only at hl
      have h2' : eventIdStep x red sr s1 = .ok s2 := by
        unfold eventIdStep at h2 ⊢
        rw [hge]; exact h2
      rw [h2']
      simp only
      unfold authorisedStep at hl ⊢
      cases hc : sr.checkJoinAuthorised with
      | false => simp
      | true =>
        rw [hc] at hl
        simp only [if_true] at hl ⊢
        rcases authorisedField_redacted rr o red h with ha | ha
        · rw [ha]; exact ⟨_, rfl⟩
        · rw [ha]; exact ⟨_, hl⟩

end Ruma.EventSign
