/-
  Non-interference of `authCheck`: restricting the state to the pairs selected by
  `authTypesForEvent` does not change the decision.
-/
import RumaModel.Lemmas.Auth
import RumaModel.Model.AuthReads
set_option linter.unusedSimpArgs false
namespace Ruma.Auth
open Ruma Ruma.Ident

/-- The state with every entry outside `S` removed. -/
def restrict (f : Fetch) (S : List (Str × Str)) : Fetch :=
  fun t k => if (t, k) ∈ S then f t k else none

theorem restrict_of_mem {f : Fetch} {S : List (Str × Str)} {t k : Str} (h : (t, k) ∈ S) :
    restrict f S t k = f t k := by
  simp [restrict, h]

theorem mem_pushNew {l : List (Str × Str)} {x k : Str × Str} : k ∈ pushNew l x ↔ k ∈ l ∨ k = x := by
  unfold pushNew
  by_cases h : l.contains x = true
  · simp only [h, if_true]
    constructor
    · exact Or.inl
    · rintro (h' | h')
      · exact h'
      · subst h'; simpa using h
  · have h' : x ∉ l := by simpa using h
    simp only [h, if_false, List.mem_append, List.mem_singleton, Bool.false_eq_true]

theorem fetchCreate_restrict {f : Fetch} {S} (h : (tCreate, []) ∈ S) : fetchCreate (restrict f S) = fetchCreate f := by
  simp [fetchCreate, restrict_of_mem h]

theorem userMembership_restrict {f : Fetch} {S} {u : Str} (h : (tMember, u) ∈ S) :
    userMembership (restrict f S) u = userMembership f u := by
  simp [userMembership, restrict_of_mem h]

theorem fetchPowerLevels_restrict {f : Fetch} {S} (h : (tPowerLevels, []) ∈ S) :
    fetchPowerLevels (restrict f S) = fetchPowerLevels f := by
  simp [fetchPowerLevels, restrict_of_mem h]

theorem joinRule_restrict {f : Fetch} {S} (h : (tJoinRules, []) ∈ S) : joinRule (restrict f S) = joinRule f := by
  simp [joinRule, restrict_of_mem h]

theorem fetchThirdPartyInvite_restrict {f : Fetch} {S} {tok : Str} (h : (tThirdPartyInvite, tok) ∈ S) :
    fetchThirdPartyInvite (restrict f S) tok = fetchThirdPartyInvite f tok := by
  simp [fetchThirdPartyInvite, restrict_of_mem h]

theorem checkMemberKnock_restrict {rules ev target} {f : Fetch} {S}
    (h1 : (tJoinRules, []) ∈ S) (h2 : (tMember, ev.sender) ∈ S) :
    checkMemberKnock rules ev target (restrict f S) = checkMemberKnock rules ev target f := by
  simp [checkMemberKnock, joinRule_restrict h1, userMembership_restrict h2]

theorem checkMemberBan_restrict {rules ev target create} {f : Fetch} {S}
    (h1 : (tMember, ev.sender) ∈ S) (h2 : (tPowerLevels, []) ∈ S) :
    checkMemberBan rules ev target create (restrict f S) = checkMemberBan rules ev target create f := by
  simp [checkMemberBan, userMembership_restrict h1, fetchPowerLevels_restrict h2]

theorem checkMemberLeave_restrict {rules ev target create} {f : Fetch} {S}
    (h1 : (tMember, ev.sender) ∈ S) (h2 : (tPowerLevels, []) ∈ S) (h3 : (tMember, target) ∈ S) :
    checkMemberLeave rules ev target create (restrict f S) = checkMemberLeave rules ev target create f := by
  simp [checkMemberLeave, userMembership_restrict h1, fetchPowerLevels_restrict h2, userMembership_restrict h3]

theorem checkThirdPartyInvite_restrict {ev signed target} {f : Fetch} {S}
    (h1 : (tMember, target) ∈ S) (h2 : ∀ tok, tpiToken signed = .ok tok → (tThirdPartyInvite, tok) ∈ S) :
    checkThirdPartyInvite ev signed target (restrict f S) = checkThirdPartyInvite ev signed target f := by
  unfold checkThirdPartyInvite
  simp only [userMembership_restrict h1]
  cases htok : tpiToken signed with
  | error e => simp [bind, Except.bind]
  | ok tok => simp only [bind, Except.bind, fetchThirdPartyInvite_restrict (h2 tok htok)]

theorem checkMemberInvite_restrict {rules ev target create} {f : Fetch} {S}
    (h1 : (tMember, ev.sender) ∈ S) (h2 : (tPowerLevels, []) ∈ S) (h3 : (tMember, target) ∈ S)
    (h4 : ∀ signed tok, contentThirdPartyInvite ev.content = .ok (some signed) → tpiToken signed = .ok tok →
      (tThirdPartyInvite, tok) ∈ S) :
    checkMemberInvite rules ev target create (restrict f S) = checkMemberInvite rules ev target create f := by
  unfold checkMemberInvite
  cases htpi : contentThirdPartyInvite ev.content with
  | error e => rfl
  | ok t =>
    cases t with
    | none => simp [bind, Except.bind, userMembership_restrict h1, fetchPowerLevels_restrict h2, userMembership_restrict h3]
    | some signed =>
      simp only [bind, Except.bind]
      exact checkThirdPartyInvite_restrict h3 (fun tok ht => h4 signed tok htpi ht)

theorem checkMemberJoin_restrict {rules ev target create} {f : Fetch} {S} (hc : rules.Consistent)
    (h1 : (tMember, target) ∈ S) (h2 : (tJoinRules, []) ∈ S) (h3 : (tPowerLevels, []) ∈ S)
    (h4 : rules.restrictedJoinRule = true → ∀ u, contentJoinAuthorised ev.content = .ok (some u) → (tMember, u) ∈ S) :
    checkMemberJoin rules ev target create (restrict f S) = checkMemberJoin rules ev target create f := by
  unfold checkMemberJoin
  simp only [userMembership_restrict h1, joinRule_restrict h2, fetchPowerLevels_restrict h3]
  by_cases hr : rules.restrictedJoinRule = true
  · cases hvia : contentJoinAuthorised ev.content with
    | error e => simp [bind, Except.bind]
    | ok via =>
      cases via with
      | none => simp [bind, Except.bind]
      | some u => simp [bind, Except.bind, userMembership_restrict (h4 hr u hvia)]
  · have hk : rules.knockRestrictedJoinRule = false := by
      cases hk : rules.knockRestrictedJoinRule
      · rfl
      · exact absurd (hc hk) hr
    have hr' : rules.restrictedJoinRule = false := by simpa using hr
    simp [hr', hk]

theorem tpiAuthType_inv {c : Obj} {l l' : List (Str × Str)} (h : tpiAuthType c l = .ok l') :
    (∀ k, k ∈ l → k ∈ l') ∧
    ∀ signed tok, contentThirdPartyInvite c = .ok (some signed) → tpiToken signed = .ok tok →
      (tThirdPartyInvite, tok) ∈ l' := by
  unfold tpiAuthType at h
  simp only [bind_eq_ok] at h
  obtain ⟨tpi, htpi, h⟩ := h
  cases tpi with
  | none =>
    simp at h; subst h
    exact ⟨fun _ hk => hk, fun signed tok hs _ => by rw [htpi] at hs; simp at hs⟩
  | some signed =>
    simp only [bind_eq_ok] at h
    obtain ⟨token, htok, h⟩ := h
    simp at h; subst h
    refine ⟨fun k hk => mem_pushNew.mpr (Or.inl hk), fun signed' tok hs ht => ?_⟩
    rw [htpi] at hs
    have : signed' = signed := by simpa using hs.symm
    subst this
    rw [htok] at ht
    have : tok = token := by simpa using ht.symm
    subst this
    exact mem_pushNew.mpr (Or.inr rfl)

theorem authorisedAuthType_inv {c : Obj} {l l' : List (Str × Str)} (h : authorisedAuthType c l = .ok l') :
    (∀ k, k ∈ l → k ∈ l') ∧
    ∀ u, contentJoinAuthorised c = .ok (some u) → (tMember, u) ∈ l' := by
  unfold authorisedAuthType at h
  simp only [bind_eq_ok] at h
  obtain ⟨via, hvia, h⟩ := h
  cases via with
  | none =>
    simp at h; subst h
    exact ⟨fun _ hk => hk, fun u hu => by rw [hvia] at hu; simp at hu⟩
  | some u =>
    simp at h; subst h
    refine ⟨fun k hk => mem_pushNew.mpr (Or.inl hk), fun u' hu => ?_⟩
    rw [hvia] at hu
    have : u' = u := by simpa using hu.symm
    subst this
    exact mem_pushNew.mpr (Or.inr rfl)

/-- What a successful selection for an `m.room.member` event contains. -/
theorem authTypes_member_inv {rules : AuthRules} {ev : Event} {S : List (Str × Str)}
    (hty : ev.type = tMember) (hS : authTypesForEvent rules ev = .ok S) :
    ∃ sk m, ev.stateKey = some sk ∧ contentMembership ev.content = .ok m ∧
      (tPowerLevels, []) ∈ S ∧ (tMember, ev.sender) ∈ S ∧ (tCreate, []) ∈ S ∧ (tMember, sk) ∈ S ∧
      ((m = mJoin ∨ m = mInvite ∨ m = mKnock) → (tJoinRules, []) ∈ S) ∧
      (m = mInvite → ∀ signed tok, contentThirdPartyInvite ev.content = .ok (some signed) →
        tpiToken signed = .ok tok → (tThirdPartyInvite, tok) ∈ S) ∧
      (m = mJoin → rules.restrictedJoinRule = true → ∀ u, contentJoinAuthorised ev.content = .ok (some u) →
        (tMember, u) ∈ S) := by
  have e1 : (tMember == tCreate) = false := by decide
  simp only [authTypesForEvent, hty, e1, Bool.false_eq_true, if_false, beq_self_eq_true, if_true] at hS
  cases hsk : ev.stateKey with
  | none => simp [hsk] at hS
  | some sk =>
    simp only [hsk, bind_eq_ok] at hS
    obtain ⟨m, hm, l3, h3, h4⟩ := hS
    refine ⟨sk, m, rfl, hm, ?_⟩
    generalize hl1 : pushNew [(tPowerLevels, []), (tMember, ev.sender), (tCreate, [])] (tMember, sk) = l1 at h3
    have b1 : (tPowerLevels, []) ∈ l1 := by rw [← hl1, mem_pushNew]; simp
    have b2 : (tMember, ev.sender) ∈ l1 := by rw [← hl1, mem_pushNew]; simp
    have b3 : (tCreate, []) ∈ l1 := by rw [← hl1, mem_pushNew]; simp
    have b4 : (tMember, sk) ∈ l1 := by rw [← hl1, mem_pushNew]; simp
    generalize hl2 : (if (m == mJoin || m == mInvite || m == mKnock) = true then pushNew l1 (tJoinRules, []) else l1) = l2 at h3
    have sub12 : ∀ k, k ∈ l1 → k ∈ l2 := by
      intro k hk; rw [← hl2]; split
      · exact mem_pushNew.mpr (Or.inl hk)
      · exact hk
    have jr2 : (m = mJoin ∨ m = mInvite ∨ m = mKnock) → (tJoinRules, []) ∈ l2 := by
      intro hmm
      have : (m == mJoin || m == mInvite || m == mKnock) = true := by
        rcases hmm with h | h | h <;> simp [h]
      rw [← hl2, if_pos this]; exact mem_pushNew.mpr (Or.inr rfl)
    have sub23 : ∀ k, k ∈ l2 → k ∈ l3 := by
      intro k hk
      split at h3
      · exact (tpiAuthType_inv h3).1 k hk
      · simp at h3; subst h3; exact hk
    have tp3 : m = mInvite → ∀ signed tok, contentThirdPartyInvite ev.content = .ok (some signed) →
        tpiToken signed = .ok tok → (tThirdPartyInvite, tok) ∈ l3 := by
      intro hmi
      have : (m == mInvite) = true := by simp [hmi]
      rw [if_pos this] at h3
      exact (tpiAuthType_inv h3).2
    have sub3S : ∀ k, k ∈ l3 → k ∈ S := by
      intro k hk
      split at h4
      · exact (authorisedAuthType_inv h4).1 k hk
      · simp at h4; subst h4; exact hk
    have auS : m = mJoin → rules.restrictedJoinRule = true → ∀ u,
        contentJoinAuthorised ev.content = .ok (some u) → (tMember, u) ∈ S := by
      intro hmj hr
      have : (m == mJoin && rules.restrictedJoinRule) = true := by simp [hmj, hr]
      rw [if_pos this] at h4
      exact (authorisedAuthType_inv h4).2
    refine ⟨sub3S _ (sub23 _ (sub12 _ b1)), sub3S _ (sub23 _ (sub12 _ b2)), sub3S _ (sub23 _ (sub12 _ b3)),
      sub3S _ (sub23 _ (sub12 _ b4)), fun hmm => sub3S _ (sub23 _ (jr2 hmm)), ?_, auS⟩
    intro hmi signed tok hs ht
    exact sub3S _ (tp3 hmi signed tok hs ht)

/-- The selection of a non-create, non-member event is the base triple. -/
theorem authTypes_other_inv {rules : AuthRules} {ev : Event} {S : List (Str × Str)}
    (h1 : ev.type ≠ tCreate) (h2 : ev.type ≠ tMember) (hS : authTypesForEvent rules ev = .ok S) :
    (tPowerLevels, []) ∈ S ∧ (tMember, ev.sender) ∈ S ∧ (tCreate, []) ∈ S := by
  have e1 : (ev.type == tCreate) = false := by simpa using h1
  have e2 : (ev.type == tMember) = false := by simpa using h2
  simp [authTypesForEvent, e1, e2] at hS
  subst hS
  simp

/-- **Non-interference, `Result` form.** -/
theorem authCheckR_restrict (rules : AuthRules) (hc : rules.Consistent) (ev : Event) (f : Fetch)
    (S : List (Str × Str)) (hS : authTypesForEvent rules ev = .ok S) :
    authCheckR rules ev (restrict f S) = authCheckR rules ev f := by
  by_cases hcr : ev.type = tCreate
  · simp [authCheckR, hcr]
  · have e1 : (ev.type == tCreate) = false := by simpa using hcr
    by_cases hm : ev.type = tMember
    · obtain ⟨sk, m, hsk, hmem, b1, b2, b3, b4, hjr, htp, hau⟩ := authTypes_member_inv hm hS
      have e2 : (tMember == tCreate) = false := by decide
      have e3 : (tMember == tAliases) = false := by decide
      simp only [authCheckR, hm, e2, e3, Bool.and_false, Bool.false_eq_true, if_false, beq_self_eq_true, if_true,
        fetchCreate_restrict b3]
      -- the member check itself
      have key : ∀ create, checkRoomMember rules ev create (restrict f S) = checkRoomMember rules ev create f := by
        intro create
        rw [checkRoomMember_eq hsk hmem, checkRoomMember_eq hsk hmem]
        by_cases c1 : m = mJoin
        · subst c1
          simp only [beq_self_eq_true, if_true]
          rw [checkMemberJoin_restrict hc b4 (hjr (Or.inl rfl)) b1 (hau rfl)]
        · have d1 : (m == mJoin) = false := by simpa using c1
          by_cases c2 : m = mInvite
          · subst c2
            simp only [d1, Bool.false_eq_true, if_false, beq_self_eq_true, if_true]
            rw [checkMemberInvite_restrict b2 b1 b4 (htp rfl)]
          · have d2 : (m == mInvite) = false := by simpa using c2
            by_cases c3 : m = mLeave
            · subst c3
              simp only [d1, d2, Bool.false_eq_true, if_false, beq_self_eq_true, if_true]
              rw [checkMemberLeave_restrict b2 b1 b4]
            · have d3 : (m == mLeave) = false := by simpa using c3
              by_cases c4 : m = mBan
              · subst c4
                simp only [d1, d2, d3, Bool.false_eq_true, if_false, beq_self_eq_true, if_true]
                rw [checkMemberBan_restrict b2 b1]
              · have d4 : (m == mBan) = false := by simpa using c4
                by_cases c5 : m = mKnock
                · subst c5
                  simp only [d1, d2, d3, d4, Bool.false_eq_true, if_false]
                  rw [checkMemberKnock_restrict (hjr (Or.inr (Or.inr rfl))) b2]
                · have d5 : (m == mKnock) = false := by simpa using c5
                  simp [d1, d2, d3, d4, d5]
      simp only [key]
    · obtain ⟨b1, b2, b3⟩ := authTypes_other_inv hcr hm hS
      simp only [authCheckR, e1, Bool.false_eq_true, if_false, fetchCreate_restrict b3, userMembership_restrict b2,
        fetchPowerLevels_restrict b1]
      have e2 : (ev.type == tMember) = false := by simpa using hm
      simp only [e2, Bool.false_eq_true, if_false, checkRoomMember]

/-- **Authorization reads nothing but the selected auth events.** -/
theorem authCheck_restrict (rules : AuthRules) (hc : rules.Consistent) (ev : Event) (f : Fetch)
    (S : List (Str × Str)) (hS : authTypesForEvent rules ev = .ok S) :
    authCheck rules ev f = authCheck rules ev (restrict f S) := by
  unfold authCheck
  rw [authCheckR_restrict rules hc ev f S hS]

theorem restrict_congr {f g : Fetch} {S : List (Str × Str)} (h : ∀ k ∈ S, f k.1 k.2 = g k.1 k.2) :
    restrict f S = restrict g S := by
  funext t k
  unfold restrict
  by_cases hk : (t, k) ∈ S
  · simp [hk, h (t, k) hk]
  · simp [hk]

/-! ## The reads of the model -/

theorem thenReads_subset {α} {r : Res α} {k : α → List Key} {S : List Key}
    (h : ∀ a, r = .ok a → ∀ x ∈ k a, x ∈ S) : ∀ x ∈ thenReads r k, x ∈ S := by
  cases r with
  | error e => intro x hx; simp [thenReads] at hx
  | ok a => intro x hx; exact h a rfl x hx

theorem cons_subset {a : Key} {l : List Key} {S : List Key} (ha : a ∈ S) (hl : ∀ x ∈ l, x ∈ S) :
    ∀ x ∈ a :: l, x ∈ S := by
  intro x hx
  rcases List.mem_cons.mp hx with rfl | h
  · exact ha
  · exact hl x h

theorem nil_subset {S : List Key} : ∀ x ∈ ([] : List Key), x ∈ S := by
  intro x hx; simp at hx

theorem ite_subset {c : Prop} [Decidable c] {a b : List Key} {S : List Key}
    (ha : ∀ x ∈ a, x ∈ S) (hb : ∀ x ∈ b, x ∈ S) : ∀ x ∈ (if c then a else b), x ∈ S := by
  split <;> assumption

/-- **The reads of the model lie inside the selection** (consistent rules). -/
theorem authReads_subset (rules : AuthRules) (hc : rules.Consistent) (ev : Event) (f : Fetch)
    (S : List (Str × Str)) (hS : authTypesForEvent rules ev = .ok S) :
    ∀ k ∈ authReads rules ev f, k ∈ S := by
  unfold authReads
  by_cases hcr : ev.type = tCreate
  · simp [hcr]
  · have e1 : (ev.type == tCreate) = false := by simpa using hcr
    simp only [e1, Bool.false_eq_true, if_false]
    by_cases hm : ev.type = tMember
    · obtain ⟨sk, m, hsk, hmem, b1, b2, b3, b4, hjr, htp, hau⟩ := authTypes_member_inv hm hS
      refine cons_subset b3 (thenReads_subset fun create _ => ?_)
      refine ite_subset nil_subset (thenReads_subset fun fed _ => ?_)
      refine ite_subset nil_subset ?_
      have e3 : (rules.specialCaseRoomAliases && ev.type == tAliases) = false := by
        rw [hm]; have : (tMember == tAliases) = false := by decide
        simp [this]
      have e4 : (ev.type == tMember) = true := by simp [hm]
      simp only [e3, e4, Bool.false_eq_true, if_false, if_true]
      unfold readsMember
      simp only [hsk]
      refine ite_subset nil_subset ?_
      rw [hmem]
      simp only [thenReads]
      by_cases c1 : m = mJoin
      · subst c1
        simp only [beq_self_eq_true, if_true]
        unfold readsJoin
        refine thenReads_subset fun creator _ => ?_
        refine ite_subset nil_subset (ite_subset nil_subset ?_)
        refine cons_subset b4 (thenReads_subset fun cur _ => ?_)
        refine ite_subset nil_subset ?_
        refine cons_subset (hjr (Or.inl rfl)) (thenReads_subset fun jr _ => ?_)
        refine ite_subset nil_subset ?_
        by_cases hr : (rules.restrictedJoinRule && jr == jrRestricted
            || rules.knockRestrictedJoinRule && jr == jrKnockRestricted) = true
        · rw [if_pos hr]
          have hres : rules.restrictedJoinRule = true := by
            cases h1 : rules.restrictedJoinRule
            · cases h2 : rules.knockRestrictedJoinRule
              · simp [h1, h2] at hr
              · exact absurd (hc h2) (by simp [h1])
            · rfl
          refine ite_subset nil_subset (thenReads_subset fun via hvia => ?_)
          cases via with
          | none => exact nil_subset
          | some u =>
            refine cons_subset (hau rfl hres u hvia) (thenReads_subset fun um _ => ?_)
            refine ite_subset nil_subset (cons_subset b1 nil_subset)
        · rw [if_neg hr]; exact nil_subset
      · have d1 : (m == mJoin) = false := by simpa using c1
        simp only [d1, Bool.false_eq_true, if_false]
        by_cases c2 : m = mInvite
        · subst c2
          simp only [beq_self_eq_true, if_true]
          unfold readsInvite
          refine thenReads_subset fun tpi htpi => ?_
          cases tpi with
          | some signed =>
            unfold readsThirdPartyInvite
            refine cons_subset b4 (thenReads_subset fun tm _ => ?_)
            refine ite_subset nil_subset (thenReads_subset fun tok htok => ?_)
            refine thenReads_subset fun mxid _ => ?_
            exact ite_subset nil_subset (cons_subset (htp rfl signed tok htpi htok) nil_subset)
          | none =>
            refine cons_subset b2 (thenReads_subset fun sm _ => ?_)
            refine ite_subset nil_subset ?_
            refine cons_subset b4 (thenReads_subset fun tm _ => ?_)
            refine ite_subset nil_subset (thenReads_subset fun _ _ => cons_subset b1 nil_subset)
        · have d2 : (m == mInvite) = false := by simpa using c2
          simp only [d2, Bool.false_eq_true, if_false]
          by_cases c3 : m = mLeave
          · subst c3
            simp only [beq_self_eq_true, if_true]
            unfold readsLeave
            refine cons_subset b2 (thenReads_subset fun sm _ => ?_)
            refine ite_subset nil_subset (ite_subset nil_subset ?_)
            exact thenReads_subset fun _ _ => cons_subset b1 (cons_subset b4 nil_subset)
          · have d3 : (m == mLeave) = false := by simpa using c3
            simp only [d3, Bool.false_eq_true, if_false]
            by_cases c4 : m = mBan
            · subst c4
              simp only [beq_self_eq_true, if_true]
              unfold readsBan
              refine cons_subset b2 (thenReads_subset fun sm _ => ?_)
              exact ite_subset nil_subset (thenReads_subset fun _ _ => cons_subset b1 nil_subset)
            · have d4 : (m == mBan) = false := by simpa using c4
              simp only [d4, Bool.false_eq_true, if_false]
              by_cases c5 : (m == mKnock && rules.knocking) = true
              · rw [if_pos c5]
                have hk : m = mKnock := by
                  simp only [Bool.and_eq_true, beq_iff_eq] at c5; exact c5.1
                unfold readsKnock
                refine cons_subset (hjr (Or.inr (Or.inr hk))) (thenReads_subset fun jr _ => ?_)
                exact ite_subset nil_subset (ite_subset nil_subset (cons_subset b2 nil_subset))
              · rw [if_neg c5]; exact nil_subset
    · obtain ⟨b1, b2, b3⟩ := authTypes_other_inv hcr hm hS
      have e2 : (ev.type == tMember) = false := by simpa using hm
      refine cons_subset b3 (thenReads_subset fun create _ => ?_)
      refine ite_subset nil_subset (thenReads_subset fun fed _ => ?_)
      refine ite_subset nil_subset (ite_subset nil_subset ?_)
      simp only [e2, Bool.false_eq_true, if_false]
      refine cons_subset b2 (thenReads_subset fun sm _ => ?_)
      exact ite_subset nil_subset (thenReads_subset fun _ _ => cons_subset b1 nil_subset)

end Ruma.Auth
