/-
  Helper lemmas for C01 (canonical JSON), part 1: association lists (`Obj.insert`, `Obj.ofList`),
  the structure of `normalize`, canonical values.
-/
import RumaModel.Model.Canonical
import RumaModel.Spec.CanonicalJson
namespace Ruma.Canonical
open Ruma

/-! ### The order on byte strings -/

theorem str_lt_irrefl (a : Str) : ¬ a < a := List.lt_irrefl a
theorem str_lt_trans {a b c : Str} (h : a < b) (h2 : b < c) : a < c := List.lt_trans h h2
theorem str_lt_asymm {a b : Str} (h : a < b) : ¬ b < a := List.lt_asymm h
theorem str_lt_ne {a b : Str} (h : a < b) : a ≠ b := fun e => str_lt_irrefl b (e ▸ h)
theorem str_trichotomy (a b : Str) : a < b ∨ a = b ∨ b < a := by
  by_cases h1 : a < b
  · exact .inl h1
  by_cases h2 : b < a
  · exact .inr (.inr h2)
  exact .inr (.inl (List.le_antisymm (List.not_lt.mp h2) (List.not_lt.mp h1)))

/-! ### Association lists -/
variable {α : Type}

/-- Last entry with the key (what a `BTreeMap` built by successive `insert`s ends up holding). -/
def getLast (o : List (Str × α)) (k : Str) : Option α :=
  match o with
  | [] => none
  | (k', v) :: t =>
    match getLast t k with
    | some x => some x
    | none => if k' = k then some v else none

theorem get_insert (o : List (Str × α)) (k : Str) (v : α) (k' : Str) :
    Obj.get (Obj.insert o k v) k' = if k = k' then some v else Obj.get o k' := by
  induction o with
  | nil => simp [Obj.insert, Obj.get]
  | cons e t ih =>
    obtain ⟨ke, ve⟩ := e
    unfold Obj.insert
    by_cases h1 : ke = k
    · subst h1
      by_cases h2 : ke = k' <;> simp [Obj.get, h2]
    · simp only [h1, if_false]
      by_cases h3 : k < ke
      · simp only [h3, if_true]
        by_cases h2 : k = k'
        · simp [Obj.get, h2]
        · simp [Obj.get, h2]
      · simp only [h3, if_false]
        by_cases h2 : k = k'
        · subst h2
          simp [Obj.get, h1, ih]
        · simp only [Obj.get, ih, h2, if_false]

theorem mem_keys_insert (o : List (Str × α)) (k : Str) (v : α) (x : Str) :
    x ∈ Obj.keys (Obj.insert o k v) ↔ x = k ∨ x ∈ Obj.keys o := by
  induction o with
  | nil => simp [Obj.insert, Obj.keys]
  | cons e t ih =>
    obtain ⟨ke, ve⟩ := e
    unfold Obj.insert
    by_cases h1 : ke = k
    · subst h1; simp [Obj.keys]
    · simp only [h1, if_false]
      by_cases h3 : k < ke
      · simp [h3, Obj.keys]
      · simp only [h3, if_false]
        simp only [Obj.keys, List.map_cons, List.mem_cons] at ih ⊢
        rw [ih]
        constructor
        · rintro (h | h | h) <;> simp [h]
        · rintro (h | h | h) <;> simp [h]

theorem insert_sorted (o : List (Str × α)) (k : Str) (v : α) (h : Obj.Sorted o) : Obj.Sorted (Obj.insert o k v) := by
  induction o with
  | nil => simp [Obj.insert, Obj.Sorted, Obj.keys]
  | cons e t ih =>
    obtain ⟨ke, ve⟩ := e
    have hs : Obj.Sorted t := (List.pairwise_cons.mp h).2
    have hlt : ∀ x ∈ Obj.keys t, ke < x := (List.pairwise_cons.mp h).1
    unfold Obj.insert
    by_cases h1 : ke = k
    · subst h1; simpa [Obj.Sorted, Obj.keys] using h
    · simp only [h1, if_false]
      by_cases h3 : k < ke
      · simp only [h3, if_true]
        refine List.pairwise_cons.mpr ⟨?_, h⟩
        intro x hx
        simp only [List.map_cons, List.mem_cons] at hx
        rcases hx with hx | hx
        · exact hx ▸ h3
        · exact str_lt_trans h3 (hlt x hx)
      · simp only [h3, if_false]
        refine List.pairwise_cons.mpr ⟨?_, ih hs⟩
        intro x hx
        have := (mem_keys_insert t k v x).mp hx
        rcases this with hx | hx
        · subst hx
          rcases str_trichotomy x ke with h | h | h
          · exact absurd h h3
          · exact absurd h.symm h1
          · exact h
        · exact hlt x hx

theorem foldl_insert_sorted (l : List (Str × α)) (acc : List (Str × α)) (h : Obj.Sorted acc) :
    Obj.Sorted (l.foldl (fun acc p => Obj.insert acc p.1 p.2) acc) := by
  induction l generalizing acc with
  | nil => exact h
  | cons e t ih => exact ih _ (insert_sorted acc e.1 e.2 h)

theorem ofList_sorted (l : List (Str × α)) : Obj.Sorted (Obj.ofList l) :=
  foldl_insert_sorted l [] List.Pairwise.nil

theorem get_foldl_insert (l acc : List (Str × α)) (k : Str) :
    Obj.get (l.foldl (fun acc p => Obj.insert acc p.1 p.2) acc) k = (getLast l k).or (Obj.get acc k) := by
  induction l generalizing acc with
  | nil => simp [getLast]
  | cons e t ih =>
    obtain ⟨ke, ve⟩ := e
    simp only [List.foldl_cons, ih, get_insert, getLast]
    cases getLast t k with
    | some x => simp
    | none => by_cases h : ke = k <;> simp [h]

/-- The object built from a text holds, under each key, the value of the *last* entry with that key. -/
theorem get_ofList (l : List (Str × α)) (k : Str) : Obj.get (Obj.ofList l) k = getLast l k := by
  unfold Obj.ofList
  rw [get_foldl_insert]
  cases getLast l k <;> simp [Obj.get]

theorem get_none_of_lt (t : List (Str × α)) (k : Str) (h : ∀ x ∈ Obj.keys t, k < x) : Obj.get t k = none := by
  induction t with
  | nil => rfl
  | cons e t ih =>
    obtain ⟨ke, ve⟩ := e
    have h1 : k < ke := h ke (by simp [Obj.keys])
    have h2 : ke ≠ k := fun e => str_lt_irrefl k (e ▸ h1)
    simp only [Obj.get, h2, if_false]
    exact ih (fun x hx => h x (by simp only [Obj.keys, List.map_cons, List.mem_cons] at hx ⊢; exact .inr hx))

theorem sorted_tail {e : Str × α} {t : List (Str × α)} (h : Obj.Sorted (e :: t)) : Obj.Sorted t :=
  (List.pairwise_cons.mp h).2

theorem sorted_head_lt {e : Str × α} {t : List (Str × α)} (h : Obj.Sorted (e :: t)) :
    ∀ x ∈ Obj.keys t, e.1 < x := (List.pairwise_cons.mp h).1

/-- Two strictly sorted association lists with the same lookups are the same list. -/
theorem sorted_ext : ∀ (a b : List (Str × α)), Obj.Sorted a → Obj.Sorted b →
    (∀ k, Obj.get a k = Obj.get b k) → a = b
  | [], [], _, _, _ => rfl
  | [], (l, w) :: tb, _, _, h => by
    have := h l
    simp [Obj.get] at this
  | (k, v) :: ta, [], _, _, h => by
    have := h k
    simp [Obj.get] at this
  | (k, v) :: ta, (l, w) :: tb, ha, hb, h => by
    have hta := get_none_of_lt ta k (sorted_head_lt ha)
    have htb := get_none_of_lt tb l (sorted_head_lt hb)
    have hkl : k = l := by
      rcases str_trichotomy k l with h1 | h1 | h1
      · have := h k
        have hne : l ≠ k := fun e => str_lt_irrefl k (e ▸ h1)
        have hn : Obj.get tb k = none :=
          get_none_of_lt tb k (fun x hx => str_lt_trans h1 (sorted_head_lt hb x hx))
        simp [Obj.get, hne, hn] at this
      · exact h1
      · have := h l
        have hne : k ≠ l := fun e => str_lt_irrefl l (e ▸ h1)
        have hn : Obj.get ta l = none :=
          get_none_of_lt ta l (fun x hx => str_lt_trans h1 (sorted_head_lt ha x hx))
        simp [Obj.get, hne, hn] at this
    subst hkl
    have hvw : v = w := by
      have := h k
      simpa [Obj.get] using this
    subst hvw
    have htail : ta = tb := by
      apply sorted_ext ta tb (sorted_tail ha) (sorted_tail hb)
      intro k'
      by_cases hk : k = k'
      · subst hk; rw [hta, htb]
      · have := h k'
        simpa [Obj.get, hk] using this
    rw [htail]

theorem sorted_keys_nodup {o : List (Str × α)} (h : Obj.Sorted o) : (Obj.keys o).Nodup :=
  List.Pairwise.imp (fun hlt => str_lt_ne hlt) h

theorem getLast_eq_some_iff (l : List (Str × α)) (hnd : (Obj.keys l).Nodup) (k : Str) (v : α) :
    getLast l k = some v ↔ (k, v) ∈ l := by
  induction l generalizing v with
  | nil => simp [getLast]
  | cons e t ih =>
    obtain ⟨ke, ve⟩ := e
    have hnd' : (Obj.keys t).Nodup := (List.nodup_cons.mp hnd).2
    have hke : ke ∉ Obj.keys t := (List.nodup_cons.mp hnd).1
    have ih := ih hnd'
    have hmem : ∀ x, (ke, x) ∉ t := fun x hx => hke (List.mem_map.mpr ⟨(ke, x), hx, rfl⟩)
    simp only [getLast]
    cases hg : getLast t k with
    | some x =>
      have hx : (k, x) ∈ t := (ih x).mp hg
      have hne : ke ≠ k := fun e => hmem x (e ▸ hx)
      constructor
      · intro h; injection h with h; subst h; exact List.mem_cons_of_mem _ hx
      · intro h
        rcases List.mem_cons.mp h with h | h
        · injection h with h1 h2; exact absurd h1.symm hne
        · have h2 := (ih v).mpr h; rw [hg] at h2; injection h2 with h2; subst h2; rfl
    | none =>
      by_cases hk : ke = k
      · subst hk
        simp only [if_true]
        constructor
        · intro h; injection h with h; subst h; exact List.mem_cons_self
        · intro h
          rcases List.mem_cons.mp h with h | h
          · injection h with h1 h2; rw [h2]
          · exact absurd h (hmem v)
      · simp only [hk, if_false]
        constructor
        · intro h; cases h
        · intro h
          rcases List.mem_cons.mp h with h | h
          · injection h with h1 h2; exact absurd h1.symm hk
          · have := (ih v).mpr h; rw [hg] at this; cases this

theorem get_eq_some_iff (l : List (Str × α)) (hnd : (Obj.keys l).Nodup) (k : Str) (v : α) :
    Obj.get l k = some v ↔ (k, v) ∈ l := by
  induction l with
  | nil => simp [Obj.get]
  | cons e t ih =>
    obtain ⟨ke, ve⟩ := e
    have hnd' : (Obj.keys t).Nodup := (List.nodup_cons.mp hnd).2
    have hke : ke ∉ Obj.keys t := (List.nodup_cons.mp hnd).1
    have ih := ih hnd'
    have hmem : ∀ x, (ke, x) ∉ t := fun x hx => hke (List.mem_map.mpr ⟨(ke, x), hx, rfl⟩)
    simp only [Obj.get]
    by_cases hk : ke = k
    · subst hk
      simp only [if_true]
      constructor
      · intro h; injection h with h; subst h; exact List.mem_cons_self
      · intro h
        rcases List.mem_cons.mp h with h | h
        · injection h with h1 h2; rw [h2]
        · exact absurd h (hmem v)
    · simp only [hk, if_false, ih]
      constructor
      · intro h; exact List.mem_cons_of_mem _ h
      · intro h
        rcases List.mem_cons.mp h with h | h
        · injection h with h1 h2; exact absurd h1.symm hk
        · exact h

theorem option_ext {x y : Option α} (h : ∀ v, x = some v ↔ y = some v) : x = y := by
  cases x with
  | none =>
    cases y with
    | none => rfl
    | some b => exact ((h b).mpr rfl).symm ▸ rfl
  | some a => exact ((h a).mp rfl).symm

/-- With distinct keys, the object built from the entries does not depend on their order. -/
theorem ofList_perm {l l' : List (Str × α)} (hp : l.Perm l') (hnd : (Obj.keys l).Nodup) :
    Obj.ofList l = Obj.ofList l' := by
  have hnd' : (Obj.keys l').Nodup := (List.Perm.nodup_iff (hp.map _)).mp hnd
  apply sorted_ext _ _ (ofList_sorted l) (ofList_sorted l')
  intro k
  rw [get_ofList, get_ofList]
  apply option_ext
  intro v
  rw [getLast_eq_some_iff l hnd, getLast_eq_some_iff l' hnd']
  exact hp.mem_iff

/-- Collecting an already sorted list of entries gives that list. -/
theorem ofList_of_sorted {l : List (Str × α)} (h : Obj.Sorted l) : Obj.ofList l = l := by
  apply sorted_ext _ _ (ofList_sorted l) h
  intro k
  rw [get_ofList]
  apply option_ext
  intro v
  rw [getLast_eq_some_iff l (sorted_keys_nodup h), get_eq_some_iff l (sorted_keys_nodup h)]

open Ruma.Spec.CanonicalJson

theorem err_eq (e e' : Err) : e = e' := by cases e; cases e'; rfl

theorem maxInt_eq : maxInt = 2 ^ 53 - 1 := by decide

theorem intOk_iff (i : Int) : intOk i = true ↔ IntInRange i := by
  unfold intOk IntInRange
  rw [← maxInt_eq]
  simp

/-! ### Shape of `normalizeL` / `normalizeO` -/

theorem normalizeL_cons_ok {v : JVal} {t : List JVal} {l : List JVal} :
    normalizeL (v :: t) = .ok l ↔ ∃ v' t', normalize v = .ok v' ∧ normalizeL t = .ok t' ∧ l = v' :: t' := by
  rw [normalizeL]
  cases normalize v with
  | error e => simp
  | ok v' =>
    cases normalizeL t with
    | error e => simp
    | ok t' =>
      simp only [Except.ok.injEq]
      constructor
      · intro h; exact ⟨v', t', rfl, rfl, h.symm⟩
      · rintro ⟨a, b, ha, hb, hl⟩; rw [hl, ha, hb]

theorem normalizeO_cons_ok {k : Str} {v : JVal} {t l : List (Str × JVal)} :
    normalizeO ((k, v) :: t) = .ok l ↔
      ∃ v' t', normalize v = .ok v' ∧ normalizeO t = .ok t' ∧ l = (k, v') :: t' := by
  rw [normalizeO]
  cases normalize v with
  | error e => simp
  | ok v' =>
    cases normalizeO t with
    | error e => simp
    | ok t' =>
      simp only [Except.ok.injEq]
      constructor
      · intro h; exact ⟨v', t', rfl, rfl, h.symm⟩
      · rintro ⟨a, b, ha, hb, hl⟩; rw [hl, ha, hb]

theorem normalize_arr_ok {xs : List JVal} {c : JVal} :
    normalize (.arr xs) = .ok c ↔ ∃ ys, normalizeL xs = .ok ys ∧ c = .arr ys := by
  rw [normalize]
  cases normalizeL xs with
  | error e => simp
  | ok ys => simp [eq_comm]

theorem normalize_obj_ok {kvs : List (Str × JVal)} {c : JVal} :
    normalize (.obj kvs) = .ok c ↔ ∃ l, normalizeO kvs = .ok l ∧ c = .obj (Obj.ofList l) := by
  rw [normalize]
  cases normalizeO kvs with
  | error e => simp
  | ok ys => simp [eq_comm]

/-! ### Members of `Obj.ofList` -/

theorem mem_insert {o : List (Str × α)} {k : Str} {v : α} {e : Str × α}
    (h : e ∈ Obj.insert o k v) : e = (k, v) ∨ e ∈ o := by
  induction o with
  | nil => simpa [Obj.insert] using h
  | cons a t ih =>
    obtain ⟨ka, va⟩ := a
    unfold Obj.insert at h
    by_cases h1 : ka = k
    · simp only [h1, if_true, List.mem_cons] at h
      rcases h with h | h
      · exact .inl h
      · exact .inr (List.mem_cons_of_mem _ h)
    · simp only [h1, if_false] at h
      by_cases h3 : k < ka
      · simp only [h3, if_true, List.mem_cons] at h
        rcases h with h | h | h
        · exact .inl h
        · exact .inr (h ▸ List.mem_cons_self)
        · exact .inr (List.mem_cons_of_mem _ h)
      · simp only [h3, if_false, List.mem_cons] at h
        rcases h with h | h
        · exact .inr (h ▸ List.mem_cons_self)
        · rcases ih h with h | h
          · exact .inl h
          · exact .inr (List.mem_cons_of_mem _ h)

theorem mem_foldl_insert {l acc : List (Str × α)} {e : Str × α}
    (h : e ∈ l.foldl (fun acc p => Obj.insert acc p.1 p.2) acc) : e ∈ l ∨ e ∈ acc := by
  induction l generalizing acc with
  | nil => exact .inr h
  | cons a t ih =>
    rcases ih h with h | h
    · exact .inl (List.mem_cons_of_mem _ h)
    · rcases mem_insert h with h | h
      · exact .inl (h ▸ List.mem_cons_self)
      · exact .inr h

theorem mem_ofList {l : List (Str × α)} {e : Str × α} (h : e ∈ Obj.ofList l) : e ∈ l := by
  rcases mem_foldl_insert h with h | h
  · exact h
  · cases h

/-! ### Canonical values -/

theorem isCanonicalO_iff (l : List (Str × JVal)) : IsCanonicalO l ↔ ∀ e ∈ l, IsCanonical e.2 := by
  induction l with
  | nil => simp [IsCanonicalO]
  | cons a t ih =>
    obtain ⟨k, v⟩ := a
    simp [IsCanonicalO, ih]

mutual
theorem normalize_isCanonical : ∀ (v c : JVal), normalize v = .ok c → IsCanonical c
  | .null, c, h => by simp [normalize] at h; subst h; trivial
  | .bool b, c, h => by simp [normalize] at h; subst h; trivial
  | .int i, c, h => by
    rw [normalize] at h
    by_cases hi : intOk i = true
    · simp [hi] at h; subst h; exact (intOk_iff i).mp hi
    · simp [hi] at h
  | .float, c, h => by simp [normalize] at h
  | .str s, c, h => by simp [normalize] at h; subst h; trivial
  | .arr xs, c, h => by
    obtain ⟨ys, h1, h2⟩ := normalize_arr_ok.mp h
    subst h2
    exact normalizeL_isCanonical xs ys h1
  | .obj kvs, c, h => by
    obtain ⟨l, h1, h2⟩ := normalize_obj_ok.mp h
    subst h2
    refine ⟨ofList_sorted l, ?_⟩
    have := normalizeO_isCanonical kvs l h1
    rw [isCanonicalO_iff] at this ⊢
    exact fun e he => this e (mem_ofList he)
theorem normalizeL_isCanonical : ∀ (xs ys : List JVal), normalizeL xs = .ok ys → IsCanonicalL ys
  | [], ys, h => by simp [normalizeL] at h; subst h; trivial
  | v :: t, ys, h => by
    obtain ⟨v', t', h1, h2, h3⟩ := normalizeL_cons_ok.mp h
    subst h3
    exact ⟨normalize_isCanonical v v' h1, normalizeL_isCanonical t t' h2⟩
theorem normalizeO_isCanonical : ∀ (kvs l : List (Str × JVal)), normalizeO kvs = .ok l → IsCanonicalO l
  | [], ys, h => by simp [normalizeO] at h; subst h; trivial
  | (k, v) :: t, ys, h => by
    obtain ⟨v', t', h1, h2, h3⟩ := normalizeO_cons_ok.mp h
    subst h3
    exact ⟨normalize_isCanonical v v' h1, normalizeO_isCanonical t t' h2⟩
end

mutual
theorem normalize_of_isCanonical : ∀ (c : JVal), IsCanonical c → normalize c = .ok c
  | .null, _ => rfl
  | .bool _, _ => rfl
  | .int i, h => by rw [normalize, (intOk_iff i).mpr h]; rfl
  | .float, h => by cases h
  | .str _, _ => rfl
  | .arr xs, h => by rw [normalize, normalizeL_of_isCanonical xs h]
  | .obj kvs, h => by
    rw [normalize, normalizeO_of_isCanonical kvs h.2]
    simp only
    rw [ofList_of_sorted h.1]
theorem normalizeL_of_isCanonical : ∀ (xs : List JVal), IsCanonicalL xs → normalizeL xs = .ok xs
  | [], _ => rfl
  | v :: t, h => by
    rw [normalizeL, normalize_of_isCanonical v h.1, normalizeL_of_isCanonical t h.2]
theorem normalizeO_of_isCanonical : ∀ (kvs : List (Str × JVal)), IsCanonicalO kvs → normalizeO kvs = .ok kvs
  | [], _ => rfl
  | (k, v) :: t, h => by
    rw [normalizeO, normalize_of_isCanonical v h.1, normalizeO_of_isCanonical t h.2]
end

/-! ### Permutations of entries -/

theorem normalizeO_keys : ∀ (kvs l : List (Str × JVal)), normalizeO kvs = .ok l → Obj.keys l = Obj.keys kvs
  | [], l, h => by simp [normalizeO] at h; subst h; rfl
  | (k, v) :: t, l, h => by
    obtain ⟨v', t', _, h2, h3⟩ := normalizeO_cons_ok.mp h
    subst h3
    simp only [Obj.keys, List.map_cons]
    rw [show List.map (·.1) t' = Obj.keys t' from rfl, normalizeO_keys t t' h2]
    rfl

/-- Two results of `normalizeO` agree up to the order of the collected entries. -/
def PermRes (a b : Except Err (List (Str × JVal))) : Prop :=
  (∃ l l', a = .ok l ∧ b = .ok l' ∧ l.Perm l') ∨ (∃ e e', a = .error e ∧ b = .error e')

theorem PermRes.refl (a : Except Err (List (Str × JVal))) : PermRes a a := by
  cases a with
  | error e => exact .inr ⟨e, e, rfl, rfl⟩
  | ok l => exact .inl ⟨l, l, rfl, rfl, List.Perm.refl l⟩

theorem PermRes.trans {a b c : Except Err (List (Str × JVal))} (h1 : PermRes a b) (h2 : PermRes b c) :
    PermRes a c := by
  rcases h1 with ⟨l, l', ha, hb, hp⟩ | ⟨e, e', ha, hb⟩
  · rcases h2 with ⟨m, m', hb', hc, hp'⟩ | ⟨e, e', hb', hc⟩
    · rw [hb] at hb'; injection hb' with hb'; subst hb'
      exact .inl ⟨l, m', ha, hc, hp.trans hp'⟩
    · rw [hb] at hb'; cases hb'
  · rcases h2 with ⟨m, m', hb', hc, hp'⟩ | ⟨e2, e2', hb', hc⟩
    · rw [hb] at hb'; cases hb'
    · exact .inr ⟨e, e2', ha, hc⟩

theorem normalizeO_cons_permRes (k : Str) (v : JVal) {t t' : List (Str × JVal)}
    (h : PermRes (normalizeO t) (normalizeO t')) :
    PermRes (normalizeO ((k, v) :: t)) (normalizeO ((k, v) :: t')) := by
  rw [normalizeO, normalizeO]
  cases normalize v with
  | error e => exact .inr ⟨e, e, rfl, rfl⟩
  | ok v' =>
    rcases h with ⟨l, l', ha, hb, hp⟩ | ⟨e, e', ha, hb⟩
    · rw [ha, hb]; exact .inl ⟨_, _, rfl, rfl, hp.cons _⟩
    · rw [ha, hb]; exact .inr ⟨e, e', rfl, rfl⟩

theorem normalizeO_perm {kvs kvs' : List (Str × JVal)} (hp : kvs.Perm kvs') :
    PermRes (normalizeO kvs) (normalizeO kvs') := by
  induction hp with
  | nil => exact PermRes.refl _
  | cons a _ ih => exact normalizeO_cons_permRes a.1 a.2 ih
  | swap a b t =>
    obtain ⟨ka, va⟩ := a
    obtain ⟨kb, vb⟩ := b
    rw [normalizeO, normalizeO, normalizeO, normalizeO]
    cases normalize va with
    | error e =>
      cases normalize vb with
      | error e' => exact .inr ⟨_, _, rfl, rfl⟩
      | ok b' => exact .inr ⟨_, _, rfl, rfl⟩
    | ok a' =>
      cases normalize vb with
      | error e' => exact .inr ⟨_, _, rfl, rfl⟩
      | ok b' =>
        cases normalizeO t with
        | error e => exact .inr ⟨_, _, rfl, rfl⟩
        | ok t' => exact .inl ⟨_, _, rfl, rfl, List.Perm.swap _ _ _⟩
  | trans _ _ ih1 ih2 => exact ih1.trans ih2

/-- Objects whose entries are permutations of each other, with distinct keys, normalise alike. -/
theorem normalize_obj_perm {kvs kvs' : List (Str × JVal)} (hp : kvs.Perm kvs')
    (hnd : (Obj.keys kvs).Nodup) : normalize (.obj kvs) = normalize (.obj kvs') := by
  rw [normalize, normalize]
  rcases normalizeO_perm hp with ⟨l, l', ha, hb, hpl⟩ | ⟨e, e', ha, hb⟩
  · rw [ha, hb]
    simp only
    rw [ofList_perm hpl (by rw [normalizeO_keys kvs l ha]; exact hnd)]
  · rw [ha, hb, err_eq e e']

theorem normalizeMap_perm {kvs kvs' : List (Str × JVal)} (hp : kvs.Perm kvs')
    (hnd : (Obj.keys kvs).Nodup) : normalizeMap kvs = normalizeMap kvs' := by
  unfold normalizeMap
  rcases normalizeO_perm hp with ⟨l, l', ha, hb, hpl⟩ | ⟨e, e', ha, hb⟩
  · rw [ha, hb]
    simp only
    rw [ofList_perm hpl (by rw [normalizeO_keys kvs l ha]; exact hnd)]
  · rw [ha, hb, err_eq e e']

/-! ### Reordering at every depth -/

mutual
/-- `Shuffled v w`: `w` is `v` with the entries of objects reordered, at any depth; every reordered
object has distinct keys. (Array elements keep their positions.) -/
inductive Shuffled : JVal → JVal → Prop
  | atom (v : JVal) : Shuffled v v
  | arr {xs ys : List JVal} : ShuffledL xs ys → Shuffled (.arr xs) (.arr ys)
  | obj {kvs mid kvs' : List (Str × JVal)} :
      ShuffledO kvs mid → mid.Perm kvs' → (Obj.keys kvs).Nodup → Shuffled (.obj kvs) (.obj kvs')
inductive ShuffledL : List JVal → List JVal → Prop
  | nil : ShuffledL [] []
  | cons {v w : JVal} {xs ys : List JVal} : Shuffled v w → ShuffledL xs ys → ShuffledL (v :: xs) (w :: ys)
inductive ShuffledO : List (Str × JVal) → List (Str × JVal) → Prop
  | nil : ShuffledO [] []
  | cons {k : Str} {v w : JVal} {xs ys : List (Str × JVal)} :
      Shuffled v w → ShuffledO xs ys → ShuffledO ((k, v) :: xs) ((k, w) :: ys)
end

theorem shuffledO_keys : ∀ {a b : List (Str × JVal)}, ShuffledO a b → Obj.keys a = Obj.keys b
  | _, _, .nil => rfl
  | _, _, .cons _ h => by
    simp only [Obj.keys, List.map_cons]
    exact congrArg _ (shuffledO_keys h)

mutual
theorem shuffled_normalize : ∀ {v w : JVal}, Shuffled v w → normalize v = normalize w
  | _, _, .atom _ => rfl
  | _, _, .arr h => by rw [normalize, normalize, shuffledL_normalize h]
  | _, _, .obj h hp hnd => by
    have h1 := shuffledO_normalize h
    have hk := shuffledO_keys h
    rw [normalize, h1, ← normalize]
    exact normalize_obj_perm hp (hk ▸ hnd)
theorem shuffledL_normalize : ∀ {xs ys : List JVal}, ShuffledL xs ys → normalizeL xs = normalizeL ys
  | _, _, .nil => rfl
  | _, _, .cons h t => by rw [normalizeL, normalizeL, shuffled_normalize h, shuffledL_normalize t]
theorem shuffledO_normalize : ∀ {a b : List (Str × JVal)}, ShuffledO a b → normalizeO a = normalizeO b
  | _, _, .nil => rfl
  | _, _, .cons h t => by rw [normalizeO, normalizeO, shuffled_normalize h, shuffledO_normalize t]
end

/-! ### Duplicate keys: the last entry decides -/

theorem getLast_none_of_not_mem (l : List (Str × α)) (k : Str) (h : k ∉ Obj.keys l) : getLast l k = none := by
  induction l with
  | nil => rfl
  | cons e t ih =>
    obtain ⟨ke, ve⟩ := e
    simp only [Obj.keys, List.map_cons, List.mem_cons, not_or] at h
    have h1 : ke ≠ k := fun e => h.1 e.symm
    simp only [getLast, ih h.2, h1, if_false]

theorem getLast_append_cons (pre post : List (Str × α)) (k : Str) (v : α) (h : k ∉ Obj.keys post) :
    getLast (pre ++ (k, v) :: post) k = some v := by
  induction pre with
  | nil => simp [getLast, getLast_none_of_not_mem post k h]
  | cons e t ih =>
    obtain ⟨ke, ve⟩ := e
    simp only [List.cons_append, getLast, ih]

theorem normalizeO_getLast : ∀ (kvs l : List (Str × JVal)) (k : Str), normalizeO kvs = .ok l →
    (∀ v, getLast kvs k = some v → ∃ v', normalize v = .ok v' ∧ getLast l k = some v') ∧
    (getLast kvs k = none → getLast l k = none)
  | [], l, k, h => by simp [normalizeO] at h; subst h; simp [getLast]
  | (ke, ve) :: t, l, k, h => by
    obtain ⟨v', t', h1, h2, h3⟩ := normalizeO_cons_ok.mp h
    subst h3
    obtain ⟨ih1, ih2⟩ := normalizeO_getLast t t' k h2
    simp only [getLast]
    cases hg : getLast t k with
    | some x =>
      obtain ⟨x', hx1, hx2⟩ := ih1 x hg
      simp only [hx2]
      constructor
      · intro v hv; injection hv with hv; subst hv; exact ⟨x', hx1, rfl⟩
      · intro hv; cases hv
    | none =>
      simp only [ih2 hg]
      by_cases hk : ke = k
      · simp only [hk, if_true]
        constructor
        · intro v hv; injection hv with hv; subst hv; exact ⟨v', h1, rfl⟩
        · intro hv; cases hv
      · simp only [hk, if_false]
        constructor
        · intro v hv; cases hv
        · intro _; trivial

/-! ### Which inputs are accepted -/


mutual
theorem normalize_ok_iff : ∀ (v : JVal), (∃ c, normalize v = .ok c) ↔ Representable v
  | .null => by simp [normalize, Representable]
  | .bool _ => by simp [normalize, Representable]
  | .int i => by
    rw [normalize, Representable, ← intOk_iff]
    by_cases hi : intOk i = true <;> simp [hi]
  | .float => by simp [normalize, Representable]
  | .str _ => by simp [normalize, Representable]
  | .arr xs => by
    rw [Representable, ← normalizeL_ok_iff xs]
    constructor
    · rintro ⟨c, h⟩; obtain ⟨ys, h1, _⟩ := normalize_arr_ok.mp h; exact ⟨ys, h1⟩
    · rintro ⟨ys, h⟩; exact ⟨.arr ys, normalize_arr_ok.mpr ⟨ys, h, rfl⟩⟩
  | .obj kvs => by
    rw [Representable, ← normalizeO_ok_iff kvs]
    constructor
    · rintro ⟨c, h⟩; obtain ⟨ys, h1, _⟩ := normalize_obj_ok.mp h; exact ⟨ys, h1⟩
    · rintro ⟨ys, h⟩; exact ⟨_, normalize_obj_ok.mpr ⟨ys, h, rfl⟩⟩
theorem normalizeL_ok_iff : ∀ (xs : List JVal), (∃ ys, normalizeL xs = .ok ys) ↔ RepresentableL xs
  | [] => by simp [normalizeL, RepresentableL]
  | v :: t => by
    rw [RepresentableL, ← normalize_ok_iff v, ← normalizeL_ok_iff t]
    constructor
    · rintro ⟨ys, h⟩
      obtain ⟨v', t', h1, h2, _⟩ := normalizeL_cons_ok.mp h
      exact ⟨⟨v', h1⟩, ⟨t', h2⟩⟩
    · rintro ⟨⟨v', h1⟩, ⟨t', h2⟩⟩
      exact ⟨_, normalizeL_cons_ok.mpr ⟨v', t', h1, h2, rfl⟩⟩
theorem normalizeO_ok_iff : ∀ (kvs : List (Str × JVal)), (∃ l, normalizeO kvs = .ok l) ↔ RepresentableO kvs
  | [] => by simp [normalizeO, RepresentableO]
  | (k, v) :: t => by
    rw [RepresentableO, ← normalize_ok_iff v, ← normalizeO_ok_iff t]
    constructor
    · rintro ⟨ys, h⟩
      obtain ⟨v', t', h1, h2, _⟩ := normalizeO_cons_ok.mp h
      exact ⟨⟨v', h1⟩, ⟨t', h2⟩⟩
    · rintro ⟨⟨v', h1⟩, ⟨t', h2⟩⟩
      exact ⟨_, normalizeO_cons_ok.mpr ⟨v', t', h1, h2, rfl⟩⟩
end

/-! ### serde_json's own duplicate handling in front of `normalize` -/

theorem normalizeO_insert : ∀ (o o' : List (Str × JVal)) (k : Str) (v v' : JVal),
    normalizeO o = .ok o' → normalize v = .ok v' →
    normalizeO (Obj.insert o k v) = .ok (Obj.insert o' k v')
  | [], o', k, v, v', ho, hv => by
    simp [normalizeO] at ho; subst ho
    exact normalizeO_cons_ok.mpr ⟨v', [], hv, rfl, rfl⟩
  | (ka, va) :: t, o', k, v, v', ho, hv => by
    obtain ⟨va', t', h1, h2, h3⟩ := normalizeO_cons_ok.mp ho
    subst h3
    unfold Obj.insert
    by_cases hk : ka = k
    · simp only [hk, if_true]
      exact normalizeO_cons_ok.mpr ⟨v', t', hv, h2, rfl⟩
    · simp only [hk, if_false]
      by_cases hlt : k < ka
      · simp only [hlt, if_true]
        exact normalizeO_cons_ok.mpr ⟨v', _, hv, ho, rfl⟩
      · simp only [hlt, if_false]
        exact normalizeO_cons_ok.mpr ⟨va', _, h1, normalizeO_insert t t' k v v' h2 hv, rfl⟩

theorem normalizeO_foldl_insert : ∀ (m l acc acc' : List (Str × JVal)),
    normalizeO acc = .ok acc' → normalizeO m = .ok l →
    normalizeO (m.foldl (fun acc p => Obj.insert acc p.1 p.2) acc)
      = .ok (l.foldl (fun acc p => Obj.insert acc p.1 p.2) acc')
  | [], l, acc, acc', ha, hm => by simp [normalizeO] at hm; subst hm; exact ha
  | (k, v) :: t, l, acc, acc', ha, hm => by
    obtain ⟨v', t', h1, h2, h3⟩ := normalizeO_cons_ok.mp hm
    subst h3
    exact normalizeO_foldl_insert t t' _ _ (normalizeO_insert acc acc' k v v' ha h1) h2

theorem normalizeO_ofList (m l : List (Str × JVal)) (h : normalizeO m = .ok l) :
    normalizeO (Obj.ofList m) = .ok (Obj.ofList l) :=
  normalizeO_foldl_insert m l [] [] rfl h

mutual
theorem normalize_serdeValue : ∀ (v c : JVal), normalize v = .ok c → normalize (serdeValue v) = .ok c
  | .null, c, h => h
  | .bool _, c, h => h
  | .int _, c, h => h
  | .float, c, h => h
  | .str _, c, h => h
  | .arr xs, c, h => by
    obtain ⟨ys, h1, h2⟩ := normalize_arr_ok.mp h
    rw [serdeValue]
    exact normalize_arr_ok.mpr ⟨ys, normalizeL_serdeValue xs ys h1, h2⟩
  | .obj kvs, c, h => by
    obtain ⟨l, h1, h2⟩ := normalize_obj_ok.mp h
    rw [serdeValue]
    refine normalize_obj_ok.mpr ⟨Obj.ofList l, normalizeO_ofList _ _ (normalizeO_serdeValue kvs l h1), ?_⟩
    rw [h2, ofList_of_sorted (ofList_sorted l)]
theorem normalizeL_serdeValue : ∀ (xs ys : List JVal), normalizeL xs = .ok ys → normalizeL (serdeValueL xs) = .ok ys
  | [], ys, h => h
  | v :: t, ys, h => by
    obtain ⟨v', t', h1, h2, h3⟩ := normalizeL_cons_ok.mp h
    rw [serdeValueL]
    exact normalizeL_cons_ok.mpr ⟨v', t', normalize_serdeValue v v' h1, normalizeL_serdeValue t t' h2, h3⟩
theorem normalizeO_serdeValue : ∀ (kvs l : List (Str × JVal)), normalizeO kvs = .ok l →
    normalizeO (serdeValueO kvs) = .ok l
  | [], ys, h => h
  | (k, v) :: t, ys, h => by
    obtain ⟨v', t', h1, h2, h3⟩ := normalizeO_cons_ok.mp h
    rw [serdeValueO]
    exact normalizeO_cons_ok.mpr ⟨v', t', normalize_serdeValue v v' h1, normalizeO_serdeValue t t' h2, h3⟩
end

/-! ### An overridden duplicate does not matter -/

theorem getLast_append (a b : List (Str × α)) (x : Str) :
    getLast (a ++ b) x = (getLast b x).or (getLast a x) := by
  induction a with
  | nil => cases h : getLast b x <;> simp [getLast, h]
  | cons e t ih =>
    obtain ⟨ke, ve⟩ := e
    simp only [List.cons_append, getLast, ih]
    cases getLast b x <;> simp

theorem getLast_isSome_of_mem (l : List (Str × α)) (k : Str) (h : k ∈ Obj.keys l) : (getLast l k).isSome := by
  induction l with
  | nil => simp [Obj.keys] at h
  | cons e t ih =>
    obtain ⟨ke, ve⟩ := e
    simp only [getLast]
    cases hg : getLast t k with
    | some x => rfl
    | none =>
      simp only [Obj.keys, List.map_cons, List.mem_cons] at h
      rcases h with h | h
      · simp [h]
      · have := ih h; rw [hg] at this; cases this

theorem normalizeO_append {a b l : List (Str × JVal)} :
    normalizeO (a ++ b) = .ok l ↔ ∃ la lb, normalizeO a = .ok la ∧ normalizeO b = .ok lb ∧ l = la ++ lb := by
  induction a generalizing l with
  | nil =>
    simp only [List.nil_append]
    constructor
    · intro h; exact ⟨[], l, rfl, h, rfl⟩
    · rintro ⟨la, lb, h1, h2, h3⟩
      simp [normalizeO] at h1; subst h1; rw [h3, h2]; rfl
  | cons e t ih =>
    obtain ⟨k, v⟩ := e
    rw [List.cons_append, normalizeO_cons_ok]
    constructor
    · rintro ⟨v', t', h1, h2, h3⟩
      obtain ⟨la, lb, h4, h5, h6⟩ := ih.mp h2
      exact ⟨(k, v') :: la, lb, normalizeO_cons_ok.mpr ⟨v', la, h1, h4, rfl⟩, h5, by rw [h3, h6]; rfl⟩
    · rintro ⟨la, lb, h1, h2, h3⟩
      obtain ⟨v', la', h4, h5, h6⟩ := normalizeO_cons_ok.mp h1
      exact ⟨v', la' ++ lb, h4, ih.mpr ⟨la', lb, h5, h2, rfl⟩, by rw [h3, h6]; rfl⟩

theorem ofList_drop_shadowed (lp lm : List (Str × α)) (k : Str) (c0 : α) (hk : k ∈ Obj.keys lm) :
    Obj.ofList (lp ++ (k, c0) :: lm) = Obj.ofList (lp ++ lm) := by
  apply sorted_ext _ _ (ofList_sorted _) (ofList_sorted _)
  intro x
  rw [get_ofList, get_ofList, getLast_append, getLast_append]
  congr 1
  simp only [getLast]
  cases hg : getLast lm x with
  | some y => rfl
  | none =>
    by_cases hx : k = x
    · subst hx
      have := getLast_isSome_of_mem lm k hk
      rw [hg] at this; cases this
    · simp [hx]

theorem normalize_drop_shadowed (pre rest : List (Str × JVal)) (k : Str) (v0 c0 : JVal)
    (h0 : normalize v0 = .ok c0) (hk : k ∈ Obj.keys rest) :
    normalize (.obj (pre ++ (k, v0) :: rest)) = normalize (.obj (pre ++ rest)) := by
  rw [normalize, normalize]
  cases hB : normalizeO (pre ++ rest) with
  | ok l =>
    obtain ⟨lp, lm, h1, h2, h3⟩ := normalizeO_append.mp hB
    have hA : normalizeO (pre ++ (k, v0) :: rest) = .ok (lp ++ (k, c0) :: lm) :=
      normalizeO_append.mpr ⟨lp, (k, c0) :: lm, h1, normalizeO_cons_ok.mpr ⟨c0, lm, h0, h2, rfl⟩, rfl⟩
    rw [hA]
    simp only
    rw [h3, ofList_drop_shadowed lp lm k c0 (by rw [normalizeO_keys rest lm h2]; exact hk)]
  | error e =>
    cases hA : normalizeO (pre ++ (k, v0) :: rest) with
    | error e' => rw [err_eq e e']
    | ok l =>
      obtain ⟨lp, lm', h1, h2, _⟩ := normalizeO_append.mp hA
      obtain ⟨_, lm, _, h4, _⟩ := normalizeO_cons_ok.mp h2
      have := normalizeO_append.mpr ⟨lp, lm, h1, h4, rfl⟩
      rw [hB] at this; cases this

end Ruma.Canonical
