/-
  Lemmas relating the later stages of the `resolve` model to `Spec/StateResV2.lean` (C07):
  iterative auth checks, mainline ordering, assembly.
-/
import RumaModel.Lemmas.StateResStages
namespace Ruma.StateRes
open Ruma Ruma.Spec.StateResV2

/-- C09's non-interference, as a hypothesis on the parameters: the authorization decision reads
the state only at the selected auth types. -/
def AuthLocal (p : Params) : Prop :=
  ∀ ev tys (f f' : Str → Str → Option Event), p.authTypes ev = some tys →
    (∀ ty k, (ty, k) ∈ tys → f ty k = f' ty k) → p.auth ev f = p.auth ev f'

/-- The fold of `auth_events.insert(..)` over already fetched events. -/
def amFold : List Event → List (SKey × Event) → Except Fail (List (SKey × Event))
  | [], m => .ok m
  | ev :: rest, m =>
    match ev.stateKey with
    | none => .error .err
    | some sk => amFold rest (AL.insert m (ev.type, sk) ev)

theorem authEventsMap_eq_amFold (fetch : Id → Option Event) : ∀ (auths : List Id) (m : List (SKey × Event)),
    authEventsMap fetch auths m = amFold (auths.filterMap fetch) m
  | [], m => rfl
  | a :: rest, m => by
    cases h : fetch a with
    | none => simp only [authEventsMap, h, List.filterMap_cons]; exact authEventsMap_eq_amFold fetch rest m
    | some ev =>
      simp only [authEventsMap, h, List.filterMap_cons, amFold]
      cases ev.stateKey with
      | none => rfl
      | some sk => exact authEventsMap_eq_amFold fetch rest _

theorem amFold_err : ∀ (L : List Event) (m : List (SKey × Event)),
    L.any (fun a => a.stateKey.isNone) = true → amFold L m = .error .err
  | [], _, h => by simp at h
  | ev :: rest, m, h => by
    cases hs : ev.stateKey with
    | none => simp [amFold, hs]
    | some sk =>
      simp only [amFold, hs]
      apply amFold_err rest
      simpa [List.any_cons, hs] using h

theorem amFold_ok : ∀ (L : List Event) (m : List (SKey × Event)),
    L.any (fun a => a.stateKey.isNone) = false →
    ∃ m', amFold L m = .ok m' ∧ ∀ ty k, AL.get m' (ty, k) =
      (L.reverse.find? (fun a => a.type = ty && a.stateKey = some k)).or (AL.get m (ty, k))
  | [], m, _ => ⟨m, rfl, by simp⟩
  | ev :: rest, m, h => by
    simp only [List.any_cons, Bool.or_eq_false_iff] at h
    cases hs : ev.stateKey with
    | none => rw [hs] at h; simp at h
    | some sk =>
      obtain ⟨m', h1, h2⟩ := amFold_ok rest (AL.insert m (ev.type, sk) ev) h.2
      refine ⟨m', by simp only [amFold, hs]; exact h1, ?_⟩
      intro ty k
      rw [h2, AL.get_insert, List.reverse_cons, List.find?_append]
      cases hf : rest.reverse.find? (fun a => a.type = ty && a.stateKey = some k) with
      | some x => simp
      | none =>
        simp only [Option.none_or, List.find?_cons, List.find?_nil, hs]
        by_cases hk : (ev.type, sk) = (ty, k)
        · simp only [Prod.mk.injEq] at hk
          simp [hk.1, hk.2]
        · have : (decide (ev.type = ty) && decide (sk = k)) = false := by
            simp only [Prod.mk.injEq, not_and] at hk
            by_cases h1 : ev.type = ty
            · simp [h1, hk h1]
            · simp [h1]
          simp [hk, this]

theorem overlayState_get (fetch : Id → Option Event) (st : StateMap) : ∀ (ks : List SKey) (m : List (SKey × Event))
    (key : SKey),
    AL.get (overlayState fetch st ks m) key =
      if ks.contains key then ((AL.get st key).bind fetch).or (AL.get m key) else AL.get m key
  | [], m, key => by simp [overlayState]
  | k :: ks, m, key => by
    have e : (k :: ks).contains key = (decide (key = k) || ks.contains key) := by
      simp [List.contains_cons, eq_comm]
    simp only [overlayState]
    cases hg : AL.get st k with
    | none =>
      simp only []
      rw [overlayState_get fetch st ks m key, e]
      by_cases hk : key = k
      · subst hk; simp [hg]
      · simp [hk]
    | some id =>
      simp only []
      cases hf : fetch id with
      | none =>
        simp only []
        rw [overlayState_get fetch st ks m key, e]
        by_cases hk : key = k
        · subst hk; simp [hg, hf]
        · simp [hk]
      | some ev =>
        simp only []
        rw [overlayState_get fetch st ks _ key, e, AL.get_insert]
        by_cases hk : key = k
        · subst hk
          by_cases hc : ks.contains key = true
          · simp [hc, hg, hf]
          · simp [hc, hg, hf]
        · have hk' : ¬ k = key := fun h => hk h.symm
          simp [hk, hk']

/-- **iterativeAuth_spec.** The model's `iterative_auth_check` is the spec's iterative auth checks
algorithm, for every list of events and every starting state, provided authorization reads only
the selected auth types (C09). The code seeds the auth state with all of the event's auth events;
the spec consults them only for the selected types — unobservable by that hypothesis. -/
theorem iterativeAuthCheck_eq_spec {p : Params} (hl : AuthLocal p) (fetch : Id → Option Event) :
    ∀ (ids : List Id) (st : StateMap),
      iterativeAuthCheck p fetch ids st = iterativeAuthChecks p fetch ids st
  | [], st => rfl
  | id :: rest, st => by
    simp only [iterativeAuthCheck, iterativeAuthChecks]
    cases hf : fetch id with
    | none => rfl
    | some ev =>
      simp only []
      cases hs : ev.stateKey with
      | none => rfl
      | some sk =>
        simp only []
        rw [authEventsMap_eq_amFold]
        cases hany : (ev.authEvents.filterMap fetch).any (fun a => a.stateKey.isNone) with
        | true => rw [amFold_err _ _ hany]; rfl
        | false =>
          obtain ⟨am, h1, h2⟩ := amFold_ok (ev.authEvents.filterMap fetch) [] hany
          rw [h1]
          simp only [Bool.false_eq_true, if_false]
          cases ht : p.authTypes ev with
          | none => exact iterativeAuthCheck_eq_spec hl fetch rest st
          | some tys =>
            simp only []
            have : p.auth ev (fun ty k => AL.get (overlayState fetch st tys am) (ty, k)) =
                p.auth ev (authStateFor fetch st ev tys) := by
              apply hl ev tys _ _ ht
              intro ty k hmem
              have hc : tys.contains (ty, k) = true := by simpa using hmem
              rw [overlayState_get, hc, h2]
              simp only [if_true, authStateFor, hc, AL.get_nil, Option.or_none]
              cases ((AL.get st (ty, k)).bind fetch) <;> rfl
            rw [this]
            split
            · exact iterativeAuthCheck_eq_spec hl fetch rest _
            · exact iterativeAuthCheck_eq_spec hl fetch rest _
/-! ### mainline -/

/-- The event store is closed under `auth_events`, acyclic, and finite. -/
structure StoreOk (fetch : Id → Option Event) (ids : List Id) : Prop where
  ident : ∀ id e, fetch id = some e → e.eventId = id
  closed : ∀ id e, fetch id = some e → ∀ a ∈ e.authEvents, (fetch a).isSome = true
  acyclic : ∃ rank : Id → Nat, ∀ id e, fetch id = some e → ∀ a ∈ e.authEvents, rank a < rank id
  finite : ∀ id e, fetch id = some e → id ∈ ids

theorem fetchOf_ident (store : List Event) (id : Id) (e : Event) (h : fetchOf store id = some e) :
    e.eventId = id := by
  unfold fetchOf at h
  have := List.find?_some h
  simpa using this

theorem fetchOf_finite (store : List Event) (id : Id) (e : Event) (h : fetchOf store id = some e) :
    id ∈ store.map (·.eventId) := by
  have hi := fetchOf_ident store id e h
  unfold fetchOf at h
  have := List.mem_of_find?_eq_some h
  exact List.mem_map.mpr ⟨e, this, hi⟩

theorem firstPlAuth_eq (fetch : Id → Option Event) : ∀ (auths : List Id),
    (∀ a ∈ auths, (fetch a).isSome = true) →
    firstPlAuth fetch auths = .ok ((auths.filterMap fetch).find? isPL)
  | [], _ => rfl
  | a :: rest, h => by
    obtain ⟨ev, hev⟩ := Option.isSome_iff_exists.mp (h a (by simp))
    have ih := firstPlAuth_eq fetch rest (fun x hx => h x (by simp [hx]))
    simp only [firstPlAuth, hev, List.filterMap_cons, List.find?_cons]
    by_cases hp : isPL ev = true
    · have : isTypeAndKey ev tPowerLevels [] = true := hp
      simp [this, hp]
    · have hp' : isPL ev = false := by simpa using hp
      have : isTypeAndKey ev tPowerLevels [] = false := hp'
      simp [this, hp', ih]

/-- The power-levels chain from `P` (youngest first), as long as the fuel lasts. -/
def plChain (fetch : Id → Option Event) : Nat → Option Event → List Id
  | 0, _ => []
  | _, none => []
  | n + 1, some pl => pl.eventId :: plChain fetch n (plAmong fetch pl)

theorem mainline_eq_reverse (fetch : Id → Option Event) : ∀ (n : Nat) (P : Option Event),
    mainline fetch n P = (plChain fetch n P).reverse
  | 0, P => by cases P <;> rfl
  | n + 1, none => rfl
  | n + 1, some pl => by
    simp only [mainline, plChain, List.reverse_cons, mainline_eq_reverse fetch n]

theorem plAmong_mem {fetch : Id → Option Event} {e pl : Event} (h : plAmong fetch e = some pl) :
    ∃ a ∈ e.authEvents, fetch a = some pl := by
  unfold plAmong at h
  have := List.mem_of_find?_eq_some h
  obtain ⟨a, ha, hf⟩ := List.mem_filterMap.mp this
  exact ⟨a, ha, hf⟩

/-- With enough fuel the model's mainline loop produces the chain (and never errs on a closed store). -/
theorem mainlineChain_eq {fetch : Id → Option Event} {ids : List Id} (ok : StoreOk fetch ids) :
    ∀ (f : Nat) (ev : Event) (acc : List Id), fetch ev.eventId = some ev →
      (plChain fetch f (some ev)).length < f →
      mainlineChain fetch f (some ev.eventId) acc = .ok (acc ++ plChain fetch f (some ev))
  | 0, _, _, _, h => by simp at h
  | f + 1, ev, acc, hf, hlen => by
    have hcl := firstPlAuth_eq fetch ev.authEvents (ok.closed _ _ hf)
    simp only [mainlineChain, hf, hcl, plChain]
    cases hpl : (ev.authEvents.filterMap fetch).find? isPL with
    | none =>
      have : plAmong fetch ev = none := hpl
      simp only [Option.map_none, mainlineChain, this]
      cases f <;> simp [plChain]
    | some pl =>
      have hpl' : plAmong fetch ev = some pl := hpl
      obtain ⟨a, _, hfa⟩ := plAmong_mem hpl'
      have hid := ok.ident a pl hfa
      have hfpl : fetch pl.eventId = some pl := by rw [hid]; exact hfa
      simp only [Option.map_some, hpl']
      have hlen' : (plChain fetch f (some pl)).length < f := by
        simp only [plChain, hpl', List.length_cons] at hlen; omega
      rw [mainlineChain_eq ok f pl (acc ++ [ev.eventId]) hfpl hlen']
      simp

/-- Ranks strictly decrease along the chain, so it has no repetitions and stays in the store. -/
theorem plChain_props {fetch : Id → Option Event} {ids : List Id} (ok : StoreOk fetch ids)
    (rank : Id → Nat) (hr : ∀ id e, fetch id = some e → ∀ a ∈ e.authEvents, rank a < rank id) :
    ∀ (f : Nat) (ev : Event), fetch ev.eventId = some ev →
      (plChain fetch f (some ev)).Nodup ∧ (∀ x ∈ plChain fetch f (some ev), x ∈ ids ∧ rank x ≤ rank ev.eventId)
  | 0, _, _ => by simp [plChain]
  | f + 1, ev, hf => by
    simp only [plChain]
    cases hpl : plAmong fetch ev with
    | none =>
      cases f <;> simp [plChain, ok.finite _ _ hf]
    | some pl =>
      obtain ⟨a, ha, hfa⟩ := plAmong_mem hpl
      have hid := ok.ident a pl hfa
      have hfpl : fetch pl.eventId = some pl := by rw [hid]; exact hfa
      have hrk : rank pl.eventId < rank ev.eventId := by rw [hid]; exact hr _ _ hf a ha
      obtain ⟨i1, i2⟩ := plChain_props ok rank hr f pl hfpl
      constructor
      · refine List.nodup_cons.mpr ⟨?_, i1⟩
        intro hm
        have := (i2 _ hm).2
        omega
      · intro x hx
        rcases List.mem_cons.mp hx with rfl | hx
        · exact ⟨ok.finite _ _ hf, Nat.le_refl _⟩
        · exact ⟨(i2 x hx).1, by have := (i2 x hx).2; omega⟩

theorem plChain_length_le {fetch : Id → Option Event} {ids : List Id} (ok : StoreOk fetch ids)
    (f : Nat) (ev : Event) (hf : fetch ev.eventId = some ev) :
    (plChain fetch f (some ev)).length ≤ ids.length := by
  obtain ⟨rank, hr⟩ := ok.acyclic
  obtain ⟨h1, h2⟩ := plChain_props ok rank hr f ev hf
  exact nodup_subset_length_le h1 (fun x hx => (h2 x hx).1)


theorem get_foldl_zipIdx : ∀ (L : List Id) (k : Nat) (m : List (Id × Nat)) (id : Id), L.Nodup →
    AL.get ((L.zipIdx k).foldl (fun m p => AL.insert m p.1 p.2) m) id =
      match L.idxOf? id with
      | some i => some (k + i)
      | none => AL.get m id
  | [], k, m, id, _ => by simp
  | a :: t, k, m, id, hn => by
    rw [List.nodup_cons] at hn
    simp only [List.zipIdx_cons, List.foldl_cons]
    rw [get_foldl_zipIdx t (k + 1) _ id hn.2, List.idxOf?_cons]
    by_cases ha : a = id
    · subst ha
      have : t.idxOf? a = none := by
        rw [List.idxOf?_eq_none_iff]; exact hn.1
      simp [this, AL.get_insert_self]
    · have hb : (a == id) = false := by simpa using ha
      simp only [hb]
      cases t.idxOf? id with
      | none => simp [AL.get_insert, ha]
      | some i => simp; omega

theorem mainlineMap_get {chain : List Id} (hn : chain.Nodup) (id : Id) :
    AL.get (mainlineMap chain) id = chain.reverse.idxOf? id := by
  unfold mainlineMap
  rw [get_foldl_zipIdx chain.reverse 0 [] id ((List.reverse_perm chain).symm.nodup hn)]
  cases chain.reverse.idxOf? id <;> simp

/-- The model's depth and the spec's closest mainline position: the position is the depth plus one,
except that the spec gives 0 and the code depth 0 when there is no mainline ancestor (finding F4);
with the F4 deviation (`max 1`) they agree everywhere. -/
theorem depth_vs_pos {fetch : Id → Option Event} {ids : List Id} (ok : StoreOk fetch ids)
    {mm : List (Id × Nat)} {ml : List Id} (hmm : ∀ id, AL.get mm id = ml.idxOf? id) :
    ∀ (f : Nat) (ev : Event), fetch ev.eventId = some ev → (plChain fetch f (some ev)).length < f →
      ∃ d, mainlineDepth fetch mm f (some ev) = .ok d ∧
        max 1 (closestPos fetch ml f (some ev)) = d + 1 ∧
        (closestPos fetch ml f (some ev) ≠ 0 → closestPos fetch ml f (some ev) = d + 1)
  | 0, _, _, h => by simp at h
  | f + 1, ev, hf, hlen => by
    simp only [mainlineDepth, closestPos, hmm]
    cases hi : ml.idxOf? ev.eventId with
    | some i => exact ⟨i, rfl, by simp, fun _ => rfl⟩
    | none =>
      simp only [firstPlAuth_eq fetch ev.authEvents (ok.closed _ _ hf)]
      cases hpl : (ev.authEvents.filterMap fetch).find? isPL with
      | none =>
        have : plAmong fetch ev = none := hpl
        rw [this]
        refine ⟨0, by cases f <;> rfl, ?_, ?_⟩
        · cases f <;> simp [closestPos]
        · cases f <;> simp [closestPos]
      | some pl =>
        have hpl' : plAmong fetch ev = some pl := hpl
        obtain ⟨a, _, hfa⟩ := plAmong_mem hpl'
        have hid := ok.ident a pl hfa
        have hfpl : fetch pl.eventId = some pl := by rw [hid]; exact hfa
        have hlen' : (plChain fetch f (some pl)).length < f := by
          simp only [plChain, hpl', List.length_cons] at hlen; omega
        rw [hpl']
        exact depth_vs_pos ok hmm f pl hfpl hlen'

theorem mainlineLe_eq (a b : MKey) : mainlineLe a b = MKey.le a b := by
  unfold mainlineLe MKey.le
  by_cases h1 : a.depth = b.depth <;> by_cases h2 : a.ts = b.ts <;> simp [h1, h2] <;> omega

/-- Depth + 1. -/
def shiftKey (e : Id × MKey) : Id × MKey := (e.1, ⟨e.2.depth + 1, e.2.ts, e.2.id⟩)

theorem le_shiftKey_iff (a b : Id × MKey) :
    MKey.le (shiftKey a).2 (shiftKey b).2 = true ↔ MKey.le a.2 b.2 = true := by
  rw [mkey_le_iff, mkey_le_iff]
  simp only [shiftKey]
  constructor
  · rintro (h | ⟨e, h⟩)
    · exact .inl (by omega)
    · exact .inr ⟨by omega, h⟩
  · rintro (h | ⟨e, h⟩)
    · exact .inl (by omega)
    · exact .inr ⟨by omega, h⟩

theorem le_shiftKey (a b : Id × MKey) :
    MKey.le (shiftKey a).2 (shiftKey b).2 = MKey.le a.2 b.2 := by
  cases h : MKey.le a.2 b.2 with
  | true => exact (le_shiftKey_iff a b).mpr h
  | false =>
    cases h' : MKey.le (shiftKey a).2 (shiftKey b).2 with
    | false => rfl
    | true => rw [(le_shiftKey_iff a b).mp h'] at h; cases h

theorem pairwise_map_shift {l : List (Id × MKey)}
    (h : l.Pairwise (fun a b => MKey.le a.2 b.2 = true)) :
    (l.map shiftKey).Pairwise (fun a b => MKey.le a.2 b.2 = true) := by
  rw [List.pairwise_map]
  exact h.imp (fun {a b} hab => by rw [le_shiftKey]; exact hab)

/-- Entries whose key carries their own id. -/
def KeyedOk (l : List (Id × MKey)) : Prop := ∀ e ∈ l, e.2.id = e.1

theorem keyed_antisymm {l : List (Id × MKey)} (hk : KeyedOk l) (a b : Id × MKey) (ha : a ∈ l) (hb : b ∈ l)
    (h1 : MKey.le a.2 b.2 = true) (h2 : MKey.le b.2 a.2 = true) : a = b := by
  have hkey := mkey_le_antisymm a.2 b.2 h1 h2
  have : a.1 = b.1 := by rw [← hk a ha, ← hk b hb, hkey]
  cases a; cases b; simp_all

theorem mergeSort_shift {l : List (Id × MKey)} (hk : KeyedOk l) :
    (l.mergeSort (fun a b => MKey.le a.2 b.2)).map shiftKey =
      (l.map shiftKey).mergeSort (fun a b => MKey.le a.2 b.2) := by
  have htr : ∀ a b c : Id × MKey, MKey.le a.2 b.2 = true → MKey.le b.2 c.2 = true → MKey.le a.2 c.2 = true :=
    fun a b c => mkey_le_trans a.2 b.2 c.2
  have hto : ∀ a b : Id × MKey, (MKey.le a.2 b.2 || MKey.le b.2 a.2) = true := fun a b => by
    rcases mkey_le_total a.2 b.2 with h | h <;> simp [h]
  apply eq_of_perm_of_sorted (le := fun a b => MKey.le a.2 b.2)
  · intro a b ha hb h1 h2
    have hk' : KeyedOk ((l.mergeSort (fun a b => MKey.le a.2 b.2)).map shiftKey) := by
      intro e he
      obtain ⟨x, hx, rfl⟩ := List.mem_map.mp he
      exact hk x ((List.mergeSort_perm l _).mem_iff.mp hx)
    exact keyed_antisymm hk' a b ha hb h1 h2
  · exact pairwise_map_shift (List.pairwise_mergeSort (fun a b c => htr a b c) hto l)
  · exact List.pairwise_mergeSort (fun a b c => htr a b c) hto _
  · exact ((List.mergeSort_perm l _).map shiftKey).trans (List.mergeSort_perm _ _).symm

theorem filterMap_congr' {f g : α → Option β} : ∀ {l : List α}, (∀ x ∈ l, f x = g x) →
    l.filterMap f = l.filterMap g
  | [], _ => rfl
  | x :: xs, h => by
    simp only [List.filterMap_cons, h x (by simp)]
    rw [filterMap_congr' (fun y hy => h y (by simp [hy]))]

theorem plChain_none (fetch : Id → Option Event) (f : Nat) : plChain fetch f none = [] := by
  cases f <;> rfl

/-- **mainlineSort_devspec.** On a store that is closed under `auth_events`, acyclic and smaller
than the fuel, the model's mainline sort is the spec's mainline ordering with exactly the F4
deviation — for every duplicate-free list of known events, every resolved power-levels event and
every iteration order of `order_map`. -/
theorem mainlineSort_eq_devspec {fetch : Id → Option Event} {ids : List Id} (ok : StoreOk fetch ids)
    {fuel : Nat} (hfuel : ids.length < fuel) {o : Orders} (ho : o.Valid) {l : List Id} (hn : l.Nodup)
    (hl : ∀ id ∈ l, (fetch id).isSome = true) (pl : Option Id)
    (hpl : ∀ pid, pl = some pid → (fetch pid).isSome = true) :
    mainlineSort o fetch fuel l pl = .ok (mainlineOrder true fetch fuel (pl.bind fetch) l) := by
  -- the chain
  have hchain : ∃ chain, mainlineChain fetch fuel pl [] = .ok chain ∧
      chain = plChain fetch fuel (pl.bind fetch) ∧ chain.Nodup := by
    cases pl with
    | none => exact ⟨[], by cases fuel <;> rfl, by simp [plChain_none], by simp⟩
    | some pid =>
      obtain ⟨ev, hev⟩ := Option.isSome_iff_exists.mp (hpl pid rfl)
      have hid := ok.ident pid ev hev
      have hfe : fetch ev.eventId = some ev := by rw [hid]; exact hev
      have hlen := plChain_length_le ok fuel ev hfe
      obtain ⟨rank, hr⟩ := ok.acyclic
      refine ⟨plChain fetch fuel (some ev), ?_, by simp [hev], (plChain_props ok rank hr fuel ev hfe).1⟩
      have := mainlineChain_eq ok fuel ev [] hfe (by omega)
      rw [hid] at this; simpa using this
  obtain ⟨chain, hc1, hc2, hc3⟩ := hchain
  unfold mainlineSort mainlineOrder
  cases l with
  | nil => simp
  | cons a t =>
    simp only [List.isEmpty_cons, Bool.false_eq_true, if_false, hc1, ↓reduceIte]
    rw [orderMap_eq fetch _ fuel (a :: t) [] hn (by simp [AL.keys])]
    have hmm : ∀ id, AL.get (mainlineMap chain) id = (mainline fetch fuel (pl.bind fetch)).idxOf? id := by
      intro id; rw [mainline_eq_reverse, ← hc2]; exact mainlineMap_get hc3 id
    -- every element yields an entry; the spec's entry is the shifted one
    have hentry : ∀ id ∈ a :: t, ∃ e, omEntry fetch (mainlineMap chain) fuel id = some e ∧
        omIsFuel fetch (mainlineMap chain) fuel id = false ∧
        (fetch id).map (fun ev => (id, (⟨max 1 (closestPos fetch (mainline fetch fuel (pl.bind fetch)) fuel (some ev)),
          ev.originServerTs, id⟩ : MKey))) = some (shiftKey e) := by
      intro id hid
      obtain ⟨ev, hev⟩ := Option.isSome_iff_exists.mp (hl id hid)
      have hidd := ok.ident id ev hev
      have hfe : fetch ev.eventId = some ev := by rw [hidd]; exact hev
      have hlen := plChain_length_le ok fuel ev hfe
      obtain ⟨d, hd1, hd2, _⟩ := depth_vs_pos ok hmm fuel ev hfe (by omega)
      refine ⟨(id, ⟨d, ev.originServerTs, id⟩), ?_, ?_, ?_⟩
      · simp [omEntry, omStep, hev, hd1]
      · simp [omIsFuel, omStep, hev, hd1]
      · simp [hev, shiftKey, hd2]
    have hany : (a :: t).any (omIsFuel fetch (mainlineMap chain) fuel) = false := by
      rw [List.any_eq_false]
      intro x hx
      obtain ⟨_, _, h2, _⟩ := hentry x hx
      simp [h2]
    rw [hany]
    simp only [Bool.false_eq_true, if_false, List.nil_append]
    congr 1
    -- the spec's keyed list is the model's, shifted
    have hkeyed : (a :: t).filterMap (fun id => (fetch id).map (fun ev =>
        (id, (⟨max 1 (closestPos fetch (mainline fetch fuel (pl.bind fetch)) fuel (some ev)),
          ev.originServerTs, id⟩ : MKey)))) =
        ((a :: t).filterMap (omEntry fetch (mainlineMap chain) fuel)).map shiftKey := by
      rw [List.map_filterMap]
      apply filterMap_congr'
      intro id hid
      obtain ⟨e, h1, _, h3⟩ := hentry id hid
      rw [h3, h1]; rfl
    rw [hkeyed]
    have hko : KeyedOk ((a :: t).filterMap (omEntry fetch (mainlineMap chain) fuel)) := by
      intro e he
      obtain ⟨x, _, hx⟩ := List.mem_filterMap.mp he
      have := omEntry_fst hx
      rw [this.1, this.2]
    have hle : (fun (a b : Id × MKey) => mainlineLe a.2 b.2) = (fun a b => MKey.le a.2 b.2) := by
      funext a b; exact mainlineLe_eq a.2 b.2
    rw [hle, ← mergeSort_shift hko, List.map_map]
    have hfst : (Prod.fst ∘ shiftKey : Id × MKey → Id) = Prod.fst := by funext e; rfl
    rw [show ((fun x : Id × MKey => x.1) ∘ shiftKey) = (fun x => x.1) from hfst]
    congr 1
    apply mergeSort_perm_eq (le := fun (a b : Id × MKey) => MKey.le a.2 b.2)
      (fun a b c => mkey_le_trans a.2 b.2 c.2) (fun a b => mkey_le_total a.2 b.2) _ (ho.orderMap _)
    intro x y hx hy h1 h2
    have hko' : KeyedOk (o.orderMap.sh ((a :: t).filterMap (omEntry fetch (mainlineMap chain) fuel))) :=
      fun e he => hko e ((ho.orderMap _).mem_iff.mp he)
    exact keyed_antisymm hko' x y hx hy h1 h2

/-- The spec's keyed list for the mainline ordering. -/
def keyedFor (dev : Bool) (fetch : Id → Option Event) (fuel : Nat) (P : Option Event) (rest : List Id) :
    List (Id × MKey) :=
  rest.filterMap (fun id => (fetch id).map (fun e =>
    let pos := closestPos fetch (mainline fetch fuel P) fuel (some e)
    (id, (⟨if dev then max 1 pos else pos, e.originServerTs, id⟩ : MKey))))

theorem mainlineOrder_eq (dev : Bool) (fetch : Id → Option Event) (fuel : Nat) (P : Option Event)
    (rest : List Id) :
    mainlineOrder dev fetch fuel P rest =
      ((keyedFor dev fetch fuel P rest).mergeSort (fun a b => mainlineLe a.2 b.2)).map (·.1) := rfl

theorem keyedFor_ok (dev : Bool) (fetch : Id → Option Event) (fuel : Nat) (P : Option Event)
    (rest : List Id) : KeyedOk (keyedFor dev fetch fuel P rest) := by
  intro e he
  obtain ⟨id, _, h⟩ := List.mem_filterMap.mp he
  cases hf : fetch id with
  | none => rw [hf] at h; cases h
  | some ev => rw [hf] at h; simp at h; rw [← h]

/-- The spec's mainline ordering does not depend on the order in which the events are listed. -/
theorem mainlineOrder_perm (dev : Bool) (fetch : Id → Option Event) (fuel : Nat) (P : Option Event)
    {rest rest' : List Id} (hp : rest.Perm rest') :
    mainlineOrder dev fetch fuel P rest = mainlineOrder dev fetch fuel P rest' := by
  rw [mainlineOrder_eq, mainlineOrder_eq]
  congr 1
  have hle : (fun (a b : Id × MKey) => mainlineLe a.2 b.2) = (fun a b => MKey.le a.2 b.2) := by
    funext a b; exact mainlineLe_eq a.2 b.2
  rw [hle]
  apply mergeSort_perm_eq (le := fun (a b : Id × MKey) => MKey.le a.2 b.2)
    (fun a b c => mkey_le_trans a.2 b.2 c.2) (fun a b => mkey_le_total a.2 b.2)
  · intro x y hx hy h1 h2
    exact keyed_antisymm (keyedFor_ok dev fetch fuel P rest) x y hx hy h1 h2
  · exact hp.filterMap _

/-- Where finding F4 cannot show: every listed event has a mainline ancestor, or none has. -/
def NoF4 (fetch : Id → Option Event) (fuel : Nat) (P : Option Event) (rest : List Id) : Prop :=
  (∀ id ∈ rest, ∀ e, fetch id = some e → closestPos fetch (mainline fetch fuel P) fuel (some e) ≠ 0) ∨
  (∀ id ∈ rest, ∀ e, fetch id = some e → closestPos fetch (mainline fetch fuel P) fuel (some e) = 0)

theorem mainlineOrder_dev_eq {fetch : Id → Option Event} {fuel : Nat} {P : Option Event} {rest : List Id}
    (h : NoF4 fetch fuel P rest) :
    mainlineOrder true fetch fuel P rest = mainlineOrder false fetch fuel P rest := by
  rw [mainlineOrder_eq, mainlineOrder_eq]
  rcases h with h | h
  · have : keyedFor true fetch fuel P rest = keyedFor false fetch fuel P rest := by
      unfold keyedFor
      apply filterMap_congr'
      intro id hid
      cases hf : fetch id with
      | none => rfl
      | some e =>
        have := h id hid e hf
        simp only [Option.map_some, if_true, Bool.false_eq_true, if_false]
        have hm : max 1 (closestPos fetch (mainline fetch fuel P) fuel (some e)) =
            closestPos fetch (mainline fetch fuel P) fuel (some e) := by omega
        rw [hm]
    rw [this]
  · have : keyedFor true fetch fuel P rest = (keyedFor false fetch fuel P rest).map shiftKey := by
      unfold keyedFor
      rw [List.map_filterMap]
      apply filterMap_congr'
      intro id hid
      cases hf : fetch id with
      | none => rfl
      | some e =>
        have := h id hid e hf
        simp [this, shiftKey]
    have hle : (fun (a b : Id × MKey) => mainlineLe a.2 b.2) = (fun a b => MKey.le a.2 b.2) := by
      funext a b; exact mainlineLe_eq a.2 b.2
    rw [this, hle, ← mergeSort_shift (keyedFor_ok false fetch fuel P rest), List.map_map]
    rfl

/-! ### the spec's closure `authClosure` and reachability -/

inductive PathN (fetch : Id → Option Event) (A : List Id) (r : Id) : Nat → Id → Prop
  | refl : PathN fetch A r 0 r
  | step {k : Nat} {n c : Id} : PathN fetch A r k n → c ∈ children fetch A n → PathN fetch A r (k + 1) c

theorem PathN.toPath {fetch : Id → Option Event} {A : List Id} {r n : Id} {k : Nat}
    (h : PathN fetch A r k n) : Path fetch A r n := by
  induction h with
  | refl => exact .refl
  | step _ hc ih => exact .step ih hc

theorem Path.toPathN {fetch : Id → Option Event} {A : List Id} {r n : Id}
    (h : Path fetch A r n) : ∃ k, PathN fetch A r k n := by
  induction h with
  | refl => exact ⟨0, .refl⟩
  | step _ hc ih => obtain ⟨k, hk⟩ := ih; exact ⟨k + 1, .step hk hc⟩

theorem PathN.prepend {fetch : Id → Option Event} {A : List Id} {x c n : Id} {k : Nat}
    (hc : c ∈ children fetch A x) (h : PathN fetch A c k n) : PathN fetch A x (k + 1) n := by
  induction h with
  | refl => exact .step .refl hc
  | step _ hc' ih => exact .step ih hc'

theorem PathN.uncons {fetch : Id → Option Event} {A : List Id} {r n : Id} {k : Nat}
    (h : PathN fetch A r (k + 1) n) : ∃ c, c ∈ children fetch A r ∧ PathN fetch A c k n := by
  generalize hk : k + 1 = m at h
  induction h generalizing k with
  | refl => cases hk
  | @step k' n' c' hp hc ih =>
    have : k' = k := by omega
    subst this
    cases k' with
    | zero =>
      cases hp
      exact ⟨c', hc, .refl⟩
    | succ j =>
      obtain ⟨c, h1, h2⟩ := ih rfl
      exact ⟨c, h1, .step h2 hc⟩

theorem mem_authWithin {fetch : Id → Option Event} {S : List Id} {id x : Id} :
    x ∈ authWithin fetch S id ↔ x ∈ children fetch S id := by
  simp [authWithin, children, List.mem_filter, List.contains_iff_mem]

theorem mem_grow {fetch : Id → Option Event} {S X : List Id} {n : Id} :
    n ∈ grow fetch S X ↔ n ∈ X ∨ ∃ x ∈ X, n ∈ children fetch S x := by
  unfold grow
  rw [mem_dedup, List.mem_append, List.mem_flatten]
  constructor
  · rintro (h | ⟨l, hl, hn⟩)
    · exact .inl h
    · obtain ⟨x, hx, rfl⟩ := List.mem_map.mp hl
      exact .inr ⟨x, hx, mem_authWithin.mp hn⟩
  · rintro (h | ⟨x, hx, hn⟩)
    · exact .inl h
    · exact .inr ⟨_, List.mem_map_of_mem hx, mem_authWithin.mpr hn⟩

theorem mem_authClosure {fetch : Id → Option Event} {S : List Id} : ∀ (m : Nat) (X0 : List Id) (n : Id),
    n ∈ authClosure fetch S m X0 ↔ ∃ k, k ≤ m ∧ ∃ r ∈ X0, PathN fetch S r k n
  | 0, X0, n => by
    simp only [authClosure]
    constructor
    · intro h; exact ⟨0, Nat.le_refl _, n, h, .refl⟩
    · rintro ⟨k, hk, r, hr, hp⟩
      have : k = 0 := by omega
      subst this; cases hp; exact hr
  | m + 1, X0, n => by
    simp only [authClosure]
    rw [mem_authClosure m]
    constructor
    · rintro ⟨k, hk, r, hr, hp⟩
      rcases mem_grow.mp hr with h | ⟨x, hx, hc⟩
      · exact ⟨k, by omega, r, h, hp⟩
      · exact ⟨k + 1, by omega, x, hx, hp.prepend hc⟩
    · rintro ⟨k, hk, r, hr, hp⟩
      cases k with
      | zero => exact ⟨0, by omega, r, mem_grow.mpr (.inl hr), hp⟩
      | succ j =>
        obtain ⟨c, hc, hp'⟩ := hp.uncons
        exact ⟨j, by omega, c, mem_grow.mpr (.inr ⟨r, hr, hc⟩), hp'⟩

theorem children_sub {fetch : Id → Option Event} {A : List Id} {n c : Id}
    (h : c ∈ children fetch A n) : c ∈ A ∧ ∃ e, fetch n = some e ∧ c ∈ e.authEvents := by
  simp only [children, List.mem_filter, decide_eq_true_eq, authEventsOf] at h
  refine ⟨h.2, ?_⟩
  cases hf : fetch n with
  | none => rw [hf] at h; simp at h
  | some e => rw [hf] at h; exact ⟨e, rfl, h.1⟩

/-- In an acyclic store a path inside `A` visits distinct events, so it is shorter than `A`. -/
theorem PathN.length_lt {fetch : Id → Option Event} {A : List Id} (rank : Id → Nat)
    (hr : ∀ id e, fetch id = some e → ∀ a ∈ e.authEvents, rank a < rank id) {r n : Id} {k : Nat}
    (h : PathN fetch A r k n) (hrA : r ∈ A) :
    ∃ vs : List Id, vs.length = k + 1 ∧ vs.Nodup ∧ ∀ v ∈ vs, v ∈ A ∧ rank n ≤ rank v := by
  induction h with
  | refl => exact ⟨[r], rfl, by simp, by intro v hv; simp at hv; subst hv; exact ⟨hrA, Nat.le_refl _⟩⟩
  | @step k n c _ hc ih =>
    obtain ⟨vs, h1, h2, h3⟩ := ih
    obtain ⟨hcA, e, he, hce⟩ := children_sub hc
    have hlt := hr n e he c hce
    refine ⟨c :: vs, by simp [h1], ?_, ?_⟩
    · refine List.nodup_cons.mpr ⟨?_, h2⟩
      intro hm; have := (h3 c hm).2; omega
    · intro v hv
      rcases List.mem_cons.mp hv with rfl | hv
      · exact ⟨hcA, Nat.le_refl _⟩
      · exact ⟨(h3 v hv).1, by have := (h3 v hv).2; omega⟩

/-- **The spec's `X`** (power events of `F` enlarged by their auth chains inside `F`) is exactly the
set of events reachable from the power events along auth-event edges inside `F`. -/
theorem mem_authClosure_iff_path {fetch : Id → Option Event} {ids : List Id} (ok : StoreOk fetch ids)
    {F X0 : List Id} (hX0 : ∀ r ∈ X0, r ∈ F) (n : Id) :
    n ∈ authClosure fetch F F.length X0 ↔ ∃ r ∈ X0, Path fetch F r n := by
  rw [mem_authClosure]
  constructor
  · rintro ⟨k, _, r, hr, hp⟩; exact ⟨r, hr, hp.toPath⟩
  · rintro ⟨r, hr, hp⟩
    obtain ⟨k, hk⟩ := hp.toPathN
    obtain ⟨rank, hrank⟩ := ok.acyclic
    obtain ⟨vs, h1, h2, h3⟩ := hk.length_lt rank hrank (hX0 r hr)
    have := nodup_subset_length_le h2 (fun v hv => (h3 v hv).1)
    exact ⟨k, by omega, r, hr, hk⟩
/-! ### `resolve` refines the spec -/

theorem authClosure_nodup (fetch : Id → Option Event) (S : List Id) : ∀ (m : Nat) (X : List Id),
    X.Nodup → (authClosure fetch S m X).Nodup
  | 0, _, h => h
  | m + 1, X, _ => authClosure_nodup fetch S m _ (nodup_dedup _)

theorem senderPowers_spec (p : Params) (fetch : Id → Option Event) : ∀ (X : List Id), X.Nodup →
    (if ∀ n ∈ X, (specPL p fetch n).isSome = true
     then ∃ pls, senderPowers p fetch X = .ok pls ∧ ∀ n ∈ X, AL.get pls n = specPL p fetch n
     else senderPowers p fetch X = .error .err)
  | [], _ => by simp [senderPowers]
  | id :: rest, hn => by
    rw [List.nodup_cons] at hn
    have ih := senderPowers_spec p fetch rest hn.2
    by_cases hall : ∀ n ∈ id :: rest, (specPL p fetch n).isSome = true
    · rw [if_pos hall]
      have hall' : ∀ n ∈ rest, (specPL p fetch n).isSome = true := fun n hn' => hall n (by simp [hn'])
      rw [if_pos hall'] at ih
      obtain ⟨pls, h1, h2⟩ := ih
      have hid := hall id (by simp)
      unfold specPL at hid
      cases hf : fetch id with
      | none => rw [hf] at hid; simp at hid
      | some e =>
        rw [hf] at hid
        simp only [Option.bind_some] at hid
        obtain ⟨v, hv⟩ := Option.isSome_iff_exists.mp hid
        refine ⟨(id, v) :: pls, by simp [senderPowers, hf, hv, h1], ?_⟩
        intro n hn'
        rcases List.mem_cons.mp hn' with rfl | hn'
        · simp [AL.get, specPL, hf, hv]
        · have : id ≠ n := by intro e'; subst e'; exact hn.1 hn'
          simp [AL.get, this, h2 n hn']
    · rw [if_neg hall]
      unfold senderPowers
      cases hf : fetch id with
      | none => rfl
      | some e =>
        simp only []
        cases hv : senderPower p fetch e with
        | none => rfl
        | some v =>
          have hall' : ¬ ∀ n ∈ rest, (specPL p fetch n).isSome = true := by
            intro h'; apply hall
            intro n hn'
            rcases List.mem_cons.mp hn' with rfl | hn'
            · simp [specPL, hf, hv]
            · exact h' n hn'
          rw [if_neg hall'] at ih
          rw [ih]

theorem isPowerEvent_eq_spec (p : Params) (e : Event) (hnc : isCreate e = false) :
    StateRes.isPowerEvent p e = Spec.StateResV2.isPowerEvent p e := by
  unfold StateRes.isPowerEvent Spec.StateResV2.isPowerEvent
  have h1 : tPowerLevels ≠ tMember := by decide
  have h2 : tJoinRules ≠ tMember := by decide
  have h3 : tCreate ≠ tMember := by decide
  by_cases hpl : e.type = tPowerLevels
  · simp [hpl, h1]
  by_cases hjr : e.type = tJoinRules
  · simp [hjr, h2]
  by_cases hcr : e.type = tCreate
  · have : e.stateKey ≠ some [] := by
      intro hs
      simp [isCreate, isTypeAndKey, hcr, hs] at hnc
    have h4 : tCreate ≠ tPowerLevels := by decide
    have h5 : tCreate ≠ tJoinRules := by decide
    simp [hcr, this, h3, h4, h5]
  by_cases hm : e.type = tMember
  · simp only [hm, h1.symm, h2.symm, h3.symm, or_self, if_false, if_true, false_and, true_and,
      false_or]
    cases hmem : p.membership e with
    | none => simp
    | some m =>
      by_cases hl : m = bs "leave"
      · subst hl; simp [eq_comm]
      · by_cases hb : m = bs "ban"
        · subst hb; simp [eq_comm]
        · simp [hl, hb]
  · simp [hpl, hjr, hcr, hm]

/-- `iterative_auth_check` keeps every value of the state fetchable. -/
theorem iterativeAuthCheck_known (p : Params) (fetch : Id → Option Event) : ∀ (ids : List Id) (st st' : StateMap),
    iterativeAuthCheck p fetch ids st = .ok st' →
    (∀ k v, AL.get st k = some v → (fetch v).isSome = true) →
    ∀ k v, AL.get st' k = some v → (fetch v).isSome = true
  | [], st, st', h, hk => by simp only [iterativeAuthCheck] at h; cases h; exact hk
  | id :: rest, st, st', h, hk => by
    simp only [iterativeAuthCheck] at h
    cases hf : fetch id with
    | none => rw [hf] at h; cases h
    | some ev =>
      rw [hf] at h; simp only [] at h
      cases hs : ev.stateKey with
      | none => rw [hs] at h; cases h
      | some sk =>
        rw [hs] at h; simp only [] at h
        cases ha : authEventsMap fetch ev.authEvents [] with
        | error e => rw [ha] at h; cases h
        | ok am =>
          rw [ha] at h; simp only [] at h
          cases ht : p.authTypes ev with
          | none => rw [ht] at h; exact iterativeAuthCheck_known p fetch rest st st' h hk
          | some tys =>
            rw [ht] at h; simp only [] at h
            split at h
            · apply iterativeAuthCheck_known p fetch rest _ st' h
              intro k v hg
              rw [AL.get_insert] at hg
              split at hg
              · simp at hg; subst hg; simp [hf]
              · exact hk k v hg
            · exact iterativeAuthCheck_known p fetch rest st st' h hk

theorem powerGraph_nodes (fetch : Id → Option Event) (X : List Id) : (powerGraph fetch X).nodes = X := by
  simp only [powerGraph, Graph.nodes, List.map_map]
  conv => rhs; rw [← List.map_id X]
  apply List.map_congr_left
  intro a _; rfl

theorem mem_powerGraph {fetch : Id → Option Event} {X : List Id} {n : Id} {es : List Id}
    (h : (n, es) ∈ powerGraph fetch X) : n ∈ X ∧ es = authWithin fetch X n := by
  simp only [powerGraph, List.mem_map] at h
  obtain ⟨id, hid, heq⟩ := h
  simp only [Prod.mk.injEq] at heq
  obtain ⟨rfl, rfl⟩ := heq
  exact ⟨hid, rfl⟩

/-- The spec's graph on a duplicate-free vertex list is a DAG when `auth_events` is acyclic. -/
theorem powerGraph_isDag {fetch : Id → Option Event}
    (hacyc : ∃ rank : Id → Nat, ∀ id e, fetch id = some e → ∀ a ∈ e.authEvents, rank a < rank id)
    {X : List Id} (hXn : X.Nodup) : IsDag (powerGraph fetch X) := by
  refine ⟨by rw [powerGraph_nodes]; exact hXn, ?_, ?_⟩
  · intro n es hm e he
    rw [powerGraph_nodes]
    obtain ⟨_, rfl⟩ := mem_powerGraph hm
    have := mem_authWithin.mp he
    simp only [children, List.mem_filter, decide_eq_true_eq] at this
    exact this.2
  · obtain ⟨rank, hr⟩ := hacyc
    refine ⟨rank, ?_⟩
    intro n es hm e he
    obtain ⟨_, rfl⟩ := mem_powerGraph hm
    obtain ⟨_, ev, hev, hmem⟩ := children_sub (mem_authWithin.mp he)
    exact hr n ev hev e hmem

/-- The spec's reverse topological power ordering of `X` lists exactly `X`. -/
theorem reversePowerOrdering_perm {p : Params} {fetch : Id → Option Event}
    (hacyc : ∃ rank : Id → Nat, ∀ id e, fetch id = some e → ∀ a ∈ e.authEvents, rank a < rank id)
    {X sc : List Id} (hXn : X.Nodup) (h : reversePowerOrdering p fetch X = .ok sc) : sc.Perm X := by
  unfold reversePowerOrdering at h
  cases hs : senderPowers p fetch X with
  | error e => rw [hs] at h; cases h
  | ok pls =>
    rw [hs] at h
    simp only [Except.ok.injEq] at h
    have := (lexTopo_isLexTopoOrder (powerGraph_isDag hacyc hXn)
      (fun id => ((AL.get pls id).getD 0, tsOf fetch id))).1
    rw [powerGraph_nodes] at this
    rw [← h]; exact this

/-- **powerSort_spec.** In a store closed under `auth_events` and acyclic, for a full conflicted set
`A` (the model's list, any order) = `F` (the spec's) whose events all cite the one create event and
at most one power-levels event and none of which is itself a create event: the model's
`reverse_topological_power_sort` of the power events of `A` is the spec's reverse topological
power ordering of the power events of `F` enlarged by their auth chains inside `F` — same failure
or same list, for every iteration order. -/
theorem powerSort_spec (p : Params) {o : Orders} (ho : o.Valid) {fetch : Id → Option Event} {ids : List Id}
    (ok : StoreOk fetch ids) {A F : List Id} (hAn : A.Nodup) (hFn : F.Nodup) (hAF : ∀ x, x ∈ A ↔ x ∈ F)
    {c0 : Event} (hwf : ∀ n ∈ F, ∃ e, fetch n = some e ∧ EventWF fetch c0 e)
    (hnc : ∀ n ∈ F, ∀ e, fetch n = some e → isCreate e = false) :
    powerSort p o fetch A (A.filter (isPowerEventId p fetch)) =
      reversePowerOrdering p fetch (powerEventsWithChains p fetch F) := by
  have hwfA : ∀ n ∈ A, ∃ e, fetch n = some e ∧ EventWF fetch c0 e := fun n hn => hwf n ((hAF n).mp hn)
  obtain ⟨X0, hX0def⟩ : ∃ X0, X0 = F.filter (fun id => (fetch id).any (Spec.StateResV2.isPowerEvent p)) := ⟨_, rfl⟩
  have hctlmem : ∀ x, x ∈ A.filter (isPowerEventId p fetch) ↔ x ∈ X0 := by
    intro x
    rw [hX0def, List.mem_filter, List.mem_filter, hAF]
    constructor
    · rintro ⟨h1, h2⟩
      refine ⟨h1, ?_⟩
      cases hf : fetch x with
      | none => simp [isPowerEventId, hf] at h2
      | some e =>
        simp only [isPowerEventId, hf] at h2
        simp only [Option.any_some]
        rw [← isPowerEvent_eq_spec p e (hnc x h1 e hf)]; exact h2
    · rintro ⟨h1, h2⟩
      refine ⟨h1, ?_⟩
      cases hf : fetch x with
      | none => rw [hf] at h2; simp at h2
      | some e =>
        rw [hf] at h2
        simp only [Option.any_some] at h2
        simp only [isPowerEventId, hf]
        rw [isPowerEvent_eq_spec p e (hnc x h1 e hf)]; exact h2
  have hX0F : ∀ r ∈ X0, r ∈ F := by intro r hr; rw [hX0def] at hr; exact (List.mem_filter.mp hr).1
  unfold powerEventsWithChains
  rw [← hX0def]
  obtain ⟨X, hXdef⟩ : ∃ X, X = authClosure fetch F F.length X0 := ⟨_, rfl⟩
  rw [← hXdef]
  have hXn : X.Nodup := by
    rw [hXdef]; apply authClosure_nodup; rw [hX0def]; exact List.Nodup.sublist List.filter_sublist hFn
  have hXmem : ∀ n, n ∈ X ↔ ∃ r ∈ X0, Path fetch F r n := by
    intro n; rw [hXdef]; exact mem_authClosure_iff_path ok hX0F n
  have hGnodes := powerGraph_nodes fetch X
  have hGn : ∀ n, n ∈ (powerGraph fetch X).nodes ↔
      ∃ r ∈ A.filter (isPowerEventId p fetch), Path fetch A r n := by
    intro n
    rw [hGnodes, hXmem]
    constructor
    · rintro ⟨r, hr, hp⟩
      exact ⟨r, (hctlmem r).mpr hr, hp.congr (fun x => (hAF x).symm)⟩
    · rintro ⟨r, hr, hp⟩
      exact ⟨r, (hctlmem r).mp hr, hp.congr hAF⟩
  have hXF : ∀ n ∈ X, n ∈ F := by
    intro n hn
    obtain ⟨r, hr, hp⟩ := (hXmem n).mp hn
    cases hp with
    | refl => exact hX0F n hr
    | step _ hc => exact (children_sub hc).1
  have hGe : ∀ n es, (n, es) ∈ powerGraph fetch X → ∀ x, x ∈ es ↔ x ∈ children fetch A n := by
    intro n es hm x
    obtain ⟨hid, rfl⟩ := mem_powerGraph hm
    rw [mem_authWithin, children_congr _ hAF]
    constructor
    · intro h
      simp only [children, List.mem_filter, decide_eq_true_eq] at h ⊢
      exact ⟨h.1, hXF x h.2⟩
    · intro h
      simp only [children, List.mem_filter, decide_eq_true_eq] at h ⊢
      refine ⟨h.1, ?_⟩
      obtain ⟨r, hr, hp⟩ := (hXmem n).mp hid
      exact (hXmem x).mpr ⟨r, hr, .step hp (by simp only [children, List.mem_filter, decide_eq_true_eq]; exact h)⟩
  have hctl : ∀ c ∈ A.filter (isPowerEventId p fetch), c ∈ A := fun c hc => (List.mem_filter.mp hc).1
  rw [powerSort_eq ho hAn hctl hwfA (powerGraph fetch X) (by rw [hGnodes]; exact hXn) hGn hGe]
  rw [hGnodes]
  unfold reversePowerOrdering
  have hsp := senderPowers_spec p fetch X hXn
  by_cases hall : ∀ n ∈ X, (specPL p fetch n).isSome = true
  · rw [if_pos hall] at hsp ⊢
    obtain ⟨pls, hpls, hget⟩ := hsp
    rw [hpls]
    simp only []
    congr 1
    unfold lexTopo
    apply kahn_key_congr
    intro n hn
    rw [hGnodes] at hn
    simp [Kf, powerKey, hget n hn]
  · rw [if_neg hall] at hsp ⊢
    rw [hsp]

/-- Hypotheses of the refinement theorems about the room (`WF` of DESIGN §6 C06/C07): state maps and
auth chains are maps/sets; every event of the full conflicted set is known, cites the room's create
event `c0` and at most one power-levels event (C06's `RoomWF`) and is not itself a create event; the
store is closed under `auth_events` and acyclic; the state sets mention known events only. -/
structure RoomOk (store : List Event) (sets : List StateMap) (chains : List (List Id))
    (c0 : Event) : Prop where
  setsWF : SetsWF sets
  chainsNodup : ∀ c ∈ chains, c.Nodup
  room : RoomWF store sets chains c0
  notCreate : ∀ n ∈ fullConflictedSet (fetchOf store) sets chains, ∀ e,
    fetchOf store n = some e → isCreate e = false
  closed : ∀ id e, fetchOf store id = some e → ∀ a ∈ e.authEvents, (fetchOf store a).isSome = true
  acyclic : ∃ rank : Id → Nat, ∀ id e, fetchOf store id = some e → ∀ a ∈ e.authEvents, rank a < rank id
  known : ∀ s ∈ sets, ∀ k v, AL.get s k = some v → (fetchOf store v).isSome = true

/-- `RoomOk` plus the one hypothesis about the parameters: authorization reads the state only at the
selected auth types (C09). -/
structure SpecWF (p : Params) (store : List Event) (sets : List StateMap) (chains : List (List Id))
    (c0 : Event) : Prop extends RoomOk store sets chains c0 where
  authLocal : AuthLocal p

theorem SpecWF.storeOk {p : Params} {store : List Event} {sets : List StateMap} {chains : List (List Id)}
    {c0 : Event} (wf : SpecWF p store sets chains c0) :
    StoreOk (fetchOf store) (store.map (·.eventId)) :=
  ⟨fetchOf_ident store, wf.closed, wf.acyclic, fetchOf_finite store⟩

/-- **`resolve` refines the specification carrying exactly the F4 deviation.** -/
theorem resolve_refines_dev (p : Params) {o : Orders} (ho : o.Valid) (store : List Event)
    {sets : List StateMap} {chains : List (List Id)} {c0 : Event} (wf : SpecWF p store sets chains c0) :
    ResEq (resolve p o store sets chains) (resolveWith true p store sets chains) := by
  have ok := wf.storeOk
  rw [resolve_eq_tail]
  unfold resolveWith
  simp only []
  -- unconflicted map
  have hclean : StEq (separate o sets).1 (unconflicted sets) := by
    intro k; apply option_ext; intro v
    rw [separate_clean ho wf.setsWF, get_unconflicted]
  have hemp : (separate o sets).2.isEmpty = (conflictedSet sets).isEmpty := by
    have : (separate o sets).2 = [] ↔ conflictedSet sets = [] := by
      rw [separate_conf_nil ho wf.setsWF, conflictedSet_isEmpty wf.setsWF]
    cases h1 : (separate o sets).2 with
    | nil => simp [this.mp h1]
    | cons a t =>
      cases h2 : conflictedSet sets with
      | nil => rw [this.mpr h2] at h1; cases h1
      | cons b t' => rfl
  rw [hemp]
  split
  · exact hclean
  · -- the full conflicted set
    obtain ⟨A, hAdef⟩ : ∃ A, A = fullConflicted o (fetchOf store) (authChainDiff o chains) (separate o sets).2 := ⟨_, rfl⟩
    obtain ⟨F, hFdef⟩ : ∃ F, F = fullConflictedSet (fetchOf store) sets chains := ⟨_, rfl⟩
    rw [← hAdef, ← hFdef]
    have hAn : A.Nodup := by rw [hAdef]; exact nodup_fullConflicted ho _ _ _
    have hFn : F.Nodup := by rw [hFdef]; exact nodup_dedup _
    have hAF : ∀ x, x ∈ A ↔ x ∈ F := by
      intro x; rw [hAdef, hFdef]; exact mem_allConf_iff ho wf.setsWF wf.chainsNodup x
    have hperm : A.Perm F := (List.perm_ext_iff_of_nodup hAn hFn).mpr hAF
    have hwfF : ∀ n ∈ F, ∃ e, fetchOf store n = some e ∧ EventWF (fetchOf store) c0 e :=
      fun n hn => wf.room n (by rw [← hFdef]; exact hn)
    have hwfA : ∀ n ∈ A, ∃ e, fetchOf store n = some e ∧ EventWF (fetchOf store) c0 e :=
      fun n hn => hwfF n ((hAF n).mp hn)
    have hncF : ∀ n ∈ F, ∀ e, fetchOf store n = some e → isCreate e = false :=
      fun n hn => wf.notCreate n (by rw [← hFdef]; exact hn)
    -- step 1: the power sort
    rw [powerSort_spec p ho ok hAn hFn hAF hwfF hncF]
    obtain ⟨X, hXdef⟩ : ∃ X, X = powerEventsWithChains p (fetchOf store) F := ⟨_, rfl⟩
    rw [← hXdef]
    have hXn : X.Nodup := by
      rw [hXdef]; unfold powerEventsWithChains
      apply authClosure_nodup; exact List.Nodup.sublist List.filter_sublist hFn
    cases hro : reversePowerOrdering p (fetchOf store) X with
    | error e => exact rfl
    | ok sc =>
      simp only []
      have hscperm : sc.Perm X := reversePowerOrdering_perm wf.acyclic hXn hro
      -- first iterative auth check
      unfold resolveTail
      rw [iterativeAuthCheck_eq_spec wf.authLocal]
      have h1 := iterativeAuthCheck_congr p (fetchOf store) sc hclean
      rw [iterativeAuthCheck_eq_spec wf.authLocal, iterativeAuthCheck_eq_spec wf.authLocal] at h1
      cases r1 : iterativeAuthChecks p (fetchOf store) sc (separate o sets).1 with
      | error e =>
        cases r1' : iterativeAuthChecks p (fetchOf store) sc (unconflicted sets) with
        | error e' => rw [r1, r1'] at h1; exact h1
        | ok x => rw [r1, r1'] at h1; exact h1.elim
      | ok rc =>
        cases r1' : iterativeAuthChecks p (fetchOf store) sc (unconflicted sets) with
        | error e' => rw [r1, r1'] at h1; exact h1.elim
        | ok rc' =>
          rw [r1, r1'] at h1
          have hst : StEq rc rc' := h1
          simp only []
          rw [← hst (tPowerLevels, [])]
          -- mainline sort
          have hrcknown : ∀ k v, AL.get rc k = some v → (fetchOf store v).isSome = true := by
            apply iterativeAuthCheck_known p (fetchOf store) sc _ rc
              (by rw [iterativeAuthCheck_eq_spec wf.authLocal]; exact r1)
            intro k v hg
            obtain ⟨hne, hall'⟩ := (separate_clean ho wf.setsWF k v).mp hg
            cases hsets : sets with
            | nil => exact absurd hsets hne
            | cons s t => exact wf.known s (by rw [hsets]; simp) k v (hall' s (by rw [hsets]; simp))
          have htoperm : (A.filter (fun id => !sc.contains id)).Perm (F.filter (fun id => !X.contains id)) := by
            have : (fun id => !sc.contains id) = (fun id => !X.contains id) := by
              funext id
              have : sc.contains id = X.contains id := by
                cases h : X.contains id with
                | true => simpa using hscperm.mem_iff.mpr (by simpa using h)
                | false =>
                  have h' : id ∉ X := by simpa using h
                  simpa using (fun hm => h' (hscperm.mem_iff.mp hm))
              rw [this]
            rw [this]; exact hperm.filter _
          have hton : (A.filter (fun id => !sc.contains id)).Nodup := List.Nodup.sublist List.filter_sublist hAn
          have htoknown : ∀ id ∈ A.filter (fun id => !sc.contains id), (fetchOf store id).isSome = true := by
            intro id hid
            obtain ⟨e, he, _⟩ := hwfA id (List.mem_filter.mp hid).1
            simp [he]
          rw [mainlineSort_eq_devspec ok (by simp) ho hton htoknown (AL.get rc (tPowerLevels, []))
            (fun pid hp => hrcknown _ _ hp)]
          simp only []
          rw [mainlineOrder_perm true (fetchOf store) (store.length + 1) _ htoperm]
          rw [iterativeAuthCheck_eq_spec wf.authLocal]
          obtain ⟨sl, hsldef⟩ : ∃ sl, sl = mainlineOrder true (fetchOf store) (store.length + 1)
              ((AL.get rc (tPowerLevels, [])).bind (fetchOf store)) (F.filter (fun id => !X.contains id)) := ⟨_, rfl⟩
          rw [← hsldef]
          have h2 := iterativeAuthCheck_congr p (fetchOf store) sl hst
          rw [iterativeAuthCheck_eq_spec wf.authLocal, iterativeAuthCheck_eq_spec wf.authLocal] at h2
          cases r2 : iterativeAuthChecks p (fetchOf store) sl rc with
          | error e =>
            cases r2' : iterativeAuthChecks p (fetchOf store) sl rc' with
            | error e' => rw [r2, r2'] at h2; exact h2
            | ok x => rw [r2, r2'] at h2; exact h2.elim
          | ok rs =>
            cases r2' : iterativeAuthChecks p (fetchOf store) sl rc' with
            | error e' => rw [r2, r2'] at h2; exact h2.elim
            | ok rs' =>
              rw [r2, r2'] at h2
              have hst2 : StEq rs rs' := h2
              intro k
              have e1 := extend_get (separate o sets).1 rs k (separate_clean_keys o sets)
              have e2 := extend_get (unconflicted sets) rs' k (keys_unconflicted_nodup sets)
              simp only [extend] at e2
              rw [e1, e2, hclean k, hst2 k]

/-! ### the only failure is `Err(_)` -/

theorem senderPowers_error (p : Params) (fetch : Id → Option Event) : ∀ (X : List Id) (e : Fail),
    senderPowers p fetch X = .error e → e = .err
  | [], e, h => by simp [senderPowers] at h
  | id :: rest, e, h => by
    unfold senderPowers at h
    cases hf : fetch id with
    | none => rw [hf] at h; simp only [] at h; cases h; rfl
    | some ev =>
      rw [hf] at h
      simp only [] at h
      cases hv : senderPower p fetch ev with
      | none => rw [hv] at h; simp only [] at h; cases h; rfl
      | some v =>
        rw [hv] at h
        cases hr : senderPowers p fetch rest with
        | ok m => rw [hr] at h; simp only [] at h; cases h
        | error x =>
          rw [hr] at h; simp only [] at h
          cases h
          exact senderPowers_error p fetch rest _ hr

theorem iterativeAuthChecks_error (p : Params) (fetch : Id → Option Event) : ∀ (ids : List Id) (st : StateMap)
    (e : Fail), iterativeAuthChecks p fetch ids st = .error e → e = .err
  | [], st, e, h => by simp [iterativeAuthChecks] at h
  | id :: rest, st, e, h => by
    unfold iterativeAuthChecks at h
    cases hf : fetch id with
    | none => rw [hf] at h; simp only [] at h; cases h; rfl
    | some ev =>
      rw [hf] at h; simp only [] at h
      cases hs : ev.stateKey with
      | none => rw [hs] at h; simp only [] at h; cases h; rfl
      | some sk =>
        rw [hs] at h; simp only [] at h
        split at h
        · cases h; rfl
        · cases ht : p.authTypes ev with
          | none => rw [ht] at h; exact iterativeAuthChecks_error p fetch rest st e h
          | some tys =>
            rw [ht] at h; simp only [] at h
            split at h
            · exact iterativeAuthChecks_error p fetch rest _ e h
            · exact iterativeAuthChecks_error p fetch rest st e h

/-- The specification (with or without the F4 deviation) fails only with `Err(_)`. -/
theorem resolveWith_error (dev : Bool) (p : Params) (store : List Event) (sets : List StateMap)
    (chains : List (List Id)) (e : Fail) (h : resolveWith dev p store sets chains = .error e) : e = .err := by
  unfold resolveWith at h
  simp only [] at h
  split at h
  · cases h
  · cases hro : reversePowerOrdering p (fetchOf store)
        (powerEventsWithChains p (fetchOf store) (fullConflictedSet (fetchOf store) sets chains)) with
    | error x =>
      rw [hro] at h; simp only [] at h; cases h
      unfold reversePowerOrdering at hro
      cases hs : senderPowers p (fetchOf store)
          (powerEventsWithChains p (fetchOf store) (fullConflictedSet (fetchOf store) sets chains)) with
      | error y => rw [hs] at hro; simp only [] at hro; cases hro; exact senderPowers_error _ _ _ _ hs
      | ok pls => rw [hs] at hro; cases hro
    | ok sc =>
      rw [hro] at h; simp only [] at h
      cases h1 : iterativeAuthChecks p (fetchOf store) sc (unconflicted sets) with
      | error x => rw [h1] at h; simp only [] at h; cases h; exact iterativeAuthChecks_error _ _ _ _ _ h1
      | ok st1 =>
        rw [h1] at h; simp only [] at h
        split at h
        · rename_i x h2; cases h; exact iterativeAuthChecks_error _ _ _ _ _ h2
        · cases h

/-- **No panic, no runaway loop.** Under `SpecWF`, whatever the iteration orders: if `resolve` fails,
it fails with a Rust `Err(_)` — neither the `unwrap` in `add_event_and_auth_chain_to_graph`, nor the
two `expect`s of the sort, nor the `unwrap` of the mainline sort fires, and no `while let` loop
exceeds its bound. -/
theorem resolve_error_is_err (p : Params) {o : Orders} (ho : o.Valid) (store : List Event)
    {sets : List StateMap} {chains : List (List Id)} {c0 : Event} (wf : SpecWF p store sets chains c0)
    (e : Fail) (h : resolve p o store sets chains = .error e) : e = .err := by
  have hr := resolve_refines_dev p ho store wf
  rw [h] at hr
  cases hs : resolveWith true p store sets chains with
  | ok m => rw [hs] at hr; exact hr.elim
  | error e' =>
    rw [hs] at hr
    have : e = e' := hr
    rw [this]
    exact resolveWith_error true p store sets chains e' hs

/-! ### where F4 cannot show: the deviation-carrying spec is the spec -/

/-- Executable form of `NoF4`. -/
def noF4b (fetch : Id → Option Event) (fuel : Nat) (P : Option Event) (rest : List Id) : Bool :=
  rest.all (fun id => match fetch id with
    | some e => closestPos fetch (mainline fetch fuel P) fuel (some e) != 0
    | none => true) ||
  rest.all (fun id => match fetch id with
    | some e => closestPos fetch (mainline fetch fuel P) fuel (some e) == 0
    | none => true)

theorem noF4_of_b {fetch : Id → Option Event} {fuel : Nat} {P : Option Event} {rest : List Id}
    (h : noF4b fetch fuel P rest = true) : NoF4 fetch fuel P rest := by
  unfold noF4b at h
  rw [Bool.or_eq_true] at h
  rcases h with h | h
  · left
    intro id hid e he
    have := List.all_eq_true.mp h id hid
    rw [he] at this
    simpa using this
  · right
    intro id hid e he
    have := List.all_eq_true.mp h id hid
    rw [he] at this
    simpa using this

/-- The remaining events of step 3, as the spec computes them. -/
def specRest (p : Params) (store : List Event) (sets : List StateMap) (chains : List (List Id)) : List Id :=
  let F := fullConflictedSet (fetchOf store) sets chains
  F.filter (fun id => !(powerEventsWithChains p (fetchOf store) F).contains id)

/-- **F4 cannot show** for these inputs: whichever power-levels event of the store (or none) is the
resolved one, the events left for the mainline ordering either all have a mainline ancestor or none
has. -/
def F4Free (p : Params) (store : List Event) (sets : List StateMap) (chains : List (List Id)) : Prop :=
  ∀ P ∈ none :: store.map some,
    NoF4 (fetchOf store) (store.length + 1) P (specRest p store sets chains)

theorem fetchOf_mem {store : List Event} {id : Id} {e : Event} (h : fetchOf store id = some e) : e ∈ store := by
  unfold fetchOf at h
  exact List.mem_of_find?_eq_some h

theorem resolveWith_dev_eq {p : Params} {store : List Event} {sets : List StateMap} {chains : List (List Id)}
    (h : F4Free p store sets chains) :
    resolveWith true p store sets chains = resolveWith false p store sets chains := by
  unfold resolveWith
  simp only []
  split
  · rfl
  · split
    · rfl
    · split
      · rfl
      · rename_i partial_ _
        have : mainlineOrder true (fetchOf store) (store.length + 1)
            ((AL.get partial_ (tPowerLevels, [])).bind (fetchOf store)) (specRest p store sets chains) =
          mainlineOrder false (fetchOf store) (store.length + 1)
            ((AL.get partial_ (tPowerLevels, [])).bind (fetchOf store)) (specRest p store sets chains) := by
          apply mainlineOrder_dev_eq
          apply h
          cases hg : (AL.get partial_ (tPowerLevels, [])).bind (fetchOf store) with
          | none => simp
          | some e =>
            obtain ⟨pid, _, hf⟩ := Option.bind_eq_some_iff.mp hg
            simp [fetchOf_mem hf]
        unfold specRest at this
        simp only [] at this
        rw [this]

end Ruma.StateRes
