/-
  T1 for C14: the behaviour tables extracted from the running sanitizer (Generated/C14.lean,
  regenerated on every run) are the tables the spec's lists imply, on every point of the stated
  universes. Kept in its own module so that the (large) `decide` is re-run only when the
  extraction changes.
-/
import RumaModel.Spec.HtmlAllow
import RumaModel.Generated.C14
namespace Ruma.Lemmas.HtmlTables
open Ruma Ruma.Html

/-- The static lists the model runs with in the correspondence (T2): extracted from the
implementation on this run; class patterns are not observable and come from the spec. -/
def implLists : Lists := Generated.C14.lists Spec.HtmlAllow.classes

theorem strict_table :
    Generated.C14.strict = Spec.HtmlAllow.expected .strict Generated.C14.univ := by decide +kernel

theorem compat_table :
    Generated.C14.compat = Spec.HtmlAllow.expected .compat Generated.C14.univ := by decide +kernel

/-- The lists the model runs with in T2 are, as data, the spec's lists: every theorem stated at
`Spec.HtmlAllow.lists` is a theorem about the model instance that is compared with the code. -/
theorem impl_eq_spec : implLists = Spec.HtmlAllow.lists := by decide +kernel

theorem within : Spec.HtmlAllow.withinUniverse Generated.C14.univ = true := by decide +kernel

end Ruma.Lemmas.HtmlTables
