/-
  C17 helper lemmas: `TagName::from(s).display_name()` (`Model/ScanTag.lean`) returns for every string,
  and what it returns.
-/
import RumaModel.Model.ScanTag
import RumaModel.Lemmas.ScanCommon
namespace Ruma.ScanTag
open Ruma Ruma.Scan Ruma.Ids

/-- The display name of a custom tag is what follows its last dot (the whole name without a dot). -/
theorem displayName_custom (s : Str) (hs : Sep s) :
    (TagName.custom s).displayName =
      .ok (match rfindByte 46 s with | some p => s.drop (p + 1) | none => s) := by
  simp only [TagName.displayName, TagName.asRef]
  cases hr : rfindByte 46 s with
  | none => simp [strFrom_zero]
  | some p =>
    obtain ⟨pre, post, rfl, _, rfl⟩ := rfindByte_eq_some hr
    simp only
    rw [strFrom_after hs (by omega)]
    have hd : List.drop (pre.length + 1) (pre ++ 46 :: post) = post := by
      have : pre ++ 46 :: post = (pre ++ [46]) ++ post := by simp
      rw [this]; exact List.drop_left' (by simp)
    rw [hd]

/-- The display name of a user tag `u.…` is what follows the `u.`. -/
theorem displayName_user (r : Str) (hs : Sep (117 :: 46 :: r)) :
    (TagName.user (117 :: 46 :: r)).displayName = .ok r := by
  simp only [TagName.displayName, TagName.asRef]
  have := strFrom_after (a := [117]) (c := 46) (b := r) (by simpa using hs) (by omega)
  simp only [List.length_cons, List.length_nil, Nat.zero_add, List.cons_append, List.nil_append] at this
  rw [this]

theorem displayNameOf_returns (s : Str) (hs : Sep s) : (displayNameOf s).Returns := by
  unfold displayNameOf TagName.from
  split
  · simp [TagName.displayName, TagName.asRef, sFavourite, bs, strFrom, isBoundary, isCont, Out.Returns]
  · split
    · simp [TagName.displayName, TagName.asRef, sLowPriority, bs, strFrom, isBoundary, isCont, Out.Returns]
    · split
      · simp [TagName.displayName, TagName.asRef, sServerNotice, bs, strFrom, isBoundary, isCont, Out.Returns]
      · split
        · rename_i hpre
          obtain ⟨r, rfl⟩ := List.isPrefixOf_iff_prefix.mp hpre
          have := displayName_user r (by simpa using hs)
          simp only [List.cons_append, List.nil_append]
          rw [this]
          trivial
        · rw [displayName_custom s hs]
          trivial

/-- What is returned is always a suffix of the tag name. -/
theorem displayNameOf_suffix (s : Str) (hs : Sep s) {r : Str} (h : displayNameOf s = .ok r) :
    r <:+ s := by
  unfold displayNameOf TagName.from at h
  split at h
  · rename_i he
    simp [TagName.displayName, TagName.asRef, sFavourite, bs, strFrom, isBoundary, isCont] at h
    subst he h
    simp [sFavourite, bs]
    exact ⟨[109, 46], rfl⟩
  · split at h
    · rename_i he
      simp [TagName.displayName, TagName.asRef, sLowPriority, bs, strFrom, isBoundary, isCont] at h
      subst he h
      simp [sLowPriority, bs]
      exact ⟨[109, 46], rfl⟩
    · split at h
      · rename_i he
        simp [TagName.displayName, TagName.asRef, sServerNotice, bs, strFrom, isBoundary, isCont] at h
        subst he h
        simp [sServerNotice, bs]
        exact ⟨[109, 46], rfl⟩
      · split at h
        · rename_i hpre
          obtain ⟨t, rfl⟩ := List.isPrefixOf_iff_prefix.mp hpre
          simp only [List.cons_append, List.nil_append] at h hs
          rw [displayName_user t hs] at h
          simp only [Out.ok.injEq] at h
          subst h
          exact ⟨[117, 46], rfl⟩
        · rw [displayName_custom s hs] at h
          simp only [Out.ok.injEq] at h
          subst h
          split
          · exact List.drop_suffix _ _
          · exact List.suffix_refl _

end Ruma.ScanTag
