/-
  Lemmas for C15, general form of the idempotence theorem: attribute lists as ordered sets
  (`BTreeSet<Attribute>`): the derived order of `Attribute` is a strict total order, the set
  operations of the model keep lists in order, collecting an ordered list gives it back; with that,
  "the output is clean" for configurations whose replacement tables are settled in the weaker
  sense `SettledW` (no attribute that may remain is renamed), on trees with ordered attribute
  lists — what the parser delivers. Core Lean only.
-/
import RumaModel.Lemmas.HtmlIdem
namespace Ruma.Lemmas.Html
open Ruma Ruma.Html Ruma.Spec.HtmlPolicy

/-! ### `Attribute`'s derived order is a strict total order -/

theorem str_lt_irrefl (a : Str) : ¬ a < a := List.lt_irrefl a
theorem str_lt_asymm {a b : Str} (h : a < b) : ¬ b < a := List.lt_asymm h
theorem str_lt_trans {a b c : Str} (h1 : a < b) (h2 : b < c) : a < c := List.lt_trans h1 h2
theorem str_lt_total (a b : Str) : a < b ∨ a = b ∨ b < a := by
  by_cases h1 : a < b
  · exact .inl h1
  · by_cases h2 : b < a
    · exact .inr (.inr h2)
    · exact .inr (.inl (List.le_antisymm (List.not_lt.1 h2) (List.not_lt.1 h1)))

theorem optStrLt_irrefl (a : Option Str) : optStrLt a a = false := by
  cases a with
  | none => rfl
  | some x => simp [optStrLt, str_lt_irrefl]

theorem optStrLt_asymm {a b : Option Str} (h : optStrLt a b = true) : optStrLt b a = false := by
  cases a <;> cases b <;> simp_all [optStrLt]
  exact str_lt_asymm h

theorem optStrLt_trans {a b c : Option Str} (h1 : optStrLt a b = true) (h2 : optStrLt b c = true) :
    optStrLt a c = true := by
  cases a <;> cases b <;> cases c <;> simp_all [optStrLt]
  exact str_lt_trans h1 h2

theorem optStrLt_total (a b : Option Str) : optStrLt a b = true ∨ a = b ∨ optStrLt b a = true := by
  cases a with
  | none => cases b <;> simp [optStrLt]
  | some x =>
    cases b with
    | none => simp [optStrLt]
    | some y =>
      simp only [optStrLt, decide_eq_true_eq, Option.some.injEq]
      exact str_lt_total x y

/-- The key of the order: `a.lt b` is the lexicographic order of the 4-tuples. -/
theorem Attr.lt_iff (a b : Attr) : a.lt b = true ↔
    optStrLt a.pfx b.pfx = true ∨ (a.pfx = b.pfx ∧ (a.ns < b.ns ∨ (a.ns = b.ns ∧
      (a.name < b.name ∨ (a.name = b.name ∧ a.value < b.value))))) := by
  simp [Attr.lt]

theorem attr_lt_irrefl (a : Attr) : a.lt a = false := by
  cases h : a.lt a
  · rfl
  · rw [Attr.lt_iff] at h
    rcases h with h | ⟨_, h | ⟨_, h | ⟨_, h⟩⟩⟩
    · rw [optStrLt_irrefl] at h; cases h
    · exact absurd h (str_lt_irrefl _)
    · exact absurd h (str_lt_irrefl _)
    · exact absurd h (str_lt_irrefl _)

theorem attr_lt_trans {a b c : Attr} (h1 : a.lt b = true) (h2 : b.lt c = true) : a.lt c = true := by
  rw [Attr.lt_iff] at *
  rcases h1 with h1 | ⟨e1, h1⟩
  · rcases h2 with h2 | ⟨e2, _⟩
    · exact .inl (optStrLt_trans h1 h2)
    · rw [← e2]; exact .inl h1
  · rcases h2 with h2 | ⟨e2, h2⟩
    · rw [e1]; exact .inl h2
    · refine .inr ⟨e1.trans e2, ?_⟩
      rcases h1 with h1 | ⟨f1, h1⟩
      · rcases h2 with h2 | ⟨f2, _⟩
        · exact .inl (str_lt_trans h1 h2)
        · rw [← f2]; exact .inl h1
      · rcases h2 with h2 | ⟨f2, h2⟩
        · rw [f1]; exact .inl h2
        · refine .inr ⟨f1.trans f2, ?_⟩
          rcases h1 with h1 | ⟨g1, h1⟩
          · rcases h2 with h2 | ⟨g2, _⟩
            · exact .inl (str_lt_trans h1 h2)
            · rw [← g2]; exact .inl h1
          · rcases h2 with h2 | ⟨g2, h2⟩
            · rw [g1]; exact .inl h2
            · exact .inr ⟨g1.trans g2, str_lt_trans h1 h2⟩

theorem attr_lt_asymm {a b : Attr} (h : a.lt b = true) : b.lt a = false := by
  cases h2 : b.lt a
  · rfl
  · have := attr_lt_trans h h2
    rw [attr_lt_irrefl] at this; cases this

theorem attr_lt_total (a b : Attr) : a.lt b = true ∨ a = b ∨ b.lt a = true := by
  rcases optStrLt_total a.pfx b.pfx with h | h | h
  · exact .inl ((Attr.lt_iff a b).2 (.inl h))
  · rcases str_lt_total a.ns b.ns with g | g | g
    · exact .inl ((Attr.lt_iff a b).2 (.inr ⟨h, .inl g⟩))
    · rcases str_lt_total a.name b.name with f | f | f
      · exact .inl ((Attr.lt_iff a b).2 (.inr ⟨h, .inr ⟨g, .inl f⟩⟩))
      · rcases str_lt_total a.value b.value with e | e | e
        · exact .inl ((Attr.lt_iff a b).2 (.inr ⟨h, .inr ⟨g, .inr ⟨f, e⟩⟩⟩))
        · right; left
          cases a; cases b; simp_all
        · exact .inr (.inr ((Attr.lt_iff b a).2 (.inr ⟨h.symm, .inr ⟨g.symm, .inr ⟨f.symm, e⟩⟩⟩)))
      · exact .inr (.inr ((Attr.lt_iff b a).2 (.inr ⟨h.symm, .inr ⟨g.symm, .inl f⟩⟩)))
    · exact .inr (.inr ((Attr.lt_iff b a).2 (.inr ⟨h.symm, .inl g⟩)))
  · exact .inr (.inr ((Attr.lt_iff b a).2 (.inl h)))

theorem attr_ne_of_lt {a b : Attr} (h : a.lt b = true) : a ≠ b := by
  intro e; subst e; rw [attr_lt_irrefl] at h; cases h

/-! ### sorted attribute sets -/

/-- The `BTreeSet` invariant: strictly ascending. -/
def SortedA (as : List Attr) : Prop := List.Pairwise (fun a b => a.lt b = true) as

theorem setInsert_sorted (a : Attr) (s : List Attr) (h : SortedA s) : SortedA (setInsert a s) := by
  induction s with
  | nil => simp [setInsert, SortedA]
  | cons b t ih =>
    unfold SortedA at h ih ⊢
    rw [List.pairwise_cons] at h
    unfold setInsert
    by_cases e : a = b
    · simp only [e, if_true]; exact List.pairwise_cons.2 h
    · simp only [e, if_false]
      by_cases l : a.lt b = true
      · simp only [l, if_true]
        refine List.pairwise_cons.2 ⟨?_, List.pairwise_cons.2 h⟩
        intro x hx
        rcases List.mem_cons.1 hx with rfl | hx
        · exact l
        · exact attr_lt_trans l (h.1 x hx)
      · simp only [l]
        have hba : b.lt a = true := by
          rcases attr_lt_total a b with h' | h' | h'
          · exact absurd h' l
          · exact absurd h' e
          · exact h'
        refine List.pairwise_cons.2 ⟨?_, ih h.2⟩
        intro x hx
        rcases (mem_setInsert a x t).1 hx with rfl | hx
        · exact hba
        · exact h.1 x hx

theorem setErase_sorted (a : Attr) (s : List Attr) (h : SortedA s) : SortedA (setErase a s) :=
  List.Pairwise.filter _ h

theorem foldl_insert_sorted (l acc : List Attr) (h : SortedA acc) :
    SortedA (l.foldl (fun acc a => setInsert a acc) acc) := by
  induction l generalizing acc with
  | nil => exact h
  | cons x t ih => exact ih _ (setInsert_sorted x acc h)

theorem setCollect_sorted (l : List Attr) : SortedA (setCollect l) :=
  foldl_insert_sorted l [] (by simp [SortedA])

/-- Inserting an attribute that is greater than everything present appends it. -/
theorem setInsert_last (a : Attr) (s : List Attr) (h : ∀ b ∈ s, b.lt a = true) :
    setInsert a s = s ++ [a] := by
  induction s with
  | nil => rfl
  | cons b t ih =>
    have hb := h b (by simp)
    have e : ¬ a = b := fun e => attr_ne_of_lt hb e.symm
    have l : a.lt b = false := attr_lt_asymm hb
    simp only [setInsert, e, l, if_false, List.cons_append, Bool.false_eq_true]
    rw [ih (fun x hx => h x (by simp [hx]))]

theorem foldl_insert_of_sorted (l acc : List Attr) (h : SortedA (acc ++ l)) :
    l.foldl (fun acc a => setInsert a acc) acc = acc ++ l := by
  induction l generalizing acc with
  | nil => simp
  | cons x t ih =>
    have hx : ∀ b ∈ acc, b.lt x = true := by
      intro b hb
      unfold SortedA at h
      rw [List.pairwise_append] at h
      exact h.2.2 b hb x (by simp)
    simp only [List.foldl_cons, setInsert_last x acc hx]
    have : SortedA ((acc ++ [x]) ++ t) := by simpa using h
    rw [ih _ this]; simp

/-- Collecting a set that is already in order gives it back. -/
theorem setCollect_of_sorted (l : List Attr) (h : SortedA l) : setCollect l = l := by
  have := foldl_insert_of_sorted l [] (by simpa using h)
  simpa [setCollect] using this

theorem applyActions_sorted (acts : List AttrAction) (s : List Attr) (h : SortedA s) :
    SortedA (applyActions acts s) := by
  induction acts generalizing s with
  | nil => exact h
  | cons act t ih =>
    cases act with
    | remove b => exact ih _ (setErase_sorted b s h)
    | replaceValue b v =>
      simp only [applyActions]
      split
      · exact ih _ (setInsert_sorted _ _ (setErase_sorted b s h))
      · exact ih _ h

theorem cleanAttrs_sorted (L : Lists) (c : Cfg) (n : Str) (as : List Attr) (h : SortedA as) :
    SortedA (cleanAttrs L c n as) := applyActions_sorted _ _ h

theorem replaceAttrsOf_sorted (L : Lists) (c : Cfg) (n : Str) (as : List Attr) (h : SortedA as) :
    SortedA (replaceAttrsOf L c n as) := by
  unfold replaceAttrsOf
  simp only
  by_cases hc : ((c.replaceAttrs.bind fun l => mapGet l.content n).isSome ||
      (if (!isOverride c.replaceAttrs && c.useStrict) = true then mapGet L.deprecatedAttrs n else none).isSome) = true
  · rw [if_pos hc]; exact setCollect_sorted _
  · rw [if_neg hc]; exact h

/-! ### trees whose attribute lists are sets in order -/

/-- Every element's attribute list is strictly ascending: what the parser hands over (a
`BTreeSet`). The depth index of `AllElems` plays no role. -/
def SortedTree (f : List Node) : Prop := AllElemsL (fun _ _ as => SortedA as) 0 f

mutual
theorem allElems_imp (p q : Nat → Str → List Attr → Prop) (h : ∀ d n as, p d n as → q d n as) :
    ∀ (node : Node) (d : Nat), AllElems p d node → AllElems q d node
  | .text _, _, _ => by simp [AllElems]
  | .other, _, _ => by simp [AllElems]
  | .elem n as cs, d, hp => by
    simp only [AllElems] at hp ⊢
    exact ⟨h d n as hp.1, allElemsL_imp p q h cs (d + 1) hp.2⟩
theorem allElemsL_imp (p q : Nat → Str → List Attr → Prop) (h : ∀ d n as, p d n as → q d n as) :
    ∀ (l : List Node) (d : Nat), AllElemsL p d l → AllElemsL q d l
  | [], _, _ => by simp [AllElemsL]
  | n :: t, d, hp => by
    simp only [AllElemsL] at hp ⊢
    exact ⟨allElems_imp p q h n d hp.1, allElemsL_imp p q h t d hp.2⟩
end

mutual
theorem cleanNode_sorted (L : Lists) (c : Cfg) : ∀ (node : Node) (d e e' : Nat),
    AllElems (fun _ _ as => SortedA as) e node →
    AllElemsL (fun _ _ as => SortedA as) e' (cleanNode L c d node)
  | .text s, _, _, _, _ => by simp [cleanNode, AllElemsL, AllElems]
  | .other, _, _, _, _ => by simp [cleanNode, AllElemsL]
  | .elem n as cs, d, e, e', h => by
    simp only [AllElems] at h
    simp only [cleanNode]
    split
    · simp [AllElemsL]
    · exact cleanList_sorted L c cs (d + 1) (e + 1) e' h.2
    · simp only [AllElemsL, AllElems, and_true]
      exact ⟨cleanAttrs_sorted L c _ _ (replaceAttrsOf_sorted L c n as h.1),
        cleanList_sorted L c cs (d + 1) (e + 1) (e' + 1) h.2⟩
theorem cleanList_sorted (L : Lists) (c : Cfg) : ∀ (l : List Node) (d e e' : Nat),
    AllElemsL (fun _ _ as => SortedA as) e l →
    AllElemsL (fun _ _ as => SortedA as) e' (cleanList L c d l)
  | [], _, _, _, _ => by simp [cleanList, AllElemsL]
  | n :: t, d, e, e', h => by
    simp only [AllElemsL] at h
    simp only [cleanList, allElemsL_append]
    exact ⟨cleanNode_sorted L c n d e e' h.1, cleanList_sorted L c t d e e' h.2⟩
end

/-- Sanitization keeps attribute lists in order. -/
theorem clean_sorted (L : Lists) (c : Cfg) (roots : List Node) (h : SortedTree roots) :
    SortedTree (clean L c roots) := cleanList_sorted L c roots 0 0 0 h

/-! ### attribute renamings -/

/-- The name attribute `a` of element `n` has after `apply_replacements`. -/
def attrRenameOf (L : Lists) (c : Cfg) (n a : Str) : Str :=
  match ((c.replaceAttrs.bind (fun l => mapGet l.content n)).bind (mapGet · a)).orElse
      (fun _ => (if !isOverride c.replaceAttrs && c.useStrict then mapGet L.deprecatedAttrs n else none).bind
        (mapGet · a)) with
  | some x => x
  | none => a

theorem renameAttr_eq (L : Lists) (c : Cfg) (n : Str) (a : Attr) :
    renameAttr (c.replaceAttrs.bind (fun l => mapGet l.content n))
      (if !isOverride c.replaceAttrs && c.useStrict then mapGet L.deprecatedAttrs n else none) a =
    { a with name := attrRenameOf L c n a.name } := by
  unfold renameAttr attrRenameOf
  split <;> rename_i h <;> simp only [h]

/-- `apply_replacements` leaves an ordered attribute set alone if none of its names is renamed. -/
theorem replaceAttrsOf_fix (L : Lists) (c : Cfg) (n : Str) (as : List Attr) (hs : SortedA as)
    (h : ∀ a ∈ as, attrRenameOf L c n a.name = a.name) : replaceAttrsOf L c n as = as := by
  unfold replaceAttrsOf
  simp only
  have key : as.map (renameAttr (c.replaceAttrs.bind (fun l => mapGet l.content n))
      (if !isOverride c.replaceAttrs && c.useStrict then mapGet L.deprecatedAttrs n else none)) = as := by
    conv => rhs; rw [← List.map_id as]
    apply List.map_congr_left
    intro a ha
    rw [renameAttr_eq, h a ha]; rfl
  by_cases hc : ((c.replaceAttrs.bind fun l => mapGet l.content n).isSome ||
      (if (!isOverride c.replaceAttrs && c.useStrict) = true then mapGet L.deprecatedAttrs n else none).isSome) = true
  · rw [if_pos hc, key]; exact setCollect_of_sorted as hs
  · rw [if_neg hc]

/-- The replacement tables are settled (general form, for ordered attribute sets): an element
that may remain in the output is not itself replaced, none of the attributes that may remain on
it is renamed, and its `class` attribute carries no scheme restriction. -/
def SettledW (L : Lists) (c : Cfg) : Prop :=
  ∀ n, elemOk L c n = true →
    replaceNameOf L c n = n ∧ (∀ a, attrOk L c n a = true → attrRenameOf L c n a = a) ∧
    ∀ v, valueOk L c n className v = true

theorem settledW_of_settled (L : Lists) (c : Cfg) (h : Settled L c) : SettledW L c := by
  intro n he
  obtain ⟨h1, h2, h3⟩ := h n he
  refine ⟨h1, ?_, h3⟩
  intro a _
  unfold hasAttrRepl at h2
  simp only [Bool.or_eq_false_iff, Option.isSome_eq_false_iff, Option.isNone_iff_eq_none] at h2
  unfold attrRenameOf
  rw [h2.1, h2.2]; rfl

/-- Kept as it is, not replaced, and no attribute renamed. -/
def KeepsNR (L : Lists) (c : Cfg) (d : Nat) (n : Str) (as : List Attr) : Prop :=
  Keeps L c d n as ∧ replaceNameOf L c n = n ∧ ∀ a ∈ as, attrRenameOf L c n a.name = a.name

theorem keepsNR_of_none (L : Lists) (c : Cfg) (hs : SettledW L c) (dOut dIn : Nat) (n : Str)
    (as : List Attr) (hle : dOut ≤ dIn) (h : nodeAction L c n as dIn = .none) :
    KeepsNR L c dOut n (cleanAttrs L c n as) := by
  have he := elemOk_of_none L c n as dIn h
  obtain ⟨hn, hr, hc⟩ := hs n he
  refine ⟨⟨he, ?_, ?_⟩, hn, ?_⟩
  · intro m hm
    exact Nat.lt_of_le_of_lt hle (depth_of_none L c n as dIn m h hm)
  · intro a ha
    have hg := (attrGood_iff L c n a).1 (cleanAttrs_good L c n as a ha)
    refine ⟨hg.1, ?_, hg.2⟩
    by_cases hcl : a.name = className
    · rw [hcl]; exact hc a.value
    · exact ((nodeAction_none_iff L c n as dIn).1 h).2.2.2 a (cleanAttrs_origin L c n as a ha hcl)
  · intro a ha
    have hg := (attrGood_iff L c n a).1 (cleanAttrs_good L c n as a ha)
    exact hr a.name hg.1.1

theorem cleanElem_of_keepsNR (L : Lists) (c : Cfg) (d : Nat) (n : Str) (as : List Attr)
    (h : KeepsNR L c d n as ∧ SortedA as) : CleanElem L c d n as :=
  ⟨h.1.1, h.1.2.1, replaceAttrsOf_fix L c n as h.2 h.1.2.2⟩

/-- For a configuration with settled replacement tables (general form) and a forest whose
attribute lists are in order, the output of sanitization satisfies `Clean`. -/
theorem clean_clean_of_sorted (L : Lists) (c : Cfg) (hs : SettledW L c) (roots : List Node)
    (hw : SortedTree roots) : Clean L c 0 (clean L c roots) := by
  refine ⟨?_, cleanList_noOther L c roots 0⟩
  have h1 := cleanList_all L c (KeepsNR L c)
    (fun dOut dIn n as hle h => keepsNR_of_none L c hs dOut dIn n as hle h) roots 0 0 (Nat.le_refl 0)
  have h2 := clean_sorted L c roots hw
  have := (allElemsL_and (KeepsNR L c) (fun _ _ as => SortedA as) _ 0).2 ⟨h1, h2⟩
  exact allElemsL_imp _ _ (cleanElem_of_keepsNR L c) _ 0 this

/-! ### the decidable form -/

/-- The attribute names the replacement tables of element `n` mention. -/
def renameCandidates (L : Lists) (c : Cfg) (n : Str) : List Str :=
  (match c.replaceAttrs.bind (fun l => mapGet l.content n) with | some t => t.map (·.1) | none => []) ++
  (match (if !isOverride c.replaceAttrs && c.useStrict then mapGet L.deprecatedAttrs n else none) with
    | some t => t.map (·.1) | none => [])

theorem attrRenameOf_of_not_candidate (L : Lists) (c : Cfg) (n a : Str)
    (h : a ∉ renameCandidates L c n) : attrRenameOf L c n a = a := by
  unfold renameCandidates at h
  simp only [List.mem_append, not_or] at h
  have e1 : (c.replaceAttrs.bind (fun l => mapGet l.content n)).bind (mapGet · a) = none := by
    cases ht : c.replaceAttrs.bind (fun l => mapGet l.content n) with
    | none => rfl
    | some t =>
      have := h.1; rw [ht] at this
      simp only [Option.bind_some]; exact mapGet_none_of_not_mem _ _ this
  have e2 : (if !isOverride c.replaceAttrs && c.useStrict then mapGet L.deprecatedAttrs n else none).bind
      (mapGet · a) = none := by
    cases ht : (if !isOverride c.replaceAttrs && c.useStrict then mapGet L.deprecatedAttrs n else none) with
    | none => rfl
    | some t =>
      have := h.2; rw [ht] at this
      simp only [Option.bind_some]; exact mapGet_none_of_not_mem _ _ this
  unfold attrRenameOf
  rw [e1, e2]; rfl

/-- For an element name no table mentions, the strong form of settledness holds. -/
theorem settled_noncandidate (L : Lists) (c : Cfg) (n : Str) (hm : n ∉ settledCandidates L c) :
    replaceNameOf L c n = n ∧ hasAttrRepl L c n = false ∧ ∀ v, valueOk L c n className v = true := by
  unfold settledCandidates at hm
  simp only [List.mem_append, not_or] at hm
  obtain ⟨⟨⟨⟨⟨⟨⟨h1, h2⟩, h3⟩, h4⟩, h5⟩, h6⟩, h7⟩, h8⟩ := hm
  have e1 : c.replaceElements.bind (fun l => mapGet l.content n) = none := by
    cases hc : c.replaceElements with
    | none => rfl
    | some l => rw [hc] at h1; exact mapGet_none_of_not_mem _ _ h1
  have e2 : mapGet L.deprecatedElements n = none := mapGet_none_of_not_mem _ _ h2
  have e3 : c.replaceAttrs.bind (fun l => mapGet l.content n) = none := by
    cases hc : c.replaceAttrs with
    | none => rfl
    | some l => rw [hc] at h3; exact mapGet_none_of_not_mem _ _ h3
  have e4 : mapGet L.deprecatedAttrs n = none := mapGet_none_of_not_mem _ _ h4
  have e5 : c.denySchemes.bind (mapGet · n) = none := by
    cases hc : c.denySchemes with
    | none => rfl
    | some l => rw [hc] at h5; exact mapGet_none_of_not_mem _ _ h5
  have e6 : c.allowSchemes.bind (fun l => mapGet l.content n) = none := by
    cases hc : c.allowSchemes with
    | none => rfl
    | some l => rw [hc] at h6; exact mapGet_none_of_not_mem _ _ h6
  have e7 : mapGet L.schemesStrict n = none := mapGet_none_of_not_mem _ _ h7
  have e8 : mapGet L.schemesCompat n = none := mapGet_none_of_not_mem _ _ h8
  refine ⟨?_, ?_, ?_⟩
  · simp [replaceNameOf, e1, e2]
  · simp [hasAttrRepl, e3, e4]
  · intro v
    apply classFree_valueOk
    simp [classFree, e5, schemeList_eq_model, schemeCtx, attrSchemes, e6, e7, e8]

/-- `SettledW`, checked on the finitely many element and attribute names that any table mentions. -/
def settledWB (L : Lists) (c : Cfg) : Bool :=
  (settledCandidates L c).all (fun n =>
    !elemOk L c n || (replaceNameOf L c n == n && classFree L c n &&
      (renameCandidates L c n).all (fun a => !attrOk L c n a || attrRenameOf L c n a == a)))

theorem settledW_of_settledWB (L : Lists) (c : Cfg) (h : settledWB L c = true) : SettledW L c := by
  intro n he
  by_cases hm : n ∈ settledCandidates L c
  · unfold settledWB at h
    rw [List.all_eq_true] at h
    have := h n hm
    simp only [he, Bool.not_true, Bool.false_or, Bool.and_eq_true, beq_iff_eq, List.all_eq_true,
      Bool.or_eq_true, Bool.not_eq_true'] at this
    refine ⟨this.1.1, ?_, classFree_valueOk L c n this.1.2⟩
    intro a ha
    by_cases hc : a ∈ renameCandidates L c n
    · rcases this.2 a hc with h' | h'
      · rw [ha] at h'; cases h'
      · exact h'
    · exact attrRenameOf_of_not_candidate L c n a hc
  · -- a name no table mentions: the strong form holds
    obtain ⟨h1, h2, h3⟩ := settled_noncandidate L c n hm
    refine ⟨h1, ?_, h3⟩
    intro a _
    unfold hasAttrRepl at h2
    simp only [Bool.or_eq_false_iff, Option.isSome_eq_false_iff, Option.isNone_iff_eq_none] at h2
    unfold attrRenameOf
    rw [h2.1, h2.2]; rfl

/-- Executable check of `SortedA` on adjacent pairs (used by the drivers to reject a request whose
attribute lists are not in the model's order: the order of the model must be Rust's). -/
def sortedAB : List Attr → Bool
  | a :: b :: t => a.lt b && sortedAB (b :: t)
  | _ => true

mutual
def sortedNodeB : Node → Bool
  | .elem _ as cs => sortedAB as && sortedForestB cs
  | .text _ => true
  | .other => true
def sortedForestB : List Node → Bool
  | [] => true
  | n :: t => sortedNodeB n && sortedForestB t
end

end Ruma.Lemmas.Html
