/-
  Helper lemmas for C16 (glue), part 2: each group of fields (path, query, headers, body) is read
  back from what the sending side wrote.
-/
import RumaModel.Model.EndpointGlue
import RumaModel.Lemmas.EndpointForm
import RumaModel.Lemmas.EndpointNoPanic
namespace Ruma.Glue
open Ruma Ruma.Endpoint
open Ruma.Spec.Endpoint (Version AuthScheme percentDecode segmentUnsafe)

/-! ### Canonical wire forms, per group -/

/-- Every wire form of the list is the wire form of a value of the corresponding codec. -/
def CanonAll : List (Codec W) → List W → Prop
  | [], [] => True
  | c :: cs, w :: ws => c.Canon w ∧ CanonAll cs ws
  | _, _ => False

/-- Header fields: an absent optional header is a value; a present one must be one of its codec. -/
def HeaderCanon : List HeaderField → List (Option Str) → Prop
  | [], [] => True
  | f :: fs, v :: vs =>
    (match v with | some s => f.codec.Canon s | none => f.optional = true) ∧ HeaderCanon fs vs
  | _, _ => False

/-! ### Path arguments -/

theorem decodePathArgs_canon : ∀ (cs : List (Codec Str)) (args : List Str), CanonAll cs args →
    decodePathArgs cs args = some args
  | [], [], _ => rfl
  | c :: cs, a :: as, h => by
    obtain ⟨h1, h2⟩ := h
    simp only [decodePathArgs, show c.norm a = some a from h1, decodePathArgs_canon cs as h2,
      Option.map_some]
  | [], _ :: _, h => absurd h (by simp [CanonAll])
  | _ :: _, [], h => absurd h (by simp [CanonAll])

/-! ### Query fields -/

theorem valuesFor_append (n : Str) (a b : List (Str × Str)) :
    valuesFor n (a ++ b) = valuesFor n a ++ valuesFor n b := by
  simp [valuesFor, List.filterMap_append]

theorem valuesFor_none (n : Str) : ∀ (ps : List (Str × Str)), (∀ p ∈ ps, p.1 ≠ n) → valuesFor n ps = []
  | [], _ => rfl
  | p :: ps, h => by
    have h1 : p.1 ≠ n := h p (by simp)
    have := valuesFor_none n ps (fun q hq => h q (List.mem_cons_of_mem _ hq))
    simp only [valuesFor, List.filterMap_cons, h1, if_false] at this ⊢
    exact this

theorem valuesFor_own (n : Str) (vs : List Str) : valuesFor n (vs.map (fun x => (n, x))) = vs := by
  induction vs with
  | nil => rfl
  | cons x xs ih =>
    simp only [valuesFor, List.map_cons, List.filterMap_cons, if_true] at ih ⊢
    rw [ih]

theorem queryPairs_keys : ∀ (fs : List (Str × Codec (List Str))) (vss : List (List Str)),
    ∀ p ∈ queryPairs fs vss, p.1 ∈ fs.map (·.1)
  | [], _, p, hp => by simp [queryPairs] at hp
  | _ :: _, [], p, hp => by simp [queryPairs] at hp
  | (n, c) :: fs, vs :: vss, p, hp => by
    simp only [queryPairs, List.mem_append, List.mem_map] at hp
    rcases hp with ⟨x, _, rfl⟩ | hp
    · simp
    · have := queryPairs_keys fs vss p hp
      simp only [List.map_cons, List.mem_cons]
      exact Or.inr this

theorem queryPairs_cons (n : Str) (c : Codec (List Str)) (fs : List (Str × Codec (List Str)))
    (vs : List Str) (vss : List (List Str)) :
    queryPairs ((n, c) :: fs) (vs :: vss) = vs.map (fun x => (n, x)) ++ queryPairs fs vss := rfl

/-- Reading the query fields from the written pairs, with any pairs of foreign keys in front. -/
theorem decodeQueryFields_pairs : ∀ (fs : List (Str × Codec (List Str))) (vss : List (List Str))
    (pre : List (Str × Str)),
    (fs.map (·.1)).Nodup → (∀ p ∈ pre, p.1 ∉ fs.map (·.1)) → CanonAll (fs.map (·.2)) vss →
    decodeQueryFields fs (pre ++ queryPairs fs vss) = some vss
  | [], [], _, _, _, _ => rfl
  | [], _ :: _, _, _, _, h => absurd h (by simp [CanonAll])
  | _ :: _, [], _, _, _, h => absurd h (by simp [CanonAll])
  | (n, c) :: fs, vs :: vss, pre, hnd, hpre, hc => by
    obtain ⟨hc1, hc2⟩ := hc
    have hnd' : (fs.map (·.1)).Nodup := (List.nodup_cons.1 hnd).2
    have hn : n ∉ fs.map (·.1) := (List.nodup_cons.1 hnd).1
    have hvals : valuesFor n (pre ++ queryPairs ((n, c) :: fs) (vs :: vss)) = vs := by
      rw [queryPairs_cons, valuesFor_append, valuesFor_append, valuesFor_own,
        valuesFor_none n pre (fun p hp e => hpre p hp (by simp [e])),
        valuesFor_none n (queryPairs fs vss) (fun p hp e => hn (e ▸ queryPairs_keys fs vss p hp))]
      simp
    have htail := decodeQueryFields_pairs fs vss (pre ++ vs.map (fun x => (n, x))) hnd'
      (by
        intro p hp
        rcases List.mem_append.1 hp with hp | hp
        · intro hm; exact hpre p hp (by simp [hm])
        · obtain ⟨x, _, rfl⟩ := List.mem_map.1 hp
          exact hn) hc2
    rw [decodeQueryFields, hvals, show c.norm vs = some vs from hc1]
    rw [queryPairs_cons, ← List.append_assoc, htail]
    rfl

/-! ### The header map -/

theorem hGet_append (a b : Headers) (n : Str) :
    hGet (a ++ b) n = (hGet a n).orElse (fun _ => hGet b n) := by
  induction a with
  | nil => simp [hGet]
  | cons p t ih =>
    obtain ⟨k, v⟩ := p
    simp only [List.cons_append, hGet]
    split
    · simp
    · exact ih

theorem hGet_filter_ne (hs : Headers) (m n : Str) (h : m ≠ n) :
    hGet (hs.filter (fun p => p.1 ≠ m)) n = hGet hs n := by
  induction hs with
  | nil => rfl
  | cons p t ih =>
    obtain ⟨k, v⟩ := p
    by_cases hk : k = m
    · subst hk
      simp only [List.filter_cons, ne_eq, not_true_eq_false, decide_false, Bool.false_eq_true,
        if_false, hGet, h]
      exact ih
    · simp only [List.filter_cons, ne_eq, hk, not_false_eq_true, decide_true, if_true, hGet]
      split
      · rfl
      · exact ih

theorem hGet_filter_self (hs : Headers) (n : Str) : hGet (hs.filter (fun p => p.1 ≠ n)) n = none := by
  induction hs with
  | nil => rfl
  | cons p t ih =>
    obtain ⟨k, v⟩ := p
    by_cases hk : k = n
    · simp only [List.filter_cons, ne_eq, hk, not_true_eq_false, decide_false, Bool.false_eq_true,
        if_false]
      exact ih
    · simp only [List.filter_cons, ne_eq, hk, not_false_eq_true, decide_true, if_true, hGet, if_false]
      exact ih

theorem hGet_hInsert (hs : Headers) (m v n : Str) :
    hGet (hInsert hs m v) n = if m = n then some v else hGet hs n := by
  unfold hInsert
  rw [hGet_append]
  by_cases h : m = n
  · subst h
    rw [hGet_filter_self]
    simp [hGet]
  · rw [hGet_filter_ne hs m n h]
    simp only [hGet, h, if_false]
    cases hGet hs n <;> rfl

/-- The value the loop over the header fields leaves under a name: that of the last field with
this header name that has a value. -/
def lookupPut : List HeaderField → List (Option Str) → Str → Option Str
  | f :: fs, v :: vs, n =>
    match lookupPut fs vs n with
    | some s => some s
    | none => if f.header = n then v else none
  | _, _, _ => none

theorem hGet_putHeaderFields : ∀ (fs : List HeaderField) (vs : List (Option Str)) (hs hs' : Headers)
    (n : Str), putHeaderFields fs vs hs = .ok hs' →
    hGet hs' n = (lookupPut fs vs n).orElse (fun _ => hGet hs n)
  | [], _, hs, hs', n, h => by
    simp only [putHeaderFields] at h
    cases h
    simp [lookupPut]
  | _ :: _, [], hs, hs', n, h => by
    simp only [putHeaderFields] at h
    cases h
    simp [lookupPut]
  | f :: fs, none :: vs, hs, hs', n, h => by
    simp only [putHeaderFields] at h
    rw [hGet_putHeaderFields fs vs hs hs' n h, lookupPut]
    cases lookupPut fs vs n with
    | some s => rfl
    | none => simp
  | f :: fs, some s :: vs, hs, hs', n, h => by
    simp only [putHeaderFields] at h
    split at h
    · rw [hGet_putHeaderFields fs vs _ hs' n h, lookupPut, hGet_hInsert]
      cases lookupPut fs vs n with
      | some s' => rfl
      | none =>
        by_cases hn : f.header = n <;> simp [hn]
    · cases h

/-- With distinct header names the value left under a field's name is the field's own. -/
theorem lookupPut_own : ∀ (fs : List HeaderField) (vs : List (Option Str)) (f : HeaderField)
    (v : Option Str), (fs.map (·.header)).Nodup → (f, v) ∈ fs.zip vs →
    lookupPut fs vs f.header = v
  | [], _, _, _, _, h => by simp at h
  | _ :: _, [], _, _, _, h => by simp at h
  | g :: fs, w :: vs, f, v, hnd, h => by
    have hnd' := (List.nodup_cons.1 hnd).2
    have hg : g.header ∉ fs.map (·.header) := (List.nodup_cons.1 hnd).1
    simp only [List.zip_cons_cons, List.mem_cons, Prod.mk.injEq] at h
    rw [lookupPut]
    rcases h with ⟨rfl, rfl⟩ | h
    · have : lookupPut fs vs f.header = none := by
        -- no later field has this header name
        clear hnd
        induction fs generalizing vs with
        | nil => simp [lookupPut]
        | cons e es ih =>
          cases vs with
          | nil => simp [lookupPut]
          | cons u us =>
            have he : e.header ≠ f.header := fun e' => hg (by simp [e'])
            rw [lookupPut, ih us (List.nodup_cons.1 hnd').2 (fun hm => hg (by simp [hm]))]
            simp [he]
      rw [this]
      simp
    · have hmem : f.header ∈ fs.map (·.header) :=
        List.mem_map.2 ⟨f, (List.of_mem_zip h).1, rfl⟩
      have hne : g.header ≠ f.header := fun e => hg (e ▸ hmem)
      rw [lookupPut_own fs vs f v hnd' h]
      cases v with
      | some s => rfl
      | none => simp [hne]

/-! ### Body fields -/

theorem bodyEntries_keys : ∀ (fs : List (Str × Codec (Option JVal))) (ws : List (Option JVal)),
    ∀ p ∈ bodyEntries fs ws, p.1 ∈ fs.map (·.1)
  | [], _, p, hp => by simp [bodyEntries] at hp
  | _ :: _, [], p, hp => by simp [bodyEntries] at hp
  | (n, c) :: fs, w :: ws, p, hp => by
    simp only [bodyEntries, List.mem_append] at hp
    rcases hp with hp | hp
    · cases w with
      | none => simp at hp
      | some j =>
        simp only [List.mem_singleton] at hp
        subst hp
        simp
    · have := bodyEntries_keys fs ws p hp
      simp only [List.map_cons, List.mem_cons]
      exact Or.inr this

theorem filter_key_none (n : Str) (o : List (Str × JVal)) (h : ∀ p ∈ o, p.1 ≠ n) :
    o.filter (fun p => p.1 = n) = [] := by
  apply List.filter_eq_nil_iff.2
  intro p hp
  simpa using h p hp

theorem bodyEntries_cons (n : Str) (c : Codec (Option JVal)) (fs : List (Str × Codec (Option JVal)))
    (w : Option JVal) (ws : List (Option JVal)) :
    bodyEntries ((n, c) :: fs) (w :: ws)
      = (match w with | some j => [(n, j)] | none => []) ++ bodyEntries fs ws := rfl

/-- Reading the body fields from the written object, with any members of foreign keys in front. -/
theorem fieldsFromObj_entries : ∀ (fs : List (Str × Codec (Option JVal))) (ws : List (Option JVal))
    (pre : List (Str × JVal)),
    (fs.map (·.1)).Nodup → (∀ p ∈ pre, p.1 ∉ fs.map (·.1)) → CanonAll (fs.map (·.2)) ws →
    fieldsFromObj (pre ++ bodyEntries fs ws) fs = some ws
  | [], [], _, _, _, _ => rfl
  | [], _ :: _, _, _, _, h => absurd h (by simp [CanonAll])
  | _ :: _, [], _, _, _, h => absurd h (by simp [CanonAll])
  | (n, c) :: fs, w :: ws, pre, hnd, hpre, hc => by
    obtain ⟨hc1, hc2⟩ := hc
    have hc1 : c.norm w = some w := hc1
    have hnd' : (fs.map (·.1)).Nodup := (List.nodup_cons.1 hnd).2
    have hn : n ∉ fs.map (·.1) := (List.nodup_cons.1 hnd).1
    have hpre' : pre.filter (fun p => p.1 = n) = [] :=
      filter_key_none n pre (fun p hp e => hpre p hp (by simp [e]))
    have hrest : (bodyEntries fs ws).filter (fun p => p.1 = n) = [] :=
      filter_key_none n _ (fun p hp e => hn (e ▸ bodyEntries_keys fs ws p hp))
    rw [bodyEntries_cons]
    cases w with
    | none =>
      have hfield : fieldFromObj (pre ++ ([] ++ bodyEntries fs ws)) (n, c) = some none := by
        unfold fieldFromObj
        simp only [List.nil_append, List.filter_append, hpre', hrest]
        exact hc1
      have htail := fieldsFromObj_entries fs ws pre hnd'
        (fun p hp hm => hpre p hp (by simp [hm])) hc2
      rw [fieldsFromObj, hfield]
      simp only [List.nil_append, htail, Option.map_some]
    | some j =>
      have hfield : fieldFromObj (pre ++ ([(n, j)] ++ bodyEntries fs ws)) (n, c) = some (some j) := by
        unfold fieldFromObj
        simp only [List.filter_append, hpre', hrest, List.filter_cons, List.filter_nil,
          decide_true, if_true, List.nil_append, List.append_nil]
        exact hc1
      have htail := fieldsFromObj_entries fs ws (pre ++ [(n, j)]) hnd'
        (by
          intro p hp
          rcases List.mem_append.1 hp with hp | hp
          · intro hm; exact hpre p hp (by simp [hm])
          · simp only [List.mem_singleton] at hp; subst hp; exact hn) hc2
      rw [fieldsFromObj, hfield]
      rw [← List.append_assoc, htail]
      rfl

/-! ### Names of a group of fields are names of fields -/

theorem nodup_filterMap_names {α β : Type} (name : α → Str) (g : α → Option (Str × β))
    (hg : ∀ a p, g a = some p → p.1 = name a) :
    ∀ (l : List α), (l.map name).Nodup → ((l.filterMap g).map (·.1)).Nodup
  | [], _ => by simp
  | a :: l, h => by
    have hl := nodup_filterMap_names name g hg l (List.nodup_cons.1 h).2
    have ha : name a ∉ l.map name := (List.nodup_cons.1 h).1
    rw [List.filterMap_cons]
    cases hga : g a with
    | none => exact hl
    | some p =>
      simp only [List.map_cons]
      refine List.nodup_cons.2 ⟨?_, hl⟩
      intro hm
      obtain ⟨q, hq, hq1⟩ := List.mem_map.1 hm
      obtain ⟨b, hb, hgb⟩ := List.mem_filterMap.1 hq
      apply ha
      rw [← hg a p hga, ← hq1, hg b q hgb]
      exact List.mem_map.2 ⟨b, hb, rfl⟩

end Ruma.Glue
