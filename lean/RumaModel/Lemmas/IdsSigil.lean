/-
  C10 helper lemmas, part 3: `parse_id` and the sigil identifiers (user, alias, room, event,
  room-or-alias): declarative characterisation, accessors.
-/
import RumaModel.Lemmas.IdsServer
namespace Ruma.Ids
open Ruma

/-- `sigil lp ":" srv` with a colon-free `lp` and an accepted server name, at most 255 bytes. -/
def DelimOk (x : Ext) (sigil : Nat) (s : Str) (lp srv : Str) : Prop :=
  s = sigil :: (lp ++ 58 :: srv) ∧ s.length ≤ 255 ∧ 58 ∉ lp ∧ ServerOk x srv

theorem validateId_ok_iff {s : Str} {sigil : Nat} :
    validateId s sigil = .ok () ↔ s.length ≤ 255 ∧ s.head? = some sigil := by
  unfold validateId
  by_cases h1 : s.length > 255
  · simp [h1]; omega
  · by_cases h2 : s.head? = some sigil
    · simp [h1, h2]; omega
    · simp [h1, h2]

theorem validateId_ne_panic {s : Str} {sigil : Nat} : validateId s sigil ≠ .panic := by
  unfold validateId
  split
  · simp
  · split <;> simp

/-- With a sigil other than `:`, the first colon of `sigil :: lp ++ ":" ++ srv` is after `lp`. -/
theorem find_colon_delim {sigil : Nat} {lp srv : Str} (hsig : sigil ≠ 58) (hlp : 58 ∉ lp) :
    find 58 (sigil :: (lp ++ 58 :: srv)) = some (lp.length + 1) := by
  have := find_append (c := 58) (pre := sigil :: lp) (post := srv) (by simp [hlp, Ne.symm hsig])
  simpa using this

theorem parseId_ne_panic {x : Ext} {s : Str} {sigil : Nat} (hs : Sep s) :
    parseId x s sigil ≠ .panic := by
  unfold parseId
  cases hv : validateId s sigil with
  | err => simp
  | panic => exact absurd hv validateId_ne_panic
  | ok u =>
    cases u
    simp only
    cases hf : find 58 s with
    | none => simp
    | some ci =>
      obtain ⟨pre, post, rfl, hn, rfl⟩ := find_eq_some hf
      simp only [sliceFrom_after hs (by omega : 58 < 128)]
      have := serverNameValidate_ne_panic (x := x) hs.of_append_right.tail
      cases hsn : serverNameValidate x post with
      | ok u => cases u; simp
      | err => simp
      | panic => exact absurd hsn this

theorem parseId_ok_iff {x : Ext} {s : Str} {sigil ci : Nat} (hs : Sep s) (hsig : sigil ≠ 58) :
    parseId x s sigil = .ok ci ↔ ∃ lp srv, DelimOk x sigil s lp srv ∧ ci = lp.length + 1 := by
  constructor
  · intro h
    unfold parseId at h
    cases hv : validateId s sigil with
    | err => simp [hv] at h
    | panic => simp [hv] at h
    | ok u =>
      cases u
      obtain ⟨hlen, hhead⟩ := validateId_ok_iff.1 hv
      simp only [hv] at h
      cases hf : find 58 s with
      | none => simp [hf] at h
      | some i =>
        obtain ⟨pre, post, rfl, hn, rfl⟩ := find_eq_some hf
        simp only [hf, sliceFrom_after hs (by omega : 58 < 128)] at h
        cases hsn : serverNameValidate x post with
        | err => simp [hsn] at h
        | panic => simp [hsn] at h
        | ok u =>
          cases u
          simp only [hsn, Res.ok.injEq] at h
          cases pre with
          | nil => simp at hhead; exact absurd hhead.symm hsig
          | cons g lp =>
            simp at hhead; subst hhead
            refine ⟨lp, post, ⟨by simp, hlen, fun hm => hn (by simp [hm]), ?_⟩, by simp [← h]⟩
            exact (serverNameValidate_ok_iff hs.of_append_right.tail).1 hsn
  · rintro ⟨lp, srv, ⟨rfl, hlen, hlp, hsrv⟩, rfl⟩
    unfold parseId
    have hv : validateId (sigil :: (lp ++ 58 :: srv)) sigil = .ok () :=
      validateId_ok_iff.2 ⟨hlen, by simp⟩
    have hs' : Sep ((sigil :: lp) ++ 58 :: srv) := by simpa using hs
    have hsf : sliceFrom (sigil :: (lp ++ 58 :: srv)) (lp.length + 1 + 1) = .ok srv := by
      have := sliceFrom_after hs' (by omega : 58 < 128)
      simpa using this
    simp only [hv, find_colon_delim hsig hlp, hsf]
    rw [(serverNameValidate_ok_iff hs'.of_append_right.tail).2 hsrv]

/-! ### User IDs and room aliases -/

theorem localpartCompat_iff {lp : Str} : localpartCompat lp = true ↔ 58 ∉ lp ∧ 0 ∉ lp := by
  simp only [localpartCompat, Bool.not_eq_true', Bool.or_eq_false_iff, has_eq_false]

theorem delimitedValidate_ne_panic {x : Ext} {sigil : Nat} {s : Str} (hs : Sep s)
    (hsig : sigil ≠ 58) (hlt : sigil < 128) : delimitedValidate x sigil s ≠ .panic := by
  unfold delimitedValidate
  cases hp : parseId x s sigil with
  | err => simp
  | panic => exact absurd hp (parseId_ne_panic hs)
  | ok ci =>
    obtain ⟨lp, srv, ⟨rfl, _, _, _⟩, rfl⟩ := (parseId_ok_iff hs hsig).1 hp
    simp only [slice_one_at hs hlt (by omega : 58 < 128)]
    split <;> simp

theorem delimitedValidate_ok_iff {x : Ext} {sigil : Nat} {s : Str} (hs : Sep s)
    (hsig : sigil ≠ 58) (hlt : sigil < 128) :
    delimitedValidate x sigil s = .ok () ↔ ∃ lp srv, DelimOk x sigil s lp srv ∧ 0 ∉ lp := by
  constructor
  · intro h
    unfold delimitedValidate at h
    cases hp : parseId x s sigil with
    | err => simp [hp] at h
    | panic => simp [hp] at h
    | ok ci =>
      obtain ⟨lp, srv, hd, rfl⟩ := (parseId_ok_iff hs hsig).1 hp
      obtain ⟨rfl, hlen, hlp, hsrv⟩ := hd
      simp only [hp, slice_one_at hs hlt (by omega : 58 < 128)] at h
      by_cases hc : localpartCompat lp = true
      · exact ⟨lp, srv, ⟨rfl, hlen, hlp, hsrv⟩, (localpartCompat_iff.1 hc).2⟩
      · simp [hc] at h
  · rintro ⟨lp, srv, hd, h0⟩
    unfold delimitedValidate
    rw [(parseId_ok_iff hs hsig).2 ⟨lp, srv, hd, rfl⟩]
    obtain ⟨rfl, _, hlp, _⟩ := hd
    simp only [slice_one_at hs hlt (by omega : 58 < 128)]
    rw [if_pos (localpartCompat_iff.2 ⟨hlp, h0⟩)]

/-- `localpart()` / `alias()` and `server_name()` of `sigil :: lp ++ ":" ++ srv`. -/
theorem accessors_delim {sigil : Nat} {lp srv : Str} (hs : Sep (sigil :: (lp ++ 58 :: srv)))
    (hsig : sigil ≠ 58) (hlt : sigil < 128) (hlp : 58 ∉ lp) :
    localpart (sigil :: (lp ++ 58 :: srv)) = .ok lp
      ∧ serverNameOf (sigil :: (lp ++ 58 :: srv)) = .ok srv := by
  have hs' : Sep ((sigil :: lp) ++ 58 :: srv) := by simpa using hs
  have hsf : sliceFrom (sigil :: (lp ++ 58 :: srv)) (lp.length + 1 + 1) = .ok srv := by
    have := sliceFrom_after hs' (by omega : 58 < 128)
    simpa using this
  constructor
  · simp [localpart, colonIdx, find_colon_delim hsig hlp, slice_one_at hs hlt]
  · simp [serverNameOf, colonIdx, find_colon_delim hsig hlp, hsf]

/-! ### Room IDs, room-or-alias IDs -/

theorem roomIdValidate_ne_panic {s : Str} : roomIdValidate s ≠ .panic := by
  unfold roomIdValidate
  cases hv : validateId s 33 with
  | err => simp
  | panic => exact absurd hv validateId_ne_panic
  | ok u => cases u; simp only; split <;> simp

theorem roomIdValidate_ok_iff {s : Str} :
    roomIdValidate s = .ok () ↔ s.length ≤ 255 ∧ s.head? = some 33 ∧ 0 ∉ s := by
  unfold roomIdValidate
  cases hv : validateId s 33 with
  | err =>
    have := mt validateId_ok_iff.2 (by simp [hv] : ¬ validateId s 33 = .ok ())
    simp; intro a b; exact absurd ⟨a, b⟩ this
  | panic => exact absurd hv validateId_ne_panic
  | ok u =>
    cases u
    obtain ⟨h1, h2⟩ := validateId_ok_iff.1 hv
    by_cases h0 : has 0 s = true
    · simp [h0, has_eq_true.1 h0]
    · simp only [h0]
      simp [h1, h2, has_eq_false.1 (by simpa using h0)]

/-- `RoomId::server_name` / `RoomOrAliasId::server_name` never panic. -/
theorem roomServerName_ne_panic {x : Ext} {s : Str} (hs : Sep s) : roomServerName x s ≠ .panic := by
  unfold roomServerName
  cases hf : find 58 s with
  | none => simp
  | some i =>
    obtain ⟨pre, post, rfl, hn, rfl⟩ := find_eq_some hf
    simp only [sliceFrom_after hs (by omega : 58 < 128)]
    have := serverNameValidate_ne_panic (x := x) hs.of_append_right.tail
    cases hsn : serverNameValidate x post with
    | ok u => cases u; simp
    | err => simp
    | panic => exact absurd hsn this

/-- What `server_name()` of a room (or alias) ID returns: the accepted server name after the first
colon, if there is one. -/
theorem roomServerName_some {x : Ext} {s srv : Str} (hs : Sep s)
    (h : roomServerName x s = .ok (some srv)) :
    ∃ pre, s = pre ++ 58 :: srv ∧ 58 ∉ pre ∧ ServerOk x srv := by
  unfold roomServerName at h
  cases hf : find 58 s with
  | none => simp [hf] at h
  | some i =>
    obtain ⟨pre, post, rfl, hn, rfl⟩ := find_eq_some hf
    simp only [hf, sliceFrom_after hs (by omega : 58 < 128)] at h
    cases hsn : serverNameValidate x post with
    | ok u =>
      cases u
      simp only [hsn, Res.ok.injEq, Option.some.injEq] at h
      subst h
      exact ⟨pre, rfl, hn, (serverNameValidate_ok_iff hs.of_append_right.tail).1 hsn⟩
    | err => simp [hsn] at h
    | panic => simp [hsn] at h

/-! ### Event IDs -/

theorem eventIdValidate_ne_panic {x : Ext} {s : Str} (hs : Sep s) :
    eventIdValidate x s ≠ .panic := by
  unfold eventIdValidate
  split
  · cases hp : parseId x s 36 with
    | ok ci => simp
    | err => simp
    | panic => exact absurd hp (parseId_ne_panic hs)
  · exact validateId_ne_panic

theorem eventIdValidate_ok_iff {x : Ext} {s : Str} (hs : Sep s) :
    eventIdValidate x s = .ok () ↔
      (∃ lp srv, DelimOk x 36 s lp srv) ∨ (58 ∉ s ∧ s.length ≤ 255 ∧ s.head? = some 36) := by
  unfold eventIdValidate
  by_cases hc : has 58 s = true
  · simp only [hc, if_true]
    have hmem := has_eq_true.1 hc
    constructor
    · intro h
      cases hp : parseId x s 36 with
      | ok ci =>
        obtain ⟨lp, srv, hd, _⟩ := (parseId_ok_iff hs (by omega)).1 hp
        exact .inl ⟨lp, srv, hd⟩
      | err => simp [hp] at h
      | panic => simp [hp] at h
    · rintro (⟨lp, srv, hd⟩ | ⟨hn, _⟩)
      · rw [(parseId_ok_iff hs (by omega)).2 ⟨lp, srv, hd, rfl⟩]
      · exact absurd hmem hn
  · have hmem := has_eq_false.1 (by simpa using hc)
    rw [if_neg hc, validateId_ok_iff]
    constructor
    · rintro ⟨h1, h2⟩; exact .inr ⟨hmem, h1, h2⟩
    · rintro (⟨lp, srv, rfl, _⟩ | ⟨_, h1, h2⟩)
      · exact absurd (by simp) hmem
      · exact ⟨h1, h2⟩

theorem event_accessors_delim {lp srv : Str} (hs : Sep (36 :: (lp ++ 58 :: srv))) (hlp : 58 ∉ lp) :
    eventLocalpart (36 :: (lp ++ 58 :: srv)) = .ok lp
      ∧ eventServerName (36 :: (lp ++ 58 :: srv)) = .ok (some srv) := by
  have hs' : Sep ((36 :: lp) ++ 58 :: srv) := by simpa using hs
  have hsf : sliceFrom (36 :: (lp ++ 58 :: srv)) (lp.length + 1 + 1) = .ok srv := by
    have := sliceFrom_after hs' (by omega : 58 < 128)
    simpa using this
  constructor
  · simp [eventLocalpart, find_colon_delim (by omega : 36 ≠ 58) hlp,
      slice_one_at hs (by omega : 36 < 128)]
  · simp [eventServerName, find_colon_delim (by omega : 36 ≠ 58) hlp, hsf]

theorem event_accessors_plain {t : Str} (hs : Sep (36 :: t)) (hc : 58 ∉ t) :
    eventLocalpart (36 :: t) = .ok t ∧ eventServerName (36 :: t) = .ok none := by
  have hf : find 58 (36 :: t) = none := find_eq_none.2 (by simp [hc])
  have h1 : isBoundary (36 :: t) 1 = true := by
    have := isBoundary_after (a := []) (c := 36) (b := t) (by simpa using hs) (by omega)
    simpa using this
  constructor
  · have h2 : isBoundary (36 :: t) (t.length + 1) = true := isBoundary_length (36 :: t)
    simp [eventLocalpart, hf, slice, h1, h2]
  · simp [eventServerName, hf]

end Ruma.Ids
