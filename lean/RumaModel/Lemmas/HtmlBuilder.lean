/-
  Lemmas for C14 about the public builder of `SanitizerConfig` (every configuration value is
  reachable), about what `clean_node` drops and what it hoists, the in-order list of kept
  elements, and the allow lists of a configuration evaluated per `ListBehavior`.
  Core Lean only.
-/
import RumaModel.Lemmas.HtmlTree
namespace Ruma.Lemmas.Html
open Ruma Ruma.Html Ruma.Spec.HtmlPolicy Ruma.Spec.HtmlGlob

theorem build_snoc (m : Option Mode) (calls : List BuilderCall) (call : BuilderCall) :
    build m (calls ++ [call]) = call.apply (build m calls) := by
  simp [build, List.foldl_append]

theorem reach_step {m : Option Mode} {c : Cfg} (call : BuilderCall)
    (h : ∃ calls, build m calls = c) : ∃ calls, build m calls = call.apply c := by
  obtain ⟨cs, rfl⟩ := h
  exact ⟨cs ++ [call], build_snoc m cs call⟩

/-- Every configuration value is produced by the public builder: start from its mode and make one
call per field that is set. So "for every `c : Cfg`" in the theorems is "for every configuration
reachable through the public builder" — no more, no less. -/
theorem builder_reaches (c : Cfg) : ∃ calls, build c.mode calls = c := by
  obtain ⟨mode, re, rme, rrf, ign, alw, ra, rma, ala, deny, als, rmc, alc, md⟩ := c
  have r0 : ∃ calls, build mode calls = { mode := mode } := ⟨[], rfl⟩
  have r1 : ∃ calls, build mode calls = { mode := mode, replaceElements := re } := by
    cases re with
    | none => exact r0
    | some b => exact reach_step (.replaceElements b.content b.override) r0
  have r2 : ∃ calls, build mode calls = { mode := mode, replaceElements := re, removeElements := rme } := by
    cases rme with
    | none => exact r1
    | some l => exact reach_step (.removeElements l) r1
  have r3 : ∃ calls, build mode calls =
      { mode := mode, replaceElements := re, removeElements := rme, removeReplyFallback := rrf } := by
    cases rrf with
    | false => exact r2
    | true => exact reach_step .removeReplyFallback r2
  have r4 : ∃ calls, build mode calls =
      { mode := mode, replaceElements := re, removeElements := rme, removeReplyFallback := rrf,
        ignoreElements := ign } := by
    cases ign with
    | none => exact r3
    | some l => exact reach_step (.ignoreElements l) r3
  have r5 : ∃ calls, build mode calls =
      { mode := mode, replaceElements := re, removeElements := rme, removeReplyFallback := rrf,
        ignoreElements := ign, allowElements := alw } := by
    cases alw with
    | none => exact r4
    | some b => exact reach_step (.allowElements b.content b.override) r4
  have r6 : ∃ calls, build mode calls =
      { mode := mode, replaceElements := re, removeElements := rme, removeReplyFallback := rrf,
        ignoreElements := ign, allowElements := alw, replaceAttrs := ra } := by
    cases ra with
    | none => exact r5
    | some b => exact reach_step (.replaceAttributes b.content b.override) r5
  have r7 : ∃ calls, build mode calls =
      { mode := mode, replaceElements := re, removeElements := rme, removeReplyFallback := rrf,
        ignoreElements := ign, allowElements := alw, replaceAttrs := ra, removeAttrs := rma } := by
    cases rma with
    | none => exact r6
    | some l => exact reach_step (.removeAttributes l) r6
  have r8 : ∃ calls, build mode calls =
      { mode := mode, replaceElements := re, removeElements := rme, removeReplyFallback := rrf,
        ignoreElements := ign, allowElements := alw, replaceAttrs := ra, removeAttrs := rma,
        allowAttrs := ala } := by
    cases ala with
    | none => exact r7
    | some b => exact reach_step (.allowAttributes b.content b.override) r7
  have r9 : ∃ calls, build mode calls =
      { mode := mode, replaceElements := re, removeElements := rme, removeReplyFallback := rrf,
        ignoreElements := ign, allowElements := alw, replaceAttrs := ra, removeAttrs := rma,
        allowAttrs := ala, denySchemes := deny } := by
    cases deny with
    | none => exact r8
    | some l => exact reach_step (.denySchemes l) r8
  have r10 : ∃ calls, build mode calls =
      { mode := mode, replaceElements := re, removeElements := rme, removeReplyFallback := rrf,
        ignoreElements := ign, allowElements := alw, replaceAttrs := ra, removeAttrs := rma,
        allowAttrs := ala, denySchemes := deny, allowSchemes := als } := by
    cases als with
    | none => exact r9
    | some b => exact reach_step (.allowSchemes b.content b.override) r9
  have r11 : ∃ calls, build mode calls =
      { mode := mode, replaceElements := re, removeElements := rme, removeReplyFallback := rrf,
        ignoreElements := ign, allowElements := alw, replaceAttrs := ra, removeAttrs := rma,
        allowAttrs := ala, denySchemes := deny, allowSchemes := als, removeClasses := rmc } := by
    cases rmc with
    | none => exact r10
    | some l => exact reach_step (.removeClasses l) r10
  have r12 : ∃ calls, build mode calls =
      { mode := mode, replaceElements := re, removeElements := rme, removeReplyFallback := rrf,
        ignoreElements := ign, allowElements := alw, replaceAttrs := ra, removeAttrs := rma,
        allowAttrs := ala, denySchemes := deny, allowSchemes := als, removeClasses := rmc,
        allowClasses := alc } := by
    cases alc with
    | none => exact r11
    | some b => exact reach_step (.allowClasses b.content b.override) r11
  cases md with
  | none => exact r12
  | some d => exact reach_step (.maxDepth d) r12


/-! ### what is dropped, what is hoisted -/

/-- An element that is removed — by name after the documented replacements, as `mx-reply` under
reply-fallback removal, or for its depth — leaves nothing: neither itself nor any descendant. -/
theorem cleanNode_removed (L : Lists) (c : Cfg) (d : Nat) (n : Str) (as : List Attr) (cs : List Node)
    (h : removeCheck L c (replaceNameOf L c n) d = true) :
    cleanNode L c d (.elem n as cs) = [] := by
  have : nodeAction L c (replaceNameOf L c n) (replaceAttrsOf L c n as) d = .remove :=
    (nodeAction_remove_iff ..).2 h
  simp [cleanNode, this]

/-- `node_action` returns `Ignore` exactly for an element that is not removed and is not kept. -/
theorem nodeAction_ignore_iff (L : Lists) (c : Cfg) (n : Str) (as : List Attr) (d : Nat) :
    nodeAction L c n as d = .ignore ↔
      removeCheck L c n d = false ∧
      ¬ (optContains c.ignoreElements n = false ∧ allowCheck L c n = true ∧
          ∀ a ∈ as, valueOk L c n a.name a.value = true) := by
  have h1 := nodeAction_none_iff L c n as d
  have h2 := nodeAction_remove_iff L c n as d
  cases hr : removeCheck L c n d
  · simp only [hr, true_and, Bool.false_eq_true, iff_false] at h1 h2 ⊢
    cases ha : nodeAction L c n as d with
    | none => simp only [ha, true_iff] at h1; simp [h1.1, h1.2.1]; exact h1.2.2
    | ignore =>
      simp only [ha, reduceCtorEq, false_iff] at h1
      simp only [true_iff]; exact h1
    | remove => exact absurd ha h2
  · simp only [hr, iff_true] at h2
    simp [h2]

theorem allowCheck_eq (L : Lists) (c : Cfg) (n : Str) : allowCheck L c n = elemListed L c n := rfl

/-- An element is kept exactly if it is outside the removal checks, its name is allowed and all
its attribute values are acceptable. -/
theorem nodeAction_none_iff' (L : Lists) (c : Cfg) (n : Str) (as : List Attr) (d : Nat) :
    nodeAction L c n as d = .none ↔
      removeCheck L c n d = false ∧ elemOk L c n = true ∧
      as.all (fun a => valueOk L c n a.name a.value) = true := by
  rw [nodeAction_none_iff, removeCheck_eq, List.all_eq_true]
  simp only [elemOk, Bool.or_eq_false_iff, Bool.and_eq_true, Bool.not_eq_true', allowCheck_eq]
  constructor
  · rintro ⟨⟨a, b⟩, c', e, f⟩; exact ⟨⟨a, b⟩, ⟨⟨a, c'⟩, e⟩, f⟩
  · rintro ⟨⟨a, b⟩, ⟨⟨_, c'⟩, e⟩, f⟩; exact ⟨⟨a, b⟩, c', e, f⟩


theorem elemsOfL_append (l₁ l₂ : List Node) : elemsOfL (l₁ ++ l₂) = elemsOfL l₁ ++ elemsOfL l₂ := by
  induction l₁ with
  | nil => simp [elemsOfL]
  | cons n t ih => simp [elemsOfL, ih]

/-- A condition on every attribute of the renamed set is the condition on every attribute of the
original list under its new name (`apply_replacements` changes names only; collecting into a set
changes neither names nor values). -/
theorem replaceAttrsOf_all (L : Lists) (c : Cfg) (n : Str) (as : List Attr) (p : Str → Str → Bool) :
    (replaceAttrsOf L c n as).all (fun a => p a.name a.value) =
      as.all (fun a => p (renamedAttr L c n a.name) a.value) := by
  have key : (as.map (renameAttr (c.replaceAttrs.bind (fun l => mapGet l.content n))
        (if !isOverride c.replaceAttrs && c.useStrict then mapGet L.deprecatedAttrs n else none))).all
        (fun a => p a.name a.value) = as.all (fun a => p (renamedAttr L c n a.name) a.value) := by
    rw [List.all_map]
    congr 1
    funext a
    simp only [Function.comp, renamedAttr_eq_model]
  unfold replaceAttrsOf
  simp only
  by_cases hc : ((c.replaceAttrs.bind fun l => mapGet l.content n).isSome ||
      (if (!isOverride c.replaceAttrs && c.useStrict) = true then mapGet L.deprecatedAttrs n else none).isSome) = true
  · rw [if_pos hc, ← key, Bool.eq_iff_iff, List.all_eq_true, List.all_eq_true]
    simp only [mem_setCollect]
  · rw [if_neg hc, ← key]
    congr 1
    conv => lhs; rw [← List.map_id as]
    apply List.map_congr_left
    intro a _
    simp only [Bool.or_eq_true, not_or, Bool.not_eq_true, Option.isSome_eq_false_iff,
      Option.isNone_iff_eq_none] at hc
    unfold renameAttr
    rw [hc.1, hc.2]
    rfl

mutual
theorem cleanNode_elems (L : Lists) (c : Cfg) : ∀ (node : Node) (d : Nat),
    elemsOfL (cleanNode L c d node) = keptElems L c d node
  | .text s, _ => by simp [cleanNode, elemsOfL, elemsOf, keptElems]
  | .other, _ => by simp [cleanNode, elemsOfL, keptElems]
  | .elem n as cs, d => by
    simp only [cleanNode, keptElems, renamed_eq_model, tooDeep_eq_model, ← replaceAttrsOf_all L c n as
      (fun a v => valueOk L c (replaceNameOf L c n) a v), ← removeCheck_eq]
    cases ha : nodeAction L c (replaceNameOf L c n) (replaceAttrsOf L c n as) d with
    | remove =>
      have := (nodeAction_remove_iff ..).1 ha
      simp [this, elemsOfL]
    | ignore =>
      have h := (nodeAction_ignore_iff ..).1 ha
      have hk : (elemOk L c (replaceNameOf L c n) &&
          (replaceAttrsOf L c n as).all (fun a => valueOk L c (replaceNameOf L c n) a.name a.value)) = false := by
        cases hb : (elemOk L c (replaceNameOf L c n) &&
          (replaceAttrsOf L c n as).all (fun a => valueOk L c (replaceNameOf L c n) a.name a.value))
        · rfl
        · exfalso
          simp only [Bool.and_eq_true] at hb
          have := (nodeAction_none_iff' L c _ _ d).2 ⟨h.1, hb.1, hb.2⟩
          rw [ha] at this; cases this
      simp only [h.1, Bool.false_eq_true, if_false, hk]
      exact cleanList_elems L c cs (d + 1)
    | none =>
      have h := (nodeAction_none_iff' ..).1 ha
      simp only [h.1, Bool.false_eq_true, if_false, h.2.1, h.2.2, Bool.and_self, if_true,
        elemsOfL, elemsOf, List.append_nil]
      rw [cleanList_elems L c cs (d + 1)]
theorem cleanList_elems (L : Lists) (c : Cfg) : ∀ (l : List Node) (d : Nat),
    elemsOfL (cleanList L c d l) = keptElemsL L c d l
  | [], _ => by simp [cleanList, elemsOfL, keptElemsL]
  | n :: t, d => by
    simp only [cleanList, elemsOfL_append, keptElemsL]
    rw [cleanNode_elems L c n d, cleanList_elems L c t d]
end

mutual
theorem keptElems_names (L : Lists) (c : Cfg) : ∀ (node : Node) (d : Nat),
    (keptElems L c d node).map (·.1) = keptNames L c d node
  | .text _, _ => by simp [keptElems, keptNames]
  | .other, _ => by simp [keptElems, keptNames]
  | .elem n as cs, d => by
    simp only [keptElems, keptNames]
    split
    · rfl
    · split
      · simp only [List.map_cons]; rw [keptElemsL_names L c cs (d + 1)]
      · exact keptElemsL_names L c cs (d + 1)
theorem keptElemsL_names (L : Lists) (c : Cfg) : ∀ (l : List Node) (d : Nat),
    (keptElemsL L c d l).map (·.1) = keptNamesL L c d l
  | [], _ => by simp [keptElemsL, keptNamesL]
  | n :: t, d => by
    simp only [keptElemsL, keptNamesL, List.map_append]
    rw [keptElems_names L c n d, keptElemsL_names L c t d]
end

/-! ### the builder's lists, evaluated -/

theorem elemListed_cases (L : Lists) (c : Cfg) (n : Str) :
    elemListed L c n =
      match c.allowElements with
      | none => c.mode.isNone || L.elements.contains n
      | some ⟨true, l⟩ => l.contains n
      | some ⟨false, l⟩ => l.contains n || (c.mode.isSome && L.elements.contains n) := by
  unfold elemListed Cfg.useStrict
  cases h : c.allowElements with
  | none => cases c.mode <;> simp [optContains, isOverride]
  | some b =>
    obtain ⟨o, l⟩ := b
    cases o <;> cases c.mode <;> simp [optContains, isOverride]

theorem attrOk_cases (L : Lists) (c : Cfg) (el a : Str) :
    attrOk L c el a =
      (!optContains (c.removeAttrs.bind (mapGet · el)) a &&
      match c.allowAttrs with
      | none => c.mode.isNone || optContains (mapGet L.attrs el) a
      | some ⟨true, l⟩ => optContains (mapGet l el) a
      | some ⟨false, l⟩ => optContains (mapGet l el) a || (c.mode.isSome && optContains (mapGet L.attrs el) a)) := by
  unfold attrOk Cfg.useStrict
  cases h : c.allowAttrs with
  | none => cases c.mode <;> simp [optContains, isOverride]
  | some b =>
    obtain ⟨o, l⟩ := b
    cases o <;> cases c.mode <;> simp [optContains, isOverride]

theorem classOk_cases (L : Lists) (c : Cfg) (el cl : Str) :
    classOk L c el cl =
      (!matchesAny ((c.removeClasses.bind (mapGet · el)).getD []) cl &&
      match c.allowClasses with
      | none => c.mode.isNone || matchesAny ((mapGet L.classes el).getD []) cl
      | some ⟨true, l⟩ => matchesAny ((mapGet l el).getD []) cl
      | some ⟨false, l⟩ => matchesAny ((mapGet l el).getD []) cl ||
          (c.mode.isSome && matchesAny ((mapGet L.classes el).getD []) cl)) := by
  unfold classOk modeCounts
  cases c.removeClasses <;>
  (cases h : c.allowClasses with
   | none => cases c.mode <;> simp [matchesAny]
   | some b =>
     obtain ⟨o, l⟩ := b
     cases o <;> cases c.mode <;> simp [matchesAny, List.any_append])

/-- The three per-attribute scheme lists chained: absent if all three are. -/
def chain3 (l s k : Option (List Str)) : Option (List Str) :=
  if l.isNone && s.isNone && k.isNone then none else some (l.getD [] ++ s.getD [] ++ k.getD [])

theorem schemeList_override (L : Lists) (c : Cfg) (l : SchemeMap) (el a : Str)
    (h : c.allowSchemes = some ⟨true, l⟩) :
    schemeList L c el a = (mapGet l el).bind (mapGet · a) := by
  rw [schemeList_eq_model]
  unfold schemeCtx attrSchemes
  simp only [h, Option.isNone_some, Bool.false_and, Bool.false_eq_true, if_false, isOverride,
    Bool.not_true, Option.bind_some, Option.bind_none, Option.isNone_none, Bool.and_true,
    Option.getD_none, List.append_nil]
  cases (mapGet l el).bind (mapGet · a) <;> simp

theorem schemeList_add (L : Lists) (c : Cfg) (l : SchemeMap) (el a : Str)
    (h : c.allowSchemes = some ⟨false, l⟩) :
    schemeList L c el a = chain3 ((mapGet l el).bind (mapGet · a))
      (if c.mode.isSome then (mapGet L.schemesStrict el).bind (mapGet · a) else none)
      (if c.mode = some .compat then (mapGet L.schemesCompat el).bind (mapGet · a) else none) := by
  rw [schemeList_eq_model]
  unfold schemeCtx attrSchemes chain3 Cfg.useStrict Cfg.useCompat
  simp only [h, Option.isNone_some, Bool.false_and, Bool.false_eq_true, if_false, isOverride,
    Bool.not_false, Bool.true_and, Option.bind_some]
  cases hm : c.mode with
  | none => simp
  | some m => cases m <;> simp

theorem schemeList_mode (L : Lists) (c : Cfg) (el a : Str) (h : c.allowSchemes = none) :
    schemeList L c el a = chain3 none
      (if c.mode.isSome then (mapGet L.schemesStrict el).bind (mapGet · a) else none)
      (if c.mode = some .compat then (mapGet L.schemesCompat el).bind (mapGet · a) else none) := by
  rw [schemeList_eq_model]
  unfold schemeCtx attrSchemes chain3 Cfg.useStrict Cfg.useCompat
  simp only [h, Option.isNone_none, Bool.true_and, isOverride, Bool.not_false, Option.bind_none]
  cases hm : c.mode with
  | none => simp
  | some m => cases m <;> simp

end Ruma.Lemmas.Html
