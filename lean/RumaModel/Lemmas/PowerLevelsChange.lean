/-
  C20 — lemmas for candidate `m.room.power_levels` events: structural equality from the hand-written
  `BEq` of `JVal`; an unchanged content passes `check_room_power_levels`; `Obj.insert` / `Obj.erase`
  on the `users` object and what the rules read from the result; `check_power_level_maps` when one
  key differs.
-/
import RumaModel.Lemmas.PowerLevelsAuth
namespace Ruma

mutual
theorem JVal.eq_of_beq : ∀ (a b : JVal), a.beq b = true → a = b
  | .null, b, h => by cases b <;> simp [JVal.beq] at h ⊢
  | .bool x, b, h => by cases b <;> simp [JVal.beq] at h ⊢; exact h
  | .int x, b, h => by cases b <;> simp [JVal.beq] at h ⊢; exact h
  | .float, b, h => by cases b <;> simp [JVal.beq] at h ⊢
  | .str x, b, h => by cases b <;> simp [JVal.beq] at h ⊢; exact h
  | .arr xs, b, h => by
    cases b with
    | arr ys => rw [JVal.eqL_of_beqL xs ys (by simpa [JVal.beq] using h)]
    | _ => simp [JVal.beq] at h
  | .obj xs, b, h => by
    cases b with
    | obj ys => rw [JVal.eqO_of_beqO xs ys (by simpa [JVal.beq] using h)]
    | _ => simp [JVal.beq] at h
theorem JVal.eqL_of_beqL : ∀ (a b : List JVal), JVal.beqL a b = true → a = b
  | [], b, h => by cases b <;> simp [JVal.beqL] at h ⊢
  | x :: xs, b, h => by
    cases b with
    | nil => simp [JVal.beqL] at h
    | cons y ys =>
      simp only [JVal.beqL, Bool.and_eq_true] at h
      rw [JVal.eq_of_beq x y h.1, JVal.eqL_of_beqL xs ys h.2]
theorem JVal.eqO_of_beqO : ∀ (a b : List (Str × JVal)), JVal.beqO a b = true → a = b
  | [], b, h => by cases b <;> simp [JVal.beqO] at h ⊢
  | (k, x) :: xs, b, h => by
    cases b with
    | nil => simp [JVal.beqO] at h
    | cons y ys =>
      obtain ⟨l, y⟩ := y
      simp only [JVal.beqO, Bool.and_eq_true, beq_iff_eq] at h
      rw [h.1.1, JVal.eq_of_beq x y h.1.2, JVal.eqO_of_beqO xs ys h.2]
end

theorem JVal.eq_of_beq' {a b : JVal} (h : (a == b) = true) : a = b := JVal.eq_of_beq a b h

end Ruma

namespace Ruma.PowerLevels
open Ruma Ruma.Auth Ruma.Ident

theorem intFieldsMap_ok {rules : AuthRules} {c : Obj} :
    ∀ {l : List PLField}, (∀ fld ∈ l, ∃ v, getAsInt rules c fld = .ok v) →
      ∃ m, intFieldsMap rules c l = .ok m := by
  intro l
  induction l with
  | nil => intro _; exact ⟨[], rfl⟩
  | cons fld t ih =>
    intro h
    obtain ⟨v, hv⟩ := h fld (List.mem_cons_self ..)
    obtain ⟨m, hm⟩ := ih (fun f hf => h f (List.mem_cons_of_mem _ hf))
    simp only [intFieldsMap, hv, hm, ok_bind]
    exact ⟨_, rfl⟩

theorem checkIntFields_same {rules : AuthRules} {c : Obj} {newInts : List (PLField × Int)} {sl : Int} :
    ∀ {l : List PLField}, (∀ fld ∈ l, ∃ v, getAsInt rules c fld = .ok v ∧ fieldsGet newInts fld = v) →
      checkIntFields rules c newInts sl l = .ok () := by
  intro l
  induction l with
  | nil => intro _; rfl
  | cons fld t ih =>
    intro h
    obtain ⟨v, hv, hg⟩ := h fld (List.mem_cons_self ..)
    simp only [checkIntFields, hv, ok_bind, hg, beq_self_eq_true, if_true]
    exact ih (fun f hf => h f (List.mem_cons_of_mem _ hf))

theorem checkPowerLevelMaps_same (m : Option PLMap) (sl : Int) (rej : Str → Int → Bool) :
    checkPowerLevelMaps m m sl rej = true := by
  simp [checkPowerLevelMaps]

/-- Re-sending the current content unchanged passes `check_room_power_levels`, whatever the sender's
level, as soon as the rules can read the content. -/
theorem checkRoomPowerLevels_same {rules : AuthRules} {ev pl : Event} {sl : Int}
    (hc : ev.content = pl.content) (hwf : authWF rules pl.content = true) :
    checkRoomPowerLevels rules ev (some pl) sl = .ok () := by
  obtain ⟨hint, ⟨me, hme⟩, ⟨mu, hmu⟩, ⟨mn, hmn⟩⟩ := authWF_fields hwf
  have hall : ∀ fld ∈ PLField.all, ∃ v, getAsInt rules pl.content fld = .ok v :=
    fun fld _ => okB_iff.mp (hint fld)
  obtain ⟨newInts, hni⟩ := intFieldsMap_ok hall
  have hcif : checkIntFields rules pl.content newInts sl PLField.all = .ok () :=
    checkIntFields_same (fun fld hf => intFieldsMap_get hni PLField.all_nodup fld hf)
  simp only [checkRoomPowerLevels, hc, hni, hme, hmu, hmn, hcif, ok_bind, checkPowerLevelMaps_same,
    require_true]
  cases rules.limitNotificationsPowerLevels <;> rfl

/-! ## `Obj.insert` / `Obj.erase` -/

theorem Obj.get_insert_self {α} (o : List (Str × α)) (k : Str) (v : α) :
    Obj.get (Obj.insert o k v) k = some v := by
  induction o with
  | nil => simp [Obj.insert, Obj.get]
  | cons kv t ih =>
    obtain ⟨k', v'⟩ := kv
    unfold Obj.insert
    by_cases h1 : k' = k
    · simp [h1, Obj.get]
    · by_cases h2 : k < k'
      · simp [h1, h2, Obj.get]
      · simp [h1, h2, Obj.get, ih]

theorem Obj.get_insert_ne {α} (o : List (Str × α)) (k k' : Str) (v : α) (h : k' ≠ k) :
    Obj.get (Obj.insert o k v) k' = Obj.get o k' := by
  induction o with
  | nil => simp [Obj.insert, Obj.get, Ne.symm h]
  | cons kv t ih =>
    obtain ⟨k0, v0⟩ := kv
    unfold Obj.insert
    by_cases h1 : k0 = k
    · subst h1
      simp [Obj.get, Ne.symm h]
    · by_cases h2 : k < k0
      · simp [h1, h2, Obj.get, Ne.symm h]
      · simp only [h1, h2, if_false, Obj.get, ih]

/-- `users` keys. -/
def userKey (k : Str) : Option Str := if validUserId k then some k else none

theorem lastGet_filter (m : PLMap) (t k : Str) :
    lastGet (m.filter (fun p => p.1 ≠ t)) k = if k = t then none else lastGet m k := by
  induction m with
  | nil => simp [lastGet]
  | cons kv rest ih =>
    obtain ⟨k', v⟩ := kv
    by_cases hk : k' = t
    · subst hk
      simp only [List.filter, ne_eq, not_true_eq_false, decide_false, ih]
      by_cases hkt : k = k'
      · simp [hkt]
      · simp only [hkt, if_false, lastGet]
        cases lastGet rest k with
        | some x => rfl
        | none => simp [Ne.symm hkt]
    · simp only [List.filter, ne_eq, hk, not_false_eq_true, decide_true, lastGet, ih]
      by_cases hkt : k = t
      · subst hkt
        simp [hk]
      · simp [hkt]

theorem intMapEntries_erase {rules : AuthRules} {t : Str} :
    ∀ {u : List (Str × JVal)} {mu : PLMap}, intMapEntries rules userKey u = .ok mu →
      intMapEntries rules userKey (Obj.erase u t) = .ok (mu.filter (fun p => p.1 ≠ t)) := by
  intro u
  induction u with
  | nil => intro mu h; simp [intMapEntries] at h; subst h; rfl
  | cons kv rest ih =>
    intro mu h
    obtain ⟨k, v⟩ := kv
    simp only [intMapEntries] at h
    cases hk : userKey k with
    | none => simp [hk] at h
    | some k' =>
      have hkk : k' = k := by
        unfold userKey at hk
        split at hk
        · exact (Option.some.inj hk).symm
        · cases hk
      subst hkk
      simp only [hk, bind_eq_ok] at h
      obtain ⟨i, hi, r, hr, hm⟩ := h
      simp only [Except.ok.injEq] at hm
      subst hm
      unfold Obj.erase at ih ⊢
      by_cases hkt : k' = t
      · subst hkt
        have := ih hr
        simp at this
        simp [List.filter, this]
      · have := ih hr
        simp at this
        simp [List.filter, hkt, intMapEntries, hk, hi, this, ok_bind]

theorem lastGet_entries_of_not_contains {rules : AuthRules} {t : Str} :
    ∀ {u : List (Str × JVal)} {mu : PLMap}, intMapEntries rules userKey u = .ok mu →
      Obj.contains u t = false → lastGet mu t = none := by
  intro u
  induction u with
  | nil => intro mu h _; simp [intMapEntries] at h; subst h; rfl
  | cons kv rest ih =>
    intro mu h hc
    obtain ⟨k, v⟩ := kv
    simp only [intMapEntries] at h
    cases hk : userKey k with
    | none => simp [hk] at h
    | some k' =>
      have hkk : k' = k := by
        unfold userKey at hk
        split at hk
        · exact (Option.some.inj hk).symm
        · cases hk
      subst hkk
      simp only [hk, bind_eq_ok] at h
      obtain ⟨i, hi, r, hr, hm⟩ := h
      simp only [Except.ok.injEq] at hm
      subst hm
      simp only [Obj.contains, Obj.get] at hc
      by_cases hkt : k' = t
      · simp [hkt] at hc
      · simp only [hkt, if_false] at hc
        simp [lastGet, ih hr (by simpa [Obj.contains] using hc), hkt]

theorem lastGet_entries_of_contains {rules : AuthRules} {t : Str} :
    ∀ {u : List (Str × JVal)} {mu : PLMap}, intMapEntries rules userKey u = .ok mu →
      Obj.contains u t = true → ∃ x, lastGet mu t = some x := by
  intro u
  induction u with
  | nil => intro mu _ hc; simp [Obj.contains, Obj.get] at hc
  | cons kv rest ih =>
    intro mu h hc
    obtain ⟨k, v⟩ := kv
    simp only [intMapEntries] at h
    cases hk : userKey k with
    | none => simp [hk] at h
    | some k' =>
      have hkk : k' = k := by
        unfold userKey at hk
        split at hk
        · exact (Option.some.inj hk).symm
        · cases hk
      subst hkk
      simp only [hk, bind_eq_ok] at h
      obtain ⟨i, hi, r, hr, hm⟩ := h
      simp only [Except.ok.injEq] at hm
      subst hm
      simp only [lastGet]
      cases hl : lastGet r t with
      | some x => exact ⟨x, rfl⟩
      | none =>
        by_cases hkt : k' = t
        · exact ⟨i, by simp [hkt]⟩
        · simp only [Obj.contains, Obj.get, hkt, if_false] at hc
          obtain ⟨x, hx⟩ := ih hr (by simpa [Obj.contains] using hc)
          rw [hx] at hl; cases hl

theorem intMapEntries_insert {rules : AuthRules} {t : Str} {v : JVal} {i : Int}
    (ht : validUserId t = true) (hv : plInt rules v = .ok i) :
    ∀ {u : List (Str × JVal)} {mu : PLMap}, intMapEntries rules userKey u = .ok mu →
      Obj.contains u t = false →
      ∃ mu', intMapEntries rules userKey (Obj.insert u t v) = .ok mu' ∧
        ∀ k, lastGet mu' k = if k = t then some i else lastGet mu k := by
  have hkt : userKey t = some t := by simp [userKey, ht]
  intro u
  induction u with
  | nil =>
    intro mu h _
    simp [intMapEntries] at h; subst h
    refine ⟨[(t, i)], by simp [Obj.insert, intMapEntries, hkt, hv, ok_bind], ?_⟩
    intro k
    by_cases hk : k = t
    · simp [lastGet, hk]
    · simp [lastGet, hk, Ne.symm hk]
  | cons kv rest ih =>
    intro mu h hc
    obtain ⟨k0, v0⟩ := kv
    have h' := h
    simp only [intMapEntries] at h
    cases hk : userKey k0 with
    | none => simp [hk] at h
    | some k' =>
      have hkk : k' = k0 := by
        unfold userKey at hk
        split at hk
        · exact (Option.some.inj hk).symm
        · cases hk
      subst hkk
      simp only [hk, bind_eq_ok] at h
      obtain ⟨i0, hi0, r, hr, hm⟩ := h
      simp only [Except.ok.injEq] at hm
      subst hm
      have hne : ¬ k' = t := by
        intro e; simp [Obj.contains, Obj.get, e] at hc
      have hc' : Obj.contains rest t = false := by
        simpa [Obj.contains, Obj.get, hne] using hc
      unfold Obj.insert
      simp only [hne, if_false]
      by_cases hlt : t < k'
      · simp only [hlt, if_true]
        refine ⟨(t, i) :: (k', i0) :: r, by simp [intMapEntries, hkt, hv, hk, hi0, hr, ok_bind], ?_⟩
        intro k
        have hnone := lastGet_entries_of_not_contains h' hc
        by_cases hkt' : k = t
        · subst hkt'
          simp only [if_true]
          rw [lastGet, hnone]
          simp
        · simp only [hkt', if_false]
          rw [lastGet]
          cases lastGet ((k', i0) :: r) k with
          | some x => rfl
          | none => simp [Ne.symm hkt']
      · simp only [hlt, if_false]
        obtain ⟨mu', hmu', hget⟩ := ih hr hc'
        refine ⟨(k', i0) :: mu', by simp [intMapEntries, hk, hi0, hmu', ok_bind], ?_⟩
        intro k
        simp only [lastGet, hget]
        by_cases hkt' : k = t
        · subst hkt'
          simp
        · simp [hkt']


/-! ## `check_room_power_levels` when only the `users` object changes -/

theorem plfield_key_ne_users (fld : PLField) : fld.key ≠ bs "users" := by cases fld <;> decide

theorem intFieldsMap_congr {rules : AuthRules} {c c' : Obj}
    (h : ∀ fld, getAsInt rules c' fld = getAsInt rules c fld) (l : List PLField) :
    intFieldsMap rules c' l = intFieldsMap rules c l := by
  induction l with
  | nil => rfl
  | cons fld t ih => simp only [intFieldsMap, h, ih]

theorem checkPowerLevelMaps_one_key {cur new : Option PLMap} {sl : Int} {rej : Str → Int → Bool} {t : Str}
    (hsame : ∀ k, k ≠ t → cur.bind (lastGet · k) = new.bind (lastGet · k))
    (hdiff : cur.bind (lastGet · t) ≠ new.bind (lastGet · t)) :
    checkPowerLevelMaps cur new sl rej =
      !((cur.bind (lastGet · t)).any (rej t) || (new.bind (lastGet · t)).any (fun y => decide (y > sl))) := by
  have hbeq : (cur.bind (lastGet · t) == new.bind (lastGet · t)) = false := by simpa using hdiff
  have hmem : t ∈ plKeys cur ++ plKeys new := by
    cases hc : cur.bind (lastGet · t) with
    | some x => exact List.mem_append_left _ (bindLastGet_mem_plKeys hc)
    | none =>
      cases hn : new.bind (lastGet · t) with
      | some y => exact List.mem_append_right _ (bindLastGet_mem_plKeys hn)
      | none => exact absurd (hc.trans hn.symm) hdiff
  unfold checkPowerLevelMaps
  rw [Bool.eq_iff_iff, List.all_eq_true]
  constructor
  · intro h
    have := h t hmem
    simp only [hbeq, Bool.false_or] at this
    cases hc : cur.bind (lastGet · t) <;> cases hn : new.bind (lastGet · t) <;>
      first | (simp; done) | simpa [hc, hn] using this
  · intro h k _
    by_cases hk : k = t
    · subst hk
      simp only [hbeq, Bool.false_or]
      cases hc : cur.bind (lastGet · k) <;> cases hn : new.bind (lastGet · k) <;>
        first | (simp; done) | simpa [hc, hn] using h
    · simp [hsame k hk]

/-- When the candidate content differs from the current one only in `users`, only the `users` test
of `check_room_power_levels` remains. -/
theorem checkRoomPowerLevels_users_change {rules : AuthRules} {ev pl : Event} {sl : Int} {newUsers : JVal}
    {nu cu : Option PLMap}
    (hc : ev.content = Obj.insert pl.content (bs "users") newUsers)
    (hwf : authWF rules pl.content = true)
    (hnu : plUsers rules ev.content = .ok nu) (hcu : plUsers rules pl.content = .ok cu) :
    checkRoomPowerLevels rules ev (some pl) sl =
      require (checkPowerLevelMaps cu nu sl (fun u l => u ≠ ev.sender && decide (l ≥ sl))) := by
  obtain ⟨hint, ⟨me, hme⟩, -, ⟨mn, hmn⟩⟩ := authWF_fields hwf
  have hgi : ∀ fld, getAsInt rules ev.content fld = getAsInt rules pl.content fld := by
    intro fld
    simp only [getAsInt, hc, Obj.get_insert_ne _ _ _ _ (plfield_key_ne_users fld)]
  have hall : ∀ fld ∈ PLField.all, ∃ v, getAsInt rules pl.content fld = .ok v :=
    fun fld _ => okB_iff.mp (hint fld)
  obtain ⟨newInts, hni⟩ := intFieldsMap_ok hall
  have hni' : intFieldsMap rules ev.content PLField.all = .ok newInts := by
    rw [intFieldsMap_congr hgi]; exact hni
  have hcif : checkIntFields rules pl.content newInts sl PLField.all = .ok () :=
    checkIntFields_same (fun fld hf => intFieldsMap_get hni PLField.all_nodup fld hf)
  have hev : plEvents rules ev.content = .ok me := by
    have : bs "events" ≠ bs "users" := by decide
    simpa only [plEvents, getAsIntMap, hc, Obj.get_insert_ne _ _ _ _ this] using hme
  have hno : plNotifications rules ev.content = .ok mn := by
    have : bs "notifications" ≠ bs "users" := by decide
    simpa only [plNotifications, getAsIntMap, hc, Obj.get_insert_ne _ _ _ _ this] using hmn
  simp only [checkRoomPowerLevels, hni', hev, hno, hnu, hme, hmn, hcu, hcif, ok_bind,
    checkPowerLevelMaps_same, require_true]
  cases rules.limitNotificationsPowerLevels <;> rfl


open Ruma Ruma.Auth Ruma.Ident

/-! ## Every level the rules read is in the js_int range -/

theorem checkedLevel_inRange {o : Option Int} {i : Int} (h : checkedLevel o = .ok i) : inRange i = true := by
  cases o with
  | none => simp [checkedLevel] at h
  | some v =>
    simp only [checkedLevel] at h
    split at h
    · simp only [Except.ok.injEq] at h; subst h; assumption
    · cases h

theorem plInt_inRange {rules : AuthRules} {v : JVal} {i : Int} (h : plInt rules v = .ok i) :
    inRange i = true := by
  cases v with
  | int j =>
    simp only [plInt] at h
    split at h
    · simp only [Except.ok.injEq] at h; subst h; assumption
    · cases h
  | str s =>
    simp only [plInt] at h
    split at h
    · cases h
    · unfold parseV1String at h
      split at h
      · split at h
        · cases h
        · exact checkedLevel_inRange h
      · exact checkedLevel_inRange h
  | _ => simp [plInt] at h

theorem lastGet_mem {m : PLMap} {k : Str} {i : Int} (h : lastGet m k = some i) : (k, i) ∈ m := by
  induction m with
  | nil => simp [lastGet] at h
  | cons kv t ih =>
    obtain ⟨k', v⟩ := kv
    simp only [lastGet] at h
    cases ht : lastGet t k with
    | some x =>
      simp only [ht, Option.some.injEq] at h
      subst h
      exact List.mem_cons_of_mem _ (ih ht)
    | none =>
      simp only [ht] at h
      by_cases hk : k' = k
      · simp only [hk, if_true, Option.some.injEq] at h
        subst h; subst hk
        exact List.mem_cons_self ..
      · simp [hk] at h

theorem intMapEntries_inRange {rules : AuthRules} {keyOf : Str → Option Str} :
    ∀ {kvs : List (Str × JVal)} {m : PLMap}, intMapEntries rules keyOf kvs = .ok m →
      ∀ p ∈ m, inRange p.2 = true := by
  intro kvs
  induction kvs with
  | nil => intro m h p hp; simp [intMapEntries] at h; subst h; cases hp
  | cons kv t ih =>
    intro m h p hp
    obtain ⟨k, v⟩ := kv
    simp only [intMapEntries] at h
    cases hk : keyOf k with
    | none => simp [hk] at h
    | some k' =>
      simp only [hk, bind_eq_ok] at h
      obtain ⟨i, hi, rest, hrest, hm⟩ := h
      simp only [Except.ok.injEq] at hm
      subst hm
      rcases List.mem_cons.mp hp with rfl | hp'
      · exact plInt_inRange hi
      · exact ih hrest p hp'

theorem plUserLevel_inRange {rules : AuthRules} {e : Event} {u c : Str} {l : Int}
    (h : plUserLevel rules (some e) u c = .ok l) : inRange l = true := by
  simp only [plUserLevel, bind_eq_ok] at h
  obtain ⟨users, hu, h⟩ := h
  cases hl : users.bind (lastGet · u) with
  | some x =>
    simp only [hl, Except.ok.injEq] at h
    subst h
    cases users with
    | none => simp at hl
    | some m =>
      simp only [Option.bind_some] at hl
      simp only [plUsers, getAsIntMap] at hu
      split at hu
      · cases hu
      · simp only [exceptMap_eq_ok] at hu
        obtain ⟨m', hm', hs⟩ := hu
        cases hs
        exact intMapEntries_inRange hm' _ (lastGet_mem hl)
      · cases hu
  | none =>
    simp only [hl, getAsIntOrDefault, exceptMap_eq_ok] at h
    obtain ⟨o, ho, rfl⟩ := h
    cases o with
    | none => decide
    | some x =>
      simp only [getAsInt] at ho
      split at ho
      · cases ho
      · simp only [exceptMap_eq_ok] at ho
        obtain ⟨i, hi, hs⟩ := ho
        cases hs
        exact plInt_inRange hi

/-- The users the rules read from a content whose `users` object is `u`. -/
theorem plUsers_of_get {rules : AuthRules} {c : Obj} {u : List (Str × JVal)}
    (h : Obj.get c (bs "users") = some (.obj u)) :
    plUsers rules c = (intMapEntries rules userKey u).map some := by
  simp only [plUsers, getAsIntMap, h]
  rfl

theorem plUsers_of_none {rules : AuthRules} {c : Obj} (h : Obj.get c (bs "users") = none) :
    plUsers rules c = .ok none := by
  simp only [plUsers, getAsIntMap, h]


/-- What `check_room_power_levels` says about the canonical change of `target`'s level. -/
theorem checkRoomPowerLevels_canonical {rules : AuthRules} {ev pl : Event} {p : Levels} {target : Str}
    {creator : Str}
    (hwf : authWF rules pl.content = true) (hof : ofContent pl.content = some p)
    (hv : validUserId target = true)
    (hcc : canonicalChange pl.content target (p.forUser ev.sender) = some ev.content) :
    checkRoomPowerLevels rules ev (some pl) (p.forUser ev.sender) =
      require (ev.sender == target ||
        (match lastGet p.users target with
          | some x => decide (p.forUser ev.sender > x)
          | none => true)) := by
  have ha := agree_of_wf hwf hof
  have hsl : inRange (p.forUser ev.sender) = true := plUserLevel_inRange (ha.user ev.sender creator)
  have hint : plInt rules (.int (p.forUser ev.sender)) = .ok (p.forUser ev.sender) := by
    simp [plInt, hsl]
  obtain ⟨-, -, ⟨cu, hcu⟩, -⟩ := authWF_fields hwf
  obtain ⟨-, -, -, -, -, -, -, f8, -, -⟩ := ofContent_fields hof
  have hagree := map_field_agree hcu f8
  unfold canonicalChange at hcc
  cases hg : Obj.get pl.content (bs "users") with
  | none =>
    simp only [hg, Option.some.injEq] at hcc
    have hcu' := plUsers_of_none (rules := rules) hg
    rw [hcu] at hcu'; cases hcu'
    have hnu : plUsers rules ev.content = .ok (some [(target, p.forUser ev.sender)]) := by
      rw [← hcc, plUsers_of_get (Obj.get_insert_self _ _ _)]
      simp [intMapEntries, userKey, hv, hint, ok_bind, Except.map]
    rw [checkRoomPowerLevels_users_change hcc.symm hwf hnu hcu]
    have hpt : lastGet p.users target = none := by rw [← hagree]; rfl
    have hone := checkPowerLevelMaps_one_key (cur := none) (new := some [(target, p.forUser ev.sender)])
      (sl := p.forUser ev.sender) (rej := fun u l => u ≠ ev.sender && decide (l ≥ p.forUser ev.sender))
      (t := target) (by intro k hk; simp [lastGet, Ne.symm hk]) (by simp [lastGet])
    rw [hone, hpt]
    simp [lastGet]
  | some uv =>
    cases uv with
    | obj u =>
      simp only [hg] at hcc
      have hcu' := plUsers_of_get (rules := rules) hg
      rw [hcu] at hcu'
      cases hme : intMapEntries rules userKey u with
      | error e => simp [hme, Except.map] at hcu'
      | ok mu =>
        simp only [hme, Except.map, Except.ok.injEq] at hcu'
        subst hcu'
        by_cases hcon : Obj.contains u target = true
        · simp only [hcon, if_true, Option.some.injEq] at hcc
          obtain ⟨x, hx⟩ := lastGet_entries_of_contains hme hcon
          have hnu : plUsers rules ev.content = .ok (some (mu.filter (fun q => q.1 ≠ target))) := by
            rw [← hcc, plUsers_of_get (Obj.get_insert_self _ _ _), intMapEntries_erase hme]
            rfl
          rw [checkRoomPowerLevels_users_change hcc.symm hwf hnu hcu]
          have hpt : lastGet p.users target = some x := by rw [← hagree]; exact hx
          have hone := checkPowerLevelMaps_one_key (cur := some mu)
            (new := some (mu.filter (fun q => q.1 ≠ target)))
            (sl := p.forUser ev.sender) (rej := fun u l => u ≠ ev.sender && decide (l ≥ p.forUser ev.sender))
            (t := target)
            (by intro k hk; simp only [Option.bind_some, lastGet_filter, hk, if_false])
            (by simp only [Option.bind_some, lastGet_filter, if_true, hx]; exact fun h => nomatch h)
          rw [hone, hpt]
          simp only [Option.bind_some, hx, lastGet_filter, if_true, Option.any_some, Option.any_none,
            Bool.or_false]
          congr 1
          by_cases hst : ev.sender = target
          · simp [hst]
          · have hts : ¬ target = ev.sender := fun e => hst e.symm
            have hb : (ev.sender == target) = false := by simpa using hst
            simp only [ne_eq, hts, not_false_eq_true, decide_true, Bool.true_and, hb, Bool.false_or]
            rw [Bool.eq_iff_iff]
            simp only [Bool.not_eq_true', decide_eq_false_iff_not, decide_eq_true_iff]
            omega
        · have hcon' : Obj.contains u target = false := by simpa using hcon
          simp only [hcon', Bool.false_eq_true, if_false, Option.some.injEq] at hcc
          obtain ⟨mu', hmu', hget⟩ := intMapEntries_insert hv hint hme hcon'
          have hnone := lastGet_entries_of_not_contains hme hcon'
          have hnu : plUsers rules ev.content = .ok (some mu') := by
            rw [← hcc, plUsers_of_get (Obj.get_insert_self _ _ _), hmu']
            rfl
          rw [checkRoomPowerLevels_users_change hcc.symm hwf hnu hcu]
          have hpt : lastGet p.users target = none := by rw [← hagree]; exact hnone
          have hone := checkPowerLevelMaps_one_key (cur := some mu) (new := some mu')
            (sl := p.forUser ev.sender) (rej := fun u l => u ≠ ev.sender && decide (l ≥ p.forUser ev.sender))
            (t := target)
            (by intro k hk; simp [hget, hk])
            (by simp [hget, hnone])
          rw [hone, hpt]
          simp [hget, hnone]
    | _ => simp [hg] at hcc

end Ruma.PowerLevels
