/-
  C03 helper lemmas: several servers hashing and signing the same event one after the other.
-/
import RumaModel.Lemmas.EventSignCopy
namespace Ruma.EventSign
open Ruma Ruma.Sign Ruma.Redact

/-- Re-inserting the value already stored is the identity on a `BTreeMap`. -/
theorem insert_of_get {α : Type} (o : List (Str × α)) (k : Str) (v : α) (hs : Obj.Sorted o)
    (hg : Obj.get o k = some v) : Obj.insert o k v = o := by
  apply Obj.sorted_ext _ _ (Obj.sorted_insert o k v hs) hs
  intro k'
  by_cases hk : k' = k
  · subst hk; rw [Obj.get_insert_self, hg]
  · rw [Obj.get_insert_ne _ _ _ _ hk]

/-- `Valid` together with the `BTreeMap` invariant of the event and of its `hashes` object. -/
def ValidSorted (S : SigScheme) (sha256 : List Nat → List Nat) (keys : KeyMap) (rr : Rules) (o : Obj) : Prop :=
  Valid S sha256 keys rr o ∧ Obj.Sorted o ∧ ∀ hs, Obj.get o hashesKey = some (.obj hs) → Obj.Sorted hs

/-- A fresh sorted event whose `hashes` (if any) is sorted. -/
def FreshSorted (o : Obj) : Prop :=
  Obj.get o sigKey = none ∧ Obj.Sorted o ∧ ∀ hs, Obj.get o hashesKey = some (.obj hs) → Obj.Sorted hs

/-- One signing step keeps (or establishes) `ValidSorted`, and the signer is afterwards named in
`signatures` together with everybody who was named before. -/
theorem validSorted_step (S : SigScheme) (hS : S.Lawful) (sha256 : List Nat → List Nat)
    (keys : KeyMap) (entity : Str) (kp : KeyPair) (e e' : Obj) (rr : Rules)
    (hsign : hashAndSignEvent S sha256 entity kp e rr = (.ok (), e'))
    (hk : HasKey S keys entity kp)
    (h0 : FreshSorted e ∨ ValidSorted S sha256 keys rr e) :
    ValidSorted S sha256 keys rr e' ∧
    ∃ sigs', Obj.get e' sigKey = some (.obj sigs') ∧ entity ∈ Obj.keys sigs' ∧
      ∀ sigs, Obj.get e sigKey = some (.obj sigs) → ∀ s ∈ Obj.keys sigs, s ∈ Obj.keys sigs' := by
  have hsorted : Obj.Sorted e ∧ ∀ hs, Obj.get e hashesKey = some (.obj hs) → Obj.Sorted hs := by
    rcases h0 with ⟨_, h1, h2⟩ | ⟨_, h1, h2⟩ <;> exact ⟨h1, h2⟩
  have hprior : Obj.get e sigKey = none ∨
      ∀ hashes hash red, redact rr (withHash e hashes hash) none = .ok red →
        Hash.contentHash sha256 e = .ok hash →
        ((Obj.get e hashesKey = none ∧ hashes = []) ∨ Obj.get e hashesKey = some (.obj hashes)) →
        verifyJson S keys red = .ok () := by
    rcases h0 with ⟨h, _, _⟩ | ⟨⟨hash0, hashes0, red0, sigs0, hch0, hh1, hh2, hred0, hsig0, hall0⟩, hs1, hs2⟩
    · exact Or.inl h
    · refine Or.inr ?_
      intro hashes hash red hred hch hcase
      rw [hch0] at hch; injection hch with hch; subst hch
      rcases hcase with ⟨hnone, _⟩ | hsome
      · rw [hh1] at hnone; cases hnone
      · rw [hh1] at hsome; injection hsome with hsome; injection hsome with hsome; subst hsome
        have hid : withHash e hashes0 hash0 = e := by
          unfold withHash
          rw [insert_of_get hashes0 sha256Key _ (hs2 hashes0 hh1) hh2,
            insert_of_get e hashesKey _ hs1 hh1]
        rw [hid, hred0] at hred; injection hred with hred; subst hred
        rw [verifyJson_ok_iff]
        refine ⟨sigs0, ?_, hall0⟩
        rw [get_redact_always rr e red0 hred0 sigKey sigKey_mem_always (by decide), hsig0]
  obtain ⟨hv, red, hsig, hredsig⟩ := valid_after_sign S hS sha256 keys entity kp e e' rr hsign hk hprior
  obtain ⟨hash, hashes, red1, _, hhs, hred1, _, he'⟩ := hashAndSign_ok S sha256 entity kp e e' rr hsign
  have hsortedH : Obj.Sorted hashes := by
    rcases hhs with ⟨_, rfl⟩ | h
    · exact List.Pairwise.nil
    · exact hsorted.2 hashes h
  refine ⟨⟨hv, ?_, ?_⟩, newSignatures S entity kp red, hsig, ?_, ?_⟩
  · rw [he']
    exact Obj.sorted_insert _ _ _ (Obj.sorted_insert _ _ _ hsorted.1)
  · intro hs hget
    rw [he', Obj.get_insert_ne _ _ _ _ hashesKey_ne_sigKey, withHash, Obj.get_insert_self] at hget
    injection hget with hget; injection hget with hget; subst hget
    exact Obj.sorted_insert _ _ _ hsortedH
  · rw [newSignatures, Canonical.mem_keys_insert]; exact Or.inl rfl
  · intro sigs hgs s hs
    rw [newSignatures, Canonical.mem_keys_insert]
    refine Or.inr ?_
    have : Spec.Sign.signaturesOf red = sigs := signaturesOf_of_get red sigs (by rw [hredsig, hgs])
    rw [this]; exact hs

/-- The signing steps in order; stops at the first error (`Result` and the object after it). -/
def signAllEvents (S : SigScheme) (sha256 : List Nat → List Nat) (rr : Rules) :
    List (Str × KeyPair) → Obj → Except Err Unit × Obj
  | [], o => (.ok (), o)
  | (entity, kp) :: rest, o =>
    match hashAndSignEvent S sha256 entity kp o rr with
    | (.ok (), o') => signAllEvents S sha256 rr rest o'
    | (.error err, o') => (.error err, o')

theorem signAll_validSorted (S : SigScheme) (hS : S.Lawful) (sha256 : List Nat → List Nat)
    (keys : KeyMap) (rr : Rules) (steps : List (Str × KeyPair)) (e e' : Obj)
    (hk : ∀ st ∈ steps, HasKey S keys st.1 st.2)
    (h0 : ValidSorted S sha256 keys rr e)
    (hrun : signAllEvents S sha256 rr steps e = (.ok (), e')) :
    ValidSorted S sha256 keys rr e' ∧
    ∃ sigs', Obj.get e' sigKey = some (.obj sigs') ∧ (∀ st ∈ steps, st.1 ∈ Obj.keys sigs') ∧
      ∀ sigs, Obj.get e sigKey = some (.obj sigs) → ∀ s ∈ Obj.keys sigs, s ∈ Obj.keys sigs' := by
  induction steps generalizing e with
  | nil =>
    simp only [signAllEvents] at hrun
    injection hrun with _ hrun; subst hrun
    have hv0 := h0
    obtain ⟨⟨_, _, _, sigs, _, _, _, _, hsig, _⟩, _, _⟩ := hv0
    exact ⟨h0, sigs, hsig, by simp, fun sigs' h s hs => by rw [hsig] at h; cases h; exact hs⟩
  | cons st rest ih =>
    obtain ⟨entity, kp⟩ := st
    simp only [signAllEvents] at hrun
    cases hstep : hashAndSignEvent S sha256 entity kp e rr with
    | mk res o1 =>
      rw [hstep] at hrun
      cases res with
      | error err => simp only at hrun; cases hrun
      | ok u =>
        cases u
        simp only at hrun
        obtain ⟨hv1, sigs1, hs1, hm1, hold1⟩ := validSorted_step S hS sha256 keys entity kp e o1 rr hstep
          (hk (entity, kp) (by simp)) (Or.inr h0)
        obtain ⟨hv2, sigs2, hs2, hm2, hold2⟩ := ih o1 (fun st hst => hk st (by simp [hst])) hv1 hrun
        refine ⟨hv2, sigs2, hs2, ?_, ?_⟩
        · intro st hst
          rcases List.mem_cons.mp hst with rfl | hst
          · exact hold2 sigs1 hs1 _ hm1
          · exact hm2 st hst
        · intro sigs hgs s hs
          exact hold2 sigs1 hs1 s (hold1 sigs hgs s hs)

end Ruma.EventSign
