/-
  C03 helper lemmas about what redaction does to sizes and to content entries:
  the canonical form of a redacted copy is never longer than the original's (so `content_hash` of a
  redacted copy cannot fail with `PduSize` when the original's did not), and a content entry of the
  redacted event other than `third_party_invite` is an entry of the original with the same value.
-/
import RumaModel.Lemmas.EventSign
namespace Ruma.EventSign
open Ruma Ruma.Sign Ruma.Redact Ruma.Canonical

/-! ### Length of the compact encoding -/

/-- Bytes one entry contributes, its trailing separator included. -/
def entrySize (p : Str × JVal) : Nat := (encodeStr p.1).length + 1 + (encode p.2).length + 1

def objSize (l : Obj) : Nat := (l.map entrySize).sum

theorem encodeO_length (l : Obj) : (encodeO l).length = objSize l - 1 := by
  induction l with
  | nil => rfl
  | cons e t ih =>
    obtain ⟨k, v⟩ := e
    cases t with
    | nil => simp [encodeO, objSize, entrySize]; omega
    | cons e2 t2 =>
      have hpos : 1 ≤ objSize (e2 :: t2) := by
        simp only [objSize, List.map_cons, List.sum_cons, entrySize]; omega
      simp only [encodeO, List.length_append, List.length_cons, ih]
      simp only [objSize, List.map_cons, List.sum_cons, entrySize] at hpos ⊢
      omega

theorem encode_obj_length (l : Obj) : (encode (.obj l)).length = objSize l - 1 + 2 := by
  simp [encode, encodeO_length]

theorem objSize_filter_le (l : Obj) (p : Str × JVal → Bool) : objSize (l.filter p) ≤ objSize l := by
  induction l with
  | nil => exact Nat.le_refl _
  | cons e t ih =>
    simp only [List.filter_cons]
    split
    · simp only [objSize, List.map_cons, List.sum_cons] at ih ⊢; omega
    · simp only [objSize, List.map_cons, List.sum_cons] at ih ⊢; omega

/-- A retain function never makes a value's encoding longer. -/
def Shrinking (f : RetainFn) : Prop :=
  ∀ k v v', f k v = .ok (.some v') → (encode v').length ≤ (encode v).length

theorem applySome_size (f : RetainFn) (hf : Shrinking f) (c c' : Obj) (h : applySome f c = .ok c') :
    objSize c' ≤ objSize c := by
  induction c generalizing c' with
  | nil => simp only [applySome] at h; cases h; exact Nat.le_refl _
  | cons e t ih =>
    obtain ⟨k, v⟩ := e
    simp only [applySome] at h
    cases hfk : f k v with
    | error err => rw [hfk] at h; cases h
    | ok ov =>
      rw [hfk] at h
      cases ov with
      | none =>
        simp only at h
        have := ih c' h
        simp only [objSize, List.map_cons, List.sum_cons] at this ⊢; omega
      | some v' =>
        simp only at h
        cases ht : applySome f t with
        | error err => rw [ht] at h; cases h
        | ok t' =>
          rw [ht] at h; cases h
          have h1 := ih t' ht
          have h2 := hf k v v' hfk
          simp only [objSize, List.map_cons, List.sum_cons, entrySize] at h1 ⊢; omega

theorem byKey_shrinking (p : Str → Bool) : Shrinking (byKey p) := by
  intro k v v' h
  simp only [byKey] at h
  split at h <;> simp_all

theorem memberKey_shrinking (r : Rules) : Shrinking (memberKey r) := by
  intro k v v' h
  simp only [memberKey] at h
  split at h
  · simp_all
  · split at h
    · split at h <;> simp_all
    · split at h
      · split at h
        · rename_i tpi
          split at h
          · simp at h
          · simp only [Except.ok.injEq, Option.some.injEq] at h
            subst h
            rw [encode_obj_length, encode_obj_length]
            have := objSize_filter_le tpi (fun p => decide (p.1 = bs "signed"))
            omega
        · cases h
      · simp at h

theorem retained_some_shrinking (ty : Str) (r : Rules) (f : RetainFn)
    (h : retainedContentKeys ty r = .some f) : Shrinking f := by
  unfold retainedContentKeys at h
  repeat' split at h
  all_goals first
    | (injection h with h; subst h; first | exact memberKey_shrinking r | exact byKey_shrinking _)
    | cases h

theorem redactContent_size (r : Rules) (ty : Str) (c c' : Obj) (h : redactContent r ty c = .ok c') :
    objSize c' ≤ objSize c := by
  unfold redactContent at h
  cases hR : retainedContentKeys ty r with
  | all => rw [hR] at h; simp only [Retained.apply] at h; cases h; exact Nat.le_refl _
  | none => rw [hR] at h; simp only [Retained.apply] at h; cases h; exact Nat.zero_le _
  | some f =>
    rw [hR] at h
    simp only [Retained.apply] at h
    exact applySome_size f (retained_some_shrinking ty r f hR) c c' h

/-- Replacing the value under `k` by one whose encoding is not longer than any replaced value's. -/
theorem objSize_setVal_le (o : Obj) (k : Str) (v : JVal)
    (h : ∀ p ∈ o, p.1 = k → (encode v).length ≤ (encode p.2).length) :
    objSize (setVal o k v) ≤ objSize o := by
  induction o with
  | nil => exact Nat.le_refl _
  | cons e t ih =>
    obtain ⟨a, b⟩ := e
    have iht := ih (fun p hp => h p (List.mem_cons_of_mem _ hp))
    simp only [setVal, List.map_cons] at iht ⊢
    by_cases hk : a = k
    · have := h (a, b) (List.mem_cons_self) hk
      simp only [hk, if_true, objSize, List.map_cons, List.sum_cons, entrySize] at iht this ⊢
      omega
    · simp only [hk, if_false, objSize, List.map_cons, List.sum_cons] at iht ⊢; omega

theorem filter_comm {α} (l : List α) (p q : α → Bool) :
    (l.filter p).filter q = (l.filter q).filter p := by
  rw [List.filter_filter, List.filter_filter]
  apply List.filter_congr
  intro x _
  exact Bool.and_comm _ _

/-- **The hashed canonical form of a redacted copy is never longer than the original's**, for a
`BTreeMap` event. -/
theorem contentPreimage_redacted_le (rr : Rules) (e red : Obj) (hs : Obj.Sorted e)
    (hred : redact rr e none = .ok red) :
    (Spec.Hash.contentPreimage red).length ≤ (Spec.Hash.contentPreimage e).length := by
  obtain ⟨ty, _, hcase⟩ := Props.C04.redact_ok_shape _ _ _ hred
  simp only [Spec.Hash.contentPreimage, encodeObj, encode_obj_length, Spec.Hash.without]
  apply Nat.add_le_add_right
  apply Nat.sub_le_sub_right
  rcases hcase with ⟨_, rfl⟩ | ⟨c, c', hc, hrc, rfl⟩
  · rw [filter_comm]
    exact objSize_filter_le _ _
  · rw [filter_comm]
    refine Nat.le_trans (objSize_filter_le _ _) ?_
    rw [← setVal_filter (p := fun k => !([bs "unsigned", bs "signatures", bs "hashes"].contains k))]
    apply objSize_setVal_le
    intro p hp hk
    have hpe := (List.mem_filter.mp hp).1
    rw [Hash.sorted_unique e hs _ _ hc p hpe hk, encode_obj_length, encode_obj_length]
    have := redactContent_size rr ty c c' hrc
    omega

/-- `content_hash` of the redacted copy of an event whose content hash is defined is defined. -/
theorem contentHash_redacted_ok (sha256 : List Nat → List Nat) (rr : Rules) (e red : Obj)
    (hash : List Nat) (hs : Obj.Sorted e) (hred : redact rr e none = .ok red)
    (hch : Hash.contentHash sha256 e = .ok hash) :
    ∃ calcd, Hash.contentHash sha256 red = .ok calcd := by
  have hle := contentPreimage_redacted_le rr e red hs hred
  rw [Props.C05.content_hash_def] at hch ⊢
  split at hch
  · cases hch
  · rename_i hlen
    rw [if_neg (by omega)]
    exact ⟨_, rfl⟩

/-! ### Content entries of the redacted event -/

theorem applySome_get (f : RetainFn) (k : Str)
    (hk : (∀ v, f k v = .ok (.some v)) ∨ (∀ v, f k v = .ok .none))
    (c c' : Obj) (h : applySome f c = .ok c') (v : JVal) (hg : Obj.get c' k = some v) :
    Obj.get c k = some v := by
  induction c generalizing c' with
  | nil => simp only [applySome] at h; cases h; simp [Obj.get] at hg
  | cons e t ih =>
    obtain ⟨a, b⟩ := e
    simp only [applySome] at h
    cases hfk : f a b with
    | error err => rw [hfk] at h; cases h
    | ok ov =>
      rw [hfk] at h
      cases ov with
      | none =>
        simp only at h
        have := ih c' h hg
        by_cases hak : a = k
        · subst hak
          rcases hk with hk | hk
          · rw [hk b] at hfk; cases hfk
          · -- every entry with this key is dropped, so the result has none
            exfalso
            have hnone : ∀ (t t' : Obj), applySome f t = .ok t' → Obj.get t' a = none := by
              intro t
              induction t with
              | nil => intro t' ht; simp only [applySome] at ht; cases ht; rfl
              | cons e2 t2 ih2 =>
                intro t' ht
                obtain ⟨a2, b2⟩ := e2
                simp only [applySome] at ht
                cases hf2 : f a2 b2 with
                | error err => rw [hf2] at ht; cases ht
                | ok ov2 =>
                  rw [hf2] at ht
                  cases ov2 with
                  | none => exact ih2 t' ht
                  | some v2 =>
                    simp only at ht
                    cases ht2 : applySome f t2 with
                    | error err => rw [ht2] at ht; cases ht
                    | ok t2' =>
                      rw [ht2] at ht; cases ht
                      have hne : a2 ≠ a := by
                        intro heq; subst heq; rw [hk b2] at hf2; cases hf2
                      simp only [Obj.get, hne, if_false]
                      exact ih2 t2' ht2
            rw [hnone t c' h] at hg; cases hg
        · simp only [Obj.get, hak, if_false]; exact this
      | some v' =>
        simp only at h
        cases ht : applySome f t with
        | error err => rw [ht] at h; cases h
        | ok t' =>
          rw [ht] at h; cases h
          by_cases hak : a = k
          · subst hak
            simp only [Obj.get, if_true] at hg ⊢
            rcases hk with hk | hk
            · rw [hk b] at hfk; cases hfk; exact hg
            · rw [hk b] at hfk; cases hfk
          · simp only [Obj.get, hak, if_false] at hg ⊢
            exact ih t' ht hg

theorem byKey_keyOnly (p : Str → Bool) (k : Str) :
    (∀ v, byKey p k v = .ok (.some v)) ∨ (∀ v, byKey p k v = .ok .none) := by
  cases hp : p k
  · exact Or.inr (fun v => by simp [byKey, hp])
  · exact Or.inl (fun v => by simp [byKey, hp])

theorem memberKey_keyOnly (r : Rules) (k : Str) (hk : k ≠ bs "third_party_invite") :
    (∀ v, memberKey r k v = .ok (.some v)) ∨ (∀ v, memberKey r k v = .ok .none) := by
  by_cases hp : k = bs "membership"
  · exact Or.inl (fun v => by simp [memberKey, hp])
  · by_cases hj : k = bs "join_authorised_via_users_server"
    · cases hb : r.keepMemberAuthorised
      · exact Or.inr (fun v => by simp [memberKey, hj, hb, bs])
      · exact Or.inl (fun v => by simp [memberKey, hj, hb, bs])
    · exact Or.inr (fun v => by simp [memberKey, hp, hj, hk])

/-- An entry of the redacted content under a key other than `third_party_invite` is an entry of
the original content with the same value. -/
theorem content_get_of_redacted (r : Rules) (ty : Str) (c c' : Obj)
    (h : redactContent r ty c = .ok c') (k : Str) (hk : k ≠ bs "third_party_invite") (v : JVal)
    (hg : Obj.get c' k = some v) : Obj.get c k = some v := by
  unfold redactContent at h
  cases hR : retainedContentKeys ty r with
  | all => rw [hR] at h; simp only [Retained.apply] at h; cases h; exact hg
  | none => rw [hR] at h; simp only [Retained.apply] at h; cases h; simp [Obj.get] at hg
  | some f =>
    rw [hR] at h
    simp only [Retained.apply] at h
    refine applySome_get f k ?_ c c' h v hg
    unfold retainedContentKeys at hR
    repeat' split at hR
    all_goals first
      | (injection hR with hR; subst hR
         first | exact memberKey_keyOnly r k hk | exact byKey_keyOnly _ k)
      | cases hR

end Ruma.EventSign
