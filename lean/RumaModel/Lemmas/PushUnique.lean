/-
  C12 — with unique object keys, distinct leaves of an event have distinct property paths, and
  every leaf is what its own path looks up.
-/
import RumaModel.Lemmas.PushFlatten
import RumaModel.Lemmas.PushPath
namespace Ruma.Push
open Ruma.Spec.Push

mutual
/-- Every leaf below `rpath` has a key path extending `rpath`. -/
theorem leaves_prefix : ∀ (v : PJ) (rpath : List Text), ∀ e ∈ leaves v rpath,
    ∃ suffix, e.1 = rpath.reverse ++ suffix
  | .obj [], rpath, e, he => by simp [leaves] at he; exact ⟨[], by simp [he]⟩
  | .obj (kv :: kvs), rpath, e, he => by
    rw [leaves] at he
    obtain ⟨k, _, s, hs⟩ := leavesFields_prefix (kv :: kvs) rpath e he
    exact ⟨k :: s, hs⟩
  | .null, rpath, e, he => by simp [leaves] at he; exact ⟨[], by simp [he]⟩
  | .bool b, rpath, e, he => by simp [leaves] at he; exact ⟨[], by simp [he]⟩
  | .int i, rpath, e, he => by
    simp only [leaves] at he
    split at he
    · simp at he; exact ⟨[], by simp [he]⟩
    · simp at he
  | .float, rpath, e, he => by simp [leaves] at he
  | .str s, rpath, e, he => by simp [leaves] at he; exact ⟨[], by simp [he]⟩
  | .arr xs, rpath, e, he => by simp [leaves] at he; exact ⟨[], by simp [he]⟩
/-- Every leaf of the fields goes through one of their keys. -/
theorem leavesFields_prefix : ∀ (kvs : List (Text × PJ)) (rpath : List Text), ∀ e ∈ leavesFields kvs rpath,
    ∃ k ∈ kvs.map (·.1), ∃ suffix, e.1 = rpath.reverse ++ k :: suffix
  | [], rpath, e, he => by simp [leavesFields] at he
  | (k, v) :: rest, rpath, e, he => by
    rw [leavesFields] at he
    rcases List.mem_append.1 he with h | h
    · obtain ⟨s, hs⟩ := leaves_prefix v (k :: rpath) e h
      exact ⟨k, by simp, s, by simp [hs]⟩
    · obtain ⟨k', hk', s, hs⟩ := leavesFields_prefix rest rpath e h
      exact ⟨k', by simp [hk'] , s, hs⟩
end

mutual
/-- With unique keys, distinct leaves have distinct key paths. -/
theorem leaves_nodup : ∀ (v : PJ) (rpath : List Text), KeysUnique v →
    ((leaves v rpath).map (·.1)).Nodup
  | .obj [], rpath, _ => by simp [leaves]
  | .obj (kv :: kvs), rpath, h => by
    rw [leaves]
    unfold KeysUnique at h
    exact leavesFields_nodup (kv :: kvs) rpath h.1 h.2
  | .null, rpath, _ => by simp [leaves]
  | .bool b, rpath, _ => by simp [leaves]
  | .int i, rpath, _ => by simp only [leaves]; split <;> simp
  | .float, rpath, _ => by simp [leaves]
  | .str s, rpath, _ => by simp [leaves]
  | .arr xs, rpath, _ => by simp [leaves]
theorem leavesFields_nodup : ∀ (kvs : List (Text × PJ)) (rpath : List Text),
    (kvs.map (·.1)).Nodup → KeysUniqueFields kvs → ((leavesFields kvs rpath).map (·.1)).Nodup
  | [], rpath, _, _ => by simp [leavesFields]
  | (k, v) :: rest, rpath, hk, hu => by
    rw [leavesFields, List.map_append]
    unfold KeysUniqueFields at hu
    simp only [List.map_cons, List.nodup_cons] at hk
    refine List.nodup_append.2 ⟨leaves_nodup v (k :: rpath) hu.1, leavesFields_nodup rest rpath hk.2 hu.2, ?_⟩
    intro a ha b hb hab
    obtain ⟨e1, he1, rfl⟩ := List.mem_map.1 ha
    obtain ⟨e2, he2, rfl⟩ := List.mem_map.1 hb
    obtain ⟨s1, hs1⟩ := leaves_prefix v (k :: rpath) e1 he1
    obtain ⟨k', hk', s2, hs2⟩ := leavesFields_prefix rest rpath e2 he2
    rw [hs1, hs2] at hab
    simp only [List.reverse_cons, List.append_assoc, List.singleton_append] at hab
    have := List.append_cancel_left hab
    simp only [List.cons.injEq] at this
    exact hk.1 (this.1 ▸ hk')
end

/-- With unique keys, distinct leaves have distinct property paths: dot-path addressing is
unambiguous. -/
theorem leaves_paths_nodup (ev : PJ) (h : KeysUnique ev) :
    ((leaves ev []).map fun e => pathString e.1).Nodup := by
  have hn := leaves_nodup ev [] h
  have : ((leaves ev []).map fun e => pathString e.1) = ((leaves ev []).map (·.1)).map pathString := by
    simp [List.map_map]
  rw [this]
  cases ev with
  | obj kvs =>
    cases kvs with
    | nil => simp [leaves]
    | cons kv kvs =>
      rw [List.Nodup, List.pairwise_map]
      refine List.Pairwise.imp_of_mem ?_ hn
      intro a b ha hb hne hab
      apply hne
      obtain ⟨e1, he1, rfl⟩ := List.mem_map.1 ha
      obtain ⟨e2, he2, rfl⟩ := List.mem_map.1 hb
      rw [leaves] at he1 he2
      obtain ⟨k1, _, s1, hs1⟩ := leavesFields_prefix (kv :: kvs) [] e1 he1
      obtain ⟨k2, _, s2, hs2⟩ := leavesFields_prefix (kv :: kvs) [] e2 he2
      exact pathString_injective (by simp [hs1]) (by simp [hs2]) hab
  | null => simp [leaves]
  | bool b => simp [leaves]
  | int i => simp only [leaves]; split <;> simp
  | float => simp [leaves]
  | str s => simp [leaves]
  | arr xs => simp [leaves]

theorem find?_of_nodup_map {α β : Type} [DecidableEq β] (f : α → β) :
    ∀ (l : List α), (l.map f).Nodup → ∀ e ∈ l, l.find? (fun x => f x = f e) = some e
  | [], _, e, he => by cases he
  | a :: t, hn, e, he => by
    simp only [List.map_cons, List.nodup_cons] at hn
    rw [List.find?_cons]
    rcases List.mem_cons.1 he with rfl | ht
    · simp
    · have hne : ¬ f a = f e := fun h => hn.1 (h ▸ List.mem_map_of_mem ht)
      simp only [hne, decide_false]
      exact find?_of_nodup_map f t hn.2 e ht

/-- With unique keys every leaf is what its own property path looks up. -/
theorem lookup_leaf (ev : PJ) (h : KeysUnique ev) (e : List Text × PJ) (he : e ∈ leaves ev []) :
    lookup ev (pathString e.1) = some e.2 := by
  unfold lookup
  have hn : ((leaves ev []).reverse.map fun e => pathString e.1).Nodup := by
    rw [List.map_reverse, List.Nodup, List.pairwise_reverse]
    exact (leaves_paths_nodup ev h).imp fun hab => Ne.symm hab
  rw [find?_of_nodup_map (fun e => pathString e.1) _ hn e (List.mem_reverse.2 he)]
  rfl

end Ruma.Push
