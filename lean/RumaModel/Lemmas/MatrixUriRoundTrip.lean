/-
  C11 — helper lemmas, part 4: `parse (format v) = v` for both URI kinds.
-/
import RumaModel.Lemmas.MatrixUriQuery
namespace Ruma.MatrixUri
open Ruma Ruma.Spec.MatrixUri

theorem not_mem_sigilText (V : Validators) (id : MatrixId) (h : MatrixIdOk V id) :
    63 ∉ toStringWithSigil id ∧ (toStringWithSigil id).getLast? ≠ some 47 ∧ toStringWithSigil id ≠ [] := by
  have one : ∀ s : Str, IsStr s → s ≠ [] →
      63 ∉ encPath s ∧ (encPath s).getLast? ≠ some 47 ∧ encPath s ≠ [] := fun s hs hne =>
    ⟨(not_mem_encPath s hs.1).2, getLast_ne_of_not_mem (not_mem_encPath s hs.1).1,
      percentEncode_ne_nil _ s hne⟩
  have ne : ∀ (acc : Str → Bool) (sg : Nat) (s : Str), IdOk acc sg s → s ≠ [] := by
    intro acc sg s h e; subst e; simp [IdOk] at h
  cases id with
  | user s => exact one s h.1 (ne _ _ _ h)
  | room s => exact one s h.1 (ne _ _ _ h)
  | roomAlias s => exact one s h.1 (ne _ _ _ h)
  | event r e =>
    obtain ⟨hr, he⟩ := h
    have hrs : IsStr r := by rcases hr with h | h <;> exact h.1
    have h2 := one e he.1 (ne _ _ _ he)
    refine ⟨?_, ?_, by simp [toStringWithSigil]⟩
    · simp [toStringWithSigil, (not_mem_encPath r hrs.1).2, h2.1]
    · simp only [toStringWithSigil]
      rw [getLast?_append_cons _ _ 47 h2.2.2]; exact h2.2.1

theorem viaItems_props (vs : List Str) (h : ∀ v ∈ vs, IsStr v) :
    ∀ p ∈ vs.map viaItem, p ≠ [] ∧ 38 ∉ p := by
  intro p hp
  simp only [List.mem_map] at hp
  obtain ⟨v, hv, rfl⟩ := hp
  exact viaItem_props v (h v hv)

theorem map_formPair_viaItem (vs : List Str) (h : ∀ v ∈ vs, IsStr v) :
    (vs.map viaItem).map formPair = vs.map (fun v => (bs "via", v)) := by
  induction vs with
  | nil => rfl
  | cons v r ih =>
    simp only [List.map_cons, formPair_viaItem v (h v (by simp))]
    rw [ih (fun x hx => h x (by simp [hx]))]

theorem not_mem_joinWith (c d : Nat) (ps : List Str) (hcd : d ≠ c) (h : ∀ p ∈ ps, d ∉ p) :
    d ∉ joinWith c ps := by
  induction ps with
  | nil => simp [joinWith]
  | cons p r ih =>
    cases r with
    | nil => simpa [joinWith] using h p (by simp)
    | cons q r =>
      rw [joinWith_cons_cons]
      have := ih (fun x hx => h x (by simp [hx]))
      simp [h p (by simp), hcd, this]

theorem viaItem_not_mem (v : Str) (h : IsStr v) : 63 ∉ viaItem v ∧ 47 ∉ viaItem v := by
  have := not_mem_encQuery v h.1
  simp [viaItem, bs, this.2.2.1, this.2.2.2]

/-- `MatrixToUri::parse (to_string v) = Ok v`. -/
theorem parseTo_formatTo (V : Validators) (u : ToUri) (h : ToUriOk V u) :
    parseTo V (formatTo u) = .ok u := by
  obtain ⟨hid, hvia⟩ := h
  obtain ⟨h63, hlast, hne⟩ := not_mem_sigilText V u.id hid
  have hstr : ∀ v ∈ u.via, IsStr v := fun v hv => (hvia v hv).1
  unfold parseTo formatTo
  rw [List.append_assoc, stripPrefix_append]
  simp only
  cases hv : u.via with
  | nil =>
    simp only [fmtVias_nil, List.append_nil]
    rw [stripSuffixByte_of_last_ne 47 _ hlast, splitOn_not_mem 63 _ h63]
    simp only [parseWithSigil_toString V u.id hid]
    cases u; simp_all
  | cons v r =>
    rw [fmtVias_cons]
    simp only [if_true]
    have hitems : ∀ p ∈ (v :: r).map viaItem, p ≠ [] ∧ 38 ∉ p := viaItems_props _ (hv ▸ hstr)
    have hQ63 : 63 ∉ joinWith 38 ((v :: r).map viaItem) := by
      apply not_mem_joinWith 38 63 _ (by decide)
      intro p hp
      simp only [List.mem_map] at hp
      obtain ⟨w, hw, rfl⟩ := hp
      exact (viaItem_not_mem w (hstr w (hv ▸ hw))).1
    have hQ47 : 47 ∉ joinWith 38 ((v :: r).map viaItem) := by
      apply not_mem_joinWith 38 47 _ (by decide)
      intro p hp
      simp only [List.mem_map] at hp
      obtain ⟨w, hw, rfl⟩ := hp
      exact (viaItem_not_mem w (hstr w (hv ▸ hw))).2
    have hl : (toStringWithSigil u.id ++ 63 :: joinWith 38 ((v :: r).map viaItem)).getLast? ≠ some 47 := by
      cases hj : joinWith 38 ((v :: r).map viaItem) with
      | nil => simp
      | cons y t =>
        rw [getLast?_append_cons _ _ 63 (by simp)]
        exact getLast_ne_of_not_mem (hj ▸ hQ47)
    rw [stripSuffixByte_of_last_ne 47 _ hl, splitOn_append 63 _ _ h63, splitOn_not_mem 63 _ hQ63]
    simp only [parseWithSigil_toString V u.id hid]
    rw [formParse_joinWith _ (by simp) hitems, map_formPair_viaItem _ (hv ▸ hstr),
      viaOfPairs_map V _ (fun w hw => (hvia w (hv ▸ hw)).2)]
    cases u; simp_all

/-- The `&`-separated items of the query `Display for MatrixUri` writes. -/
def queryItems (u : Uri) : List Str :=
  u.via.map viaItem ++ (match u.action with | none => [] | some a => [actionItem a])

/-- The query `Url::parse` should report for the formatted text. -/
def queryOf (u : Uri) : Option Str :=
  if queryItems u = [] then none else some (joinWith 38 (queryItems u))

theorem formatUri_eq (V : Validators) (u : Uri) (h : MatrixIdOk V u.id) :
    formatUri u = .ok (bs "matrix:" ++ typedText u.id ++ queryText (queryOf u)) := by
  obtain ⟨id, via, action⟩ := u
  unfold formatUri
  simp only at h ⊢
  rw [toStringWithType_ok V id h]
  simp only [queryOf, queryItems, queryText]
  cases via with
  | nil =>
    cases action with
    | none => simp [fmtVias_nil]
    | some a => simp [fmtVias_nil, joinWith, actionItem, bs]
  | cons v r =>
    rw [fmtVias_cons]
    cases action with
    | none => simp
    | some a =>
      have := joinWith_append_singleton 38 ((v :: r).map viaItem) (actionItem a) (by simp)
      simp only [List.map_cons, List.cons_append] at this
      simp only [List.map_cons, List.cons_append, this]
      simp [actionItem, bs]

theorem all_safe_of {p : Str} (h : ∀ c ∈ p, urlSafe c = true) : p.all urlSafe = true :=
  List.all_eq_true.mpr h

theorem typedText_safe (V : Validators) (id : MatrixId) (h : MatrixIdOk V id) :
    (typedText id).all urlSafe = true ∧ (typedText id).head? ≠ some 47 := by
  have enc : ∀ t : Str, Bytes t → ∀ c ∈ encPath t, urlSafe c = true :=
    fun t ht c hc => (encPath_byte t ht c hc).1
  have tl : ∀ s : Str, IsStr s → Bytes s.tail := by
    intro s hs
    cases s with
    | nil => intro x hx; simp at hx
    | cons a t => exact hs.1.tail
  cases id with
  | user s =>
    refine ⟨all_safe_of ?_, by simp [typedText, bs]⟩
    intro c hc
    simp only [typedText, List.mem_append, List.mem_cons] at hc
    rcases hc with hc | hc | hc
    · revert c; decide
    · subst hc; decide
    · exact enc _ (tl s h.1) c hc
  | room s =>
    refine ⟨all_safe_of ?_, by simp [typedText, bs]⟩
    intro c hc
    simp only [typedText, List.mem_append, List.mem_cons] at hc
    rcases hc with hc | hc | hc
    · revert c; decide
    · subst hc; decide
    · exact enc _ (tl s h.1) c hc
  | roomAlias s =>
    refine ⟨all_safe_of ?_, by simp [typedText, bs]⟩
    intro c hc
    simp only [typedText, List.mem_append, List.mem_cons] at hc
    rcases hc with hc | hc | hc
    · revert c; decide
    · subst hc; decide
    · exact enc _ (tl s h.1) c hc
  | event r e =>
    obtain ⟨hr, he⟩ := h
    have hrs : IsStr r := by rcases hr with h | h <;> exact h.1
    refine ⟨all_safe_of ?_, by simp only [typedText]; split <;> simp [bs]⟩
    intro c hc
    simp only [typedText, List.mem_append, List.mem_cons] at hc
    rcases hc with hc | hc | hc | hc | hc | hc | hc
    · split at hc <;> (revert c; decide)
    · subst hc; decide
    · exact enc _ (tl r hrs) c hc
    · subst hc; decide
    · revert c; decide
    · subst hc; decide
    · exact enc _ (tl e he.1) c hc

theorem item_safe_via (v : Str) (h : IsStr v) : ∀ c ∈ viaItem v, urlSafe c = true := by
  intro c hc
  simp only [viaItem, List.mem_append, List.mem_cons] at hc
  rcases hc with hc | hc | hc
  · revert c; decide
  · subst hc; decide
  · exact (encQuery_byte v h.1 c hc).1

theorem item_safe_action (a : Action) (h : IsStr a.asStr) : ∀ c ∈ actionItem a, urlSafe c = true := by
  intro c hc
  simp only [actionItem, List.mem_append, List.mem_cons] at hc
  rcases hc with hc | hc | hc
  · revert c; decide
  · subst hc; decide
  · exact (encQuery_byte _ h.1 c hc).1

theorem joinWith_safe (ps : List Str) (h : ∀ p ∈ ps, ∀ c ∈ p, urlSafe c = true) :
    ∀ c ∈ joinWith 38 ps, urlSafe c = true := by
  induction ps with
  | nil => simp [joinWith]
  | cons p r ih =>
    cases r with
    | nil => simpa [joinWith] using h p (by simp)
    | cons q r =>
      rw [joinWith_cons_cons]
      intro c hc
      simp only [List.mem_append, List.mem_cons] at hc
      rcases hc with hc | hc | hc
      · exact h p (by simp) c hc
      · subst hc; decide
      · exact ih (fun x hx => h x (by simp [hx])) c hc

theorem actionOk_isStr (a : Action) (h : ActionOk a) : IsStr a.asStr := by
  cases a with
  | join => exact ⟨by unfold Bytes; decide, by decide⟩
  | chat => exact ⟨by unfold Bytes; decide, by decide⟩
  | custom s => exact h.1

theorem queryItems_props (V : Validators) (u : Uri) (h : UriOk V u) :
    (∀ p ∈ queryItems u, p ≠ [] ∧ 38 ∉ p) ∧ (∀ p ∈ queryItems u, ∀ c ∈ p, urlSafe c = true) ∧
    (queryItems u).map formPair =
      u.via.map (fun v => (bs "via", v)) ++
        (match u.action with | none => [] | some a => [(bs "action", a.asStr)]) := by
  obtain ⟨_, hvia, hact⟩ := h
  have hstr : ∀ v ∈ u.via, IsStr v := fun v hv => (hvia v hv).1
  refine ⟨?_, ?_, ?_⟩
  · intro p hp
    simp only [queryItems, List.mem_append] at hp
    rcases hp with hp | hp
    · exact viaItems_props _ hstr p hp
    · cases ha : u.action with
      | none => simp [ha] at hp
      | some a =>
        simp [ha] at hp; subst hp
        exact actionItem_props a (actionOk_isStr a (hact a ha))
  · intro p hp
    simp only [queryItems, List.mem_append, List.mem_map] at hp
    rcases hp with ⟨v, hv, rfl⟩ | hp
    · exact item_safe_via v (hstr v hv)
    · cases ha : u.action with
      | none => simp [ha] at hp
      | some a =>
        simp [ha] at hp; subst hp
        exact item_safe_action a (actionOk_isStr a (hact a ha))
  · simp only [queryItems, List.map_append, map_formPair_viaItem _ hstr]
    cases ha : u.action with
    | none => rfl
    | some a => simp [formPair_actionItem a (actionOk_isStr a (hact a ha))]

/-- `MatrixUri::parse (to_string v) = Ok v`, given the assumption on `Url::parse`. -/
theorem parseUri_formatUri (U : UrlParser) (hU : UrlKeepsSafeText U) (V : Validators) (u : Uri)
    (h : UriOk V u) :
    ∃ text, formatUri u = .ok text ∧ parseUri U V text = .ok u := by
  refine ⟨_, formatUri_eq V u h.1, ?_⟩
  obtain ⟨hne, hsafe, hpairs⟩ := queryItems_props V u h
  obtain ⟨hid, hvia, hact⟩ := h
  have hP := typedText_safe V u.id hid
  have hq : ∀ q', queryOf u = some q' → q'.all urlSafe = true := by
    intro q' hq'
    unfold queryOf at hq'
    split at hq'
    · cases hq'
    · cases hq'; exact all_safe_of (joinWith_safe _ hsafe)
  unfold parseUri
  rw [hU (typedText u.id) (queryOf u) hP.1 hP.2 hq]
  simp only [ne_eq, not_true_eq_false, if_false, parseWithType_toString V u.id hid]
  have hloop : ∀ pairs, pairs = u.via.map (fun v => (bs "via", v)) ++
        (match u.action with | none => [] | some a => [(bs "action", a.asStr)]) →
      queryLoop V pairs [] none = some (u.via, u.action) := by
    intro pairs hp
    rw [hp, queryLoop_vias V u.via _ [] none (fun v hv => (hvia v hv).2)]
    cases ha : u.action with
    | none => simp [queryLoop]
    | some a =>
      have : bs "action" ≠ bs "via" := by decide
      simp [queryLoop, this, ofStr_asStr a (hact a ha)]
  unfold queryOf
  by_cases he : queryItems u = []
  · have : u.via = [] ∧ u.action = none := by
      simp only [queryItems, List.append_eq_nil_iff, List.map_eq_nil_iff] at he
      refine ⟨he.1, ?_⟩
      cases ha : u.action with
      | none => rfl
      | some a => simp [ha] at he
    simp only [he, if_true]
    have hfp : formParse [] = [] := by decide
    rw [hfp]
    simp only [queryLoop]
    cases u; simp_all
  · simp only [he, if_false]
    rw [formParse_joinWith _ he hne, hloop _ hpairs]
end Ruma.MatrixUri
