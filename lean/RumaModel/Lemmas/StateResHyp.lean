/-
  Executable checkers for the hypotheses of the C07 refinement theorems (`RoomOk`, `F4Free`), proven
  sound. The C07 driver evaluates them on every generated room (`c07.hyp`) and the harness compares
  the answers with its own, independently written, evaluation — so the evidence shows which part of
  the generated population lies inside the theorems' hypotheses, and the one comparison that the
  known finding F4 suppresses is made exactly where `F4Free` fails.
-/
import RumaModel.Lemmas.StateResSpec
namespace Ruma.StateRes
open Ruma Ruma.Spec.StateResV2

/-- `rounds` relaxation rounds of "rank = 1 + the greatest rank of an auth event". -/
def rankTable (store : List Event) : Nat → List (Id × Nat)
  | 0 => []
  | n + 1 =>
    let t := rankTable store n
    store.map (fun e => (e.eventId, 1 + (e.authEvents.map (fun a => (AL.get t a).getD 0)).foldl max 0))

def rankOfTable (t : List (Id × Nat)) (id : Id) : Nat := (AL.get t id).getD 0

/-- The per-event condition of `RoomWF` + `notCreate`, with the create event given by its id. -/
def eventOkB (fetch : Id → Option Event) (c0 : Id) (n : Id) : Bool :=
  match fetch n with
  | none => false
  | some e =>
    decide ((((e.authEvents.filterMap fetch).filter isPL).length ≤ 1)) &&
    decide ((((e.authEvents.filterMap fetch).filter isCreate).length ≤ 1)) &&
    ((createAmong fetch e).map (·.eventId) == some c0) && !isCreate e

/-- Checker for `RoomOk`: the create event it found, if every condition holds. -/
def roomOkB (store : List Event) (sets : List StateMap) (chains : List (List Id)) : Option Event :=
  match (store.find? isCreate).bind (fun c => fetchOf store c.eventId) with
  | none => none
  | some c0 =>
    let fetch := fetchOf store
    let t := rankTable store store.length
    if decide (∀ s ∈ sets, (AL.keys s).Nodup) &&
       decide (∀ c ∈ chains, c.Nodup) &&
       (fullConflictedSet fetch sets chains).all (eventOkB fetch c0.eventId) &&
       store.all (fun e => e.authEvents.all (fun a => (fetch a).isSome)) &&
       store.all (fun e => e.authEvents.all (fun a => decide (rankOfTable t a < rankOfTable t e.eventId))) &&
       sets.all (fun s => s.all (fun kv => (fetch kv.2).isSome))
    then some c0 else none

theorem fetchOf_of_eventId {store : List Event} {a b : Event} {ida idb : Id}
    (ha : fetchOf store ida = some a) (hb : fetchOf store idb = some b) (h : a.eventId = b.eventId) :
    a = b := by
  have h1 := fetchOf_ident store ida a ha
  have h2 := fetchOf_ident store idb b hb
  rw [← h1] at ha
  rw [← h2, ← h] at hb
  rw [ha] at hb
  exact Option.some.inj hb

theorem createAmong_fetched {fetch : Id → Option Event} {e a : Event} (h : createAmong fetch e = some a) :
    ∃ id, fetch id = some a := by
  unfold createAmong at h
  have := List.mem_of_find?_eq_some h
  obtain ⟨id, _, hf⟩ := List.mem_filterMap.mp this
  exact ⟨id, hf⟩

/-- **Soundness of the checker**: if it answers `some c0`, the room satisfies `RoomOk` with `c0`. -/
theorem roomOkB_sound {store : List Event} {sets : List StateMap} {chains : List (List Id)} {c0 : Event}
    (h : roomOkB store sets chains = some c0) : RoomOk store sets chains c0 := by
  unfold roomOkB at h
  cases hc : (store.find? isCreate).bind (fun c => fetchOf store c.eventId) with
  | none => rw [hc] at h; cases h
  | some c' =>
    rw [hc] at h
    simp only [] at h
    obtain ⟨c, _, hc'⟩ := Option.bind_eq_some_iff.mp hc
    split at h
    · rename_i hcond
      cases h
      simp only [Bool.and_eq_true, decide_eq_true_eq] at hcond
      obtain ⟨⟨⟨⟨⟨h1, h2⟩, h4⟩, h5⟩, h6⟩, h7⟩ := hcond
      have hevent : ∀ n ∈ fullConflictedSet (fetchOf store) sets chains,
          ∃ e, fetchOf store n = some e ∧ EventWF (fetchOf store) c0 e ∧ isCreate e = false := by
        intro n hn
        have := List.all_eq_true.mp h4 n hn
        unfold eventOkB at this
        cases hf : fetchOf store n with
        | none => rw [hf] at this; cases this
        | some e =>
          rw [hf] at this
          simp only [Bool.and_eq_true, decide_eq_true_eq, Bool.not_eq_true', beq_iff_eq] at this
          obtain ⟨⟨⟨u1, u2⟩, u3⟩, u4⟩ := this
          refine ⟨e, rfl, ⟨⟨u1, u2⟩, ?_⟩, u4⟩
          cases hca : createAmong (fetchOf store) e with
          | none => rw [hca] at u3; simp at u3
          | some a =>
            rw [hca] at u3
            simp only [Option.map_some, Option.some.injEq] at u3
            obtain ⟨ida, hida⟩ := createAmong_fetched hca
            rw [fetchOf_of_eventId hida hc' u3]
      refine ⟨h1, h2, ?_, ?_, ?_, ?_, ?_⟩
      · intro n hn
        obtain ⟨e, he, hw, _⟩ := hevent n hn
        exact ⟨e, he, hw⟩
      · intro n hn e he
        obtain ⟨e', he', _, hnc⟩ := hevent n hn
        rw [he] at he'; cases he'; exact hnc
      · intro id e he a ha
        have := List.all_eq_true.mp h5 e (fetchOf_mem he)
        exact List.all_eq_true.mp this a ha
      · refine ⟨rankOfTable (rankTable store store.length), ?_⟩
        intro id e he a ha
        have := List.all_eq_true.mp h6 e (fetchOf_mem he)
        have := List.all_eq_true.mp this a ha
        rw [← fetchOf_ident store id e he]
        simpa using this
      · intro s hs k v hg
        have := List.all_eq_true.mp h7 s hs
        exact List.all_eq_true.mp this (k, v) (AL.get_some_mem hg)
    · cases h

/-- Checker for `F4Free`. -/
def f4FreeB (p : Params) (store : List Event) (sets : List StateMap) (chains : List (List Id)) : Bool :=
  (none :: store.map some).all (fun P =>
    noF4b (fetchOf store) (store.length + 1) P (specRest p store sets chains))

theorem f4FreeB_sound {p : Params} {store : List Event} {sets : List StateMap} {chains : List (List Id)}
    (h : f4FreeB p store sets chains = true) : F4Free p store sets chains := by
  intro P hP
  exact noF4_of_b (List.all_eq_true.mp h P hP)

end Ruma.StateRes
