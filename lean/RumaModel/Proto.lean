/-
  Line protocol shared by every property driver: token codec for strings and JSON values.
  Executable only; nothing here is used in a theorem. A request the driver cannot read is
  answered `bad-op`, never defaulted.

  Tokens: `n` null, `t`/`f`, `i<decimal>`, `x` non-integer number, `s<hex of UTF-8>`,
  `a<count>` then the elements, `o<count>` then key/value pairs in the order given
  (keys are `s<hex>` tokens).
-/
import RumaModel.Model.Json
namespace Ruma.Proto

def hexVal (c : Char) : Option Nat :=
  if '0' ≤ c ∧ c ≤ '9' then some (c.toNat - 48)
  else if 'a' ≤ c ∧ c ≤ 'f' then some (c.toNat - 87)
  else none

def unhexAux : List Char → List Nat → Option (List Nat)
  | [], acc => some acc.reverse
  | [_], _ => none
  | a :: b :: t, acc =>
    match hexVal a, hexVal b with
    | some x, some y => unhexAux t ((16 * x + y) :: acc)
    | _, _ => none

def unhex (s : String) : Option Str := unhexAux s.toList []

def hexDigit (n : Nat) : Char := if n < 10 then Char.ofNat (48 + n) else Char.ofNat (87 + n)

def hex (s : Str) : String :=
  String.ofList (s.foldr (fun b acc => hexDigit (b / 16) :: hexDigit (b % 16) :: acc) [])

/-- `s<hex>` token. -/
def strTok (s : Str) : String := "s" ++ hex s

def parseStrTok (t : String) : Option Str :=
  match t.toList with
  | 's' :: rest => unhexAux rest []
  | _ => none

mutual
partial def parseVal : List String → Option (JVal × List String)
  | [] => none
  | t :: rest =>
    match t.toList with
    | ['n'] => some (.null, rest)
    | ['t'] => some (.bool true, rest)
    | ['f'] => some (.bool false, rest)
    | ['x'] => some (.float, rest)
    | 'i' :: ds => (String.ofList ds).toInt?.map (fun i => (.int i, rest))
    | 's' :: hs => (unhexAux hs []).map (fun s => (.str s, rest))
    | 'a' :: ds => match (String.ofList ds).toNat? with
      | some n => parseArr n rest []
      | none => none
    | 'o' :: ds => match (String.ofList ds).toNat? with
      | some n => parseObj n rest []
      | none => none
    | _ => none
partial def parseArr : Nat → List String → List JVal → Option (JVal × List String)
  | 0, rest, acc => some (.arr acc.reverse, rest)
  | n + 1, rest, acc =>
    match parseVal rest with
    | some (v, rest') => parseArr n rest' (v :: acc)
    | none => none
partial def parseObj : Nat → List String → List (Str × JVal) → Option (JVal × List String)
  | 0, rest, acc => some (.obj acc.reverse, rest)
  | n + 1, k :: rest, acc =>
    match parseStrTok k, parseVal rest with
    | some k', some (v, rest') => parseObj n rest' ((k', v) :: acc)
    | _, _ => none
  | _, [], _ => none
end

mutual
partial def printVal : JVal → List String
  | .null => ["n"]
  | .bool true => ["t"]
  | .bool false => ["f"]
  | .float => ["x"]
  | .int i => ["i" ++ toString i]
  | .str s => [strTok s]
  | .arr xs => ("a" ++ toString xs.length) :: printArr xs
  | .obj kvs => ("o" ++ toString kvs.length) :: printObj kvs
partial def printArr : List JVal → List String
  | [] => []
  | v :: t => printVal v ++ printArr t
partial def printObj : List (Str × JVal) → List String
  | [] => []
  | (k, v) :: t => strTok k :: (printVal v ++ printObj t)
end

def showVal (v : JVal) : String := " ".intercalate (printVal v)

/-- Parse exactly one value from the token list, with nothing left over. -/
def parseOne (ts : List String) : Option JVal :=
  match parseVal ts with
  | some (v, []) => some v
  | _ => none

def parseObjOnly (ts : List String) : Option (Obj × List String) :=
  match parseVal ts with
  | some (.obj kvs, rest) => some (kvs, rest)
  | _ => none

end Ruma.Proto

namespace Ruma.Proto

partial def driverLoop (handle : List String → String) (h out : IO.FS.Stream) : IO Unit := do
  let line ← h.getLine
  if line.isEmpty then return ()
  let toks := (line.trimAscii.toString.splitOn " ").filter (· ≠ "")
  out.putStrLn (if toks.isEmpty then "bad-op" else handle toks)
  driverLoop handle h out

/-- One request per stdin line, one answer per stdout line. Stateless between lines. -/
def runDriver (handle : List String → String) : IO Unit := do
  let out ← IO.getStdout
  driverLoop handle (← IO.getStdin) out
  out.flush

end Ruma.Proto
