import RumaModel.Driver.C04

/-- One request per stdin line, one answer per stdout line. Stateless. -/
def dispatch (line : String) : String :=
  let toks := (line.trimAscii.toString.splitOn " ").filter (· ≠ "")
  match toks with
  | [] => "bad-op"
  | op :: _ =>
    if op.startsWith "c04." then Ruma.Driver.C04.handle toks
    else "bad-op"

partial def loop (h : IO.FS.Stream) (out : IO.FS.Stream) : IO Unit := do
  let line ← h.getLine
  if line.isEmpty then return ()
  out.putStrLn (dispatch line)
  loop h out

def main : IO Unit := do
  let out ← IO.getStdout
  loop (← IO.getStdin) out
  out.flush
