import RumaModel.Model.Json
import RumaModel.Proto
