//! C07 — resolved state equals the spec's state resolution v2; the exposed topological sort is the
//! spec's.
//!
//! Requests (`ord` only steers the iteration orders the Lean side uses; the implementation ignores it):
//!   `c07.topo <ord> J` / `c07.topospec <ord> J`        J = [[id,[edge…],power,ts]…]
//!   `c07.topoall <ord> J` / `c07.topoallspec <ord> J`  J = [[id,[edge…]]…], all 3^n key assignments
//!   `c07.resolve <ver> <ord> J` / `c07.resolvespec <ver> <ord> J`
//!   `c07.resolvespec.f4 …` (true spec; known finding F4) / `c07.resolvespec.f4dev …` (spec with
//!   the one documented deviation) for scenarios in which F4 can show = in which the hypothesis
//!   `F4Free` of theorem `resolve_refines_spec_noF4` fails
//!   `c07.hyp <ver> <ord> J` → `wf|nowf` + `+f4free|+f4`: the theorems' hypotheses `RoomOk` and `F4Free`
//!   evaluated on the room (harness: own evaluation; driver: the proven-sound Lean checkers)
//! The `…spec` operations are answered by `Spec/StateResV2.lean`, the others by the model.
mod sr;

use h_lib::{h_util, Outcome, Req, Rng};

fn parse_one(toks: &[&str]) -> Option<serde_json::Value> {
    let mut it = toks.iter();
    let v = h_util::parse_tokens(&mut it)?;
    if it.next().is_some() {
        return None;
    }
    Some(v)
}

fn run(req: &str) -> Outcome {
    let toks: Vec<&str> = req.split(' ').collect();
    match toks[0] {
        "c07.topo" | "c07.topospec" => {
            let Some(v) = toks.get(2..).and_then(parse_one) else { return Outcome::bad() };
            let Some(case) = sr::TopoCase::parse(&v) else { return Outcome::bad() };
            let g = case.graph();
            let keys = case.keys();
            let r = sr::run_topo(&g, &keys);
            let mut o = Outcome::new(sr::show_ids(&r));
            if let Ok(ids) = &r {
                o.t3 = sr::topo_oracle(&g, &keys, ids);
            }
            o
        }
        "c07.topoall" | "c07.topoallspec" => {
            let Some(v) = toks.get(2..).and_then(parse_one) else { return Outcome::bad() };
            let Some((out, t3)) = sr::run_topoall(&v) else { return Outcome::bad() };
            Outcome { imp: out, t3 }
        }
        "c07.hyp" => {
            let Some(sc) = toks.get(1..).and_then(sr::parse_resolve_args) else { return Outcome::bad() };
            Outcome::new(sr::hyp_answer(&sc))
        }
        "c07.resolve" | "c07.resolvespec" | "c07.resolvespec.f4" | "c07.resolvespec.f4dev" => {
            let Some(sc) = toks.get(1..).and_then(sr::parse_resolve_args) else { return Outcome::bad() };
            let rules = sr::rules_of(sc.ver);
            let r = sr::run_resolve(&rules, &sc.store(), &sc.state_maps(), sc.chain_sets());
            Outcome::new(sr::show_state(&r))
        }
        _ => Outcome::bad(),
    }
}

fn both(out: &mut Vec<Req>, op: &str, args: &str, cls: &str) {
    out.push(Req::new(format!("c07.{op} {args}"), format!("{cls}.model")));
    out.push(Req::new(format!("c07.{op}spec {args}"), format!("{cls}.spec")));
}

/// Model comparison plus the spec comparison(s). Scenarios in which the known finding F4 can show
/// are compared with the true spec under an operation that the known-findings file suppresses
/// (`.f4`) and, unsuppressed, with the spec carrying exactly that one deviation (`.f4dev`).
fn emit_resolve(out: &mut Vec<Req>, rng: &mut Rng, sc: &sr::Scenario, cls: &str) {
    let args = format!("{} {} {}", sc.ver, rng.below(8), sc.payload());
    let shape = sr::shape(sc);
    // the hypotheses of the refinement theorems, evaluated by the harness and by the proven-sound Lean
    // checkers on the same room
    out.push(Req::new(format!("c07.hyp {args}"), "hyp.model"));
    if sr::f4_free(sc) {
        out.push(Req::new(format!("c07.resolve {args}"), format!("{cls}{shape}.model")));
        out.push(Req::new(format!("c07.resolvespec {args}"), format!("{cls}{shape}.spec")));
    } else {
        out.push(Req::new(format!("c07.resolve {args}"), format!("{cls}-f4{shape}.model")));
        out.push(Req::new(format!("c07.resolvespec.f4 {args}"), format!("{cls}-f4{shape}.spec")));
        out.push(Req::new(format!("c07.resolvespec.f4dev {args}"), format!("{cls}-f4{shape}.devspec")));
    }
}

fn gen(rng: &mut Rng, n: usize, tier: &str) -> Vec<Req> {
    let thorough = tier == "thorough";
    let mut out = Vec::new();
    // F4 witness, every rules family
    for ver in [6u32, 10, 11] {
        let sc = sr::f4_witness(ver);
        emit_resolve(&mut out, rng, &sc, "f4witness");
    }
    // creator's power event before the first power-levels event vs a moderator's (deterministic cells)
    for sc in sr::early_creator_cells() {
        emit_resolve(&mut out, rng, &sc, "earlycreator");
    }
    // a non-power event of the auth difference on an unconflicted key (deterministic cells)
    for sc in sr::overlay_member_cells() {
        emit_resolve(&mut out, rng, &sc, "overlaymember");
    }
    // two conflicted member events of one sender and target with different selections (deterministic cells)
    for sc in sr::same_sender_member_cells() {
        emit_resolve(&mut out, rng, &sc, "samesender");
    }
    // exhaustive: all labelled DAGs on <= 4 (quick) / <= 5 (thorough) nodes x all 3^n key assignments
    let max_n = if thorough { 5 } else { 4 };
    for nn in 1..=max_n {
        for edges in sr::all_dags(nn) {
            both(&mut out, "topoall", &format!("{} {}", rng.below(6), sr::topoall_payload(nn, &edges)), &format!("dags{nn}"));
        }
    }
    // graphs that are not DAGs inside the node set: cycles, self loops, dangling edges (3 nodes,
    // every edge subset over {a,b,c} x {a,b,c} plus an optional edge to a node outside)
    for mask in 0u32..(1 << 9) {
        let mut edges = vec![Vec::new(); 3];
        for b in 0..9 {
            if mask >> b & 1 == 1 {
                edges[b / 3].push(b % 3);
            }
        }
        both(&mut out, "topoall", &format!("{} {}", rng.below(6), sr::topoall_payload(3, &edges)), "digraphs3");
    }
    // random sorts
    let n_topo = n / 2;
    for i in 0..n_topo {
        let wild = i % 4 == 3;
        let case = sr::gen_topo(rng, wild);
        both(&mut out, "topo", &format!("{} {}", rng.below(8), case.payload()), if wild { "topo-wild" } else { "topo" });
    }
    // simulated rooms
    let mut stats: std::collections::BTreeMap<&'static str, usize> = Default::default();
    for i in 0..n {
        let (sc, st) = sr::gen_room(rng, thorough && i % 3 == 0);
        for (k, v) in st {
            *stats.entry(k).or_default() += v;
        }
        emit_resolve(&mut out, rng, &sc, "room");
    }
    for _ in 0..(n / 10).max(3) {
        let sc = sr::gen_overlay(rng);
        emit_resolve(&mut out, rng, &sc, "overlay");
    }
    for _ in 0..(n / 10).max(3) {
        let sc = sr::gen_promotion(rng);
        emit_resolve(&mut out, rng, &sc, "promotion");
    }
    for _ in 0..(n / 8).max(24) {
        let sc = sr::gen_sloppy_auth(rng);
        emit_resolve(&mut out, rng, &sc, "sloppy");
    }
    eprintln!("generator statistics: {stats:?}");
    out
}

fn main() {
    h_lib::std_main(None, &gen, &run);
}
