//! Shared by h-c06 and h-c07: an `Event` implementation, the request codec of the state-resolution
//! operations, the topological-sort cases and the simulated multi-server room generator.
#![allow(dead_code)]
use std::{
    collections::{BTreeMap, BTreeSet, HashMap, HashSet},
    sync::Arc,
};

use h_lib::{h_util, stok, version_id, Rng};
use js_int::{Int, UInt};
use ruma_common::{
    room_version_rules::AuthorizationRules, MilliSecondsSinceUnixEpoch, OwnedEventId,
    OwnedRoomId, OwnedUserId, RoomId, UserId,
};
use ruma_events::{StateEventType, TimelineEventType};
use ruma_state_res::{Event, StateMap};
use serde_json::{json, value::RawValue, Value};

// ------------------------------------------------------------------------------------------
// Event
// ------------------------------------------------------------------------------------------

#[derive(Clone, Debug)]
pub struct Ev {
    pub id: OwnedEventId,
    pub room: OwnedRoomId,
    pub sender: OwnedUserId,
    pub ty: TimelineEventType,
    pub state_key: Option<String>,
    pub content: Box<RawValue>,
    pub content_val: Value,
    pub prev: Vec<OwnedEventId>,
    pub auth: Vec<OwnedEventId>,
    pub ts: MilliSecondsSinceUnixEpoch,
}

impl Event for Ev {
    type Id = OwnedEventId;
    fn event_id(&self) -> &OwnedEventId {
        &self.id
    }
    fn room_id(&self) -> &RoomId {
        &self.room
    }
    fn sender(&self) -> &UserId {
        &self.sender
    }
    fn origin_server_ts(&self) -> MilliSecondsSinceUnixEpoch {
        self.ts
    }
    fn event_type(&self) -> &TimelineEventType {
        &self.ty
    }
    fn content(&self) -> &RawValue {
        &self.content
    }
    fn state_key(&self) -> Option<&str> {
        self.state_key.as_deref()
    }
    fn prev_events(&self) -> Box<dyn DoubleEndedIterator<Item = &OwnedEventId> + '_> {
        Box::new(self.prev.iter())
    }
    fn auth_events(&self) -> Box<dyn DoubleEndedIterator<Item = &OwnedEventId> + '_> {
        Box::new(self.auth.iter())
    }
    fn redacts(&self) -> Option<&OwnedEventId> {
        None
    }
}

pub type AEv = Arc<Ev>;
pub type Store = HashMap<OwnedEventId, AEv>;
pub type SMap = StateMap<OwnedEventId>;

pub fn eid(s: &str) -> OwnedEventId {
    OwnedEventId::try_from(s.to_owned()).expect("event id")
}
pub fn uid(s: &str) -> OwnedUserId {
    OwnedUserId::try_from(s.to_owned()).expect("user id")
}
pub fn ms(t: u64) -> MilliSecondsSinceUnixEpoch {
    MilliSecondsSinceUnixEpoch(UInt::try_from(t).expect("ts"))
}

pub fn mk_ev(
    id: &str,
    sender: &str,
    ty: &str,
    state_key: Option<&str>,
    content: Value,
    prev: Vec<OwnedEventId>,
    auth: Vec<OwnedEventId>,
    ts: u64,
) -> AEv {
    Arc::new(Ev {
        id: eid(id),
        room: OwnedRoomId::try_from("!r:s0".to_owned()).unwrap(),
        sender: uid(sender),
        ty: TimelineEventType::from(ty.to_owned()),
        state_key: state_key.map(str::to_owned),
        content: RawValue::from_string(content.to_string()).unwrap(),
        content_val: content,
        prev,
        auth,
        ts: ms(ts),
    })
}

pub fn rules_of(ver: u32) -> AuthorizationRules {
    version_id(ver).rules().expect("rules").authorization
}

// ------------------------------------------------------------------------------------------
// resolve scenario: codec
// ------------------------------------------------------------------------------------------

#[derive(Clone)]
pub struct Scenario {
    pub ver: u32,
    pub events: Vec<AEv>,
    /// state sets as ordered lists (the order is part of the request)
    pub sets: Vec<Vec<(String, String, OwnedEventId)>>,
    pub chains: Vec<Vec<OwnedEventId>>,
    /// generator bookkeeping, not part of the request: events that failed auth on creation but were
    /// kept in the DAG by a faulty server
    pub rejected: Vec<OwnedEventId>,
}

fn ev_json(e: &Ev) -> Value {
    json!([
        e.id.as_str(),
        e.room.as_str(),
        e.sender.as_str(),
        e.ty.to_string(),
        e.state_key,
        e.content_val,
        e.prev.iter().map(|x| x.as_str()).collect::<Vec<_>>(),
        e.auth.iter().map(|x| x.as_str()).collect::<Vec<_>>(),
        u64::from(e.ts.0),
    ])
}

impl Scenario {
    pub fn payload(&self) -> String {
        let evs: Vec<Value> = self.events.iter().map(|e| ev_json(e)).collect();
        let sets: Vec<Value> = self
            .sets
            .iter()
            .map(|s| Value::Array(s.iter().map(|(t, k, i)| json!([t, k, i.as_str()])).collect()))
            .collect();
        let chains: Vec<Value> = self
            .chains
            .iter()
            .map(|c| Value::Array(c.iter().map(|i| json!(i.as_str())).collect()))
            .collect();
        h_util::jtoks(&json!([evs, sets, chains]))
    }

    pub fn parse(ver: u32, v: &Value) -> Option<Scenario> {
        let a = v.as_array()?;
        let strs = |v: &Value| -> Option<Vec<OwnedEventId>> {
            v.as_array()?.iter().map(|x| Some(eid(x.as_str()?))).collect()
        };
        let mut events = Vec::new();
        for e in a.first()?.as_array()? {
            let f = e.as_array()?;
            events.push(Arc::new(Ev {
                id: eid(f[0].as_str()?),
                room: OwnedRoomId::try_from(f[1].as_str()?.to_owned()).ok()?,
                sender: uid(f[2].as_str()?),
                ty: TimelineEventType::from(f[3].as_str()?.to_owned()),
                state_key: f[4].as_str().map(str::to_owned),
                content: RawValue::from_string(f[5].to_string()).ok()?,
                content_val: f[5].clone(),
                prev: strs(&f[6])?,
                auth: strs(&f[7])?,
                ts: ms(f[8].as_u64()?),
            }));
        }
        let mut sets = Vec::new();
        for s in a.get(1)?.as_array()? {
            let mut set = Vec::new();
            for ent in s.as_array()? {
                let t = ent.as_array()?;
                set.push((
                    t[0].as_str()?.to_owned(),
                    t[1].as_str()?.to_owned(),
                    eid(t[2].as_str()?),
                ));
            }
            sets.push(set);
        }
        let mut chains = Vec::new();
        for c in a.get(2)?.as_array()? {
            chains.push(strs(c)?);
        }
        Some(Scenario { ver, events, sets, chains, rejected: vec![] })
    }

    pub fn store(&self) -> Store {
        self.events.iter().map(|e| (e.id.clone(), e.clone())).collect()
    }

    pub fn state_maps(&self) -> Vec<SMap> {
        self.sets
            .iter()
            .map(|s| {
                s.iter()
                    .map(|(t, k, i)| ((StateEventType::from(t.clone()), k.clone()), i.clone()))
                    .collect()
            })
            .collect()
    }

    pub fn chain_sets(&self) -> Vec<HashSet<OwnedEventId>> {
        self.chains.iter().map(|c| c.iter().cloned().collect()).collect()
    }
}

/// The user that `u` becomes under the fixed renaming used by the creator-variation family and by the
/// renaming oracle: every user is swapped with the other user of the same server (so that every
/// server-name dependent check sees the same servers as before).
pub fn renamed_user(u: &str) -> Option<&'static str> {
    Some(match u {
        "@alice:s0" => "@dave:s0",
        "@dave:s0" => "@alice:s0",
        "@bob:s1" => "@eve:s1",
        "@eve:s1" => "@bob:s1",
        "@carol:s2" => "@zed:s2",
        "@zed:s2" => "@carol:s2",
        _ => return None,
    })
}

fn rename_str(s: &str) -> String {
    renamed_user(s).map(str::to_owned).unwrap_or_else(|| s.to_owned())
}

fn rename_value(v: &Value) -> Value {
    match v {
        Value::String(s) => Value::String(rename_str(s)),
        Value::Array(a) => Value::Array(a.iter().map(rename_value).collect()),
        Value::Object(o) => Value::Object(o.iter().map(|(k, v)| (rename_str(k), rename_value(v))).collect()),
        other => other.clone(),
    }
}

impl Scenario {
    /// The same room history with every user consistently renamed (senders, state keys, and every
    /// string / object key of the contents that is one of the generator's user IDs). Event IDs,
    /// timestamps, types and the DAG are untouched, so — no part of state resolution or of the
    /// authorization rules looks at the spelling of a user ID beyond equality and its server name —
    /// the resolved state of the renamed room is the renamed resolved state.
    pub fn rename_users(&self) -> Scenario {
        let events = self
            .events
            .iter()
            .map(|e| {
                let content_val = rename_value(&e.content_val);
                Arc::new(Ev {
                    id: e.id.clone(),
                    room: e.room.clone(),
                    sender: uid(&rename_str(e.sender.as_str())),
                    ty: e.ty.clone(),
                    state_key: e.state_key.as_deref().map(rename_str),
                    content: RawValue::from_string(content_val.to_string()).unwrap(),
                    content_val,
                    prev: e.prev.clone(),
                    auth: e.auth.clone(),
                    ts: e.ts,
                })
            })
            .collect();
        let sets = self
            .sets
            .iter()
            .map(|s| s.iter().map(|(t, k, i)| (t.clone(), rename_str(k), i.clone())).collect())
            .collect();
        Scenario { ver: self.ver, events, sets, chains: self.chains.clone(), rejected: self.rejected.clone() }
    }

    /// Creator variation: half of the generated rooms are handed out renamed, so that the rooms one
    /// process resolves one after the other have different creators and members.
    pub fn vary_users(self, rng: &mut Rng) -> Scenario {
        if rng.chance(1, 2) { self.rename_users() } else { self }
    }
}

/// `show_state` of the state map with its state keys renamed (the answer expected of the renamed room).
pub fn show_state_renamed(r: &Result<SMap, ruma_state_res::Error>) -> String {
    match r {
        Err(_) => "err".into(),
        Ok(m) => show_state(&Ok(m.iter().map(|((t, k), i)| ((t.clone(), rename_str(k)), i.clone())).collect())),
    }
}

/// Canonical answer of a `resolve` call: entries sorted by (type, state key).
pub fn show_state(r: &Result<SMap, ruma_state_res::Error>) -> String {
    match r {
        Err(_) => "err".into(),
        Ok(m) => {
            let mut v: Vec<(String, String, String)> =
                m.iter().map(|((t, k), i)| (t.to_string(), k.clone(), i.to_string())).collect();
            v.sort();
            let mut s = format!("ok {}", v.len());
            for (t, k, i) in v {
                s.push(' ');
                s.push_str(&stok(&t));
                s.push(' ');
                s.push_str(&stok(&k));
                s.push(' ');
                s.push_str(&stok(&i));
            }
            s
        }
    }
}

pub fn run_resolve(
    rules: &AuthorizationRules,
    store: &Store,
    sets: &[SMap],
    chains: Vec<HashSet<OwnedEventId>>,
) -> Result<SMap, ruma_state_res::Error> {
    ruma_state_res::resolve(rules, sets.iter(), chains, |id| store.get(id).cloned())
}

/// Parse `<ver> <ord> J` (the tail of a resolve request).
pub fn parse_resolve_args(toks: &[&str]) -> Option<Scenario> {
    let ver: u32 = toks.first()?.parse().ok()?;
    let _ord: u32 = toks.get(1)?.parse().ok()?;
    let rest: Vec<&str> = toks[2..].to_vec();
    let mut it = rest.iter();
    let v = h_util::parse_tokens(&mut it)?;
    if it.next().is_some() {
        return None;
    }
    if !(1..=11).contains(&ver) {
        return None;
    }
    Scenario::parse(ver, &v)
}

// ------------------------------------------------------------------------------------------
// lexicographical_topological_sort cases
// ------------------------------------------------------------------------------------------

pub type TGraph = HashMap<OwnedEventId, HashSet<OwnedEventId>>;

pub struct TopoCase {
    /// node, edges, power, ts — in the order the request lists them
    pub nodes: Vec<(String, Vec<String>, i64, u64)>,
}

impl TopoCase {
    pub fn payload(&self) -> String {
        let v: Vec<Value> =
            self.nodes.iter().map(|(n, es, pl, ts)| json!([format!("${n}"), es.iter().map(|e| format!("${e}")).collect::<Vec<_>>(), pl, ts])).collect();
        h_util::jtoks(&Value::Array(v))
    }
    pub fn parse(v: &Value) -> Option<TopoCase> {
        let mut nodes = Vec::new();
        for n in v.as_array()? {
            let f = n.as_array()?;
            let es = f[1]
                .as_array()?
                .iter()
                .map(|x| Some(x.as_str()?.strip_prefix('$')?.to_owned()))
                .collect::<Option<Vec<_>>>()?;
            nodes.push((f[0].as_str()?.strip_prefix('$')?.to_owned(), es, f[2].as_i64()?, f[3].as_u64()?));
        }
        Some(TopoCase { nodes })
    }
    pub fn graph(&self) -> TGraph {
        self.nodes
            .iter()
            .map(|(n, es, _, _)| (eid(&format!("${n}")), es.iter().map(|e| eid(&format!("${e}"))).collect()))
            .collect()
    }
    pub fn keys(&self) -> HashMap<OwnedEventId, (Int, MilliSecondsSinceUnixEpoch)> {
        self.nodes
            .iter()
            .map(|(n, _, pl, ts)| (eid(&format!("${n}")), (Int::try_from(*pl).unwrap(), ms(*ts))))
            .collect()
    }
}

pub fn run_topo(
    g: &TGraph,
    keys: &HashMap<OwnedEventId, (Int, MilliSecondsSinceUnixEpoch)>,
) -> Result<Vec<OwnedEventId>, ruma_state_res::Error> {
    ruma_state_res::lexicographical_topological_sort(g, |id| {
        keys.get(id).copied().ok_or_else(|| ruma_state_res::Error::NotFound(id.to_owned()))
    })
}

pub fn show_ids(r: &Result<Vec<OwnedEventId>, ruma_state_res::Error>) -> String {
    match r {
        Err(_) => "err".into(),
        Ok(ids) => {
            let mut s = format!("ok {}", ids.len());
            for i in ids {
                s.push(' ');
                s.push_str(&stok(i.as_str()));
            }
            s
        }
    }
}

/// T3: the property itself, evaluated on the implementation's output — every emitted node is a
/// graph node emitted once, all its edges were emitted before it, it is the least (power desc,
/// ts asc, id asc) of the nodes ready at that step, and nothing ready is left at the end.
pub fn topo_oracle(
    g: &TGraph,
    keys: &HashMap<OwnedEventId, (Int, MilliSecondsSinceUnixEpoch)>,
    out: &[OwnedEventId],
) -> Vec<String> {
    let mut fails = Vec::new();
    let mut done: HashSet<&OwnedEventId> = HashSet::new();
    let ready = |done: &HashSet<&OwnedEventId>| -> Vec<&OwnedEventId> {
        g.iter()
            .filter(|(n, es)| !done.contains(n) && es.iter().all(|e| done.contains(e)))
            .map(|(n, _)| n)
            .collect()
    };
    let less = |a: &OwnedEventId, b: &OwnedEventId| -> bool {
        let (pa, ta) = keys[a];
        let (pb, tb) = keys[b];
        pa > pb || (pa == pb && (ta < tb || (ta == tb && a.as_str() < b.as_str())))
    };
    for (i, n) in out.iter().enumerate() {
        let r = ready(&done);
        if !r.contains(&n) {
            fails.push(format!("position {i}: {n} is not a ready node (emitted twice, unknown, or before one of its dependencies)"));
            return fails;
        }
        for c in r {
            if c != n && !less(n, c) {
                fails.push(format!("position {i}: emitted {n} although ready node {c} sorts before it (power desc, ts asc, id asc)"));
                return fails;
            }
        }
        done.insert(n);
    }
    if !ready(&done).is_empty() {
        fails.push("sort stopped although a node was ready".into());
    }
    fails
}

/// The three-value key domain of the exhaustive enumeration: a tie, a later timestamp, and a
/// higher power level that also has the later timestamp (so power and timestamp disagree).
pub const KEY_DOMAIN: [(i64, u64); 3] = [(0, 0), (0, 1), (1, 1)];

pub const NODE_NAMES: [&str; 5] = ["a", "b", "c", "d", "e"];

/// Structure-only request `topoall`: every assignment of KEY_DOMAIN to the nodes, in index order
/// (node i gets `KEY_DOMAIN[(a / 3^i) % 3]`).
pub fn topoall_payload(n: usize, edges: &[Vec<usize>]) -> String {
    let v: Vec<Value> = (0..n)
        .map(|i| {
            json!([format!("${}", NODE_NAMES[i]), edges[i].iter().map(|&j| format!("${}", NODE_NAMES[j])).collect::<Vec<_>>()])
        })
        .collect();
    h_util::jtoks(&Value::Array(v))
}

pub fn run_topoall(v: &Value) -> Option<(String, Vec<String>)> {
    let arr = v.as_array()?;
    let n = arr.len();
    let mut names = Vec::new();
    let mut g: TGraph = HashMap::new();
    for node in arr {
        let f = node.as_array()?;
        let id = eid(f[0].as_str()?);
        let es: HashSet<OwnedEventId> =
            f[1].as_array()?.iter().map(|x| Some(eid(x.as_str()?))).collect::<Option<_>>()?;
        names.push(id.clone());
        g.insert(id, es);
    }
    let mut out = String::from("ok ");
    let mut t3 = Vec::new();
    let total = 3usize.pow(n as u32);
    for a in 0..total {
        let mut keys = HashMap::new();
        let mut x = a;
        for id in &names {
            let (pl, ts) = KEY_DOMAIN[x % 3];
            x /= 3;
            keys.insert(id.clone(), (Int::try_from(pl).unwrap(), ms(ts)));
        }
        match run_topo(&g, &keys) {
            Ok(ids) => {
                if t3.is_empty() {
                    for f in topo_oracle(&g, &keys, &ids) {
                        t3.push(format!("assignment {a}: {f}"));
                    }
                }
                for i in &ids {
                    out.push_str(&i.as_str()[1..]);
                }
            }
            Err(_) => out.push('!'),
        }
        out.push(',');
    }
    Some((out, t3))
}

fn acyclic(n: usize, edges: &[Vec<usize>]) -> bool {
    // Kahn
    let mut done = vec![false; n];
    loop {
        let mut progressed = false;
        for i in 0..n {
            if !done[i] && edges[i].iter().all(|&j| done[j]) {
                done[i] = true;
                progressed = true;
            }
        }
        if !progressed {
            break;
        }
    }
    done.iter().all(|&d| d)
}

/// All labelled DAGs on `n` nodes as adjacency lists (edge i→j = "i depends on j").
pub fn all_dags(n: usize) -> Vec<Vec<Vec<usize>>> {
    let pairs: Vec<(usize, usize)> =
        (0..n).flat_map(|i| (0..n).filter(move |&j| j != i).map(move |j| (i, j))).collect();
    let mut out = Vec::new();
    for mask in 0u32..(1u32 << pairs.len()) {
        let mut edges = vec![Vec::new(); n];
        for (b, &(i, j)) in pairs.iter().enumerate() {
            if mask >> b & 1 == 1 {
                edges[i].push(j);
            }
        }
        if acyclic(n, &edges) {
            out.push(edges);
        }
    }
    out
}

/// Random graph with many key ties; `wild` adds dangling edges, self loops and cycles.
pub fn gen_topo(rng: &mut Rng, wild: bool) -> TopoCase {
    let n = 1 + rng.below(if wild { 8 } else { 12 });
    let mut names: Vec<String> = Vec::new();
    while names.len() < n {
        let s = format!("{}{}", (b'a' + rng.below(4) as u8) as char, rng.below(30));
        if !names.contains(&s) {
            names.push(s);
        }
    }
    let dens = 1 + rng.below(4) as u32;
    let pl_dom = 1 + rng.below(3) as i64;
    let ts_dom = 1 + rng.below(3) as u64;
    let mut nodes = Vec::new();
    for i in 0..n {
        let mut es = Vec::new();
        for j in 0..n {
            let allowed = if wild { true } else { j < i };
            if allowed && rng.chance(dens, 6) && (wild || j != i) {
                if wild && j >= i && !rng.chance(1, 4) {
                    continue;
                }
                es.push(names[j].clone());
            }
        }
        if wild && rng.chance(1, 5) {
            es.push(format!("z{}", rng.below(3)));
        }
        let pl = if rng.chance(1, 8) { *rng.pick(&[-5i64, 100, 9007199254740991, -9007199254740991]) } else { rng.range(0, pl_dom - 1) * 50 };
        let ts = if rng.chance(1, 8) { *rng.pick(&[0u64, 1 << 40, 9007199254740991]) } else { rng.below(ts_dom as usize) as u64 };
        nodes.push((names[i].clone(), es, pl, ts));
    }
    rng.shuffle(&mut nodes);
    TopoCase { nodes }
}

// ------------------------------------------------------------------------------------------
// simulated multi-server room
// ------------------------------------------------------------------------------------------

pub struct Room {
    pub ver: u32,
    pub rules: AuthorizationRules,
    pub events: Vec<AEv>,
    pub store: Store,
    pub state_after: HashMap<OwnedEventId, BTreeMap<(String, String), OwnedEventId>>,
    /// per server: the events it has seen
    pub views: Vec<BTreeSet<usize>>,
    pub clock: u64,
    pub used_ids: HashSet<String>,
    pub stats: BTreeMap<&'static str, usize>,
    pub rejected: Vec<OwnedEventId>,
}

pub const USERS: [&str; 6] = ["@alice:s0", "@bob:s1", "@carol:s2", "@dave:s0", "@eve:s1", "@zed:s2"];

fn server_of(user: &str) -> usize {
    (user.as_bytes()[user.len() - 1] - b'0') as usize
}

fn to_smap(m: &BTreeMap<(String, String), OwnedEventId>) -> SMap {
    m.iter().map(|((t, k), i)| ((StateEventType::from(t.clone()), k.clone()), i.clone())).collect()
}

/// The full auth chain of a set of events, the events themselves included (as the repository's
/// own test store computes it).
pub fn auth_chain(store: &Store, ids: impl Iterator<Item = OwnedEventId>) -> BTreeSet<OwnedEventId> {
    let mut result = BTreeSet::new();
    let mut stack: Vec<OwnedEventId> = ids.collect();
    while let Some(id) = stack.pop() {
        if !result.insert(id.clone()) {
            continue;
        }
        if let Some(e) = store.get(&id) {
            stack.extend(e.auth.iter().cloned());
        }
    }
    result
}

impl Room {
    fn fresh_id(&mut self, rng: &mut Rng) -> String {
        loop {
            let s = format!("${}{}", (b'a' + rng.below(6) as u8) as char, rng.below(40));
            if self.used_ids.insert(s.clone()) {
                return s;
            }
        }
    }

    fn tips(&self, server: usize) -> Vec<usize> {
        let view = &self.views[server];
        let mut referenced = HashSet::new();
        for &i in view {
            for p in &self.events[i].prev {
                referenced.insert(p.clone());
            }
        }
        view.iter().copied().filter(|&i| !referenced.contains(&self.events[i].id)).collect()
    }

    /// State before an event with the given prev events: the resolution of the states after them.
    fn state_before(&self, prev: &[OwnedEventId]) -> Option<BTreeMap<(String, String), OwnedEventId>> {
        match prev.len() {
            0 => Some(BTreeMap::new()),
            1 => Some(self.state_after[&prev[0]].clone()),
            _ => {
                let sets: Vec<SMap> = prev.iter().map(|p| to_smap(&self.state_after[p])).collect();
                let chains: Vec<HashSet<OwnedEventId>> = prev
                    .iter()
                    .map(|p| auth_chain(&self.store, self.state_after[p].values().cloned()).into_iter().collect())
                    .collect();
                let r = run_resolve(&self.rules, &self.store, &sets, chains).ok()?;
                Some(r.into_iter().map(|((t, k), i)| ((t.to_string(), k), i)).collect())
            }
        }
    }

    /// Create an event on `server` by `sender`; returns false when nothing was added.
    #[allow(clippy::too_many_arguments)]
    fn add(
        &mut self,
        rng: &mut Rng,
        server: usize,
        sender: &str,
        ty: &str,
        state_key: &str,
        content: Value,
        force_prev: Option<Vec<usize>>,
    ) -> bool {
        let forced = force_prev.is_some();
        let mut tips = force_prev.unwrap_or_else(|| self.tips(server));
        rng.shuffle(&mut tips);
        if !forced {
            tips.truncate(1 + rng.below(3));
        }
        let prev: Vec<OwnedEventId> = tips.iter().map(|&i| self.events[i].id.clone()).collect();
        let Some(before) = self.state_before(&prev) else {
            *self.stats.entry("resolve-error-in-generator").or_default() += 1;
            return false;
        };
        let tyv = TimelineEventType::from(ty.to_owned());
        let raw = RawValue::from_string(content.to_string()).unwrap();
        let sender_id = uid(sender);
        let auth_types = match ruma_state_res::auth_types_for_event(&tyv, &sender_id, Some(state_key), &raw, &self.rules) {
            Ok(t) => t,
            Err(_) => return false,
        };
        let mut auth: Vec<OwnedEventId> = Vec::new();
        for (t, k) in auth_types {
            if let Some(id) = before.get(&(t.to_string(), k)) {
                if !auth.contains(id) {
                    auth.push(id.clone());
                }
            }
        }
        if rng.chance(1, 2) {
            rng.shuffle(&mut auth);
        }
        // timestamps: usually advancing, sometimes tied with or earlier than existing ones
        let ts = match rng.below(10) {
            0 => self.clock,
            1 => rng.below(self.clock as usize + 1) as u64,
            2 => 0,
            _ => {
                self.clock += 1 + rng.below(3) as u64;
                self.clock
            }
        };
        let id = self.fresh_id(rng);
        let ev = mk_ev(&id, sender, ty, Some(state_key), content, prev, auth, ts);
        // does the event pass auth against the state before it?
        let ok = ruma_state_res::auth_check(&self.rules, &ev, |t, k| {
            before.get(&(t.to_string(), k.to_owned())).and_then(|i| self.store.get(i)).cloned()
        })
        .is_ok();
        if !ok {
            *self.stats.entry("rejected-on-creation").or_default() += 1;
            // mostly dropped; sometimes a faulty server accepts and relays it anyway
            if !rng.chance(1, 4) {
                return false;
            }
            *self.stats.entry("rejected-but-kept").or_default() += 1;
            self.rejected.push(ev.id.clone());
        }
        let mut after = before;
        after.insert((ty.to_owned(), state_key.to_owned()), ev.id.clone());
        let idx = self.events.len();
        self.state_after.insert(ev.id.clone(), after);
        self.store.insert(ev.id.clone(), ev.clone());
        self.events.push(ev);
        self.views[server].insert(idx);
        true
    }

    /// Deliver events to other servers (an event is deliverable once its prev events are known).
    fn gossip(&mut self, rng: &mut Rng, eager: bool) {
        for s in 0..self.views.len() {
            for i in 0..self.events.len() {
                if self.views[s].contains(&i) {
                    continue;
                }
                let known = self.events[i].prev.iter().all(|p| {
                    self.views[s].iter().any(|&j| &self.events[j].id == p)
                });
                if known && (eager || rng.chance(1, 3)) {
                    self.views[s].insert(i);
                }
            }
        }
    }
}

fn member(m: &str) -> Value {
    json!({ "membership": m })
}

fn pl_content(rng: &mut Rng, ver: u32, base: Option<&Value>) -> Value {
    let mut c = base.cloned().unwrap_or_else(|| json!({"users": {"@alice:s0": 100}}));
    let o = c.as_object_mut().unwrap();
    let lvl = |rng: &mut Rng| -> Value {
        let v = *rng.pick(&[0i64, 10, 50, 50, 75, 100, 100, 101, -1]);
        if ver < 10 && rng.chance(1, 12) {
            Value::String(v.to_string())
        } else {
            json!(v)
        }
    };
    for _ in 0..(1 + rng.below(3)) {
        match rng.below(8) {
            0..=3 => {
                let u = *rng.pick(&USERS);
                let users = o.entry("users").or_insert_with(|| json!({}));
                if let Some(um) = users.as_object_mut() {
                    if rng.chance(1, 5) {
                        um.remove(u);
                    } else {
                        um.insert(u.to_owned(), lvl(rng));
                    }
                }
            }
            4 => {
                o.insert("users_default".into(), lvl(rng));
            }
            5 => {
                o.insert("state_default".into(), lvl(rng));
            }
            6 => {
                let evs = o.entry("events").or_insert_with(|| json!({}));
                if let Some(em) = evs.as_object_mut() {
                    em.insert((*rng.pick(&["m.room.topic", "m.room.name", "m.room.power_levels", "m.room.join_rules"])).to_owned(), lvl(rng));
                }
            }
            _ => {
                let f = *rng.pick(&["ban", "kick", "invite", "redact", "events_default"]);
                o.insert(f.to_owned(), lvl(rng));
            }
        }
    }
    c
}

/// Build one room history and choose the forks to merge.
pub fn gen_room(rng: &mut Rng, big: bool) -> (Scenario, BTreeMap<&'static str, usize>) {
    let ver = *rng.pick(&[6u32, 9, 10, 11, 11]);
    let k = 1 + rng.below(3);
    let mut room = Room {
        ver,
        rules: rules_of(ver),
        events: Vec::new(),
        store: HashMap::new(),
        state_after: HashMap::new(),
        views: vec![BTreeSet::new(); 3],
        clock: 10,
        used_ids: HashSet::new(),
        stats: BTreeMap::new(),
        rejected: Vec::new(),
    };
    let _ = k;
    let alice = USERS[0];
    let create = if ver >= 11 { json!({"room_version": ver.to_string()}) } else { json!({"creator": alice, "room_version": ver.to_string()}) };
    room.add(rng, 0, alice, "m.room.create", "", create, Some(vec![]));
    room.add(rng, 0, alice, "m.room.member", alice, member("join"), None);
    // the first power-levels event is sometimes delayed so that events exist before it
    let early_pl = rng.chance(2, 3);
    if early_pl {
        let c = pl_content(rng, ver, None);
        room.add(rng, 0, alice, "m.room.power_levels", "", c, None);
    }
    let jr = *rng.pick(&["public", "public", "public", "invite"]);
    room.add(rng, 0, alice, "m.room.join_rules", "", json!({"join_rule": jr}), None);
    room.gossip(rng, true);
    let n_joiners = 1 + rng.below(4);
    for u in USERS.iter().skip(1).take(n_joiners) {
        if jr == "invite" {
            room.add(rng, 0, alice, "m.room.member", u, member("invite"), None);
            room.gossip(rng, true);
        }
        room.add(rng, server_of(u), u, "m.room.member", u, member("join"), None);
        if rng.chance(1, 2) {
            room.gossip(rng, true);
        }
    }
    if rng.chance(2, 3) {
        room.gossip(rng, true);
    }
    let steps = if big { 12 + rng.below(28) } else { 4 + rng.below(14) };
    for _ in 0..steps {
        let u = *rng.pick(&USERS);
        let s = if rng.chance(1, 8) { rng.below(3) } else { server_of(u) };
        let latest_pl: Option<Value> = room
            .events
            .iter()
            .rev()
            .find(|e| e.ty == TimelineEventType::RoomPowerLevels && room.views[s].iter().any(|&i| room.events[i].id == e.id))
            .map(|e| e.content_val.clone());
        match rng.below(19) {
            0..=2 => {
                let t = format!("t{}", rng.below(5));
                room.add(rng, s, u, "m.room.topic", "", json!({"topic": t}), None);
            }
            3 => {
                room.add(rng, s, u, "m.room.name", "", json!({"name": "n"}), None);
            }
            4 => {
                let sk = *rng.pick(&["", "k", u]);
                let v = rng.below(3);
                room.add(rng, s, u, "x.custom", sk, json!({"v": v}), None);
            }
            5..=7 => {
                let c = pl_content(rng, ver, latest_pl.as_ref());
                let who = if rng.chance(2, 3) { alice } else { u };
                room.add(rng, server_of(who), who, "m.room.power_levels", "", c, None);
            }
            8 => {
                let mut opts = vec!["public", "invite"];
                if ver >= 10 {
                    opts.push("knock");
                    opts.push("restricted");
                }
                let j = *rng.pick(&opts);
                let who = if rng.chance(2, 3) { alice } else { u };
                room.add(rng, server_of(who), who, "m.room.join_rules", "", json!({"join_rule": j}), None);
            }
            9 | 10 => {
                let m = *rng.pick(&["join", "join", "leave"]);
                room.add(rng, s, u, "m.room.member", u, member(m), None);
            }
            11 | 12 => {
                // ban / kick / unban by somebody else
                let target = *rng.pick(&USERS);
                let who = if rng.chance(1, 2) { alice } else { u };
                if target != who {
                    let m = *rng.pick(&["ban", "ban", "leave"]);
                    room.add(rng, server_of(who), who, "m.room.member", target, member(m), None);
                }
            }
            13 => {
                let target = *rng.pick(&USERS);
                if target != u {
                    room.add(rng, s, u, "m.room.member", target, member("invite"), None);
                }
            }
            14 => {
                if ver >= 10 {
                    room.add(rng, s, u, "m.room.member", u, member("knock"), None);
                } else {
                    room.add(rng, s, u, "m.room.topic", "", json!({"topic": "x"}), None);
                }
            }
            15 | 16 => {
                // a ban / kick racing a join: alice removes `target` on her server while `target`
                // (re)joins on its own server, neither having seen the other event; sometimes with
                // the same timestamp
                let target = *rng.pick(&["@bob:s1", "@carol:s2", "@eve:s1", "@zed:s2"]);
                let m = *rng.pick(&["ban", "ban", "leave"]);
                let ban_first = rng.chance(1, 2);
                let before = room.events.len();
                if ban_first {
                    room.add(rng, 0, alice, "m.room.member", target, member(m), None);
                }
                room.add(rng, server_of(target), target, "m.room.member", target, member("join"), None);
                if !ban_first {
                    room.add(rng, 0, alice, "m.room.member", target, member(m), None);
                }
                if room.events.len() == before + 2 {
                    *room.stats.entry("race-steps").or_default() += 1;
                    if rng.chance(1, 3) {
                        // tie the timestamps of the two racing events
                        let ts = room.events[before].ts;
                        let last = room.events.len() - 1;
                        let mut e = (*room.events[last]).clone();
                        e.ts = ts;
                        let e = Arc::new(e);
                        room.store.insert(e.id.clone(), e.clone());
                        room.events[last] = e;
                    }
                }
            }
            _ => room.gossip(rng, true),
        }
        if rng.chance(1, 3) {
            room.gossip(rng, false);
        }
    }
    // forks: any DAG nodes, biased towards the servers' tips
    let n_forks = *rng.pick(&[2usize, 2, 2, 3, 3, 4]);
    let mut forks: Vec<usize> = Vec::new();
    let mut tips: Vec<usize> = (0..3).flat_map(|s| room.tips(s)).collect();
    tips.sort();
    tips.dedup();
    rng.shuffle(&mut tips);
    for t in tips {
        if forks.len() < n_forks && rng.chance(3, 4) {
            forks.push(t);
        }
    }
    while forks.len() < n_forks {
        let i = rng.below(room.events.len());
        if rng.chance(1, 6) || !forks.contains(&i) {
            forks.push(i);
        }
    }
    let mut sets = Vec::new();
    let mut chains = Vec::new();
    for &f in &forks {
        let st = &room.state_after[&room.events[f].id];
        let mut set: Vec<(String, String, OwnedEventId)> =
            st.iter().map(|((t, k), i)| (t.clone(), k.clone(), i.clone())).collect();
        rng.shuffle(&mut set);
        let mut chain: Vec<OwnedEventId> =
            auth_chain(&room.store, st.values().cloned()).into_iter().collect();
        rng.shuffle(&mut chain);
        sets.push(set);
        chains.push(chain);
    }
    let mut events = room.events.clone();
    rng.shuffle(&mut events);
    *room.stats.entry("events").or_default() += events.len();
    let rejected = room.rejected.clone();
    (Scenario { ver, events, sets, chains, rejected }.vary_users(rng), room.stats)
}

/// A history shaped so that the auth difference contains an old power event whose key is
/// unconflicted: join rules JR0 → bob joins → JR1, then concurrently a new user joins (citing JR1)
/// and the join rules change again (JR2); the forks are the merge of both branches and the JR2
/// branch. JR1 is in only one auth chain, is auth-checked as a power event and overwrites the
/// unconflicted JR2 in the working state — only the final overlay of the unconflicted state
/// restores it.
pub fn gen_overlay(rng: &mut Rng) -> Scenario {
    let ver = *rng.pick(&[6u32, 9, 10, 11]);
    let mut room = Room {
        ver,
        rules: rules_of(ver),
        events: Vec::new(),
        store: HashMap::new(),
        state_after: HashMap::new(),
        views: vec![BTreeSet::new(); 3],
        clock: 10,
        used_ids: HashSet::new(),
        stats: BTreeMap::new(),
        rejected: Vec::new(),
    };
    let alice = USERS[0];
    let create = if ver >= 11 { json!({"room_version": ver.to_string()}) } else { json!({"creator": alice, "room_version": ver.to_string()}) };
    room.add(rng, 0, alice, "m.room.create", "", create, Some(vec![]));
    room.add(rng, 0, alice, "m.room.member", alice, member("join"), None);
    if rng.chance(3, 4) {
        let c = pl_content(rng, ver, None);
        room.add(rng, 0, alice, "m.room.power_levels", "", c, None);
    }
    room.add(rng, 0, alice, "m.room.join_rules", "", json!({"join_rule": "public"}), None);
    room.gossip(rng, true);
    room.add(rng, 1, USERS[1], "m.room.member", USERS[1], member("join"), None);
    room.gossip(rng, true);
    room.add(rng, 0, alice, "m.room.join_rules", "", json!({"join_rule": "public", "n": 1}), None);
    room.gossip(rng, true);
    let base = room.tips(0);
    // branch 1: a new user joins under JR1 (on its own server, which does not see branch 2 yet)
    let joiner = *rng.pick(&[USERS[2], USERS[3], USERS[5]]);
    room.add(rng, server_of(joiner), joiner, "m.room.member", joiner, member("join"), Some(base.clone()));
    let e1 = room.events.len() - 1;
    // branch 2: the join rules change again
    let jr2 = *rng.pick(&["public", "invite"]);
    room.add(rng, 0, alice, "m.room.join_rules", "", json!({"join_rule": jr2, "n": 2}), Some(base));
    let e2 = room.events.len() - 1;
    if rng.chance(1, 2) {
        room.add(rng, 0, alice, "m.room.topic", "", json!({"topic": "t"}), Some(vec![e2]));
    }
    let b2 = room.events.len() - 1;
    // merge
    room.add(rng, 0, alice, "m.room.name", "", json!({"name": "merged"}), Some(vec![e1, b2]));
    let e3 = room.events.len() - 1;
    let mut forks = vec![e3, b2];
    if rng.chance(1, 3) {
        forks.push(rng.below(room.events.len()));
    }
    rng.shuffle(&mut forks);
    let mut sets = Vec::new();
    let mut chains = Vec::new();
    for &f in &forks {
        let st = &room.state_after[&room.events[f].id];
        let mut set: Vec<(String, String, OwnedEventId)> =
            st.iter().map(|((t, k), i)| (t.clone(), k.clone(), i.clone())).collect();
        rng.shuffle(&mut set);
        let mut chain: Vec<OwnedEventId> =
            auth_chain(&room.store, st.values().cloned()).into_iter().collect();
        rng.shuffle(&mut chain);
        sets.push(set);
        chains.push(chain);
    }
    let mut events = room.events.clone();
    rng.shuffle(&mut events);
    let rejected = room.rejected.clone();
    Scenario { ver, events, sets, chains, rejected }.vary_users(rng)
}

/// A history in which one sender has two power events in the power graph, sent under different
/// power levels: bob (level `lo`) changes the join rules, alice promotes him to `hi`, bob kicks dave;
/// concurrently carol (level `mid`, `lo < mid < hi`) changes the join rules too. The forks are the
/// two branch ends. The order of bob's first event relative to carol's depends on bob's level *at
/// that event* (`lo`), not on his level at the kick (`hi`): an implementation that looks a sender's
/// level up once per sender orders them by whichever of bob's events it met first.
pub fn gen_promotion(rng: &mut Rng) -> Scenario {
    for _attempt in 0..4 {
        let ver = *rng.pick(&[6u32, 9, 10, 11]);
        let mut room = Room {
            ver,
            rules: rules_of(ver),
            events: Vec::new(),
            store: HashMap::new(),
            state_after: HashMap::new(),
            views: vec![BTreeSet::new(); 3],
            clock: 10,
            used_ids: HashSet::new(),
            stats: BTreeMap::new(),
            rejected: Vec::new(),
        };
        let (alice, bob, carol, dave) = (USERS[0], USERS[1], USERS[2], USERS[3]);
        let lo = *rng.pick(&[0i64, 10]);
        let mid = *rng.pick(&[20i64, 30]);
        let hi = *rng.pick(&[50i64, 75]);
        let create = if ver >= 11 { json!({"room_version": ver.to_string()}) } else { json!({"creator": alice, "room_version": ver.to_string()}) };
        let mut ok = true;
        ok &= room.add(rng, 0, alice, "m.room.create", "", create, Some(vec![]));
        ok &= room.add(rng, 0, alice, "m.room.member", alice, member("join"), None);
        let pl0 = json!({"users": {alice: 100, bob: lo, carol: mid}, "events": {"m.room.join_rules": 0}});
        ok &= room.add(rng, 0, alice, "m.room.power_levels", "", pl0.clone(), None);
        ok &= room.add(rng, 0, alice, "m.room.join_rules", "", json!({"join_rule": "public"}), None);
        room.gossip(rng, true);
        for u in [bob, carol, dave] {
            ok &= room.add(rng, server_of(u), u, "m.room.member", u, member("join"), None);
            room.gossip(rng, true);
        }
        if !ok {
            continue;
        }
        let base = room.tips(0);
        // branch A: bob (lo) changes the join rules, is promoted, kicks dave
        ok &= room.add(rng, 1, bob, "m.room.join_rules", "", json!({"join_rule": "invite", "n": 1}), Some(base.clone()));
        let a1 = room.events.len() - 1;
        let mut pl1 = pl0.clone();
        pl1["users"][bob] = json!(hi);
        ok &= room.add(rng, 0, alice, "m.room.power_levels", "", pl1, Some(vec![a1]));
        let a2 = room.events.len() - 1;
        let removal = *rng.pick(&["leave", "ban"]);
        ok &= room.add(rng, 1, bob, "m.room.member", dave, member(removal), Some(vec![a2]));
        let a3 = room.events.len() - 1;
        // branch B: carol (mid) changes the join rules
        ok &= room.add(rng, 2, carol, "m.room.join_rules", "", json!({"join_rule": "public", "n": 2}), Some(base));
        let b1 = room.events.len() - 1;
        if !ok || room.events.len() != 11 {
            continue;
        }
        let mut forks = vec![a3, b1];
        if rng.chance(1, 3) {
            forks.push(rng.below(room.events.len()));
        }
        rng.shuffle(&mut forks);
        let mut sets = Vec::new();
        let mut chains = Vec::new();
        for &f in &forks {
            let st = &room.state_after[&room.events[f].id];
            let mut set: Vec<(String, String, OwnedEventId)> =
                st.iter().map(|((t, k), i)| (t.clone(), k.clone(), i.clone())).collect();
            rng.shuffle(&mut set);
            let mut chain: Vec<OwnedEventId> =
                auth_chain(&room.store, st.values().cloned()).into_iter().collect();
            rng.shuffle(&mut chain);
            sets.push(set);
            chains.push(chain);
        }
        let mut events = room.events.clone();
        rng.shuffle(&mut events);
        let rejected = room.rejected.clone();
        return Scenario { ver, events, sets, chains, rejected }.vary_users(rng);
    }
    gen_overlay(rng)
}

impl Room {
    /// Replace event `idx` by an edited copy (same id): used to give an accepted event a sloppy
    /// `auth_events` list or a chosen timestamp after the fact.
    fn tamper(&mut self, idx: usize, f: impl FnOnce(&mut Ev)) {
        let mut e = (*self.events[idx]).clone();
        f(&mut e);
        let e = Arc::new(e);
        self.store.insert(e.id.clone(), e.clone());
        self.events[idx] = e;
    }
}

/// Histories with **sloppily selected auth events**: an event `Y` whose `auth_events` omit one of the
/// selected auth events (the sender's membership, the power levels), cite a superseded event at a
/// selected pair, or cite extra unrelated events — while that pair is *conflicted* between the forks
/// (two different leaves of the sender), so that the partial resolved state has no entry there when
/// `Y` is checked and only `Y`'s own `auth_events` decide. Another event `X` of the same pass, checked
/// before `Y`, correctly cites the sender's (superseded) join. The auth state of `Y` must be built
/// from `Y`'s auth events and the partial state at the selected pairs, nothing else: an
/// implementation that lets entries of `X`'s auth state leak into `Y`'s authorises `Y`.
pub fn gen_sloppy_auth(rng: &mut Rng) -> Scenario {
    for _attempt in 0..6 {
        let ver = *rng.pick(&[6u32, 9, 10, 11]);
        let mut room = Room {
            ver,
            rules: rules_of(ver),
            events: Vec::new(),
            store: HashMap::new(),
            state_after: HashMap::new(),
            views: vec![BTreeSet::new(); 3],
            clock: 10,
            used_ids: HashSet::new(),
            stats: BTreeMap::new(),
            rejected: Vec::new(),
        };
        let alice = USERS[0];
        let u = *rng.pick(&[USERS[1], USERS[2], USERS[4], USERS[5]]);
        let w = *rng.pick(&[USERS[1], USERS[2], USERS[3]]);
        let create = if ver >= 11 { json!({"room_version": ver.to_string()}) } else { json!({"creator": alice, "room_version": ver.to_string()}) };
        let mut ok = true;
        ok &= room.add(rng, 0, alice, "m.room.create", "", create, Some(vec![]));
        ok &= room.add(rng, 0, alice, "m.room.member", alice, member("join"), None);
        ok &= room.add(rng, 0, alice, "m.room.power_levels", "", json!({"users": {alice: 100, u: 50, w: 50}}), None);
        ok &= room.add(rng, 0, alice, "m.room.join_rules", "", json!({"join_rule": "public"}), None);
        room.gossip(rng, true);
        // optionally an older, superseded membership of `u`
        let rejoined = rng.chance(1, 2);
        let mut old_membership = None;
        if rejoined {
            ok &= room.add(rng, server_of(u), u, "m.room.member", u, member("join"), None);
            old_membership = Some(room.events.len() - 1);
            room.gossip(rng, true);
            ok &= room.add(rng, server_of(u), u, "m.room.member", u, member("leave"), None);
            room.gossip(rng, true);
        }
        ok &= room.add(rng, server_of(u), u, "m.room.member", u, member("join"), None);
        room.gossip(rng, true);
        if w != u {
            ok &= room.add(rng, server_of(w), w, "m.room.member", w, member("join"), None);
            room.gossip(rng, true);
        }
        if !ok {
            continue;
        }
        let w_join = room.events.len() - 1;
        let base = room.tips(0);
        let t0 = room.clock + 10;
        // fork A: X (correct auth events, cites u's join), then u leaves
        ok &= room.add(rng, server_of(u), u, "m.room.topic", "", json!({"topic": "x"}), Some(base.clone()));
        let x = room.events.len() - 1;
        ok &= room.add(rng, server_of(u), u, "m.room.member", u, json!({"membership": "leave", "reason": "a"}), Some(vec![x]));
        let a2 = room.events.len() - 1;
        // fork B: Y (sloppy auth events), then another removal of u
        let y_ty = *rng.pick(&["m.room.name", "m.room.name", "x.custom"]);
        ok &= room.add(rng, server_of(u), u, y_ty, "", json!({"name": "y"}), Some(base));
        let y = room.events.len() - 1;
        let self_leave = !rng.chance(1, 4);
        if self_leave {
            ok &= room.add(rng, server_of(u), u, "m.room.member", u, json!({"membership": "leave", "reason": "b"}), Some(vec![y]));
        } else {
            ok &= room.add(rng, 0, alice, "m.room.member", u, json!({"membership": "leave", "reason": "kick"}), Some(vec![y]));
        }
        let b2 = room.events.len() - 1;
        if !ok || b2 != y + 1 || y != a2 + 1 || a2 != x + 1 {
            continue;
        }
        // timestamps: usually X < Y < the removals (the order of the mainline sort)
        if !rng.chance(1, 4) {
            room.tamper(x, |e| e.ts = ms(t0));
            room.tamper(y, |e| e.ts = ms(t0 + 5));
            room.tamper(a2, |e| e.ts = ms(t0 + 10));
            room.tamper(b2, |e| e.ts = ms(t0 + 11));
        }
        // make Y's auth events sloppy
        let store = room.store.clone();
        let is_member_of = |id: &OwnedEventId, who: &str| {
            store.get(id).is_some_and(|e| e.ty == TimelineEventType::RoomMember && e.state_key.as_deref() == Some(who))
        };
        let is_pl = |id: &OwnedEventId| store.get(id).is_some_and(|e| e.ty == TimelineEventType::RoomPowerLevels);
        let old_id = old_membership.map(|i| room.events[i].id.clone());
        let w_id = room.events[w_join].id.clone();
        let jr_id = room.events.iter().find(|e| e.ty == TimelineEventType::RoomJoinRules).map(|e| e.id.clone());
        let kind = rng.below(6);
        room.tamper(y, |e| match kind {
            0 => e.auth.retain(|a| !is_member_of(a, u)),
            1 => {
                e.auth.retain(|a| !is_member_of(a, u));
                e.auth.push(w_id.clone());
                if let Some(j) = &jr_id {
                    e.auth.push(j.clone());
                }
            }
            2 => {
                // cite the superseded membership instead (or nothing, when there is none)
                e.auth.retain(|a| !is_member_of(a, u));
                if let Some(o) = &old_id {
                    e.auth.push(o.clone());
                }
            }
            3 => e.auth.retain(|a| !is_pl(a)),
            4 => {
                e.auth.retain(|a| !is_pl(a) && !is_member_of(a, u));
            }
            _ => {
                // correct selection plus extra unrelated events
                if !e.auth.contains(&w_id) {
                    e.auth.push(w_id.clone());
                }
                if let Some(j) = &jr_id {
                    e.auth.push(j.clone());
                }
            }
        });
        // sometimes X is sloppy too (extra events), Y stays as made above
        if rng.chance(1, 4) {
            room.tamper(x, |e| {
                if !e.auth.contains(&w_id) {
                    e.auth.push(w_id.clone());
                }
            });
        }
        let mut forks = vec![a2, b2];
        if rng.chance(1, 4) {
            forks.push(rng.below(room.events.len()));
        }
        rng.shuffle(&mut forks);
        let mut sets = Vec::new();
        let mut chains = Vec::new();
        for &f in &forks {
            let st = &room.state_after[&room.events[f].id];
            let mut set: Vec<(String, String, OwnedEventId)> =
                st.iter().map(|((t, k), i)| (t.clone(), k.clone(), i.clone())).collect();
            rng.shuffle(&mut set);
            let mut chain: Vec<OwnedEventId> =
                auth_chain(&room.store, st.values().cloned()).into_iter().collect();
            rng.shuffle(&mut chain);
            sets.push(set);
            chains.push(chain);
        }
        let mut events = room.events.clone();
        rng.shuffle(&mut events);
        let rejected = room.rejected.clone();
        return Scenario { ver, events, sets, chains, rejected }.vary_users(rng);
    }
    gen_overlay(rng)
}

/// A power event of the room's creator sent BEFORE the first power-levels event (its `auth_events`
/// hold no power-levels event, so its sender's level is the creator default) in conflict with a power
/// event of a moderator (level `mid`, 0 < mid < 100) that cites the power levels. The two join-rules
/// events are unrelated in the auth DAG; only the creator's default level (100 as creator, otherwise
/// the users default 0) decides which one the reverse topological power sort puts last. `who` picks the
/// creator and the moderator (so that rooms resolved one after the other have different creators),
/// `ts_flip` whether the creator's event is the later one.
pub fn early_creator(ver: u32, who: usize, mid: i64, ts_flip: bool) -> Scenario {
    let cr = USERS[who % USERS.len()];
    let md = USERS[(who + 1 + who / USERS.len() % 4) % USERS.len()];
    let create_c = if ver >= 11 { json!({}) } else { json!({"creator": cr}) };
    let (t_jr0, t_jr1) = if ts_flip { (60, 40) } else { (4, 40) };
    let c = mk_ev("$c", cr, "m.room.create", Some(""), create_c, vec![], vec![], 1);
    let mc = mk_ev("$mc", cr, "m.room.member", Some(cr), member("join"), vec![c.id.clone()], vec![c.id.clone()], 2);
    let jr0 = mk_ev("$jr0", cr, "m.room.join_rules", Some(""), json!({"join_rule": "public"}), vec![mc.id.clone()], vec![c.id.clone(), mc.id.clone()], t_jr0);
    let mm = mk_ev("$mm", md, "m.room.member", Some(md), member("join"), vec![jr0.id.clone()], vec![c.id.clone(), jr0.id.clone()], 5);
    let pl = mk_ev("$pl", cr, "m.room.power_levels", Some(""), json!({"users": {cr: 100, md: mid}}), vec![mm.id.clone()], vec![c.id.clone(), mc.id.clone()], 6);
    let jr1 = mk_ev("$jr1", md, "m.room.join_rules", Some(""), json!({"join_rule": "invite"}), vec![pl.id.clone()], vec![c.id.clone(), mm.id.clone(), pl.id.clone()], t_jr1);
    let events = vec![c.clone(), mc.clone(), jr0.clone(), mm.clone(), pl.clone(), jr1.clone()];
    let store: Store = events.iter().map(|e| (e.id.clone(), e.clone())).collect();
    let base = vec![
        ("m.room.create".to_owned(), String::new(), c.id.clone()),
        ("m.room.member".to_owned(), cr.to_owned(), mc.id.clone()),
        ("m.room.member".to_owned(), md.to_owned(), mm.id.clone()),
        ("m.room.power_levels".to_owned(), String::new(), pl.id.clone()),
    ];
    let mut s1 = base.clone();
    s1.push(("m.room.join_rules".into(), String::new(), jr0.id.clone()));
    let mut s2 = base;
    s2.push(("m.room.join_rules".into(), String::new(), jr1.id.clone()));
    let chains = [&s1, &s2]
        .iter()
        .map(|s| auth_chain(&store, s.iter().map(|x| x.2.clone())).into_iter().collect())
        .collect();
    Scenario { ver, events, sets: vec![s1, s2], chains, rejected: vec![] }
}

/// The deterministic `early_creator` cells of one run: every rules family x several creators x
/// moderator levels x timestamp orders.
pub fn early_creator_cells() -> Vec<Scenario> {
    let mut v = Vec::new();
    for ver in [6u32, 10, 11] {
        for who in [0usize, 3, 1, 8, 5] {
            for (mid, flip) in [(50i64, false), (50, true), (99, false), (1, true)] {
                v.push(early_creator(ver, who, mid, flip));
            }
        }
    }
    v
}

/// An event of the auth difference that is NOT a power event and whose state key is unconflicted:
/// `jn` joins twice concurrently (MB1, MB2), every fork converged on MB2, and in one fork only a
/// conflicted topic cites the superseded MB1 in its `auth_events`. MB1 is then in exactly one auth
/// chain, hence in the full conflicted set; it passes the mainline pass and lands on the unconflicted
/// key — only the final overlay of the unconflicted state map restores MB2.
pub fn overlay_member(ver: u32, who: usize, ts_flip: bool, third_fork: bool) -> Scenario {
    let cr = USERS[who % USERS.len()];
    let jn = USERS[(who + 1 + who / USERS.len() % 4) % USERS.len()];
    let create_c = if ver >= 11 { json!({}) } else { json!({"creator": cr}) };
    let (t1, t2) = if ts_flip { (11, 10) } else { (10, 11) };
    let c = mk_ev("$c", cr, "m.room.create", Some(""), create_c, vec![], vec![], 1);
    let mc = mk_ev("$mc", cr, "m.room.member", Some(cr), member("join"), vec![c.id.clone()], vec![c.id.clone()], 2);
    let pl = mk_ev("$pl", cr, "m.room.power_levels", Some(""), json!({"users": {cr: 100}, "events": {"m.room.topic": 0}}), vec![mc.id.clone()], vec![c.id.clone(), mc.id.clone()], 3);
    let jr = mk_ev("$jr", cr, "m.room.join_rules", Some(""), json!({"join_rule": "public"}), vec![pl.id.clone()], vec![c.id.clone(), mc.id.clone(), pl.id.clone()], 4);
    let mb1 = mk_ev("$mb1", jn, "m.room.member", Some(jn), member("join"), vec![jr.id.clone()], vec![c.id.clone(), jr.id.clone(), pl.id.clone()], t1);
    let mb2 = mk_ev("$mb2", jn, "m.room.member", Some(jn), json!({"membership": "join", "displayname": "B"}), vec![jr.id.clone()], vec![c.id.clone(), jr.id.clone(), pl.id.clone()], t2);
    let ta = mk_ev("$ta", jn, "m.room.topic", Some(""), json!({"topic": "A"}), vec![mb1.id.clone(), mb2.id.clone()], vec![c.id.clone(), pl.id.clone(), mb1.id.clone()], 30);
    let tb = mk_ev("$tb", cr, "m.room.topic", Some(""), json!({"topic": "B"}), vec![mb1.id.clone(), mb2.id.clone()], vec![c.id.clone(), pl.id.clone(), mc.id.clone()], 31);
    let events = vec![c.clone(), mc.clone(), pl.clone(), jr.clone(), mb1.clone(), mb2.clone(), ta.clone(), tb.clone()];
    let store: Store = events.iter().map(|e| (e.id.clone(), e.clone())).collect();
    let base = vec![
        ("m.room.create".to_owned(), String::new(), c.id.clone()),
        ("m.room.member".to_owned(), cr.to_owned(), mc.id.clone()),
        ("m.room.power_levels".to_owned(), String::new(), pl.id.clone()),
        ("m.room.join_rules".to_owned(), String::new(), jr.id.clone()),
        ("m.room.member".to_owned(), jn.to_owned(), mb2.id.clone()),
    ];
    let mut s1 = base.clone();
    s1.push(("m.room.topic".into(), String::new(), ta.id.clone()));
    let mut s2 = base.clone();
    s2.push(("m.room.topic".into(), String::new(), tb.id.clone()));
    let mut sets = vec![s1, s2];
    if third_fork {
        sets.push(base);
    }
    let chains = sets
        .iter()
        .map(|s| auth_chain(&store, s.iter().map(|x| x.2.clone())).into_iter().collect())
        .collect();
    Scenario { ver, events, sets, chains, rejected: vec![] }
}

pub fn overlay_member_cells() -> Vec<Scenario> {
    let mut v = Vec::new();
    for ver in [6u32, 10, 11] {
        for who in [0usize, 3, 7] {
            for (flip, third) in [(false, false), (true, false), (false, true)] {
                v.push(overlay_member(ver, who, flip, third));
            }
        }
    }
    v
}

/// Two conflicted member events with the SAME sender and target whose auth-event selections differ
/// (a `leave` selects no join rules, a `join` does): `jn` joins a public room and leaves; on one fork
/// the creator makes the room invite-only, on the other `jn` — still seeing the public rule — joins
/// again. Both join-rules events are allowed and the later (invite) wins, so the re-join must be
/// checked against the RESOLVED join rule and be rejected: the resolved membership is the leave.
/// `variant` 1 swaps in an invite → join pair (the join then stays allowed: the invite is in the
/// resolved state), variant 2 a knock → join pair for versions with knocking.
pub fn same_sender_member(ver: u32, who: usize, variant: usize) -> Scenario {
    let cr = USERS[who % USERS.len()];
    let jn = USERS[(who + 1 + who / USERS.len() % 4) % USERS.len()];
    let create_c = if ver >= 11 { json!({}) } else { json!({"creator": cr}) };
    let c = mk_ev("$c", cr, "m.room.create", Some(""), create_c, vec![], vec![], 1);
    let mc = mk_ev("$mc", cr, "m.room.member", Some(cr), member("join"), vec![c.id.clone()], vec![c.id.clone()], 2);
    let pl = mk_ev("$pl", cr, "m.room.power_levels", Some(""), json!({"users": {cr: 100}}), vec![mc.id.clone()], vec![c.id.clone(), mc.id.clone()], 3);
    let jr0 = mk_ev("$jr0", cr, "m.room.join_rules", Some(""), json!({"join_rule": "public"}), vec![pl.id.clone()], vec![c.id.clone(), mc.id.clone(), pl.id.clone()], 4);
    let j1 = mk_ev("$j1", jn, "m.room.member", Some(jn), member("join"), vec![jr0.id.clone()], vec![c.id.clone(), pl.id.clone(), jr0.id.clone()], 5);
    // the first of the two same-sender events
    let (first_mem, first_sender) = match variant {
        1 => ("invite", cr),
        2 if ver >= 7 => ("knock", jn),
        _ => ("leave", jn),
    };
    let mut first_auth = vec![c.id.clone(), pl.id.clone(), j1.id.clone()];
    if first_sender == cr {
        first_auth.push(mc.id.clone());
    }
    // variant 1/2 start from a left user so that invite / knock are themselves allowed
    let l0 = mk_ev("$l0", jn, "m.room.member", Some(jn), member("leave"), vec![j1.id.clone()], vec![c.id.clone(), pl.id.clone(), j1.id.clone()], 6);
    let (prev_of_first, base_mem) = if variant == 0 { (j1.id.clone(), j1.clone()) } else { (l0.id.clone(), l0.clone()) };
    if variant != 0 {
        first_auth = vec![c.id.clone(), pl.id.clone(), l0.id.clone()];
        if first_sender == cr {
            first_auth.push(mc.id.clone());
        }
        if first_mem == "knock" {
            first_auth.push(jr0.id.clone());
        }
    }
    let _ = base_mem;
    let first = mk_ev("$first", first_sender, "m.room.member", Some(jn), member(first_mem), vec![prev_of_first], first_auth, 7);
    let jr1 = mk_ev("$jr1", cr, "m.room.join_rules", Some(""), json!({"join_rule": "invite"}), vec![first.id.clone()], vec![c.id.clone(), mc.id.clone(), pl.id.clone()], 8);
    let j2 = mk_ev("$j2", jn, "m.room.member", Some(jn), member("join"), vec![first.id.clone()], vec![c.id.clone(), pl.id.clone(), jr0.id.clone(), first.id.clone()], 9);
    let mut events = vec![c.clone(), mc.clone(), pl.clone(), jr0.clone(), j1.clone(), first.clone(), jr1.clone(), j2.clone()];
    if variant != 0 {
        events.push(l0.clone());
    }
    let store: Store = events.iter().map(|e| (e.id.clone(), e.clone())).collect();
    let base = vec![
        ("m.room.create".to_owned(), String::new(), c.id.clone()),
        ("m.room.member".to_owned(), cr.to_owned(), mc.id.clone()),
        ("m.room.power_levels".to_owned(), String::new(), pl.id.clone()),
    ];
    let mut s1 = base.clone();
    s1.push(("m.room.join_rules".into(), String::new(), jr1.id.clone()));
    s1.push(("m.room.member".into(), jn.to_owned(), first.id.clone()));
    let mut s2 = base;
    s2.push(("m.room.join_rules".into(), String::new(), jr0.id.clone()));
    s2.push(("m.room.member".into(), jn.to_owned(), j2.id.clone()));
    let sets = vec![s1, s2];
    let chains = sets
        .iter()
        .map(|s| auth_chain(&store, s.iter().map(|x| x.2.clone())).into_iter().collect())
        .collect();
    Scenario { ver, events, sets, chains, rejected: vec![] }
}

pub fn same_sender_member_cells() -> Vec<Scenario> {
    let mut v = Vec::new();
    for ver in [6u32, 9, 10, 11] {
        for who in [0usize, 3, 8] {
            for variant in 0..3 {
                v.push(same_sender_member(ver, who, variant));
            }
        }
    }
    v
}

/// The F4 witness of DESIGN §7: two conflicting topics, one sent before the only power-levels
/// event (ts 50), one citing it (ts 20).
pub fn f4_witness(ver: u32) -> Scenario {
    let alice = USERS[0];
    let create_c = if ver >= 11 { json!({}) } else { json!({"creator": alice}) };
    let c = mk_ev("$c", alice, "m.room.create", Some(""), create_c, vec![], vec![], 1);
    let ma = mk_ev("$ma", alice, "m.room.member", Some(alice), member("join"), vec![c.id.clone()], vec![c.id.clone()], 2);
    let t1 = mk_ev("$t1", alice, "m.room.topic", Some(""), json!({"topic": "before"}), vec![ma.id.clone()], vec![c.id.clone(), ma.id.clone()], 50);
    let pl = mk_ev("$pl", alice, "m.room.power_levels", Some(""), json!({"users": {alice: 100}}), vec![ma.id.clone()], vec![c.id.clone(), ma.id.clone()], 10);
    let t2 = mk_ev("$t2", alice, "m.room.topic", Some(""), json!({"topic": "after"}), vec![pl.id.clone()], vec![c.id.clone(), ma.id.clone(), pl.id.clone()], 20);
    let events = vec![c.clone(), ma.clone(), t1.clone(), pl.clone(), t2.clone()];
    let store: Store = events.iter().map(|e| (e.id.clone(), e.clone())).collect();
    let base = vec![
        ("m.room.create".to_owned(), String::new(), c.id.clone()),
        ("m.room.member".to_owned(), alice.to_owned(), ma.id.clone()),
    ];
    let mut s1 = base.clone();
    s1.push(("m.room.topic".into(), String::new(), t1.id.clone()));
    s1.push(("m.room.power_levels".into(), String::new(), pl.id.clone()));
    let mut s2 = base;
    s2.push(("m.room.power_levels".into(), String::new(), pl.id.clone()));
    s2.push(("m.room.topic".into(), String::new(), t2.id.clone()));
    let chains = [&s1, &s2]
        .iter()
        .map(|s| auth_chain(&store, s.iter().map(|x| x.2.clone())).into_iter().collect())
        .collect();
    Scenario { ver, events, sets: vec![s1, s2], chains, rejected: vec![] }
}

/// Known finding F4 (DESIGN §7): `mainline_sort` gives an event without mainline ancestor the depth
/// of the oldest mainline event. This predicate over-approximates the scenarios in which that can
/// be observed, without looking at the implementation's answer: follow the power-levels events
/// through `auth_events` (first one listed, as the code does) from every event of the full
/// conflicted set and from every power-levels event of the state sets down to the last one
/// reached (the "root"; none if the event has no power-levels ancestor and is not one itself). An
/// event has a mainline ancestor exactly if its root is the root of the resolved power-levels
/// event, so as long as all roots coincide the deviation cannot show.
pub fn f4_affected(sc: &Scenario) -> bool {
    let store = sc.store();
    let is_pl = |e: &Ev| e.ty == TimelineEventType::RoomPowerLevels && e.state_key.as_deref() == Some("");
    let first_pl = |e: &Ev| -> Option<AEv> {
        e.auth.iter().filter_map(|a| store.get(a)).find(|a| is_pl(a)).cloned()
    };
    let root = |id: &OwnedEventId| -> Option<OwnedEventId> {
        let e = store.get(id)?;
        let mut cur: Option<AEv> = if is_pl(e) { Some(e.clone()) } else { first_pl(e) };
        let mut last = None;
        let mut fuel = store.len() + 1;
        while let Some(c) = cur {
            last = Some(c.id.clone());
            cur = first_pl(&c);
            fuel -= 1;
            if fuel == 0 {
                break;
            }
        }
        last
    };
    // full conflicted set: conflicted state values + auth difference
    let n = sc.sets.len();
    let mut occ: HashMap<(String, String, OwnedEventId), usize> = HashMap::new();
    for s in &sc.sets {
        for e in s {
            *occ.entry(e.clone()).or_default() += 1;
        }
    }
    let mut interesting: BTreeSet<OwnedEventId> = BTreeSet::new();
    for ((t, k, id), c) in &occ {
        if *c != n || (t == "m.room.power_levels" && k.is_empty()) {
            interesting.insert(id.clone());
        }
    }
    let mut cnt: HashMap<OwnedEventId, usize> = HashMap::new();
    for c in &sc.chains {
        for id in c.iter().collect::<BTreeSet<_>>() {
            *cnt.entry(id.clone()).or_default() += 1;
        }
    }
    for (id, c) in cnt {
        if c < sc.chains.len() {
            interesting.insert(id);
        }
    }
    let roots: BTreeSet<Option<OwnedEventId>> =
        interesting.iter().filter(|id| store.contains_key(*id)).map(root).collect();
    roots.len() >= 2
}

/// The full conflicted set as `resolve` will see it: the values of conflicted keys plus the auth
/// difference, known events only.
pub fn full_conflicted(sc: &Scenario) -> BTreeSet<OwnedEventId> {
    let store = sc.store();
    let n = sc.sets.len();
    let mut occ: HashMap<(String, String, OwnedEventId), usize> = HashMap::new();
    for s in &sc.sets {
        for e in s {
            *occ.entry(e.clone()).or_default() += 1;
        }
    }
    let mut out = BTreeSet::new();
    for ((_, _, id), c) in &occ {
        if *c != n {
            out.insert(id.clone());
        }
    }
    let mut cnt: HashMap<OwnedEventId, usize> = HashMap::new();
    for c in &sc.chains {
        for id in c.iter().collect::<BTreeSet<_>>() {
            *cnt.entry(id.clone()).or_default() += 1;
        }
    }
    for (id, c) in cnt {
        if c < sc.chains.len() {
            out.insert(id);
        }
    }
    out.retain(|id| store.contains_key(id));
    out
}

/// Shape flags of a scenario, appended to its class label so that the evidence's input distribution
/// shows what the generated rooms exercise. Computed from the request alone (plus the generator's
/// record of rejected events):
///   `B` a ban or kick of a user and that user's own join are both in the full conflicted set
///   `P` an event of the full conflicted set has no power-levels event among its auth events
///   `R` an event that failed auth on creation (kept by a faulty server) is in an auth chain
///   `T` two events of the full conflicted set have the same origin_server_ts
///   `3` three or more state sets
///   `0` the full conflicted set is empty (no conflict)
pub fn shape(sc: &Scenario) -> String {
    let store = sc.store();
    let fc = full_conflicted(sc);
    let evs: Vec<&AEv> = fc.iter().filter_map(|i| store.get(i)).collect();
    let membership =
        |e: &Ev| e.content_val.get("membership").and_then(|m| m.as_str()).unwrap_or("").to_owned();
    let is_member = |e: &Ev| e.ty == TimelineEventType::RoomMember;
    let is_pl = |e: &Ev| e.ty == TimelineEventType::RoomPowerLevels && e.state_key.as_deref() == Some("");
    let mut flags = String::new();
    let race = evs.iter().any(|a| {
        is_member(a)
            && matches!(membership(a).as_str(), "ban" | "leave")
            && a.state_key.as_deref() != Some(a.sender.as_str())
            && evs.iter().any(|b| {
                is_member(b)
                    && membership(b) == "join"
                    && b.state_key == a.state_key
                    && b.state_key.as_deref() == Some(b.sender.as_str())
            })
    });
    if race {
        flags.push_str("+B");
    }
    let pre_pl = evs.iter().any(|e| {
        e.ty != TimelineEventType::RoomCreate
            && !e.auth.iter().filter_map(|a| store.get(a)).any(|a| is_pl(a))
    });
    if pre_pl {
        flags.push_str("+P");
    }
    if sc.rejected.iter().any(|r| sc.chains.iter().any(|c| c.contains(r))) {
        flags.push_str("+R");
    }
    let mut ts: Vec<u64> = evs.iter().map(|e| u64::from(e.ts.0)).collect();
    ts.sort();
    if ts.windows(2).any(|w| w[0] == w[1]) {
        flags.push_str("+T");
    }
    if sc.sets.len() >= 3 {
        flags.push_str("+3");
    }
    if fc.is_empty() {
        flags.push_str("+0");
    }
    flags
}

// ------------------------------------------------------------------------------------------
// the hypotheses of the C07 refinement theorems, evaluated independently of the Lean checkers
// (`Lemmas/StateResHyp.lean`: `roomOkB`, `f4FreeB`); the driver's answers to `c07.hyp` must agree
// ------------------------------------------------------------------------------------------

fn is_pl_ev(e: &Ev) -> bool {
    e.ty == TimelineEventType::RoomPowerLevels && e.state_key.as_deref() == Some("")
}
fn is_create_ev(e: &Ev) -> bool {
    e.ty == TimelineEventType::RoomCreate && e.state_key.as_deref() == Some("")
}

/// `fetch_event` as the model has it: the first listed event with that id.
fn fetch<'a>(sc: &'a Scenario, id: &OwnedEventId) -> Option<&'a AEv> {
    sc.events.iter().find(|e| &e.id == id)
}

/// The first power-levels event among the known auth events, in the order listed.
fn pl_among<'a>(sc: &'a Scenario, e: &Ev) -> Option<&'a AEv> {
    e.auth.iter().filter_map(|a| fetch(sc, a)).find(|a| is_pl_ev(a))
}

/// `RoomOk` (DESIGN §6 C06/C07 `WF`): state maps and chains are maps/sets; every event of the full
/// conflicted set is known, has among its known auth events at most one power-levels event and
/// exactly the room's create event, and is not a create event itself; the store is closed under
/// auth events and acyclic; the state sets mention known events only.
pub fn room_ok(sc: &Scenario) -> bool {
    for s in &sc.sets {
        let keys: BTreeSet<(&String, &String)> = s.iter().map(|(t, k, _)| (t, k)).collect();
        if keys.len() != s.len() {
            return false;
        }
    }
    for c in &sc.chains {
        if c.iter().collect::<BTreeSet<_>>().len() != c.len() {
            return false;
        }
    }
    let Some(c0) = sc.events.iter().find(|e| is_create_ev(e)).and_then(|c| fetch(sc, &c.id)) else { return false };
    for n in full_conflicted(sc) {
        let Some(e) = fetch(sc, &n) else { return false };
        let auth: Vec<&AEv> = e.auth.iter().filter_map(|a| fetch(sc, a)).collect();
        if auth.iter().filter(|a| is_pl_ev(a)).count() > 1 || auth.iter().filter(|a| is_create_ev(a)).count() > 1 {
            return false;
        }
        match auth.iter().find(|a| is_create_ev(a)) {
            Some(c) if c.id == c0.id => {}
            _ => return false,
        }
        if is_create_ev(e) {
            return false;
        }
    }
    if sc.events.iter().any(|e| e.auth.iter().any(|a| fetch(sc, a).is_none())) {
        return false;
    }
    // acyclic: peel events all of whose auth events are peeled
    let mut done: HashSet<&OwnedEventId> = HashSet::new();
    loop {
        let before = done.len();
        for e in &sc.events {
            if !done.contains(&e.id) && e.auth.iter().all(|a| done.contains(a)) {
                done.insert(&e.id);
            }
        }
        if done.len() == before {
            break;
        }
    }
    if sc.events.iter().any(|e| !done.contains(&e.id)) {
        return false;
    }
    sc.sets.iter().all(|s| s.iter().all(|(_, _, i)| fetch(sc, i).is_some()))
}

/// The spec's power-event predicate (not the code's: `m.room.create` is not one).
fn spec_power_event(e: &Ev) -> bool {
    if (e.ty == TimelineEventType::RoomPowerLevels || e.ty == TimelineEventType::RoomJoinRules) && e.state_key.as_deref() == Some("") {
        return true;
    }
    if e.ty == TimelineEventType::RoomMember {
        let m = e.content_val.get("membership").and_then(|m| m.as_str());
        return matches!(m, Some("leave") | Some("ban")) && e.state_key.as_deref() != Some(e.sender.as_str());
    }
    false
}

/// `F4Free`: whichever event of the store (or none) is taken as the resolved power-levels event, the
/// events left for the mainline ordering (full conflicted set minus the power events and their auth
/// chains inside it) all have a mainline ancestor or none has.
pub fn f4_free(sc: &Scenario) -> bool {
    let fc = full_conflicted(sc);
    // power events of the full conflicted set, closed under auth events inside it
    let mut x: BTreeSet<OwnedEventId> =
        fc.iter().filter(|i| fetch(sc, i).is_some_and(|e| spec_power_event(e))).cloned().collect();
    loop {
        let mut add = Vec::new();
        for i in &x {
            if let Some(e) = fetch(sc, i) {
                for a in &e.auth {
                    if fc.contains(a) && !x.contains(a) {
                        add.push(a.clone());
                    }
                }
            }
        }
        if add.is_empty() {
            break;
        }
        x.extend(add);
    }
    let rest: Vec<&AEv> = fc.iter().filter(|i| !x.contains(*i)).filter_map(|i| fetch(sc, i)).collect();
    let fuel = sc.events.len() + 1;
    let mut candidates: Vec<Option<&AEv>> = vec![None];
    candidates.extend(sc.events.iter().map(Some));
    for p in candidates {
        // mainline of p, p last
        let mut ml: Vec<OwnedEventId> = Vec::new();
        let mut cur = p;
        let mut f = fuel;
        while let Some(e) = cur {
            if f == 0 {
                break;
            }
            f -= 1;
            ml.insert(0, e.id.clone());
            cur = pl_among(sc, e);
        }
        let pos = |e: &AEv| -> usize {
            let mut cur = Some(e);
            let mut f = fuel;
            while let Some(c) = cur {
                if f == 0 {
                    return 0;
                }
                f -= 1;
                if let Some(i) = ml.iter().position(|m| m == &c.id) {
                    return i + 1;
                }
                cur = pl_among(sc, c);
            }
            0
        };
        let ps: Vec<usize> = rest.iter().map(|e| pos(e)).collect();
        if !(ps.iter().all(|&p| p != 0) || ps.iter().all(|&p| p == 0)) {
            return false;
        }
    }
    true
}

/// The harness' answer to `c07.hyp`.
pub fn hyp_answer(sc: &Scenario) -> String {
    format!("{}+{}", if room_ok(sc) { "wf" } else { "nowf" }, if f4_free(sc) { "f4free" } else { "f4" })
}
