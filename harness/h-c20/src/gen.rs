//! Generators for C20.
//!
//! (a) Systematic families, one per helper: room version x threshold field absent / present at
//! several values x the actor's level at t-1 / t / t+1 (through a `users` entry, through
//! `users_default`, or through neither) x the target's level below / equal / above the actor's
//! (entry or default) x the target's membership x integer vs string spelling. Thorough enumerates
//! the products in full, quick samples them.
//! (b) Random instances: random power-level contents (every field absent/present, levels anywhere,
//! malformed spellings and shapes), random actor/target/membership/type/state key, all helpers.
use h_lib::{h_util, stok, Req, Rng};
use serde_json::{json, Map, Value};

use crate::scn::*;

pub const MEMS: [Option<&str>; 7] =
    [None, Some("join"), Some("invite"), Some("leave"), Some("ban"), Some("knock"), Some("x.weird")];

const ALIAS: &str = "org.matrix.call.sdp_stream_metadata_changed";

/// Event types for `msg` / `state` requests.
const TYPES: [&str; 22] = [
    "m.room.message",
    "m.room.redaction",
    "m.room.encrypted",
    "m.reaction",
    "m.room.topic",
    "m.room.name",
    "m.room.avatar",
    "m.room.join_rules",
    "m.room.history_visibility",
    "m.room.canonical_alias",
    "m.room.server_acl",
    "m.room.tombstone",
    "m.room.encryption",
    "m.space.child",
    "m.room.aliases",
    "m.room.third_party_invite",
    "m.room.power_levels",
    "m.room.member",
    "m.room.create",
    "m.call.sdp_stream_metadata_changed",
    ALIAS,
    "x.custom.type",
];

struct Out {
    reqs: Vec<Req>,
    keep: u64,
    rng: Rng,
}

impl Out {
    fn want(&mut self) -> bool {
        self.keep >= 1_000_000 || (self.rng.next() % 1_000_000) < self.keep
    }
}

/// Keep probability so that about `quick_target` / `thorough_target` of the `full` product survive.
fn set_keep(o: &mut Out, tier: &str, full: u64, quick_target: u64, thorough_target: u64) {
    let target = if tier == "thorough" { thorough_target } else { quick_target };
    o.keep = (target * 1_000_000 / full.max(1)).clamp(1, 1_000_000);
}

/// A level as an integer or as a string.
fn lv(v: i64, as_str: bool) -> Value {
    if as_str {
        json!(v.to_string())
    } else {
        json!(v)
    }
}

/// How a user's level comes about.
#[derive(Clone, Copy, Debug)]
enum Via {
    Entry(i64),
    Default(i64),
    /// no entry and no `users_default`: level 0
    Nothing,
}

fn actor_modes(t: i64) -> Vec<Via> {
    vec![
        Via::Entry(t - 1),
        Via::Entry(t),
        Via::Entry(t + 1),
        Via::Default(t - 1),
        Via::Default(t),
        Via::Default(t + 1),
        Via::Nothing,
    ]
}

fn level_of(v: Via) -> i64 {
    match v {
        Via::Entry(x) | Via::Default(x) => x,
        Via::Nothing => 0,
    }
}

/// Target modes relative to the actor: below / equal / above by entry, or falling to the default.
#[derive(Clone, Copy, Debug)]
enum TVia {
    Entry(i64),
    Fallthrough,
}

fn target_modes(al: i64) -> Vec<TVia> {
    vec![TVia::Entry(al - 1), TVia::Entry(al), TVia::Entry(al + 1), TVia::Fallthrough]
}

struct PlBuild {
    m: Map<String, Value>,
    users: Map<String, Value>,
    events: Map<String, Value>,
    as_str: bool,
}

impl PlBuild {
    fn new(as_str: bool) -> Self {
        PlBuild { m: Map::new(), users: Map::new(), events: Map::new(), as_str }
    }
    fn field(&mut self, k: &str, v: Option<i64>) {
        if let Some(v) = v {
            self.m.insert(k.to_owned(), lv(v, self.as_str));
        }
    }
    fn actor(&mut self, who: &str, v: Via) {
        match v {
            Via::Entry(x) => {
                self.users.insert(who.to_owned(), lv(x, self.as_str));
            }
            Via::Default(x) => {
                self.m.insert("users_default".into(), lv(x, self.as_str));
            }
            Via::Nothing => {}
        }
    }
    fn target(&mut self, who: &str, v: TVia) {
        if let TVia::Entry(x) = v {
            self.users.insert(who.to_owned(), lv(x, self.as_str));
        }
    }
    fn event(&mut self, ty: &str, v: Option<i64>) {
        if let Some(v) = v {
            self.events.insert(ty.to_owned(), lv(v, self.as_str));
        }
    }
    fn build(mut self, users_key: bool, events_key: bool) -> Value {
        if !self.users.is_empty() || users_key {
            self.m.insert("users".into(), Value::Object(self.users));
        }
        if !self.events.is_empty() || events_key {
            self.m.insert("events".into(), Value::Object(self.events));
        }
        Value::Object(self.m)
    }
}

fn room(ver: u32, actor: &str, pl: Value, ev: Ev) -> Scn {
    let mut s = Scn::new(ver, ev);
    if actor != CREATOR {
        s.set_member(actor, Some(json!({"membership": "join"})));
    }
    s.pl = Some(pl);
    s
}

fn payload(s: &Scn) -> String {
    let state: Vec<Value> = s.state().iter().map(Ev::json).collect();
    format!("{} {}", h_util::jtoks(&s.ev.json()), h_util::jtoks(&Value::Array(state)))
}

fn push_action(o: &mut Out, op: &str, s: &Scn, cls: &str) {
    o.reqs.push(Req::new(format!("c20.{op} {} {}", s.rules, payload(s)), cls));
}

fn push_typed(o: &mut Out, op: &str, s: &Scn, cls: &str) {
    o.reqs.push(Req::new(format!("c20.{op} {} {} {}", s.rules, stok(&s.ev.ty), payload(s)), cls));
}

fn push_chpl(o: &mut Out, s: &Scn, target: &str, cls: &str) {
    o.reqs.push(Req::new(format!("c20.chpl {} {} {}", s.rules, stok(target), payload(s)), cls));
}

fn member_ev(sender: &str, target: &str, membership: &str) -> Ev {
    Ev::new("$ev", sender, "m.room.member", Some(target), json!({ "membership": membership }))
}

const THRESHOLDS: [Option<i64>; 6] = [None, Some(-1), Some(0), Some(1), Some(50), Some(100)];

// ---------------------------------------------------------------------------------------------
// (a) systematic families
// ---------------------------------------------------------------------------------------------

/// ban / kick / unban / invite.
fn fam_user_actions(o: &mut Out, tier: &str) {
    // versions x 4 ops x thresholds x 2 (other threshold) x 7 actor x 4 target x 7 memberships x 2 spellings x 2 targets
    set_keep(o, tier, 9 * 4 * 6 * 3 * 7 * 4 * 7 * 2 * 2, 2600, 1_000_000);
    for ver in 3..=11u32 {
        for op in ["ban", "kick", "unban", "invite"] {
            let (field, dflt, membership) = match op {
                "ban" => ("ban", 50, "ban"),
                "kick" => ("kick", 50, "leave"),
                "unban" => ("ban", 50, "leave"),
                _ => ("invite", 0, "invite"),
            };
            for th in THRESHOLDS {
                // the second threshold that matters for leave events (kick level for unban, ban level for kick)
                for other in [None, Some(th.unwrap_or(dflt) - 1), Some(th.unwrap_or(dflt) + 1)] {
                    let t = match (op, other) {
                        ("unban", Some(k)) => th.unwrap_or(dflt).max(k),
                        _ => th.unwrap_or(dflt),
                    };
                    for am in actor_modes(t) {
                        for tm in target_modes(level_of(am)) {
                            for mem in MEMS {
                                for as_str in [false, true] {
                                    for target in [BOB, CAROL] {
                                        if !o.want() {
                                            continue;
                                        }
                                        let mut b = PlBuild::new(as_str);
                                        b.field(field, th);
                                        match op {
                                            "unban" => b.field("kick", other),
                                            "kick" => b.field("ban", other),
                                            "ban" => b.field("kick", other),
                                            _ => b.field("ban", other),
                                        }
                                        b.actor(ALICE, am);
                                        b.target(target, tm);
                                        let pl = b.build(false, false);
                                        let mut s = room(ver, ALICE, pl, member_ev(ALICE, target, membership));
                                        s.set_member(target, mem.map(|m| json!({ "membership": m })));
                                        push_action(o, op, &s, &format!("fam.{op}"));
                                    }
                                }
                            }
                        }
                    }
                }
            }
        }
    }
}

/// message and state events of every type in `TYPES`.
fn fam_send(o: &mut Out, tier: &str) {
    set_keep(o, tier, 9 * 2 * 22 * 4 * 4 * 7 * 2 * 3, 2200, 1_000_000);
    for ver in 3..=11u32 {
        for op in ["msg", "state"] {
            let dfield = if op == "msg" { "events_default" } else { "state_default" };
            let ddflt = if op == "msg" { 0 } else { 50 };
            for ty in TYPES {
                // entry for the type in `events`
                for entry in [None, Some(0), Some(30), Some(60)] {
                    for dv in [None, Some(-5), Some(10), Some(75)] {
                        let t = entry.unwrap_or(dv.unwrap_or(ddflt));
                        for am in actor_modes(t) {
                            for as_str in [false, true] {
                                for sk in 0..3 {
                                    if !o.want() {
                                        continue;
                                    }
                                    let mut b = PlBuild::new(as_str);
                                    b.field(dfield, dv);
                                    // the other default and the invite level, so that using the wrong field shows
                                    b.field(if op == "msg" { "state_default" } else { "events_default" }, Some(t + 7));
                                    b.field("invite", Some(t - 3 + 3 * (sk as i64)));
                                    b.event(ty, entry);
                                    b.actor(ALICE, am);
                                    let pl = b.build(false, entry.is_none() && sk == 1);
                                    let state_key: Option<String> = if op == "msg" {
                                        None
                                    } else {
                                        Some(match (ty, sk) {
                                            ("m.room.aliases", 0) => "s1".to_owned(),
                                            (_, 0) => String::new(),
                                            (_, 1) => ALICE.to_owned(),
                                            _ => "key".to_owned(),
                                        })
                                    };
                                    let ev = Ev::new("$ev", ALICE, ty, state_key.as_deref(), json!({}));
                                    let s = room(ver, ALICE, pl, ev);
                                    push_typed(o, op, &s, &format!("fam.{op}"));
                                }
                            }
                        }
                    }
                }
            }
        }
    }
}

/// third-party-invite events, redactions (also room versions 1-2), unchanged power-levels events,
/// canonical changes of one user's level.
fn fam_rest(o: &mut Out, tier: &str) {
    set_keep(o, tier, 11 * 6 * 7 * 2 * 2 * 8, 1500, 1_000_000);
    for ver in 1..=11u32 {
        for th in THRESHOLDS {
            for am_i in 0..7 {
                for as_str in [false, true] {
                    for variant in 0..2 {
                        // tpi: invite level
                        if ver >= 3 && o.want() {
                            let t = th.unwrap_or(0);
                            let am = actor_modes(t)[am_i];
                            let mut b = PlBuild::new(as_str);
                            b.field("invite", th);
                            b.field("state_default", Some(t + 5 - 10 * variant));
                            b.actor(ALICE, am);
                            let ev = Ev::new("$ev", ALICE, "m.room.third_party_invite", Some("tok"), json!({}));
                            push_action(o, "tpi", &room(ver, ALICE, b.build(false, false), ev), "fam.tpi");
                        }
                        // redaction: events[m.room.redaction] / events_default and `redact`
                        for own in [true, false] {
                            if !o.want() {
                                continue;
                            }
                            let t = th.unwrap_or(50);
                            let am = actor_modes(t)[am_i];
                            let mut b = PlBuild::new(as_str);
                            b.field("redact", th);
                            if variant == 0 {
                                b.event("m.room.redaction", Some(t - 1 + (am_i as i64 % 3)));
                            } else {
                                b.field("events_default", Some(t + 1 - (am_i as i64 % 3)));
                            }
                            b.actor(ALICE, am);
                            let mut ev = Ev::new("$ev:s1", ALICE, "m.room.redaction", None, json!({}));
                            ev.redacts = Some(if own { "$target:s1".to_owned() } else { "$target:s2".to_owned() });
                            let op = if own { "redactown" } else { "redactother" };
                            push_action(o, op, &room(ver, ALICE, b.build(false, false), ev), &format!("fam.{op}"));
                        }
                        // unchanged power-levels event
                        if ver >= 3 && o.want() {
                            let t = th.unwrap_or(50);
                            let am = actor_modes(t)[am_i];
                            let mut b = PlBuild::new(as_str);
                            if variant == 0 {
                                b.field("state_default", th);
                            } else {
                                b.event("m.room.power_levels", th);
                                b.field("state_default", Some(t + 20));
                            }
                            b.field("ban", Some(t + 30));
                            b.target(BOB, TVia::Entry(t + 40));
                            b.actor(ALICE, am);
                            let mut m = match b.build(false, false) {
                                Value::Object(m) => m,
                                _ => unreachable!(),
                            };
                            if am_i % 2 == 0 {
                                m.insert("notifications".into(), json!({"room": lv(t + 50, as_str)}));
                            }
                            let pl = Value::Object(m);
                            let ev = Ev::new("$ev", ALICE, "m.room.power_levels", Some(""), pl.clone());
                            push_action(o, "pl", &room(ver, ALICE, pl, ev), "fam.pl");
                        }
                        // change of one user's level
                        if ver >= 3 {
                            for tm in target_modes(level_of(actor_modes(th.unwrap_or(50))[am_i])) {
                                for target in [BOB, ALICE] {
                                    if !o.want() {
                                        continue;
                                    }
                                    let t = th.unwrap_or(50);
                                    let am = actor_modes(t)[am_i];
                                    let mut b = PlBuild::new(as_str);
                                    if variant == 0 {
                                        b.field("state_default", th);
                                    } else {
                                        b.event("m.room.power_levels", th);
                                    }
                                    b.actor(ALICE, am);
                                    if target != ALICE {
                                        b.target(target, tm);
                                    }
                                    let cur = b.build(false, false);
                                    let al = level_of(am);
                                    let new = canonical_change(&cur, target, al);
                                    let ev = Ev::new("$ev", ALICE, "m.room.power_levels", Some(""), new);
                                    push_chpl(o, &room(ver, ALICE, cur, ev), target, "fam.chpl");
                                }
                            }
                        }
                    }
                }
            }
        }
    }
}

/// Remove `target`'s entry from `users`, or add it at level `al` when there is none.
fn canonical_change(cur: &Value, target: &str, al: i64) -> Value {
    let mut m = cur.as_object().cloned().unwrap_or_default();
    let mut users = m.get("users").and_then(Value::as_object).cloned().unwrap_or_default();
    if users.contains_key(target) {
        users.remove(target);
    } else {
        users.insert(target.to_owned(), json!(al));
    }
    m.insert("users".into(), Value::Object(users));
    Value::Object(m)
}

// ---------------------------------------------------------------------------------------------
// (b) random instances
// ---------------------------------------------------------------------------------------------

const USERS: [&str; 6] = [CREATOR, ALICE, BOB, CAROL, "@dave:s3:8448", "@e=v/e.1_-:[::1]"];

fn rand_level(rng: &mut Rng) -> Value {
    let base: i64 = match rng.below(10) {
        0 => rng.range(-3, 3),
        1 => 50 + rng.range(-2, 2),
        2 => 100 + rng.range(-1, 1),
        3 => rng.range(-200, 200),
        4 => *rng.pick(&[9007199254740991i64, -9007199254740991, 9007199254740990]),
        _ => rng.range(-2, 102),
    };
    match rng.below(40) {
        0..=29 => json!(base),
        30..=34 => json!(base.to_string()),
        35 => json!(format!(" +{base} ").replace("+-", "-")),
        36 => json!(format!("{base}\n")),
        _ => {
            // malformed or borderline spellings / shapes
            rng.pick(&[
                json!("++5"),
                json!("+-5"),
                json!("abc"),
                json!(""),
                json!(" "),
                json!("5.0"),
                json!("0x10"),
                json!("+ 5"),
                json!("9007199254740992"),
                json!("-9007199254740992"),
                json!(9007199254740992i64),
                json!(-9007199254740992i64),
                json!(18446744073709551615u64),
                json!(0.5),
                Value::Null,
                json!(true),
                json!([1]),
                json!({}),
            ])
            .clone()
        }
    }
}

fn rand_content(rng: &mut Rng) -> Value {
    let mut m = Map::new();
    for f in ["users_default", "events_default", "state_default", "ban", "redact", "kick", "invite"] {
        if rng.chance(1, 2) {
            m.insert(f.to_owned(), rand_level(rng));
        }
    }
    if rng.chance(3, 4) {
        let mut u = Map::new();
        for _ in 0..rng.below(4) {
            let who = if rng.chance(1, 25) { "not-a-user" } else { *rng.pick(&USERS) };
            u.insert(who.to_owned(), rand_level(rng));
        }
        m.insert("users".into(), if rng.chance(1, 40) { json!([]) } else { Value::Object(u) });
    }
    if rng.chance(3, 4) {
        let mut e = Map::new();
        for _ in 0..rng.below(4) {
            e.insert((*rng.pick(&TYPES)).to_owned(), rand_level(rng));
        }
        m.insert("events".into(), if rng.chance(1, 40) { Value::Null } else { Value::Object(e) });
    }
    if rng.chance(1, 3) {
        let v = match rng.below(12) {
            0 => json!([rand_level(rng)]),
            1 => json!([]),
            2 => json!([rand_level(rng), 1]),
            3 => json!(5),
            4 => json!({}),
            5 => json!({"room": rand_level(rng), "other": rand_level(rng)}),
            6 => json!({"other": rand_level(rng)}),
            _ => json!({"room": rand_level(rng)}),
        };
        m.insert("notifications".into(), v);
    }
    if rng.chance(1, 10) {
        m.insert("unknown_key".into(), json!("x"));
    }
    Value::Object(m)
}

fn random(o: &mut Out, n: usize) {
    for _ in 0..n {
        let mut rng = o.rng.fork();
        let rng = &mut rng;
        let ver = if rng.chance(1, 12) { rng.range(1, 2) as u32 } else { rng.range(3, 11) as u32 };
        let pl = rand_content(rng);
        let actor = *rng.pick(&[ALICE, ALICE, ALICE, CREATOR, CAROL]);
        let target = *rng.pick(&USERS);
        let mem = *rng.pick(&MEMS);
        let kind = rng.below(14);
        let ty = *rng.pick(&TYPES);
        let mut op = "";
        let ev = match kind {
            0 => {
                op = "ban";
                member_ev(actor, target, "ban")
            }
            1 => {
                op = "kick";
                member_ev(actor, target, "leave")
            }
            2 => {
                op = "unban";
                member_ev(actor, target, "leave")
            }
            3 => {
                op = "invite";
                let mut e = member_ev(actor, target, "invite");
                if rng.chance(1, 10) {
                    e.content = json!({"membership": "invite", "third_party_invite": Value::Null});
                }
                e
            }
            4 | 5 => {
                op = "msg";
                Ev::new("$ev", actor, ty, None, json!({"body": "x"}))
            }
            6 | 7 => {
                op = "state";
                let sk = match rng.below(6) {
                    0 => actor.to_owned(),
                    1 => target.to_owned(),
                    2 => "@".to_owned(),
                    3 => "s1".to_owned(),
                    _ => String::new(),
                };
                Ev::new("$ev", actor, ty, Some(&sk), json!({}))
            }
            8 => {
                op = "tpi";
                Ev::new("$ev", actor, "m.room.third_party_invite", Some("tok"), json!({}))
            }
            9 => {
                op = if rng.chance(1, 2) { "redactown" } else { "redactother" };
                let mut e = Ev::new(*rng.pick(&["$ev", "$ev:s1"]), actor, "m.room.redaction", None, json!({}));
                e.redacts = match rng.below(4) {
                    0 => None,
                    1 => Some("$t".to_owned()),
                    2 => Some("$t:s1".to_owned()),
                    _ => Some("$t:s2".to_owned()),
                };
                e
            }
            10 => {
                op = "pl";
                let c = if rng.chance(4, 5) { pl.clone() } else { rand_content(rng) };
                Ev::new("$ev", actor, "m.room.power_levels", Some(""), c)
            }
            11 | 12 => {
                op = "chpl";
                let al = 0; // replaced below when the content is readable
                let new = if rng.chance(3, 4) { canonical_change(&pl, target, al) } else { rand_content(rng) };
                Ev::new("$ev", actor, "m.room.power_levels", Some(""), new)
            }
            _ => Ev::new("$ev", actor, ty, None, json!({})),
        };
        if kind == 13 {
            // helper-only requests
            let user = *rng.pick(&USERS);
            let st = *rng.pick(&TYPES);
            o.reqs.push(Req::new(
                format!("c20.levels {} {} {} {}", h_util::jtoks(&pl), stok(user), stok(ty), stok(st)),
                "rand.levels",
            ));
            o.reqs.push(Req::new(format!("c20.deser {}", h_util::jtoks(&pl)), "rand.deser"));
            push_deserred(o, &pl, "rand.deserred");
            continue;
        }
        let mut s = room(ver, actor, pl, ev);
        s.set_member(target, mem.map(|m| json!({ "membership": m })));
        if actor == target && mem != Some("join") && !rng.chance(1, 8) {
            // the actor's own join was just replaced: restore it (mostly)
            s.set_member(actor, Some(json!({"membership": "join"})));
        }
        // sometimes break the setting
        match rng.below(60) {
            0 => s.pl = None,
            1 => s.ev.auth = vec![],
            2 => {
                if let Some(c) = &mut s.create {
                    c.content["m.federate"] = json!(false);
                }
            }
            3 => {
                if let Some(c) = &mut s.create {
                    c.content.as_object_mut().unwrap().remove("creator");
                }
            }
            4 => s.set_member(actor, Some(json!({"membership": "leave"}))),
            5 => s.create = None,
            _ => {}
        }
        let cls = format!("rand.{op}");
        match op {
            "msg" | "state" => push_typed(o, op, &s, &cls),
            "chpl" => {
                // make the canonical change use the actor's real level when the helper can tell it
                if let Some(plv) = s.pl.clone() {
                    if let Some(levels) = crate::levels_of_value(&plv) {
                        if let Ok(a) = <&ruma_common::UserId>::try_from(actor) {
                            let al = i64::from(levels.for_user(a));
                            if o.rng.chance(3, 4) {
                                s.ev.content = canonical_change(&plv, target, al);
                            }
                        }
                    }
                }
                push_chpl(o, &s, target, &cls)
            }
            _ => push_action(o, op, &s, &cls),
        }
    }
}

/// helper-only requests over structured contents (for_user / for_action / user_can_do / push).
fn fam_levels(o: &mut Out, tier: &str) {
    set_keep(o, tier, 6 * 7 * 4 * 4 * 2, 500, 1_000_000);
    for th in THRESHOLDS {
        for am_i in 0..7 {
            for field_i in 0..4 {
                for ty_i in 0..4 {
                    for as_str in [false, true] {
                        if !o.want() {
                            continue;
                        }
                        let t = th.unwrap_or(50);
                        let am = actor_modes(t)[am_i];
                        let mut b = PlBuild::new(as_str);
                        let field = ["ban", "kick", "redact", "invite"][field_i];
                        b.field(field, th);
                        b.field(["kick", "ban", "events_default", "state_default"][field_i], Some(t + 1 - field_i as i64));
                        let ty = ["m.room.message", "m.room.redaction", "m.room.topic", ALIAS][ty_i];
                        b.event(ty, Some(t));
                        b.actor(ALICE, am);
                        let mut m = match b.build(false, false) {
                            Value::Object(m) => m,
                            _ => unreachable!(),
                        };
                        match (am_i + field_i) % 4 {
                            0 => {
                                m.insert("notifications".into(), json!({"room": lv(t, as_str)}));
                            }
                            1 => {
                                m.insert("notifications".into(), json!({"room": lv(t + 1, as_str)}));
                            }
                            2 => {
                                m.insert("notifications".into(), json!({}));
                            }
                            _ => {}
                        }
                        let c = Value::Object(m);
                        o.reqs.push(Req::new(
                            format!("c20.levels {} {} {} {}", h_util::jtoks(&c), stok(ALICE), stok(ty), stok(ty)),
                            "fam.levels",
                        ));
                        o.reqs.push(Req::new(format!("c20.deser {}", h_util::jtoks(&c)), "fam.deser"));
                        push_deserred(o, &c, "fam.deserred");
                    }
                }
            }
        }
    }
}

pub fn gen(rng: &mut Rng, n: usize, tier: &str) -> Vec<Req> {
    let mut o = Out { reqs: Vec::new(), keep: 1_000_000, rng: rng.fork() };
    fam_user_actions(&mut o, tier);
    fam_send(&mut o, tier);
    fam_rest(&mut o, tier);
    fam_levels(&mut o, tier);
    random(&mut o, n);
    o.reqs
}

/// `c20.deserred` requests for a content (only where the real redaction function can take it: the
/// content converts to canonical JSON), one per redaction-rules family.
fn push_deserred(o: &mut Out, c: &Value, cls: &str) {
    if ruma_common::CanonicalJsonValue::try_from(c.clone()).is_err() {
        return;
    }
    for ver in [1u32, 6, 10, 11] {
        o.reqs.push(Req::new(format!("c20.deserred {ver} {}", h_util::jtoks(c)), cls));
    }
}
